import Lean.Data.Json
import Np.Model.Basic
import Np.Model.Multiply
import Np.Model.CRat
import Np.Model.Arr
import Np.Model.Options
import Np.Model.Index
import Np.Model.Key
import Np.Model.Compare
import Np.Model.Dims
import Np.Model.Grad
import Np.Model.CallArr
import Np.Model.Align
import Np.Model.Construct
import Np.Model.RoutingTables
import Np.Model.Maps
import Np.Model.Div
import Np.Model.Text
import Np.Model.TextFile
import Np.Model.Print
import Np.Model.PrintText
import Np.Model.DivArr
import Np.Model.ExprPow
import Np.Model.DType
import Np.Model.ReduceFns
import Np.Model.ShapeFns
import Np.Model.IndexFns
import Np.Model.SelectFns
import Np.Model.BilinearFns
import Np.Model.AdvIndexFns
import Np.Model.GenIndexFns
import Np.Model.ConstFns
import Np.Model.ElemFns
import Np.Model.ReduceFns2
/-! line-protocol driver: one JSON case per line on stdin, the model's answer per line on stdout -/
open Lean Np Np.Shape

abbrev E := Except String

def jInt (j : Json) : E Int := j.getInt?
def jNat (j : Json) : E Nat := j.getNat?
def jList (j : Json) : E (List Json) := do pure (← j.getArr?).toList
def jNats (j : Json) : E (List Nat) := do (← jList j).mapM jNat
def jBoolD (j : Json) (k : String) (d : Bool) : Bool :=
  match j.getObjVal? k with | .ok (.bool b) => b | _ => d

def ratOf (n d : Int) : Rat := (n : Rat) / (d : Rat)

def parseCoef (j : Json) : E CRat :=
  match j with
  | .arr a =>
    if a.size == 2 then do pure ⟨ratOf (← jInt a[0]!) (← jInt a[1]!), 0⟩
    else if a.size == 4 then do
      pure ⟨ratOf (← jInt a[0]!) (← jInt a[1]!), ratOf (← jInt a[2]!) (← jInt a[3]!)⟩
    else throw "bad coefficient"
  | _ => do pure ⟨((← jInt j) : Rat), 0⟩

def showRat (q : Rat) : List Json := [toJson q.num, toJson (q.den : Int)]
def showCoef (c : CRat) : Json :=
  if c.im == 0 then (if c.re.den == 1 then toJson c.re.num else Json.arr (showRat c.re).toArray)
  else Json.arr (showRat c.re ++ showRat c.im).toArray

def mkVec (n : Nat) (l : List CRat) : E (Vec CRat n) :=
  let a := l.toArray
  if h : a.size = n then pure ⟨a, h⟩ else throw s!"column has {a.size} entries, shape needs {n}"

def parseArr (j : Json) : E (Arr CRat) := do
  let names ← jNats (← j.getObjVal? "names")
  let shape ← jNats (← j.getObjVal? "shape")
  let terms ← jList (← j.getObjVal? "terms")
  let terms ← terms.mapM fun t => do
    let a ← jList t
    match a with
    | [e, c] =>
      let e ← jNats e
      let c ← (← jList c).mapM parseCoef
      let v ← mkVec (size shape) c
      pure (e, v)
    | _ => throw "bad term"
  pure ⟨shape, { names := names, terms := terms }⟩

def showArr (a : Arr CRat) : Json :=
  Json.mkObj [("status", "ok"), ("kind", "poly"), ("shape", toJson a.shape), ("names", toJson a.poly.names),
    ("terms", Json.arr (a.poly.terms.map fun t =>
      Json.arr #[toJson t.1, Json.arr (t.2.toList.map showCoef).toArray]).toArray)]

def errName : Err → String
  | .construction => "construction" | .featureNotSupported => "featureNotSupported" | .typeError => "typeError"
  | .keyError => "keyError" | .valueError => "valueError" | .overflow => "overflow" | .decode => "decode"
  | .assertion => "assertion" | .uninit => "uninit" | .internal => "internal"

def showErr (e : Err) : Json :=
  Json.mkObj [("status", "err"), ("kind", errName e)]

partial def parseExpr (j : Json) : E Expr2 := do
  match j with
  | .arr a =>
    let op ← a[0]!.getStr?
    match op with
    | "leaf" => pure (.leaf (← jNat a[1]!))
    | "add" => pure (.add (← parseExpr a[1]!) (← parseExpr a[2]!))
    | "sub" => pure (.sub (← parseExpr a[1]!) (← parseExpr a[2]!))
    | "mul" => pure (.mul (← parseExpr a[1]!) (← parseExpr a[2]!))
    | "neg" => pure (.neg (← parseExpr a[1]!))
    | "pos" => pure (.pos (← parseExpr a[1]!))
    | "pow" => pure (.pow (← parseExpr a[1]!) (← jNat a[2]!))
    | "powarr" => pure (.powArr (← parseExpr a[1]!) (← jNats a[2]!) (← jNats a[3]!))
    | _ => throw "bad expr op"
  | _ => throw "bad expr"

def jKw (j : Json) : E (List (String × String)) := do
  (← jList j).mapM fun kv => do
    match ← jList kv with
    | [k, v] => pure (← k.getStr?, ← v.getStr?)
    | _ => throw "bad keyword pair"

partial def parseStmt (j : Json) : E Opt.Stmt := do
  let a ← jList j
  match a with
  | [] => throw "empty stmt"
  | h :: rest =>
    match (← h.getStr?), rest with
    | "set", [kw] => pure (.set (← jKw kw))
    | "with", [kw, body] => pure (.withBlock (← jKw kw) (← (← jList body).mapM parseStmt))
    | "raise", [e] => pure (.raise (← e.getStr?))
    | "try", [body] => pure (.tryCatch (← (← jList body).mapM parseStmt))
    | "mut", [k, v] => pure (.mutateCopy (← k.getStr?) (← v.getStr?))
    | "obs", [] => pure .observe
    | _, _ => throw "bad stmt"

def showOpts (o : Opt.Opts) : Json := Json.arr (o.map fun kv => Json.arr #[toJson kv.1, toJson kv.2]).toArray

def jInts (j : Json) : E (List Int) := do (← jList j).mapM jInt
def jNatRows (j : Json) : E (List (List Nat)) := do (← jList j).mapM jNats

def parseNorm (j : Json) : E Index.Norm :=
  match j with
  | .str "zero" => pure .zero
  | .str "inf" => pure .inf
  | .arr a => do pure (.rat (← jNat a[0]!) (← jNat a[1]!))
  | _ => throw "bad norm"

def jBool (j : Json) (k : String) : E Bool := do (← j.getObjVal? k).getBool?

/-- broadcast two arrays to their common shape and continue with same-length columns -/
def withBcast2 (a b : Arr CRat) (k : (s : List Nat) → Poly (Vec CRat (size s)) → Poly (Vec CRat (size s)) → E Json) : E Json :=
  match bshape a.shape b.shape with
  | none => pure (showErr .valueError)
  | some s =>
    match a.bcast s, b.bcast s with
    | some pa, some pb => k s pa pb
    | _, _ => throw "broadcast index out of range"

def showPolyAt (s : List Nat) (p : Poly (Vec CRat (size s))) : Json := showArr ⟨s, p⟩

def sortFlags (j : Json) : Bool × Bool :=
  let opts := (j.getObjVal? "opts").toOption.getD (Json.mkObj [])
  (jBoolD opts "sort_graded" true, jBoolD opts "sort_reverse" false)

def dtNames : List (String × Np.DT.DType) :=
  [("bool", .bool), ("int8", .i8), ("int16", .i16), ("int32", .i32), ("int64", .i64), ("uint8", .u8), ("uint16", .u16),
   ("uint32", .u32), ("uint64", .u64), ("float16", .f16), ("float32", .f32), ("float64", .f64), ("complex64", .c64),
   ("complex128", .c128)]
def dtOf (s : String) : E Np.DT.DType :=
  match dtNames.find? (·.1 == s) with | some p => pure p.2 | none => throw s!"unknown dtype {s}"
def dtName (d : Np.DT.DType) : String := ((dtNames.find? (·.2 == d)).map (·.1)).getD "?"

def runCase (j : Json) : E Json := do
  let op ← (← j.getObjVal? "op").getStr?
  let opts := (j.getObjVal? "opts").toOption.getD (Json.mkObj [])
  let rc := jBoolD opts "retain_coefficients" false
  let rn := jBoolD opts "retain_names" false
  match op with
  | "expr" =>
    let env ← (← jList (← j.getObjVal? "env")).mapM parseArr
    let t ← parseExpr (← j.getObjVal? "tree")
    match evalModel2 rc rn env t with
    | .ok r => pure (showArr r)
    | .error e => pure (showErr e)
  | "powarr" =>
    let a ← parseArr (← j.getObjVal? "a")
    let kshape ← jNats (← j.getObjVal? "kshape")
    let ks ← jNats (← j.getObjVal? "ks")
    match Arr.powArr rc rn a kshape ks with
    | .ok r => pure (showArr r)
    | .error e => pure (showErr e)
  | "opts" =>
    let init ← jKw (← j.getObjVal? "init")
    let prog ← (← jList (← j.getObjVal? "prog")).mapM parseStmt
    let r := Opt.exec prog init []
    let outcome := match r.2.1 with | .normal => "normal" | .raised e => e
    pure (Json.mkObj [("status", "ok"), ("kind", "opts"), ("final", showOpts r.1), ("outcome", outcome),
      ("log", Json.arr (r.2.2.map showOpts).toArray)])
  | "glexsort" =>
    let cols ← jNatRows (← j.getObjVal? "cols")
    pure (Json.mkObj [("status", "ok"), ("kind", "indices"),
      ("value", toJson (Index.glexsort (← jBool j "graded") (← jBool j "reverse") cols))])
  | "crosstrunc" =>
    let rows ← jNatRows (← j.getObjVal? "rows")
    let bound ← jInts (← j.getObjVal? "bound")
    let norm ← parseNorm (← j.getObjVal? "norm")
    pure (Json.mkObj [("status", "ok"), ("kind", "mask"),
      ("value", toJson (rows.map fun x => Index.crossTruncate x bound norm))])
  | "glexindex" =>
    let start ← jInts (← j.getObjVal? "start")
    let stop ← jInts (← j.getObjVal? "stop")
    let ct0 ← parseNorm (← j.getObjVal? "ct0")
    let ct1 ← parseNorm (← j.getObjVal? "ct1")
    let r := match (j.getObjVal? "ordering").toOption with
      | some (.str o) => Index.bindex false start stop ct0 ct1 o
      | _ => Index.glexindex false start stop ct0 ct1 (jBoolD j "graded" false) (jBoolD j "reverse" false)
    pure (Json.mkObj [("status", "ok"), ("kind", "rows"), ("value", toJson r)])
  | "keyrange" =>
    -- exponents in [lo, hi) the model says cannot be stored, and a round-trip check of those that can
    let lo ← jNat (← j.getObjVal? "lo")
    let hi ← jNat (← j.getObjVal? "hi")
    let off := Generated.keyOffset
    let bad := (List.range (hi - lo)).filterMap fun i =>
      match Key.encodeKey off [lo + i] with
      | none => some (lo + i)
      | some k => if Key.decodeKey off k == [lo + i] then none else some (lo + i)
    pure (Json.mkObj [("status", "ok"), ("kind", "invalid"), ("value", toJson bad)])
  | "storekey" =>
    -- the constructor's treatment of an exponent row given as 64-bit integers (repaired / before D56)
    let e ← (← jList (← j.getObjVal? "e")).mapM fun v => v.getInt?
    pure (Json.mkObj [("status", "ok"), ("kind", "key"), ("value", toJson (Key.storeKey Generated.keyOffset e)),
      ("old", toJson (Key.storeKeyOld Generated.keyOffset e))])
  | "mulkey" =>
    let e1 ← jNats (← j.getObjVal? "e1")
    let e2 ← jNats (← j.getObjVal? "e2")
    let sums := List.zipWith (· + ·) e1 e2
    let r := Key.mulKeyPath Generated.keyOffset (jBoolD j "dtypeOk" true) (sums.foldl max 0) e1 e2
    let old := Key.mulKey Generated.keyOffset e1 e2
    pure (Json.mkObj [("status", "ok"), ("kind", "key"), ("value", toJson r), ("old", toJson old),
      ("exact", toJson (Key.encodeKey Generated.keyOffset sums))])
  | "compare" =>
    let a ← parseArr (← j.getObjVal? "a")
    let b ← parseArr (← j.getObjVal? "b")
    let rel ← (← j.getObjVal? "rel").getStr?
    let (g, r) := sortFlags j
    withBcast2 a b fun s pa pb => do
      let mask ← match rel with
        | "gt" => pure (compareArr CRat.lt .gt g r pa pb)
        | "ge" => pure (compareArr CRat.lt .ge g r pa pb)
        | "lt" => pure (compareArr CRat.lt .lt g r pa pb)
        | "le" => pure (compareArr CRat.lt .le g r pa pb)
        | "eq" => pure (equalArr pa pb)
        | "ne" => pure (notEqualArr pa pb)
        | _ => throw "bad rel"
      pure (Json.mkObj [("status", "ok"), ("kind", "mask"), ("shape", toJson s), ("value", toJson mask.toList)])
  | "maxmin" =>
    let a ← parseArr (← j.getObjVal? "a")
    let b ← parseArr (← j.getObjVal? "b")
    let which ← (← j.getObjVal? "which").getStr?
    let (g, r) := sortFlags j
    withBcast2 a b fun s pa pb =>
      pure (showPolyAt s (if which == "max" then maximumArr CRat.lt rc rn g r pa pb else minimumArr CRat.lt rc rn g r pa pb))
  | "lead" =>
    let a ← parseArr (← j.getObjVal? "a")
    let l := leadArr (← jBool j "graded") (← jBool j "reverse") a.poly
    pure (Json.mkObj [("status", "ok"), ("kind", "lead"), ("shape", toJson a.shape),
      ("exponents", toJson (l.toList.map (·.1))), ("coefficients", Json.arr (l.toList.map fun t => showCoef t.2).toArray)])
  | "proxy" =>
    let a ← parseArr (← j.getObjVal? "a")
    let g ← jBool j "graded"
    let r ← jBool j "reverse"
    let keys := proxyKey CRat.lt g r a.poly
    pure (Json.mkObj [("status", "ok"), ("kind", "proxy"), ("value", toJson (proxyArr CRat.lt g r a.poly)),
      ("keys", Json.arr (keys.map fun k => Json.arr #[toJson k.1, showCoef k.2]).toArray)])
  | "isconstant" =>
    let a ← parseArr (← j.getObjVal? "a")
    pure (Json.mkObj [("status", "ok"), ("kind", "bool"), ("value", toJson (isConstant a.poly))])
  | "tonumpy" =>
    let a ← parseArr (← j.getObjVal? "a")
    match toNumpy a.poly with
    | some v => pure (Json.mkObj [("status", "ok"), ("kind", "array"), ("shape", toJson a.shape),
        ("value", Json.arr (v.toList.map showCoef).toArray)])
    | none => pure (showErr .featureNotSupported)
  | "setdims" =>
    let a ← parseArr (← j.getObjVal? "a")
    match (j.getObjVal? "names").toOption with
    | some nm => pure (showArr ⟨a.shape, setDimsAdd rc (← jNats nm) a.poly⟩)
    | none => pure (showArr ⟨a.shape, setDimsDrop rc (← jNat (← j.getObjVal? "dims")) a.poly⟩)
  | "decompose" =>
    let a ← parseArr (← j.getObjVal? "a")
    let d := decompose a.poly
    let shape := a.poly.terms.length :: a.shape
    if h : a.poly.terms.length * size a.shape = size shape then
      pure (showArr ⟨shape, h ▸ d⟩)
    else throw "decompose: size mismatch"
  | "deriv" =>
    let a ← parseArr (← j.getObjVal? "a")
    let vars ← jNats (← j.getObjVal? "vars")
    if vars.any (fun v => v ≥ a.poly.names.length) then pure (showErr .valueError)
    else pure (showArr ⟨a.shape, derivativeMany rn vars a.poly⟩)
  | "gradient" =>
    let a ← parseArr (← j.getObjVal? "a")
    let g := gradient rc rn a.poly
    let shape := a.poly.names.length :: a.shape
    if h : ((List.range a.poly.names.length).map fun j => derivative rn j a.poly).length * size a.shape = size shape then
      pure (showArr ⟨shape, h ▸ g⟩)
    else throw "gradient: size mismatch"
  | "hessian" =>
    let a ← parseArr (← j.getObjVal? "a")
    let g := gradient rc rn a.poly
    let g' : Poly _ := alignIndet (sortDedup natLt (g.names ++ a.poly.names)) g
    let hs := hessianOf rc rn a.poly
    let shape := a.poly.names.length :: a.poly.names.length :: a.shape
    if h : (a.poly.names.map fun x => derivative rn (g'.names.idxOf x) g').length *
        (((List.range a.poly.names.length).map fun j => derivative rn j a.poly).length * size a.shape) = size shape then
      pure (showArr ⟨shape, h ▸ hs⟩)
    else throw "hessian: size mismatch"
  | "call" =>
    let a ← parseArr (← j.getObjVal? "a")
    let args ← (← jList (← j.getObjVal? "args")).mapM fun x =>
      match x with
      | .null => pure (none : Option (Arr CRat))
      | v => do pure (some (← parseArr v))
    let kwargs ← (← jList (← j.getObjVal? "kwargs")).mapM fun kv => do
      match ← jList kv with
      | [k, .null] => pure ((← jNat k), (none : Option (Arr CRat)))
      | [k, v] => pure ((← jNat k), some (← parseArr v))
      | _ => throw "bad kwarg"
    match bindArgsN a.poly.names args kwargs with
    | none => pure (showErr .typeError)
    | some params =>
      match callArr rc rn a params with
      | .error e => pure (showErr e)
      | .array shape vals => pure (Json.mkObj [("status", "ok"), ("kind", "array"), ("shape", toJson shape),
          ("value", Json.arr (vals.map showCoef).toArray)])
      | .poly r => pure (showArr r)
  | "align" =>
    let which ← (← j.getObjVal? "which").getStr?
    let ps ← (← jList (← j.getObjVal? "polys")).mapM parseArr
    let r : Except Err (List (Arr CRat)) := match which with
      | "shape" => alignShapeAll rc rn ps
      | "indeterminants" => .ok (alignIndetAll ps)
      | "exponents" => .ok (alignExpoAll ps)
      | _ => alignPolynomialsAll rc rn ps
    match r with
    | .ok rs => pure (Json.mkObj [("status", "ok"), ("kind", "polys"), ("value", Json.arr (rs.map showArr).toArray)])
    | .error e => pure (showErr e)
  | "fromattr" =>
    let shape ← jNats (← j.getObjVal? "shape")
    let expos ← jNatRows (← j.getObjVal? "expos")
    let cols ← (← jList (← j.getObjVal? "cols")).mapM fun c => do
      mkVec (size shape) (← (← jList c).mapM parseCoef)
    let names ← match (j.getObjVal? "names").toOption with
      | some .null => pure none
      | some nm => do pure (some (← jNats nm))
      | none => pure none
    match fromAttributes rc rn names expos cols with
    | some p => pure (showArr ⟨shape, p⟩)
    | none => pure (showErr .construction)
  | "resolve" =>
    let kind ← (← j.getObjVal? "kind").getStr?
    let name ← (← j.getObjVal? "name").getStr?
    let out := if kind == "ufunc" then
        Routing.arrayUfunc Routing.shipped name ((j.getObjVal? "method").toOption.bind (·.getStr?.toOption) |>.getD "__call__")
      else Routing.arrayFunction Routing.shipped name
    pure (match out with
      | .forward impl => Json.mkObj [("status", "ok"), ("kind", "forward"), ("impl", impl)]
      | .featureNotSupported => showErr .featureNotSupported
      | .otherError e => Json.mkObj [("status", "err"), ("kind", e)])
  | "gather" =>
    let ops ← (← jList (← j.getObjVal? "polys")).mapM parseArr
    let shape ← jNats (← j.getObjVal? "shape")
    let idx ← jNats (← j.getObjVal? "index")
    pure (showArr (gatherOp rc rn ops shape idx))
  | "linear" =>
    let a ← parseArr (← j.getObjVal? "a")
    let shape ← jNats (← j.getObjVal? "shape")
    let W ← (← jList (← j.getObjVal? "W")).mapM fun row => do
      (← jList row).mapM fun jw => do
        match ← jList jw with
        | [jj, w] => pure ((← jNat jj), (← parseCoef w))
        | _ => throw "bad weight"
    pure (showArr (linearOp rc rn a shape W))
  | "reducetable" =>
    -- numpy's index arithmetic for the reductions, computed by the proved tables of Np/Model/ReduceFns.lean
    let fn ← (← j.getObjVal? "fn").getStr?
    let shape ← jNats (← j.getObjVal? "shape")
    let keep := jBoolD j "keepdims" false
    let n := ((j.getObjVal? "n").toOption.bind (·.getNat?.toOption)).getD 1
    let axisJ := (j.getObjVal? "axis").toOption.getD Json.null
    let showT := fun (r : List Nat × ReduceFns.Table) (den : Nat) =>
      Json.mkObj [("status", "ok"), ("kind", "table"), ("shape", toJson r.1), ("den", toJson den),
        ("W", Json.arr (r.2.map fun row => Json.arr (row.map fun pw => Json.arr #[toJson pw.1, toJson pw.2]).toArray).toArray)]
    let none_ := Json.mkObj [("status", "ok"), ("kind", "none")]
    let res : Option (List Nat × ReduceFns.Table × Nat) ←
      match fn, axisJ with
      | "sum", .null => pure ((ReduceFns.sumAllW shape keep).map fun r => (r.1, r.2, 1))
      | "sum", .arr _ => do pure ((ReduceFns.sumAxesW shape (← jNats axisJ) keep).map fun r => (r.1, r.2, 1))
      | "sum", _ => do pure ((ReduceFns.sumAxisW shape (← jNat axisJ) keep).map fun r => (r.1, r.2, 1))
      | "mean", .null => pure (ReduceFns.meanAllW shape keep)
      | "mean", .arr _ => do
        let axes ← jNats axisJ
        let den := (axes.map fun a => shape.getD a 1).foldl (· * ·) 1
        pure ((ReduceFns.sumAxesW shape axes keep).map fun r => (r.1, r.2, den))
      | "mean", _ => do pure (ReduceFns.meanAxisW shape (← jNat axisJ) keep)
      | "cumsum", .null => pure ((ReduceFns.cumsumFlatW shape).map fun r => (r.1, r.2, 1))
      | "cumsum", _ => do pure ((ReduceFns.cumsumAxisW shape (← jNat axisJ)).map fun r => (r.1, r.2, 1))
      | "diff", _ => do pure ((ReduceFns.diffNW shape n (← jNat axisJ)).map fun r => (r.1, r.2, 1))
      | "ediff1d", _ => pure ((ReduceFns.ediff1dW shape).map fun r => (r.1, r.2, 1))
      | _, _ => throw s!"unknown reduction {fn}"
    match res with
    | some (s, t, d) => pure (showT (s, t) d)
    | none => pure none_
  | "prodtable" =>
    let shape ← jNats (← j.getObjVal? "shape")
    let keep := jBoolD j "keepdims" false
    let axis ← jNat (← j.getObjVal? "axis")
    match ReduceFns.prodAxisGroups shape axis keep with
    | some (s, g) => pure (Json.mkObj [("status", "ok"), ("kind", "groups"), ("shape", toJson s), ("groups", toJson g)])
    | none => pure (Json.mkObj [("status", "ok"), ("kind", "none")])
  | "shapefn" =>
    -- numpy's index arithmetic for the shape functions, computed by the proved maps of Np/Model/ShapeFns.lean
    let fn ← (← j.getObjVal? "fn").getStr?
    let nat := fun (k : String) => do jNat (← j.getObjVal? k)
    let show1 := fun (r : Option (List Nat × List Nat)) => match r with
      | some (s, idx) => Json.mkObj [("status", "ok"), ("kind", "gather"), ("shape", toJson s), ("idx", toJson idx)]
      | none => Json.mkObj [("status", "ok"), ("kind", "none")]
    let showN := fun (r : Option (List Nat × List (Nat × Nat))) => match r with
      | some (s, idx) => Json.mkObj [("status", "ok"), ("kind", "gatherN"), ("shape", toJson s),
          ("idx", Json.arr (idx.map fun p => Json.arr #[toJson p.1, toJson p.2]).toArray)]
      | none => Json.mkObj [("status", "ok"), ("kind", "none")]
    match fn with
    | "transpose" => pure (show1 (ShapeFns.transposeF (← jNats (← j.getObjVal? "shape")) (← jNats (← j.getObjVal? "perm"))))
    | "moveaxis" => pure (show1 (ShapeFns.moveaxisF (← jNats (← j.getObjVal? "shape")) (← nat "src") (← nat "dst")))
    | "moveaxis_seq" => pure (show1 (ShapeFns.moveaxisSeqF (← jNats (← j.getObjVal? "shape")) (← jNats (← j.getObjVal? "src")) (← jNats (← j.getObjVal? "dst"))))
    | "swapaxes" => pure (show1 (ShapeFns.swapaxesF (← jNats (← j.getObjVal? "shape")) (← nat "a") (← nat "b")))
    | "expand_dims" => pure (show1 (ShapeFns.expandDimsF (← jNats (← j.getObjVal? "shape")) (← nat "axis")))
    | "reshape" => pure (show1 (ShapeFns.reshapeF (← jNats (← j.getObjVal? "shape")) (← jNats (← j.getObjVal? "newshape"))))
    | "repeat" => pure (show1 (ShapeFns.repeatF (← jNats (← j.getObjVal? "shape")) (← nat "k") (← nat "axis")))
    | "tile" => pure (show1 (ShapeFns.tileF (← jNats (← j.getObjVal? "shape")) (← jNats (← j.getObjVal? "reps"))))
    | "diagonal" => do
      let off ← (← j.getObjVal? "offset").getInt?
      pure (show1 (ShapeFns.diagonalF (← jNats (← j.getObjVal? "shape")) off (← nat "ax1") (← nat "ax2")))
    | "concatenate" => pure (showN (ShapeFns.concatF (← jNatRows (← j.getObjVal? "shapes")) (← nat "axis")))
    | "stack" => pure (showN (ShapeFns.stackF (← jNatRows (← j.getObjVal? "shapes")) (← nat "axis")))
    | _ => throw s!"unknown shape function {fn}"
  | "indexfn" =>
    -- basic indexing, split family, diag, atleast_nd, broadcast_to by the proved maps of Np/Model/IndexFns.lean
    let fn ← (← j.getObjVal? "fn").getStr?
    let nat := fun (k : String) => do jNat (← j.getObjVal? k)
    let shape ← jNats (← j.getObjVal? "shape")
    let optInt := fun (x : Json) => match x with | .null => (pure none : E (Option Int)) | _ => do pure (some (← x.getInt?))
    let none_ := Json.mkObj [("status", "ok"), ("kind", "none")]
    let show1 := fun (r : Option (List Nat × List Nat)) => match r with
      | some (s, idx) => Json.mkObj [("status", "ok"), ("kind", "gather"), ("shape", toJson s), ("idx", toJson idx)]
      | none => none_
    let showPieces := fun (r : Option (List (List Nat × List Nat))) => match r with
      | some ps => Json.mkObj [("status", "ok"), ("kind", "pieces"),
          ("pieces", Json.arr (ps.map fun q => Json.mkObj [("shape", toJson q.1), ("idx", toJson q.2)]).toArray)]
      | none => none_
    match fn with
    | "basic" => do
      let items ← (← jList (← j.getObjVal? "items")).mapM fun it => do
        match it with
        | .str "newaxis" => pure IndexFns.Item.newaxis
        | .str "ellipsis" => pure IndexFns.Item.ellipsis
        | _ =>
          match it.getObjVal? "int" with
          | .ok v => do pure (IndexFns.Item.int (← v.getInt?))
          | .error _ => do
            match ← jList (← it.getObjVal? "slice") with
            | [a, b, c] => do pure (IndexFns.Item.slice (← optInt a) (← optInt b) (← c.getInt?))
            | _ => throw "bad slice"
      pure (show1 (IndexFns.basicIndexF shape items))
    | "split" => pure (showPieces (IndexFns.splitF shape (← nat "axis") (← jNats (← j.getObjVal? "sections"))))
    | "array_split" => pure (showPieces (IndexFns.arraySplitF shape (← nat "axis") (← nat "k")))
    | "split_equal" => pure (showPieces (IndexFns.splitEqualF shape (← nat "axis") (← nat "k")))
    | "atleast" => pure (show1 (IndexFns.atleastF (← nat "d") shape))
    | "broadcast_to" => pure (show1 (IndexFns.broadcastToF shape (← jNats (← j.getObjVal? "target"))))
    | "diag" => do
      match IndexFns.diagF shape (← (← j.getObjVal? "k").getInt?) with
      | some (s, idx) => pure (Json.mkObj [("status", "ok"), ("kind", "gatherfill"), ("shape", toJson s),
          ("idx", Json.arr (idx.map fun o => match o with | some x => toJson x | none => Json.null).toArray)])
      | none => pure none_
    | _ => throw s!"unknown index function {fn}"
  | "selectfn" =>
    let fn ← (← j.getObjVal? "fn").getStr?
    let showN := fun (r : Option (List Nat × List (Nat × Nat))) => match r with
      | some (s, idx) => Json.mkObj [("status", "ok"), ("kind", "gatherN"), ("shape", toJson s),
          ("idx", Json.arr (idx.map fun p => Json.arr #[toJson p.1, toJson p.2]).toArray)]
      | none => Json.mkObj [("status", "ok"), ("kind", "none")]
    match fn with
    | "where" => do
      let cond ← (← jList (← j.getObjVal? "cond")).mapM fun b => b.getBool?
      pure (showN (SelectFns.whereF cond (← jNats (← j.getObjVal? "sc")) (← jNats (← j.getObjVal? "sx")) (← jNats (← j.getObjVal? "sy"))))
    | "choose" => pure (showN (SelectFns.chooseF (← jNats (← j.getObjVal? "sel")) (← jNats (← j.getObjVal? "ss")) (← jNatRows (← j.getObjVal? "shapes"))))
    | "full" =>
      match SelectFns.fullF (← jNats (← j.getObjVal? "shape")) (← jNats (← j.getObjVal? "sv")) with
      | some (s, idx) => pure (Json.mkObj [("status", "ok"), ("kind", "gather"), ("shape", toJson s), ("idx", toJson idx)])
      | none => pure (Json.mkObj [("status", "ok"), ("kind", "none")])
    | "hstack" => pure (showN (SelectFns.hstackF (← jNatRows (← j.getObjVal? "shapes"))))
    | "vstack" => pure (showN (SelectFns.vstackF (← jNatRows (← j.getObjVal? "shapes"))))
    | "dstack" => pure (showN (SelectFns.dstackF (← jNatRows (← j.getObjVal? "shapes"))))
    | _ => throw s!"unknown select function {fn}"
  | "bilineartable" =>
    let fn ← (← j.getObjVal? "fn").getStr?
    let showP := fun (r : Option (List Nat × BilinearFns.Pairs)) => match r with
      | some (s, ps) => Json.mkObj [("status", "ok"), ("kind", "pairs"), ("shape", toJson s),
          ("pairs", Json.arr (ps.map fun p => Json.arr #[toJson p.1, toJson p.2]).toArray)]
      | none => Json.mkObj [("status", "ok"), ("kind", "none")]
    match fn with
    | "outer" => pure (showP (BilinearFns.outerP (← jNats (← j.getObjVal? "sa")) (← jNats (← j.getObjVal? "sb"))))
    | "inner" => pure (showP (BilinearFns.innerVecP (← jNat (← j.getObjVal? "n"))))
    | "matmul" => pure (showP (BilinearFns.matmulAnyP (← jNats (← j.getObjVal? "sa")) (← jNats (← j.getObjVal? "sb"))))
    | _ => throw s!"unknown bilinear function {fn}"
  | "advindexfn" =>
    -- integer-array indexing, take, repeat with an array of counts (Np/Model/AdvIndexFns.lean)
    let fn ← (← j.getObjVal? "fn").getStr?
    let shape ← jNats (← j.getObjVal? "shape")
    let jInts := fun (x : Json) => do (← jList x).mapM fun v => v.getInt?
    let jIx := fun (x : Json) => do
      pure ((← jNats (← x.getObjVal? "shape")), (← jInts (← x.getObjVal? "data")))
    let show1 := fun (r : Option (List Nat × List Nat)) => match r with
      | some (s, idx) => Json.mkObj [("status", "ok"), ("kind", "gather"), ("shape", toJson s), ("idx", toJson idx)]
      | none => Json.mkObj [("status", "ok"), ("kind", "none")]
    match fn with
    | "mixed" => do
      let items ← (← jList (← j.getObjVal? "items")).mapM fun it => match it with
        | .null => (pure none : E (Option (List Nat × List Int)))
        | _ => do pure (some (← jIx it))
      pure (show1 (AdvIndexFns.mixedIndexF shape items))
    | "take" => pure (show1 (AdvIndexFns.takeF shape (← jIx (← j.getObjVal? "ix")) (← jNat (← j.getObjVal? "axis"))))
    | "repeats" => pure (show1 (AdvIndexFns.repeatsF shape (← jNats (← j.getObjVal? "reps")) (← jNat (← j.getObjVal? "axis"))))
    | _ => throw s!"unknown advanced index function {fn}"
  | "genindexfn" =>
    -- the general index expression a[items]: ints, slices, newaxis, ellipsis, integer arrays, boolean masks
    -- (Np/Model/GenIndexFns.lean)
    let shape ← jNats (← j.getObjVal? "shape")
    let optInt := fun (x : Json) => match x with | .null => (pure none : E (Option Int)) | _ => do pure (some (← x.getInt?))
    let jInts := fun (x : Json) => do (← jList x).mapM fun v => v.getInt?
    let items ← (← jList (← j.getObjVal? "items")).mapM fun it => do
      match it with
      | .str "newaxis" => pure GenIndexFns.GItem.newaxis
      | .str "ellipsis" => pure GenIndexFns.GItem.ellipsis
      | _ =>
        match it.getObjVal? "int" with
        | .ok v => do pure (GenIndexFns.GItem.int (← v.getInt?))
        | .error _ =>
          match it.getObjVal? "slice" with
          | .ok v => do
            match ← jList v with
            | [a, b, c] => do pure (GenIndexFns.GItem.slice (← optInt a) (← optInt b) (← c.getInt?))
            | _ => throw "bad slice"
          | .error _ =>
            match it.getObjVal? "arr" with
            | .ok v => do
              pure (GenIndexFns.GItem.arr ((← jNats (← v.getObjVal? "shape")), (← jInts (← v.getObjVal? "data"))))
            | .error _ => do
              let v ← it.getObjVal? "mask"
              let bits ← (← jList (← v.getObjVal? "data")).mapM fun b => b.getBool?
              pure (GenIndexFns.GItem.mask (← jNats (← v.getObjVal? "shape")) bits)
    match GenIndexFns.genIndexF shape items with
    | some (s, idx) => pure (Json.mkObj [("status", "ok"), ("kind", "gather"), ("shape", toJson s), ("idx", toJson idx)])
    | none => pure (Json.mkObj [("status", "ok"), ("kind", "none")])
  | "constfn" =>
    -- numpy's semantics on integer / rational value arrays (Np/Model/ConstFns.lean)
    let fn ← (← j.getObjVal? "fn").getStr?
    let jInts := fun (x : Json) => do (← jList x).mapM fun v => v.getInt?
    let none_ := Json.mkObj [("status", "ok"), ("kind", "none")]
    let showNat := fun (r : Option (List Nat × List Nat)) => match r with
      | some (s, v) => Json.mkObj [("status", "ok"), ("kind", "values"), ("shape", toJson s), ("values", toJson v)]
      | none => none_
    let showInt := fun (r : Option (List Nat × List Int)) => match r with
      | some (s, v) => Json.mkObj [("status", "ok"), ("kind", "values"), ("shape", toJson s), ("values", toJson v)]
      | none => none_
    let showBool := fun (r : Option (List Nat × List Bool)) => match r with
      | some (s, v) => Json.mkObj [("status", "ok"), ("kind", "values"), ("shape", toJson s), ("values", toJson v)]
      | none => none_
    let frac := fun (x : Json) => do
      match ← jList x with
      | [a, b] => pure ((← a.getInt?), (← jNat b))
      | _ => throw "bad fraction"
    match fn with
    | "argmax" | "argmin" | "amax" | "amin" | "count_nonzero" | "any" | "all" => do
      let shape ← jNats (← j.getObjVal? "shape")
      let xs ← jInts (← j.getObjVal? "xs")
      let axis ← jNat (← j.getObjVal? "axis")
      match fn with
      | "argmax" => pure (showNat (ConstFns.argmaxAxis shape xs axis))
      | "argmin" => pure (showNat (ConstFns.argminAxis shape xs axis))
      | "amax" => pure (showInt (ConstFns.amaxAxis shape xs axis))
      | "amin" => pure (showInt (ConstFns.aminAxis shape xs axis))
      | "count_nonzero" => pure (showNat (ConstFns.countNonzeroAxis shape xs axis))
      | "any" => pure (showBool (ConstFns.anyAxis shape xs axis))
      | _ => pure (showBool (ConstFns.allAxis shape xs axis))
    | "argmax_flat" => do
      let xs ← jInts (← j.getObjVal? "xs")
      pure (Json.mkObj [("status", "ok"), ("kind", "scalar"), ("value", match ConstFns.argmaxFlat xs with | some i => toJson i | none => Json.null)])
    | "argmin_flat" => do
      let xs ← jInts (← j.getObjVal? "xs")
      pure (Json.mkObj [("status", "ok"), ("kind", "scalar"), ("value", match ConstFns.argminFlat xs with | some i => toJson i | none => Json.null)])
    | "nonzero" => do
      let shape ← jNats (← j.getObjVal? "shape")
      let xs ← jInts (← j.getObjVal? "xs")
      pure (Json.mkObj [("status", "ok"), ("kind", "lists"), ("values", toJson (ConstFns.nonzeroF shape xs))])
    | "divmod" => do
      let a ← jInts (← j.getObjVal? "a")
      let b ← jInts (← j.getObjVal? "b")
      pure (Json.mkObj [("status", "ok"), ("kind", "divmod"),
        ("q", toJson (List.zipWith ConstFns.floorDiv a b)), ("r", toJson (List.zipWith ConstFns.pyMod a b))])
    | "round" => do
      let qs ← (← jList (← j.getObjVal? "qs")).mapM frac
      pure (Json.mkObj [("status", "ok"), ("kind", "round"), ("floor", toJson (qs.map ConstFns.floorQ)),
        ("ceil", toJson (qs.map ConstFns.ceilQ)), ("rint", toJson (qs.map ConstFns.rintQ))])
    | "isclose" => do
      let a ← (← jList (← j.getObjVal? "a")).mapM frac
      let b ← (← jList (← j.getObjVal? "b")).mapM frac
      let rtol ← frac (← j.getObjVal? "rtol")
      let atol ← frac (← j.getObjVal? "atol")
      pure (Json.mkObj [("status", "ok"), ("kind", "values"), ("shape", toJson [a.length]),
        ("values", toJson (List.zipWith (fun x y => ConstFns.iscloseQ x y rtol atol) a b))])
    | _ => throw s!"unknown constant function {fn}"
  | "elemfn" =>
    -- numpy's element-wise functions with broadcasting on integer arrays (Np/Model/ElemFns.lean)
    let fn ← (← j.getObjVal? "fn").getStr?
    let jInts := fun (x : Json) => do (← jList x).mapM fun v => v.getInt?
    let sa ← jNats (← j.getObjVal? "sa")
    let sb ← jNats (← j.getObjVal? "sb")
    let xs ← jInts (← j.getObjVal? "xs")
    let ys ← jInts (← j.getObjVal? "ys")
    let none_ := Json.mkObj [("status", "ok"), ("kind", "none")]
    let showI := fun (r : Option (List Nat × List Int)) => match r with
      | some (s, v) => Json.mkObj [("status", "ok"), ("kind", "values"), ("shape", toJson s), ("values", toJson v)]
      | none => none_
    let showB := fun (r : Option (List Nat × List Bool)) => match r with
      | some (s, v) => Json.mkObj [("status", "ok"), ("kind", "values"), ("shape", toJson s), ("values", toJson v)]
      | none => none_
    match fn with
    | "add" => pure (showI (ElemFns.addF sa sb xs ys))
    | "subtract" => pure (showI (ElemFns.subF sa sb xs ys))
    | "multiply" => pure (showI (ElemFns.mulF sa sb xs ys))
    | "maximum" => pure (showI (ElemFns.maximumF sa sb xs ys))
    | "minimum" => pure (showI (ElemFns.minimumF sa sb xs ys))
    | "floor_divide" => pure (showI (ElemFns.floorDivideF sa sb xs ys))
    | "remainder" => pure (showI (ElemFns.remainderF sa sb xs ys))
    | "power" => pure (showI (ElemFns.powerF sa sb xs ys))
    | "equal" => pure (showB (ElemFns.equalF sa sb xs ys))
    | "not_equal" => pure (showB (ElemFns.notEqualF sa sb xs ys))
    | "less" => pure (showB (ElemFns.lessF sa sb xs ys))
    | "less_equal" => pure (showB (ElemFns.lessEqualF sa sb xs ys))
    | "greater" => pure (showB (ElemFns.greaterF sa sb xs ys))
    | "greater_equal" => pure (showB (ElemFns.greaterEqualF sa sb xs ys))
    | "logical_and" => pure (showB (ElemFns.logicalAndF sa sb xs ys))
    | "logical_or" => pure (showB (ElemFns.logicalOrF sa sb xs ys))
    | "logical_xor" => pure (showB (ElemFns.logicalXorF sa sb xs ys))
    | _ => throw s!"unknown element-wise function {fn}"
  | "reducetable2" =>
    -- diff with prepend / append, ediff1d with to_begin / to_end, prod / mean over axis tuples (Np/Model/ReduceFns2.lean)
    let fn ← (← j.getObjVal? "fn").getStr?
    let shape ← jNats (← j.getObjVal? "shape")
    let optShape := fun (k : String) => match j.getObjVal? k with
      | .ok .null => (pure none : E (Option (List Nat)))
      | .ok v => do pure (some (← jNats v))
      | .error _ => pure none
    let show3 := fun (s : List Nat) (t : List (List (Nat × Nat × Int))) =>
      Json.mkObj [("status", "ok"), ("kind", "table3"), ("shape", toJson s),
        ("W", Json.arr (t.map fun row => Json.arr (row.map fun e => Json.arr #[toJson e.1, toJson e.2.1, toJson e.2.2]).toArray).toArray)]
    match fn with
    | "diffpad" =>
      match ReduceFns2.diffPadW shape (← jNat (← j.getObjVal? "n")) (← jNat (← j.getObjVal? "axis")) (← optShape "pre") (← optShape "post") with
      | some (s, t) => pure (show3 s t)
      | none => pure (Json.mkObj [("status", "ok"), ("kind", "none")])
    | "ediff1dpad" => do
      let nb ← jNat (← j.getObjVal? "nbegin")
      let ne ← jNat (← j.getObjVal? "nend")
      let t := ReduceFns2.ediff1dPadW shape nb ne
      pure (show3 [t.length] t)
    | "prodaxes" =>
      match ReduceFns2.prodAxesG shape (← jNats (← j.getObjVal? "axes")) (jBoolD j "keepdims" false) with
      | some (s, g) => pure (Json.mkObj [("status", "ok"), ("kind", "groups"), ("shape", toJson s), ("groups", toJson g)])
      | none => pure (Json.mkObj [("status", "ok"), ("kind", "none")])
    | _ => throw s!"unknown reduction {fn}"
  | "bilinear" =>
    let a ← parseArr (← j.getObjVal? "a")
    let b ← parseArr (← j.getObjVal? "b")
    let shape ← jNats (← j.getObjVal? "shape")
    let pairs ← (← jList (← j.getObjVal? "pairs")).mapM fun pr => do
      match ← jList pr with
      | [x, y] => pure ((← jNats x), (← jNats y))
      | _ => throw "bad pair"
    match bilinearOp rc rn a b shape pairs with
    | some r => pure (showArr r)
    | none => pure (showErr .uninit)
  | "prodgroups" =>
    let a ← parseArr (← j.getObjVal? "a")
    let shape ← jNats (← j.getObjVal? "shape")
    let groups ← jNatRows (← j.getObjVal? "groups")
    match prodOp rc rn a shape groups with
    | some r => pure (showArr r)
    | none => pure (showErr .uninit)
  | "det" =>
    let a ← parseArr (← j.getObjVal? "a")
    let n ← jNat (← j.getObjVal? "n")
    let batch ← jNats (← j.getObjVal? "batch")
    -- entry (r, c) over the batch positions: flat index = batchpos * n * n + r * n + c  (1-based for gatherFill)
    let bsize := size batch
    let entry := fun (r c : Nat) =>
      mapCoef (gatherFill bsize ((List.range bsize).map fun k => k * n * n + r * n + c + 1)) a.poly
    let rows := (List.range n).map fun r => (List.range n).map fun c => entry r c
    match detPoly rc rn n rows with
    | some d => pure (showArr ⟨batch, d⟩)
    | none => pure (showErr .uninit)
  | "divmod" =>
    -- element-wise long division of two arrays already broadcast by the model to a common shape and names
    let a ← parseArr (← j.getObjVal? "a")
    let b ← parseArr (← j.getObjVal? "b")
    let fuel := ((j.getObjVal? "fuel").toOption.bind (·.getNat?.toOption)).getD 500
    -- the array-level division of the model (Np/Model/DivArr.lean; specification in Np/Proofs/DivArr.lean)
    let showTerms := fun (ts : List (Expo × CRat)) => Json.arr (ts.map fun t => Json.arr #[toJson t.1, showCoef t.2]).toArray
    match divmodArr fuel a b with
    | .error e => pure (showErr e)
    | .ok (s, names, elems) =>
      pure (Json.mkObj [("status", "ok"), ("kind", "divmod"), ("shape", toJson s), ("names", toJson names),
        ("elements", Json.arr (elems.map fun r => match r with
          | some qr => Json.mkObj [("q", showTerms qr.1), ("r", showTerms qr.2)]
          | none => Json.mkObj [("timeout", true)]).toArray)])
  | "header" =>
    let names ← jNatRows (← j.getObjVal? "names")
    let keys ← jNatRows (← j.getObjVal? "keys")
    let shape ← jNats (← j.getObjVal? "shape")
    let h : Text.Header := ⟨names, keys, shape⟩
    let text := Text.format h
    let back := Text.parse text
    pure (Json.mkObj [("status", "ok"), ("kind", "header"), ("text", toJson text),
      ("roundtrip", toJson (back == some h)),
      ("parsed", match back with
        | some b => Json.mkObj [("names", toJson b.names), ("keys", toJson b.keys), ("shape", toJson b.shape)]
        | none => Json.null)])
  | "textfile" =>
    -- the whole text file of the proved model (Np/Model/TextFile.lean) with the decimal codec: the lines `save` writes,
    -- its own round trip, and what `load` makes of the lines the implementation wrote
    let names ← jNatRows (← j.getObjVal? "names")
    let keys ← jNatRows (← j.getObjVal? "keys")
    let shape ← jNats (← j.getObjVal? "shape")
    let cols ← jNatRows (← j.getObjVal? "cols")
    let delim ← jNat (← j.getObjVal? "delim")
    let given ← jNatRows (← j.getObjVal? "lines")
    let h : Text.Header := ⟨names, keys, shape⟩
    let lines := TextFile.save Text.digits delim h cols
    let back := TextFile.load Text.ofDigits delim lines
    let loaded := TextFile.load Text.ofDigits delim given
    pure (Json.mkObj [("status", "ok"), ("kind", "textfile"), ("lines", toJson lines),
      ("roundtrip", toJson (back == some (h, cols))),
      ("loaded", match loaded with
        | some (b, c) => Json.mkObj [("names", toJson b.names), ("keys", toJson b.keys), ("shape", toJson b.shape), ("cols", toJson c)]
        | none => Json.null)])
  | "print" =>
    -- tokens of every element of the array, and their rendering with the coefficient texts supplied by the harness
    let a ← parseArr (← j.getObjVal? "a")
    let opts := (j.getObjVal? "opts").toOption.getD (Json.mkObj [])
    let g := jBoolD opts "display_graded" true
    let r := jBoolD opts "display_reverse" false
    let inv := jBoolD opts "display_inverse" true
    let mult := ((opts.getObjVal? "display_multiply").toOption.bind (·.getStr?.toOption)).getD "*"
    let exp := ((opts.getObjVal? "display_exponent").toOption.bind (·.getStr?.toOption)).getD "**"
    let names := a.poly.names.map fun n => "q" ++ toString n
    -- coefficient texts: one list per element, aligned with the stored terms
    let texts ← (← jList (← j.getObjVal? "texts")).mapM fun row => do (← jList row).mapM fun x => x.getStr?
    let zeroText ← (← j.getObjVal? "zero").getStr?
    let m := size a.shape
    let elems := (List.finRange m).map fun i =>
      let ts := a.poly.terms.map fun t => (t.1, t.2.get i)
      let txt := texts.getD i.val []
      -- index of a term = position of its exponent row among the stored rows
      let showC := fun (t : Print.Tok CRat) => txt.getD ((a.poly.terms.map (·.1)).idxOf t.expo) "?"
      let toks := Print.printTokens g r inv ts
      let text := if toks.isEmpty then zeroText else
        (toks.foldl (fun (acc : String × Bool) t =>
          let s := Print.termText mult exp names (fun _ => showC t) t
          let s := if acc.2 && !(s.startsWith "-") then "+" ++ s else s
          (acc.1 ++ s, true)) ("", false)).1
      Json.mkObj [("text", text), ("tokens", Json.arr (toks.map fun t =>
        Json.arr #[showCoef t.coef, toJson t.expo, toJson t.coefShown]).toArray)]
    pure (Json.mkObj [("status", "ok"), ("kind", "print"), ("elements", Json.arr elems.toArray)])
  | "printint" =>
    -- text level (C16): integer coefficients, default display strings; text printed by the proved renderer + what the
    -- proved reader makes of it
    let a ← parseArr (← j.getObjVal? "a")
    let opts := (j.getObjVal? "opts").toOption.getD (Json.mkObj [])
    let g := jBoolD opts "display_graded" true
    let r := jBoolD opts "display_reverse" false
    let inv := jBoolD opts "display_inverse" true
    let m := size a.shape
    let elems := (List.finRange m).map fun i =>
      let ts : List (Expo × Int) := a.poly.terms.map fun t => (t.1, (t.2.get i).re.num)
      let toks := Print.printTokens g r inv ts
      let text := PrintText.renderStr PrintText.intCodec a.poly.names toks
      let back := PrintText.readStr PrintText.intCodec a.poly.names text
      Json.mkObj [("text", String.ofList (text.map Char.ofNat)),
        ("read", match back with
          | some l => Json.arr (l.map fun t => Json.arr #[toJson t.1, toJson t.2]).toArray
          | none => Json.null)]
    pure (Json.mkObj [("status", "ok"), ("kind", "printint"), ("elements", Json.arr elems.toArray)])
  | "inferdtype" =>
    -- C12 / C15: dtype of polynomial_from_attributes without a dtype request (cols: [dtype name, all-zero?])
    let cols ← (← jList (← j.getObjVal? "cols")).mapM fun c => do
      match ← jList c with
      | [d, .bool z] => pure ((← dtOf (← d.getStr?)), z)
      | _ => throw "bad col"
    pure (Json.mkObj [("status", "ok"), ("kind", "dtype"),
      ("value", match Np.DT.inferDtype cols with | some d => toJson (dtName d) | none => Json.null),
      ("nary", match Np.DT.inferDtypeN Np.DT.promoteAll cols with | some d => toJson (dtName d) | none => Json.null)])
  | _ => throw s!"bad-op {op}"

def step (line : String) : String :=
  match Json.parse line with
  | .error e => Json.compress (Json.mkObj [("status", "bad"), ("msg", e)])
  | .ok j =>
    let id := (j.getObjVal? "id").toOption.getD Json.null
    match runCase j with
    | .ok r => Json.compress (r.setObjVal! "id" id)
    | .error e => Json.compress (Json.mkObj [("status", "bad"), ("msg", e), ("id", id)])

partial def loop (h : IO.FS.Stream) (out : IO.FS.Stream) : IO Unit := do
  let line ← h.getLine
  if line.isEmpty then return ()
  out.putStrLn (step line)
  loop h out

def main : IO Unit := do
  let out ← IO.getStdout
  loop (← IO.getStdin) out
  out.flush

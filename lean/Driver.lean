import Lean.Data.Json
import Np.Model.Basic
import Np.Model.Multiply
import Np.Model.CRat
import Np.Model.Arr
/-! line-protocol driver: one JSON case per line on stdin, the model's answer per line on stdout -/
open Lean Np Np.Shape

abbrev E := Except String

def jInt (j : Json) : E Int := j.getInt?
def jNat (j : Json) : E Nat := j.getNat?
def jList (j : Json) : E (List Json) := do pure (← j.getArr?).toList
def jNats (j : Json) : E (List Nat) := do (← jList j).mapM jNat
def jBoolD (j : Json) (k : String) (d : Bool) : Bool :=
  match j.getObjVal? k with | .ok (.bool b) => b | _ => d

def ratOf (n d : Int) : Rat := (n : Rat) / (d : Rat)

def parseCoef (j : Json) : E CRat :=
  match j with
  | .arr a =>
    if a.size == 2 then do pure ⟨ratOf (← jInt a[0]!) (← jInt a[1]!), 0⟩
    else if a.size == 4 then do
      pure ⟨ratOf (← jInt a[0]!) (← jInt a[1]!), ratOf (← jInt a[2]!) (← jInt a[3]!)⟩
    else throw "bad coefficient"
  | _ => do pure ⟨((← jInt j) : Rat), 0⟩

def showRat (q : Rat) : List Json := [toJson q.num, toJson (q.den : Int)]
def showCoef (c : CRat) : Json :=
  if c.im == 0 then (if c.re.den == 1 then toJson c.re.num else Json.arr (showRat c.re).toArray)
  else Json.arr (showRat c.re ++ showRat c.im).toArray

def mkVec (n : Nat) (l : List CRat) : E (Vec CRat n) :=
  let a := l.toArray
  if h : a.size = n then pure ⟨a, h⟩ else throw s!"column has {a.size} entries, shape needs {n}"

def parseArr (j : Json) : E (Arr CRat) := do
  let names ← jNats (← j.getObjVal? "names")
  let shape ← jNats (← j.getObjVal? "shape")
  let terms ← jList (← j.getObjVal? "terms")
  let terms ← terms.mapM fun t => do
    let a ← jList t
    match a with
    | [e, c] =>
      let e ← jNats e
      let c ← (← jList c).mapM parseCoef
      let v ← mkVec (size shape) c
      pure (e, v)
    | _ => throw "bad term"
  pure ⟨shape, { names := names, terms := terms }⟩

def showArr (a : Arr CRat) : Json :=
  Json.mkObj [("status", "ok"), ("kind", "poly"), ("shape", toJson a.shape), ("names", toJson a.poly.names),
    ("terms", Json.arr (a.poly.terms.map fun t =>
      Json.arr #[toJson t.1, Json.arr (t.2.toList.map showCoef).toArray]).toArray)]

def showErr (e : Err) : Json :=
  Json.mkObj [("status", "err"), ("kind", toString (repr e))]

partial def parseExpr (j : Json) : E Expr := do
  match j with
  | .arr a =>
    let op ← a[0]!.getStr?
    match op with
    | "leaf" => pure (.leaf (← jNat a[1]!))
    | "add" => pure (.add (← parseExpr a[1]!) (← parseExpr a[2]!))
    | "sub" => pure (.sub (← parseExpr a[1]!) (← parseExpr a[2]!))
    | "mul" => pure (.mul (← parseExpr a[1]!) (← parseExpr a[2]!))
    | "neg" => pure (.neg (← parseExpr a[1]!))
    | "pos" => pure (.pos (← parseExpr a[1]!))
    | "pow" => pure (.pow (← parseExpr a[1]!) (← jNat a[2]!))
    | _ => throw "bad expr op"
  | _ => throw "bad expr"

def runCase (j : Json) : E Json := do
  let op ← (← j.getObjVal? "op").getStr?
  let opts := (j.getObjVal? "opts").toOption.getD (Json.mkObj [])
  let rc := jBoolD opts "retain_coefficients" false
  let rn := jBoolD opts "retain_names" false
  match op with
  | "expr" =>
    let env ← (← jList (← j.getObjVal? "env")).mapM parseArr
    let t ← parseExpr (← j.getObjVal? "tree")
    match evalModel rc rn env t with
    | .ok r => pure (showArr r)
    | .error e => pure (showErr e)
  | _ => throw s!"bad-op {op}"

def step (line : String) : String :=
  match Json.parse line with
  | .error e => Json.compress (Json.mkObj [("status", "bad"), ("msg", e)])
  | .ok j =>
    let id := (j.getObjVal? "id").toOption.getD Json.null
    match runCase j with
    | .ok r => Json.compress (r.setObjVal! "id" id)
    | .error e => Json.compress (Json.mkObj [("status", "bad"), ("msg", e), ("id", id)])

partial def loop (h : IO.FS.Stream) (out : IO.FS.Stream) : IO Unit := do
  let line ← h.getLine
  if line.isEmpty then return ()
  out.putStrLn (step line)
  loop h out

def main : IO Unit := do
  let out ← IO.getStdout
  loop (← IO.getStdin) out
  out.flush

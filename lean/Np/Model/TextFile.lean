import Np.Model.Text
import Np.Model.Shape
/-! Mathlib-free model of the WHOLE text file written by `numpoly.savetxt` and read back by `numpoly.loadtxt` (C13).

A file is its list of lines (`List Str`, code points, without the newline).  Numbers go through an abstract codec
`enc : α → Str` / `dec : Str → Option α` (numpy's `"%.18e"` and `float()` are not modelled) and are separated by one
delimiter code point `delim`.  A polynomial array is handed over as its list of coefficient *columns*: one per stored
term (key), each the flattened (`ravel`) coefficient array, so of length `size shape` (1 for a 0-d array). -/
namespace Np.TextFile
open Np.Text

variable {α : Type}

/-- `xss` read along the other axis: entry `i` of the result collects the `i`-th entries of the members of `xss`
(`n` = the common length of the members).  Used in both directions: columns → rows (`structured_to_unstructured` of
the ravelled structured array: shape `(size, nterms)`) and rows → columns (`unstructured_to_structured`). -/
def transposeN (n : Nat) (xss : List (List α)) : List (List α) :=
  (List.range n).map fun i => xss.filterMap (·[i]?)

/-- number of array elements = length of the (first) coefficient column -/
def sizeOf (cols : List (List α)) : Nat := (cols.head?.map List.length).getD 0

/-- the 2-d table `structured_to_unstructured(X.values.ravel())`: one row per array element, one entry per term -/
def table (cols : List (List α)) : List (List α) := transposeN (sizeOf cols) cols

/-- `numpy.savetxt` on that table: each row is `delimiter.join(fmt % x for x in row)` -/
def saveRows (enc : α → Str) (delim : Nat) (cols : List (List α)) : List Str :=
  (table cols).map fun row => joinSep delim (row.map enc)

def hash : Nat := 35
/-- `comments = "# "` -/
def commentPrefix : Str := [hash, blank]

/-- header line (behind the comment prefix) followed by the data rows -/
def save (enc : α → Str) (delim : Nat) (h : Header) (cols : List (List α)) : List Str :=
  (commentPrefix ++ format h) :: saveRows enc delim cols

/-- `line.split("# ", 1)[0]`: what `numpy.loadtxt` keeps of a line -/
def cutComment : Str → Str
  | [] => []
  | [c] => [c]
  | c :: d :: rest => if c == hash && d == blank then [] else c :: cutComment (d :: rest)

/-- `s.startswith(p)`, returning the remainder -/
def stripPrefix : Str → Str → Option Str
  | [], s => some s
  | _ :: _, [] => none
  | p :: ps, c :: cs => if p == c then stripPrefix ps cs else none

/-- a numpy array as far as needed here: shape and row-major data -/
structure NdArr (α : Type) where
  shape : List Nat
  data : List α

/-- `numpy.loadtxt(..., ndmin=2)`: comments are cut off, lines that are empty afterwards are skipped, every other
line is split at the delimiter and every field decoded; all rows must have the same number of fields.
(An empty file gives a table without rows.) -/
def loadtxt2 (dec : Str → Option α) (delim : Nat) (lines : List Str) : Option (NdArr α) :=
  match ((lines.map cutComment).filter (fun l => !l.isEmpty)).mapM (fun l => (splitSep delim l).mapM dec) with
  | none => none
  | some tab =>
    let ncols := sizeOf tab
    if tab.all (fun r => r.length == ncols) then some ⟨[tab.length, ncols], tab.flatten⟩ else none

/-- `numpy.squeeze`, what `ndmin=0` does with the table: a single row gives a 1-d array, a single column too, a
single number a 0-d array.  The row-major data are untouched. -/
def squeeze (a : NdArr α) : NdArr α := ⟨a.shape.filter (· != 1), a.data⟩

def chunkAux (k : Nat) : Nat → List α → List (List α)
  | 0, _ => []
  | n + 1, xs => xs.take k :: chunkAux k n (xs.drop k)

/-- `array.reshape(-1, nkeys)` (numpoly's repair of D12), as the list of rows: needs `nkeys > 0` and a number of
entries divisible by `nkeys`; does not look at the shape the array had before -/
def reshapeRows (nkeys : Nat) (a : NdArr α) : Option (List (List α)) :=
  if nkeys = 0 ∨ a.data.length % nkeys ≠ 0 then none
  else some (chunkAux nkeys (a.data.length / nkeys) a.data)

/-- the data part of `numpoly.loadtxt`: `numpy.loadtxt`, `reshape(-1, nkeys)`, one column per key
(`unstructured_to_structured`).  `lines` may contain comment lines. -/
def loadRows (dec : Str → Option α) (delim : Nat) (nkeys : Nat) (lines : List Str) : Option (List (List α)) :=
  match loadtxt2 dec delim lines with
  | none => none
  | some a =>
    match reshapeRows nkeys (squeeze a) with
    | none => none
    | some rows => some (transposeN nkeys rows)

/-- `numpoly.loadtxt`: the header is the first line of the file (`readline`), which must start with the comment
prefix (otherwise the result is a plain numpy array, not a polynomial: `none` here); `numpy.loadtxt` then reads the
whole file again, header line included; the final `numpoly.reshape(array, shape)` needs `size shape` elements -/
def load (dec : Str → Option α) (delim : Nat) (lines : List Str) : Option (Header × List (List α)) :=
  match lines with
  | [] => none
  | first :: _ =>
    match stripPrefix commentPrefix first with
    | none => none
    | some hs =>
      match parse hs with
      | none => none
      | some h =>
        match loadRows dec delim h.keys.length lines with
        | none => none
        | some cols => if cols.all (fun c => c.length == Shape.size h.shape) then some (h, cols) else none
end Np.TextFile

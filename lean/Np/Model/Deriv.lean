import Np.Model.Basic
/-! Mathlib-free model of `derivative` (one variable, by position) as repaired: uint32 wrap made explicit -/
namespace Np
variable {S : Type}

/-- `exponents[:, idx] -= 1` on uint32 -/
def decU32 (x : Nat) : Nat := if x = 0 then 4294967295 else x - 1

def decAt (j : Nat) (e : Expo) : Expo := e.modify j decU32

/-- rows after `(exponent[idx] * coefficient, exponents[:, idx] -= 1)` -/
def derivTerms [NatCast S] [Mul S] (j : Nat) (ts : List (Expo × S)) : List (Expo × S) :=
  ts.map fun t => (decAt j t.1, (t.1.getD j 0 : S) * t.2)

/-- `derivative(poly, idx)`: rebuild with retain_coefficients=False (the repair), then re-align with the input -/
def derivative [Zero S] [NatCast S] [Mul S] [BEq S] (rn : Bool) (j : Nat) (p : Poly S) : Poly S :=
  let d := clean false rn { names := p.names, terms := derivTerms j p.terms }
  (alignPair d p).1
end Np

namespace Np
variable {S : Type}

/-- several variables differentiate successively (positions refer to the names of the input, which every step keeps) -/
def derivativeMany [Zero S] [NatCast S] [Mul S] [BEq S] (rn : Bool) (js : List Nat) (p : Poly S) : Poly S :=
  js.foldl (fun acc j => derivative rn j acc) p
end Np

import Np.Model.Print
import Np.Model.Text
/-! Mathlib-free model of the printed TEXT of a polynomial (C16) and of a reader for that text. Strings are lists of
code points (`Text.Str`); the display strings are the defaults: multiply sign `*`, exponent sign `**`, names `q<decimal
index>`. The coefficient type enters through a `Codec` (text of a coefficient, a reader for it, the coefficients `1` and
`-1` that are elided in front of a monomial, the text of zero); `intCodec` is `str()` of Python / numpy integers.
`termStr`/`renderStr` mirror `Print.termText`/`Print.render` (and `_to_string` in `array_function/array_repr.py`);
`readStr` is a lexer/parser of that format. -/
namespace Np.PrintText
open Np.Text Np.Print

def star : Nat := 42
def plus : Nat := 43
def minus : Nat := 45
def qch : Nat := 113

/-! ### printer -/

/-- `str` of a Python/numpy integer: optional minus, then the decimal digits -/
def showInt (c : Int) : Str := if c < 0 then minus :: digits c.natAbs else digits c.natAbs

/-- how a coefficient type is written and read: `showC` is `str()` of the numpy scalar, `readC` reads such a text back,
`one` / `negOne` are the coefficients `_to_string` elides in front of a monomial, `zeroStr` is what the zero polynomial
prints -/
structure Codec (C : Type) where
  showC : C → Str
  readC : Str → Option C
  one : C
  negOne : C
  zeroStr : Str

/-- the default indeterminate name `q<idx>` -/
def nameStr (n : Nat) : Str := qch :: digits n

/-- one pass of the loop over `zip(exponents, names)` in `_to_string` -/
def termStep (out : Str) (en : Nat × Nat) : Str :=
  if en.1 == 0 then out
  else
    let out := if out != [] && out != [minus] then out ++ [star] else out
    let out := out ++ nameStr en.2
    if en.1 > 1 then out ++ [star, star] ++ digits en.1 else out

/-- text of one term (mirror of `Print.termText`) -/
def termStr {C : Type} (K : Codec C) (names : List Nat) (t : Tok C) : Str :=
  let head := if t.coefShown then K.showC t.coef else if t.bareMinus then [minus] else []
  (List.zip t.expo names).foldl termStep head

/-- `s.startswith("-")` -/
def startsMinus (s : Str) : Bool := s.head? == some minus

/-- one pass of the loop over the terms: `+` in front unless first or starting with `-` -/
def renderStep {C : Type} (K : Codec C) (names : List Nat) (acc : Str × Bool) (t : Tok C) : Str × Bool :=
  let s := termStr K names t
  let s := if acc.2 && !startsMinus s then plus :: s else s
  (acc.1 ++ s, true)

/-- the whole text (mirror of `Print.render`); no terms prints the zero of the coefficient type -/
def renderStr {C : Type} (K : Codec C) (names : List Nat) (toks : List (Tok C)) : Str :=
  if toks.isEmpty then K.zeroStr else (toks.foldl (renderStep K names) ([], false)).1

/-! ### reader -/

/-- optional minus, then decimal digits -/
def readInt : Str → Option Int
  | [] => none
  | c :: cs =>
    if c == minus then (ofDigits cs).map fun n => -Int.ofNat n
    else (ofDigits (c :: cs)).map Int.ofNat

/-- `str()` of Python / numpy integers -/
def intCodec : Codec Int := ⟨showInt, readInt, 1, -1, [48]⟩

/-- lexer, level 1: cut at every `+`/`-`; the pair is (text before the first sign, pieces after it); a `-` stays
with the piece it starts, a `+` is dropped -/
def splitSigns : Str → Str × List Str
  | [] => ([], [])
  | c :: cs =>
    let hr := splitSigns cs
    if c == plus then ([], hr.1 :: hr.2)
    else if c == minus then ([], (minus :: hr.1) :: hr.2)
    else (c :: hr.1, hr.2)

/-- the signed term texts of an expression -/
def cutTerms (s : Str) : List Str :=
  let hr := splitSigns s
  if hr.1.isEmpty then hr.2 else hr.1 :: hr.2

/-- lexer, level 2 (after `splitSep star`): an empty piece comes from `**`, so `p, "", k` is the power `p**k` -/
def regroup : List Str → List (Str × Option Str)
  | [] => []
  | [p] => [(p, none)]
  | [p, r] => [(p, none), (r, none)]
  | p :: r :: k :: rest =>
    if r.isEmpty then (p, some k) :: regroup rest else (p, none) :: regroup (r :: k :: rest)

/-- one factor `q<idx>` or `q<idx>**<k>`: (index, exponent) -/
def readFactor (f : Str × Option Str) : Option (Nat × Nat) :=
  match f.1 with
  | [] => none
  | c :: ds =>
    if c == qch then
      match ofDigits ds, f.2 with
      | some i, none => some (i, 1)
      | some i, some k => (ofDigits k).map fun e => (i, e)
      | none, _ => none
    else none

def readFactors : List (Str × Option Str) → Option (List (Nat × Nat))
  | [] => some []
  | f :: fs =>
    match readFactor f, readFactors fs with
    | some a, some as => some (a :: as)
    | _, _ => none

/-- all entries different -/
def distinct : List Nat → Bool
  | [] => true
  | x :: xs => !xs.contains x && distinct xs

/-- exponent row against `names`; an unknown or a repeated indeterminate fails -/
def buildExpo (names : List Nat) (fs : List (Nat × Nat)) : Option Expo :=
  if fs.all (fun f => names.contains f.1) && distinct (fs.map (·.1)) then
    some (names.map fun n => (fs.lookup n).getD 0)
  else none

def finish {C : Type} (names : List Nat) (c : C) (fs : List (Str × Option Str)) : Option (C × Expo) :=
  match readFactors fs with
  | some l => (buildExpo names l).map fun e => (c, e)
  | none => none

/-- one signed term: `*`-separated factors, a leading numeric factor is the coefficient, none means `1`
(`-1` after a bare minus) -/
def readTerm {C : Type} (K : Codec C) (names : List Nat) (s : Str) : Option (C × Expo) :=
  match regroup (splitSep star s) with
  | [] => none
  | (p, pw) :: rest =>
    match p with
    | [] => none
    | c :: cs =>
      if c == qch then finish names K.one ((p, pw) :: rest)
      else if c == minus && cs.head? == some qch then finish names K.negOne ((cs, pw) :: rest)
      else match pw with
        | some _ => none
        | none =>
          match K.readC p with
          | some k => finish names k rest
          | none => none

def readTerms {C : Type} (K : Codec C) (names : List Nat) : List Str → Option (List (C × Expo))
  | [] => some []
  | s :: ss =>
    match readTerm K names s, readTerms K names ss with
    | some a, some as => some (a :: as)
    | _, _ => none

/-- the reader: the terms (coefficient, exponent row) of a printed polynomial, in the printed order -/
def readStr {C : Type} (K : Codec C) (names : List Nat) (s : Str) : Option (List (C × Expo)) :=
  match cutTerms s with
  | [] => none
  | ts => readTerms K names ts

/-! ### checks -/

private def str (s : String) : Str := s.toList.map Char.toNat
private def tok (c : Int) (e : Expo) : Tok Int :=
  let mono := e.any (· != 0)
  { coef := c, expo := e, coefShown := !(mono && (c == 1 || c == -1)), bareMinus := mono && c == -1 }

example : renderStr intCodec [0, 1] [tok 2 [2, 1], tok (-1) [0, 1], tok 1 [0, 0]] = str "2*q0**2*q1-q1+1" := by decide +kernel
example : readStr intCodec [0, 1] (str "2*q0**2*q1-q1+1") = some [(2, [2, 1]), (-1, [0, 1]), (1, [0, 0])] := by
  decide +kernel
example : renderStr intCodec [0, 10] [tok (-1) [3, 0], tok (-12) [1, 11], tok 1 [0, 1], tok (-1) [0, 0]]
    = str "-q0**3-12*q0*q10**11+q10-1" := by decide +kernel
example : readStr intCodec [0, 10] (str "-q0**3-12*q0*q10**11+q10-1")
    = some [(-1, [3, 0]), (-12, [1, 11]), (1, [0, 1]), (-1, [0, 0])] := by decide +kernel
example : renderStr intCodec [0] [] = str "0" := by decide +kernel
example : readStr intCodec [0] (str "0") = some [(0, [0])] := by decide +kernel
example : readStr intCodec [0, 1] (str "q0*q0") = none := by decide +kernel      -- repeated name
example : readStr intCodec [0, 1] (str "q2") = none := by decide +kernel         -- unknown name
example : readStr intCodec [0, 1] (str "q0***2") = none := by decide +kernel
example : readStr intCodec [0, 1] (str "q0++q1") = none := by decide +kernel
example : readStr intCodec [0, 1] (str "2*") = none := by decide +kernel
example : readStr intCodec [0, 1] (str "") = none := by decide +kernel
end Np.PrintText

import Np.Model.ShapeFns
/-! numpy's index arithmetic for ADVANCED (integer-array) indexing `a[i0, i1, ..]`, for advanced items mixed with
full slices, for `numpy.repeat` with an array of repeats and for `numpy.take` (C09), Mathlib-free and executable,
in the style of `Np/Model/ShapeFns.lean`: every function returns `some (outShape, idx)` where `idx` lists, for
every output flat position (C order), the flat position of the operand's element that lands there, or `none`
where numpy raises.  numpoly applies the numpy function to every coefficient array with the same index
arguments, hence with the same index list: whole polynomial elements are moved. -/
namespace Np.AdvIndexFns
open Np.Shape Np.ShapeFns

/-- an integer index array: its shape and its entries in C order (negative entries count from the end) -/
abbrev Ix := List Nat × List Int

/-- numpy accepts the entry `i` on an axis of extent `n` iff `-n ≤ i < n` -/
def inRange (n : Nat) (i : Int) : Bool := decide (-(n : Int) ≤ i) && decide (i < n)

/-- the position an accepted entry stands for -/
def normAt (n : Nat) (i : Int) : Nat := (if i < 0 then i + n else i).toNat

/-- the index array fits its shape and, if `chk`, EVERY entry is in range for an axis of extent `n`.  numpy checks
all the entries of an index array, also those that a broadcast never reads, but it skips the check altogether
when no element is read: in `a[..]` when the index arrays broadcast to an empty shape, in `take` when an axis
before `axis` is empty.  (An index array that does not fit its shape is outside the domain.) -/
def ixOK (chk : Bool) (n : Nat) (ix : Ix) : Bool :=
  ix.2.length == size ix.1 && (!chk || ix.2.all (inRange n))

/-- the (normalised) entry of `ix` that the broadcast multi-index `b` reads -/
def ixAt (n : Nat) (ix : Ix) (b : List Nat) : Nat := normAt n (ix.2.getD (ravel ix.1 (bmulti ix.1 b)) 0)

/-! ### 1. pure advanced indexing -/

/-- there are at most `ndim` index arrays and the `m`-th is acceptable for axis `m` -/
def advOK (chk : Bool) : List Nat → List Ix → Bool
  | _, [] => true
  | [], _ :: _ => false
  | n :: shape, ix :: ixs => ixOK chk n ix && advOK chk shape ixs

/-- operand multi-index of output multi-index `j = b ++ rest` (`b` of length `nb` runs over the broadcast shape):
`[i_0[b], .., i_{k-1}[b]] ++ rest` -/
def advIn (shape : List Nat) (ixs : List Ix) (nb : Nat) (j : List Nat) : List Nat :=
  List.zipWith (fun n ix => ixAt n ix (j.take nb)) shape ixs ++ j.drop nb

/-- `a[i0, i1, .., ik-1]` where every item is an integer array -/
def advIndexF (shape : List Nat) (ixs : List (List Nat × List Int)) : Option (List Nat × List Nat) :=
  match bshapeAll (ixs.map (·.1)) with
  | none => none
  | some B =>
    if advOK (size B != 0) shape ixs then
      let out := B ++ shape.drop ixs.length
      some (out, gatherBy shape out (advIn shape ixs B.length))
    else none

/-! ### 2. advanced items mixed with full slices -/

/-- there are at most `ndim` items and every advanced item is acceptable for its axis -/
def mixOK (chk : Bool) : List Nat → List (Option Ix) → Bool
  | _, [] => true
  | [], _ :: _ => false
  | _ :: shape, none :: items => mixOK chk shape items
  | n :: shape, some ix :: items => ixOK chk n ix && mixOK chk shape items

/-- the extents of the sliced axes, in order (missing trailing items are `:`) -/
def slicedDims : List Nat → List (Option Ix) → List Nat
  | [], _ => []
  | n :: shape, [] => n :: shape
  | n :: shape, none :: items => n :: slicedDims shape items
  | _ :: shape, some _ :: items => slicedDims shape items

/-- operand multi-index for the broadcast multi-index `b` and the multi-index `s` of the sliced axes: an
advanced axis reads its index array at `b`, a sliced axis takes the next component of `s` -/
def mixIn : List Nat → List (Option Ix) → List Nat → List Nat → List Nat
  | [], _, _, _ => []
  | _ :: shape, [], b, s => s.headD 0 :: mixIn shape [] b s.tail
  | _ :: shape, none :: items, b, s => s.headD 0 :: mixIn shape items b s.tail
  | n :: shape, some ix :: items, b, s => ixAt n ix b :: mixIn shape items b s

/-- the number of leading `:` items -/
def lead : List (Option Ix) → Nat
  | none :: r => lead r + 1
  | _ => 0

/-- all advanced items stand next to each other (also true when there is none) -/
def adjacent (items : List (Option Ix)) : Bool :=
  ((items.dropWhile Option.isNone).dropWhile Option.isSome).all Option.isNone

/-- where the broadcast axes go among the sliced axes: in place of the advanced items when these are adjacent,
else first -/
def bpos (items : List (Option Ix)) : Nat := if adjacent items then lead items else 0

/-- `a[items]`, every item an integer array (`some`) or the full slice `:` (`none`) -/
def mixedIndexF (shape : List Nat) (items : List (Option (List Nat × List Int))) : Option (List Nat × List Nat) :=
  match bshapeAll ((items.filterMap id).map (·.1)) with
  | none => none
  | some B =>
    if mixOK (size B != 0) shape items then
      let sl := slicedDims shape items
      let p := bpos items
      let out := sl.take p ++ B ++ sl.drop p
      some (out, gatherBy shape out fun j =>
        mixIn shape items ((j.drop p).take B.length) (j.take p ++ j.drop (p + B.length)))
    else none

/-! ### 3. `repeat` with an array of repeats -/

/-- numpy broadcasts a `repeats` array of length 1 to the extent of the axis -/
def effReps (n : Nat) : List Nat → List Nat
  | [k] => List.replicate n k
  | reps => reps

/-- `numpy.repeat(a, reps, axis)`: position `t` along `axis` is repeated `reps[t]` times, so output position `u`
reads the position `t` whose block `[reps[0] + .. + reps[t-1], .. + reps[t])` contains `u` -/
def repeatsF (shape : List Nat) (reps : List Nat) (axis : Nat) : Option (List Nat × List Nat) :=
  let r := effReps (shape.getD axis 0) reps
  if axis < shape.length && r.length == shape.getD axis 0 then
    let out := shape.set axis r.sum
    some (out, gatherBy shape out fun j => j.set axis (locate r (j.getD axis 0)).1)
  else none

/-! ### 4. `take` -/

/-- operand multi-index of `numpy.take` for output multi-index `j = pre ++ b ++ post`, `b` of length `m` a
multi-index of the index array -/
def takeIn (n : Nat) (ix : Ix) (axis : Nat) (j : List Nat) : List Nat :=
  j.take axis ++ normAt n (ix.2.getD (ravel ix.1 ((j.drop axis).take ix.1.length)) 0) :: j.drop (axis + ix.1.length)

/-- `numpy.take(a, indices, axis)` (`mode='raise'`) for an index array of any shape and an operand that is at
least 1-d (numpy treats a 0-d operand as 1-d; that is not modelled) -/
def takeF (shape : List Nat) (ix : List Nat × List Int) (axis : Nat) : Option (List Nat × List Nat) :=
  if axis < shape.length && ixOK (size (shape.take axis) != 0) (shape.getD axis 0) ix then
    let out := shape.take axis ++ ix.1 ++ shape.drop (axis + 1)
    some (out, gatherBy shape out (takeIn (shape.getD axis 0) ix axis))
  else none

/-! ### sanity checks against numpy (expected values produced by numpy 2 on `arange(size).reshape(shape)`) -/

-- a[i0, .., ik-1]
example : advIndexF [5] [([3], [0, (-1), 2])] = some ([3], [0, 4, 2]) := by decide
example : advIndexF [5] [([2, 2], [4, 0, (-5), 1])] = some ([2, 2], [4, 0, 0, 1]) := by decide
example : advIndexF [5] [([1], [5])] = none := by decide
example : advIndexF [5] [([1], [(-6)])] = none := by decide
example : advIndexF [5] [([], [3])] = some ([], [3]) := by decide
example : advIndexF [5] [([0], [])] = some ([0], []) := by decide
example : advIndexF [2, 3] [([2], [1, 0])] = some ([2, 3], [3, 4, 5, 0, 1, 2]) := by decide
example : advIndexF [2, 3] [([2], [1, 0]), ([2], [2, (-1)])] = some ([2], [5, 2]) := by decide
example : advIndexF [2, 3] [([2, 1], [1, 0]), ([3], [2, 0, 1])] = some ([2, 3], [5, 3, 4, 2, 0, 1]) := by decide
example : advIndexF [2, 3] [([2], [1, 0]), ([3], [2, 0, 1])] = none := by decide
example : advIndexF [2, 3] [([2], [1, 0]), ([], [(-2)])] = some ([2], [4, 1]) := by decide
example : advIndexF [2, 3] [([2], [1, 2]), ([], [0])] = none := by decide
example : advIndexF [2, 3] [([1], [0]), ([1], [0]), ([1], [0])] = none := by decide
example : advIndexF [2, 3, 4] [([2], [0, 1]), ([2], [0, 1])] =
    some ([2, 4], [0, 1, 2, 3, 16, 17, 18, 19]) := by decide
example : advIndexF [2, 3, 4] [([2], [1, (-1)]), ([1], [2]), ([2, 1], [3, 0])] =
    some ([2, 2], [23, 23, 20, 20]) := by decide
example : advIndexF [2, 3] [] = some ([2, 3], [0, 1, 2, 3, 4, 5]) := by decide
example : advIndexF [] [] = some ([], [0]) := by decide
example : advIndexF [] [([1], [0])] = none := by decide
example : advIndexF [2, 3] [([1], [7]), ([0], [])] = some ([0], []) := by decide
example : advIndexF [2, 3] [([0], []), ([1], [3])] = some ([0], []) := by decide
example : advIndexF [2, 3] [([1], [1]), ([0], [])] = some ([0], []) := by decide
example : advIndexF [0, 3] [([0], [])] = some ([0, 3], []) := by decide
example : advIndexF [0, 3] [([1], [0])] = none := by decide
example : advIndexF [3, 0] [([2], [2, 0])] = some ([2, 0], []) := by decide
example : advIndexF [3, 0] [([1], [5])] = none := by decide
example : advIndexF [3, 0] [([1], [5]), ([0], [])] = some ([0], []) := by decide
example : advIndexF [3, 0] [([1], [1]), ([1], [0])] = none := by decide
-- a[items], items integer arrays or `:`
example : mixedIndexF [2, 3, 4] [some ([2], [0, 1]), none, some ([2], [0, 1])] =
    some ([2, 3], [0, 4, 8, 13, 17, 21]) := by decide
example : mixedIndexF [2, 3, 4] [none, some ([2], [0, 1]), some ([2], [0, 1])] =
    some ([2, 2], [0, 5, 12, 17]) := by decide
example : mixedIndexF [2, 3, 4] [some ([1], [0]), none, none] =
    some ([1, 3, 4], [0, 1, 2, 3, 4, 5, 6, 7, 8, 9, 10, 11]) := by decide
example : mixedIndexF [2, 3, 4] [some ([1], [0])] =
    some ([1, 3, 4], [0, 1, 2, 3, 4, 5, 6, 7, 8, 9, 10, 11]) := by decide
example : mixedIndexF [2, 3, 4] [some ([], [1]), none, some ([], [2])] = some ([3], [14, 18, 22]) := by decide
example : mixedIndexF [2, 3, 4] [some ([], [1]), none, some ([2], [2, (-1)])] =
    some ([2, 3], [14, 18, 22, 15, 19, 23]) := by decide
example : mixedIndexF [2, 3, 4] [none, some ([], [1]), some ([2], [2, (-1)])] =
    some ([2, 2], [6, 7, 18, 19]) := by decide
example : mixedIndexF [2, 3, 4] [none, some ([2, 1], [1, 0])] =
    some ([2, 2, 1, 4], [4, 5, 6, 7, 0, 1, 2, 3, 16, 17, 18, 19, 12, 13, 14, 15]) := by decide
example : mixedIndexF [2, 3, 4] [none, none, some ([2, 2], [1, 0, (-1), 3])] =
    some ([2, 3, 2, 2], [1, 0, 3, 3, 5, 4, 7, 7, 9, 8, 11, 11, 13, 12, 15, 15, 17, 16, 19, 19, 21, 20, 23, 23])
      := by decide
example : mixedIndexF [2, 3, 4] [none, none, none] =
    some ([2, 3, 4], [0, 1, 2, 3, 4, 5, 6, 7, 8, 9, 10, 11, 12, 13, 14, 15, 16, 17, 18, 19, 20, 21, 22, 23]) :=
      by decide
example : mixedIndexF [2, 3, 4] [none, none, none, none] = none := by decide
example : mixedIndexF [2, 3, 4] [none, some ([1], [3])] = none := by decide
example : mixedIndexF [2, 3, 4] [some ([2], [0, 1]), none, some ([3], [0, 1, 2])] = none := by decide
example : mixedIndexF [2, 3, 4] [some ([2, 1], [0, 1]), none, some ([3], [0, 1, 2])] =
    some ([2, 3, 3], [0, 4, 8, 1, 5, 9, 2, 6, 10, 12, 16, 20, 13, 17, 21, 14, 18, 22]) := by decide
example : mixedIndexF [2, 2, 2, 2] [none, some ([2], [0, 1]), none, some ([2], [1, 0])] =
    some ([2, 2, 2], [1, 3, 9, 11, 4, 6, 12, 14]) := by decide
example : mixedIndexF [2, 2, 2, 2] [some ([2], [0, 1]), none, none, some ([2], [1, 0])] =
    some ([2, 2, 2], [1, 3, 5, 7, 8, 10, 12, 14]) := by decide
example : mixedIndexF [2, 2, 2, 2] [none, some ([2], [0, 1]), some ([2], [1, 0])] =
    some ([2, 2, 2], [2, 3, 4, 5, 10, 11, 12, 13]) := by decide
example : mixedIndexF [2, 2, 2, 2] [some ([1], [1]), none, some ([2], [0, 1]), some ([2], [1, 0])] =
    some ([2, 2], [9, 13, 10, 14]) := by decide
example : mixedIndexF [2, 3] [none, some ([2], [2, 0])] = some ([2, 2], [2, 0, 5, 3]) := by decide
example : mixedIndexF [2, 3] [some ([2], [1, 1]), none] = some ([2, 3], [3, 4, 5, 3, 4, 5]) := by decide
example : mixedIndexF [2, 3] [none, some ([0], [])] = some ([2, 0], []) := by decide
example : mixedIndexF [2, 0, 3] [none, none, some ([1], [7])] = none := by decide
example : mixedIndexF [2, 0, 3] [none, none, some ([1], [(-3)])] = some ([2, 0, 1], []) := by decide
example : mixedIndexF [2, 0, 3] [some ([1], [7]), none, some ([0], [])] = some ([0, 0], []) := by decide
example : mixedIndexF [2, 3] [none, some ([0], [])] = some ([2, 0], []) := by decide
example : mixedIndexF [] [] = some ([], [0]) := by decide
example : mixedIndexF [] [none] = none := by decide
-- numpy.repeat(a, reps, axis)
example : repeatsF [3] [1, 0, 2] 0 = some ([3], [0, 2, 2]) := by decide
example : repeatsF [3] [2] 0 = some ([6], [0, 0, 1, 1, 2, 2]) := by decide
example : repeatsF [3] [2, 2, 2] 0 = some ([6], [0, 0, 1, 1, 2, 2]) := by decide
example : repeatsF [3] [1, 2] 0 = none := by decide
example : repeatsF [3] [] 0 = none := by decide
example : repeatsF [3] [0, 0, 0] 0 = some ([0], []) := by decide
example : repeatsF [0] [] 0 = some ([0], []) := by decide
example : repeatsF [1] [3] 0 = some ([3], [0, 0, 0]) := by decide
example : repeatsF [2, 3] [2, 1] 0 = some ([3, 3], [0, 1, 2, 0, 1, 2, 3, 4, 5]) := by decide
example : repeatsF [2, 3] [0, 1, 2] 1 = some ([2, 3], [1, 2, 2, 4, 5, 5]) := by decide
example : repeatsF [2, 3] [2] 1 = some ([2, 6], [0, 0, 1, 1, 2, 2, 3, 3, 4, 4, 5, 5]) := by decide
example : repeatsF [2, 3] [2, 1] 1 = none := by decide
example : repeatsF [2, 3] [1, 1] 2 = none := by decide
example : repeatsF [2, 2, 2] [1, 2] 1 = some ([2, 3, 2], [0, 1, 2, 3, 2, 3, 4, 5, 6, 7, 6, 7]) := by decide
example : repeatsF [2, 0] [2] 1 = some ([2, 0], []) := by decide
example : repeatsF [2, 0] [] 1 = some ([2, 0], []) := by decide
example : repeatsF [0, 2] [3, 1] 1 = some ([0, 4], []) := by decide
example : repeatsF [0, 2] [3, 1, 1] 1 = none := by decide
-- numpy.take(a, indices, axis)
example : takeF [5] ([3], [4, (-5), 2]) 0 = some ([3], [4, 0, 2]) := by decide
example : takeF [5] ([1], [5]) 0 = none := by decide
example : takeF [5] ([1], [(-6)]) 0 = none := by decide
example : takeF [5] ([], [2]) 0 = some ([], [2]) := by decide
example : takeF [5] ([2, 2], [0, 1, 2, 3]) 0 = some ([2, 2], [0, 1, 2, 3]) := by decide
example : takeF [5] ([0], []) 0 = some ([0], []) := by decide
example : takeF [2, 3] ([2], [2, 0]) 1 = some ([2, 2], [2, 0, 5, 3]) := by decide
example : takeF [2, 3] ([2], [1, 1]) 0 = some ([2, 3], [3, 4, 5, 3, 4, 5]) := by decide
example : takeF [2, 3] ([2, 2], [0, (-1), 1, 0]) 1 = some ([2, 2, 2], [0, 2, 1, 0, 3, 5, 4, 3]) := by decide
example : takeF [2, 3] ([2, 2], [0, (-1), 1, 0]) 0 =
    some ([2, 2, 3], [0, 1, 2, 3, 4, 5, 3, 4, 5, 0, 1, 2]) := by decide
example : takeF [2, 3] ([], [1]) 1 = some ([2], [1, 4]) := by decide
example : takeF [2, 3] ([1], [2]) 0 = none := by decide
example : takeF [2, 3] ([1], [0]) 2 = none := by decide
example : takeF [2, 3, 2] ([2], [2, (-3)]) 1 = some ([2, 2, 2], [4, 5, 0, 1, 10, 11, 6, 7]) := by decide
example : takeF [0, 3] ([0], []) 0 = some ([0, 3], []) := by decide
example : takeF [0, 3] ([1], [0]) 0 = none := by decide
example : takeF [0, 3] ([1], [7]) 1 = some ([0, 1], []) := by decide
example : takeF [0, 0] ([1], [0]) 1 = some ([0, 1], []) := by decide
example : takeF [2, 0, 3] ([1], [7]) 2 = some ([2, 0, 1], []) := by decide
example : takeF [2, 0, 3] ([1], [7]) 0 = none := by decide
example : takeF [2, 0, 3] ([1], [1]) 0 = some ([1, 0, 3], []) := by decide
example : takeF [3, 0] ([1], [7]) 0 = none := by decide
example : takeF [3, 0] ([1], [0]) 1 = none := by decide
example : takeF [2, 3] ([2, 0], []) 1 = some ([2, 2, 0], []) := by decide

end Np.AdvIndexFns

/-! Mathlib-free model of the storage-key codec (C20): UCS-4 field names and the C `sprintf("%c")` formatter -/
namespace Np.Key

/-- code points numpy/CPython accept in a structured-array field name built from `exponent + offset` -/
def validCodePoint (c : Nat) : Bool := c != 58 && !(55296 ≤ c && c ≤ 57343) && c ≤ 1114111

/-- `keys = (exponents + KEY_OFFSET).view("U…")`: one code point per indeterminate; `none` = numpy raises -/
def encodeKey (offset : Nat) (e : List Nat) : Option (List Nat) :=
  if e.all (fun x => x + offset < 4294967296 && validCodePoint (x + offset)) then some (e.map (· + offset)) else none

/-- `exponents = keys.view(uint32) - KEY_OFFSET` (uint32 wrap-around made explicit) -/
def decodeKey (offset : Nat) (k : List Nat) : List Nat := k.map fun c => (c + 4294967296 - offset) % 4294967296

/-- `sprintf(key + len, "%c", e1 + e2 + offset)`: the low byte of the unsigned sum -/
def sprintfByte (offset : Nat) (s : Nat) : Nat := ((s + offset) % 4294967296) % 256

/-- `key[:len].decode("utf-8")` restricted to what can succeed one byte at a time: ASCII only.
(Multi-byte sequences assembled from several indeterminates are handled in the full model.) -/
def decodeAscii (bytes : List Nat) : Option (List Nat) := if bytes.all (· < 128) then some bytes else none

/-- key under which `cmultiply` stores the product of rows `e1`, `e2` -/
def mulKey (offset : Nat) (e1 e2 : List Nat) : Option (List Nat) :=
  decodeAscii ((List.zipWith (· + ·) e1 e2).map (sprintfByte offset))
end Np.Key

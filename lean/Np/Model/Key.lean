/-! Mathlib-free model of the storage-key codec (C20): UCS-4 field names and the C `sprintf("%c")` formatter -/
namespace Np.Key

/-- code points numpy/CPython accept in a structured-array field name built from `exponent + offset` -/
def validCodePoint (c : Nat) : Bool := c != 58 && !(55296 ≤ c && c ≤ 57343) && c ≤ 1114111

/-- `keys = (exponents + KEY_OFFSET).view("U…")`: one code point per indeterminate; `none` = numpy raises -/
def encodeKey (offset : Nat) (e : List Nat) : Option (List Nat) :=
  if e.all (fun x => x + offset < 4294967296 && validCodePoint (x + offset)) then some (e.map (· + offset)) else none

/-- `exponents = keys.view(uint32) - KEY_OFFSET` (uint32 wrap-around made explicit) -/
def decodeKey (offset : Nat) (k : List Nat) : List Nat := k.map fun c => (c + 4294967296 - offset) % 4294967296

/-- `sprintf(key + len, "%c", e1 + e2 + offset)`: the low byte of the unsigned sum -/
def sprintfByte (offset : Nat) (s : Nat) : Nat := ((s + offset) % 4294967296) % 256

/-- `key[:len].decode("utf-8")` restricted to what can succeed one byte at a time: ASCII only.
(Multi-byte sequences assembled from several indeterminates are handled in the full model.) -/
def decodeAscii (bytes : List Nat) : Option (List Nat) := if bytes.all (· < 128) then some bytes else none

/-- key under which `cmultiply` stores the product of rows `e1`, `e2` -/
def mulKey (offset : Nat) (e1 e2 : List Nat) : Option (List Nat) :=
  decodeAscii ((List.zipWith (· + ·) e1 e2).map (sprintfByte offset))
end Np.Key

namespace Np.Key
/-- the key `multiply` (as repaired) stores a product term under: the compiled byte formatter only when the
coefficient dtype is one the C helpers know and every result exponent plus the offset stays below 128;
otherwise the key is built in Python from the exponent sum itself -/
def mulKeyPath (offset : Nat) (dtypeOk : Bool) (maxExp : Nat) (e1 e2 : List Nat) : Option (List Nat) :=
  if dtypeOk && decide (maxExp + offset < 128) then mulKey offset e1 e2
  else encodeKey offset (List.zipWith (· + ·) e1 e2)

/-- does a key survive the text header (`numpy.savetxt` header line, `str.split`, `\S+` regex)?  The header
separates names / keys / shape by blanks and keys by commas. -/
def headerSafe (k : List Nat) : Bool :=
  k.all fun c => !(c == 44 || c == 10 || c == 13 || c == 32 || c == 9 || c == 11 || c == 12 || c == 133 || c == 160
    || c == 5760 || (8192 ≤ c && c ≤ 8202) || c == 8232 || c == 8233 || c == 8239 || c == 8287 || c == 12288
    || (28 ≤ c && c ≤ 31))
end Np.Key

namespace Np.Key
/-- `numpy.array(exponents, dtype=uint32)` applied to 64-bit integers: the value modulo 2**32 -/
def narrow32 (x : Int) : Nat := (x % 4294967296).toNat

/-- the constructor before the repair D56: exponents (64-bit integers as a caller hands them over) were narrowed to
uint32 first and encoded afterwards -/
def storeKeyOld (offset : Nat) (e : List Int) : Option (List Nat) := encodeKey offset (e.map narrow32)

/-- the constructor as repaired (`ndpoly.__new__`): an exponent below 0 or beyond the last code point minus the offset
is refused (`none` = `ValueError`) before anything is narrowed -/
def storeKey (offset : Nat) (e : List Int) : Option (List Nat) :=
  if e.all (fun x => decide (0 ≤ x) && decide (x ≤ (1114111 : Int) - offset)) then encodeKey offset (e.map Int.toNat) else none
end Np.Key

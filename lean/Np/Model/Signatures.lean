/-! Call signatures of the registered functions next to numpy's own (C11/C08): what "mirrors a numpy function" means for
the argument list. The table is regenerated from /repo and the installed numpy on every run
(Np/Generated/Signatures.lean); this file holds its types, the comparison, and the reviewed deviations. Mathlib-free. -/
namespace Np.Sig

inductive PKind where
  | pos      -- positional-only or positional-or-keyword
  | kwonly
  | varpos   -- *args
  | varkw    -- **kwargs
deriving DecidableEq, Repr

structure Param where
  name : String
  kind : PKind
  /-- `repr` of the default; `none` = required; numpy's `<no value>` sentinel is recorded as `some "<no value>"` -/
  dflt : Option String
deriving DecidableEq, Repr

structure Entry where
  /-- qualified numpy name, e.g. `numpy.repeat` -/
  name : String
  /-- numpy's signature (`none`: numpy offers none for this callable) -/
  np : Option (List Param)
  /-- signature of the numpoly implementation the registry forwards to -/
  impl : List Param
deriving Repr

/-- one way in which an implementation's argument list departs from numpy's -/
inductive Dev where
  /-- the `i`-th positional parameter has another name (breaks keyword spelling of that argument, and signals a
  changed argument order) -/
  | posName (i : Nat) (numpy impl : String)
  /-- same parameter, both have a default, the defaults differ -/
  | dflt (param numpy impl : String)
deriving DecidableEq, Repr

def positional (ps : List Param) : List Param := ps.filter fun p => p.kind == .pos

def noValue : String := "<no value>"

def devDefault (a b : Param) : List Dev :=
  match a.dflt, b.dflt with
  | some x, some y => if x == y || x == noValue then [] else [.dflt a.name x y]
  | _, _ => []

/-- positional parameters are compared position by position (name, then default); keyword-only parameters of the
implementation are compared with numpy's parameter of the same name -/
def deviations (e : Entry) : List Dev :=
  match e.np with
  | none => []
  | some np =>
    let a := positional np
    let b := positional e.impl
    let byPos := (List.zip (List.range (min a.length b.length)) (List.zip a b)).flatMap fun (i, x, y) =>
      if x.name != y.name then [Dev.posName i x.name y.name] else devDefault x y
    let byName := (e.impl.filter fun p => p.kind == .kwonly).flatMap fun y =>
      match np.find? (fun x => x.name == y.name) with
      | some x => devDefault x y
      | none => []
    byPos ++ byName

/-- deviations that were read and judged (each is either harmless or a recorded finding):
* first parameter named differently (`q0`, `x`, `y`, `dividend`/`divisor`): positional calls are unaffected;
* `ones`/`zeros`: `dtype=float` is what numpy's `None` means; `ones_like`/`zeros_like`: `order=None` is passed on;
* `divmod`: `out=None` stands for numpy's `(None, None)`;
* `repeat`: `axis=0` instead of `None` — known finding D29 (pinned by the package's own test and docstring). -/
def reviewed : List (String × Dev) := [
  ("numpy.ceil", .posName 0 "x" "q0"),
  ("numpy.count_nonzero", .posName 0 "a" "x"),
  ("numpy.diag", .posName 0 "v" "y"),
  ("numpy.nonzero", .posName 0 "a" "x"),
  ("numpy.divmod", .posName 0 "x1" "dividend"),
  ("numpy.divmod", .posName 1 "x2" "divisor"),
  ("numpy.divmod", .dflt "out" "(None, None)" "None"),
  ("numpy.ones", .dflt "dtype" "None" "<class 'float'>"),
  ("numpy.zeros", .dflt "dtype" "None" "<class 'float'>"),
  ("numpy.ones_like", .dflt "order" "'K'" "None"),
  ("numpy.zeros_like", .dflt "order" "'K'" "None"),
  ("numpy.repeat", .dflt "axis" "None" "0")]

def unreviewed (table : List Entry) : List (String × Dev) :=
  table.flatMap fun e => ((deviations e).filter fun d => !(reviewed.contains (e.name, d))).map fun d => (e.name, d)
end Np.Sig

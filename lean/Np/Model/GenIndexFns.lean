import Np.Model.IndexFns
import Np.Model.AdvIndexFns
/-! numpy's index arithmetic for the GENERAL index expression `a[items]` (C09): any tuple of integers, slices with
steps, `numpy.newaxis`, `...`, integer arrays and boolean masks, Mathlib-free and executable.  This is what
`ndpoly.__getitem__` hands to numpy for every coefficient array.

numpy evaluates such an index in two stages, and the model follows them:

1. the *view*: every slice and `newaxis` is applied, every advanced item (integer array, boolean mask, and - as soon
   as one array is present - every integer) is replaced by the full slice `:`            (`Np.IndexFns.basicIndexF`);
2. the *advanced* stage on the view: a boolean mask of `k` dimensions is replaced by the `k` coordinate arrays of
   `nonzero(mask)`, an integer by a 0-d integer array; the index arrays broadcast to `B`; the axes of `B` stand where
   the advanced items stood if these are adjacent, else first                          (`Np.AdvIndexFns.mixedIndexF`).

The result lists, for every output flat position (C order), the flat position of the operand's element that lands
there (`some (outShape, idx)`), or `none` where numpy raises.  Integers are range-checked even when the result is empty
(numpy does that), integer arrays only when an element is read (`mixedIndexF`).

Not modelled: the 0-d boolean item `a[True]` (it adds an axis of extent 1 or 0). -/
namespace Np.GenIndexFns
open Np.Shape Np.ShapeFns Np.IndexFns Np.AdvIndexFns

inductive GItem
  | int (i : Int)
  | slice (start stop : Option Int) (step : Int)
  | newaxis
  | ellipsis
  /-- an integer array: shape and entries in C order -/
  | arr (ix : Ix)
  /-- a boolean array of at least one dimension: shape and entries in C order -/
  | mask (shape : List Nat) (bits : List Bool)
  deriving DecidableEq, Repr

def GItem.isEllipsis : GItem → Bool
  | .ellipsis => true
  | _ => false

/-- the items numpy treats as advanced ones once an array is present: integers, integer arrays, masks -/
def GItem.isAdv : GItem → Bool
  | .int _ => true
  | .arr _ => true
  | .mask .. => true
  | _ => false

/-- all advanced items stand next to each other IN THE INDEX AS WRITTEN: a slice, a `newaxis` or an ellipsis between
two of them separates them - also an ellipsis that stands for no axis at all -/
def adjacentG (items : List GItem) : Bool :=
  ((items.dropWhile fun it => !it.isAdv).dropWhile GItem.isAdv).all fun it => !it.isAdv

/-- integer arrays and masks make the whole index an advanced one -/
def GItem.isAdvanced : GItem → Bool
  | .arr _ => true
  | .mask .. => true
  | _ => false

/-- the number of operand axes the item uses up -/
def GItem.consumed : GItem → Nat
  | .int _ => 1
  | .slice .. => 1
  | .arr _ => 1
  | .mask s _ => s.length
  | _ => 0

/-- the basic item (only used when no advanced item is present) -/
def GItem.toBasic : GItem → Item
  | .int i => .int i
  | .slice a b st => .slice a b st
  | .newaxis => .newaxis
  | _ => .ellipsis

/-- the ellipsis stands for as many full slices as there are axes left; two ellipses are an error -/
def expandG (ndim : Nat) (items : List GItem) : Option (List GItem) :=
  match (items.filter GItem.isEllipsis).length with
  | 0 => some items
  | 1 => some (items.flatMap fun it =>
      if it.isEllipsis then List.replicate (ndim - (items.map GItem.consumed).sum) (GItem.slice none none 1) else [it])
  | _ => none

/-- the flat positions (ascending) at which the mask is `True` -/
def truePos (bits : List Bool) : List Nat := (List.range bits.length).filter fun i => bits.getD i false

/-- `numpy.nonzero(mask)` as index arrays: one per dimension, each of shape `[count]`; entry `t` of array `d` is
coordinate `d` of the `t`-th `True` position in C order -/
def maskCols (ms : List Nat) (bits : List Bool) : List Ix :=
  (List.range ms.length).map fun d =>
    ([(truePos bits).length], (truePos bits).map fun p => (((unravel ms p).getD d 0 : Nat) : Int))

/-- split ellipsis-free items into the view stage (basic items) and the advanced stage (one entry per axis of the
view: `some` index array or `none` for an axis that is kept), walking the operand's axes from left to right -/
def translate : List Nat → List GItem → Option (List Item × List (Option Ix))
  | _, [] => some ([], [])
  | shape, .newaxis :: items => (translate shape items).map fun r => (.newaxis :: r.1, none :: r.2)
  | _, .ellipsis :: _ => none
  | [], .int _ :: _ => none
  | [], .slice .. :: _ => none
  | [], .arr _ :: _ => none
  | n :: shape, .int i :: items =>
    if inRange n i then (translate shape items).map fun r => (Item.full :: r.1, some ([], [i]) :: r.2) else none
  | _ :: shape, .slice a b st :: items => (translate shape items).map fun r => (.slice a b st :: r.1, none :: r.2)
  | n :: shape, .arr ix :: items =>
    -- a 0-d integer array is an integer for numpy: it is range-checked even when no element is read
    if ix.1 ≠ [] ∨ (ix.2.length = 1 ∧ ix.2.all (inRange n)) then
      (translate shape items).map fun r => (Item.full :: r.1, some ix :: r.2)
    else none
  | shape, .mask ms bits :: items =>
    if ms.length ≠ 0 ∧ ms = shape.take ms.length ∧ bits.length = size ms then
      (translate (shape.drop ms.length) items).map fun r =>
        (List.replicate ms.length Item.full ++ r.1, (maskCols ms bits).map some ++ r.2)
    else none

/-- the advanced stage with the position `p` of the broadcast axes among the kept axes given explicitly
(`Np.AdvIndexFns.mixedIndexF` is the case `p = bpos items`, see `mixedIndexF_eq_at`) -/
def mixedAtF (shape : List Nat) (items : List (Option Ix)) (p : Nat) : Option (List Nat × List Nat) :=
  match bshapeAll ((items.filterMap id).map (·.1)) with
  | none => none
  | some B =>
    if mixOK (size B != 0) shape items then
      let sl := slicedDims shape items
      let out := sl.take p ++ B ++ sl.drop p
      some (out, gatherBy shape out fun j =>
        mixIn shape items ((j.drop p).take B.length) (j.take p ++ j.drop (p + B.length)))
    else none

/-- where the broadcast axes go: in place of the advanced items when these are adjacent in the index as written
(then `lead m` counts the kept axes before them), else first -/
def bposG (items : List GItem) (m : List (Option Ix)) : Nat := if adjacentG items then lead m else 0

/-- `a[items]` -/
def genIndexF (shape : List Nat) (items : List GItem) : Option (List Nat × List Nat) :=
  if items.any GItem.isAdvanced then
    match expandG shape.length items with
    | none => none
    | some items' =>
      match translate shape items' with
      | none => none
      | some (v, m) =>
        match basicIndexF shape v with
        | none => none
        | some (vs, idx1) =>
          match mixedAtF vs m (bposG items m) with
          | none => none
          | some (out, idx2) => some (out, idx2.map fun k => idx1.getD k 0)
  else basicIndexF shape (items.map GItem.toBasic)

/-! ### sanity checks against numpy (expected values produced by numpy 2 on `arange(24).reshape(2, 3, 4)`) -/

example : genIndexF [2, 3, 4] [.int 0, .slice none none 1, .arr ([2], [1, 2])] =
    some ([2, 3], [1, 5, 9, 2, 6, 10]) := by decide
example : genIndexF [2, 3, 4] [.slice none none 1, .int 0, .arr ([2], [1, 2])] =
    some ([2, 2], [1, 2, 13, 14]) := by decide
example : genIndexF [2, 3, 4] [.arr ([2], [0, 1]), .newaxis, .arr ([2], [0, 1])] =
    some ([2, 1, 4], [0, 1, 2, 3, 16, 17, 18, 19]) := by decide
example : genIndexF [2, 3, 4] [.newaxis, .arr ([2], [0, 1]), .arr ([2], [0, 1])] =
    some ([1, 2, 4], [0, 1, 2, 3, 16, 17, 18, 19]) := by decide
example : genIndexF [2, 3, 4] [.int 5, .arr ([0], [])] = none := by decide
example : genIndexF [2, 3, 4] [.int 1, .arr ([0], [])] = some ([0, 4], []) := by decide
example : genIndexF [2, 3, 4] [.arr ([2], [0, 1]), .ellipsis, .arr ([2], [0, 1])] =
    some ([2, 3], [0, 4, 8, 13, 17, 21]) := by decide
example : genIndexF [2, 3, 4] [.slice (some 1) none 1, .arr ([2], [0, 2]), .slice none none 2] =
    some ([1, 2, 2], [12, 14, 20, 22]) := by decide
example : genIndexF [2, 3, 4] [.arr ([1], [1]), .slice none none (-1), .arr ([2], [0, 2])] =
    some ([2, 3], [20, 16, 12, 22, 18, 14]) := by decide
example : genIndexF [2, 3, 4] [.mask [2] [true, false]] =
    some ([1, 3, 4], [0, 1, 2, 3, 4, 5, 6, 7, 8, 9, 10, 11]) := by decide
example : genIndexF [2, 3, 4] [.mask [2, 3] [true, false, true, false, false, true]] =
    some ([3, 4], [0, 1, 2, 3, 8, 9, 10, 11, 20, 21, 22, 23]) := by decide
example : genIndexF [2, 3, 4] [.mask [2, 3] [true, false, true, false, false, true], .int 1] =
    some ([3], [1, 9, 21]) := by decide
example : genIndexF [2, 3, 4] [.mask [2, 3] [true, false, true, false, false, true], .slice none none 2] =
    some ([3, 2], [0, 2, 8, 10, 20, 22]) := by decide
example : genIndexF [2, 3, 4] [.int 0, .mask [3] [true, false, true]] =
    some ([2, 4], [0, 1, 2, 3, 8, 9, 10, 11]) := by decide
example : genIndexF [2, 3, 4] [.arr ([2], [0, 1]), .slice none none 1, .mask [4] [true, false, true, false]] =
    some ([2, 3], [0, 4, 8, 14, 18, 22]) := by decide
example : genIndexF [2, 3, 4] [.arr ([2], [0, 1]), .slice none none 1, .mask [4] [true, false, true, true]] = none := by
  decide
example : genIndexF [2, 3, 4] [.mask [3] [true, false, true]] = none := by decide
example : genIndexF [2, 3, 4] [.mask [2] [false, false]] = some ([0, 3, 4], []) := by decide
example : genIndexF [2, 3, 4] [.mask [2] [false, false], .int 7] = none := by decide
example : genIndexF [2, 3, 4] [.ellipsis, .mask [4] [true, false, false, true]] =
    some ([2, 3, 2], [0, 3, 4, 7, 8, 11, 12, 15, 16, 19, 20, 23]) := by decide
example : genIndexF [2, 3, 4] [.ellipsis, .int 0, .ellipsis, .arr ([1], [0])] = none := by decide
example : genIndexF [2, 3, 4] [.int 0, .int 0, .int 0, .arr ([1], [0])] = none := by decide
example : genIndexF [2, 3, 4] [.int 1, .int 2, .arr ([2], [0, 3])] = some ([2], [20, 23]) := by decide
example : genIndexF [2, 3, 4] [.int (-1), .slice none none 1, .arr ([2, 1], [0, 1])] =
    some ([2, 1, 3], [12, 16, 20, 13, 17, 21]) := by decide
example : genIndexF [2, 3, 4] [.slice none none 1, .arr ([2], [0, 1]), .newaxis, .arr ([2], [0, 1])] =
    some ([2, 2, 1], [0, 12, 5, 17]) := by decide
example : genIndexF [2, 3, 4] [.int 1, .newaxis, .arr ([2], [0, 1])] =
    some ([2, 1, 4], [12, 13, 14, 15, 16, 17, 18, 19]) := by decide
example : genIndexF [3, 1, 2] [.slice (some 2) (some 1) 1, .int 0, .ellipsis, .arr ([3], [0, (-1), (-2)])] =
    some ([3, 0], []) := by decide
example : genIndexF [3, 1, 2] [.slice none none 1, .int 0, .arr ([2], [0, 1])] =
    some ([3, 2], [0, 1, 2, 3, 4, 5]) := by decide
example : genIndexF [3, 1, 2] [.slice none none 1, .int 0, .ellipsis, .arr ([2], [0, 1])] =
    some ([2, 3], [0, 2, 4, 1, 3, 5]) := by decide
example : genIndexF [2, 3] [.arr ([], [7]), .arr ([0], [])] = none := by decide
example : genIndexF [2, 3] [.arr ([1], [7]), .arr ([0], [])] = some ([0], []) := by decide
example : genIndexF [2, 3] [.arr ([0], []), .arr ([], [7])] = none := by decide
example : genIndexF [2, 3, 4] [.int 1, .slice none none 1] = some ([3, 4], [12, 13, 14, 15, 16, 17, 18, 19, 20, 21, 22, 23]) := by
  decide

end Np.GenIndexFns

/-! coefficient columns: length-indexed arrays (core `Vector`) with pointwise arithmetic.
Mathlib-free and strict, so the type the driver executes is the type the theorems are instantiated at. -/
namespace Np

/-- a coefficient column of an array with `n` elements (row-major) -/
abbrev Vec (R : Type) (n : Nat) := Vector R n

namespace Vec
variable {R : Type} {n : Nat}

def get (v : Vec R n) (i : Fin n) : R := v[i.val]
def ofFn (f : Fin n → R) : Vec R n := Vector.ofFn f
def toList (v : Vec R n) : List R := Vector.toList v

instance [Zero R] : Zero (Vec R n) := ⟨Vector.replicate n 0⟩
instance [One R] : One (Vec R n) := ⟨Vector.replicate n 1⟩
instance [Add R] : Add (Vec R n) := ⟨fun a b => Vector.zipWith (· + ·) a b⟩
instance [Mul R] : Mul (Vec R n) := ⟨fun a b => Vector.zipWith (· * ·) a b⟩
instance [Neg R] : Neg (Vec R n) := ⟨fun a => Vector.map (- ·) a⟩
instance [Sub R] : Sub (Vec R n) := ⟨fun a b => Vector.zipWith (· - ·) a b⟩
instance [NatCast R] : NatCast (Vec R n) := ⟨fun k => Vector.replicate n (k : R)⟩

/-- `coeff[σ]`: broadcasting / any shape function as an index map -/
def gather {m : Nat} (σ : Fin n → Fin m) (v : Vec R m) : Vec R n := Vector.ofFn fun i => v[(σ i).val]

/-- apply a scalar function to every entry (casts, rounding, …) -/
def mapEntries {T : Type} (f : R → T) (v : Vec R n) : Vec T n := Vector.map f v
end Vec
end Np

import Np.Model.Basic
import Np.Model.Index
/-! Mathlib-free model of the term printer `_to_string` (C16): which terms are printed, in which order, and how each
is assembled from tokens; the coefficient's own text (`str` of a numpy scalar) is a parameter. -/
namespace Np.Print
variable {R : Type}

/-- one printed term -/
structure Tok (R : Type) where
  coef : R
  expo : Expo
  /-- `1` and `-1` are elided in front of a monomial -/
  coefShown : Bool
  /-- the elided `-1` leaves a bare minus sign -/
  bareMinus : Bool
deriving Repr

/-- terms in printing order: `glexsort` by the display flags, reversed when `display_inverse`, zeros skipped -/
def printOrder [Zero R] [BEq R] (graded reverse inverse : Bool) (ts : List (Expo × R)) : List (Expo × R) :=
  let order := Index.glexsort graded reverse (ts.map (·.1))
  let order := if inverse then order.reverse else order
  (order.map fun i => ts.getD i ([], 0)).filter fun t => !(t.2 == 0)

def printTokens [Zero R] [One R] [Neg R] [BEq R] (graded reverse inverse : Bool) (ts : List (Expo × R)) : List (Tok R) :=
  (printOrder graded reverse inverse ts).map fun t =>
    let mono := t.1.any (· != 0)
    { coef := t.2, expo := t.1,
      coefShown := !(mono && (t.2 == (1 : R) || t.2 == (-(1 : R)))),
      bareMinus := mono && t.2 == (-(1 : R)) }

/-- text of one term (without the joiner): coefficient text, then `name`/`name**k` factors separated by the multiply sign -/
def termText (mult exp : String) (names : List String) (showC : R → String) (t : Tok R) : String :=
  let head := if t.coefShown then showC t.coef else if t.bareMinus then "-" else ""
  (List.zip t.expo names).foldl (fun out en =>
    if en.1 == 0 then out
    else
      let out := if out != "" && out != "-" then out ++ mult else out
      let out := out ++ en.2
      if en.1 > 1 then out ++ exp ++ toString en.1 else out) head

/-- the whole text: terms joined with `+` unless the term text starts with `-` (as repaired, D13); the zero polynomial
prints the zero of its dtype (`zeroText`) -/
def render (mult exp : String) (names : List String) (showC : R → String) (zeroText : String) (toks : List (Tok R)) : String :=
  if toks.isEmpty then zeroText
  else
    (toks.foldl (fun (acc : String × Bool) t =>
      let s := termText mult exp names showC t
      let s := if acc.2 && !(s.startsWith "-") then "+" ++ s else s
      (acc.1 ++ s, true)) ("", false)).1
end Np.Print

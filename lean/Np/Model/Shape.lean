/-! shapes, row-major flat indices and numpy broadcasting (Mathlib-free) -/
namespace Np.Shape

def size (s : List Nat) : Nat := s.foldr (· * ·) 1

/-- row-major multi-index of flat index `i` in shape `s` -/
def unravel : List Nat → Nat → List Nat
  | [], _ => []
  | d :: ds, i => (i / size ds) % d :: unravel ds (i % size ds)

/-- row-major flat index of multi-index `idx` in shape `s` -/
def ravel : List Nat → List Nat → Nat
  | d :: ds, x :: xs => (x % d) * size ds + ravel ds xs
  | _, _ => 0

/-- `numpy.broadcast_shapes` of two shapes given with the *last* axis first -/
def bshapeRev : List Nat → List Nat → Option (List Nat)
  | [], t => some t
  | s, [] => some s
  | a :: s, b :: t =>
    match bshapeRev s t with
    | none => none
    | some r => if a == b then some (a :: r) else if a == 1 then some (b :: r) else if b == 1 then some (a :: r) else none

def bshape (s t : List Nat) : Option (List Nat) := (bshapeRev s.reverse t.reverse).map List.reverse

def bshapeAll : List (List Nat) → Option (List Nat)
  | [] => some []
  | s :: rest => match bshapeAll rest with
    | none => none
    | some r => bshape s r

/-- multi-index into an operand of shape `from_` for result multi-index `idx` (result shape is longer or equal) -/
def bmulti (from_ : List Nat) (idx : List Nat) : List Nat :=
  let k := idx.length - from_.length
  List.zipWith (fun d x => if d == 1 then 0 else x) from_ (idx.drop k)

/-- flat index into an operand of shape `from_` for flat index `i` of the broadcast shape `to` -/
def bindex (from_ to : List Nat) (i : Nat) : Nat := ravel from_ (bmulti from_ (unravel to i))

/-- package a `Nat → Nat` index function as a map between finite index sets, if it stays in range -/
def mkIndexMap (n m : Nat) (f : Nat → Nat) : Option (Fin n → Fin m) :=
  if h : ∀ i : Fin n, f i.val < m then some (fun i => ⟨f i.val, h i⟩) else none
end Np.Shape

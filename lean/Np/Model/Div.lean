import Np.Model.Basic
import Np.Model.Index
/-! Mathlib-free model of `poly_divmod` for one array element (as repaired: one leading term per divisor element,
chosen by `lexsort` position). Sparse term lists; fuel makes the loop total — termination is a theorem, not an
assumption. -/
namespace Np.Div
variable {R : Type}

/-- `numpy.lexsort(exponents.T)` order on exponent rows: the *last* indeterminate is most significant -/
def lexLe (a b : Expo) : Bool := Index.lexLe a.reverse b.reverse
def lexLt (a b : Expo) : Bool := lexLe a b && !(a == b)

/-- the largest term (in lexsort order) satisfying `p` -/
def maxTerm (p : Expo × R → Bool) : List (Expo × R) → Option (Expo × R)
  | [] => none
  | t :: ts =>
    match maxTerm p ts with
    | none => if p t then some t else none
    | some u => if p t && lexLt u.1 t.1 then some t else some u

/-- componentwise `e2 ≤ e1` (divisibility of monomials) -/
def divides (e2 e1 : Expo) : Bool := (List.zipWith (fun a b => decide (a ≤ b)) e2 e1).all id

section field
variable [Zero R] [Add R] [Sub R] [Mul R] [Div R] [BEq R]

/-- add `c·x^e` to a sparse term list (merging an existing row, dropping a row that becomes zero) -/
def addTerm (ts : List (Expo × R)) (e : Expo) (c : R) : List (Expo × R) :=
  if ts.any (fun t => t.1 == e) then
    (ts.map fun t => if t.1 == e then (t.1, t.2 + c) else t).filter fun t => !(t.2 == 0)
  else if c == 0 then ts else ts ++ [(e, c)]

/-- `f - c·x^m·d` -/
def subScaled (f d : List (Expo × R)) (m : Expo) (c : R) : List (Expo × R) :=
  d.foldl (fun acc t => addTerm acc (List.zipWith (· + ·) m t.1) ((0 : R) - c * t.2)) f

/-- one reduction step of the long division: `none` when no term of the dividend is divisible by the leading term -/
def step (d : List (Expo × R)) (qf : List (Expo × R) × List (Expo × R)) :
    Option (List (Expo × R) × List (Expo × R)) :=
  match maxTerm (fun t => !(t.2 == 0)) d with
  | none => none                               -- zero divisor: nothing to reduce by
  | some lead =>
    match maxTerm (fun t => !(t.2 == 0) && divides lead.1 t.1) qf.2 with
    | none => none
    | some k =>
      let c := k.2 / lead.2
      let m := List.zipWith (· - ·) k.1 lead.1
      some (addTerm qf.1 m c, subScaled qf.2 d m c)

/-- the loop with fuel: `none` = fuel exhausted (would mean non-termination within the bound) -/
def divmodFuel (d : List (Expo × R)) : Nat → List (Expo × R) × List (Expo × R) → Option (List (Expo × R) × List (Expo × R))
  | 0, _ => none
  | fuel + 1, qf =>
    match step d qf with
    | none => some qf
    | some qf' => divmodFuel d fuel qf'

def divmod (fuel : Nat) (f d : List (Expo × R)) : Option (List (Expo × R) × List (Expo × R)) :=
  divmodFuel d fuel ([], f.filter fun t => !(t.2 == 0))
end field
end Np.Div

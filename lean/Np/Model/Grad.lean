import Np.Model.Deriv
import Np.Model.Stack
/-! Mathlib-free model of `gradient` and `hessian` (C06) on polynomial arrays -/
namespace Np
variable {R : Type} [Zero R] [NatCast R] [Mul R] [BEq R]

instance vecNatCastMulBEq {n : Nat} : NatCast (Vec R n) := inferInstance

/-- `gradient`: one derivative per name of the input, joined along a new leading axis, cleaned by `concatenate` -/
def gradient {n : Nat} (rc rn : Bool) (p : Poly (Vec R n)) :
    Poly (Vec R (((List.range p.names.length).map fun j => derivative rn j p).length * n)) :=
  clean rc rn (stackPolys ((List.range p.names.length).map fun j => derivative rn j p))

/-- `hessian` as repaired: the gradient is brought back to the names of the input (`align_indeterminants`, which
stores them in index order) before it is differentiated again, once for each name of the INPUT and in the order of
`p.names` (`derivative(grad, name) for name in poly.names`): rows follow the same name order as the columns,
and the result has one row and one column per indeterminate whatever `retain_names` says -/
def hessianOf {n : Nat} (rc rn : Bool) (p : Poly (Vec R n)) :=
  let g := gradient rc rn p
  let g' : Poly _ := alignIndet (sortDedup natLt (g.names ++ p.names)) g
  clean rc rn (stackPolys (p.names.map fun x => derivative rn (g'.names.idxOf x) g'))
end Np

import Np.Model.Basic
import Np.Model.Vec
import Np.Model.Arr
/-! Mathlib-free model of joining polynomial arrays along a new leading axis (gradient, concatenate, stack)
and of the outer product used by `call`. -/
namespace Np
open Shape
variable {R : Type}

/-- names of several operands merged by index (as `align_indeterminants` does) -/
def commonNamesAll {S : Type} (ps : List (Poly S)) : List Name :=
  sortDedup natLt (ps.flatMap (·.names))

/-- align any number of operands: common names, then the sorted union of exponent rows -/
def alignAll {S : Type} [Zero S] (ps : List (Poly S)) : List (Poly S) :=
  let common := commonNamesAll ps
  let ps := ps.map (alignIndet common)
  let es := sortDedup expoLt (ps.flatMap (·.expos))
  ps.map (alignExpo es)

/-- put `k` aligned blocks of `n` elements one after the other: element `(b, i)` comes from block `b` -/
def stackCols [Zero R] {n : Nat} (k : Nat) (cols : List (Vec R n)) : Vec R (k * n) :=
  Vec.ofFn fun (i : Fin (k * n)) =>
    if h : i.val % n < n then (cols.getD (i.val / n) 0).get ⟨i.val % n, h⟩ else 0

/-- join same-shape polynomial arrays along a new leading axis (no cleaning) -/
def stackPolys [Zero R] {n : Nat} (ps : List (Poly (Vec R n))) : Poly (Vec R (ps.length * n)) :=
  let al := alignAll ps
  match al with
  | [] => { names := [], terms := [] }
  | p0 :: _ =>
    { names := p0.names,
      terms := (List.range p0.terms.length).map fun r =>
        ((p0.terms.getD r ([], 0)).1, stackCols ps.length (al.map fun p => (p.terms.getD r ([], 0)).2)) }

/-- `outer(coefficient, term)`: column `c` (array positions) against every column of `t` (argument positions) -/
def outerPoly [Mul R] {n m : Nat} (c : Vec R n) (t : Poly (Vec R m)) : Poly (Vec R (n * m)) :=
  { names := t.names,
    terms := t.terms.map fun u => (u.1, Vec.ofFn fun (i : Fin (n * m)) =>
      have hm : 0 < m := by
        rcases Nat.eq_zero_or_pos m with h | h
        · exact absurd i.isLt (by simp [h])
        · exact h
      have hn : i.val / m < n := by
        rw [Nat.div_lt_iff_lt_mul hm]; exact i.isLt
      c.get ⟨i.val / m, hn⟩ * u.2.get ⟨i.val % m, Nat.mod_lt _ hm⟩) }
end Np

import Np.Model.ShapeFns
/-! numpy's index arithmetic for the selecting / filling / joining functions (C09), Mathlib-free and executable:
`where`, `choose`, `full` / `full_like`, `hstack` / `vstack` / `dstack`.

As in `Np/Model/ShapeFns.lean` nothing here looks at the elements: every function returns
`some (outShape, idx)` where `idx` lists, for every output flat position (C order), WHICH operand is read and at
WHICH flat position (`(operand number, flat position in that operand)`; `fullF` has one operand and returns the
positions only), or `none` where numpy raises.  numpoly applies the numpy function to every coefficient array
with the same shapes, hence with the same index list: whole polynomial elements are moved. -/
namespace Np.SelectFns
open Np.Shape Np.ShapeFns

/-! ### where -/

/-- `numpy.where(condition, x, y)`: `cond` are the truth values of the condition (shape `sc`, C order), `sx`,
`sy` the shapes of `x` (operand 0) and `y` (operand 1).  The three shapes are broadcast together. -/
def whereF (cond : List Bool) (sc sx sy : List Nat) : Option (List Nat × List (Nat × Nat)) :=
  if cond.length == size sc then
    match bshapeAll [sc, sx, sy] with
    | none => none
    | some out =>
      some (out, (List.range (size out)).map fun i =>
        if cond.getD (bindex sc out i) false then (0, bindex sx out i) else (1, bindex sy out i))
  else none

/-! ### choose -/

/-- `numpy.choose(selector, choices)` with `mode='raise'`: `sel` are the selector values (shape `ss`, C order),
`shapes` the shapes of the choices.  All shapes are broadcast together; numpy raises for an empty list of choices
and when a selector value that is actually visited is not the number of a choice (for an empty result no value
is visited).  (numpy's version dependent limit on the number of choices, 63 in numpy 2.4, is not modelled.) -/
def chooseF (sel : List Nat) (ss : List Nat) (shapes : List (List Nat)) : Option (List Nat × List (Nat × Nat)) :=
  if sel.length == size ss && !shapes.isEmpty then
    match bshapeAll (ss :: shapes) with
    | none => none
    | some out =>
      if (List.range (size out)).all fun i => sel.getD (bindex ss out i) 0 < shapes.length then
        some (out, (List.range (size out)).map fun i =>
          (sel.getD (bindex ss out i) 0, bindex (shapes.getD (sel.getD (bindex ss out i) 0) []) out i))
      else none
  else none

/-! ### full -/

/-- drop at most `k` leading unit dimensions (numpy's assignment does that for a value with more dimensions
than the destination) -/
def stripOnes : Nat → List Nat → List Nat
  | k + 1, 1 :: s => stripOnes k s
  | _, s => s

/-- `numpy.full(shape, value)` / `full_like` for a `value` array of shape `sv`: `value` (without its surplus
leading unit dimensions) must broadcast to exactly `shape`.  One operand: the list holds its flat positions. -/
def fullF (shape sv : List Nat) : Option (List Nat × List Nat) :=
  let sv' := stripOnes (sv.length - shape.length) sv
  if bshape sv' shape == some shape then
    some (shape, (List.range (size shape)).map fun i => bindex sv' shape i)
  else none

/-! ### hstack, vstack, dstack -/

/-- shape after `numpy.atleast_1d` -/
def atleast1d : List Nat → List Nat
  | [] => [1]
  | s => s

/-- shape after `numpy.atleast_2d` -/
def atleast2d : List Nat → List Nat
  | [] => [1, 1]
  | [n] => [1, n]
  | s => s

/-- shape after `numpy.atleast_3d` -/
def atleast3d : List Nat → List Nat
  | [] => [1, 1, 1]
  | [n] => [1, n, 1]
  | [m, n] => [m, n, 1]
  | s => s

/-- `numpy.hstack`: `atleast_1d`, then concatenate along axis 0 if the first operand is 1-d, else along axis 1.
The promotions are C-order reshapes, so the flat positions of `concatF` are flat positions of the operands. -/
def hstackF (shapes : List (List Nat)) : Option (List Nat × List (Nat × Nat)) :=
  match shapes.map atleast1d with
  | [] => none
  | s0 :: rest => concatF (s0 :: rest) (if s0.length == 1 then 0 else 1)

/-- `numpy.vstack`: `atleast_2d`, then concatenate along axis 0 -/
def vstackF (shapes : List (List Nat)) : Option (List Nat × List (Nat × Nat)) :=
  concatF (shapes.map atleast2d) 0

/-- `numpy.dstack`: `atleast_3d`, then concatenate along axis 2 -/
def dstackF (shapes : List (List Nat)) : Option (List Nat × List (Nat × Nat)) :=
  concatF (shapes.map atleast3d) 2

/-! ### sanity checks against numpy (operand `k` filled with `1000 k + arange`, result decoded) -/

-- numpy.where([True,False,True], x(3,), y(3,1))
example : whereF [true, false, true] [3] [3] [3, 1] =
    some ([3, 3], [(0, 0), (1, 0), (0, 2), (0, 0), (1, 1), (0, 2), (0, 0), (1, 2), (0, 2)]) := by decide
example : whereF [true, false] [2, 1] [3] [] = some ([2, 3], [(0, 0), (0, 1), (0, 2), (1, 0), (1, 0), (1, 0)]) := by
  decide
example : whereF [true, false] [2] [3] [] = none := by decide
example : whereF [true] [] [2, 2] [2] = some ([2, 2], [(0, 0), (0, 1), (0, 2), (0, 3)]) := by decide
example : whereF [false, true] [2] [] [] = some ([2], [(1, 0), (0, 0)]) := by decide
example : whereF [] [0] [1] [] = some ([0], []) := by decide
example : whereF [] [0] [2] [] = none := by decide
example : whereF [true, false, false, true] [2, 2] [2, 1] [1, 2] =
    some ([2, 2], [(0, 0), (1, 1), (1, 0), (0, 1)]) := by decide
-- a condition list that does not fit its shape is outside the domain
example : whereF [true] [2] [2] [2] = none := by decide
-- numpy.choose([[0],[1]], [c0(3,), c1(3,)])
example : chooseF [0, 1] [2, 1] [[3], [3]] = some ([2, 3], [(0, 0), (0, 1), (0, 2), (1, 0), (1, 1), (1, 2)]) := by
  decide
example : chooseF [1, 2, 0] [3] [[3], [3], [3]] = some ([3], [(1, 0), (2, 1), (0, 2)]) := by decide
example : chooseF [1, 3, 0] [3] [[3], [3], [3]] = none := by decide
example : chooseF [1, 0] [2] [[], [2, 2]] = some ([2, 2], [(1, 0), (0, 0), (1, 2), (0, 0)]) := by decide
example : chooseF [0, 1] [2] [[3], [2]] = none := by decide
-- an out-of-range selector value that is never visited does not raise
example : chooseF [5] [1] [[0]] = some ([0], []) := by decide
example : chooseF [1] [] [[2], [1]] = some ([2], [(1, 0), (1, 0)]) := by decide
example : chooseF [] [0] [] = none := by decide
example : chooseF [0] [1] [] = none := by decide
-- numpy.full((2,3), value)
example : fullF [2, 3] [1, 2, 3] = some ([2, 3], [0, 1, 2, 3, 4, 5]) := by decide
example : fullF [2, 3] [3] = some ([2, 3], [0, 1, 2, 0, 1, 2]) := by decide
example : fullF [2, 3] [2, 1] = some ([2, 3], [0, 0, 0, 1, 1, 1]) := by decide
example : fullF [2, 3] [] = some ([2, 3], [0, 0, 0, 0, 0, 0]) := by decide
example : fullF [2, 3] [2] = none := by decide
example : fullF [2, 3] [2, 2, 3] = none := by decide
example : fullF [2, 3] [1, 1, 1, 3] = some ([2, 3], [0, 1, 2, 0, 1, 2]) := by decide
example : fullF [2, 3] [2, 1, 3] = none := by decide
example : fullF [] [1, 1] = some ([], [0]) := by decide
example : fullF [1] [0] = none := by decide
example : fullF [0] [1] = some ([0], []) := by decide
example : fullF [2, 2] [1, 2, 1] = some ([2, 2], [0, 0, 1, 1]) := by decide
-- numpy.hstack
example : hstackF [[2], [3]] = some ([5], [(0, 0), (0, 1), (1, 0), (1, 1), (1, 2)]) := by decide
example : hstackF [[], [2]] = some ([3], [(0, 0), (1, 0), (1, 1)]) := by decide
example : hstackF [[2, 1], [2, 2]] = some ([2, 3], [(0, 0), (1, 0), (1, 1), (0, 1), (1, 2), (1, 3)]) := by decide
example : hstackF [[2], [2, 2]] = none := by decide
example : hstackF [[2, 2], [2]] = none := by decide
example : hstackF [] = none := by decide
-- numpy.vstack
example : vstackF [[2], [2]] = some ([2, 2], [(0, 0), (0, 1), (1, 0), (1, 1)]) := by decide
example : vstackF [[], []] = some ([2, 1], [(0, 0), (1, 0)]) := by decide
example : vstackF [[2], [1, 2], [2, 2]] =
    some ([4, 2], [(0, 0), (0, 1), (1, 0), (1, 1), (2, 0), (2, 1), (2, 2), (2, 3)]) := by decide
example : vstackF [[2], [3]] = none := by decide
example : vstackF [[], [2]] = none := by decide
example : vstackF [] = none := by decide
-- numpy.dstack
example : dstackF [[2], [2]] = some ([1, 2, 2], [(0, 0), (1, 0), (0, 1), (1, 1)]) := by decide
example : dstackF [[], []] = some ([1, 1, 2], [(0, 0), (1, 0)]) := by decide
example : dstackF [[2, 2], [2, 2, 2]] = some ([2, 2, 3],
    [(0, 0), (1, 0), (1, 1), (0, 1), (1, 2), (1, 3), (0, 2), (1, 4), (1, 5), (0, 3), (1, 6), (1, 7)]) := by decide
example : dstackF [[2], [1, 2]] = some ([1, 2, 2], [(0, 0), (1, 0), (0, 1), (1, 1)]) := by decide
example : dstackF [[2], [2, 1]] = none := by decide
example : dstackF [[3, 1], [3, 1]] = some ([3, 1, 2], [(0, 0), (1, 0), (0, 1), (1, 1), (0, 2), (1, 2)]) := by decide
example : dstackF [] = none := by decide

end Np.SelectFns

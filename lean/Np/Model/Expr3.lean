import Np.Model.ExprPow
import Np.Model.Deriv
import Np.Model.Maps
/-! programs over the ring operators (`Expr2`) *plus* differentiation, indexing / shape functions (gathers), joins of
several operands and linear reductions (C15, C01/C03 for compositions). Mathlib-free. -/
namespace Np
open Shape
variable {R : Type}

/-- `numpoly.derivative(a, "name")`: `idx = poly.names.index(name)` raises `ValueError` when the array does not carry
the indeterminate; otherwise every element is differentiated by the stored position of the name -/
def Arr.derivName [Zero R] [NatCast R] [Mul R] [BEq R] (rn : Bool) (a : Arr R) (name : Name) : Except Err (Arr R) :=
  if a.poly.names.contains name then .ok ⟨a.shape, derivative rn (a.poly.names.idxOf name) a.poly⟩
  else .error .valueError

/-- integer weights of a linear reduction, cast into the coefficient ring -/
def castWeights [IntCast R] (W : List (List (Nat × Int))) : List (List (Nat × R)) :=
  W.map fun row => row.map fun jw => (jw.1, (jw.2 : R))

inductive Expr3 where
  | leaf (i : Nat)
  | add (x y : Expr3)
  | sub (x y : Expr3)
  | mul (x y : Expr3)
  | neg (x : Expr3)
  | pos (x : Expr3)
  | pow (x : Expr3) (k : Nat)
  | powArr (x : Expr3) (kshape : List Nat) (ks : List Nat)
  /-- partial derivative of every element by the indeterminate `name` -/
  | deriv (x : Expr3) (name : Name)
  /-- any shape function / indexing: 1-based flat positions into `x`, 0 = zero fill -/
  | gather (x : Expr3) (outShape idx : List Nat)
  /-- gather over the concatenation of several operands: concatenate / stack / where -/
  | join (xs : List Expr3) (outShape idx : List Nat)
  /-- linear reduction: element `i` is `Σ_(j,w) ∈ W[i]  w * x[j]` -/
  | sum (x : Expr3) (outShape : List Nat) (W : List (List (Nat × Int)))

section eval
variable [Zero R] [One R] [Add R] [Sub R] [Neg R] [Mul R] [BEq R] [NatCast R] [IntCast R]

mutual
def evalModel3 (rc rn : Bool) (env : List (Arr R)) : Expr3 → Except Err (Arr R)
  | .leaf i => match env[i]? with | some a => .ok a | none => .error .internal
  | .add x y => do let a ← evalModel3 rc rn env x; let b ← evalModel3 rc rn env y; Arr.add rc rn a b
  | .sub x y => do let a ← evalModel3 rc rn env x; let b ← evalModel3 rc rn env y; Arr.sub rc rn a b
  | .mul x y => do let a ← evalModel3 rc rn env x; let b ← evalModel3 rc rn env y; Arr.mul rc rn a b
  | .neg x => do let a ← evalModel3 rc rn env x; pure (Arr.neg rc rn a)
  | .pos x => do let a ← evalModel3 rc rn env x; pure (Arr.pos rc rn a)
  | .pow x k => do let a ← evalModel3 rc rn env x; Arr.pow rc rn a k
  | .powArr x kshape ks => do let a ← evalModel3 rc rn env x; Arr.powArr rc rn a kshape ks
  | .deriv x name => do let a ← evalModel3 rc rn env x; Arr.derivName rn a name
  | .gather x outShape idx => do let a ← evalModel3 rc rn env x; pure (gatherOp rc rn [a] outShape idx)
  | .join xs outShape idx => do let as ← evalList3 rc rn env xs; pure (gatherOp rc rn as outShape idx)
  | .sum x outShape W => do let a ← evalModel3 rc rn env x; pure (linearOp rc rn a outShape (castWeights W))
/-- the operands of a `join`, left to right; the first failure is the failure of the whole -/
def evalList3 (rc rn : Bool) (env : List (Arr R)) : List Expr3 → Except Err (List (Arr R))
  | [] => .ok []
  | x :: xs => do let a ← evalModel3 rc rn env x; let as ← evalList3 rc rn env xs; pure (a :: as)
end
end eval

/-- every `Expr2` program is an `Expr3` program -/
def Expr2.embed3 : Expr2 → Expr3
  | .leaf i => .leaf i
  | .add x y => .add x.embed3 y.embed3
  | .sub x y => .sub x.embed3 y.embed3
  | .mul x y => .mul x.embed3 y.embed3
  | .neg x => .neg x.embed3
  | .pos x => .pos x.embed3
  | .pow x k => .pow x.embed3 k
  | .powArr x kshape ks => .powArr x.embed3 kshape ks

mutual
/-- the program contains no `deriv` node -/
def Expr3.noDeriv : Expr3 → Bool
  | .leaf _ => true
  | .add x y | .sub x y | .mul x y => x.noDeriv && y.noDeriv
  | .neg x | .pos x | .pow x _ | .powArr x _ _ | .gather x _ _ | .sum x _ _ => x.noDeriv
  | .deriv _ _ => false
  | .join xs _ _ => Expr3.noDerivList xs
def Expr3.noDerivList : List Expr3 → Bool
  | [] => true
  | x :: xs => x.noDeriv && Expr3.noDerivList xs
end
end Np

import Np.Model.Basic
import Np.Model.Vec
import Np.Model.Multiply
import Np.Model.Shape
/-! polynomial *arrays*: a shape plus a polynomial over the column type `Vec R (size shape)`;
broadcasting binary operations, powers and expression trees (C01). Mathlib-free. -/
namespace Np
open Shape

inductive Err where
  | construction | featureNotSupported | typeError | keyError | valueError | overflow | decode | assertion
  | uninit      -- an operation would hand back memory it never wrote (C12)
  | internal    -- the model itself is used outside its domain (never expected)
deriving DecidableEq, Repr

structure Arr (R : Type) where
  shape : List Nat
  poly : Poly (Vec R (size shape))

variable {R : Type}

/-- `coeff * ones(common)`: every column gathered through the broadcast index map -/
def Arr.bcast (a : Arr R) (s : List Nat) : Option (Poly (Vec R (size s))) :=
  (mkIndexMap (size s) (size a.shape) (bindex a.shape s)).map fun σ => mapCoef (Vec.gather σ) a.poly

/-- numpy-style broadcasting binary operation on polynomial arrays -/
def Arr.binop (f : (n : Nat) → Poly (Vec R n) → Poly (Vec R n) → Option (Poly (Vec R n)))
    (a b : Arr R) : Except Err (Arr R) :=
  match bshape a.shape b.shape with
  | none => .error .valueError
  | some s =>
    match a.bcast s, b.bcast s with
    | some pa, some pb =>
      match f _ pa pb with
      | some r => .ok ⟨s, r⟩
      | none => .error .uninit
    | _, _ => .error .internal

section ops
variable [Zero R] [One R] [Add R] [Sub R] [Neg R] [Mul R] [BEq R]

def Arr.add (rc rn : Bool) : Arr R → Arr R → Except Err (Arr R) :=
  Arr.binop fun _ x y => some (Np.add rc rn x y)
def Arr.sub (rc rn : Bool) : Arr R → Arr R → Except Err (Arr R) :=
  Arr.binop fun _ x y => some (Np.sub rc rn x y)
def Arr.mul (rc rn : Bool) : Arr R → Arr R → Except Err (Arr R) :=
  Arr.binop fun _ x y => Np.multiply rc rn x y
def Arr.neg (rc rn : Bool) (a : Arr R) : Arr R := ⟨a.shape, Np.neg rc rn a.poly⟩
/-- `numpy.positive` through `simple_dispatch`: identity on columns, then `clean` -/
def Arr.pos (rc rn : Bool) (a : Arr R) : Arr R := ⟨a.shape, clean rc rn a.poly⟩

/-- `power` with a scalar exponent: start from the constant one over `names[:1]`, multiply `k` times -/
def powS {S : Type} [Zero S] [One S] [Add S] [Mul S] [BEq S] (rc rn : Bool) (p : Poly S) : Nat → Option (Poly S)
  | 0 => some { names := p.names.take 1, terms := [((p.names.take 1).map fun _ => 0, 1)] }
  | k + 1 => match powS rc rn p k with
    | none => none
    | some r => multiply rc rn r p

def Arr.pow (rc rn : Bool) (a : Arr R) (k : Nat) : Except Err (Arr R) :=
  match powS rc rn a.poly k with
  | some r => .ok ⟨a.shape, r⟩
  | none => .error .uninit
end ops

/-- programs over the ring operators (the "programs" quantifier of C01) -/
inductive Expr where
  | leaf (i : Nat)
  | add (x y : Expr)
  | sub (x y : Expr)
  | mul (x y : Expr)
  | neg (x : Expr)
  | pos (x : Expr)
  | pow (x : Expr) (k : Nat)
deriving Repr

def evalModel [Zero R] [One R] [Add R] [Sub R] [Neg R] [Mul R] [BEq R]
    (rc rn : Bool) (env : List (Arr R)) : Expr → Except Err (Arr R)
  | .leaf i => match env[i]? with | some a => .ok a | none => .error .internal
  | .add x y => do let a ← evalModel rc rn env x; let b ← evalModel rc rn env y; Arr.add rc rn a b
  | .sub x y => do let a ← evalModel rc rn env x; let b ← evalModel rc rn env y; Arr.sub rc rn a b
  | .mul x y => do let a ← evalModel rc rn env x; let b ← evalModel rc rn env y; Arr.mul rc rn a b
  | .neg x => do let a ← evalModel rc rn env x; pure (Arr.neg rc rn a)
  | .pos x => do let a ← evalModel rc rn env x; pure (Arr.pos rc rn a)
  | .pow x k => do let a ← evalModel rc rn env x; Arr.pow rc rn a k
end Np

namespace Np
open Shape
variable {R : Type}

/-- `power` with an *array* of exponents: element `i` of the broadcast result is `a[i] ** k[i]`. Modelled as the sum,
over the distinct exponents `d`, of the `d`-th power of the broadcast base masked to the positions where the exponent
is `d` (denotationally what raising each broadcast element separately gives). -/
def Arr.powArr [Zero R] [One R] [Add R] [Mul R] [BEq R] (rc rn : Bool) (a : Arr R) (kshape : List Nat) (ks : List Nat) :
    Except Err (Arr R) :=
  match bshape a.shape kshape with
  | none => .error .valueError
  | some s =>
    match a.bcast s, mkIndexMap (size s) (size kshape) (bindex kshape s) with
    | some pa, some σk =>
      let kk : Fin (size s) → Nat := fun i => ks.getD (σk i).val 0
      let ds := sortDedup natLt ((List.finRange (size s)).map kk)
      let zero : Poly (Vec R (size s)) := { names := pa.names.take 1, terms := [((pa.names.take 1).map fun _ => 0, 0)] }
      let r := ds.foldl (fun (acc : Option (Poly (Vec R (size s)))) d =>
        match acc, powS rc rn pa d with
        | some s0, some p =>
          some (Np.add rc rn s0 (mapCoef (fun v => Vec.ofFn fun i => if kk i == d then v.get i else 0) p))
        | _, _ => none) (some zero)
      match r with
      | some p => .ok ⟨s, p⟩
      | none => .error .uninit
    | _, _ => .error .internal
end Np

import Np.Model.Basic
import Np.Model.Div
import Np.Model.Arr
/-! Mathlib-free model of `poly_divmod(a, b)` on polynomial *arrays* (C05): broadcast both operands to the common
shape, align them (common names, common exponent rows) and run the scalar long division `Div.divmod` at every flat
position. Fuel makes the loop total; `none` at a position = the fuel ran out there (termination is a theorem, see
Np/Proofs/DivArr.lean). -/
namespace Np
open Shape
variable {R : Type}

/-- the sparse term list of array element `i`: every storage row with the `i`-th entry of its coefficient column -/
def elemTerms {n : Nat} (p : Poly (Vec R n)) (i : Fin n) : List (Expo × R) :=
  p.terms.map fun t => (t.1, t.2.get i)

/-- the names of the result: `sorted(set(a.names) | set(b.names))` (what `alignPair` of the broadcast operands uses) -/
def Arr.commonNames (a b : Arr R) : List Name := sortDedup natLt (a.poly.names ++ b.poly.names)

section field
variable [Zero R] [Add R] [Sub R] [Mul R] [Div R] [BEq R]

/-- element-wise long division of two arrays that already have the same shape (`n` elements): the common names and,
per flat position, `(quotient terms, remainder terms)` or `none` when the fuel ran out -/
def divmodPoly {n : Nat} (fuel : Nat) (pa pb : Poly (Vec R n)) :
    List Name × List (Option (List (Expo × R) × List (Expo × R))) :=
  let ab := alignPair pa pb
  (ab.1.names, (List.finRange n).map fun i => Div.divmod fuel (elemTerms ab.1 i) (elemTerms ab.2 i))

/-- `numpoly.poly_divmod(a, b)`: (common shape, common names, per flat position the quotient and remainder terms).
`.error .valueError`: the shapes do not broadcast; `.error .internal`: a broadcast index map left its range (never
happens for operands without zero-length axes). -/
def divmodArr (fuel : Nat) (a b : Arr R) :
    Except Err (List Nat × List Name × List (Option (List (Expo × R) × List (Expo × R)))) :=
  match bshape a.shape b.shape with
  | none => .error .valueError
  | some s =>
    match a.bcast s, b.bcast s with
    | some pa, some pb => .ok (s, divmodPoly fuel pa pb)
    | _, _ => .error .internal
end field

/-- non-vacuity: `[q0² , q0] / [q0]` with the divisor broadcast from shape `[1]` to `[2]`: quotients `q0`, `1` -/
example :
    ((divmodArr 5 (⟨[2], { names := [0], terms := [([2], #v[(1 : Int), 0]), ([1], #v[0, 1])] }⟩ : Arr Int)
      ⟨[1], { names := [0], terms := [([1], #v[1])] }⟩).toOption
    == some ([2], [0], [some ([([1], 1)], []), some ([([0], 1)], [])])) = true := by decide +kernel

/-- shapes `[2]` and `[3]` do not broadcast -/
example :
    (match divmodArr 5 (⟨[2], { names := [0], terms := [([1], #v[(1 : Int), 1])] }⟩ : Arr Int)
      ⟨[3], { names := [0], terms := [([1], #v[1, 1, 1])] }⟩ with
     | .error e => e == Err.valueError
     | .ok _ => false) = true := by decide +kernel
end Np

/-! Mathlib-free executable model: representation, sorting, cleaning, alignment (prototype) -/
namespace Np

abbrev Name := Nat
abbrev Expo := List Nat

/-- A polynomial with coefficients in `S` (for arrays: `S` = coefficient column). -/
structure Poly (S : Type) where
  names : List Name
  terms : List (Expo × S)
deriving Repr

variable {S : Type}

def Poly.expos (p : Poly S) : List Expo := p.terms.map (·.1)
def Poly.cols (p : Poly S) : List S := p.terms.map (·.2)

/-! ### sorted, duplicate-free lists (`numpy.unique`, `sorted(set(...))`) -/

def insertSorted {α : Type} (lt : α → α → Bool) (x : α) : List α → List α
  | [] => [x]
  | y :: ys => if lt x y then x :: y :: ys else if lt y x then y :: insertSorted lt x ys else y :: ys

def sortDedup {α : Type} (lt : α → α → Bool) (xs : List α) : List α := xs.foldr (insertSorted lt) []

def natLt (a b : Nat) : Bool := a < b

/-- row order of `numpy.unique(axis=0)`: lexicographic, first column most significant -/
def expoLt : Expo → Expo → Bool
  | [], [] => false
  | [], _ :: _ => true
  | _ :: _, [] => false
  | a :: as, b :: bs => if a < b then true else if b < a then false else expoLt as bs

/-! ### names -/

/-- exponent of name `m` in row `e` over `names` (0 when absent) -/
def expoAt : List Name → Expo → Name → Nat
  | n :: ns, x :: xs, m => if n == m then x else expoAt ns xs m
  | _, _, _ => 0

/-- `align_indeterminants` for one row -/
def scatter (names common : List Name) (e : Expo) : Expo := common.map (expoAt names e)

def alignIndet (common : List Name) (p : Poly S) : Poly S :=
  { names := common, terms := p.terms.map fun t => (scatter p.names common t.1, t.2) }

/-! ### exponents -/

def lookup [Zero S] (ts : List (Expo × S)) (e : Expo) : S :=
  match ts.find? (fun t => t.1 == e) with
  | some t => t.2
  | none => 0

/-- `align_exponents` for one operand: every common row, zero column when absent -/
def alignExpo [Zero S] (es : List Expo) (p : Poly S) : Poly S :=
  { p with terms := es.map fun e => (e, lookup p.terms e) }

/-! ### cleaning (`remove_redundant_coefficients`, `remove_redundant_names`) -/

def isZeroExpo (e : Expo) : Bool := e.all (· == 0)

def dropZeroCols [Zero S] [BEq S] (p : Poly S) : Poly S :=
  match p.terms.filter (fun t => !(t.2 == 0) || isZeroExpo t.1) with
  | [] => { p with terms := [(p.names.map fun _ => 0, 0)] }
  | kept => { p with terms := kept }

/-- keep the names with a non-zero exponent somewhere (the first name if none) -/
def occurs (p : Poly S) (n : Name) : Bool := p.terms.any fun t => expoAt p.names t.1 n != 0

def usedNames (p : Poly S) : List Name :=
  if (p.names.filter (occurs p)).isEmpty then p.names.take 1 else p.names.filter (occurs p)

def dropUnusedNames (p : Poly S) : Poly S := alignIndet (usedNames p) p

def clean [Zero S] [BEq S] (retainCoef retainNames : Bool) (p : Poly S) : Poly S :=
  let p := if retainCoef then p else dropZeroCols p
  if retainNames then p else dropUnusedNames p

/-! ### simple_dispatch for a binary, column-wise operation -/

def commonNames (a b : Poly S) : List Name := sortDedup natLt (a.names ++ b.names)

def alignPair [Zero S] (a b : Poly S) : Poly S × Poly S :=
  let common := commonNames a b
  let a := alignIndet common a
  let b := alignIndet common b
  let es := sortDedup expoLt (a.expos ++ b.expos)
  (alignExpo es a, alignExpo es b)

def zipCols (f : S → S → S) (a b : Poly S) : Poly S :=
  { names := a.names, terms := List.zipWith (fun x y => (x.1, f x.2 y.2)) a.terms b.terms }

def dispatch2 [Zero S] [BEq S] (rc rn : Bool) (f : S → S → S) (a b : Poly S) : Poly S :=
  let (a, b) := alignPair a b
  clean rc rn (zipCols f a b)

def add [Zero S] [Add S] [BEq S] (rc rn : Bool) (a b : Poly S) : Poly S := dispatch2 rc rn (· + ·) a b
def sub [Zero S] [Sub S] [BEq S] (rc rn : Bool) (a b : Poly S) : Poly S := dispatch2 rc rn (· - ·) a b
def neg [Zero S] [Neg S] [BEq S] (rc rn : Bool) (a : Poly S) : Poly S :=
  clean rc rn { a with terms := a.terms.map fun t => (t.1, -t.2) }

end Np

namespace Np
/-- apply a function to every coefficient column: element extraction, broadcasting, any shape function -/
def mapCoef {S T : Type} (φ : S → T) (p : Poly S) : Poly T :=
  { names := p.names, terms := p.terms.map fun t => (t.1, φ t.2) }
end Np

import Np.Model.Shape
import Np.Model.Sort
/-! numpy's index arithmetic for the common shape functions (C09), Mathlib-free and executable.

Every single-operand function returns `some (outShape, idx)` where `idx` lists, for every output flat position
(C order), the flat position of the input element that lands there, or `none` where numpy raises.  They are all
instances of `gatherBy`: unravel the output position in the output shape, rearrange the multi-index, ravel it in
the input shape.  `concatF` / `stackF` return `(operand number, flat position in that operand)` instead.
`gatherIdx1` / `gatherIdxN` turn the result into the 1-based flat index list `Np.gatherOp` expects. -/
namespace Np.ShapeFns
open Np.Shape

/-- the generic single-operand gather: output multi-index `j` reads input multi-index `f j` -/
def gatherBy (inShape outShape : List Nat) (f : List Nat → List Nat) : List Nat :=
  (List.range (size outShape)).map fun i => ravel inShape (f (unravel outShape i))

/-! ### transpose, moveaxis, swapaxes -/

/-- `perm` is a permutation of `0 .. n-1` (as a list of length `n` containing every axis) -/
def isPerm (n : Nat) (perm : List Nat) : Bool :=
  perm.length == n && (List.range n).all fun a => perm.contains a

/-- input multi-index of output multi-index `j`: input axis `a` is output axis `perm.idxOf a` -/
def transposeIn (n : Nat) (perm j : List Nat) : List Nat :=
  (List.range n).map fun a => j.getD (perm.idxOf a) 0

/-- `numpy.transpose(a, axes=perm)` -/
def transposeF (shape perm : List Nat) : Option (List Nat × List Nat) :=
  if isPerm shape.length perm then
    let out := perm.map fun a => shape.getD a 0
    some (out, gatherBy shape out (transposeIn shape.length perm))
  else none

/-- the axis order `numpy.moveaxis` hands to `transpose` -/
def moveaxisPerm (n src dst : Nat) : List Nat :=
  ((List.range n).filter fun a => a != src).insertIdx dst src

/-- `numpy.moveaxis(a, src, dst)` for non-negative in-range axes -/
def moveaxisF (shape : List Nat) (src dst : Nat) : Option (List Nat × List Nat) :=
  if src < shape.length && dst < shape.length then transposeF shape (moveaxisPerm shape.length src dst)
  else none

/-- `sorted(zip(destination, source))` (destinations are distinct, so sorting by destination is enough) -/
def sortPairs (ps : List (Nat × Nat)) : List (Nat × Nat) := Np.Sort.isort (fun a b => decide (a.1 ≤ b.1)) ps

/-- all entries different -/
def distinctB : List Nat → Bool
  | [] => true
  | x :: xs => !xs.contains x && distinctB xs

/-- the axis order `numpy.moveaxis` hands to `transpose` for sequences of axes: the axes that are not moved in their
order, then every (destination, source) pair - sorted by destination - inserted at its destination -/
def moveaxisSeqPerm (n : Nat) (src dst : List Nat) : List Nat :=
  (sortPairs (List.zip dst src)).foldl (fun order p => order.insertIdx p.1 p.2)
    ((List.range n).filter fun a => !src.contains a)

/-- `numpy.moveaxis(a, source, destination)` for sequences of non-negative in-range axes: `none` where numpy raises
(different lengths, a repeated axis, an axis out of range) -/
def moveaxisSeqF (shape : List Nat) (src dst : List Nat) : Option (List Nat × List Nat) :=
  if src.length == dst.length && distinctB src && distinctB dst && src.all (· < shape.length) && dst.all (· < shape.length) then
    transposeF shape (moveaxisSeqPerm shape.length src dst)
  else none

def swapAxis (a b k : Nat) : Nat := if k == a then b else if k == b then a else k

def swapaxesPerm (n a b : Nat) : List Nat := (List.range n).map (swapAxis a b)

/-- `numpy.swapaxes(a, a, b)` -/
def swapaxesF (shape : List Nat) (a b : Nat) : Option (List Nat × List Nat) :=
  if a < shape.length && b < shape.length then transposeF shape (swapaxesPerm shape.length a b)
  else none

/-! ### expand_dims, reshape -/

/-- `numpy.expand_dims(a, axis)`, `axis` in `0 .. ndim` -/
def expandDimsF (shape : List Nat) (axis : Nat) : Option (List Nat × List Nat) :=
  if axis ≤ shape.length then
    let out := shape.take axis ++ 1 :: shape.drop axis
    some (out, gatherBy shape out fun j => j.eraseIdx axis)
  else none

/-- `numpy.reshape(a, newshape)` in C order (no `-1` entries): the flat positions do not move -/
def reshapeF (shape newshape : List Nat) : Option (List Nat × List Nat) :=
  if size shape == size newshape then some (newshape, List.range (size newshape)) else none

/-! ### repeat, tile -/

/-- `numpy.repeat(a, k, axis)` -/
def repeatF (shape : List Nat) (k axis : Nat) : Option (List Nat × List Nat) :=
  if axis < shape.length then
    let out := shape.set axis (shape.getD axis 0 * k)
    some (out, gatherBy shape out fun j => j.set axis (j.getD axis 0 / k))
  else none

/-- pad with leading ones up to length `d` -/
def padOnes (d : Nat) (s : List Nat) : List Nat := List.replicate (d - s.length) 1 ++ s

/-- `numpy.tile(a, reps)`: both the shape and `reps` are padded with leading ones to the common length -/
def tileF (shape reps : List Nat) : Option (List Nat × List Nat) :=
  let d := max shape.length reps.length
  let sh := padOnes d shape
  let out := List.zipWith (· * ·) sh (padOnes d reps)
  some (out, gatherBy shape out fun j => (List.zipWith (fun x n => x % n) j sh).drop (d - shape.length))

/-! ### diagonal -/

/-- length of the `offset`-th diagonal of an `n1 × n2` matrix -/
def diagLen (n1 n2 : Nat) (offset : Int) : Nat :=
  if 0 ≤ offset then min n1 (n2 - offset.toNat) else min (n1 - (-offset).toNat) n2

/-- input multi-index for output multi-index `j` (whose last component runs along the diagonal) -/
def diagonalIn (n : Nat) (offset : Int) (ax1 ax2 : Nat) (j : List Nat) : List Nat :=
  let i := j.getD (n - 2) 0
  (List.range n).map fun a =>
    if a == ax1 then i + (-offset).toNat
    else if a == ax2 then i + offset.toNat
    else j.getD (a - (if ax1 < a then 1 else 0) - (if ax2 < a then 1 else 0)) 0

/-- `numpy.diagonal(a, offset, ax1, ax2)`: the two axes are removed and the diagonal axis goes last -/
def diagonalF (shape : List Nat) (offset : Int) (ax1 ax2 : Nat) : Option (List Nat × List Nat) :=
  let n := shape.length
  if ax1 < n && ax2 < n && ax1 != ax2 then
    let rest := ((List.range n).filter fun a => a != ax1 && a != ax2).map fun a => shape.getD a 0
    let out := rest ++ [diagLen (shape.getD ax1 0) (shape.getD ax2 0) offset]
    some (out, gatherBy shape out (diagonalIn n offset ax1 ax2))
  else none

/-! ### concatenate, stack -/

/-- position `x` along the joined axis: `(operand number, position inside that operand)` -/
def locate : List Nat → Nat → Nat × Nat
  | [], x => (0, x)
  | d :: ds, x => if x < d then (0, x) else ((locate ds (x - d)).1 + 1, (locate ds (x - d)).2)

/-- `s` agrees with `s0` in length and in every dimension except `axis` -/
def concatOK (s0 : List Nat) (axis : Nat) (s : List Nat) : Bool :=
  s.length == s0.length && (List.range s0.length).all fun a => a == axis || s.getD a 0 == s0.getD a 0

/-- `numpy.concatenate(arrays, axis)` -/
def concatF (shapes : List (List Nat)) (axis : Nat) : Option (List Nat × List (Nat × Nat)) :=
  match shapes with
  | [] => none
  | s0 :: _ =>
    if axis < s0.length && shapes.all (concatOK s0 axis) then
      let dims := shapes.map fun s => s.getD axis 0
      let out := s0.set axis dims.sum
      some (out, (List.range (size out)).map fun i =>
        let j := unravel out i
        let r := locate dims (j.getD axis 0)
        (r.1, ravel (shapes.getD r.1 []) (j.set axis r.2)))
    else none

/-- `numpy.stack(arrays, axis)`, `axis` in `0 .. ndim` -/
def stackF (shapes : List (List Nat)) (axis : Nat) : Option (List Nat × List (Nat × Nat)) :=
  match shapes with
  | [] => none
  | s0 :: _ =>
    if axis ≤ s0.length && shapes.all (· == s0) then
      let out := s0.take axis ++ shapes.length :: s0.drop axis
      some (out, (List.range (size out)).map fun i =>
        let j := unravel out i
        (j.getD axis 0, ravel s0 (j.eraseIdx axis)))
    else none

/-! ### glue for `Np.gatherOp` (1-based positions in the concatenation of the operands, 0 = fill) -/

def gatherIdx1 (idx : List Nat) : List Nat := idx.map (· + 1)

def gatherIdxN (shapes : List (List Nat)) (idx : List (Nat × Nat)) : List Nat :=
  idx.map fun p => ((shapes.take p.1).map size).sum + p.2 + 1

/-! ### sanity checks against numpy -/

example : transposeF [2, 3] [1, 0] = some ([3, 2], [0, 3, 1, 4, 2, 5]) := by decide
example : transposeF [2, 3] [1, 1] = none := by decide
example : transposeF [2, 3] [0] = none := by decide
-- numpy.transpose(numpy.arange(24).reshape(2,3,4), (1,2,0)).ravel()
example : transposeF [2, 3, 4] [1, 2, 0] =
    some ([3, 4, 2], [0, 12, 1, 13, 2, 14, 3, 15, 4, 16, 5, 17, 6, 18, 7, 19, 8, 20, 9, 21, 10, 22, 11, 23]) := by
  decide
-- numpy.moveaxis(numpy.arange(6).reshape(1,2,3), 0, 2).shape == (2,3,1); moveaxis(.., 2, 0).ravel()
example : moveaxisF [1, 2, 3] 0 2 = some ([2, 3, 1], [0, 1, 2, 3, 4, 5]) := by decide
example : moveaxisF [1, 2, 3] 2 0 = some ([3, 1, 2], [0, 3, 1, 4, 2, 5]) := by decide
example : moveaxisF [2, 3] 2 0 = none := by decide
example : swapaxesF [2, 3, 1] 0 1 = some ([3, 2, 1], [0, 3, 1, 4, 2, 5]) := by decide
example : expandDimsF [2, 3] 1 = some ([2, 1, 3], [0, 1, 2, 3, 4, 5]) := by decide
example : expandDimsF [2, 3] 3 = none := by decide
example : reshapeF [2, 3] [3, 2] = some ([3, 2], [0, 1, 2, 3, 4, 5]) := by decide
example : reshapeF [2, 3] [4] = none := by decide
-- numpy.repeat(numpy.arange(4).reshape(2,2), 2, 1).ravel() / (.., 2, 0)
example : repeatF [2, 2] 2 1 = some ([2, 4], [0, 0, 1, 1, 2, 2, 3, 3]) := by decide
example : repeatF [2, 2] 2 0 = some ([4, 2], [0, 1, 0, 1, 2, 3, 2, 3]) := by decide
example : repeatF [2, 2] 0 0 = some ([0, 2], []) := by decide
example : repeatF [2, 2] 2 2 = none := by decide
-- numpy.tile(numpy.arange(2), (2, 2)); numpy.tile(numpy.arange(4).reshape(2,2), 2)
example : tileF [2] [2, 2] = some ([2, 4], [0, 1, 0, 1, 0, 1, 0, 1]) := by decide
example : tileF [2, 2] [2] = some ([2, 4], [0, 1, 0, 1, 2, 3, 2, 3]) := by decide
-- numpy.diagonal(numpy.arange(6).reshape(2,3), k)
example : diagonalF [2, 3] 0 0 1 = some ([2], [0, 4]) := by decide
example : diagonalF [2, 3] 1 0 1 = some ([2], [1, 5]) := by decide
example : diagonalF [2, 3] 2 0 1 = some ([1], [2]) := by decide
example : diagonalF [2, 3] (-1) 0 1 = some ([1], [3]) := by decide
example : diagonalF [2, 3] (-2) 0 1 = some ([0], []) := by decide
example : diagonalF [2, 3] 0 1 0 = some ([2], [0, 4]) := by decide
example : diagonalF [2, 3] 1 1 0 = some ([1], [3]) := by decide
-- numpy.diagonal(numpy.arange(8).reshape(2,2,2), 0, 0, 2) == [[0,5],[2,7]]
example : diagonalF [2, 2, 2] 0 0 2 = some ([2, 2], [0, 5, 2, 7]) := by decide
example : diagonalF [2, 3] 0 0 0 = none := by decide
example : diagonalF [3] 0 0 1 = none := by decide
-- numpy.concatenate([zeros((2,1)), zeros((2,2))], 1)
example : concatF [[2, 1], [2, 2]] 1 = some ([2, 3], [(0, 0), (1, 0), (1, 1), (0, 1), (1, 2), (1, 3)]) := by decide
example : concatF [[1, 2], [2, 2]] 0 = some ([3, 2], [(0, 0), (0, 1), (1, 0), (1, 1), (1, 2), (1, 3)]) := by decide
example : concatF [[2, 1], [3, 2]] 1 = none := by decide
example : concatF [[], []] 0 = none := by decide
example : concatF [] 0 = none := by decide
example : stackF [[2], [2], [2]] 0 = some ([3, 2], [(0, 0), (0, 1), (1, 0), (1, 1), (2, 0), (2, 1)]) := by decide
example : stackF [[2], [2], [2]] 1 = some ([2, 3], [(0, 0), (1, 0), (2, 0), (0, 1), (1, 1), (2, 1)]) := by decide
example : stackF [[2], [3]] 0 = none := by decide
example : stackF [[2], [2]] 2 = none := by decide
example : gatherIdxN [[2, 1], [2, 2]] [(0, 0), (1, 0), (1, 1), (0, 1), (1, 2), (1, 3)] = [1, 3, 4, 2, 5, 6] := by decide

-- numpy.moveaxis with sequences (numpy 2 on arange(24).reshape(2, 3, 4))
example : moveaxisSeqF [2, 3, 4] [0, 1] [1, 0] = some ([3, 2, 4], [0, 1, 2, 3, 12, 13, 14, 15, 4, 5, 6, 7, 16, 17, 18, 19, 8, 9, 10, 11, 20, 21, 22, 23]) := by decide
example : (moveaxisSeqF [2, 3, 4] [0, 1, 2] [2, 1, 0]).map (·.1) = some [4, 3, 2] := by decide
example : (moveaxisSeqF [2, 3, 4] [2, 0] [0, 1]).map (·.1) = some [4, 2, 3] := by decide
example : moveaxisSeqPerm 3 [0, 1] [1, 0] = [1, 0, 2] := by decide
example : moveaxisSeqPerm 3 [0, 1, 2] [2, 1, 0] = [2, 1, 0] := by decide
example : moveaxisSeqPerm 4 [3, 0] [1, 2] = [1, 3, 0, 2] := by decide
example : moveaxisSeqF [2, 3, 4] [0, 0] [1, 2] = none := by decide
example : moveaxisSeqF [2, 3, 4] [0] [1, 2] = none := by decide
example : moveaxisSeqF [2, 3, 4] [0] [3] = none := by decide
example : moveaxisSeqF [2, 3, 4] [] [] = moveaxisSeqF [2, 3, 4] [1] [1] := by decide

end Np.ShapeFns

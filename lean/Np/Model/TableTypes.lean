/-! types of the tables regenerated from /repo (Mathlib-free) -/
namespace Np.DT
inductive DType where
  | bool | i8 | i16 | i32 | i64 | u8 | u16 | u32 | u64 | f16 | f32 | f64 | c64 | c128
deriving DecidableEq, Repr, Inhabited

def all : List DType := [.bool, .i8, .i16, .i32, .i64, .u8, .u16, .u32, .u64, .f16, .f32, .f64, .c64, .c128]
end Np.DT

namespace Np.Generated
/-- what numpy promises about the `argsort` used by `glexsort` -/
inductive SortKind where
  | stable        -- `kind="stable"`/`"mergesort"`: equal keys keep their input order
  | unspecified   -- default kind: any permutation that sorts the keys
  | noArgsort     -- no argsort call in `glexsort` at all
  | unknown       -- the extractor did not recognise the construct (fails closed)
deriving DecidableEq, Repr

inductive OptVal where
  | bool (b : Bool)
  | str (s : String)
deriving DecidableEq, Repr
end Np.Generated

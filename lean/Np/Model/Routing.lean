/-! Mathlib-free model of `ndpoly.__array_ufunc__` / `__array_function__` decision logic (C08), as repaired -/
namespace Np.Routing

abbrev Callable := String          -- qualified numpy name
abbrev Impl := String              -- qualified numpoly implementation

inductive Outcome where
  | forward (impl : Impl)
  | featureNotSupported
  | otherError (e : String)
deriving DecidableEq, Repr

structure Tables where
  ufuncs : List (Callable × Impl)        -- UFUNC_COLLECTION
  functions : List (Callable × Impl)     -- FUNCTION_COLLECTION
  reduce : List (Callable × Callable)    -- REDUCE_MAPPINGS
  accumulate : List (Callable × Callable)

def find (t : List (String × String)) (k : String) : Option String := (t.find? (·.1 == k)).map (·.2)

/-- `__array_ufunc__(ufunc, method, …)` with the guarded lookups of the repair of D5 -/
def arrayUfunc (T : Tables) (ufunc : Callable) (method : String) : Outcome :=
  let target : Except Outcome Callable :=
    if method == "reduce" then
      match find T.reduce ufunc with | some f => .ok f | none => .error .featureNotSupported
    else if method == "accumulate" then
      match find T.accumulate ufunc with | some f => .ok f | none => .error .featureNotSupported
    else if method != "__call__" then .error .featureNotSupported
    else .ok ufunc
  match target with
  | .error o => o
  | .ok f => match find T.ufuncs f with | some impl => .forward impl | none => .featureNotSupported

/-- the shipped version: bare subscripts, a miss is a `KeyError` -/
def arrayUfuncOld (T : Tables) (ufunc : Callable) (method : String) : Outcome :=
  let target : Except Outcome Callable :=
    if method == "reduce" then
      match find T.reduce ufunc with | some f => .ok f | none => .error (.otherError "KeyError")
    else if method == "accumulate" then
      match find T.accumulate ufunc with | some f => .ok f | none => .error (.otherError "KeyError")
    else if method != "__call__" then .error .featureNotSupported
    else .ok ufunc
  match target with
  | .error o => o
  | .ok f => match find T.ufuncs f with | some impl => .forward impl | none => .featureNotSupported

def arrayFunction (T : Tables) (func : Callable) : Outcome :=
  match find T.functions func with | some impl => .forward impl | none => .featureNotSupported
end Np.Routing

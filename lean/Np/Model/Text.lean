import Np.Generated.Tables
/-! Mathlib-free model of the text header written by `savetxt` and read back by `loadtxt` (C13, C20):
`numpoly:<version> names:<n1,n2> keys:<k1,k2> shape:<d1,d2>`; strings are lists of code points. -/
namespace Np.Text

abbrev Str := List Nat

def joinSep (sep : Nat) : List Str → Str
  | [] => []
  | [x] => x
  | x :: y :: rest => x ++ sep :: joinSep sep (y :: rest)

/-- split at every occurrence of `sep` (like `str.split(sep)`: always at least one piece) -/
def splitSep (sep : Nat) : Str → List Str
  | [] => [[]]
  | c :: cs =>
    if c == sep then [] :: splitSep sep cs
    else match splitSep sep cs with
      | [] => [[c]]
      | p :: ps => (c :: p) :: ps

def comma : Nat := 44
def blank : Nat := 32

def digits (n : Nat) : Str := (Nat.toDigits 10 n).map Char.toNat
def ofDigits (s : Str) : Option Nat :=
  if s.isEmpty then none
  else s.foldl (fun acc c => acc.bind fun a => if 48 ≤ c ∧ c ≤ 57 then some (a * 10 + (c - 48)) else none) (some 0)

/-- the three payload fields of the header (after their `names:`/`keys:`/`shape:` tags) -/
structure Header where
  names : List Str
  keys : List Str
  shape : List Nat
deriving DecidableEq, Repr

/-- the payload tokens, blank-separated (the fixed tags and the version carry no information) -/
def format (h : Header) : Str :=
  joinSep blank [joinSep comma h.names, joinSep comma h.keys, joinSep comma (h.shape.map digits)]

/-- `loadtxt` (as repaired): three blank-separated fields, comma-separated entries, empty shape field = 0-d -/
def parse (s : Str) : Option Header :=
  match splitSep blank s with
  | [n, k, sh] =>
    let dims := (splitSep comma sh).filter (fun d => !d.isEmpty)
    match dims.mapM ofDigits with
    | some shape => some ⟨splitSep comma n, splitSep comma k, shape⟩
    | none => none
  | _ => none

/-- what `numpy.loadtxt` hands back for a file of `rows` data lines with `cols` numbers each (it squeezes) and what
`reshape(-1, nkeys)` makes of it -/
def loadedRows (rows cols nkeys : Nat) : Nat := (rows * cols) / nkeys
end Np.Text

/-! Mathlib-free store-passing model of in-place writes (C17): objects have identities; an operation is a sequence of
allocations and writes; argument objects pre-exist. -/
namespace Np.Store
variable {B : Type}

abbrev Id := Nat

/-- the heap: object id ↦ buffer contents; `next` is the first unused id -/
structure Store (B : Type) where
  cells : List (Id × B)
  next : Id

def Store.get (s : Store B) (i : Id) : Option B := (s.cells.find? (·.1 == i)).map (·.2)

/-- one step of an operation -/
inductive Step (B : Type) where
  | alloc (init : B)                   -- a fresh `ndpoly(...)` / numpy allocation; gets id `next`
  | write (target : Id) (v : B)        -- an in-place write (`x.values[key] = …`, `out[...] = …`, `+=`, `out=`)

def Store.step (s : Store B) : Step B → Store B
  | .alloc init => { cells := (s.next, init) :: s.cells, next := s.next + 1 }
  | .write t v => { s with cells := s.cells.map fun c => if c.1 == t then (c.1, v) else c }

def Store.run (s : Store B) (steps : List (Step B)) : Store B := steps.foldl Store.step s

/-- the discipline every reviewed site follows: a write goes to an object allocated during this very operation
(id ≥ the store's `next` at entry) or to an explicit output target -/
def Disciplined (entry : Id) (targets : List Id) : List (Step B) → Prop
  | [] => True
  | .alloc _ :: rest => Disciplined entry targets rest
  | .write t _ :: rest => (entry ≤ t ∨ t ∈ targets) ∧ Disciplined entry targets rest
end Np.Store

import Np.Model.ConstFns
import Np.Model.SelectFns
/-! numpy's ELEMENT-WISE functions with broadcasting on integer VALUE arrays (C11; Mathlib-free, executable), so that
the expected value of `numpoly.<fn>` on constant polynomials can be computed from the value arrays alone:
comparisons, logical functions, `maximum/minimum`, `add/subtract/multiply/negative/absolute/square/power/sign`,
`floor_divide/remainder/divmod`, and `where` on constants.

An array is a shape together with the flat (row-major) list of its values.  `none` is returned where numpy raises
(shapes that do not broadcast; a negative integer exponent that is actually visited) and for data outside the domain
(a value list whose length is not the size of its shape). -/
namespace Np.ElemFns
open Np.Shape Np.ConstFns Np.SelectFns

/-- a binary ufunc: the two shapes are broadcast (`numpy.broadcast_shapes`); output flat position `i` (C order) holds
`f xs[bindex sa out i] ys[bindex sb out i]` -/
def binop {β : Type} (f : Int → Int → β) (sa sb : List Nat) (xs ys : List Int) : Option (List Nat × List β) :=
  if xs.length == size sa && ys.length == size sb then
    match bshape sa sb with
    | none => none
    | some out =>
      some (out, (List.range (size out)).map fun i => f (xs.getD (bindex sa out i) 0) (ys.getD (bindex sb out i) 0))
  else none

/-- a unary ufunc -/
def unop {β : Type} (f : Int → β) (sa : List Nat) (xs : List Int) : Option (List Nat × List β) :=
  if xs.length == size sa then some (sa, xs.map f) else none

/-! ### arithmetic -/
def addF := binop (· + ·)
def subF := binop (· - ·)
def mulF := binop (· * ·)
def maximumF := binop (fun a b : Int => if a < b then b else a)
def minimumF := binop (fun a b : Int => if b < a then b else a)
/-- `numpy.floor_divide` / `numpy.remainder` / `numpy.divmod` on integers (division by zero gives 0, numpy warns) -/
def floorDivideF := binop floorDiv
def remainderF := binop pyMod
def divmodF := binop divmodI

def negativeF := unop (fun a : Int => -a)
def absoluteF := unop (fun a : Int => (a.natAbs : Int))
def squareF := unop (fun a : Int => a * a)
def signF := unop Int.sign

/-! ### comparisons -/
def equalF := binop (fun a b : Int => a == b)
def notEqualF := binop (fun a b : Int => a != b)
def lessF := binop (fun a b : Int => decide (a < b))
def lessEqualF := binop (fun a b : Int => decide (a ≤ b))
def greaterF := binop (fun a b : Int => decide (b < a))
def greaterEqualF := binop (fun a b : Int => decide (b ≤ a))

/-! ### logical functions (a value is true when it is non-zero) -/
def logicalAndF := binop logicalAnd
def logicalOrF := binop logicalOr
def logicalXorF := binop logicalXor
def logicalNotF := unop logicalNot

/-! ### power -/
/-- `numpy.power` on integer arrays: element-wise with broadcasting; numpy raises ("Integers to negative integer
powers are not allowed") when an exponent that is actually visited is negative (for an empty result no exponent is
visited; for a non-empty result every exponent is). -/
def powerF (sa sb : List Nat) (xs ys : List Int) : Option (List Nat × List Int) :=
  (binop (fun a k => (a, k)) sa sb xs ys).bind fun r =>
    if r.2.all (fun p => decide (0 ≤ p.2)) then some (r.1, r.2.map fun p => p.1 ^ p.2.toNat) else none

/-! ### where on constants -/
/-- `numpy.where(cond, x, y)` on value arrays: `whereF` says which operand is read at which position -/
def whereConstF (cond : List Bool) (sc sx sy : List Nat) (xs ys : List Int) : Option (List Nat × List Int) :=
  if xs.length == size sx && ys.length == size sy then
    (whereF cond sc sx sy).map fun r => (r.1, r.2.map fun p => if p.1 == 0 then xs.getD p.2 0 else ys.getD p.2 0)
  else none

/-! ### numpy on small inputs: a = [[1],[5]] (2,1), b = [3,1,7] (3,), s = 2 (), m = [[1,-2],[0,4]] (2,2) -/
example : addF [2, 1] [3] [1, 5] [3, 1, 7] = some ([2, 3], [4, 2, 8, 8, 6, 12]) := by decide
example : subF [2, 1] [3] [1, 5] [3, 1, 7] = some ([2, 3], [-2, 0, -6, 2, 4, -2]) := by decide
example : mulF [2, 1] [3] [1, 5] [3, 1, 7] = some ([2, 3], [3, 1, 7, 15, 5, 35]) := by decide
example : maximumF [2, 1] [3] [1, 5] [3, 1, 7] = some ([2, 3], [3, 1, 7, 5, 5, 7]) := by decide
example : minimumF [2, 1] [3] [1, 5] [3, 1, 7] = some ([2, 3], [1, 1, 1, 3, 1, 5]) := by decide
example : lessF [2, 1] [3] [1, 5] [3, 1, 7] = some ([2, 3], [true, false, true, false, false, true]) := by decide
example : lessEqualF [2, 1] [3] [1, 5] [3, 1, 7] = some ([2, 3], [true, true, true, false, false, true]) := by decide
example : greaterF [2, 1] [3] [1, 5] [3, 1, 7] = some ([2, 3], [false, false, false, true, true, false]) := by decide
example : greaterEqualF [2, 1] [3] [1, 5] [3, 1, 7] = some ([2, 3], [false, true, false, true, true, false]) := by
  decide
example : equalF [2, 1] [3] [1, 5] [3, 1, 7] = some ([2, 3], [false, true, false, false, false, false]) := by decide
example : notEqualF [2, 1] [3] [1, 5] [3, 1, 7] = some ([2, 3], [true, false, true, true, true, true]) := by decide
-- numpy: -a // b = [[-1,-1,-1],[-2,-5,-1]], -a % b = [[2,0,6],[1,0,2]]
example : floorDivideF [2, 1] [3] [-1, -5] [3, 1, 7] = some ([2, 3], [-1, -1, -1, -2, -5, -1]) := by decide
example : remainderF [2, 1] [3] [-1, -5] [3, 1, 7] = some ([2, 3], [2, 0, 6, 1, 0, 2]) := by decide
example : divmodF [] [2] [-7] [2, 0] = some ([2], [(-4, 1), (0, 0)]) := by decide
example : powerF [2, 1] [3] [1, 5] [3, 1, 0] = some ([2, 3], [1, 1, 1, 125, 5, 1]) := by decide
example : powerF [2, 1] [3] [1, 5] [3, -1, 0] = none := by decide
-- numpy.power(zeros((0,), int), [-1]) is the empty array: no exponent is visited
example : powerF [0] [1] [] [-1] = some ([0], []) := by decide
-- () against (2,2)
example : addF [] [2, 2] [2] [1, -2, 0, 4] = some ([2, 2], [3, 0, 2, 6]) := by decide
example : mulF [2, 2] [] [1, -2, 0, 4] [2] = some ([2, 2], [2, -4, 0, 8]) := by decide
example : lessF [] [2, 2] [2] [1, -2, 0, 4] = some ([2, 2], [false, false, false, true]) := by decide
example : powerF [2, 2] [] [1, -2, 0, 4] [2] = some ([2, 2], [1, 4, 0, 16]) := by decide
example : powerF [] [2, 2] [2] [1, 2, 0, 4] = some ([2, 2], [2, 4, 1, 16]) := by decide
example : logicalAndF [] [2, 2] [2] [1, -2, 0, 4] = some ([2, 2], [true, true, false, true]) := by decide
example : logicalOrF [] [2, 2] [0] [1, -2, 0, 4] = some ([2, 2], [true, true, false, true]) := by decide
example : logicalXorF [] [2, 2] [2] [1, -2, 0, 4] = some ([2, 2], [false, false, true, false]) := by decide
example : maximumF [] [2, 2] [2] [1, -2, 0, 4] = some ([2, 2], [2, 2, 2, 4]) := by decide
example : addF [] [] [2] [3] = some ([], [5]) := by decide
-- shapes that do not broadcast
example : addF [2] [3] [1, 5] [3, 1, 7] = none := by decide
example : lessF [2, 2] [3] [1, -2, 0, 4] [3, 1, 7] = none := by decide
example : powerF [2] [3] [1, 5] [3, 1, 7] = none := by decide
example : addF [0] [2] [] [1, 2] = none := by decide
-- empty arrays
example : addF [0] [1] [] [7] = some ([0], []) := by decide
example : addF [2, 0] [3, 1, 1] [] [1, 2, 3] = some ([3, 2, 0], []) := by decide
-- a value list that does not fit its shape is outside the domain
example : addF [2] [2] [1] [1, 2] = none := by decide
-- unary
example : negativeF [2, 2] [1, -2, 0, 4] = some ([2, 2], [-1, 2, 0, -4]) := by decide
example : absoluteF [2, 2] [1, -2, 0, 4] = some ([2, 2], [1, 2, 0, 4]) := by decide
example : squareF [2, 2] [1, -2, 0, 4] = some ([2, 2], [1, 4, 0, 16]) := by decide
example : signF [2, 2] [1, -2, 0, 4] = some ([2, 2], [1, -1, 0, 1]) := by decide
example : logicalNotF [2, 2] [1, -2, 0, 4] = some ([2, 2], [false, false, true, false]) := by decide
example : negativeF [2, 2] [1, -2, 0] = none := by decide
-- numpy.where([[True],[False]], [3,1,7], 2) = [[3,1,7],[2,2,2]]
example : whereConstF [true, false] [2, 1] [3] [] [3, 1, 7] [2] = some ([2, 3], [3, 1, 7, 2, 2, 2]) := by decide
example : whereConstF [true, false, false, true] [2, 2] [2, 1] [1, 2] [10, 20] [30, 40] =
    some ([2, 2], [10, 40, 30, 20]) := by decide
example : whereConstF [true, false] [2] [3] [] [3, 1, 7] [2] = none := by decide
end Np.ElemFns

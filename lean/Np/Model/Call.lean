import Np.Model.Basic
/-! Mathlib-free model of full numeric evaluation `poly(**{name: value})` for one element (prototype) -/
namespace Np
variable {R : Type}

/-- `term = prod(parameters[name] ** power)` over the indeterminates of one row -/
def termValue [Mul R] [One R] [HPow R Nat R] (arg : Name → R) : List Name → Expo → R
  | n :: ns, x :: xs => arg n ^ x * termValue arg ns xs
  | _, _ => 1

/-- main loop of `call`: `out += coefficient * term` -/
def evalTerms [Zero R] [Add R] [Mul R] [One R] [HPow R Nat R] (arg : Name → R) (ns : List Name) (ts : List (Expo × R)) : R :=
  ts.foldr (fun t acc => t.2 * termValue arg ns t.1 + acc) 0
end Np

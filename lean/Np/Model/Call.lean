import Np.Model.Basic
/-! Mathlib-free model of full numeric evaluation `poly(**{name: value})` for one element (prototype) -/
namespace Np
variable {R : Type}

/-- `term = prod(parameters[name] ** power)` over the indeterminates of one row -/
def termValue [Mul R] [One R] [HPow R Nat R] (arg : Name → R) : List Name → Expo → R
  | n :: ns, x :: xs => arg n ^ x * termValue arg ns xs
  | _, _ => 1

/-- main loop of `call`: `out += coefficient * term` -/
def evalTerms [Zero R] [Add R] [Mul R] [One R] [HPow R Nat R] (arg : Name → R) (ns : List Name) (ts : List (Expo × R)) : R :=
  ts.foldr (fun t acc => t.2 * termValue arg ns t.1 + acc) 0
end Np

namespace Np
/-- the parameter map of `call`: positional (with `None` placeholders) and keyword arguments → one optional
binding per indeterminate of the polynomial, or `TypeError` (`none`) for an unknown keyword or a name that is
given both ways. Mirrors the loop order of the source. -/
def bindArgs {α : Type} (names : List Name) (args : List (Option α)) (kwargs : List (Name × α)) :
    Option (List (Option α)) :=
  -- `for arg, name in zip(args, poly.names): if name in kwargs: raise TypeError`
  if (List.zip args names).any (fun an => kwargs.any (fun kv => kv.1 == an.2)) then none
  -- `extra_args = [key for key in parameters if key not in poly.names]`
  else if kwargs.any (fun kv => !(names.contains kv.1)) then none
  else some <| (List.range names.length).map fun k =>
    let name := names.getD k 0
    match (args.getD k none) with
    | some a => some a
    | none => (kwargs.find? (fun kv => kv.1 == name)).map (·.2)

/-- the same with `None` allowed as a keyword value ("kwargs: same as args, but positioned by name"): a `None` keyword
takes part in both `TypeError` checks like any other keyword and then leaves its indeterminate free -/
def bindArgsN {β : Type} (names : List Name) (args : List (Option β)) (kwargs : List (Name × Option β)) :
    Option (List (Option β)) :=
  (bindArgs names (args.map (Option.map some)) kwargs).map (List.map Option.join)
end Np

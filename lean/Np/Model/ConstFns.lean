import Np.Model.ReduceFns
/-! numpy's semantics, on integer and rational VALUE arrays, of the functions numpoly mirrors for constant polynomials
(C11; Mathlib-free, executable): `argmax/argmin`, `amax/amin`, `count_nonzero`, `nonzero`, `any/all`, the logical
functions, `floor_divide/remainder/divmod`, `floor/ceil/rint/trunc` and `isclose/allclose`.

An array is a shape together with the flat (row-major) list of its values.  Reductions along an axis see the array as
`(pre, n, post)` (the stride arithmetic of `Np.ReduceFns.axisW`): the *lane* of the output position `j = o * post + r`
lists the values at `(o * n + t) * post + r`, `t < n`.  `none` is returned where numpy raises (axis out of range;
`argmax/argmin/amax/amin` over an empty axis).  Axes are non-negative (the caller normalises negative axes as numpy
does).  A fraction is `(num, den) : Int × Nat` with `den > 0`. -/
namespace Np.ConstFns
open Np.Shape Np.ReduceFns

/-! ### lanes along an axis -/

/-- apply `f` to every lane of the array `(shape, xs)` along `axis`: the shape without the axis and, for every output
position (row-major), `f` of the values along the axis.  The positions of a lane are those `numpy.sum(a, axis)` adds
up (`sumAxisW`). -/
def laneMap {α : Type} (f : List Int → α) (shape : List Nat) (xs : List Int) (axis : Nat) :
    Option (List Nat × List α) :=
  (sumAxisW shape axis false).map fun r => (r.1, r.2.map fun row => f (row.map fun iw => xs.getD iw.1 0))

/-- the same for a reduction that has no value on an empty lane: numpy raises when the axis has length 0 (even when
the array has no lanes at all) -/
def laneMapNE {α : Type} (f : List Int → α) (shape : List Nat) (xs : List Int) (axis : Nat) :
    Option (List Nat × List α) :=
  if dimOf shape axis = 0 then none else laneMap f shape xs axis

/-! ### argmax / argmin / amax / amin -/

/-- scan with the running best `(bi, bv)` (index, value); `k` is the index of the head; an entry replaces the best
only when it is strictly `better`, so ties keep the FIRST occurrence -/
def argBest (better : Int → Int → Bool) : List Int → Nat → Nat → Int → Nat
  | [], _, bi, _ => bi
  | x :: xs, k, bi, bv => if better x bv then argBest better xs (k + 1) k x else argBest better xs (k + 1) bi bv

/-- `numpy.argmax` of a one-dimensional array: index of the first maximal entry (`none`: numpy raises on empty input) -/
def argmaxFlat : List Int → Option Nat
  | [] => none
  | x :: xs => some (argBest (fun y b => decide (b < y)) xs 1 0 x)
/-- `numpy.argmin` of a one-dimensional array: index of the first minimal entry -/
def argminFlat : List Int → Option Nat
  | [] => none
  | x :: xs => some (argBest (fun y b => decide (y < b)) xs 1 0 x)

/-- `numpy.amax` / `numpy.amin` of a one-dimensional array -/
def amaxFlat : List Int → Option Int
  | [] => none
  | x :: xs => some (xs.foldl max x)
def aminFlat : List Int → Option Int
  | [] => none
  | x :: xs => some (xs.foldl min x)

/-- `numpy.argmax(a, axis=axis)`: the shape without the axis and, for every output position, the first index along
the axis of the maximal entry -/
def argmaxAxis (shape : List Nat) (xs : List Int) (axis : Nat) : Option (List Nat × List Nat) :=
  laneMapNE (fun l => (argmaxFlat l).getD 0) shape xs axis
def argminAxis (shape : List Nat) (xs : List Int) (axis : Nat) : Option (List Nat × List Nat) :=
  laneMapNE (fun l => (argminFlat l).getD 0) shape xs axis
/-- `numpy.amax(a, axis=axis)` / `numpy.amin(a, axis=axis)` -/
def amaxAxis (shape : List Nat) (xs : List Int) (axis : Nat) : Option (List Nat × List Int) :=
  laneMapNE (fun l => (amaxFlat l).getD 0) shape xs axis
def aminAxis (shape : List Nat) (xs : List Int) (axis : Nat) : Option (List Nat × List Int) :=
  laneMapNE (fun l => (aminFlat l).getD 0) shape xs axis

/-! ### count_nonzero, nonzero, any, all, logical functions -/

/-- number of non-zero entries (a counting loop; `countNonzeroAll_eq` shows it is the length of the filter) -/
def countNonzeroAll (xs : List Int) : Nat := xs.foldl (fun c x => if x != 0 then c + 1 else c) 0
/-- `numpy.count_nonzero(a, axis=axis)` -/
def countNonzeroAxis (shape : List Nat) (xs : List Int) (axis : Nat) : Option (List Nat × List Nat) :=
  laneMap countNonzeroAll shape xs axis

/-- `numpy.any(a)` / `numpy.all(a)` (axis=None) and along an axis (an empty lane gives `False` / `True`) -/
def anyAll (xs : List Int) : Bool := xs.any (· != 0)
def allAll (xs : List Int) : Bool := xs.all (· != 0)
def anyAxis (shape : List Nat) (xs : List Int) (axis : Nat) : Option (List Nat × List Bool) :=
  laneMap anyAll shape xs axis
def allAxis (shape : List Nat) (xs : List Int) (axis : Nat) : Option (List Nat × List Bool) :=
  laneMap allAll shape xs axis

/-- the flat positions of the non-zero entries, ascending -/
def nonzeroPos (xs : List Int) : List Nat := (List.range xs.length).filter fun i => xs.getD i 0 != 0
/-- `numpy.nonzero(a)`: one list per dimension; entry `k` of list `d` is coordinate `d` of the `k`-th non-zero
position in C order.  (numpy 2 raises for a 0-d array; here the result is then the empty tuple.) -/
def nonzeroF (shape : List Nat) (xs : List Int) : List (List Nat) :=
  (List.range shape.length).map fun d => (nonzeroPos xs).map fun i => (unravel shape i).getD d 0

/-- `numpy.logical_and/or/xor/not` on integers: a value is true when it is non-zero -/
def logicalAnd (a b : Int) : Bool := a != 0 && b != 0
def logicalOr (a b : Int) : Bool := a != 0 || b != 0
def logicalXor (a b : Int) : Bool := (a != 0) != (b != 0)
def logicalNot (a : Int) : Bool := a == 0

/-! ### floor_divide, remainder, divmod on integers -/

/-- `numpy.floor_divide` / Python `//` on integers: rounds towards minus infinity; `b = 0` gives 0 (numpy warns) -/
def floorDiv (a b : Int) : Int := if 0 ≤ b then a / b else (-a) / (-b)
/-- `numpy.remainder` / Python `%` on integers: the remainder has the sign of the divisor; `b = 0` gives 0 -/
def pyMod (a b : Int) : Int := if b = 0 then 0 else a - b * floorDiv a b
/-- `numpy.divmod` -/
def divmodI (a b : Int) : Int × Int := (floorDiv a b, pyMod a b)

/-! ### rounding of fractions `num / den`, `den > 0` -/

/-- `numpy.floor` -/
def floorQ (q : Int × Nat) : Int := q.1 / (q.2 : Int)
/-- `numpy.ceil` -/
def ceilQ (q : Int × Nat) : Int := -((-q.1) / (q.2 : Int))
/-- `numpy.trunc` / `numpy.fix`: towards zero -/
def truncQ (q : Int × Nat) : Int := Int.tdiv q.1 (q.2 : Int)
/-- `numpy.rint` / `numpy.around(decimals=0)`: to the nearest integer, halves to the even neighbour -/
def rintQ (q : Int × Nat) : Int :=
  let f := floorQ q
  let r2 := 2 * (q.1 - f * (q.2 : Int))
  if r2 < (q.2 : Int) then f else if (q.2 : Int) < r2 then f + 1 else if f % 2 = 0 then f else f + 1

/-! ### isclose / allclose in exact arithmetic -/

/-- `numpy.isclose(a, b, rtol, atol)` with exact rationals: `|a - b| ≤ atol + rtol * |b|` (not symmetric in `a`, `b`),
cross-multiplied by the positive number `a.den * b.den * atol.den * rtol.den` -/
def iscloseQ (a b rtol atol : Int × Nat) : Bool :=
  decide ((a.1 * (b.2 : Int) - b.1 * (a.2 : Int)).natAbs * atol.2 * rtol.2 ≤
    atol.1 * ((a.2 * b.2 * rtol.2 : Nat) : Int) + rtol.1 * ((b.1.natAbs * a.2 * atol.2 : Nat) : Int))

/-- `numpy.allclose` over two arrays of the same length -/
def allcloseQ (as bs : List (Int × Nat)) (rtol atol : Int × Nat) : Bool :=
  (List.zipWith (fun a b => iscloseQ a b rtol atol) as bs).all id

/-! ### numpy on small inputs -/
-- numpy.argmax([3,9,2,9]) = 1, numpy.argmin([3,1,2,1]) = 1 (first occurrence)
example : argmaxFlat [3, 9, 2, 9] = some 1 := by decide
example : argminFlat [3, 1, 2, 1] = some 1 := by decide
example : argmaxFlat [] = none := by decide
example : amaxFlat [3, 9, 2, 9] = some 9 := by decide
example : aminFlat [3, 1, -2, 1] = some (-2) := by decide
-- a = [[1,5,5],[7,7,2]]
example : argmaxAxis [2, 3] [1, 5, 5, 7, 7, 2] 1 = some ([2], [1, 0]) := by decide
example : argmaxAxis [2, 3] [1, 5, 5, 7, 7, 2] 0 = some ([3], [1, 1, 0]) := by decide
example : argminAxis [2, 3] [1, 5, 5, 7, 7, 2] 0 = some ([3], [0, 0, 1]) := by decide
example : argminAxis [2, 3] [1, 1, 5, 7, 2, 2] 1 = some ([2], [0, 1]) := by decide
example : amaxAxis [2, 3] [1, 5, 5, 7, 7, 2] 0 = some ([3], [7, 7, 5]) := by decide
example : aminAxis [2, 3] [1, 5, 5, 7, 7, 2] 1 = some ([2], [1, 2]) := by decide
example : argmaxAxis [2, 3] [1, 5, 5, 7, 7, 2] 2 = none := by decide
-- numpy.argmax(zeros((0,3)), axis=1) = [] but axis=0 raises; zeros((0,0)), axis=1 raises
example : argmaxAxis [0, 3] [] 1 = some ([0], []) := by decide
example : argmaxAxis [0, 3] [] 0 = none := by decide
example : argmaxAxis [0, 0] [] 1 = none := by decide
example : amaxAxis [0, 3] [] 0 = none := by decide
-- numpy.count_nonzero([[0,1,2],[3,0,0]], axis=0) = [1,1,1]; axis=1: [2,1]; zeros((0,3)), axis=0: [0,0,0]
example : countNonzeroAxis [2, 3] [0, 1, 2, 3, 0, 0] 0 = some ([3], [1, 1, 1]) := by decide
example : countNonzeroAxis [2, 3] [0, 1, 2, 3, 0, 0] 1 = some ([2], [2, 1]) := by decide
example : countNonzeroAxis [0, 3] [] 0 = some ([3], [0, 0, 0]) := by decide
example : countNonzeroAxis [2, 3] [0, 1, 2, 3, 0, 0] 2 = none := by decide
example : countNonzeroAll [0, 1, 2, 3, 0, 0] = 3 := by decide
-- numpy.nonzero([[0,1,2],[3,0,0]]) = ([0,0,1],[1,2,0])
example : nonzeroF [2, 3] [0, 1, 2, 3, 0, 0] = [[0, 0, 1], [1, 2, 0]] := by decide
example : nonzeroF [4] [0, 0, 0, 0] = [[]] := by decide
example : anyAxis [2, 3] [0, 1, 0, 3, 0, 0] 0 = some ([3], [true, true, false]) := by decide
example : allAxis [2, 3] [0, 1, 2, 3, 4, 0] 1 = some ([2], [false, false]) := by decide
example : anyAxis [0, 3] [] 0 = some ([3], [false, false, false]) := by decide
example : allAxis [0, 3] [] 0 = some ([3], [true, true, true]) := by decide
example : (logicalAnd 2 0, logicalOr 2 0, logicalXor 2 3, logicalNot 0) = (false, true, false, true) := by decide
-- numpy: [7,-7,7,-7,0,5] // [2,2,-2,-2,3,0] = [3,-4,-4,3,0,0]; % gives [1,1,-1,-1,0,0]
example : List.zipWith floorDiv [7, -7, 7, -7, 0, 5] [2, 2, -2, -2, 3, 0] = [3, -4, -4, 3, 0, 0] := by decide
example : List.zipWith pyMod [7, -7, 7, -7, 0, 5] [2, 2, -2, -2, 3, 0] = [1, 1, -1, -1, 0, 0] := by decide
example : divmodI (-7) 2 = (-4, 1) := by decide
-- numpy.rint([0.5,1.5,2.5,-0.5,-1.5,-2.5,1.25,-1.75]) = [0,2,2,-0,-2,-2,1,-2]
example : [(1, 2), (3, 2), (5, 2), (-1, 2), (-3, 2), (-5, 2), (5, 4), (-7, 4)].map rintQ = [0, 2, 2, 0, -2, -2, 1, -2] := by
  decide
-- numpy.floor / ceil / trunc of [0.5,-0.5,-1.5,2.0]
example : [(1, 2), (-1, 2), (-3, 2), (2, 1)].map floorQ = [0, -1, -2, 2] := by decide
example : [(1, 2), (-1, 2), (-3, 2), (2, 1)].map ceilQ = [1, 0, -1, 2] := by decide
example : [(1, 2), (-1, 2), (-3, 2), (5, 2)].map truncQ = [0, 0, -1, 2] := by decide
-- numpy.isclose(1.0, 1.5, rtol=0.375, atol=0) is True, numpy.isclose(1.5, 1.0, rtol=0.375, atol=0) is False
example : iscloseQ (1, 1) (3, 2) (3, 8) (0, 1) = true := by decide
example : iscloseQ (3, 2) (1, 1) (3, 8) (0, 1) = false := by decide
example : allcloseQ [(1, 1), (1, 3)] [(3, 2), (1, 3)] (3, 8) (0, 1) = true := by decide
example : allcloseQ [(3, 2), (1, 3)] [(1, 1), (1, 3)] (3, 8) (0, 1) = false := by decide
end Np.ConstFns

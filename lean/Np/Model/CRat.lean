/-! exact coefficient scalars for execution: Gaussian rationals (real numbers have `im = 0`). Mathlib-free. -/
namespace Np

structure CRat where
  re : Rat
  im : Rat
deriving DecidableEq, Repr

namespace CRat
instance : Zero CRat := ⟨⟨0, 0⟩⟩
instance : One CRat := ⟨⟨1, 0⟩⟩
instance : Add CRat := ⟨fun a b => ⟨a.re + b.re, a.im + b.im⟩⟩
instance : Sub CRat := ⟨fun a b => ⟨a.re - b.re, a.im - b.im⟩⟩
instance : Neg CRat := ⟨fun a => ⟨-a.re, -a.im⟩⟩
instance : Mul CRat := ⟨fun a b => ⟨a.re * b.re - a.im * b.im, a.re * b.im + a.im * b.re⟩⟩
instance : NatCast CRat := ⟨fun k => ⟨(k : Rat), 0⟩⟩
instance : IntCast CRat := ⟨fun k => ⟨(k : Rat), 0⟩⟩
def ofRat (q : Rat) : CRat := ⟨q, 0⟩
/-- exact division (used by the long-division model; the divisor is non-zero there) -/
def inv (a : CRat) : CRat :=
  let d := a.re * a.re + a.im * a.im
  ⟨a.re / d, -a.im / d⟩
instance : Div CRat := ⟨fun a b => a * inv b⟩
def npow (a : CRat) : Nat → CRat
  | 0 => 1
  | k + 1 => npow a k * a
instance : HPow CRat Nat CRat := ⟨npow⟩
/-- numeric order on the real part (comparisons are only used on real coefficients) -/
def lt (a b : CRat) : Bool := a.re < b.re
end CRat
end Np

import Np.Model.Basic
/-! Mathlib-free model of `multiply` + the `cmultiply` set-or-accumulate loop over an uninitialised buffer -/
namespace Np
variable {S : Type}

/-- one cell of a freshly allocated `ndpoly` buffer -/
inductive Cell (S : Type) where
  | uninit            -- never written: whatever was in memory
  | val (v : S)
deriving Repr

abbrev Buf (S : Type) := List (Expo × Cell S)

def allocBuf (keys : List Expo) : Buf S := keys.map fun k => (k, Cell.uninit)

/-- `cset_values`: overwrite the column stored under `k` -/
def cset (b : Buf S) (k : Expo) (v : S) : Buf S :=
  b.map fun kc => if kc.1 == k then (kc.1, Cell.val v) else kc

/-- `cadd_values`: `+=` on the column stored under `k`; adding to unwritten memory stays garbage -/
def cadd [Add S] (b : Buf S) (k : Expo) (v : S) : Buf S :=
  b.map fun kc => if kc.1 == k then
      (kc.1, match kc.2 with | Cell.val o => Cell.val (o + v) | Cell.uninit => Cell.uninit)
    else kc

/-- all products in the loop order of `cmultiply`: `i` outer, `j` inner -/
def pairProducts [Mul S] (a b : List (Expo × S)) : List (Expo × S) :=
  a.flatMap fun t1 => b.map fun t2 => (List.zipWith (· + ·) t1.1 t2.1, t1.2 * t2.2)

/-- the loop body: `if key in seen: cadd else: cset; seen.add(key)` -/
def cmulStep [Add S] (st : Buf S × List Expo) (kv : Expo × S) : Buf S × List Expo :=
  if st.2.contains kv.1 then (cadd st.1 kv.1 kv.2, st.2) else (cset st.1 kv.1 kv.2, kv.1 :: st.2)

def cmultiply [Add S] [Mul S] (keys : List Expo) (a b : List (Expo × S)) : Buf S :=
  ((pairProducts a b).foldl cmulStep (allocBuf keys, [])).1

/-- reading the buffer back: `none` as soon as one cell was never written -/
def freeze : Buf S → Option (List (Expo × S))
  | [] => some []
  | (k, Cell.val v) :: rest => (freeze rest).map ((k, v) :: ·)
  | (_, Cell.uninit) :: _ => none

def multiply [Zero S] [Add S] [Mul S] [BEq S] (rc rn : Bool) (a b : Poly S) : Option (Poly S) :=
  let common := commonNames a b
  let a := alignIndet common a
  let b := alignIndet common b
  let keys := sortDedup expoLt ((pairProducts a.terms b.terms).map (·.1))
  (freeze (cmultiply keys a.terms b.terms)).map fun ts => clean rc rn { names := common, terms := ts }
end Np

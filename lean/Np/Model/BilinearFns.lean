import Np.Model.Shape
/-! numpy's index arithmetic for the bilinear operations of C10 (Mathlib-free, executable): for `outer`, `inner` of
vectors, `matmul` / `dot` the output shape and the `pairs` that `bilinearOp` (Np/Model/Maps.lean) consumes.  Pair `t`
lists, for every flat (row-major) position of the output, the 1-based flat position of factor `t` in `a` and in `b`
(`bilinearOp` reads 0 as "no term"; the tables below never contain 0).  `none` is returned where numpy raises. -/
namespace Np.BilinearFns
open Np.Shape

abbrev Pairs := List (List Nat × List Nat)

/-- `numpy.outer(a, b)`: both operands are flattened; `out[i, j] = a.flat[i] * b.flat[j]` -/
def outerP (sa sb : List Nat) : Option (List Nat × Pairs) :=
  let N := size sa * size sb
  some ([size sa, size sb], [((List.range N).map fun p => p / size sb + 1, (List.range N).map fun p => p % size sb + 1)])

/-- `numpy.inner(a, b)` of two vectors of length `n`: `out = Σ_{t<n} a[t] * b[t]` -/
def innerVecP (n : Nat) : Option (List Nat × Pairs) :=
  some ([], (List.range n).map fun t => ([t + 1], [t + 1]))

/-- `(m,k) @ (k,n)`: `out[i, j] = Σ_{t<k} a[i, t] * b[t, j]` -/
def matmul2P (m k n : Nat) : Option (List Nat × Pairs) :=
  some ([m, n], (List.range k).map fun t =>
    ((List.range (m * n)).map fun p => p / n * k + t + 1, (List.range (m * n)).map fun p => t * n + p % n + 1))

/-- `numpy.dot` of two 2-d arrays is the matrix product -/
def dot2P (m k n : Nat) : Option (List Nat × Pairs) := matmul2P m k n

/-- stacks of matrices `stA ++ [m, k]` and `stB ++ [k, n]`: the stack shapes broadcast; output position
`p = (q * m + i) * n + j` (`q` a position of the broadcast stack) combines `a[qa, i, t]` and `b[qb, t, j]` where
`qa`, `qb` are the positions `q` is broadcast from -/
def matmulCore (stA stB : List Nat) (m k n : Nat) : Option (List Nat × Pairs) :=
  match bshape stA stB with
  | none => none
  | some st =>
    let N := size st * (m * n)
    some (st ++ [m, n], (List.range k).map fun t =>
      ((List.range N).map fun p => (bindex stA st (p / (m * n)) * m + p / n % m) * k + t + 1,
       (List.range N).map fun p => (bindex stB st (p / (m * n)) * k + t) * n + p % n + 1))

/-- `numpy.matmul(a, b)` for `a.ndim ≥ 2`, `b.ndim ≥ 2`: the last two axes are the matrices, the leading axes
broadcast; `none` (numpy: `ValueError`) if the inner dimensions differ or the stacks do not broadcast -/
def matmulP (sa sb : List Nat) : Option (List Nat × Pairs) :=
  if 2 ≤ sa.length ∧ 2 ≤ sb.length then
    let la := sa.length - 2
    let lb := sb.length - 2
    if sa.getD (la + 1) 0 == sb.getD lb 0 then
      matmulCore (sa.take la) (sb.take lb) (sa.getD la 0) (sa.getD (la + 1) 0) (sb.getD (lb + 1) 0)
    else none
  else none

/-- `numpy.matmul(a, b)` with numpy's promotion of 1-d operands: a 1-d `a` becomes `(1, k)`, a 1-d `b` becomes
`(k, 1)`, and the added axis is removed from the result (flat positions do not change); 0-d operands raise -/
def matmulAnyP (sa sb : List Nat) : Option (List Nat × Pairs) :=
  if sa.length = 0 ∨ sb.length = 0 then none
  else
    let sa' := if sa.length = 1 then 1 :: sa else sa
    let sb' := if sb.length = 1 then sb ++ [1] else sb
    match matmulP sa' sb' with
    | none => none
    | some (out, pairs) =>
      let st := out.take (out.length - 2)
      let mm := if sa.length = 1 then [] else [out.getD (out.length - 2) 0]
      let nn := if sb.length = 1 then [] else [out.getD (out.length - 1) 0]
      some (st ++ mm ++ nn, pairs)

/-- `(k,) @ (k,n) → (n,)`, `(m,k) @ (k,) → (m,)`, `(k,) @ (k,) → ()` -/
def matmulVecMatP (k n : Nat) : Option (List Nat × Pairs) := (matmul2P 1 k n).map fun r => ([n], r.2)
def matmulMatVecP (m k : Nat) : Option (List Nat × Pairs) := (matmul2P m k 1).map fun r => ([m], r.2)
def matmulVecVecP (k : Nat) : Option (List Nat × Pairs) := (matmul2P 1 k 1).map fun r => ([], r.2)

/-! ### numpy on small shapes (pairs recovered from numpy by probing with unit arrays) -/
-- numpy.matmul on (2,3) @ (3,2): out[0,0] = a1*b1 + a2*b3 + a3*b5, ..., out[1,1] = a4*b2 + a5*b4 + a6*b6
example : matmul2P 2 3 2 = some ([2, 2],
    [([1, 1, 4, 4], [1, 2, 1, 2]), ([2, 2, 5, 5], [3, 4, 3, 4]), ([3, 3, 6, 6], [5, 6, 5, 6])]) := by decide
example : matmulP [2, 3] [3, 2] = matmul2P 2 3 2 := by decide
example : matmulAnyP [2, 3] [3, 2] = matmul2P 2 3 2 := by decide
example : dot2P 2 3 2 = matmul2P 2 3 2 := rfl
example : matmulP [2, 3] [2, 2] = none := by decide
example : matmulP [3] [3, 2] = none := by decide
example : matmul2P 2 0 2 = some ([2, 2], []) := by decide
-- (2,1,2) @ (1,2,2,1) has shape (1,2,1,1): out[0,q,0,0] = a[q,0,0]*b[0,q,0,0] + a[q,0,1]*b[0,q,1,0]
example : matmulP [2, 1, 2] [1, 2, 2, 1] = some ([1, 2, 1, 1], [([1, 3], [1, 3]), ([2, 4], [2, 4])]) := by decide
-- (2,1,2) @ (2,1): the single matrix b is used for both matrices of the stack a
example : matmulP [2, 1, 2] [2, 1] = some ([2, 1, 1], [([1, 3], [1, 1]), ([2, 4], [2, 2])]) := by decide
-- (1,1,2) @ (2,2,1): the single matrix a is used for both matrices of the stack b
example : matmulP [1, 1, 2] [2, 2, 1] = some ([2, 1, 1], [([1, 1], [1, 3]), ([2, 2], [2, 4])]) := by decide
example : matmulP [2, 1, 2] [3, 2, 1] = none := by decide
-- numpy.outer(a (2,), b (3,)) and numpy.outer(a (2,2), b (3,)): shape (size a, size b)
example : outerP [2] [3] = some ([2, 3], [([1, 1, 1, 2, 2, 2], [1, 2, 3, 1, 2, 3])]) := by decide
example : outerP [2, 2] [3] = some ([4, 3], [([1, 1, 1, 2, 2, 2, 3, 3, 3, 4, 4, 4], [1, 2, 3, 1, 2, 3, 1, 2, 3, 1, 2, 3])]) := by
  decide
example : innerVecP 3 = some ([], [([1], [1]), ([2], [2]), ([3], [3])]) := by decide
-- (2,) @ (2,3) → (3,): out[j] = a1*b[0,j] + a2*b[1,j];  (2,3) @ (3,) → (2,)
example : matmulVecMatP 2 3 = some ([3], [([1, 1, 1], [1, 2, 3]), ([2, 2, 2], [4, 5, 6])]) := by decide
example : matmulMatVecP 2 3 = some ([2], [([1, 4], [1, 1]), ([2, 5], [2, 2]), ([3, 6], [3, 3])]) := by decide
example : matmulVecVecP 3 = (innerVecP 3) := by decide
example : matmulAnyP [2] [2, 3] = matmulVecMatP 2 3 := by decide
example : matmulAnyP [2, 3] [3] = matmulMatVecP 2 3 := by decide
example : matmulAnyP [3] [3] = matmulVecVecP 3 := by decide
example : matmulAnyP [] [3] = none := by decide
-- (2,) @ (2,2,1) → (2,1): the vector is used for both matrices of the stack
example : matmulAnyP [2] [2, 2, 1] = some ([2, 1], [([1, 1], [1, 3]), ([2, 2], [2, 4])]) := by decide
end Np.BilinearFns

import Np.Model.Arr
import Np.Model.Stack
/-! Mathlib-free generic models behind the shape functions (C09) and the reductions / linear algebra (C10):
gathers through arbitrary index maps (with "fill" positions), joins of several operands, linear combinations of
elements with rational weights, products over index groups, bilinear sums, determinants. -/
namespace Np
open Shape
variable {R : Type}

/-- place a column of `n` entries at offset `off` inside a column of `N` entries, zeros elsewhere -/
def embedCol [Zero R] {n : Nat} (off N : Nat) (v : Vec R n) : Vec R N :=
  Vec.ofFn fun (i : Fin N) =>
    if h : off ≤ i.val ∧ i.val - off < n then v.get ⟨i.val - off, h.2⟩ else 0

/-- gather with fill: position `i` of the result is entry `idx i - 1` of the source, or zero when `idx i = 0` -/
def gatherFill [Zero R] {N : Nat} (m : Nat) (idx : List Nat) (v : Vec R N) : Vec R m :=
  Vec.ofFn fun (i : Fin m) =>
    let k := idx.getD i.val 0
    if h : 0 < k ∧ k - 1 < N then v.get ⟨k - 1, h.2⟩ else 0

section ring
variable [Zero R] [Add R] [Mul R] [BEq R]

/-- several operands (possibly of different sizes, names and terms) as one polynomial over the concatenated index
space: operand `k` occupies the block starting at the sum of the earlier sizes -/
def superOperand (N : Nat) : List (Arr R) → Nat → Poly (Vec R N)
  | [], _ => { names := [0], terms := [([0], 0)] }
  | a :: rest, off =>
    add true true (mapCoef (embedCol off N) a.poly) (superOperand N rest (off + size a.shape))

/-- any shape function / indexing / join: gather from the concatenated operands, then `clean` as the re-wrap does -/
def gatherOp (rc rn : Bool) (ops : List (Arr R)) (outShape : List Nat) (idx : List Nat) : Arr R :=
  let N := (ops.map fun a => size a.shape).foldl (· + ·) 0
  ⟨outShape, clean rc rn (mapCoef (gatherFill (size outShape) idx) (superOperand N ops 0))⟩

/-- a linear combination of elements: `W i` lists `(j, weight)`; used for sum, cumsum, diff, ediff1d, mean -/
def linearCol {n : Nat} (m : Nat) (W : List (List (Nat × R))) (v : Vec R n) : Vec R m :=
  Vec.ofFn fun (i : Fin m) =>
    (W.getD i.val []).foldl (fun acc jw => if h : jw.1 < n then acc + jw.2 * v.get ⟨jw.1, h⟩ else acc) 0

def linearOp (rc rn : Bool) (a : Arr R) (outShape : List Nat) (W : List (List (Nat × R))) : Arr R :=
  ⟨outShape, clean rc rn (mapCoef (linearCol (size outShape) W) a.poly)⟩

/-- `result_i = Σ_t a[ia(i,t)] * b[ib(i,t)]` (1-based indices; 0 = no term): inner, outer, matmul -/
def bilinearOp (rc rn : Bool) (a b : Arr R) (outShape : List Nat) (pairs : List (List Nat × List Nat)) :
    Option (Arr R) :=
  let m := size outShape
  let zero : Poly (Vec R m) := { names := [0], terms := [([0], 0)] }
  let r := pairs.foldl (fun acc p =>
    match acc with
    | none => none
    | some s =>
      match multiply rc rn (mapCoef (gatherFill m p.1) a.poly) (mapCoef (gatherFill m p.2) b.poly) with
      | none => none
      | some t => some (add rc rn s t)) (some zero)
  r.map fun p => ⟨outShape, p⟩
end ring

section prod
variable [Zero R] [One R] [Add R] [Mul R] [BEq R]
/-- `result_i = Π_t a[g(i,t)]` (1-based; 0 = factor one): prod along axes -/
def prodOp (rc rn : Bool) (a : Arr R) (outShape : List Nat) (groups : List (List Nat)) : Option (Arr R) :=
  let m := size outShape
  let one : Poly (Vec R m) := { names := a.poly.names.take 1, terms := [((a.poly.names.take 1).map fun _ => 0, 1)] }
  let r := groups.foldl (fun acc g =>
    match acc with
    | none => none
    | some s => multiply rc rn s (mapCoef (gatherFill m g) a.poly)) (some one)
  r.map fun p => ⟨outShape, p⟩
end prod

section det
variable [Zero R] [One R] [Add R] [Neg R] [Mul R] [BEq R]

/-- Laplace expansion along the first row with standard minors and alternating signs (the repair of D8), on a
matrix of polynomial arrays (entries already gathered over the batch positions) -/
def detPoly {b : Nat} (rc rn : Bool) : (n : Nat) → (List (List (Poly (Vec R b)))) → Option (Poly (Vec R b))
  | 0, _ => some { names := [0], terms := [([0], 1)] }
  | n + 1, rows =>
    match rows with
    | [] => none
    | first :: rest =>
      (List.range (n + 1)).foldl (fun acc j =>
        match acc, first[j]? with
        | some s, some a0j =>
          let minor := rest.map fun row => (row.take j) ++ (row.drop (j + 1))
          match detPoly rc rn n minor with
          | none => none
          | some d =>
            match multiply rc rn a0j d with
            | none => none
            | some t => some (add rc rn s (if j % 2 == 0 then t else neg rc rn t))
        | _, _ => none) (some { names := [0], terms := [([0], 0)] })
end det
end Np

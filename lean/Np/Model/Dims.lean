import Np.Model.Basic
import Np.Model.Vec
/-! Mathlib-free model of `isconstant`, `tonumpy`, `set_dimensions`, `decompose` (C19) -/
namespace Np
variable {S : Type}

/-- `isconstant`: every term with a non-zero exponent has an all-zero coefficient column -/
def isConstant [Zero S] [BEq S] (p : Poly S) : Bool :=
  p.terms.all fun t => isZeroExpo t.1 || t.2 == 0

/-- `tonumpy`: the column of the all-zero exponent row (`none` = `FeatureNotSupported` for non-constants) -/
def toNumpy [Zero S] [BEq S] (p : Poly S) : Option S :=
  if isConstant p then some (lookup p.terms (p.names.map fun _ => 0)) else none

/-- `set_dimensions` towards *more* indeterminates: the harness supplies the resulting name order (the code sorts
the names as strings); exponent columns are scattered, nothing else changes; `retain_names=True` is forced -/
def setDimsAdd [Zero S] [BEq S] (rc : Bool) (newNames : List Name) (p : Poly S) : Poly S :=
  clean rc true (alignIndet newNames p)

/-- `set_dimensions` towards *fewer*: keep the first `d` names, drop every term that involves a dropped name;
if no term survives the result is the zero polynomial (as repaired, D11) -/
def setDimsDrop [Zero S] [BEq S] (rc : Bool) (d : Nat) (p : Poly S) : Poly S :=
  let kept := p.terms.filter fun t => (t.1.drop d).all (· == 0)
  let terms := kept.map fun t => (t.1.take d, t.2)
  let terms := if terms.isEmpty then [(List.replicate d 0, 0)] else terms
  clean rc true { names := p.names.take d, terms := terms }

/-- `decompose`: slice `k` of the result holds term `k` alone; columns live on `N` blocks of `n` elements -/
def decompose {R : Type} [Zero R] {n : Nat} (p : Poly (Vec R n)) : Poly (Vec R (p.terms.length * n)) :=
  { names := p.names,
    terms := (List.range p.terms.length).map fun k =>
      ((p.terms.getD k ([], 0)).1,
        Vec.ofFn fun (i : Fin (p.terms.length * n)) =>
          if i.val / n = k then
            (if h : i.val % n < n then (p.terms.getD k ([], 0)).2.get ⟨i.val % n, h⟩ else 0)
          else 0) }
end Np

import Np.Model.Arr
import Np.Model.Stack
/-! Mathlib-free model of `align_shape`, `align_indeterminants`, `align_exponents`, `align_polynomials` (C04)
for any number of operands. Operands that need no change are returned as they are. -/
namespace Np
open Shape
variable {R : Type} [Zero R] [BEq R]

/-- `align_shape`: broadcast to the common shape; operands that already have it are returned untouched, the
others are rebuilt (through `from_attributes`, i.e. cleaned under the global flags) -/
def alignShapeAll (rc rn : Bool) (as : List (Arr R)) : Except Err (List (Arr R)) :=
  match bshapeAll (as.map (·.shape)) with
  | none => .error .valueError
  | some s =>
    as.mapM fun a =>
      if a.shape == s then .ok a
      else match a.bcast s with
        | some p => .ok ⟨s, clean rc rn p⟩
        | none => .error .internal

/-- `align_indeterminants`: union of the names in index order; operands that already carry it are untouched -/
def alignIndetAll (as : List (Arr R)) : List (Arr R) :=
  let common := sortDedup natLt (as.flatMap (·.poly.names))
  as.map fun a => if a.poly.names == common then a else ⟨a.shape, alignIndet common a.poly⟩

/-- `align_exponents`: names first (when they differ), then every operand gets the sorted union of the rows -/
def alignExpoAll (as : List (Arr R)) : List (Arr R) :=
  let as := if as.all (fun a => a.poly.names == (as.headD ⟨[], { names := [], terms := [] }⟩).poly.names) then as
            else alignIndetAll as
  let es := sortDedup expoLt (as.flatMap (·.poly.expos))
  as.map fun a => ⟨a.shape, alignExpo es a.poly⟩

def alignPolynomialsAll (rc rn : Bool) (as : List (Arr R)) : Except Err (List (Arr R)) := do
  let as ← alignShapeAll rc rn as
  pure (alignExpoAll as)
end Np

/-! in-place write sites of numpoly that the conservative AST analysis cannot prove local ("may-alias-argument")
and that were reviewed by hand and are covered by the store model (`Np/Model/Store.lean`): each writes either to an
object allocated inside the same call (a fresh `ndpoly`, the fresh array returned by the `exponents` property, a
local list / object array / registry dict), to attributes of the object under construction (`__new__`,
`__array_finalize__`) or to an explicit output target (`out`, `dst`).
Hand-maintained: a new site in the regenerated inventory that is not listed here breaks `inventory_covered`. -/
namespace Np.Store
/-- (file, function, target expression, kind) -/
def reviewedSites : List (String × String × String × String) := [
  ("numpoly/align.py", "align_exponents", "polys_[idx]", "assign"),
  ("numpoly/array_function/absolute.py", "absolute", "None if out is None else (out,)", "out="),
  ("numpoly/array_function/add.py", "add", "None if out is None else (out,)", "out="),
  ("numpoly/array_function/apply_along_axis.py", "apply_along_axis", "ret_val[out == idx]", "assign"),
  ("numpoly/array_function/around.py", "around", "None if out is None else (out,)", "out="),
  ("numpoly/array_function/ceil.py", "ceil", "None if out is None else (out,)", "out="),
  ("numpoly/array_function/copyto.py", "copyto", "dst_[key]", "copyto"),
  ("numpoly/array_function/cumsum.py", "cumsum", "None if out is None else (out,)", "out="),
  ("numpoly/array_function/equal.py", "equal", "out.ravel()", "out="),
  ("numpoly/array_function/floor.py", "floor", "None if out is None else (out,)", "out="),
  ("numpoly/array_function/greater.py", "greater", "out.ravel()", "out="),
  ("numpoly/array_function/greater_equal.py", "greater_equal", "out.ravel()", "out="),
  ("numpoly/array_function/less.py", "less", "out.ravel()", "out="),
  ("numpoly/array_function/less_equal.py", "less_equal", "out.ravel()", "out="),
  ("numpoly/array_function/mean.py", "mean", "None if out is None else (out,)", "out="),
  ("numpoly/array_function/multiply.py", "multiply", "out_.values[key]", "assign"),
  ("numpoly/array_function/multiply.py", "multiply", "out_.values[key]", "augassign"),
  ("numpoly/array_function/negative.py", "negative", "None if out is None else (out,)", "out="),
  ("numpoly/array_function/positive.py", "positive", "None if out is None else (out,)", "out="),
  ("numpoly/array_function/rint.py", "rint", "None if out is None else (out,)", "out="),
  ("numpoly/array_function/subtract.py", "subtract", "None if out is None else (out,)", "out="),
  ("numpoly/array_function/sum.py", "sum", "None if out is None else (out,)", "out="),
  ("numpoly/array_function/true_divide.py", "true_divide", "out_.values[key]", "out="),
  ("numpoly/array_function/true_divide.py", "true_divide", "out_[key]", "assign"),
  ("numpoly/baseclass.py", "__array_finalize__", "self._dtype", "assign"),
  ("numpoly/baseclass.py", "__array_finalize__", "self.allocation", "assign"),
  ("numpoly/baseclass.py", "__array_finalize__", "self.keys", "assign"),
  ("numpoly/baseclass.py", "__array_finalize__", "self.names", "assign"),
  ("numpoly/baseclass.py", "__new__", "obj._dtype", "assign"),
  ("numpoly/baseclass.py", "__new__", "obj.allocation", "assign"),
  ("numpoly/baseclass.py", "__new__", "obj.keys", "assign"),
  ("numpoly/baseclass.py", "__new__", "obj.names", "assign"),
  ("numpoly/construct/aspolynomial.py", "aspolynomial", "remain", "augassign"),
  ("numpoly/construct/compose.py", "compose_polynomial_array", "oarrays[indices]", "assign"),
  ("numpoly/dispatch.py", "decorator", "FUNCTION_COLLECTION[func]", "assign"),
  ("numpoly/dispatch.py", "decorator", "UFUNC_COLLECTION[func]", "assign"),
  ("numpoly/dispatch.py", "simple_dispatch", "out_.values[key]", "assign"),
  ("numpoly/dispatch.py", "simple_dispatch", "out_.values[keys[0]]", "assign"),
  ("numpoly/poly_function/derivative.py", "derivative", "exponents[:, idx]", "augassign"),
  ("numpoly/poly_function/divide/divmod.py", "get_division_candidate", "include2", "augassign"),
  ("numpoly/poly_function/divide/divmod.py", "poly_divmod", "dividend_.values[key][include]", "assign")]
end Np.Store

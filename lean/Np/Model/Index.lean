import Np.Generated.Tables
import Np.Model.Sort
/-! Mathlib-free model of `glexsort`, `cross_truncate`, `glexindex`, `bindex` (C18) -/
namespace Np.Index

/-- lexicographic `≤` on lists of naturals, first entry most significant (shorter list first on a tie) -/
def lexLe : List Nat → List Nat → Bool
  | [], _ => true
  | _ :: _, [] => false
  | a :: as, b :: bs => if a < b then true else if b < a then false else lexLe as bs

/-- the comparison key of one column of `keys`: `numpy.lexsort` makes the *last* row most significant;
`reverse=True` flips the rows first -/
def colKey (reverse : Bool) (c : List Nat) : List Nat := if reverse then c else c.reverse

def colSum (c : List Nat) : Nat := c.foldl (· + ·) 0

/-- `glexsort(keys, graded, reverse)` where `cols` are the columns of `keys`: `lexsort` (stable), then a
*stable* argsort by the column sums when graded (the table `Generated.glexsortArgsortKind` says whether the
source promises stability) -/
def glexsort (graded reverse : Bool) (cols : List (List Nat)) : List Nat :=
  let idx := List.range cols.length
  let col := fun i => cols.getD i []
  let l1 := Sort.isort (fun i j => lexLe (colKey reverse (col i)) (colKey reverse (col j))) idx
  if graded then Sort.isort (fun i j => decide (colSum (col i) ≤ colSum (col j))) l1 else l1

/-- the total preorder `glexsort` sorts by, as one comparison -/
def glexLe (graded reverse : Bool) (a b : List Nat) : Bool :=
  if graded then
    (colSum a < colSum b) || (colSum a == colSum b && lexLe (colKey reverse a) (colKey reverse b))
  else lexLe (colKey reverse a) (colKey reverse b)

/-! ### cross truncation -/

inductive Norm where
  | zero
  | inf
  | rat (num den : Nat)   -- `p = num/den > 0`
deriving Repr, DecidableEq

def ratPowNat (q : Rat) : Nat → Rat
  | 0 => 1
  | k + 1 => ratPowNat q k * q

/-- core of `cross_truncate` once every bound is positive -/
def insidePos (x : List Nat) (b : List Nat) (norm : Norm) : Bool :=
  match norm with
  | .zero => ((x.filter (· > 0)).length ≤ 1) && (List.zipWith (fun xi bi => decide (xi ≤ bi)) x b).all id
  | .inf => (List.zipWith (fun xi bi => decide (xi ≤ bi)) x b).all id
  | .rat p 1 =>
    -- integer exponent: exact rational arithmetic, `(Σ (x/b)^p)^(1/p) ≤ 1 ↔ Σ (x/b)^p ≤ 1`
    decide (((List.zipWith (fun (xi bi : Nat) => ratPowNat ((xi : Rat) / (bi : Rat)) p) x b).foldl (· + ·) 0) ≤ 1)
  | .rat p q =>
    -- fractional exponent: executed in binary64 with the source's formula (not covered by a theorem)
    let pf := Float.ofNat p / Float.ofNat q
    let s := (List.zipWith (fun xi bi => Float.pow (Float.ofNat xi / Float.ofNat bi) pf) x b).foldl (· + ·) 0.0
    Float.pow s (1.0 / pf) ≤ 1.0 + 1e-12 * Float.ofNat x.length

/-- `cross_truncate(indices, bound, norm)` for one index row: a negative bound excludes everything, a zero
bound forces that entry to zero, the positive bounds are measured by the norm -/
def crossTruncate (x : List Nat) (bound : List Int) (norm : Norm) : Bool :=
  if bound.any (· < 0) then false
  else
    let zb := (List.zip x bound)
    let zeroOk := (zb.filter (fun p => p.2 == 0)).all (fun p => p.1 == 0)
    let pos := zb.filter (fun p => p.2 != 0)
    if pos.isEmpty then zeroOk
    else zeroOk && insidePos (pos.map (·.1)) (pos.map (fun p => p.2.toNat)) norm

/-- all tuples of length `d` with entries `< bound`, first entry slowest -/
def grid (bound : Nat) : Nat → List (List Nat)
  | 0 => [[]]
  | d + 1 => (List.range bound).flatMap fun a => (grid bound d).map (a :: ·)

/-- `glexindex(start, stop, dimensions, cross_truncation=(ct0, ct1), graded, reverse)`; `start`/`stop` already
broadcast to the dimension count. Inside the `stop` bound and not inside the `start` bound (as repaired;
`xorOld = true` gives the shipped `lower ^ upper`). -/
def glexindex (xorOld : Bool) (start stop : List Int) (ct0 ct1 : Norm) (graded reverse : Bool) : List (List Nat) :=
  let d := start.length
  let bound := (stop.foldl max 0).toNat
  let start := start.map fun s => max s 0
  let cand := grid bound d
  let sel :=
    if d == 1 then cand.filter fun x => decide ((x.headD 0 : Int) ≥ start.headD 0)
    else cand.filter fun x =>
      let lower := crossTruncate x (start.map (· - 1)) ct0
      let upper := crossTruncate x (stop.map (· - 1)) ct1
      if xorOld then lower != upper else upper && !lower
  let order := glexsort graded reverse sel
  order.map fun i => sel.getD i []

/-- `bindex`: ordering string → flags, inversion -/
def bindex (xorOld : Bool) (start stop : List Int) (ct0 ct1 : Norm) (ordering : String) : List (List Nat) :=
  let o := ordering.toUpper
  let graded := o.contains 'G'
  let reverse := !(o.contains 'R')
  let out := glexindex xorOld start stop ct0 ct1 graded reverse
  if o.contains 'I' then out.reverse else out
end Np.Index

import Np.Model.Call
import Np.Model.Arr
import Np.Model.Stack
import Np.Model.Dims
/-! Mathlib-free model of `call` on polynomial arrays: evaluation and substitution (C02) -/
namespace Np
open Shape
variable {R : Type} [Zero R] [One R] [Add R] [Mul R] [BEq R]

/-- `term = prod(parameters[name] ** power)` with polynomial-array parameters already broadcast to `m` positions -/
def termPoly {m : Nat} (rc rn : Bool) (params : List (Poly (Vec R m))) (e : Expo) : Option (Poly (Vec R m)) :=
  (List.zip params e).foldl (fun acc pe =>
    match acc with
    | none => none
    | some t => match powS rc rn pe.1 pe.2 with
      | none => none
      | some q => multiply rc rn t q)
    (some { names := [0], terms := [([0], 1)] })

/-- the main loop of `call`: `out = out + outer(coefficient, term).reshape(shape)` over the terms -/
def callPoly {n m : Nat} (rc rn : Bool) (p : Poly (Vec R n)) (params : List (Poly (Vec R m))) :
    Option (Poly (Vec R (n * m))) :=
  p.terms.foldl (fun acc t =>
    match acc, termPoly rc rn params t.1 with
    | some out, some tp => some (add rc rn out (outerPoly t.2 tp))
    | _, _ => none)
    (some { names := [0], terms := [([0], 0)] })

/-- result of a call: a plain array when the result is constant, a polynomial otherwise -/
inductive CallResult (R : Type) where
  | array (shape : List Nat) (vals : List R)
  | poly (a : Arr R)
  | error (e : Err)

/-- `poly(*args, **kwargs)`; `params` holds, per indeterminate of `p`, the bound value (numbers are constant
polynomial arrays) or `none` for "keep the indeterminate" -/
def callArr (rc rn : Bool) (p : Arr R) (params : List (Option (Arr R))) : CallResult R :=
  let bound : List (Arr R) := (List.range p.poly.names.length).map fun k =>
    match params.getD k none with
    | some a => a
    | none => ⟨[], { names := [p.poly.names.getD k 0], terms := [([1], Vec.ofFn fun _ => 1)] }⟩
  match bshapeAll (bound.map (·.shape)) with
  | none => .error .valueError
  | some ashape =>
    match bound.mapM (fun a => a.bcast ashape) with
    | none => .error .internal
    | some ps =>
      match callPoly rc rn p.poly ps with
      | none => .error .uninit
      | some out =>
        let shape := p.shape ++ ashape
        if h : size p.shape * size ashape = size shape then
          let out : Poly (Vec R (size shape)) := h ▸ out
          match toNumpy out with
          | some v => .array shape v.toList
          | none => .poly ⟨shape, alignIndet (sortDedup natLt (out.names ++ p.poly.names)) out⟩
        else .error .internal
end Np

/-! Mathlib-free model of `numpoly.option`: `set_options`, `global_options`, `get_options` (C14) -/
namespace Np.Opt

abbrev Key := String
abbrev Val := String
/-- option dict as an association list; the key set is fixed by the shipped defaults -/
abbrev Opts := List (Key × Val)

def has (o : Opts) (k : Key) : Bool := o.any (·.1 == k)
def set1 (o : Opts) (k : Key) (v : Val) : Opts := o.map fun kv => if kv.1 == k then (kv.1, v) else kv
def update (o : Opts) (kw : List (Key × Val)) : Opts := kw.foldl (fun o kv => set1 o kv.1 kv.2) o

inductive Outcome where
  | normal
  | raised (e : String)
deriving DecidableEq, Repr

/-- `set_options`: validate every key first, only then update -/
def setOptions (o : Opts) (kw : List (Key × Val)) : Opts × Outcome :=
  if kw.all (fun kv => has o kv.1) then (update o kw, .normal) else (o, .raised "KeyError")

/-- user programs over the option API -/
inductive Stmt where
  | set (kw : List (Key × Val))
  | withBlock (kw : List (Key × Val)) (body : List Stmt)   -- `with global_options(**kw): body`
  | raise (e : String)
  | tryCatch (body : List Stmt)                             -- `try: body  except: pass`

mutual
def exec : List Stmt → Opts → Opts × Outcome
  | [], o => (o, .normal)
  | s :: rest, o =>
    match exec1 s o with
    | (o', .normal) => exec rest o'
    | r => r
def exec1 : Stmt → Opts → Opts × Outcome
  | .set kw, o => setOptions o kw
  | .raise e, o => (o, .raised e)
  | .tryCatch body, o => ((exec body o).1, .normal)
  | .withBlock kw body, o =>
    -- options = get_options(); set_options(**kwargs); try: yield finally: set_options(**options)
    match setOptions o kw with
    | (_, .raised e) => (o, .raised e)
    | (o1, .normal) =>
      let r := exec body o1
      ((setOptions r.1 o).1, r.2)
end
end Np.Opt

/-! Mathlib-free model of `numpoly.option`: `set_options`, `global_options`, `get_options` (C14) -/
namespace Np.Opt

abbrev Key := String
abbrev Val := String
/-- option dict as an association list; the key set is fixed by the shipped defaults -/
abbrev Opts := List (Key × Val)

def has (o : Opts) (k : Key) : Bool := o.any (·.1 == k)
def set1 (o : Opts) (k : Key) (v : Val) : Opts := o.map fun kv => if kv.1 == k then (kv.1, v) else kv
def update (o : Opts) (kw : List (Key × Val)) : Opts := kw.foldl (fun o kv => set1 o kv.1 kv.2) o

inductive Outcome where
  | normal
  | raised (e : String)
deriving DecidableEq, Repr

/-- `set_options`: validate every key first, only then update -/
def setOptions (o : Opts) (kw : List (Key × Val)) : Opts × Outcome :=
  if kw.all (fun kv => has o kv.1) then (update o kw, .normal) else (o, .raised "KeyError")

/-- user programs over the option API -/
inductive Stmt where
  | set (kw : List (Key × Val))
  | withBlock (kw : List (Key × Val)) (body : List Stmt)   -- `with global_options(**kw): body`
  | raise (e : String)
  | tryCatch (body : List Stmt)                             -- `try: body  except: pass`
  | mutateCopy (k : Key) (v : Val)                          -- `d = get_options(); d[k] = v` (also `defaults=True`)
  | observe                                                 -- the harness reads `get_options()` here

/-- result of running a program: final options, how it ended, and what was observed on the way -/
abbrev Res := Opts × Outcome × List Opts

mutual
def exec : List Stmt → Opts → List Opts → Res
  | [], o, log => (o, .normal, log)
  | s :: rest, o, log =>
    match exec1 s o log with
    | (o', .normal, log') => exec rest o' log'
    | r => r
def exec1 : Stmt → Opts → List Opts → Res
  | .set kw, o, log => ((setOptions o kw).1, (setOptions o kw).2, log)
  | .raise e, o, log => (o, .raised e, log)
  | .mutateCopy _ _, o, log => (o, .normal, log)          -- `get_options` hands out a detached copy
  | .observe, o, log => (o, .normal, log ++ [o])
  | .tryCatch body, o, log => ((exec body o log).1, .normal, (exec body o log).2.2)
  | .withBlock kw body, o, log =>
    -- options = get_options(); set_options(**kwargs); try: yield finally: set_options(**options)
    match setOptions o kw with
    | (_, .raised e) => (o, .raised e, log)
    | (o1, .normal) =>
      let r := exec body o1 log
      ((setOptions r.1 o).1, r.2.1, r.2.2)
end

/-- `get_options(defaults=True)`: the shipped defaults, whatever happened before -/
def getDefaults (defaults : Opts) (_current : Opts) : Opts := defaults
end Np.Opt

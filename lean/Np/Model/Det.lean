/-! Mathlib-free model of `det` as repaired (Laplace expansion along the first row, standard minors) and
as shipped (cyclically shifted minors, no sign) -/
namespace Np.Det
variable {R : Type}

/-- column index of the minor: skip column `j` -/
def skip {n : Nat} (j : Fin (n + 1)) (k : Fin n) : Fin (n + 1) :=
  if k.val < j.val then ⟨k.val, by omega⟩ else ⟨k.val + 1, by omega⟩

def sign [One R] [Neg R] (j : Nat) : R := if j % 2 = 0 then 1 else -1

/-- repaired `det`: `sum_j (-1)**j * a[0, j] * det(a[1:, columns != j])`; the 0×0 determinant is 1 -/
def detStd [Zero R] [One R] [Add R] [Mul R] [Neg R] : (n : Nat) → (Fin n → Fin n → R) → R
  | 0, _ => 1
  | n + 1, A => (List.finRange (n + 1)).foldr
      (fun j acc => sign j.val * A 0 j * detStd n (fun i k => A i.succ (skip j k)) + acc) 0

/-- shipped `det` (pre-repair): minors take the columns `(j+1, j+2, …) mod n`, no sign; base case n = 2 -/
def cyc {n : Nat} (j : Fin (n + 1)) (k : Fin n) : Fin (n + 1) := ⟨(k.val + 1 + j.val) % (n + 1), Nat.mod_lt _ (by omega)⟩

def detOld [Zero R] [One R] [Add R] [Mul R] [Sub R] : (n : Nat) → (Fin n → Fin n → R) → R
  | 0, _ => 0
  | 2, A => A 0 0 * A 1 1 - A 1 0 * A 0 1
  | n + 1, A => (List.finRange (n + 1)).foldr
      (fun j acc => A 0 j * detOld n (fun i k => A i.succ (cyc j k)) + acc) 0
end Np.Det

import Np.Model.Shape
/-! numpy's index arithmetic for the reductions of C10 (Mathlib-free, executable): for `sum`, `cumsum`, `mean`,
`diff`, `ediff1d` the weight table `W` that `linearOp` (Np/Model/Maps.lean) consumes, for `prod` the groups of
`prodOp`.  A table lists, for every flat (row-major) position of the output, the `(input flat position, weight)`
pairs; `none` is returned where numpy raises (axis out of range / repeated axis).  Axes are non-negative (the caller
normalises negative axes as numpy does). -/
namespace Np.ReduceFns
open Np.Shape

abbrev Row := List (Nat × Int)
abbrev Table := List Row

/-- the shape with dimension `axis` replaced by `m` -/
def setAxis (shape : List Nat) (axis m : Nat) : List Nat := shape.take axis ++ m :: shape.drop (axis + 1)
/-- the shape with dimension `axis` removed -/
def dropAxis (shape : List Nat) (axis : Nat) : List Nat := shape.take axis ++ shape.drop (axis + 1)
/-- multi-index `j` with the coordinate `t` inserted at position `axis` -/
def insertAt (j : List Nat) (axis t : Nat) : List Nat := j.take axis ++ t :: j.drop axis

/-- an operation along one axis in numpy's stride arithmetic.  The input is seen as `(pre, n, post)`, the output as
`(pre, m, post)`; output position `j = (o * m + u) * post + r` combines the input positions `(o * n + t) * post + r`
for the `(t, weight)` listed by the one-dimensional kernel `K u`. -/
def axisW (pre n post m : Nat) (K : Nat → Row) : Table :=
  (List.range (pre * (m * post))).map fun j =>
    (K (j / post % m)).map fun tw => ((j / (m * post) * n + tw.1) * post + j % post, tw.2)

/-- `(pre, n, post)` of a shape at an axis -/
def preOf (shape : List Nat) (axis : Nat) : Nat := size (shape.take axis)
def dimOf (shape : List Nat) (axis : Nat) : Nat := shape.getD axis 1
def postOf (shape : List Nat) (axis : Nat) : Nat := size (shape.drop (axis + 1))

/-! ### one-dimensional kernels -/
def sumK (n : Nat) : Nat → Row := fun _ => (List.range n).map fun t => (t, 1)
def cumsumK : Nat → Row := fun u => (List.range (u + 1)).map fun t => (t, 1)
def diffK : Nat → Row := fun u => [(u + 1, 1), (u, -1)]

/-! ### sum -/

/-- `numpy.sum(a, axis=axis, keepdims=keepdims)` -/
def sumAxisW (shape : List Nat) (axis : Nat) (keepdims : Bool) : Option (List Nat × Table) :=
  if axis < shape.length then
    some (if keepdims then setAxis shape axis 1 else dropAxis shape axis,
      axisW (preOf shape axis) (dimOf shape axis) (postOf shape axis) 1 (sumK (dimOf shape axis)))
  else none

/-- `numpy.sum(a, axis=None, keepdims=keepdims)` -/
def sumAllW (shape : List Nat) (keepdims : Bool) : Option (List Nat × Table) :=
  some (if keepdims then shape.map fun _ => 1 else [], [(List.range (size shape)).map fun i => (i, 1)])

/-- a list with the entries at the positions listed in `axes` set to `c` (`k` = position of the head) -/
def maskAxes (axes : List Nat) (c : Nat) : List Nat → Nat → List Nat
  | [], _ => []
  | d :: ds, k => (if axes.contains k then c else d) :: maskAxes axes c ds (k + 1)
/-- the shape with the dimensions listed in `axes` set to 1 -/
abbrev keepShape (axes : List Nat) (shape : List Nat) (k : Nat) : List Nat := maskAxes axes 1 shape k
/-- a multi-index with the coordinates listed in `axes` set to 0 -/
abbrev projIdx (axes : List Nat) (idx : List Nat) (k : Nat) : List Nat := maskAxes axes 0 idx k
/-- the shape with the dimensions listed in `axes` removed -/
def dropShape (axes : List Nat) : List Nat → Nat → List Nat
  | [], _ => []
  | d :: ds, k => if axes.contains k then dropShape axes ds (k + 1) else d :: dropShape axes ds (k + 1)
def nodupB : List Nat → Bool
  | [] => true
  | x :: xs => !xs.contains x && nodupB xs

/-- `numpy.sum(a, axis=tuple(axes), keepdims=keepdims)`: output position `j` (a position of the shape with the
summed dimensions set to 1; dropping them does not change flat positions) collects the input positions whose
multi-index agrees with that of `j` outside `axes` -/
def sumAxesW (shape : List Nat) (axes : List Nat) (keepdims : Bool) : Option (List Nat × Table) :=
  if axes.all (· < shape.length) && nodupB axes then
    let outK := keepShape axes shape 0
    some (if keepdims then outK else dropShape axes shape 0,
      (List.range (size outK)).map fun j =>
        ((List.range (size shape)).filter fun i => projIdx axes (unravel shape i) 0 == unravel outK j).map
          fun i => (i, 1))
  else none

/-- `numpy.mean` along an axis: the table of `sum` and the denominator (the weights are `1 / denominator`) -/
def meanAxisW (shape : List Nat) (axis : Nat) (keepdims : Bool) : Option (List Nat × Table × Nat) :=
  (sumAxisW shape axis keepdims).map fun r => (r.1, r.2, dimOf shape axis)
def meanAllW (shape : List Nat) (keepdims : Bool) : Option (List Nat × Table × Nat) :=
  (sumAllW shape keepdims).map fun r => (r.1, r.2, size shape)

/-! ### cumsum -/

/-- `numpy.cumsum(a, axis=axis)`: `out[j] = Σ_{t ≤ j_axis} a[j with axis := t]` -/
def cumsumAxisW (shape : List Nat) (axis : Nat) : Option (List Nat × Table) :=
  if axis < shape.length then
    some (shape, axisW (preOf shape axis) (dimOf shape axis) (postOf shape axis) (dimOf shape axis) cumsumK)
  else none

/-- `numpy.cumsum(a)` (axis=None): cumulative sum of the flattened array -/
def cumsumFlatW (shape : List Nat) : Option (List Nat × Table) :=
  some ([size shape], (List.range (size shape)).map fun j => (List.range (j + 1)).map fun t => (t, 1))

/-! ### diff, ediff1d -/

/-- `numpy.diff(a, n=1, axis=axis)`: `out[j] = a[j + 1 along axis] - a[j]` -/
def diffW (shape : List Nat) (axis : Nat) : Option (List Nat × Table) :=
  if axis < shape.length then
    some (setAxis shape axis (dimOf shape axis - 1),
      axisW (preOf shape axis) (dimOf shape axis) (postOf shape axis) (dimOf shape axis - 1) diffK)
  else none

/-- `numpy.ediff1d(a)`: differences of consecutive elements of the flattened array -/
def ediff1dW (shape : List Nat) : Option (List Nat × Table) :=
  some ([size shape - 1], (List.range (size shape - 1)).map fun j => [(j + 1, 1), (j, -1)])

/-- the table that copies an array of `n` elements -/
def idW (n : Nat) : Table := (List.range n).map fun i => [(i, 1)]

/-- apply `T1` first, then `T2`: row `j` of the composite expands every `(k, w)` of row `j` of `T2` by row `k` of `T1` -/
def composeW (T2 T1 : Table) : Table :=
  T2.map fun row => row.flatMap fun kw => (T1.getD kw.1 []).map fun iw => (iw.1, kw.2 * iw.2)

/-- add weight `w` at position `p` of a row (a new entry at the end when the position is not listed yet) -/
def addEntry (p : Nat) (w : Int) : Row → Row
  | [] => [(p, w)]
  | qv :: rest => if qv.1 == p then (qv.1, qv.2 + w) :: rest else qv :: addEntry p w rest

/-- merge the entries of a row that name the same position, adding their weights (order of first occurrence) -/
def mergeRow (r : Row) : Row := r.foldl (fun acc pw => addEntry pw.1 pw.2 acc) []

/-- `n`-fold composition of `diffW` along one axis, not merged (`n = 0`: numpy returns the array unchanged before it
looks at the axis) -/
def diffNRaw (shape : List Nat) : Nat → Nat → Option (List Nat × Table)
  | 0, _ => some (shape, idW (size shape))
  | n + 1, axis =>
    match diffNRaw shape n axis with
    | none => none
    | some (s1, T1) =>
      match diffW s1 axis with
      | none => none
      | some (s2, T2) => some (s2, composeW T2 T1)

/-- `numpy.diff(a, n=n, axis=axis)` as the `n`-fold composition of the tables of `diffW`, equal positions merged -/
def diffNW (shape : List Nat) (n axis : Nat) : Option (List Nat × Table) :=
  (diffNRaw shape n axis).map fun r => (r.1, r.2.map mergeRow)

/-! ### prod -/

/-- `numpy.prod(a, axis=axis, keepdims=keepdims)`: for every output position the input positions multiplied together -/
def prodAxisG (shape : List Nat) (axis : Nat) (keepdims : Bool) : Option (List Nat × List (List Nat)) :=
  (sumAxisW shape axis keepdims).map fun r => (r.1, r.2.map fun row => row.map Prod.fst)

/-- the same in the layout `prodOp` consumes: one list per factor `t < shape[axis]`, giving for every output position
the 1-based input position of that factor -/
def prodAxisGroups (shape : List Nat) (axis : Nat) (keepdims : Bool) : Option (List Nat × List (List Nat)) :=
  (prodAxisG shape axis keepdims).map fun r =>
    (r.1, (List.range (dimOf shape axis)).map fun t => r.2.map fun g => g.getD t 0 + 1)

/-- a table with weights in any ring-like `R` (for `linearOp`) -/
def castW {R : Type} [IntCast R] (T : Table) : List (List (Nat × R)) := T.map fun row => row.map fun iw => (iw.1, (iw.2 : R))

/-! ### numpy on small shapes -/
-- numpy.sum(arange(6).reshape(2,3), axis=0): out[j] = a[0,j] + a[1,j]
example : sumAxisW [2, 3] 0 false = some ([3], [[(0, 1), (3, 1)], [(1, 1), (4, 1)], [(2, 1), (5, 1)]]) := by decide
example : sumAxisW [2, 3] 1 true = some ([2, 1], [[(0, 1), (1, 1), (2, 1)], [(3, 1), (4, 1), (5, 1)]]) := by decide
example : sumAxisW [2, 3] 2 false = none := by decide
-- shape (2,2,2), axis 1: out[o, r] = a[o,0,r] + a[o,1,r]
example : sumAxisW [2, 2, 2] 1 false =
    some ([2, 2], [[(0, 1), (2, 1)], [(1, 1), (3, 1)], [(4, 1), (6, 1)], [(5, 1), (7, 1)]]) := by decide
example : sumAllW [2, 2] true = some ([1, 1], [[(0, 1), (1, 1), (2, 1), (3, 1)]]) := by decide
example : sumAllW [2, 2] false = some ([], [[(0, 1), (1, 1), (2, 1), (3, 1)]]) := by decide
example : sumAxesW [2, 2, 2] [0, 2] false = some ([2], [[(0, 1), (1, 1), (4, 1), (5, 1)], [(2, 1), (3, 1), (6, 1), (7, 1)]]) := by
  decide
example : sumAxesW [2, 3] [1] false = sumAxisW [2, 3] 1 false := by decide
example : sumAxesW [2, 3] [0] true = sumAxisW [2, 3] 0 true := by decide
example : sumAxesW [2, 3] [0, 0] true = none := by decide
example : sumAxesW [2, 3] [] false = some ([2, 3], idW 6) := by decide
-- numpy.cumsum(arange(6).reshape(2,3), axis=1)
example : cumsumAxisW [2, 3] 1 = some ([2, 3],
    [[(0, 1)], [(0, 1), (1, 1)], [(0, 1), (1, 1), (2, 1)], [(3, 1)], [(3, 1), (4, 1)], [(3, 1), (4, 1), (5, 1)]]) := by decide
example : cumsumAxisW [2, 3] 0 = some ([2, 3],
    [[(0, 1)], [(1, 1)], [(2, 1)], [(0, 1), (3, 1)], [(1, 1), (4, 1)], [(2, 1), (5, 1)]]) := by decide
example : cumsumFlatW [2, 2] = some ([4], [[(0, 1)], [(0, 1), (1, 1)], [(0, 1), (1, 1), (2, 1)], [(0, 1), (1, 1), (2, 1), (3, 1)]]) := by
  decide
-- numpy.diff(arange(6).reshape(2,3), axis=1) has shape (2,2); axis=0 shape (1,3)
example : diffW [2, 3] 1 = some ([2, 2], [[(1, 1), (0, -1)], [(2, 1), (1, -1)], [(4, 1), (3, -1)], [(5, 1), (4, -1)]]) := by decide
example : diffW [2, 3] 0 = some ([1, 3], [[(3, 1), (0, -1)], [(4, 1), (1, -1)], [(5, 1), (2, -1)]]) := by decide
example : diffW [1] 0 = some ([0], []) := by decide
example : diffW [] 0 = none := by decide
example : diffNW [4] 2 0 = some ([2], [[(2, 1), (1, -2), (0, 1)], [(3, 1), (2, -2), (1, 1)]]) := by decide
example : diffNW [4] 3 0 = some ([1], [[(3, 1), (2, -3), (1, 3), (0, -1)]]) := by decide
example : diffNW [2, 3] 0 7 = some ([2, 3], idW 6) := by decide
example : diffNW [2] 3 0 = some ([0], []) := by decide
example : ediff1dW [2, 2] = some ([3], [[(1, 1), (0, -1)], [(2, 1), (1, -1)], [(3, 1), (2, -1)]]) := by decide
example : ediff1dW [] = some ([0], []) := by decide
example : prodAxisG [2, 3] 0 false = some ([3], [[0, 3], [1, 4], [2, 5]]) := by decide
example : prodAxisGroups [2, 3] 0 false = some ([3], [[1, 2, 3], [4, 5, 6]]) := by decide
example : meanAxisW [2, 3] 1 false = some ([2], [[(0, 1), (1, 1), (2, 1)], [(3, 1), (4, 1), (5, 1)]], 3) := by decide
end Np.ReduceFns

import Np.Model.ShapeFns
/-! numpy's index arithmetic for basic indexing `a[items]`, the `split` family, `diag`, `atleast_nd` and
`broadcast_to` / `broadcast_arrays` (C09), Mathlib-free and executable, in the style of `Np/Model/ShapeFns.lean`:
every function returns `some (outShape, idx)` where `idx` lists, for every output flat position (C order), the flat
position of the operand's element that lands there, or `none` where numpy raises. -/
namespace Np.IndexFns
open Np.Shape Np.ShapeFns

/-! ### 1. Python slices -/

/-- CPython's clipping of a given slice bound `x` on an axis of extent `n` (`lower`/`upper` depend on the sign of
the step): negative bounds count from the end -/
def clip (n : Nat) (lower upper x : Int) : Int :=
  if x < 0 then max (x + n) lower else min x upper

/-- `slice(start, stop, step).indices(n)` (`none` for a bound is Python's `None`; `step = None` is `1`):
`none` where Python raises (`step = 0`) -/
def sliceIndices (n : Nat) (start stop : Option Int) (step : Int) : Option (Int × Int × Int) :=
  if step = 0 then none
  else
    let lower : Int := if step < 0 then -1 else 0
    let upper : Int := if step < 0 then (n : Int) - 1 else n
    let s := match start with
      | none => if step < 0 then upper else lower
      | some x => clip n lower upper x
    let e := match stop with
      | none => if step < 0 then lower else upper
      | some x => clip n lower upper x
    some (s, e, step)

/-- `len(range(start, stop, step))` (CPython's `PySlice_AdjustIndices`) -/
def sliceLen (start stop step : Int) : Nat :=
  if step < 0 then (if stop < start then ((start - stop - 1) / (-step) + 1).toNat else 0)
  else if start < stop then ((stop - start - 1) / step + 1).toNat else 0

/-! ### 2. basic indexing -/

inductive Item
  | int (i : Int)
  | slice (start stop : Option Int) (step : Int)
  | newaxis
  | ellipsis
  deriving DecidableEq, Repr

/-- does the item use up an axis of the operand? -/
def Item.consumes : Item → Bool
  | .int _ => true
  | .slice .. => true
  | _ => false

def Item.isEllipsis : Item → Bool
  | .ellipsis => true
  | _ => false

def Item.isInt : Item → Bool
  | .int _ => true
  | _ => false

/-- the full slice `:` -/
def Item.full : Item := .slice none none 1

/-- an index item resolved against its axis -/
inductive AxOp
  /-- an integer: the operand axis is fixed at (normalised) position `i` and disappears -/
  | fix (i : Nat)
  /-- a slice: an output axis of extent `len` whose position `k` reads operand position `start + k * step` -/
  | sl (start step : Int) (len : Nat)
  /-- `newaxis`: an output axis of extent 1 that reads no operand axis -/
  | new
  deriving DecidableEq, Repr

/-- the ellipsis stands for as many full slices as there are axes left; two ellipses are an error -/
def expand (ndim : Nat) (items : List Item) : Option (List Item) :=
  match (items.filter Item.isEllipsis).length with
  | 0 => some items
  | 1 => some (items.flatMap fun it =>
      if it.isEllipsis then List.replicate (ndim - (items.filter Item.consumes).length) Item.full else [it])
  | _ => none

/-- resolve ellipsis-free items against the axes from left to right; the axes left over at the end are taken whole
(the implicit trailing ellipsis) -/
def resolve : List Nat → List Item → Option (List AxOp)
  | shape, [] => some (shape.map fun n => .sl 0 1 n)
  | shape, .newaxis :: items => (resolve shape items).map (.new :: ·)
  | _, .ellipsis :: _ => none
  | [], .int _ :: _ => none
  | [], .slice .. :: _ => none
  | n :: shape, .int i :: items =>
    if -(n : Int) ≤ i ∧ i < n then (resolve shape items).map (.fix (if i < 0 then i + n else i).toNat :: ·)
    else none
  | n :: shape, .slice a b st :: items =>
    match sliceIndices n a b st with
    | none => none
    | some r => (resolve shape items).map (.sl r.1 r.2.2 (sliceLen r.1 r.2.1 r.2.2) :: ·)

def outShape : List AxOp → List Nat
  | [] => []
  | .fix _ :: ops => outShape ops
  | .sl _ _ len :: ops => len :: outShape ops
  | .new :: ops => 1 :: outShape ops

/-- operand multi-index of output multi-index `j` -/
def inIndex : List AxOp → List Nat → List Nat
  | [], _ => []
  | .fix i :: ops, j => i :: inIndex ops j
  | .sl s st _ :: ops, j => (s + (j.headD 0 : Nat) * st).toNat :: inIndex ops j.tail
  | .new :: ops, j => inIndex ops j.tail

/-- `a[items]` for a tuple of integers, slices, `numpy.newaxis` and `...` -/
def basicIndexF (shape : List Nat) (items : List Item) : Option (List Nat × List Nat) :=
  match expand shape.length items with
  | none => none
  | some items' =>
    match resolve shape items' with
    | none => none
    | some ops => some (outShape ops, gatherBy shape (outShape ops) (inIndex ops))

/-! ### 3. `split`, `array_split` -/

def sortedB : List Nat → Bool
  | a :: b :: r => a ≤ b && sortedB (b :: r)
  | _ => true

/-- the `[lo, hi)` ranges of `a[lo:s0], a[s0:s1], …, a[s_last:]` on an axis of extent `n`, starting at `lo`
(cut points beyond the extent are clipped as Python slices do) -/
def pieces (n : Nat) : Nat → List Nat → List (Nat × Nat)
  | lo, [] => [(lo, n)]
  | lo, s :: ss => (lo, min s n) :: pieces n (min s n) ss

/-- the piece `a[.., lo:hi, ..]` (slice on `axis`) -/
def pieceF (shape : List Nat) (axis lo hi : Nat) : List Nat × List Nat :=
  let out := shape.set axis (hi - lo)
  (out, gatherBy shape out fun j => j.set axis (j.getD axis 0 + lo))

/-- `numpy.split(a, sections, axis)` / `numpy.array_split(a, sections, axis)` for a list of non-decreasing cut
points -/
def splitF (shape : List Nat) (axis : Nat) (sections : List Nat) : Option (List (List Nat × List Nat)) :=
  if axis < shape.length && sortedB sections then
    some ((pieces (shape.getD axis 0) 0 sections).map fun p => pieceF shape axis p.1 p.2)
  else none

/-- the cut points of `numpy.array_split(a, k)`: the first `n % k` pieces get `n / k + 1` positions, the others
`n / k` -/
def arrayCuts (n k : Nat) : List Nat :=
  (List.range (k - 1)).map fun i => (i + 1) * (n / k) + min (i + 1) (n % k)

/-- `numpy.array_split(a, k, axis)` -/
def arraySplitF (shape : List Nat) (axis k : Nat) : Option (List (List Nat × List Nat)) :=
  if k = 0 then none else splitF shape axis (arrayCuts (shape.getD axis 0) k)

/-- `numpy.split(a, k, axis)`: the extent must be a multiple of `k` -/
def splitEqualF (shape : List Nat) (axis k : Nat) : Option (List (List Nat × List Nat)) :=
  if k = 0 || shape.getD axis 0 % k != 0 then none else arraySplitF shape axis k

/-! ### 4. `diag` -/

/-- `numpy.diag(a, k)`: a 1-d operand of length `n` is laid on the `k`-th diagonal of a zero matrix of order
`n + |k|` (`none` entries are the zero fill); of a 2-d operand the `k`-th diagonal is extracted -/
def diagF (shape : List Nat) (k : Int) : Option (List Nat × List (Option Nat)) :=
  match shape with
  | [n] =>
    let m := n + k.natAbs
    some ([m, m], (List.range (m * m)).map fun p =>
      if ((p % m : Nat) : Int) - ((p / m : Nat) : Int) = k then some (p / m - (-k).toNat) else none)
  | [_, _] => (diagonalF shape k 0 1).map fun r => (r.1, r.2.map some)
  | _ => none

/-! ### 5. `atleast_1d/2d/3d`, `broadcast_to` -/

def atleastShape : Nat → List Nat → Option (List Nat)
  | 1, [] => some [1]
  | 1, s => some s
  | 2, [] => some [1, 1]
  | 2, [n] => some [1, n]
  | 2, s => some s
  | 3, [] => some [1, 1, 1]
  | 3, [n] => some [1, n, 1]
  | 3, [m, n] => some [m, n, 1]
  | 3, s => some s
  | _, _ => none

/-- `numpy.atleast_1d / _2d / _3d` (`d = 1, 2, 3`): only unit axes are added, no element moves -/
def atleastF (d : Nat) (shape : List Nat) : Option (List Nat × List Nat) :=
  (atleastShape d shape).map fun out => (out, List.range (size shape))

/-- can `shape` be broadcast to `target`?  Aligned at the last axis, every extent equals the target's or is 1. -/
def broadcastOK (shape target : List Nat) : Bool :=
  shape.length ≤ target.length &&
    (List.zipWith (fun d t => d == t || d == 1) shape (target.drop (target.length - shape.length))).all id

/-- `numpy.broadcast_to(a, target)`; `numpy.broadcast_arrays(a, b, ..)` is `broadcast_to(x, bshapeAll shapes)` for
each operand `x` -/
def broadcastToF (shape target : List Nat) : Option (List Nat × List Nat) :=
  if broadcastOK shape target then some (target, gatherBy shape target (bmulti shape)) else none

/-- the outputs of `numpy.broadcast_arrays` -/
def broadcastArraysF (shapes : List (List Nat)) : Option (List (List Nat × List Nat)) :=
  match bshapeAll shapes with
  | none => none
  | some r => shapes.mapM fun s => broadcastToF s r

/-! ### sanity checks against numpy (expected values produced by numpy 2 on `arange(size).reshape(shape)`) -/

-- a[items]
example : basicIndexF [5] [.slice (some 1) (some 4) 1] = some ([3], [1, 2, 3]) := by decide
example : basicIndexF [5] [.slice none none (-1)] = some ([5], [4, 3, 2, 1, 0]) := by decide
example : basicIndexF [5] [.slice none none (-2)] = some ([3], [4, 2, 0]) := by decide
example : basicIndexF [5] [.slice (some (-2)) none 1] = some ([2], [3, 4]) := by decide
example : basicIndexF [5] [.slice (some 7) (some (-9)) (-2)] = some ([3], [4, 2, 0]) := by decide
example : basicIndexF [5] [.slice (some (-9)) (some 9) 3] = some ([2], [0, 3]) := by decide
example : basicIndexF [5] [.slice (some 3) (some 1) 1] = some ([0], []) := by decide
example : basicIndexF [5] [.slice none none 0] = none := by decide
example : basicIndexF [5] [.int (-1)] = some ([], [4]) := by decide
example : basicIndexF [5] [.int (-5)] = some ([], [0]) := by decide
example : basicIndexF [5] [.int (-6)] = none := by decide
example : basicIndexF [5] [.int 5] = none := by decide
example : basicIndexF [2, 3] [.int 1] = some ([3], [3, 4, 5]) := by decide
example : basicIndexF [2, 3] [.slice none none 1, .int 2] = some ([2], [2, 5]) := by decide
example : basicIndexF [2, 3] [.ellipsis, .int 0] = some ([2], [0, 3]) := by decide
example : basicIndexF [2, 3] [.int 0, .ellipsis] = some ([3], [0, 1, 2]) := by decide
example : basicIndexF [2, 3] [.newaxis] = some ([1, 2, 3], [0, 1, 2, 3, 4, 5]) := by decide
example : basicIndexF [2, 3] [.slice none none 1, .newaxis] = some ([2, 1, 3], [0, 1, 2, 3, 4, 5]) := by decide
example : basicIndexF [2, 3] [.ellipsis, .newaxis] = some ([2, 3, 1], [0, 1, 2, 3, 4, 5]) := by decide
example : basicIndexF [2, 3] [.int 0, .int 0, .int 0] = none := by decide
example : basicIndexF [2, 3] [.ellipsis, .ellipsis] = none := by decide
example : basicIndexF [2, 3] [.int 0, .ellipsis, .int 0, .int 0] = none := by decide
example : basicIndexF [2, 3] [.int 0, .ellipsis, .int 0] = some ([], [0]) := by decide
example : basicIndexF [2, 3, 4] [.int 1, .ellipsis, .slice none none (-2)] = some ([3, 2], [15, 13, 19, 17, 23, 21]) := by decide
example : basicIndexF [2, 3, 4] [.slice none none (-1), .int (-1), .slice (some 1) none 2] = some ([2, 2], [21, 23, 9, 11]) := by decide
example : basicIndexF [] [] = some ([], [0]) := by decide
example : basicIndexF [] [.newaxis] = some ([1], [0]) := by decide
example : basicIndexF [] [.ellipsis] = some ([], [0]) := by decide
example : basicIndexF [] [.int 0] = none := by decide
example : basicIndexF [0, 3] [.slice none none 1, .int 1] = some ([0], []) := by decide
example : basicIndexF [0, 3] [.int 0] = none := by decide
example : basicIndexF [2, 3] [.newaxis, .int 1, .newaxis, .slice none none (-1), .newaxis] = some ([1, 1, 3, 1], [5, 4, 3]) := by decide
-- slice(start, stop, step).indices(n) and len(range(..))
example : sliceIndices 5 none none 1 = some (0, 5, 1) ∧ sliceLen 0 5 1 = 5 := by decide
example : sliceIndices 5 none none (-1) = some (4, (-1), (-1)) ∧ sliceLen 4 (-1) (-1) = 5 := by decide
example : sliceIndices 5 (some 1) (some 4) 1 = some (1, 4, 1) ∧ sliceLen 1 4 1 = 3 := by decide
example : sliceIndices 5 (some (-2)) none 1 = some (3, 5, 1) ∧ sliceLen 3 5 1 = 2 := by decide
example : sliceIndices 5 (some 7) (some (-9)) (-2) = some (4, (-1), (-2)) ∧ sliceLen 4 (-1) (-2) = 3 := by decide
example : sliceIndices 5 (some (-9)) (some 9) 3 = some (0, 5, 3) ∧ sliceLen 0 5 3 = 2 := by decide
example : sliceIndices 5 (some 3) (some 1) 1 = some (3, 1, 1) ∧ sliceLen 3 1 1 = 0 := by decide
example : sliceIndices 5 none (some (-7)) (-1) = some (4, (-1), (-1)) ∧ sliceLen 4 (-1) (-1) = 5 := by decide
example : sliceIndices 0 none none (-1) = some ((-1), (-1), (-1)) ∧ sliceLen (-1) (-1) (-1) = 0 := by decide
example : sliceIndices 5 none none 0 = none := by decide
-- numpy.split / array_split (cut points beyond the extent give empty pieces)
example : splitF [5] 0 [2, 3] = some [([2], [0, 1]), ([1], [2]), ([2], [3, 4])] := by decide
example : splitF [5] 0 [] = some [([5], [0, 1, 2, 3, 4])] := by decide
example : splitF [5] 0 [2, 2, 7] = some [([2], [0, 1]), ([0], []), ([3], [2, 3, 4]), ([0], [])] := by decide
example : splitF [2, 3] 1 [1] = some [([2, 1], [0, 3]), ([2, 2], [1, 2, 4, 5])] := by decide
example : splitF [2, 3] 0 [1] = some [([1, 3], [0, 1, 2]), ([1, 3], [3, 4, 5])] := by decide
example : splitF [2, 3] 2 [1] = none := by decide
example : splitF [5] 0 [3, 2] = none := by decide   -- decreasing cut points are not modelled
example : splitEqualF [6] 0 3 = some [([2], [0, 1]), ([2], [2, 3]), ([2], [4, 5])] := by decide
example : splitEqualF [5] 0 2 = none := by decide
example : splitEqualF [5] 0 0 = none := by decide
example : splitEqualF [2, 4] 1 2 = some [([2, 2], [0, 1, 4, 5]), ([2, 2], [2, 3, 6, 7])] := by decide
example : splitEqualF [2, 4] 2 2 = none := by decide
example : arraySplitF [5] 0 3 = some [([2], [0, 1]), ([2], [2, 3]), ([1], [4])] := by decide
example : arraySplitF [2] 0 4 = some [([1], [0]), ([1], [1]), ([0], []), ([0], [])] := by decide
example : arraySplitF [3, 2] 0 2 = some [([2, 2], [0, 1, 2, 3]), ([1, 2], [4, 5])] := by decide
example : arraySplitF [5] 0 0 = none := by decide
example : arraySplitF [5] 1 2 = none := by decide
-- numpy.diag
example : diagF [2] 0 = some ([2, 2], [some 0, none, none, some 1]) := by decide
example : diagF [2] 1 = some ([3, 3], [none, some 0, none, none, none, some 1, none, none, none]) := by decide
example : diagF [2] (-1) = some ([3, 3], [none, none, none, some 0, none, none, none, some 1, none]) := by decide
example : diagF [0] 2 = some ([2, 2], [none, none, none, none]) := by decide
example : diagF [2, 3] 0 = some ([2], [some 0, some 4]) := by decide
example : diagF [2, 3] 1 = some ([2], [some 1, some 5]) := by decide
example : diagF [2, 3] (-1) = some ([1], [some 3]) := by decide
example : diagF [2, 3] 3 = some ([0], []) := by decide
example : diagF [] 0 = none := by decide
example : diagF [2, 2, 2] 0 = none := by decide
-- numpy.atleast_1d / 2d / 3d
example : atleastF 1 [] = some ([1], [0]) := by decide
example : atleastF 1 [3] = some ([3], [0, 1, 2]) := by decide
example : atleastF 2 [] = some ([1, 1], [0]) := by decide
example : atleastF 2 [3] = some ([1, 3], [0, 1, 2]) := by decide
example : atleastF 2 [2, 3] = some ([2, 3], [0, 1, 2, 3, 4, 5]) := by decide
example : atleastF 3 [] = some ([1, 1, 1], [0]) := by decide
example : atleastF 3 [3] = some ([1, 3, 1], [0, 1, 2]) := by decide
example : atleastF 3 [2, 3] = some ([2, 3, 1], [0, 1, 2, 3, 4, 5]) := by decide
example : atleastF 3 [2, 3, 1, 2] = some ([2, 3, 1, 2], [0, 1, 2, 3, 4, 5, 6, 7, 8, 9, 10, 11]) := by decide
example : atleastF 0 [3] = none := by decide
example : atleastF 4 [3] = none := by decide
-- numpy.broadcast_to / broadcast_arrays
example : broadcastToF [3] [2, 3] = some ([2, 3], [0, 1, 2, 0, 1, 2]) := by decide
example : broadcastToF [2, 1] [2, 3] = some ([2, 3], [0, 0, 0, 1, 1, 1]) := by decide
example : broadcastToF [1] [0] = some ([0], []) := by decide
example : broadcastToF [] [2, 2] = some ([2, 2], [0, 0, 0, 0]) := by decide
example : broadcastToF [3] [3, 2] = none := by decide
example : broadcastToF [2, 3] [3] = none := by decide
example : broadcastToF [3] [1] = none := by decide
example : broadcastToF [0] [1] = none := by decide
example : broadcastToF [2, 1, 2] [3, 2, 2, 2] = some ([3, 2, 2, 2], [0, 1, 0, 1, 2, 3, 2, 3, 0, 1, 0, 1, 2, 3, 2, 3, 0, 1, 0, 1, 2, 3, 2, 3]) := by decide
example : broadcastArraysF [[2, 1], [3]] = some [([2, 3], [0, 0, 0, 1, 1, 1]), ([2, 3], [0, 1, 2, 0, 1, 2])] := by decide
example : broadcastArraysF [[3], [2]] = none := by decide
example : broadcastArraysF [[], [2]] = some [([2], [0, 0]), ([2], [0, 1])] := by decide
example : broadcastArraysF [] = some [] := by decide

end Np.IndexFns

import Np.Model.Basic
import Np.Model.Vec
import Np.Model.Index
/-! Mathlib-free model of the ordering walks: greater/less/…, equal/not_equal, maximum/minimum (C07),
lead_exponent/lead_coefficient, sortable_proxy (C19). Element-wise over aligned term lists. -/
namespace Np
variable {R : Type}

/-- the walk shared by `greater`, `less`, `greater_equal`, `less_equal`, `maximum`, `minimum`: in `glexsort`
order overwrite the verdict wherever the two coefficients differ -/
def cmpWalk [BEq R] (order : List Nat) (init : Bool) (rel : R → R → Bool) (z : R) (c1 c2 : List R) : Bool :=
  order.foldl (fun acc idx =>
    let x := c1.getD idx z
    let y := c2.getD idx z
    if x != y then rel x y else acc) init

inductive CmpOp where | gt | ge | lt | le
deriving DecidableEq, Repr

def CmpOp.rel (lt : R → R → Bool) : CmpOp → R → R → Bool
  | .gt => fun x y => lt y x
  | .ge => fun x y => !(lt x y)
  | .lt => fun x y => lt x y
  | .le => fun x y => !(lt y x)

section arr
variable {n : Nat} [Zero R] [BEq R]

def colAt (p : Poly (Vec R n)) (i : Fin n) : List R := p.terms.map fun t => t.2.get i

/-- `numpy.greater(x1, x2)` & co. on polynomial arrays under `sort_graded`/`sort_reverse` -/
def compareArr (lt : R → R → Bool) (op : CmpOp) (graded reverse : Bool) (a b : Poly (Vec R n)) : Vec Bool n :=
  let ab := alignPair a b
  let order := Index.glexsort graded reverse ab.1.expos
  Vec.ofFn fun i =>
    let c1 := colAt ab.1 i
    let c2 := colAt ab.2 i
    cmpWalk order (op.rel lt (c1.headD 0) (c2.headD 0)) (op.rel lt) 0 c1 c2

/-- `numpy.equal`: conjunction over the aligned columns -/
def equalArr (a b : Poly (Vec R n)) : Vec Bool n :=
  let ab := alignPair a b
  Vec.ofFn fun i => (List.zipWith (fun x y => x == y) (colAt ab.1 i) (colAt ab.2 i)).all id

def notEqualArr (a b : Poly (Vec R n)) : Vec Bool n :=
  let ab := alignPair a b
  Vec.ofFn fun i => (List.zipWith (fun x y => x != y) (colAt ab.1 i) (colAt ab.2 i)).any id

/-- `where(mask, x1, x2)` on aligned operands, then the usual cleaning of `polynomial_from_attributes` -/
def selectArr (rc rn : Bool) (mask : Vec Bool n) (a b : Poly (Vec R n)) : Poly (Vec R n) :=
  let ab := alignPair a b
  clean rc rn { names := ab.1.names,
                terms := List.zipWith (fun t u => (t.1, Vec.ofFn fun i => if mask.get i then t.2.get i else u.2.get i))
                  ab.1.terms ab.2.terms }

/-- `maximum`: the walk starts from `False` and keeps `x1` where it is strictly greater -/
def maximumArr (lt : R → R → Bool) (rc rn graded reverse : Bool) (a b : Poly (Vec R n)) : Poly (Vec R n) :=
  let ab := alignPair a b
  let order := Index.glexsort graded reverse ab.1.expos
  let mask : Vec Bool n := Vec.ofFn fun i => cmpWalk order false (fun x y => lt y x) 0 (colAt ab.1 i) (colAt ab.2 i)
  selectArr rc rn mask a b

def minimumArr (lt : R → R → Bool) (rc rn graded reverse : Bool) (a b : Poly (Vec R n)) : Poly (Vec R n) :=
  let ab := alignPair a b
  let order := Index.glexsort graded reverse ab.1.expos
  let mask : Vec Bool n := Vec.ofFn fun i => cmpWalk order false (fun x y => lt x y) 0 (colAt ab.1 i) (colAt ab.2 i)
  selectArr rc rn mask a b

/-! ### leading terms -/

/-- `lead_exponent`/`lead_coefficient` for one element: ascending walk, overwrite where the coefficient is non-zero -/
def leadWalk (order : List Nat) (width : Nat) (rows : List (Expo × R)) : Expo × R :=
  order.foldl (fun acc idx =>
    match rows[idx]? with
    | some t => if t.2 != 0 then t else acc
    | none => acc) (List.replicate width 0, 0)

def leadArr (graded reverse : Bool) (p : Poly (Vec R n)) : Vec (Expo × R) n :=
  let order := Index.glexsort graded reverse p.expos
  Vec.ofFn fun i => leadWalk order p.names.length (p.terms.map fun t => (t.1, t.2.get i))

/-- the sort key behind `sortable_proxy`: position of the leading exponent in `glexsort` order, then the
leading coefficient; constants (and the zero polynomial, whose leading term is `0·1`) share position 0, the
all-zero exponent row being the smallest in every selectable order -/
def proxyKey (lt : R → R → Bool) (graded reverse : Bool) (p : Poly (Vec R n)) : List (Nat × R) :=
  let order := Index.glexsort graded reverse p.expos
  let lead := leadArr graded reverse p
  (List.finRange n).map fun i =>
    let l := lead.get i
    if isZeroExpo l.1 then (0, l.2)
    else ((order.idxOf ((p.expos.idxOf l.1))) + 1, l.2)

/-- `sortable_proxy` (as repaired: stable ranking): rank of every element under `proxyKey`, ties in flat order -/
def proxyArr (lt : R → R → Bool) (graded reverse : Bool) (p : Poly (Vec R n)) : List Nat :=
  let keys := proxyKey lt graded reverse p
  let le := fun (i j : Nat) =>
    let a := keys.getD i (0, 0)
    let b := keys.getD j (0, 0)
    decide (a.1 < b.1) || (a.1 == b.1 && !(lt b.2 a.2))
  let sorted := Sort.isort le (List.range n)
  (List.range n).map fun i => sorted.idxOf i
end arr
end Np

import Np.Model.Basic
import Np.Model.Dims
import Np.Generated.Tables
/-! dispatch patterns of the registered functions (C11): every registry entry must be classified -/
namespace Np.Patterns

inductive Pattern where
  | columnwise     -- `simple_dispatch`: the numpy function applied to every coefficient column (needs f 0 = 0)
  | truthiness     -- boolean view "some coefficient non-zero": all, any, count_nonzero, nonzero, logical_*
  | ordering       -- through `sortable_proxy` / the comparison walk: argmax, argmin, amax, amin, max, min, maximum, minimum
  | comparison     -- equal, not_equal, greater, …, isclose, allclose
  | division       -- numeric division: constant divisor only, else FeatureNotSupported
  | gather         -- shape functions: an index map applied to every column
  | linear         -- additive maps of the elements: sum, cumsum, mean, diff, ediff1d
  | product        -- multiply, power, square, prod, inner, outer, matmul, det
  | apply          -- apply_along_axis / apply_over_axes: forward to the given function
  | other          -- result_type, common_type, array_repr, array_str, savetxt, copyto, full, zeros, ones
deriving DecidableEq, Repr

def classify : String → Option Pattern
  | "numpy.absolute" | "numpy.negative" | "numpy.positive" | "numpy.ceil" | "numpy.floor" | "numpy.rint"
  | "numpy.around" | "numpy.round" | "numpy.add" | "numpy.subtract" | "numpy.isfinite" => some .columnwise
  | "numpy.all" | "numpy.any" | "numpy.count_nonzero" | "numpy.nonzero" | "numpy.logical_and" | "numpy.logical_or" =>
    some .truthiness
  | "numpy.argmax" | "numpy.argmin" | "numpy.amax" | "numpy.amin" | "numpy.max" | "numpy.min" | "builtins.max"
  | "builtins.min" | "numpy.maximum" | "numpy.minimum" => some .ordering
  | "numpy.equal" | "numpy.not_equal" | "numpy.greater" | "numpy.greater_equal" | "numpy.less" | "numpy.less_equal"
  | "numpy.isclose" | "numpy.allclose" => some .comparison
  | "numpy.divide" | "numpy.true_divide" | "numpy.floor_divide" | "numpy.remainder" | "numpy.divmod" => some .division
  | "numpy.reshape" | "numpy.transpose" | "numpy.moveaxis" | "numpy.expand_dims" | "numpy.atleast_1d"
  | "numpy.atleast_2d" | "numpy.atleast_3d" | "numpy.repeat" | "numpy.tile" | "numpy.concatenate" | "numpy.stack"
  | "numpy.hstack" | "numpy.vstack" | "numpy.dstack" | "numpy.split" | "numpy.array_split" | "numpy.hsplit"
  | "numpy.vsplit" | "numpy.dsplit" | "numpy.diag" | "numpy.diagonal" | "numpy.broadcast_arrays" | "numpy.where"
  | "numpy.choose" | "numpy.full_like" | "numpy.zeros_like" | "numpy.ones_like" => some .gather
  | "numpy.sum" | "numpy.cumsum" | "numpy.mean" | "numpy.diff" | "numpy.ediff1d" => some .linear
  | "numpy.multiply" | "numpy.power" | "numpy.square" | "numpy.prod" | "numpy.inner" | "numpy.outer" | "numpy.matmul"
  | "numpy.linalg.det" => some .product
  | "numpy.apply_along_axis" | "numpy.apply_over_axes" => some .apply
  | "numpy.result_type" | "numpy.common_type" | "numpy.array_repr" | "numpy.array_str" | "numpy.savetxt"
  | "numpy.copyto" | "numpy.full" | "numpy.zeros" | "numpy.ones" => some .other
  | _ => none

/-- `simple_dispatch` of a unary numpy function: `f` on every column, then `clean` -/
def unaryDispatch {S : Type} [Zero S] [BEq S] (rc rn : Bool) (f : S → S) (p : Poly S) : Poly S :=
  clean rc rn { names := p.names, terms := p.terms.map fun t => (t.1, f t.2) }
end Np.Patterns

import Np.Model.ReduceFns
import Np.Model.ShapeFns
/-! numpy's index arithmetic for the reductions of C10 with several operands / axis tuples (Mathlib-free, executable):
`diff` with `prepend` / `append`, `ediff1d` with `to_begin` / `to_end`, `mean` and `prod` over an axis tuple.
A row of a three-operand table lists `(operand number, flat position in that operand, weight)`; for `diff` the
operands are 0 = `prepend`, 1 = the array, 2 = `append`, for `ediff1d` 0 = `to_begin`, 1 = the array, 2 = `to_end`. -/
namespace Np.ReduceFns2
open Np.Shape Np.ReduceFns Np.ShapeFns

abbrev Row3 := List (Nat × Nat × Int)
abbrev Table3 := List Row3

/-- the operands numpy concatenates, in order, with their operand numbers -/
def operands (shape : List Nat) (pre post : Option (List Nat)) : List (Nat × List Nat) :=
  (match pre with | some p => [(0, p)] | none => []) ++ (1, shape) ::
    (match post with | some q => [(2, q)] | none => [])

/-- read a table on the concatenation through the index list of `concatF`: position `k` of the concatenation is
position `p.2` of the operand whose number is the tag of entry `p.1` of `ops` -/
def pullRow (ops : List (Nat × List Nat)) (idx : List (Nat × Nat)) (row : Row) : Row3 :=
  row.map fun kw => ((ops.getD (idx.getD kw.1 (0, 0)).1 (1, [])).1, (idx.getD kw.1 (0, 0)).2, kw.2)

/-- `numpy.diff(a, n, axis, prepend=P, append=A)`: `P`, `A` (shapes `pre`, `post`; `none` = absent) are concatenated
with `a` along `axis` (`ShapeFns.concatF`), then the `n`-th difference is taken (`ReduceFns.diffNW`).  `none` where
numpy raises (axis out of range, shapes that do not match outside `axis`).  `n = 0`: numpy returns `a` unchanged
before it looks at anything else. -/
def diffPadW (shape : List Nat) (n axis : Nat) (pre post : Option (List Nat)) : Option (List Nat × Table3) :=
  if n = 0 then some (shape, (List.range (size shape)).map fun i => [(1, i, 1)])
  else
    match concatF ((operands shape pre post).map Prod.snd) axis with
    | none => none
    | some (cat, idx) =>
      (diffNW cat n axis).map fun r => (r.1, r.2.map (pullRow (operands shape pre post) idx))

/-- `numpy.ediff1d(a, to_end=E, to_begin=B)` with `B`, `E` flattened to `nBegin`, `nEnd` elements: the output is
`[B..., a.flat[1:] - a.flat[:-1], E...]` -/
def ediff1dPadW (shape : List Nat) (nBegin nEnd : Nat) : Table3 :=
  ((List.range nBegin).map fun k => [(0, k, (1 : Int))]) ++
  ((List.range (size shape - 1)).map fun j => [(1, j + 1, (1 : Int)), (1, j, -1)]) ++
  ((List.range nEnd).map fun k => [(2, k, (1 : Int))])

/-- the output shape of `ediff1dPadW` -/
def ediff1dPadShape (shape : List Nat) (nBegin nEnd : Nat) : List Nat := [nBegin + (size shape - 1) + nEnd]

/-- the number of elements averaged by `mean` over an axis tuple: `Π shape[ax]` -/
def axesCount (shape axes : List Nat) : Nat := size (axes.map fun ax => shape.getD ax 1)

/-- `numpy.mean(a, axis=tuple(axes), keepdims)`: the table of the sum and the denominator -/
def meanAxesW (shape axes : List Nat) (keepdims : Bool) : Option (List Nat × Table × Nat) :=
  (sumAxesW shape axes keepdims).map fun r => (r.1, r.2, axesCount shape axes)

/-- `numpy.prod(a, axis=tuple(axes), keepdims)`: the reduced axes are removed (set to 1 with `keepdims`); for every
output position the input positions multiplied together -/
def prodAxesG (shape axes : List Nat) (keepdims : Bool) : Option (List Nat × List (List Nat)) :=
  (sumAxesW shape axes keepdims).map fun r => (r.1, r.2.map fun row => row.map Prod.fst)

/-! ### numpy on small shapes (weights read off `numpy.diff` applied to unit arrays; numpy lists them by operand) -/
-- numpy.diff(a(2,3), axis=1, prepend=P(2,1)): out[i,0] = a[i,0] - P[i,0]
example : diffPadW [2, 3] 1 1 (some [2, 1]) none = some ([2, 3],
    [[(1, 0, 1), (0, 0, -1)], [(1, 1, 1), (1, 0, -1)], [(1, 2, 1), (1, 1, -1)],
     [(1, 3, 1), (0, 1, -1)], [(1, 4, 1), (1, 3, -1)], [(1, 5, 1), (1, 4, -1)]]) := by decide
example : diffPadW [2, 3] 1 1 (some [2, 1]) (some [2, 2]) = some ([2, 5],
    [[(1, 0, 1), (0, 0, -1)], [(1, 1, 1), (1, 0, -1)], [(1, 2, 1), (1, 1, -1)], [(2, 0, 1), (1, 2, -1)],
     [(2, 1, 1), (2, 0, -1)],
     [(1, 3, 1), (0, 1, -1)], [(1, 4, 1), (1, 3, -1)], [(1, 5, 1), (1, 4, -1)], [(2, 2, 1), (1, 5, -1)],
     [(2, 3, 1), (2, 2, -1)]]) := by decide
example : diffPadW [2, 2] 1 0 (some [1, 2]) (some [1, 2]) = some ([3, 2],
    [[(1, 0, 1), (0, 0, -1)], [(1, 1, 1), (0, 1, -1)], [(1, 2, 1), (1, 0, -1)], [(1, 3, 1), (1, 1, -1)],
     [(2, 0, 1), (1, 2, -1)], [(2, 1, 1), (1, 3, -1)]]) := by decide
-- numpy.diff(a(3,), n=2, prepend=[p], append=[q])
example : diffPadW [3] 2 0 (some [1]) (some [1]) = some ([3],
    [[(1, 1, 1), (1, 0, -2), (0, 0, 1)], [(1, 2, 1), (1, 1, -2), (1, 0, 1)], [(2, 0, 1), (1, 2, -2), (1, 1, 1)]]) := by
  decide
example : diffPadW [3] 2 0 none none = some ([1], [[(1, 2, 1), (1, 1, -2), (1, 0, 1)]]) := by decide
-- n = 0: `a` itself, `prepend` ignored (numpy.diff(a(2,3), n=0, prepend=zeros((2,1))).shape == (2,3)), axis unchecked
example : diffPadW [2, 3] 0 7 (some [2, 1]) none =
    some ([2, 3], [[(1, 0, 1)], [(1, 1, 1)], [(1, 2, 1)], [(1, 3, 1)], [(1, 4, 1)], [(1, 5, 1)]]) := by decide
-- shapes that do not match outside the axis / axis out of range: numpy raises
example : diffPadW [2, 3] 1 1 (some [3, 1]) none = none := by decide
example : diffPadW [2, 3] 1 2 none none = none := by decide
example : diffPadW [] 1 0 none none = none := by decide
-- numpy.ediff1d(a(2,2), to_begin=[b0,b1], to_end=[e0])
example : ediff1dPadW [2, 2] 2 1 = [[(0, 0, 1)], [(0, 1, 1)], [(1, 1, 1), (1, 0, -1)], [(1, 2, 1), (1, 1, -1)],
    [(1, 3, 1), (1, 2, -1)], [(2, 0, 1)]] := by decide
example : ediff1dPadShape [2, 2] 2 1 = [6] := by decide
example : ediff1dPadW [] 1 1 = [[(0, 0, 1)], [(2, 0, 1)]] := by decide
example : ediff1dPadW [0] 0 1 = [[(2, 0, 1)]] := by decide
example : ediff1dPadW [2, 2] 0 0 = (ediff1dW [2, 2]).get!.2.map (·.map fun iw => (1, iw.1, iw.2)) := by decide
-- numpy.mean(a(2,2,2), axis=(0,2)): 4 elements per output
example : meanAxesW [2, 2, 2] [0, 2] false =
    some ([2], [[(0, 1), (1, 1), (4, 1), (5, 1)], [(2, 1), (3, 1), (6, 1), (7, 1)]], 4) := by decide
example : meanAxesW [2, 3] [1, 0] true = some ([1, 1], [[(0, 1), (1, 1), (2, 1), (3, 1), (4, 1), (5, 1)]], 6) := by decide
example : meanAxesW [2, 3] [] false = some ([2, 3], idW 6, 1) := by decide
example : meanAxesW [2, 3] [1, 1] false = none := by decide
-- numpy.prod(a(2,2,2), axis=(0,2)).shape == (2,), keepdims: (1,2,1)
example : prodAxesG [2, 2, 2] [0, 2] false = some ([2], [[0, 1, 4, 5], [2, 3, 6, 7]]) := by decide
example : prodAxesG [2, 2, 2] [0, 2] true = some ([1, 2, 1], [[0, 1, 4, 5], [2, 3, 6, 7]]) := by decide
example : prodAxesG [2, 3] [0] false = prodAxisG [2, 3] 0 false := by decide
example : prodAxesG [2, 3] [2] false = none := by decide
end Np.ReduceFns2

import Np.Model.Arr
/-! programs over the ring operators *including* `**` with an array of exponents (C01). Mathlib-free.
`Expr2` is `Expr` plus one node `powArr x kshape ks` (`x ** numpy.array(ks).reshape(kshape)`). -/
namespace Np
open Shape
variable {R : Type}

inductive Expr2 where
  | leaf (i : Nat)
  | add (x y : Expr2)
  | sub (x y : Expr2)
  | mul (x y : Expr2)
  | neg (x : Expr2)
  | pos (x : Expr2)
  | pow (x : Expr2) (k : Nat)
  | powArr (x : Expr2) (kshape : List Nat) (ks : List Nat)
deriving Repr

def evalModel2 [Zero R] [One R] [Add R] [Sub R] [Neg R] [Mul R] [BEq R]
    (rc rn : Bool) (env : List (Arr R)) : Expr2 → Except Err (Arr R)
  | .leaf i => match env[i]? with | some a => .ok a | none => .error .internal
  | .add x y => do let a ← evalModel2 rc rn env x; let b ← evalModel2 rc rn env y; Arr.add rc rn a b
  | .sub x y => do let a ← evalModel2 rc rn env x; let b ← evalModel2 rc rn env y; Arr.sub rc rn a b
  | .mul x y => do let a ← evalModel2 rc rn env x; let b ← evalModel2 rc rn env y; Arr.mul rc rn a b
  | .neg x => do let a ← evalModel2 rc rn env x; pure (Arr.neg rc rn a)
  | .pos x => do let a ← evalModel2 rc rn env x; pure (Arr.pos rc rn a)
  | .pow x k => do let a ← evalModel2 rc rn env x; Arr.pow rc rn a k
  | .powArr x kshape ks => do let a ← evalModel2 rc rn env x; Arr.powArr rc rn a kshape ks

/-- every old program is a new program -/
def Expr.embed : Expr → Expr2
  | .leaf i => .leaf i
  | .add x y => .add x.embed y.embed
  | .sub x y => .sub x.embed y.embed
  | .mul x y => .mul x.embed y.embed
  | .neg x => .neg x.embed
  | .pos x => .pos x.embed
  | .pow x k => .pow x.embed k
end Np

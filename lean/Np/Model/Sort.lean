/-! the model's stable sort: structural insertion sort (kernel-evaluable, Mathlib-free).
Inserting before the first element that is not smaller keeps equal elements in input order, which is the
promise of `numpy.lexsort` and of `argsort(kind="stable")`. -/
namespace Np.Sort
variable {τ : Type}

def insertBy (le : τ → τ → Bool) (x : τ) : List τ → List τ
  | [] => [x]
  | y :: ys => if le x y then x :: y :: ys else y :: insertBy le x ys

def isort (le : τ → τ → Bool) : List τ → List τ
  | [] => []
  | x :: xs => insertBy le x (isort le xs)
end Np.Sort

import Np.Model.Basic
/-! Mathlib-free model of `postprocess_attributes` + `polynomial_from_attributes` (C03) -/
namespace Np
variable {S : Type}

/-- does the list contain some element twice? (`numpy.unique(..., return_counts=True)` / `sorted(set(names))`) -/
def hasDup {α : Type} [BEq α] : List α → Bool
  | [] => false
  | x :: xs => xs.contains x || hasDup xs

/-- `polynomial_from_attributes(exponents, coefficients, names, retain_coefficients, retain_names)` on
rectangular input. `none` = `PolynomialConstructionError`. Order of the checks as in the source: counts, drop
redundant coefficients, names width / duplicates, drop redundant names, duplicate exponent rows. -/
def fromAttributes [Zero S] [BEq S] (rc rn : Bool) (names : Option (List Name)) (expos : List Expo)
    (cols : List S) : Option (Poly S) :=
  let width := (expos.headD []).length
  if cols.length != expos.length then none
  else
    let names' := names.getD (List.range width)
    if names'.length != width then none
    else if hasDup names' then none
    else
      let p : Poly S := { names := names', terms := List.zip expos cols }
      let p := clean rc rn p
      if hasDup p.expos then none else some p

/-- rebuilding a polynomial from its own attributes -/
def regenerate [Zero S] [BEq S] (rc rn : Bool) (p : Poly S) : Option (Poly S) :=
  fromAttributes rc rn (some p.names) p.expos p.cols
end Np

import Np.Generated.Tables
/-! Mathlib-free model of the `cvalues` dtype switch and the construction path of `polynomial_from_attributes` (C12) -/
namespace Np.DT

/-- regenerated from `cvalues.pyx` each run: the source dtypes `cset_values` handles
(an unrecognised switch fails closed: no dtype is assumed to be handled) -/
def csetDtypes : List DType := Generated.csetDtypes?.getD []
def caddDtypes : List DType := Generated.caddDtypes?.getD []

/-- what ends up in a field of dtype `field` -/
inductive Cell where
  | uninit                         -- nothing written: whatever the allocator left
  | garbage                        -- raw bytes of another dtype
  | val (src dst : DType)          -- numpy's cast of the source value from `src` to `dst`
deriving DecidableEq, Repr

/-- `cset_values(coeffs, name, out)`: switch on the *source* dtype, raw write at the field offset -/
def cset (src field : DType) : Cell :=
  if src ∈ csetDtypes then (if src = field then .val src field else .garbage) else .uninit

/-- shipped `polynomial_from_attributes` before the repair of D10: dtype argument or the first coefficient's;
coefficients not cast; every dtype handed to the compiled writer -/
def fromAttributesOld (src : DType) (requested : Option DType) : DType × Cell :=
  let field := requested.getD src
  (field, cset src field)

/-- as repaired: cast to the field dtype first (`numpy.require(coeff, dtype=field)`), then the compiled writer
only for the dtypes listed in `CFUNCTION_DTYPES`, numpy field assignment otherwise -/
def fromAttributesWith (guard : List DType) (src : DType) (requested : Option DType) : DType × Cell :=
  let field := requested.getD src
  if field ∈ guard then (field, match cset field field with | .val _ _ => .val src field | c => c)
  else (field, .val src field)

/-- the constructor of the working tree: with the guard when the source has one, the old path otherwise -/
def fromAttributes (src : DType) (requested : Option DType) : DType × Cell :=
  match Generated.cfunctionDtypes? with
  | some guard => fromAttributesWith guard src requested
  | none => fromAttributesOld src requested

/-- position of a dtype in `all` -/
def idx (d : DType) : Nat := all.idxOf d

/-- numpy's promotion (`numpy.result_type`) from the regenerated table -/
def promote (a b : DType) : DType := ((Generated.promotion.getD (idx a) []).getD (idx b) a)

/-- data type of `polynomial_from_attributes` when none is requested: numpy's promotion of the dtypes of *all* the
coefficients passed in. It is taken before the cleaning step (as repaired, D31), so it does not depend on whether an
all-zero coefficient is dropped. `cols`: (dtype, is the coefficient all zero?) per coefficient. -/
def inferDtype (cols : List (DType × Bool)) : Option DType :=
  match cols with
  | [] => none
  | c :: cs => some (cs.foldl (fun d x => promote d x.1) c.1)

/-- the same with numpy's own n-ary promotion (`promoteAll`, below): what `numpy.result_type(*dtypes)` in
`polynomial_from_attributes` computes for any number of coefficient types -/
def inferDtypeN (promoteAll : List DType → Option DType) (cols : List (DType × Bool)) : Option DType :=
  promoteAll (cols.map (·.1))

/-! ### numpy's promotion of several types at once (`numpy.result_type(t0, t1, .., tk)`, `PyArray_PromoteDTypeSequence`)

It is NOT a left fold of the pairwise table: numpy first finds the type that "knows" the others (a builtin type knows the
builtin types with a smaller type number), promotes every other type with that main type pairwise, and reduces those
results. `result_type(int8, uint16, complex64)` is complex64 (the fold gives complex128). -/

/-- numpy's type numbers (`NPY_BOOL` .. `NPY_CDOUBLE`, `NPY_HALF` = 23) -/
def typeNum : DType → Nat
  | .bool => 0 | .i8 => 1 | .u8 => 2 | .i16 => 3 | .u16 => 4 | .i32 => 5 | .u32 => 6 | .i64 => 7 | .u64 => 8
  | .f32 => 11 | .f64 => 12 | .c64 => 14 | .c128 => 15 | .f16 => 23

/-- `cls.__common_dtype__(other)` of the builtin types: `none` (NotImplemented) when `other` has the larger type number -/
def commonDT (cls other : DType) : Option DType :=
  if typeNum other > typeNum cls then none else some (promote cls other)

/-- `PyArray_CommonDType`: ask one side, then the other -/
def common2 (a b : DType) : DType := (commonDT a b).getD ((commonDT b a).getD a)

/-- one pass of `reduce_dtypes_to_most_knowledgeable` over the pairs `(low, length-1-low)`, `low < half`: swap when the
high one knows more, clear (`none`) the high one when it cannot influence the result; returns the slots and the last
`common_dtype` answer (`none` = NotImplemented) -/
def reducePass (d : List (Option DType)) (length : Nat) : Nat → List (Option DType) × Option DType → List (Option DType) × Option DType
  | 0, acc => acc
  | low + 1, acc =>
    let acc := reducePass d length low acc
    let ds := acc.1
    let high := length - 1 - low
    match ds.getD low none, ds.getD high none with
    | some l, some h =>
      let res := if h = l then some l else commonDT l h
      match res with
      | none => ((ds.set low (some h)).set high (some l), none)
      | some r => (if r = l then ds.set high none else ds, some r)
    | _, _ => (ds, acc.2)

/-- `reduce_dtypes_to_most_knowledgeable`: halve until two are left (fuel = the length) -/
def reduceMost : Nat → Nat → List (Option DType) → List (Option DType) × Option DType
  | 0, _, d => (d, none)
  | fuel + 1, length, d =>
    let r := reducePass d length (length / 2) (d, none)
    if length ≤ 2 then r else reduceMost fuel (length - length / 2) r.1

/-- `numpy.result_type` of a non-empty list of builtin numeric types -/
def promoteAll : List DType → Option DType
  | [] => none
  | [a] => some a
  | ds =>
    let r := reduceMost ds.length ds.length (ds.map some)
    match r.1.getD 0 none with
    | none => none
    | some main =>
      let rest := (r.1.drop 1).filterMap id |>.filter (· ≠ main)
      let start : Option DType := r.2
      some ((rest.foldl (fun (acc : Option DType) x =>
        match commonDT main x with
        | none => acc            -- cannot happen: the main type knows every other one
        | some p => match acc with
          | none => some p
          | some a => some (common2 a p)) start).getD main)

/-- the shipped order: inferred *after* `remove_redundant_coefficients`, i.e. from the surviving coefficients only
(all of them when `retain_coefficients` is on; the first one when nothing survives) -/
def inferDtypeOld (rc : Bool) (cols : List (DType × Bool)) : Option DType :=
  if rc then inferDtype cols
  else
    let kept := cols.filter fun c => !c.2
    if kept.isEmpty then inferDtype (cols.take 1) else inferDtype kept

/-- the product term written by `multiply` (as repaired): both factors are cast to the promoted dtype; the compiled
kernel is used only for guarded dtypes, else numpy arithmetic; either way the cell holds a value of that dtype -/
def multiplyCell (guard : List DType) (a b : DType) : DType × Cell :=
  let d := promote a b
  if d ∈ guard then (d, match cset d d with | .val _ _ => .val d d | c => c) else (d, .val d d)
end Np.DT

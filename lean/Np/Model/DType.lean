import Np.Generated.Tables
/-! Mathlib-free model of the `cvalues` dtype switch and the construction path of `polynomial_from_attributes` (C12) -/
namespace Np.DT

/-- regenerated from `cvalues.pyx` each run: the source dtypes `cset_values` handles
(an unrecognised switch fails closed: no dtype is assumed to be handled) -/
def csetDtypes : List DType := Generated.csetDtypes?.getD []
def caddDtypes : List DType := Generated.caddDtypes?.getD []

/-- what ends up in a field of dtype `field` -/
inductive Cell where
  | uninit                         -- nothing written: whatever the allocator left
  | garbage                        -- raw bytes of another dtype
  | val (src dst : DType)          -- numpy's cast of the source value from `src` to `dst`
deriving DecidableEq, Repr

/-- `cset_values(coeffs, name, out)`: switch on the *source* dtype, raw write at the field offset -/
def cset (src field : DType) : Cell :=
  if src ∈ csetDtypes then (if src = field then .val src field else .garbage) else .uninit

/-- shipped `polynomial_from_attributes` before the repair of D10: dtype argument or the first coefficient's;
coefficients not cast; every dtype handed to the compiled writer -/
def fromAttributesOld (src : DType) (requested : Option DType) : DType × Cell :=
  let field := requested.getD src
  (field, cset src field)

/-- as repaired: cast to the field dtype first (`numpy.require(coeff, dtype=field)`), then the compiled writer
only for the dtypes listed in `CFUNCTION_DTYPES`, numpy field assignment otherwise -/
def fromAttributesWith (guard : List DType) (src : DType) (requested : Option DType) : DType × Cell :=
  let field := requested.getD src
  if field ∈ guard then (field, match cset field field with | .val _ _ => .val src field | c => c)
  else (field, .val src field)

/-- the constructor of the working tree: with the guard when the source has one, the old path otherwise -/
def fromAttributes (src : DType) (requested : Option DType) : DType × Cell :=
  match Generated.cfunctionDtypes? with
  | some guard => fromAttributesWith guard src requested
  | none => fromAttributesOld src requested

/-- position of a dtype in `all` -/
def idx (d : DType) : Nat := all.idxOf d

/-- numpy's promotion (`numpy.result_type`) from the regenerated table -/
def promote (a b : DType) : DType := ((Generated.promotion.getD (idx a) []).getD (idx b) a)

/-- data type of `polynomial_from_attributes` when none is requested: numpy's promotion of the dtypes of *all* the
coefficients passed in. It is taken before the cleaning step (as repaired, D31), so it does not depend on whether an
all-zero coefficient is dropped. `cols`: (dtype, is the coefficient all zero?) per coefficient. -/
def inferDtype (cols : List (DType × Bool)) : Option DType :=
  match cols with
  | [] => none
  | c :: cs => some (cs.foldl (fun d x => promote d x.1) c.1)

/-- the shipped order: inferred *after* `remove_redundant_coefficients`, i.e. from the surviving coefficients only
(all of them when `retain_coefficients` is on; the first one when nothing survives) -/
def inferDtypeOld (rc : Bool) (cols : List (DType × Bool)) : Option DType :=
  if rc then inferDtype cols
  else
    let kept := cols.filter fun c => !c.2
    if kept.isEmpty then inferDtype (cols.take 1) else inferDtype kept

/-- the product term written by `multiply` (as repaired): both factors are cast to the promoted dtype; the compiled
kernel is used only for guarded dtypes, else numpy arithmetic; either way the cell holds a value of that dtype -/
def multiplyCell (guard : List DType) (a b : DType) : DType × Cell :=
  let d := promote a b
  if d ∈ guard then (d, match cset d d with | .val _ _ => .val d d | c => c) else (d, .val d d)
end Np.DT

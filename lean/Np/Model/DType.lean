import Np.Generated.Tables
/-! Mathlib-free model of the `cvalues` dtype switch and the construction path of `polynomial_from_attributes` (C12) -/
namespace Np.DT

/-- regenerated from `cvalues.pyx` each run: the source dtypes `cset_values` handles
(an unrecognised switch fails closed: no dtype is assumed to be handled) -/
def csetDtypes : List DType := Generated.csetDtypes?.getD []

/-- what ends up in a field of dtype `field` -/
inductive Cell where
  | uninit                         -- nothing written: whatever the allocator left
  | garbage                        -- raw bytes of another dtype
  | val (src dst : DType)          -- numpy's cast of the source value from `src` to `dst`
deriving DecidableEq, Repr

/-- `cset_values(coeffs, name, out)`: switch on the *source* dtype, raw write at the field offset -/
def cset (src field : DType) : Cell :=
  if src ∈ csetDtypes then (if src = field then .val src field else .garbage) else .uninit

/-- shipped `polynomial_from_attributes`: dtype argument or the first coefficient's; coefficients not cast -/
def fromAttributesOld (src : DType) (requested : Option DType) : DType × Cell :=
  let field := requested.getD src
  (field, cset src field)

/-- repaired: cast to the field dtype first; C helper only for the dtypes it knows, numpy assignment otherwise -/
def fromAttributes (src : DType) (requested : Option DType) : DType × Cell :=
  let field := requested.getD src
  -- after `numpy.require(coeff, dtype=field)` the source of the raw write has dtype `field`
  if field ∈ csetDtypes then (field, match cset field field with | .val _ _ => .val src field | c => c)
  else (field, .val src field)
end Np.DT

import Np.Proofs.Walk
import Np.Proofs.Index
import Np.Model.Compare
import Np.Proofs.Compare
import Np.Proofs.CompareArr
/-! C07 — comparison operators form one strict total order: property theorems -/
namespace Np.Props.C07
open Np.Ord

section laws
variable {α R : Type} [LinearOrder α] [LinearOrder R]

/-- the documented order on coefficient functions: a larger coefficient at the largest monomial where they differ -/
abbrev Greater (f g : α → R) : Prop := Ord.Gt f g

theorem irreflexive (f : α → R) : ¬ Greater f f := gt_irrefl f
theorem asymmetric (f g : α → R) (h1 : Greater f g) (h2 : Greater g f) : False := gt_asymm f g h1 h2
theorem transitive (f g h : α → R) (h1 : Greater f g) (h2 : Greater g h) : Greater f h := gt_trans f g h h1 h2
/-- exactly one of `a < b`, `a == b`, `a > b` (polynomials differ at finitely many monomials) -/
theorem trichotomy (f g : α → R) (hfin : {m | f m ≠ g m}.Finite) : Greater g f ∨ f = g ∨ Greater f g :=
  gt_trichotomy f g hfin
theorem exclusive (f g : α → R) :
    ¬ (Greater f g ∧ f = g) ∧ ¬ (Greater g f ∧ f = g) ∧ ¬ (Greater f g ∧ Greater g f) := gt_exclusive f g

/-- the overwrite walk returns the verdict at the *last* position where the operands differ -/
theorem walk_last {τ β : Type} (init : β) (P : τ → Bool) (v : τ → β) (xs : List τ) :
    walk init P v xs = match (xs.reverse.find? P) with | some x => v x | none => init := Ord.walk_last init P v xs

/-- `greater`'s walk over rows in ascending monomial order, started from the comparison at storage row 0, decides
exactly the documented order — absent terms counting as zero (`hout`) -/
theorem greater_spec (rows : List (Row α R)) (hs : rows.Pairwise (fun s t => s.1 < t.1))
    (f g : α → R) (hrow : ∀ t ∈ rows, f t.1 = t.2.1 ∧ g t.1 = t.2.2)
    (hout : ∀ m, m ∉ rows.map (·.1) → f m = g m) (r0 : Row α R) (h0 : r0 ∈ rows) :
    greaterWalk (decide (r0.2.2 < r0.2.1)) rows = true ↔ Greater f g :=
  greaterWalk_spec rows hs f g hrow hout r0 h0
end laws

section model
variable {R : Type} [BEq R]

/-- the executable walk of the model (indices into aligned columns) is the abstract walk over the rows it visits -/
theorem cmpWalk_eq_walk (order : List Nat) (init : Bool) (rel : R → R → Bool) (z : R) (c1 c2 : List R) :
    cmpWalk order init rel z c1 c2 =
      walk init (fun t : R × R => t.1 != t.2) (fun t => rel t.1 t.2) (order.map fun idx => (c1.getD idx z, c2.getD idx z)) := by
  unfold cmpWalk walk
  rw [List.foldl_map]

/-- the rows are visited in ascending (graded)(reverse) lexicographic order of their exponents -/
theorem walk_order_sorted (graded reverse : Bool) (expos : List (List Nat)) :
    (Index.glexsort graded reverse expos).Pairwise
      (fun i j => Index.glexLe graded reverse (expos.getD i []) (expos.getD j []) = true) :=
  Index.glexsort_sorted graded reverse expos
end model

section executable
open Np.Index
variable {K : Type} [LinearOrder K] [BEq K] [LawfulBEq K] {graded reverse : Bool} {expos : List (List Nat)} {z : K}

/-- the selected monomial order is a strict total order on exponent rows (every `sort_graded`/`sort_reverse`) -/
theorem monomial_order_strict_total (a b c : List Nat) :
    glexLt graded reverse a a = false ∧
    (glexLt graded reverse a b = true → glexLt graded reverse b c = true → glexLt graded reverse a c = true) ∧
    (a ≠ b → glexLt graded reverse a b = true ∨ glexLt graded reverse b a = true) :=
  ⟨glexLt_irrefl graded reverse a, glexLt_trans graded reverse a b c, glexLt_total graded reverse a b⟩

/-- the executable walk of `greater` (rows visited in `glexsort` order, initial verdict from storage row 0) is true
exactly when, at the largest monomial where the two aligned operands differ, the first has the larger coefficient -/
theorem greater_decides (hnd : expos.Nodup) (h0 : 0 < expos.length) (c1 c2 : List K) :
    cmpWalk (glexsort graded reverse expos) (decide (c2.getD 0 z < c1.getD 0 z)) (fun x y => decide (y < x)) z c1 c2 = true ↔
      ∃ i < expos.length, c2.getD i z < c1.getD i z ∧
        ∀ j < expos.length, glexLt graded reverse (expos.getD i []) (expos.getD j []) = true →
          c1.getD j z = c2.getD j z := greater_walk_decides graded reverse expos z hnd h0 c1 c2

/-- all four order operators as `compareArr` runs them decide their specification (`<` mirrored, `<=`/`>=` the
complements) -/
theorem compare_decides (hnd : expos.Nodup) (h0 : 0 < expos.length) (op : CmpOp) (c1 c2 : List K) :
    cmpWalk (glexsort graded reverse expos) (op.rel (fun x y => decide (x < y)) (c1.getD 0 z) (c2.getD 0 z))
        (op.rel (fun x y => decide (x < y))) z c1 c2 = true ↔ CmpSpec graded reverse expos z op c1 c2 :=
  compare_walk_decides graded reverse expos z hnd h0 op c1 c2

/-- exactly one of `a < b`, `a == b`, `a > b` on aligned columns -/
theorem columns_trichotomy (hnd : expos.Nodup) (c1 c2 : List K) :
    ColGt graded reverse expos z c2 c1 ∨ (∀ j < expos.length, c1.getD j z = c2.getD j z) ∨
      ColGt graded reverse expos z c1 c2 := colGt_trichotomy graded reverse expos z hnd c1 c2
theorem columns_asymm (hnd : expos.Nodup) (c1 c2 : List K) (h1 : ColGt graded reverse expos z c1 c2)
    (h2 : ColGt graded reverse expos z c2 c1) : False := colGt_asymm graded reverse expos z hnd c1 c2 h1 h2
end executable

/-! ### on arrays, element by element, in terms of the polynomials denoted (Np/Proofs/CompareArr.lean) -/
section arrays
open MvPolynomial Np.Index
variable {R : Type} [CommSemiring R] [BEq R] [LawfulBEq R] {n : Nat}

/-- `==` on arrays decides equality of the denoted elements; `!=` is its negation -/
theorem equal_decides_equality (a b : Poly (Vec R n)) (ha : WF a) (hb : WF b) (i : Fin n) :
    ((equalArr a b).get i = true ↔ denAt a i = denAt b i) ∧
    ((notEqualArr a b).get i = true ↔ denAt a i ≠ denAt b i) :=
  ⟨equalArr_spec a b ha hb i, notEqualArr_spec a b ha hb i⟩

/-- **one strict total order on every element**: for a linearly ordered coefficient type, at each position exactly one
of `a > b`, `a == b`, `a < b` holds; `>=` is `not <`, `<=` is `not >` — whatever the operands' names, terms, and the
sort options -/
theorem array_trichotomy [LinearOrder R] (graded reverse : Bool) (a b : Poly (Vec R n)) (i : Fin n) :
    let G := (compareArr (fun x y => decide (x < y)) .gt graded reverse a b).get i
    let E := (equalArr a b).get i
    let L := (compareArr (fun x y => decide (x < y)) .lt graded reverse a b).get i
    (G = true ∨ E = true ∨ L = true) ∧ ¬ (G = true ∧ E = true) ∧ ¬ (G = true ∧ L = true) ∧
      ¬ (E = true ∧ L = true) :=
  compareArr_trichotomy graded reverse a b i
theorem array_ge_is_not_lt [LinearOrder R] (graded reverse : Bool) (a b : Poly (Vec R n)) (i : Fin n) :
    (compareArr (fun x y => decide (x < y)) .ge graded reverse a b).get i = true ↔
      ¬ (compareArr (fun x y => decide (x < y)) .lt graded reverse a b).get i = true :=
  compareArr_ge_iff graded reverse a b i
theorem array_le_is_not_gt [LinearOrder R] (graded reverse : Bool) (a b : Poly (Vec R n)) (i : Fin n) :
    (compareArr (fun x y => decide (x < y)) .le graded reverse a b).get i = true ↔
      ¬ (compareArr (fun x y => decide (x < y)) .gt graded reverse a b).get i = true :=
  compareArr_le_iff graded reverse a b i

/-- **`>` reads the documented order off the denoted polynomials**: `a > b` at position `i` iff at the largest
monomial (in the selected order) where the two elements' coefficients differ, `a`'s coefficient is the larger -/
theorem array_greater_is_documented_order [LinearOrder R] (graded reverse : Bool) (a b : Poly (Vec R n))
    (ha : WF a) (hb : WF b) (i : Fin n) :
    (compareArr (fun x y => decide (x < y)) .gt graded reverse a b).get i = true ↔
      ∃ e ∈ (alignPair a b).1.expos,
        coeff (fsN (commonNames a b) e) (denAt b i) < coeff (fsN (commonNames a b) e) (denAt a i) ∧
        ∀ e' ∈ (alignPair a b).1.expos, glexLt graded reverse e e' = true →
          coeff (fsN (commonNames a b) e') (denAt a i) = coeff (fsN (commonNames a b) e') (denAt b i) :=
  compareArr_gt_coeff graded reverse a b ha hb i

/-- `where`, `maximum`, `minimum` place whole elements: the chosen operand's element, nothing mixed -/
theorem where_selects (rc rn : Bool) (mask : Vec Bool n) (a b : Poly (Vec R n)) (ha : WF a) (hb : WF b) (i : Fin n) :
    denAt (selectArr rc rn mask a b) i = if mask.get i then denAt a i else denAt b i :=
  selectArr_elem rc rn mask a b ha hb i
theorem maximum_is_greater_operand (lt : R → R → Bool) (hirr : ∀ x, lt x x = false) (rc rn graded reverse : Bool)
    (a b : Poly (Vec R n)) (ha : WF a) (hb : WF b) (i : Fin n) :
    denAt (maximumArr lt rc rn graded reverse a b) i =
      if (compareArr lt .gt graded reverse a b).get i then denAt a i else denAt b i :=
  maximumArr_elem lt hirr rc rn graded reverse a b ha hb i
theorem minimum_is_lesser_operand (lt : R → R → Bool) (hirr : ∀ x, lt x x = false) (rc rn graded reverse : Bool)
    (a b : Poly (Vec R n)) (ha : WF a) (hb : WF b) (i : Fin n) :
    denAt (minimumArr lt rc rn graded reverse a b) i =
      if (compareArr lt .lt graded reverse a b).get i then denAt a i else denAt b i :=
  minimumArr_elem lt hirr rc rn graded reverse a b ha hb i
end arrays

/-- non-vacuity: `-q0**2 > 4*q0` is false and `q0**2+3 > 4*q0` is true (rows: monomial rank, a, b) -/
example : greaterWalk (decide ((0:Int) < 0)) [((0:Nat), (0:Int), (0:Int)), (1, 0, 4), (2, -1, 0)] = false ∧
    greaterWalk (decide ((0:Int) < 3)) [((0:Nat), (3:Int), (0:Int)), (1, 0, 4), (2, 1, 0)] = true := by decide
end Np.Props.C07

import Np.Proofs.Den
import Np.Proofs.Index
import Np.Model.Print
import Np.Proofs.PrintText
/-! C16 — str/repr denote exactly the polynomial: token-level theorems for every coefficient type, and the text-level round trip
for integer coefficients under the default display strings (other coefficient texts: `_partial`, established by the
correspondence run with an independent reader) -/
namespace Np.Props.C16
open MvPolynomial Np.Print
variable {S : Type} [CommSemiring S] [BEq S] [LawfulBEq S]

theorem denT_perm (ns : List Name) (a b : List (Expo × S)) (h : a.Perm b) : denT ns a = denT ns b := by
  unfold denT
  exact (h.map _).sum_eq

theorem denT_filter_nonzero (ns : List Name) (ts : List (Expo × S)) :
    denT ns (ts.filter fun t => !(t.2 == 0)) = denT ns ts := by
  induction ts with
  | nil => rfl
  | cons t ts ih =>
    by_cases h : t.2 = 0
    · simp [List.filter_cons, h, ih]
    · have : (t.2 == 0) = false := by simpa using h
      simp [List.filter_cons, this, ih]

/-- what is printed, in whatever order the display options select, is the polynomial: the printed terms are a
permutation of the stored terms without the zero ones -/
theorem printed_terms_den (ns : List Name) (graded reverse inverse : Bool) (ts : List (Expo × S)) :
    denT ns (printOrder graded reverse inverse ts) = denT ns ts := by
  unfold printOrder
  rw [denT_filter_nonzero]
  apply denT_perm
  have hp := Index.glexsort_perm graded reverse (ts.map (·.1))
  rw [List.length_map] at hp
  have hp' : (if inverse then (Index.glexsort graded reverse (ts.map (·.1))).reverse
      else Index.glexsort graded reverse (ts.map (·.1))).Perm (List.range ts.length) := by
    split
    · exact (List.reverse_perm _).trans hp
    · exact hp
  exact Index.perm_of_index_perm ts ([], 0) _ hp'

/-- the value of a token list: every token stands for `coef · x^expo`, whether or not the coefficient text is elided -/
noncomputable def evalTokens [One S] [Neg S] (ns : List Name) (toks : List (Tok S)) : MvPolynomial Name S :=
  (toks.map fun t => monomial (fsN ns t.expo) t.coef).sum

/-- reading the printed tokens back as arithmetic gives the polynomial, for every display setting -/
theorem tokens_den {K : Type} [CommRing K] [BEq K] [LawfulBEq K] (ns : List Name) (graded reverse inverse : Bool)
    (ts : List (Expo × K)) : evalTokens ns (printTokens graded reverse inverse ts) = denT ns ts := by
  rw [← printed_terms_den ns graded reverse inverse ts]
  simp [evalTokens, printTokens, denT, List.map_map, Function.comp_def]

/-- the elision of `1`/`-1` is faithful: it happens only where the elided text would be `1` or `-1` in front of a
non-constant monomial -/
theorem elision_faithful {K : Type} [CommRing K] [BEq K] [LawfulBEq K] (graded reverse inverse : Bool)
    (ts : List (Expo × K)) :
    ∀ t ∈ printTokens graded reverse inverse ts,
      (t.coefShown = false → (t.coef = 1 ∨ t.coef = -1) ∧ t.expo.any (· != 0) = true) ∧
      (t.bareMinus = true → t.coef = -1) := by
  intro t ht
  simp only [printTokens, List.mem_map] at ht
  obtain ⟨u, _, rfl⟩ := ht
  simp only [Bool.not_eq_false', Bool.and_eq_true, Bool.or_eq_true, beq_iff_eq]
  exact ⟨fun h => ⟨h.2, h.1⟩, fun h => h.2⟩

/-- `display_graded`, `display_reverse`, `display_inverse` only permute the printed terms, following the selected
monomial order (ascending, descending when `display_inverse`) -/
theorem printed_order (graded reverse : Bool) (ts : List (Expo × S)) :
    (Index.glexsort graded reverse (ts.map (·.1))).Pairwise
      (fun i j => Index.glexLe graded reverse ((ts.map (·.1)).getD i []) ((ts.map (·.1)).getD j []) = true) :=
  Index.glexsort_sorted graded reverse _

/-! ### text level, default display strings (Np/Model/PrintText.lean, Np/Proofs/PrintText.lean): any coefficient type whose
texts are safe tokens (`Codec.Lawful`), integers in particular -/
section text
open Np.PrintText

/-- **the reader is exact on every well-formed token list, for every lawful coefficient codec**: if the codec's reader
reads back what its printer writes and every coefficient text is an optional `-` followed by a non-empty text free of `+`,
`-`, `*` that does not start with `q` (integers; floats in positional notation such as `0.5`, `-2.25`; not `1e+20`, not
`(1+2j)`), then an honest reader of the text (`readStr`: split at signs, then at `*`, regroup `**`, look the names up)
returns exactly the printed terms -/
theorem text_reads_tokens_codec {C : Type} (K : Codec C) (hK : K.Lawful) (names : List Nat) (hn : names.Nodup)
    (toks : List (Tok C)) (hne : toks ≠ []) (h : ∀ t ∈ toks, TokWF K names t) :
    readStr K names (renderStr K names toks) = some (toks.map fun t => (t.coef, t.expo)) :=
  readStr_renderStr K hK names hn toks hne h

/-- `str()` of Python / numpy integers is such a codec -/
theorem int_codec_lawful : intCodec.Lawful := intCodec_lawful

/-- **the printed text reads back as exactly the polynomial**: for integer coefficients, names `q<i>`, `*` and `**`,
and every setting of the three display-order flags, the reader applied to the text `renderStr` prints for the terms `ts`
returns the non-zero terms in printing order — and those denote the same polynomial as `ts` -/
theorem text_roundtrip (names : List Nat) (hn : names.Nodup) (g r i : Bool) (ts : List (Expo × Int))
    (hl : ∀ t ∈ ts, t.1.length = names.length) (hne : printOrder g r i ts ≠ []) :
    ∃ l, readStr intCodec names (renderStr intCodec names (printTokens g r i ts)) = some l ∧
      denT names (l.map fun t => (t.2, t.1)) = denT names ts := by
  refine ⟨_, readStr_print names hn g r i ts hl hne, ?_⟩
  rw [List.map_map]
  have : ((fun t : Int × Expo => (t.2, t.1)) ∘ fun t : Expo × Int => (t.2, t.1)) = id := by
    funext t; rfl
  rw [this, List.map_id]
  exact printed_terms_den names g r i ts

/-- the zero polynomial prints `0`, which reads back as the single constant term 0 -/
theorem text_roundtrip_zero (names : List Nat) :
    readStr intCodec names (renderStr intCodec names []) = some [((0 : Int), names.map fun _ => 0)] :=
  readStr_renderStr_nil names

/-- the reader is exact on any well-formed token list of integers (not only the printer's) -/
theorem text_reads_tokens (names : List Nat) (hn : names.Nodup) (toks : List (Tok Int)) (hne : toks ≠ [])
    (h : ∀ t ∈ toks, TokWF intCodec names t) :
    readStr intCodec names (renderStr intCodec names toks) = some (toks.map fun t => (t.coef, t.expo)) :=
  readStr_renderStr intCodec intCodec_lawful names hn toks hne h
end text

/-- non-vacuity: 2*q1 - q0 - 3 under the default display flags (graded, not reverse, inverse) -/
example : (printTokens true false true [([0, 0], (-3 : Int)), ([1, 0], -1), ([0, 1], 2)]).map
    (fun t => (t.coef, t.expo, t.coefShown, t.bareMinus))
    = [(2, [0, 1], true, false), (-1, [1, 0], false, true), (-3, [0, 0], true, false)] := by decide
end Np.Props.C16

import Np.Proofs.Den
import Np.Proofs.Index
import Np.Model.Print
/-! C16 — str/repr denote exactly the polynomial: token-level theorems (`_partial`: that the rendered *text* parses
back is established by the correspondence run with an independent reader) -/
namespace Np.Props.C16
open MvPolynomial Np.Print
variable {S : Type} [CommSemiring S] [BEq S] [LawfulBEq S]

theorem denT_perm (ns : List Name) (a b : List (Expo × S)) (h : a.Perm b) : denT ns a = denT ns b := by
  unfold denT
  exact (h.map _).sum_eq

theorem denT_filter_nonzero (ns : List Name) (ts : List (Expo × S)) :
    denT ns (ts.filter fun t => !(t.2 == 0)) = denT ns ts := by
  induction ts with
  | nil => rfl
  | cons t ts ih =>
    by_cases h : t.2 = 0
    · simp [List.filter_cons, h, ih]
    · have : (t.2 == 0) = false := by simpa using h
      simp [List.filter_cons, this, ih]

/-- what is printed, in whatever order the display options select, is the polynomial: the printed terms are a
permutation of the stored terms without the zero ones -/
theorem printed_terms_den (ns : List Name) (graded reverse inverse : Bool) (ts : List (Expo × S)) :
    denT ns (printOrder graded reverse inverse ts) = denT ns ts := by
  unfold printOrder
  rw [denT_filter_nonzero]
  apply denT_perm
  have hp := Index.glexsort_perm graded reverse (ts.map (·.1))
  rw [List.length_map] at hp
  have hp' : (if inverse then (Index.glexsort graded reverse (ts.map (·.1))).reverse
      else Index.glexsort graded reverse (ts.map (·.1))).Perm (List.range ts.length) := by
    split
    · exact (List.reverse_perm _).trans hp
    · exact hp
  exact Index.perm_of_index_perm ts ([], 0) _ hp'

/-- the value of a token list: every token stands for `coef · x^expo`, whether or not the coefficient text is elided -/
noncomputable def evalTokens [One S] [Neg S] (ns : List Name) (toks : List (Tok S)) : MvPolynomial Name S :=
  (toks.map fun t => monomial (fsN ns t.expo) t.coef).sum

/-- reading the printed tokens back as arithmetic gives the polynomial, for every display setting -/
theorem tokens_den {K : Type} [CommRing K] [BEq K] [LawfulBEq K] (ns : List Name) (graded reverse inverse : Bool)
    (ts : List (Expo × K)) : evalTokens ns (printTokens graded reverse inverse ts) = denT ns ts := by
  rw [← printed_terms_den ns graded reverse inverse ts]
  simp [evalTokens, printTokens, denT, List.map_map, Function.comp_def]

/-- the elision of `1`/`-1` is faithful: it happens only where the elided text would be `1` or `-1` in front of a
non-constant monomial -/
theorem elision_faithful {K : Type} [CommRing K] [BEq K] [LawfulBEq K] (graded reverse inverse : Bool)
    (ts : List (Expo × K)) :
    ∀ t ∈ printTokens graded reverse inverse ts,
      (t.coefShown = false → (t.coef = 1 ∨ t.coef = -1) ∧ t.expo.any (· != 0) = true) ∧
      (t.bareMinus = true → t.coef = -1) := by
  intro t ht
  simp only [printTokens, List.mem_map] at ht
  obtain ⟨u, _, rfl⟩ := ht
  simp only [Bool.not_eq_false', Bool.and_eq_true, Bool.or_eq_true, beq_iff_eq]
  exact ⟨fun h => ⟨h.2, h.1⟩, fun h => h.2⟩

/-- `display_graded`, `display_reverse`, `display_inverse` only permute the printed terms, following the selected
monomial order (ascending, descending when `display_inverse`) -/
theorem printed_order (graded reverse : Bool) (ts : List (Expo × S)) :
    (Index.glexsort graded reverse (ts.map (·.1))).Pairwise
      (fun i j => Index.glexLe graded reverse ((ts.map (·.1)).getD i []) ((ts.map (·.1)).getD j []) = true) :=
  Index.glexsort_sorted graded reverse _

/-- non-vacuity: 2*q1 - q0 - 3 under the default display flags (graded, not reverse, inverse) -/
example : (printTokens true false true [([0, 0], (-3 : Int)), ([1, 0], -1), ([0, 1], 2)]).map
    (fun t => (t.coef, t.expo, t.coefShown, t.bareMinus))
    = [(2, [0, 1], true, false), (-1, [1, 0], false, true), (-3, [0, 0], true, false)] := by decide
end Np.Props.C16

import Np.Proofs.MapCoef
import Np.Model.Align
import Np.Proofs.GradArr
/-! C04 — alignment changes representation only: property theorems -/
namespace Np.Props.C04
open MvPolynomial
variable {S : Type} [CommSemiring S]

/-- `align_indeterminants` for one operand: the polynomial denoted is unchanged when no occurring name is lost -/
theorem alignIndet_den (common : List Name) (p : Poly S) (hw : WF p) (hc : common.Nodup)
    (hsub : ∀ n ∈ p.names, n ∈ common) : den (alignIndet common p) = den p :=
  den_alignIndet common p hw.names_nodup hc
    (fun t _ n hn => expoAt_not_mem p.names t.1 n (fun h => hn (hsub n h)))

/-- … the result carries exactly the common ordered name tuple and is again well-formed -/
theorem alignIndet_names (common : List Name) (p : Poly S) : (alignIndet common p).names = common := rfl
theorem alignIndet_WF (common : List Name) (p : Poly S) (hw : WF p) (hc : common.Nodup)
    (hsub : ∀ n ∈ p.names, n ∈ common) : WF (alignIndet common p) := WF_alignIndet common p hw hc hsub

/-- the common names of any number of operands: duplicate-free, sorted by index, exactly the union -/
theorem commonNamesAll_spec (ps : List (Poly S)) :
    (commonNamesAll ps).Nodup ∧ (commonNamesAll ps).Pairwise (· < ·) ∧
      ∀ n, n ∈ commonNamesAll ps ↔ ∃ p ∈ ps, n ∈ p.names := by
  refine ⟨nodup_of_sortedLt natLt_strictTotal _ (sortedLt_sortDedup natLt_strictTotal _), ?_, ?_⟩
  · have := sortedLt_sortDedup natLt_strictTotal (ps.flatMap (·.names))
    exact this.imp (fun h => by simpa [natLt] using h)
  · intro n
    unfold commonNamesAll
    rw [mem_sortDedup natLt_strictTotal]
    simp [List.mem_flatMap]

/-- `align_exponents` for one operand: same polynomial, and the rows are exactly the requested common rows
(hence every operand ends up with the same rows and — keys being a function of the row — the same keys) -/
theorem alignExpo_den (es : List Expo) (p : Poly S) (hw : WF p) (hes : es.Nodup)
    (hsub : ∀ e ∈ p.expos, e ∈ es) : den (alignExpo es p) = den p := den_alignExpo es p hw.expos_nodup hes hsub
theorem alignExpo_rows (es : List Expo) (p : Poly S) : (alignExpo es p).expos = es := expos_alignExpo es p

/-- aligning already aligned rows changes nothing (idempotence at representation level) -/
theorem alignExpo_idem (es : List Expo) (p : Poly S) (hes : es.Nodup) :
    alignExpo es (alignExpo es p) = alignExpo es p := by
  unfold alignExpo
  congr 1
  apply List.map_congr_left
  intro e he
  congr 1
  induction es with
  | nil => simp at he
  | cons x xs ih =>
    simp only [List.nodup_cons] at hes
    simp only [List.map_cons]
    rcases List.mem_cons.1 he with rfl | he'
    · simp [lookup]
    · have hne : ¬ x = e := fun h => hes.1 (h ▸ he')
      have : (x == e) = false := by simpa using hne
      simp only [lookup, List.find?_cons, this]
      have := ih hes.2 he'
      simpa [lookup] using this

/-- `align_shape`: element `i` of the broadcast operand is element `σ i` of the input, for every index map -/
theorem bcast_denAt {R : Type} [CommSemiring R] {n m : Nat} (σ : Fin n → Fin m) (p : Poly (Vec R m)) (i : Fin n) :
    denAt (mapCoef (Vec.gatherHom σ) p) i = denAt p (σ i) := gather_denAt σ p i

/-! ### aligning any number of operands at once (`alignAll`: what concatenate/stack/gradient use) -/
section many
variable {S : Type} [CommSemiring S] [BEq S] [LawfulBEq S]

/-- all outputs share the index-ordered union of the names and one list of exponent rows (same order), are
well-formed, are as many as the inputs, and output `b` denotes input `b` -/
theorem alignAll_common (ps : List (Poly S)) (hw : ∀ p ∈ ps, WF p) :
    (alignAll ps).length = ps.length ∧
    (∀ q ∈ alignAll ps, q.names = commonNamesAll ps ∧ q.expos = commonExposAll ps ∧ WF q) ∧
    ∀ (b : Nat) (hb : b < ps.length),
      den ((alignAll ps)[b]'(by rw [alignAll_length]; exact hb)) = den ps[b] :=
  ⟨alignAll_length ps, fun q hq => ⟨alignAll_names ps q hq, alignAll_expos ps q hq, alignAll_WF ps hw q hq⟩,
    fun b hb => den_alignAll ps hw b hb⟩
end many

/-- non-vacuity: q0·q2² over (q0,q2) aligned to (q0,q1,q2) -/
example : (alignIndet [0, 1, 2] ({ names := [0, 2], terms := [([1, 2], (5 : Int))] } : Poly Int)).terms = [([1, 0, 2], 5)] := by
  decide
end Np.Props.C04

import Np.Proofs.MapCoef
import Np.Model.Align
import Np.Proofs.GradArr
import Np.Proofs.AlignAll
/-! C04 — alignment changes representation only: property theorems -/
namespace Np.Props.C04
open MvPolynomial
variable {S : Type} [CommSemiring S]

/-- `align_indeterminants` for one operand: the polynomial denoted is unchanged when no occurring name is lost -/
theorem alignIndet_den (common : List Name) (p : Poly S) (hw : WF p) (hc : common.Nodup)
    (hsub : ∀ n ∈ p.names, n ∈ common) : den (alignIndet common p) = den p :=
  den_alignIndet common p hw.names_nodup hc
    (fun t _ n hn => expoAt_not_mem p.names t.1 n (fun h => hn (hsub n h)))

/-- … the result carries exactly the common ordered name tuple and is again well-formed -/
theorem alignIndet_names (common : List Name) (p : Poly S) : (alignIndet common p).names = common := rfl
theorem alignIndet_WF (common : List Name) (p : Poly S) (hw : WF p) (hc : common.Nodup)
    (hsub : ∀ n ∈ p.names, n ∈ common) : WF (alignIndet common p) := WF_alignIndet common p hw hc hsub

/-- the common names of any number of operands: duplicate-free, sorted by index, exactly the union -/
theorem commonNamesAll_spec (ps : List (Poly S)) :
    (commonNamesAll ps).Nodup ∧ (commonNamesAll ps).Pairwise (· < ·) ∧
      ∀ n, n ∈ commonNamesAll ps ↔ ∃ p ∈ ps, n ∈ p.names := by
  refine ⟨nodup_of_sortedLt natLt_strictTotal _ (sortedLt_sortDedup natLt_strictTotal _), ?_, ?_⟩
  · have := sortedLt_sortDedup natLt_strictTotal (ps.flatMap (·.names))
    exact this.imp (fun h => by simpa [natLt] using h)
  · intro n
    unfold commonNamesAll
    rw [mem_sortDedup natLt_strictTotal]
    simp [List.mem_flatMap]

/-- `align_exponents` for one operand: same polynomial, and the rows are exactly the requested common rows
(hence every operand ends up with the same rows and — keys being a function of the row — the same keys) -/
theorem alignExpo_den (es : List Expo) (p : Poly S) (hw : WF p) (hes : es.Nodup)
    (hsub : ∀ e ∈ p.expos, e ∈ es) : den (alignExpo es p) = den p := den_alignExpo es p hw.expos_nodup hes hsub
theorem alignExpo_rows (es : List Expo) (p : Poly S) : (alignExpo es p).expos = es := expos_alignExpo es p

/-- aligning already aligned rows changes nothing (idempotence at representation level) -/
theorem alignExpo_idem (es : List Expo) (p : Poly S) (hes : es.Nodup) :
    alignExpo es (alignExpo es p) = alignExpo es p := by
  unfold alignExpo
  congr 1
  apply List.map_congr_left
  intro e he
  congr 1
  induction es with
  | nil => simp at he
  | cons x xs ih =>
    simp only [List.nodup_cons] at hes
    simp only [List.map_cons]
    rcases List.mem_cons.1 he with rfl | he'
    · simp [lookup]
    · have hne : ¬ x = e := fun h => hes.1 (h ▸ he')
      have : (x == e) = false := by simpa using hne
      simp only [lookup, List.find?_cons, this]
      have := ih hes.2 he'
      simpa [lookup] using this

/-- `align_shape`: element `i` of the broadcast operand is element `σ i` of the input, for every index map -/
theorem bcast_denAt {R : Type} [CommSemiring R] {n m : Nat} (σ : Fin n → Fin m) (p : Poly (Vec R m)) (i : Fin n) :
    denAt (mapCoef (Vec.gatherHom σ) p) i = denAt p (σ i) := gather_denAt σ p i

/-! ### aligning any number of operands at once (`alignAll`: what concatenate/stack/gradient use) -/
section many
variable {S : Type} [CommSemiring S] [BEq S] [LawfulBEq S]

/-- all outputs share the index-ordered union of the names and one list of exponent rows (same order), are
well-formed, are as many as the inputs, and output `b` denotes input `b` -/
theorem alignAll_common (ps : List (Poly S)) (hw : ∀ p ∈ ps, WF p) :
    (alignAll ps).length = ps.length ∧
    (∀ q ∈ alignAll ps, q.names = commonNamesAll ps ∧ q.expos = commonExposAll ps ∧ WF q) ∧
    ∀ (b : Nat) (hb : b < ps.length),
      den ((alignAll ps)[b]'(by rw [alignAll_length]; exact hb)) = den ps[b] :=
  ⟨alignAll_length ps, fun q hq => ⟨alignAll_names ps q hq, alignAll_expos ps q hq, alignAll_WF ps hw q hq⟩,
    fun b hb => den_alignAll ps hw b hb⟩
end many

/-! ### the aligners on arrays, any number of operands (`Np/Model/Align.lean` is what the driver runs) -/
section toplevel
open Shape
variable {R : Type} [CommSemiring R] [BEq R] [LawfulBEq R]

/-- **align_polynomials**: fails (ValueError) iff the shapes do not broadcast, with no other error; on success all
outputs share the broadcast shape, one name tuple and one strictly ascending list of exponent rows, are well-formed,
and element `i` of output `k` is the broadcast element of input `k` -/
theorem align_polynomials_spec (rc rn : Bool) (as : List (Arr R)) (hw : ∀ a ∈ as, a.WF)
    (hp : ∀ a ∈ as, Pos a.shape) :
    (alignPolynomialsAll rc rn as = .error .valueError ↔ bshapeAll (as.map (·.shape)) = none) ∧
    (∀ e, alignPolynomialsAll rc rn as = .error e → e = .valueError) ∧
    ∀ cs, alignPolynomialsAll rc rn as = .ok cs →
      ∃ (s : List Nat) (ns : List Name) (es : List Expo),
        bshapeAll (as.map (·.shape)) = some s ∧ cs.length = as.length ∧ SortedLt expoLt es ∧
        ∀ k (hk : k < as.length) (hk' : k < cs.length),
          cs[k].shape = s ∧ cs[k].poly.names = ns ∧ cs[k].poly.expos = es ∧ cs[k].WF ∧
          ∀ (i : Fin (size cs[k].shape)) (j : Fin (size as[k].shape)),
            j.val = bindex as[k].shape s i.val → cs[k].elem i = as[k].elem j :=
  alignPolynomialsAll_spec rc rn as hw hp

/-- **align_shape / align_indeterminants / align_exponents** separately: same elements (broadcast for align_shape),
common shape / index-ordered union of the names / common rows; operands that already comply are returned untouched -/
theorem align_shape_spec (rc rn : Bool) (as : List (Arr R)) (hw : ∀ a ∈ as, a.WF) (hp : ∀ a ∈ as, Pos a.shape) :
    (alignShapeAll rc rn as = .error .valueError ↔ bshapeAll (as.map (·.shape)) = none) ∧
    alignShapeAll rc rn as ≠ .error .internal ∧
    ∀ bs, alignShapeAll rc rn as = .ok bs →
      ∃ s, bshapeAll (as.map (·.shape)) = some s ∧ bs.length = as.length ∧
        ∀ k (hk : k < as.length) (hk' : k < bs.length),
          bs[k].shape = s ∧ bs[k].WF ∧ (as[k].shape = s → bs[k] = as[k]) ∧
          ∀ (i : Fin (size bs[k].shape)) (j : Fin (size as[k].shape)),
            j.val = bindex as[k].shape s i.val → bs[k].elem i = as[k].elem j :=
  alignShapeAll_spec rc rn as hw hp
theorem align_indeterminants_spec (as : List (Arr R)) (hw : ∀ a ∈ as, a.WF) :
    (alignIndetAll as).length = as.length ∧
    ∀ k (hk : k < as.length) (hk' : k < (alignIndetAll as).length),
      (alignIndetAll as)[k].poly.names = sortDedup natLt (as.flatMap (·.poly.names)) ∧
      (alignIndetAll as)[k].shape = as[k].shape ∧ (alignIndetAll as)[k].WF ∧
      (as[k].poly.names = sortDedup natLt (as.flatMap (·.poly.names)) → (alignIndetAll as)[k] = as[k]) ∧
      ∀ (i : Fin (size (alignIndetAll as)[k].shape)) (j : Fin (size as[k].shape)), i.val = j.val →
        (alignIndetAll as)[k].elem i = as[k].elem j :=
  alignIndetAll_spec as hw
theorem align_exponents_spec (as : List (Arr R)) (hw : ∀ a ∈ as, a.WF) :
    (alignExpoAll as).length = as.length ∧
    ∀ k (hk : k < as.length) (hk' : k < (alignExpoAll as).length),
      (alignExpoAll as)[k].poly.names = alignedNames as ∧ (alignExpoAll as)[k].poly.expos = alignedRows as ∧
      (alignExpoAll as)[k].shape = as[k].shape ∧ (alignExpoAll as)[k].WF ∧
      ∀ (i : Fin (size (alignExpoAll as)[k].shape)) (j : Fin (size as[k].shape)), i.val = j.val →
        (alignExpoAll as)[k].elem i = as[k].elem j :=
  alignExpoAll_spec as hw

/-- **idempotence**: aligning aligned operands returns them unchanged, whatever the retain flags -/
theorem align_polynomials_idempotent (rc rn rc' rn' : Bool) (as cs : List (Arr R)) (hw : ∀ a ∈ as, a.WF)
    (hp : ∀ a ∈ as, Pos a.shape) (h : alignPolynomialsAll rc rn as = .ok cs) :
    alignPolynomialsAll rc' rn' cs = .ok cs :=
  alignPolynomialsAll_idem rc rn rc' rn' as cs hw hp h
end toplevel

/-- non-vacuity: q0·q2² over (q0,q2) aligned to (q0,q1,q2) -/
example : (alignIndet [0, 1, 2] ({ names := [0, 2], terms := [([1, 2], (5 : Int))] } : Poly Int)).terms = [([1, 0, 2], 5)] := by
  decide
end Np.Props.C04

import Np.Proofs.Lead
import Np.Proofs.Index
import Np.Model.Compare
import Np.Model.Dims
import Np.Proofs.LeadArr
import Np.Proofs.Dims
/-! C19 — leading-term queries, decomposition, set_dimensions and the sort proxy: property theorems -/
namespace Np.Props.C19
open Np.Ord

/-- the ascending overwrite walk of `lead_exponent`/`lead_coefficient` returns the largest row with a non-zero
coefficient in the selected order, and zeros for the zero polynomial -/
theorem leadWalk_spec {α R : Type} [LinearOrder α] [DecidableEq R] [Zero R] (zero : α) (rows : List (α × R))
    (hs : rows.Pairwise (fun s t => s.1 < t.1)) :
    (∀ t ∈ rows, t.2 = 0) ∧ Ord.leadWalk zero rows = (zero, 0) ∨
    ∃ t ∈ rows, t.2 ≠ 0 ∧ Ord.leadWalk zero rows = t ∧ ∀ u ∈ rows, u.2 ≠ 0 → u.1 ≤ t.1 :=
  Ord.leadWalk_spec zero rows hs

/-- the model's executable walk visits the rows in `glexsort` order and is the abstract walk over them -/
theorem leadWalk_eq_walk {R : Type} [Zero R] [BEq R] (order : List Nat) (width : Nat) (rows : List (Expo × R))
    (h : ∀ i ∈ order, i < rows.length) :
    Np.leadWalk order width rows =
      walk (List.replicate width 0, (0 : R)) (fun t : Expo × R => t.2 != 0) id (order.map fun i => rows.getD i ([], 0)) := by
  unfold Np.leadWalk walk
  rw [List.foldl_map]
  apply List.foldl_ext
  intro acc i hi
  have hlt := h i hi
  simp [List.getD, List.getElem?_eq_getElem hlt]

variable {S : Type} [Zero S] [BEq S]

/-- `isconstant` holds exactly when every term with a non-zero exponent row has an all-zero column -/
theorem isconstant_spec (p : Poly S) :
    isConstant p = true ↔ ∀ t ∈ p.terms, isZeroExpo t.1 = true ∨ (t.2 == 0) = true := by
  simp [isConstant, List.all_eq_true]

/-- `tonumpy` is an error exactly for non-constant polynomials -/
theorem tonumpy_error_iff (p : Poly S) : toNumpy p = none ↔ isConstant p = false := by
  unfold toNumpy; split <;> simp_all

/-- dropping trailing indeterminates never returns an empty term list: when every term involves a dropped
indeterminate the result is the zero polynomial (the defect D11 was exactly this case) -/
theorem setDimsDrop_zero (rc : Bool) (d : Nat) (p : Poly S)
    (h : ∀ t ∈ p.terms, (t.1.drop d).all (· == 0) = false) :
    setDimsDrop rc d p = clean rc true { names := p.names.take d, terms := [(List.replicate d 0, (0 : S))] } := by
  have : p.terms.filter (fun t => (t.1.drop d).all (· == 0)) = [] := by
    rw [List.filter_eq_nil_iff]; intro t ht; simp [h t ht]
  simp [setDimsDrop, this]

/-- non-vacuity: `set_dimensions(polynomial([3*q1, q1+q0*q1]), 1)` drops every term -/
example : (setDimsDrop false 1 ({ names := [0, 1], terms := [([0, 1], (3 : Int)), ([1, 1], 1)] } : Poly Int)).terms
    = [([0], 0)] := by decide

/-! ### the executable array-level queries of the model (what the driver runs) -/
section arrays
open Np.Index
variable {R : Type} [Zero R] [BEq R] [LawfulBEq R] {n : Nat}

/-- **lead terms on arrays**: every element of `leadArr` is the largest term with a non-zero coefficient *of that
element* in the selected order, and the all-zero exponent with coefficient 0 for a zero element — well-formed
arrays of every shape and number of terms, all four (graded, reverse) orders -/
theorem leadArr_is_largest (graded reverse : Bool) (p : Poly (Vec R n)) (hw : WF p) (i : Fin n) :
    ((∀ t ∈ elemRows p i, t.2 = 0) ∧
        (leadArr graded reverse p).get i = (List.replicate p.names.length 0, 0)) ∨
    ∃ t ∈ elemRows p i, t.2 ≠ 0 ∧ (leadArr graded reverse p).get i = t ∧
      ∀ u ∈ elemRows p i, u.2 ≠ 0 → u = t ∨ glexLt graded reverse u.1 t.1 = true :=
  leadArr_spec graded reverse p hw i

/-- **sortable_proxy is a permutation** of the flat positions `0 … n-1`, whatever the coefficient comparison -/
theorem proxy_perm (lt : R → R → Bool) (graded reverse : Bool) (p : Poly (Vec R n)) :
    (proxyArr lt graded reverse p).Perm (List.range n) := proxyArr_perm lt graded reverse p

/-- ties (equal keys) keep their original relative order — what argmax/argmin rely on after the repair of D9 -/
theorem proxy_stable (lt : R → R → Bool) (graded reverse : Bool) (p : Poly (Vec R n))
    (i j : Nat) (hij : i < j) (hj : j < n)
    (h : keyLe lt ((proxyKey lt graded reverse p).getD i (0, 0)) ((proxyKey lt graded reverse p).getD j (0, 0)) = true) :
    (proxyArr lt graded reverse p).getD i 0 < (proxyArr lt graded reverse p).getD j 0 :=
  proxyArr_stable lt graded reverse p i j hij hj h
end arrays

/-- **sortable_proxy is monotone** in (position of the leading exponent, leading coefficient) for any linearly
ordered coefficient type: a strictly smaller key gets a strictly smaller proxy value -/
theorem proxy_monotone {K : Type} [LinearOrder K] [Zero K] [BEq K] {n : Nat} (graded reverse : Bool)
    (p : Poly (Vec K n)) (i j : Nat) (hi : i < n) (hj : j < n)
    (h : let keys := proxyKey (fun x y : K => decide (x < y)) graded reverse p
         (keys.getD i (0, 0)).1 < (keys.getD j (0, 0)).1 ∨
           ((keys.getD i (0, 0)).1 = (keys.getD j (0, 0)).1 ∧ (keys.getD i (0, 0)).2 < (keys.getD j (0, 0)).2)) :
    (proxyArr (fun x y : K => decide (x < y)) graded reverse p).getD i 0 <
      (proxyArr (fun x y : K => decide (x < y)) graded reverse p).getD j 0 :=
  proxyArr_monotone_linearOrder graded reverse p i j hi hj h

/-! ### decomposition, set_dimensions, tonumpy: what they denote (Np/Proofs/Dims.lean) -/
section dims
open MvPolynomial

/-- a well-formed polynomial that `tonumpy` converts to `c` denotes the constant `C c` -/
theorem tonumpy_is_the_constant {S : Type} [CommSemiring S] [BEq S] [LawfulBEq S] (p : Poly S) (c : S)
    (hw : WF p) (h : toNumpy p = some c) : den p = C c := toNumpy_den p c hw h

/-- **decompose**: slice `k` of `decompose p` holds term `k` of every element alone … -/
theorem decompose_slice_is_term {R : Type} [CommSemiring R] {n : Nat} (p : Poly (Vec R n)) (k : Nat)
    (hk : k < p.terms.length) (i : Fin n) (idx : Fin (p.terms.length * n)) (hidx : idx.val = k * n + i.val) :
    denAt (decompose p) idx = denT p.names [((p.terms[k]).1, (p.terms[k]).2.get i)] :=
  decompose_slice p k hk i idx hidx

/-- … and the slices sum to the polynomial, element by element -/
theorem decompose_sums_to_p {R : Type} [CommSemiring R] {n : Nat} (p : Poly (Vec R n)) (i : Fin n) :
    ∑ k : Fin p.terms.length, denAt (decompose p) (sliceIdx p k i) = denAt p i := decompose_sum' p i

/-- **set_dimensions towards more indeterminates** changes nothing but the name list -/
theorem set_dimensions_more {S : Type} [CommSemiring S] [BEq S] [LawfulBEq S] (rc : Bool) (newNames : List Name)
    (p : Poly S) (hw : WF p) (hn : newNames.Nodup) (hsub : p.names ⊆ newNames) :
    den (setDimsAdd rc newNames p) = den p ∧ (setDimsAdd rc newNames p).names = newNames ∧
      WF (setDimsAdd rc newNames p) :=
  ⟨setDimsAdd_den rc newNames p hw hn hsub, setDimsAdd_names rc newNames p, WF_setDimsAdd rc newNames p hw hn hsub⟩

/-- **set_dimensions towards fewer indeterminates** is substituting 0 for every dropped indeterminate -/
theorem set_dimensions_fewer {S : Type} [CommSemiring S] [BEq S] [LawfulBEq S] (rc : Bool) (d : Nat) (p : Poly S)
    (hw : WF p) (hd : d ≤ p.names.length) :
    den (setDimsDrop rc d p) = bind₁ (fun x => if x ∈ p.names.take d then X x else 0) (den p) ∧
      (setDimsDrop rc d p).names = p.names.take d ∧ WF (setDimsDrop rc d p) :=
  ⟨setDimsDrop_den rc d p hw hd, setDimsDrop_names rc d p, WF_setDimsDrop rc d p hw hd⟩
end dims

end Np.Props.C19

import Np.Proofs.Options
import Np.Generated.Tables
/-! C14 — options are scoped, restored on every exit path, updated atomically: property theorems. -/
namespace Np.Props.C14
open Np.Opt

def get (o : Opts) (k : Key) : Option Val := (o.find? (·.1 == k)).map (·.2)

/-- an unknown option name anywhere among the keywords: `KeyError`, and no option changes -/
theorem set_unknown_atomic (o : Opts) (kw : List (Key × Val)) (h : ∃ kv ∈ kw, has o kv.1 = false) :
    setOptions o kw = (o, .raised "KeyError") := Opt.set_unknown_atomic o kw h

theorem get_set1_ne (o : Opts) (k k' : Key) (v : Val) (h : k' ≠ k) : get (set1 o k' v) k = get o k := by
  induction o with
  | nil => rfl
  | cons x o ih =>
    simp only [get, set1, List.map_cons] at ih ⊢
    by_cases h1 : x.1 = k'
    · have hk : ¬ x.1 = k := fun e => h (h1 ▸ e)
      simp only [h1, beq_self_eq_true, if_true, List.find?_cons]
      have : (k' == k) = false := by simpa using h
      simp only [this]
      have : (x.1 == k) = false := by simpa using hk
      simpa [this] using ih
    · have : (x.1 == k') = false := by simpa using h1
      simp only [this, Bool.false_eq_true, if_false, List.find?_cons]
      by_cases h2 : x.1 = k
      · simp [h2]
      · have : (x.1 == k) = false := by simpa using h2
        simpa [this] using ih

/-- options not named in the call keep their value -/
theorem set_other_unchanged (o : Opts) (kw : List (Key × Val)) (k : Key) (h : ∀ kv ∈ kw, kv.1 ≠ k) :
    get (update o kw) k = get o k := by
  induction kw generalizing o with
  | nil => rfl
  | cons kv kw ih =>
    simp only [update, List.foldl_cons] at ih ⊢
    rw [ih _ (fun x hx => h x (by simp [hx])), get_set1_ne _ _ _ _ (h kv (by simp))]

theorem get_set1_self (o : Opts) (k : Key) (v : Val) (h : has o k = true) : get (set1 o k v) k = some v := by
  induction o with
  | nil => simp [has] at h
  | cons x o ih =>
    simp only [get, set1, List.map_cons, has, List.any_cons, Bool.or_eq_true] at ih h ⊢
    by_cases h1 : x.1 = k
    · simp [h1]
    · have hb : (x.1 == k) = false := by simpa using h1
      simp only [hb, Bool.false_eq_true, if_false, List.find?_cons]
      rcases h with h | h
      · simp [hb] at h
      · exact ih h

theorem has_set1 (o : Opts) (k k' : Key) (v : Val) : has (set1 o k' v) k = has o k := by
  simp only [has, set1, List.any_map]
  congr 1; funext kv
  by_cases h : kv.1 = k' <;> simp [h]

/-- a named (known) option takes the given value (keyword names are distinct in Python) -/
theorem set_known (o : Opts) (kw : List (Key × Val)) (k : Key) (v : Val) (hnd : (kw.map (·.1)).Nodup)
    (hm : (k, v) ∈ kw) (hk : has o k = true) : get (update o kw) k = some v := by
  induction kw generalizing o with
  | nil => simp at hm
  | cons x kw ih =>
    simp only [List.map_cons, List.nodup_cons] at hnd
    simp only [update, List.foldl_cons] at ih ⊢
    rcases List.mem_cons.1 hm with rfl | hm'
    · have : ∀ kv ∈ kw, kv.1 ≠ k := fun kv hkv e => hnd.1 (e ▸ List.mem_map_of_mem (f := (·.1)) hkv)
      have h2 := set_other_unchanged (set1 o k v) kw k this
      simp only [update] at h2
      rw [h2, get_set1_self o k v hk]
    · exact ih _ hnd.2 hm' (by rw [has_set1]; exact hk)

/-- whatever the body does (nested blocks, `set_options`, exceptions caught or escaping, mutation of returned
dicts), the complete previous option set is back after `with global_options(...)`, on both exit paths -/
theorem with_restores (kw : List (Key × Val)) (body : List Stmt) (o : Opts) (log : List Opts) (hg : Good o) :
    (exec1 (.withBlock kw body) o log).1 = o := Opt.with_restores kw body o log hg

/-- inside the block, at entry, exactly the given options differ: the state is `update o kw` -/
theorem with_inside (kw : List (Key × Val)) (o : Opts) (h : kw.all (fun kv => has o kv.1) = true) :
    (exec1 (.withBlock kw [.observe]) o []).2.2 = [update o kw] := by
  simp [exec1, exec, setOptions, h]

/-- an unknown name given to `global_options`: `KeyError`, body not run, nothing changed, nothing observed -/
theorem with_unknown (o : Opts) (kw) (body) (log) (h : ∃ kv ∈ kw, has o kv.1 = false) :
    exec1 (.withBlock kw body) o log = (o, .raised "KeyError", log) := Opt.with_unknown o kw body log h

/-- mutating a dict handed out by `get_options` changes nothing -/
theorem get_detached (k : Key) (v : Val) (o : Opts) (log) : exec1 (.mutateCopy k v) o log = (o, .normal, log) := rfl

/-- every program keeps the key set, hence `Good` (needed to iterate `with_restores` along a history) -/
theorem good_exec (p : List Stmt) (o : Opts) (log) (hg : Good o) : Good (exec p o log).1 := by
  unfold Good at *; rw [keys_exec]; exact hg

/-- `get_options(defaults=True)` is constant along every history -/
theorem defaults_constant (d : Opts) (p : List Stmt) (o : Opts) (log) : getDefaults d (exec p o log).1 = d := rfl

/-- table obligation (regenerated from option.py each run): the shipped option names are distinct -/
theorem defaults_good : ((Generated.optionDefaults.map (·.1))).Nodup := by decide

/-- non-vacuity: depth-3 nesting, an inner `set_options`, an exception escaping two levels -/
example :
    let defaults : Opts := [("retain_names", "True"), ("sort_graded", "True"), ("display_graded", "True")]
    (keys defaults).Nodup ∧
    exec [.tryCatch [.withBlock [("retain_names", "False")]
            [.set [("sort_graded", "False")], .observe,
             .withBlock [("display_graded", "False")] [.withBlock [("sort_graded", "True")] [.raise "RuntimeError"]]]]]
         defaults []
      = (defaults, .normal, [[("retain_names", "False"), ("sort_graded", "False"), ("display_graded", "True")]]) := by
  refine ⟨by decide, by decide⟩
end Np.Props.C14

import Np.Proofs.MapCoef
import Np.Model.Maps
import Np.Proofs.Gather
import Np.Proofs.ShapeFns
import Np.Proofs.IndexFns
import Np.Proofs.SelectFns
import Np.Proofs.AdvIndexFns
import Np.Proofs.GenIndexFns
import Np.Proofs.MoveaxisSeq
/-! C09 — shape functions and indexing move whole polynomial elements like numpy: property theorems, for *every*
index map (hence every shape, axis, index or section argument numpy accepts) -/
namespace Np.Props.C09
open MvPolynomial
variable {R : Type} [CommSemiring R]

/-- applying one index map to every coefficient column moves whole elements: element `i` of the result is element
`σ i` of the operand — same indeterminates, any number of terms -/
theorem gather_den {n m : Nat} (σ : Fin n → Fin m) (p : Poly (Vec R m)) (i : Fin n) :
    denAt (mapCoef (Vec.gatherHom σ) p) i = denAt p (σ i) := gather_denAt σ p i

/-- names are untouched by a gather (they are preserved exactly as the property asks) -/
theorem gather_names {n m : Nat} (σ : Fin n → Fin m) (p : Poly (Vec R m)) :
    (mapCoef (Vec.gatherHom σ) p).names = p.names := rfl

/-- the re-wrap through `clean` does not change any element either -/
theorem gather_clean_den [BEq R] [LawfulBEq R] {n m : Nat} (rc rn : Bool) (σ : Fin n → Fin m)
    (p : Poly (Vec R m)) (hw : WF p) :
    den (clean rc rn (mapCoef (Vec.gatherHom σ) p)) = MvPolynomial.map (Vec.gatherHom σ) (den p) := by
  have hw' : WF (mapCoef (Vec.gatherHom σ) p) := by
    refine ⟨hw.names_nodup, ?_, ?_⟩
    · simpa [Poly.expos, mapCoef, List.map_map, Function.comp_def] using hw.expos_nodup
    · intro e he
      have : e ∈ p.expos := by simpa [Poly.expos, mapCoef, List.map_map, Function.comp_def] using he
      exact hw.row_len e this
  rw [den_clean rc rn _ hw' (WF_dropZeroCols _ hw'), den_mapCoef]

/-- positions numpy fills rather than copies (index 0 of the 1-based map) hold the zero polynomial -/
theorem gatherFill_zero {N : Nat} (m : Nat) (idx : List Nat) (v : Vec R N) (i : Fin m) (h : idx.getD i.val 0 = 0) :
    (gatherFill m idx v).get i = 0 := by
  rw [List.getD_eq_getElem?_getD] at h
  simp [gatherFill, h]

/-- … and the others the addressed element -/
theorem gatherFill_copy {N : Nat} (m : Nat) (idx : List Nat) (v : Vec R N) (i : Fin m) (k : Nat)
    (h : idx.getD i.val 0 = k + 1) (hk : k < N) : (gatherFill m idx v).get i = v.get ⟨k, hk⟩ := by
  rw [List.getD_eq_getElem?_getD] at h
  simp [gatherFill, h, hk]

/-- non-vacuity: diag of the single-row matrix [[a, b, c]] is [a] (index map [1]) -/
example : (gatherFill 1 [1] (Vector.ofFn (n := 3) fun i => (i.val : Int) + 7)).toList = [7] := by decide

/-! ### the executable gather of the model (what the driver runs for every shape function) -/
section exec
open Np.Shape
variable {R : Type} [CommRing R] [BEq R] [LawfulBEq R]

/-- the result of a shape function on well-formed operands is well-formed and has the requested shape -/
theorem gatherOp_wf (rc rn : Bool) (ops : List (Arr R)) (hw : ∀ a ∈ ops, a.WF) (outShape idx : List Nat) :
    (gatherOp rc rn ops outShape idx).WF ∧ (gatherOp rc rn ops outShape idx).shape = outShape :=
  gatherOp_WF rc rn ops hw outShape idx

/-- **C09 for the executable model**: every element of the result of a gather over any list of operands (joins:
concatenate, stack, …; single operand: reshape, transpose, indexing, …) is either the zero polynomial (index 0 =
"fill", or out of range) or *the whole element* of the operand owning that global position — operands with different
indeterminates and different numbers of terms included -/
theorem gatherOp_moves_elements (rc rn : Bool) (ops : List (Arr R)) (hw : ∀ a ∈ ops, a.WF)
    (outShape idx : List Nat) (k : Fin (size outShape)) :
    ((idx.getD k.val 0 = 0 ∨ totalSize ops < idx.getD k.val 0) ∧ (gatherOp rc rn ops outShape idx).elem k = 0) ∨
    (∃ t a, ops[t]? = some a ∧ ∃ i : Fin (size a.shape),
      idx.getD k.val 0 - 1 = blockOff ops t + i.val ∧ (gatherOp rc rn ops outShape idx).elem k = a.elem i) :=
  gatherOp_elem rc rn ops hw outShape idx k
end exec

/-! ### numpy's own index arithmetic, inside the model (`Np/Model/ShapeFns.lean`; the driver computes the gather lists
of these functions itself, and the run compares them with what numpy does to an array of positions) -/
section shapefns
open Np.Shape Np.ShapeFns

/-- a gather list produced by a shape function of one operand, handed to the executable gather, moves whole elements:
output position `k` holds the operand's element at the listed position -/
theorem single_gather_reads {R : Type} [CommRing R] [BEq R] [LawfulBEq R] (rc rn : Bool) (a : Arr R) (ha : a.WF)
    (out idx : List Nat) (k : Fin (size out)) (p : Nat) (hk : idx[k.val]? = some p) (hp : p < size a.shape) :
    (gatherOp rc rn [a] out (gatherIdx1 idx)).elem k = a.elem ⟨p, hp⟩ := by
  have hget : (gatherIdx1 idx).getD k.val 0 = p + 1 := by
    simp [gatherIdx1, List.getD, List.getElem?_map, hk]
  rcases gatherOp_moves_elements rc rn [a] (by simpa using ha) out (gatherIdx1 idx) k with ⟨h0, _⟩ | ⟨t, b, hb, i, hi, he⟩
  · rw [hget] at h0
    rcases h0 with h0 | h0
    · omega
    · have : totalSize [a] = size a.shape := by simp [totalSize_eq_sum]
      omega
  · cases t with
    | zero =>
      simp only [List.getElem?_cons_zero, Option.some.injEq] at hb
      subst hb
      rw [hget] at hi
      simp only [blockOff_zero, Nat.zero_add, Nat.add_sub_cancel] at hi
      rw [he]
      congr 1
      exact Fin.ext hi.symm
    | succ t => simp at hb

/-- `numpy.transpose(a, perm)`: `none` exactly when `perm` is not a permutation of the axes; otherwise output
multi-index `j` reads the input multi-index whose component on axis `c` is `j[position of c in perm]`, and the whole map
is a permutation of the positions (no element lost or duplicated) -/
theorem transpose_reads {shape perm out idx : List Nat} (h : transposeF shape perm = some (out, idx)) :
    out = perm.map (fun a => shape.getD a 0) ∧ idx.Perm (List.range (size shape)) ∧
    ∀ j, Valid out j →
      idx[ravel out j]? = some (ravel shape ((List.range shape.length).map fun a => j.getD (perm.idxOf a) 0)) ∧
      Valid shape ((List.range shape.length).map fun a => j.getD (perm.idxOf a) 0) :=
  ⟨(transposeF_shape h).1, transposeF_perm h, fun _ hj => transposeF_spec h hj⟩

/-- transposing a well-formed polynomial array through the executable gather: element `j` of the result *is* the
element of the operand at the permuted multi-index -/
theorem transpose_moves_elements {R : Type} [CommRing R] [BEq R] [LawfulBEq R] (rc rn : Bool) (a : Arr R) (ha : a.WF)
    (perm out idx : List Nat) (h : transposeF a.shape perm = some (out, idx)) (j : List Nat) (hj : Valid out j) :
    ∃ hp : ravel a.shape ((List.range a.shape.length).map fun c => j.getD (perm.idxOf c) 0) < size a.shape,
      (gatherOp rc rn [a] out (gatherIdx1 idx)).elem ⟨ravel out j, ravel_lt_of_valid hj⟩ =
        a.elem ⟨ravel a.shape ((List.range a.shape.length).map fun c => j.getD (perm.idxOf c) 0), hp⟩ := by
  obtain ⟨h1, h2⟩ := transposeF_spec h hj
  exact ⟨ravel_lt_of_valid h2, single_gather_reads rc rn a ha out idx ⟨ravel out j, ravel_lt_of_valid hj⟩ _ h1 _⟩

/-- `numpy.reshape` (C order) keeps the flat order: the gather list is the identity -/
theorem reshape_reads {shape new out idx : List Nat} (h : reshapeF shape new = some (out, idx)) :
    size shape = size new ∧ out = new ∧ idx = List.range (size new) := reshapeF_eq h

/-- `numpy.expand_dims` keeps the flat order as well -/
theorem expand_dims_reads {shape out idx : List Nat} {axis : Nat} (h : expandDimsF shape axis = some (out, idx))
    {j : List Nat} (hj : Valid out j) :
    idx[ravel out j]? = some (ravel shape (j.eraseIdx axis)) ∧ Valid shape (j.eraseIdx axis) ∧
    ravel shape (j.eraseIdx axis) = ravel out j := expandDimsF_spec h hj

/-- `numpy.repeat(a, k, axis)`: output multi-index `j` reads `j` with its `axis` component divided by `k` -/
theorem repeat_reads {shape out idx : List Nat} {k axis : Nat} (h : repeatF shape k axis = some (out, idx))
    {j : List Nat} (hj : Valid out j) :
    idx[ravel out j]? = some (ravel shape (j.set axis (j.getD axis 0 / k))) ∧
    Valid shape (j.set axis (j.getD axis 0 / k)) := repeatF_spec h hj

/-- `numpy.tile(a, reps)`: every component is taken modulo the operand's extent (after padding with leading axes) -/
theorem tile_reads {shape reps out idx : List Nat} (h : tileF shape reps = some (out, idx))
    {j : List Nat} (hj : Valid out j) :
    ∃ x, idx[ravel out j]? = some (ravel shape x) ∧ Valid shape x ∧
      ∀ a, a < shape.length →
        x.getD a 0 = j.getD (max shape.length reps.length - shape.length + a) 0 % shape.getD a 0 := tileF_spec h hj

/-- `numpy.diagonal(a, offset, ax1, ax2)`: the new last axis walks the diagonal, the other axes keep their order -/
theorem diagonal_reads {shape out idx : List Nat} {offset : Int} {ax1 ax2 : Nat}
    (h : diagonalF shape offset ax1 ax2 = some (out, idx)) {j : List Nat} (hj : Valid out j) :
    ∃ x, idx[ravel out j]? = some (ravel shape x) ∧ Valid shape x ∧
      x.getD ax1 0 = j.getD (shape.length - 2) 0 + (-offset).toNat ∧
      x.getD ax2 0 = j.getD (shape.length - 2) 0 + offset.toNat ∧
      ∀ a, a < shape.length → a ≠ ax1 → a ≠ ax2 →
        x.getD a 0 = j.getD (a - (if ax1 < a then 1 else 0) - (if ax2 < a then 1 else 0)) 0 := diagonalF_spec h hj

/-- `numpy.concatenate(ops, axis)`: output multi-index `j` reads operand `o` at `j` with the `axis` component reduced
by the extents of the operands before `o` -/
theorem concatenate_reads {shapes : List (List Nat)} {axis : Nat} {out : List Nat} {idx : List (Nat × Nat)}
    (h : concatF shapes axis = some (out, idx)) {j : List Nat} (hj : Valid out j) :
    ∃ o r, idx[ravel out j]? = some (o, ravel (shapes.getD o []) (j.set axis r)) ∧ o < shapes.length ∧
      Valid (shapes.getD o []) (j.set axis r) ∧
      j.getD axis 0 = ((shapes.take o).map fun s => s.getD axis 0).sum + r := concatF_spec h hj

/-- `numpy.stack(ops, axis)`: all operands have one shape, the new axis selects the operand -/
theorem stack_reads {shapes : List (List Nat)} {axis : Nat} {out : List Nat} {idx : List (Nat × Nat)}
    (h : stackF shapes axis = some (out, idx)) :
    ∃ s0, (∀ s ∈ shapes, s = s0) ∧ out = s0.take axis ++ shapes.length :: s0.drop axis ∧
      ∀ j, Valid out j → idx[ravel out j]? = some (j.getD axis 0, ravel s0 (j.eraseIdx axis)) ∧
        j.getD axis 0 < shapes.length ∧ Valid s0 (j.eraseIdx axis) := stackF_spec h

/-- `numpy.swapaxes` and `numpy.moveaxis` are transpositions with an explicit axis list -/
theorem swapaxes_reads {shape out idx : List Nat} {a b : Nat} (h : swapaxesF shape a b = some (out, idx)) :
    out = (List.range shape.length).map (fun k => shape.getD (swapAxis a b k) 0) ∧
    ∀ j, Valid out j →
      idx[ravel out j]? = some (ravel shape ((List.range shape.length).map fun c => j.getD (swapAxis a b c) 0)) ∧
      Valid shape ((List.range shape.length).map fun c => j.getD (swapAxis a b c) 0) := swapaxesF_spec h
theorem moveaxis_reads {shape out idx : List Nat} {src dst : Nat} (h : moveaxisF shape src dst = some (out, idx)) :
    out = (moveaxisPerm shape.length src dst).map (fun a => shape.getD a 0) ∧ idx.Perm (List.range (size shape)) ∧
    ∀ j, Valid out j →
      idx[ravel out j]? = some (ravel shape
        ((List.range shape.length).map fun a => j.getD ((moveaxisPerm shape.length src dst).idxOf a) 0)) :=
  ⟨(moveaxisF_spec h).1, moveaxisF_perm h, fun j hj => ((moveaxisF_spec h).2 j hj).1⟩

/-- `numpy.moveaxis(a, source, destination)` with sequences of axes is the transpose by the order `moveaxisSeqPerm` builds -
the axes that stay, in their order, then every (destination, source) pair, sorted by destination, inserted at its
destination -, and that order has source `s_i` at position `d_i` for every pair: axis `d_i` of the result is axis `s_i` of
the operand (`transpose_reads`). Inserting the pairs in the order given does not have this property. -/
theorem moveaxis_sequences_put_sources (n : Nat) (src dst : List Nat) (hlen : src.length = dst.length)
    (hs : src.Nodup) (hd : dst.Nodup) (hsr : ∀ a ∈ src, a < n) (hdr : ∀ a ∈ dst, a < n) :
    ∀ p ∈ List.zip dst src, (moveaxisSeqPerm n src dst).getD p.1 0 = p.2 :=
  moveaxisSeqPerm_puts_sources n src dst hlen hs hd hsr hdr
/-- ... and for such sequences the call never raises: the order is a permutation of the axes -/
theorem moveaxis_sequences_succeed (shape src dst : List Nat) (hlen : src.length = dst.length)
    (hs : src.Nodup) (hd : dst.Nodup) (hsr : ∀ a ∈ src, a < shape.length) (hdr : ∀ a ∈ dst, a < shape.length) :
    ∃ out idx, moveaxisSeqF shape src dst = some (out, idx) :=
  moveaxisSeqF_isSome shape src dst hlen hs hd hsr hdr
theorem moveaxis_sequences_is_transpose {shape src dst out idx : List Nat} (h : moveaxisSeqF shape src dst = some (out, idx)) :
    transposeF shape (moveaxisSeqPerm shape.length src dst) = some (out, idx) := by
  unfold moveaxisSeqF at h
  split at h
  · exact h
  · simp at h
example : moveaxisSeqPerm 3 [0, 1] [1, 0] = [1, 0, 2] ∧
    (([1, 0].zip [0, 1]).foldl (fun order (p : Nat × Nat) => order.insertIdx p.1 p.2) [2]) = [1, 2, 0] := by decide

/-- non-vacuity: numpy.transpose(arange(6).reshape(2,3)) and numpy.concatenate of a 2x2 and a 1x2 block -/
example : transposeF [2, 3] [1, 0] = some ([3, 2], [0, 3, 1, 4, 2, 5]) := by decide
example : concatF [[2, 2], [1, 2]] 0 = some ([3, 2], [(0, 0), (0, 1), (0, 2), (0, 3), (1, 0), (1, 1)]) := by decide
end shapefns

/-! ### basic indexing, the split family, diag, atleast_nd, broadcast (`Np/Model/IndexFns.lean`) and where / choose /
full / hstack / vstack / dstack (`Np/Model/SelectFns.lean`) -/
section indexfns
open Np.Shape Np.ShapeFns Np.IndexFns Np.SelectFns

/-- Python's `slice.indices`: every position a slice visits lies inside the axis -/
theorem slice_in_range {n : Nat} {a b : Option Int} {st s e st' : Int}
    (h : sliceIndices n a b st = some (s, e, st')) {k : Nat} (hk : k < sliceLen s e st') :
    0 ≤ s + k * st' ∧ s + k * st' < n := sliceIndices_range h hk

/-- `a[items]` (ints, slices with any step, `newaxis`, one ellipsis): one entry per element of the result, every
entry a position of the operand -/
theorem basic_index_in_range {shape : List Nat} {items : List Item} {out idx : List Nat}
    (h : basicIndexF shape items = some (out, idx)) : idx.length = size out ∧ ∀ k ∈ idx, k < size shape :=
  ⟨basicIndexF_length h, basicIndexF_lt h⟩

/-- … and the result's multi-index `j` reads the operand's multi-index that numpy's rules (`Reads`: int → the
normalised index, slice → `start + j·step`, newaxis → nothing, leftover axes whole) prescribe -/
theorem basic_index_reads {shape : List Nat} {items : List Item} {out idx : List Nat}
    (hne : ∀ it ∈ items, it.isEllipsis = false) (h : basicIndexF shape items = some (out, idx))
    {j : List Nat} (hj : Valid out j) :
    ∃ x, Reads shape items out j x ∧ Valid shape x ∧ idx[ravel out j]? = some (ravel shape x) :=
  basicIndexF_spec hne h hj

/-- `numpy.split`: piece `p` reads the operand shifted by its cut point along the axis, and all pieces together hold
every element of the operand exactly once -/
theorem split_reads {shape : List Nat} {axis : Nat} {sections : List Nat} {ps : List (List Nat × List Nat)}
    (h : splitF shape axis sections = some ps) :
    (ps.map fun q => q.2).flatten.Perm (List.range (size shape)) ∧
    ∀ p, p ≤ sections.length → ∃ out idx, ps[p]? = some (out, idx) ∧
      out = shape.set axis (cut (shape.getD axis 0) sections (p + 1) - cut (shape.getD axis 0) sections p) ∧
      idx.length = size out ∧ (∀ k ∈ idx, k < size shape) ∧
      ∀ j, Valid out j →
        idx[ravel out j]? = some (ravel shape (j.set axis (j.getD axis 0 + cut (shape.getD axis 0) sections p))) ∧
        Valid shape (j.set axis (j.getD axis 0 + cut (shape.getD axis 0) sections p)) :=
  ⟨splitF_perm h, fun _ hp => splitF_spec h hp⟩

/-- `numpy.atleast_1d/2d/3d` keep every flat position; `numpy.broadcast_to` reads through the broadcast index -/
theorem atleast_keeps_positions {d : Nat} {shape out idx : List Nat} (h : atleastF d shape = some (out, idx))
    {j : List Nat} (hj : Valid out j) : idx[ravel out j]? = some (ravel out j) := atleastF_spec h hj
theorem broadcast_to_reads {shape target out idx : List Nat} (h : broadcastToF shape target = some (out, idx)) :
    out = target ∧ idx = (List.range (size target)).map (bindex shape target) := broadcastToF_bindex h

/-- `numpy.diag` of a vector: entry `(r, c)` is the vector's element on the `k`-th diagonal and the zero fill elsewhere -/
theorem diag_of_vector (n : Nat) (k : Int) : ∃ idx, diagF [n] k = some ([n + k.natAbs, n + k.natAbs], idx) ∧
    idx.length = size [n + k.natAbs, n + k.natAbs] ∧ (∀ x, some x ∈ idx → x < n) ∧
    ∀ r c, r < n + k.natAbs → c < n + k.natAbs →
      idx[ravel [n + k.natAbs, n + k.natAbs] [r, c]]? =
        some (if (c : Int) - r = k then some (r - (-k).toNat) else none) ∧
      ((c : Int) - r = k → r - (-k).toNat < n) := diagF_vec n k

/-- `numpy.where(cond, x, y)`: the three shapes broadcast; output multi-index `j` reads `x` where the broadcast
condition holds and `y` elsewhere, each at its own broadcast position -/
theorem where_reads {cond : List Bool} {sc sx sy out : List Nat} {idx : List (Nat × Nat)}
    (h : whereF cond sc sx sy = some (out, idx)) {j : List Nat} (hj : Valid out j) :
    idx[ravel out j]? = some (if cond.getD (ravel sc (bmulti sc j)) false then (0, ravel sx (bmulti sx j))
      else (1, ravel sy (bmulti sy j))) ∧
    Valid sc (bmulti sc j) ∧ ravel sc (bmulti sc j) < cond.length ∧
    Valid sx (bmulti sx j) ∧ Valid sy (bmulti sy j) := whereF_spec h hj

/-- `numpy.choose(sel, choices)`: output multi-index `j` reads the choice the broadcast selector names -/
theorem choose_reads {sel ss : List Nat} {shapes : List (List Nat)} {out : List Nat} {idx : List (Nat × Nat)}
    (h : chooseF sel ss shapes = some (out, idx)) {j : List Nat} (hj : Valid out j) :
    ∃ c, c = sel.getD (ravel ss (bmulti ss j)) 0 ∧ c < shapes.length ∧
      idx[ravel out j]? = some (c, ravel (shapes.getD c []) (bmulti (shapes.getD c []) j)) ∧
      Valid ss (bmulti ss j) ∧ ravel ss (bmulti ss j) < sel.length ∧
      Valid (shapes.getD c []) (bmulti (shapes.getD c []) j) := chooseF_spec h hj

/-- `numpy.full(shape, value)`: every position reads the value at its broadcast position -/
theorem full_reads {shape sv out idx : List Nat} (h : fullF shape sv = some (out, idx))
    (hle : sv.length ≤ shape.length) {i : Nat} (hi : i < size out) : idx[i]? = some (bindex sv shape i) :=
  fullF_getElem?_of_le h hle hi

/-- `numpy.vstack` is `concatenate` of the `atleast_2d` operands along axis 0 (likewise hstack / dstack): output
multi-index `j` reads operand `o`, inside that operand's own shape -/
theorem vstack_reads {shapes : List (List Nat)} {out : List Nat} {idx : List (Nat × Nat)}
    (h : vstackF shapes = some (out, idx)) {j : List Nat} (hj : Valid out j) :
    ∃ o r, idx[ravel out j]? = some (o, ravel (shapes.getD o []) (demote2d (shapes.getD o []) (j.set 0 r))) ∧
      o < shapes.length ∧ Valid (shapes.getD o []) (demote2d (shapes.getD o []) (j.set 0 r)) ∧
      Valid (atleast2d (shapes.getD o [])) (j.set 0 r) ∧
      j.getD 0 0 = ((shapes.take o).map fun s => (atleast2d s).getD 0 0).sum + r := vstackF_spec h hj
theorem hstack_is_concatenate (shapes : List (List Nat)) :
    hstackF shapes = concatF (shapes.map atleast1d) (hstackAxis shapes) := hstackF_eq shapes
end indexfns

/-! ### integer-array ("advanced") indexing, `take`, `repeat` with an array of counts (`Np/Model/AdvIndexFns.lean`) -/
section advindex
open Np.Shape Np.ShapeFns Np.AdvIndexFns

/-- `a[i0, ..., ik-1]` with integer arrays: the index arrays broadcast to `B`, the result has shape `B ++ rest`, and
output multi-index `b ++ rest` reads the operand at `[i0[b], ..., ik-1[b]] ++ rest` (negative entries counted from the
end), a valid position -/
theorem advanced_index_reads {shape : List Nat} {ixs : List Ix} {out idx : List Nat}
    (h : advIndexF shape ixs = some (out, idx)) :
    ∃ B, bshapeAll (ixs.map (·.1)) = some B ∧ (∀ ix ∈ ixs, BcastTo ix.1 B) ∧ ixs.length ≤ shape.length ∧
      out = B ++ shape.drop ixs.length ∧
      ∀ b rest, Valid B b → Valid (shape.drop ixs.length) rest →
        idx[ravel out (b ++ rest)]? =
          some (ravel shape (List.zipWith (fun n ix => ixAt n ix b) shape ixs ++ rest)) ∧
        Valid shape (List.zipWith (fun n ix => ixAt n ix b) shape ixs ++ rest) ∧
        advOK true shape ixs = true := advIndexF_spec h

/-- numpy's rule for advanced indices *separated* by a slice, `a[i0, :, i2]` on a 3-d operand: the broadcast axes come
first, then the sliced axis -/
theorem separated_advanced_index_reads {n0 n1 n2 : Nat} {i0 i2 : Ix} {out idx : List Nat}
    (h : mixedIndexF [n0, n1, n2] [some i0, none, some i2] = some (out, idx)) :
    ∃ B, bshapeAll [i0.1, i2.1] = some B ∧ BcastTo i0.1 B ∧ BcastTo i2.1 B ∧ out = B ++ [n1] ∧
      ∀ b x, Valid B b → x < n1 →
        idx[ravel out (b ++ [x])]? = some (ravel [n0, n1, n2] [ixAt n0 i0 b, x, ixAt n2 i2 b]) ∧
        ixAt n0 i0 b < n0 ∧ ixAt n2 i2 b < n2 := mixedIndexF_separated h

/-- `numpy.take(a, indices, axis)` and `numpy.repeat(a, counts, axis)` -/
theorem take_reads {shape : List Nat} {ix : Ix} {axis : Nat} {out idx : List Nat}
    (h : takeF shape ix axis = some (out, idx)) :
    axis < shape.length ∧ out = shape.take axis ++ ix.1 ++ shape.drop (axis + 1) ∧
    ∀ pre b post, Valid (shape.take axis) pre → Valid ix.1 b → Valid (shape.drop (axis + 1)) post →
      idx[ravel out (pre ++ b ++ post)]? =
        some (ravel shape (pre ++ normAt (shape.getD axis 0) (ix.2.getD (ravel ix.1 b) 0) :: post)) ∧
      Valid shape (pre ++ normAt (shape.getD axis 0) (ix.2.getD (ravel ix.1 b) 0) :: post) ∧
      ixOK true (shape.getD axis 0) ix = true := takeF_spec h
theorem repeat_counts_reads {shape reps out idx : List Nat} {axis : Nat}
    (h : repeatsF shape reps axis = some (out, idx)) {j : List Nat} (hj : Valid out j) :
    ∃ r t q, r = effReps (shape.getD axis 0) reps ∧ r.length = shape.getD axis 0 ∧
      idx[ravel out j]? = some (ravel shape (j.set axis t)) ∧ Valid shape (j.set axis t) ∧
      t < r.length ∧ q < r.getD t 0 ∧ j.getD axis 0 = (r.take t).sum + q := repeatsF_spec h hj
end advindex

/-! ### the general index expression `a[items]`: integers, slices with steps, `newaxis`, `...`, integer arrays and
boolean masks in one tuple (`Np/Model/GenIndexFns.lean`) - what `ndpoly.__getitem__` hands to numpy -/
section genindex
open Np.Shape Np.ShapeFns Np.IndexFns Np.AdvIndexFns Np.GenIndexFns

/-- whatever the items: one entry per element of the result, every entry a position of the operand -/
theorem general_index_in_range {shape : List Nat} {items : List GItem} {out idx : List Nat}
    (h : genIndexF shape items = some (out, idx)) : idx.length = size out ∧ ∀ k ∈ idx, k < size shape :=
  ⟨genIndexF_length h, genIndexF_lt h⟩

/-- without an integer array or a mask the expression is the basic index of `basic_index_reads` -/
theorem general_index_basic {shape : List Nat} {items : List GItem} (ha : items.any GItem.isAdvanced = false) :
    genIndexF shape items = basicIndexF shape (items.map GItem.toBasic) := genIndexF_basic ha

/-- with an integer array or a mask numpy's two stages: the slices and `newaxis` items give the view `vs` (advanced
items replaced by `:`), masks become the coordinate arrays of their `True` positions and integers 0-d index arrays; the
index arrays broadcast to `B`, whose axes stand at position `p` among the kept axes of the view (`p` = the number of kept
axes before the advanced items if these are adjacent in the index as written, else 0); output multi-index
`pre ++ b ++ post` reads the view at `y = mixIn vs m b (pre ++ post)` - every advanced axis reads its index array at `b`
(`mixIn_getD_adv`), the kept axes take `pre ++ post` in order (`mixIn_getD_slice`) - and the view reads the operand at the
`x` that the rules of basic indexing (`Reads`) assign to `y` -/
theorem general_index_reads {shape : List Nat} {items : List GItem} {out idx : List Nat}
    (ha : items.any GItem.isAdvanced = true) (h : genIndexF shape items = some (out, idx)) :
    ∃ items' v m vs B, expandG shape.length items = some items' ∧ translate shape items' = some (v, m) ∧
      bshapeAll ((m.filterMap id).map (·.1)) = some B ∧ (∀ ix ∈ m.filterMap id, BcastTo ix.1 B) ∧
      bposG items m ≤ (slicedDims vs m).length ∧
      out = (slicedDims vs m).take (bposG items m) ++ B ++ (slicedDims vs m).drop (bposG items m) ∧
      ∀ pre b post, Valid ((slicedDims vs m).take (bposG items m)) pre → Valid B b →
        Valid ((slicedDims vs m).drop (bposG items m)) post →
        ∃ x, Reads shape v vs (mixIn vs m b (pre ++ post)) x ∧ Valid shape x ∧
          idx[ravel out (pre ++ b ++ post)]? = some (ravel shape x) := genIndexF_spec ha h

/-- **boolean-mask selection**: for every shape of at least one dimension (no zero-length axis) and every mask of that
shape, `a[mask]` is 1-d with one entry per `True`, and its entries are the flat positions of the `True`s in ascending (C)
order; through `single_gather_reads` the polynomial elements at exactly those positions are what `poly[mask]` holds -/
theorem mask_selects_true_positions (shape : List Nat) (bits : List Bool) (hnd : shape.length ≠ 0)
    (hpos : ∀ d ∈ shape, 0 < d) (hb : bits.length = size shape) :
    genIndexF shape [.mask shape bits] = some ([(truePos bits).length], truePos bits) :=
  Np.GenIndexFns.mask_selects_true_positions shape bits hnd hpos hb
theorem mask_index_1d (n : Nat) (bits : List Bool) (hn : 0 < n) (hb : bits.length = n) :
    genIndexF [n] [.mask [n] bits] = some ([(truePos bits).length], truePos bits) :=
  Np.GenIndexFns.mask_index_1d n bits hn hb
example : genIndexF [2, 3] [.mask [2, 3] [true, false, true, false, false, true]] = some ([3], [0, 2, 5]) := by decide

/-- ... carried through the executable gather: **`poly[mask]` holds, in order, exactly the elements of `poly` where the mask
is `True`** - element `t` of the result is the whole polynomial element of the operand at the flat position of the `t`-th
`True`, for every well-formed polynomial array (any names, terms, retain flags) and every mask of its shape -/
theorem getitem_mask_moves_elements {R : Type} [CommRing R] [BEq R] [LawfulBEq R] (rc rn : Bool) (a : Arr R) (ha : a.WF)
    (bits : List Bool) (hnd : a.shape.length ≠ 0) (hpos : ∀ d ∈ a.shape, 0 < d) (hb : bits.length = size a.shape)
    (out idx : List Nat) (h : genIndexF a.shape [.mask a.shape bits] = some (out, idx)) :
    out = [(truePos bits).length] ∧
    ∀ (t : Fin (size out)) (p : Nat), (truePos bits)[t.val]? = some p →
      ∃ hp : p < size a.shape, (gatherOp rc rn [a] out (gatherIdx1 idx)).elem t = a.elem ⟨p, hp⟩ := by
  rw [Np.GenIndexFns.mask_selects_true_positions a.shape bits hnd hpos hb] at h
  simp only [Option.some.injEq, Prod.mk.injEq] at h
  obtain ⟨rfl, rfl⟩ := h
  refine ⟨rfl, fun t p hp => ?_⟩
  have hlt : p < size a.shape := by
    have hm : p ∈ truePos bits := List.mem_of_getElem? hp
    exact hb ▸ Np.GenIndexFns.truePos_lt hm
  exact ⟨hlt, single_gather_reads rc rn a ha _ _ t p hp hlt⟩

/-- non-vacuity (numpy on `arange(24).reshape(2, 3, 4)`): `a[0, :, [1, 2]]` - the integer counts as an advanced item, it
is separated from the array by the slice, so the broadcast axis comes first -; a 2-d mask followed by a stepped slice;
an ellipsis that stands for no axis still separates -/
example : genIndexF [2, 3, 4] [.int 0, .slice none none 1, .arr ([2], [1, 2])] =
    some ([2, 3], [1, 5, 9, 2, 6, 10]) := by decide
example : genIndexF [2, 3, 4] [.mask [2, 3] [true, false, true, false, false, true], .slice none none 2] =
    some ([3, 2], [0, 2, 8, 10, 20, 22]) := by decide
example : genIndexF [3, 1, 2] [.slice none none 1, .int 0, .ellipsis, .arr ([2], [0, 1])] =
    some ([2, 3], [0, 2, 4, 1, 3, 5]) := by decide
end genindex

end Np.Props.C09

import Np.Proofs.MapCoef
import Np.Model.Maps
import Np.Proofs.Gather
/-! C09 — shape functions and indexing move whole polynomial elements like numpy: property theorems, for *every*
index map (hence every shape, axis, index or section argument numpy accepts) -/
namespace Np.Props.C09
open MvPolynomial
variable {R : Type} [CommSemiring R]

/-- applying one index map to every coefficient column moves whole elements: element `i` of the result is element
`σ i` of the operand — same indeterminates, any number of terms -/
theorem gather_den {n m : Nat} (σ : Fin n → Fin m) (p : Poly (Vec R m)) (i : Fin n) :
    denAt (mapCoef (Vec.gatherHom σ) p) i = denAt p (σ i) := gather_denAt σ p i

/-- names are untouched by a gather (they are preserved exactly as the property asks) -/
theorem gather_names {n m : Nat} (σ : Fin n → Fin m) (p : Poly (Vec R m)) :
    (mapCoef (Vec.gatherHom σ) p).names = p.names := rfl

/-- the re-wrap through `clean` does not change any element either -/
theorem gather_clean_den [BEq R] [LawfulBEq R] {n m : Nat} (rc rn : Bool) (σ : Fin n → Fin m)
    (p : Poly (Vec R m)) (hw : WF p) :
    den (clean rc rn (mapCoef (Vec.gatherHom σ) p)) = MvPolynomial.map (Vec.gatherHom σ) (den p) := by
  have hw' : WF (mapCoef (Vec.gatherHom σ) p) := by
    refine ⟨hw.names_nodup, ?_, ?_⟩
    · simpa [Poly.expos, mapCoef, List.map_map, Function.comp_def] using hw.expos_nodup
    · intro e he
      have : e ∈ p.expos := by simpa [Poly.expos, mapCoef, List.map_map, Function.comp_def] using he
      exact hw.row_len e this
  rw [den_clean rc rn _ hw' (WF_dropZeroCols _ hw'), den_mapCoef]

/-- positions numpy fills rather than copies (index 0 of the 1-based map) hold the zero polynomial -/
theorem gatherFill_zero {N : Nat} (m : Nat) (idx : List Nat) (v : Vec R N) (i : Fin m) (h : idx.getD i.val 0 = 0) :
    (gatherFill m idx v).get i = 0 := by
  rw [List.getD_eq_getElem?_getD] at h
  simp [gatherFill, h]

/-- … and the others the addressed element -/
theorem gatherFill_copy {N : Nat} (m : Nat) (idx : List Nat) (v : Vec R N) (i : Fin m) (k : Nat)
    (h : idx.getD i.val 0 = k + 1) (hk : k < N) : (gatherFill m idx v).get i = v.get ⟨k, hk⟩ := by
  rw [List.getD_eq_getElem?_getD] at h
  simp [gatherFill, h, hk]

/-- non-vacuity: diag of the single-row matrix [[a, b, c]] is [a] (index map [1]) -/
example : (gatherFill 1 [1] (Vector.ofFn (n := 3) fun i => (i.val : Int) + 7)).toList = [7] := by decide

/-! ### the executable gather of the model (what the driver runs for every shape function) -/
section exec
open Np.Shape
variable {R : Type} [CommRing R] [BEq R] [LawfulBEq R]

/-- the result of a shape function on well-formed operands is well-formed and has the requested shape -/
theorem gatherOp_wf (rc rn : Bool) (ops : List (Arr R)) (hw : ∀ a ∈ ops, a.WF) (outShape idx : List Nat) :
    (gatherOp rc rn ops outShape idx).WF ∧ (gatherOp rc rn ops outShape idx).shape = outShape :=
  gatherOp_WF rc rn ops hw outShape idx

/-- **C09 for the executable model**: every element of the result of a gather over any list of operands (joins:
concatenate, stack, …; single operand: reshape, transpose, indexing, …) is either the zero polynomial (index 0 =
"fill", or out of range) or *the whole element* of the operand owning that global position — operands with different
indeterminates and different numbers of terms included -/
theorem gatherOp_moves_elements (rc rn : Bool) (ops : List (Arr R)) (hw : ∀ a ∈ ops, a.WF)
    (outShape idx : List Nat) (k : Fin (size outShape)) :
    ((idx.getD k.val 0 = 0 ∨ totalSize ops < idx.getD k.val 0) ∧ (gatherOp rc rn ops outShape idx).elem k = 0) ∨
    (∃ t a, ops[t]? = some a ∧ ∃ i : Fin (size a.shape),
      idx.getD k.val 0 - 1 = blockOff ops t + i.val ∧ (gatherOp rc rn ops outShape idx).elem k = a.elem i) :=
  gatherOp_elem rc rn ops hw outShape idx k
end exec

end Np.Props.C09

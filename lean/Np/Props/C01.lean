import Np.Proofs.MapCoef
/-! C01 — ring arithmetic is exact: property theorems (helpers live in Np/Proofs). -/
namespace Np.Props.C01
open MvPolynomial
variable {S : Type} [CommSemiring S] [BEq S] [LawfulBEq S]

/-- the sum denotes the sum, whatever the retain flags, for any number of terms, names and elements -/
theorem add_den (rc rn : Bool) (a b : Poly S) (ha : WF a) (hb : WF b) :
    den (add rc rn a b) = den a + den b := (Np.add_den rc rn a b ha hb).1

/-- the product is fully written (no unwritten buffer cell survives) and denotes the product -/
theorem mul_den (rc rn : Bool) (a b : Poly S) (ha : WF a) (hb : WF b) :
    ∃ r, multiply rc rn a b = some r ∧ den r = den a * den b := Np.mul_den rc rn a b ha hb
end Np.Props.C01

import Np.Proofs.Expr
/-! C01 — ring arithmetic on polynomial arrays is exact: property theorems (helpers live in Np/Proofs). -/
namespace Np.Props.C01
open MvPolynomial Shape

section poly
variable {S : Type} [CommSemiring S] [BEq S] [LawfulBEq S]

/-- the sum denotes the sum, whatever the retain flags, for any number of terms, names and elements -/
theorem add_den (rc rn : Bool) (a b : Poly S) (ha : WF a) (hb : WF b) :
    den (add rc rn a b) = den a + den b := (Np.add_den rc rn a b ha hb).1

/-- the product is fully written (no unwritten buffer cell survives the set-or-accumulate loop) and denotes the product -/
theorem mul_den (rc rn : Bool) (a b : Poly S) (ha : WF a) (hb : WF b) :
    ∃ r, multiply rc rn a b = some r ∧ den r = den a * den b := Np.mul_den rc rn a b ha hb

/-- `**k` with a scalar exponent: `k` multiplications starting from the constant one -/
theorem pow_den (rc rn : Bool) (p : Poly S) (hp : WF p) (k : Nat) :
    ∃ r, powS rc rn p k = some r ∧ den r = den p ^ k ∧ WF r := pow_den_WF rc rn p hp k
end poly

section ring
variable {S : Type} [CommRing S] [BEq S] [LawfulBEq S]
theorem sub_den (rc rn : Bool) (a b : Poly S) (ha : WF a) (hb : WF b) :
    den (sub rc rn a b) = den a - den b := (sub_den_WF rc rn a b ha hb).1
theorem neg_den (rc rn : Bool) (a : Poly S) (ha : WF a) : den (neg rc rn a) = - den a := (neg_den_WF rc rn a ha).1
end ring

section arrays
variable {R : Type} [CommRing R] [BEq R] [LawfulBEq R]

/-- `+` on arrays: numpy's broadcast shape; element `i` is the sum of the operands' elements at the broadcast
positions; the result is well-formed (same for `-` and `*`: `Arr.sub_spec`, `Arr.mul_spec`) -/
theorem array_add (rc rn : Bool) (a b r : Arr R) (ha : a.WF) (hb : b.WF) (h : Arr.add rc rn a b = .ok r) :
    r.WF ∧ bshape a.shape b.shape = some r.shape ∧
      ∃ (σa : Fin (size r.shape) → Fin (size a.shape)) (σb : Fin (size r.shape) → Fin (size b.shape)),
        (∀ i, (σa i).val = bindex a.shape r.shape i.val) ∧ (∀ i, (σb i).val = bindex b.shape r.shape i.val) ∧
        ∀ i, r.elem i = a.elem (σa i) + b.elem (σb i) := Arr.add_spec rc rn a b r ha hb h

theorem array_mul (rc rn : Bool) (a b r : Arr R) (ha : a.WF) (hb : b.WF) (h : Arr.mul rc rn a b = .ok r) :
    r.WF ∧ bshape a.shape b.shape = some r.shape ∧
      ∃ (σa : Fin (size r.shape) → Fin (size a.shape)) (σb : Fin (size r.shape) → Fin (size b.shape)),
        (∀ i, (σa i).val = bindex a.shape r.shape i.val) ∧ (∀ i, (σb i).val = bindex b.shape r.shape i.val) ∧
        ∀ i, r.elem i = a.elem (σa i) * b.elem (σb i) := Arr.mul_spec rc rn a b r ha hb h

/-- the "programs" quantifier: every expression tree over `+ - * neg pos **k`, of any depth, evaluates in the model
to the array whose shape is numpy's broadcast shape and whose elements are the same ring expression of the leaves'
(broadcast) elements in `MvPolynomial Name R`; results of earlier operations may be operands; the result is
well-formed; this holds for every setting of the retain flags -/
theorem expr_den (rc rn : Bool) (env : List (Arr R)) (henv : ∀ a ∈ env, a.WF) (t : Expr) (r : Arr R)
    (h : evalModel rc rn env t = .ok r) : r.WF ∧ ∃ sf, specEval env t = some sf ∧ Agrees r sf :=
  Np.expr_den rc rn env henv t r h

/-- … so every composition obeys the commutative-ring laws (they hold in the specification) -/
theorem distributivity (f g h : MvPolynomial Name R) : (f + g) * h = f * h + g * h := add_mul f g h
theorem commutativity (f g : MvPolynomial Name R) : f * g = g * f := mul_comm f g
theorem associativity (f g h : MvPolynomial Name R) : f * g * h = f * (g * h) := mul_assoc f g h
end arrays

/-- non-vacuity: a = [[q0+1, q2]] (1×2, names q0,q2), b = [[q1],[q0·q1]] (2×1): the model evaluates (a+b)·b² to a
2×2 array over q0,q1,q2 -/
example :
    let a : Arr Int := ⟨[1, 2], { names := [0, 2], terms := [([0, 0], #v[1, 0]), ([1, 0], #v[1, 0]), ([0, 1], #v[0, 1])] }⟩
    let b : Arr Int := ⟨[2, 1], { names := [0, 1], terms := [([0, 1], #v[1, 0]), ([1, 1], #v[0, 1])] }⟩
    (match evalModel false true [a, b] (.mul (.add (.leaf 0) (.leaf 1)) (.pow (.leaf 1) 2)) with
      | .ok r => (r.shape, r.poly.names, r.poly.terms.length)
      | .error _ => ([], [], 0)) = ([2, 2], [0, 1, 2], 8) := by decide +kernel
end Np.Props.C01

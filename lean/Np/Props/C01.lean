import Np.Proofs.Expr
import Np.Proofs.Shape
import Np.Proofs.PowArr
import Np.Proofs.ExprPow
/-! C01 — ring arithmetic on polynomial arrays is exact: property theorems (helpers live in Np/Proofs). -/
namespace Np.Props.C01
open MvPolynomial Shape

section poly
variable {S : Type} [CommSemiring S] [BEq S] [LawfulBEq S]

/-- the sum denotes the sum, whatever the retain flags, for any number of terms, names and elements -/
theorem add_den (rc rn : Bool) (a b : Poly S) (ha : WF a) (hb : WF b) :
    den (add rc rn a b) = den a + den b := (Np.add_den rc rn a b ha hb).1

/-- the product is fully written (no unwritten buffer cell survives the set-or-accumulate loop) and denotes the product -/
theorem mul_den (rc rn : Bool) (a b : Poly S) (ha : WF a) (hb : WF b) :
    ∃ r, multiply rc rn a b = some r ∧ den r = den a * den b := Np.mul_den rc rn a b ha hb

/-- `**k` with a scalar exponent: `k` multiplications starting from the constant one -/
theorem pow_den (rc rn : Bool) (p : Poly S) (hp : WF p) (k : Nat) :
    ∃ r, powS rc rn p k = some r ∧ den r = den p ^ k ∧ WF r := pow_den_WF rc rn p hp k
end poly

section ring
variable {S : Type} [CommRing S] [BEq S] [LawfulBEq S]
theorem sub_den (rc rn : Bool) (a b : Poly S) (ha : WF a) (hb : WF b) :
    den (sub rc rn a b) = den a - den b := (sub_den_WF rc rn a b ha hb).1
theorem neg_den (rc rn : Bool) (a : Poly S) (ha : WF a) : den (neg rc rn a) = - den a := (neg_den_WF rc rn a ha).1
end ring

section arrays
variable {R : Type} [CommRing R] [BEq R] [LawfulBEq R]

/-- `+` on arrays: numpy's broadcast shape; element `i` is the sum of the operands' elements at the broadcast
positions; the result is well-formed (same for `-` and `*`: `Arr.sub_spec`, `Arr.mul_spec`) -/
theorem array_add (rc rn : Bool) (a b r : Arr R) (ha : a.WF) (hb : b.WF) (h : Arr.add rc rn a b = .ok r) :
    r.WF ∧ bshape a.shape b.shape = some r.shape ∧
      ∃ (σa : Fin (size r.shape) → Fin (size a.shape)) (σb : Fin (size r.shape) → Fin (size b.shape)),
        (∀ i, (σa i).val = bindex a.shape r.shape i.val) ∧ (∀ i, (σb i).val = bindex b.shape r.shape i.val) ∧
        ∀ i, r.elem i = a.elem (σa i) + b.elem (σb i) := Arr.add_spec rc rn a b r ha hb h

theorem array_mul (rc rn : Bool) (a b r : Arr R) (ha : a.WF) (hb : b.WF) (h : Arr.mul rc rn a b = .ok r) :
    r.WF ∧ bshape a.shape b.shape = some r.shape ∧
      ∃ (σa : Fin (size r.shape) → Fin (size a.shape)) (σb : Fin (size r.shape) → Fin (size b.shape)),
        (∀ i, (σa i).val = bindex a.shape r.shape i.val) ∧ (∀ i, (σb i).val = bindex b.shape r.shape i.val) ∧
        ∀ i, r.elem i = a.elem (σa i) * b.elem (σb i) := Arr.mul_spec rc rn a b r ha hb h

/-- the "programs" quantifier: every expression tree over `+ - * neg pos **k`, of any depth, evaluates in the model
to the array whose shape is numpy's broadcast shape and whose elements are the same ring expression of the leaves'
(broadcast) elements in `MvPolynomial Name R`; results of earlier operations may be operands; the result is
well-formed; this holds for every setting of the retain flags -/
theorem expr_den (rc rn : Bool) (env : List (Arr R)) (henv : ∀ a ∈ env, a.WF) (t : Expr) (r : Arr R)
    (h : evalModel rc rn env t = .ok r) : r.WF ∧ ∃ sf, specEval env t = some sf ∧ Agrees r sf :=
  Np.expr_den rc rn env henv t r h

/-- … so every composition obeys the commutative-ring laws (they hold in the specification) -/
theorem distributivity (f g h : MvPolynomial Name R) : (f + g) * h = f * h + g * h := add_mul f g h
theorem commutativity (f g : MvPolynomial Name R) : f * g = g * f := mul_comm f g
theorem associativity (f g h : MvPolynomial Name R) : f * g * h = f * (g * h) := mul_assoc f g h
/-- **`**` with an array of exponents**: the result has numpy's broadcast shape, is well-formed, and every element is
the broadcast base element raised to *its own* broadcast exponent (the behaviour repaired in D1) -/
theorem array_pow_elementwise (rc rn : Bool) (a : Arr R) (kshape ks : List Nat) (r : Arr R) (ha : a.WF)
    (h : Arr.powArr rc rn a kshape ks = .ok r) :
    r.WF ∧ bshape a.shape kshape = some r.shape ∧
      ∃ (σa : Fin (size r.shape) → Fin (size a.shape)) (σk : Fin (size r.shape) → Fin (size kshape)),
        (∀ i, (σa i).val = bindex a.shape r.shape i.val) ∧ (∀ i, (σk i).val = bindex kshape r.shape i.val) ∧
        ∀ i, r.elem i = a.elem (σa i) ^ (ks.getD (σk i).val 0) :=
  Arr.powArr_spec rc rn a kshape ks r ha h

/-- … and it always succeeds for broadcastable shapes without a zero-length axis -/
theorem array_pow_succeeds (rc rn : Bool) (a : Arr R) (kshape ks : List Nat) (ha : a.WF)
    (hsa : ∀ d ∈ a.shape, 0 < d) (hsk : ∀ d ∈ kshape, 0 < d) (s : List Nat) (hs : bshape a.shape kshape = some s) :
    ∃ p, Arr.powArr rc rn a kshape ks = .ok ⟨s, p⟩ :=
  Arr.powArr_total' rc rn a kshape ks ha hsa hsk s hs
end arrays

/-! ### broadcasting is numpy's and never leaves the model's domain -/
section broadcasting
variable {R : Type}

/-- the model's `bshape` is `numpy.broadcast_shapes`: the result has the larger rank and, aligned from the right,
every dimension of either operand equals the result's or is 1 -/
theorem broadcast_shape_is_numpy {s t r : List Nat} (h : bshape s t = some r) :
    r.length = max s.length t.length ∧
    (∀ k, k < s.length → s.reverse[k]? = r.reverse[k]? ∨ s.reverse[k]? = some 1) ∧
    (∀ k, k < t.length → t.reverse[k]? = r.reverse[k]? ∨ t.reverse[k]? = some 1) :=
  Shape.bshape_spec h

/-- an operand which already has the broadcast shape is not rearranged -/
theorem broadcast_same_shape {s : List Nat} (hs : ∀ d ∈ s, 0 < d) {i : Nat} (hi : i < size s) :
    bindex s s i = i := Shape.bindex_same hs hi

/-- **totality**: for operands without a zero-length axis a binary operation has exactly two kinds of outcome —
`ValueError` iff the shapes do not broadcast, otherwise a result of the broadcast shape (or the "unwritten memory"
error which only `multiply`'s kernel model can raise); the model's own out-of-domain error is unreachable, so the
specification theorems above apply to every such call -/
theorem binop_total
    (f : (n : Nat) → Poly (Vec R n) → Poly (Vec R n) → Option (Poly (Vec R n))) (a b : Arr R)
    (ha : ∀ d ∈ a.shape, 0 < d) (hb : ∀ d ∈ b.shape, 0 < d) :
    (bshape a.shape b.shape = none ∧ Arr.binop f a b = .error .valueError) ∨
    (∃ s, bshape a.shape b.shape = some s ∧
      (Arr.binop f a b = .error .uninit ∨ ∃ p, Arr.binop f a b = .ok ⟨s, p⟩)) :=
  Arr.binop_cases f a b ha hb

/-- `+` on broadcastable operands without a zero-length axis always succeeds with the broadcast shape -/
theorem add_succeeds [CommRing R] [BEq R] (rc rn : Bool) (a b : Arr R) {s : List Nat}
    (hs : bshape a.shape b.shape = some s)
    (ha : ∀ d ∈ a.shape, 0 < d) (hb : ∀ d ∈ b.shape, 0 < d) :
    ∃ p, Arr.add rc rn a b = .ok ⟨s, p⟩ := by
  rcases Arr.binop_cases (fun _ x y => some (Np.add rc rn x y)) a b ha hb with ⟨hn, _⟩ | ⟨s', hs', h⟩
  · rw [hs] at hn; cases hn
  · rw [hs] at hs'; cases hs'
    rcases h with h | h
    · exfalso
      unfold Arr.binop at h
      rw [hs] at h
      obtain ⟨h1, h2⟩ := Arr.bcast_total a b hs ha hb
      cases hpa : a.bcast s with
      | none => exact h1 hpa
      | some pa =>
        cases hpb : b.bcast s with
        | none => exact h2 hpb
        | some pb => simp [hpa, hpb] at h
    · exact h
end broadcasting

/-! ### programs that also use `**` with an array of exponents (`Expr2` / `evalModel2` is what the driver evaluates) -/
section programs
variable {R : Type} [CommRing R] [BEq R] [LawfulBEq R]

/-- **every program** over `+ - neg pos * **k **array`: whenever the model evaluates it, the result is well-formed and
agrees, shape and element by element, with the evaluation of the same program in `MvPolynomial Name R`, where `**`
with an array raises each broadcast element to its own exponent -/
theorem program_den (rc rn : Bool) (env : List (Arr R)) (henv : ∀ a ∈ env, a.WF) (t : Expr2) (r : Arr R)
    (h : evalModel2 rc rn env t = .ok r) : r.WF ∧ ∃ sf, specEval2 env t = some sf ∧ Agrees r sf :=
  expr2_den rc rn env henv t r h

/-- the programs of `expr_den` are the programs without array exponents -/
theorem program_embeds (rc rn : Bool) (env : List (Arr R)) (t : Expr) :
    evalModel2 rc rn env t.embed = evalModel rc rn env t := evalModel2_embed rc rn env t
end programs

/-- non-vacuity: a = [[q0+1, q2]] (1×2, names q0,q2), b = [[q1],[q0·q1]] (2×1): the model evaluates (a+b)·b² to a
2×2 array over q0,q1,q2 -/
example :
    let a : Arr Int := ⟨[1, 2], { names := [0, 2], terms := [([0, 0], #v[1, 0]), ([1, 0], #v[1, 0]), ([0, 1], #v[0, 1])] }⟩
    let b : Arr Int := ⟨[2, 1], { names := [0, 1], terms := [([0, 1], #v[1, 0]), ([1, 1], #v[0, 1])] }⟩
    (match evalModel false true [a, b] (.mul (.add (.leaf 0) (.leaf 1)) (.pow (.leaf 1) 2)) with
      | .ok r => (r.shape, r.poly.names, r.poly.terms.length)
      | .error _ => ([], [], 0)) = ([2, 2], [0, 1, 2], 8) := by decide +kernel
end Np.Props.C01

import Np.Proofs.DType
import Np.Proofs.Multiply
/-! C12 — coefficient values survive every dtype; no uninitialised memory is returned: property theorems over the
dtype switch regenerated from cvalues.pyx and the guard regenerated from from_attributes.py -/
namespace Np.Props.C12
open Np.DT

/-- the statement quantifies over every numeric dtype numpy offers -/
theorem all_dtypes (d : DType) : d ∈ all := all_complete d

/-- table obligation: for every source dtype and every requested dtype (or none) the constructor of the working
tree stores numpy's cast of the source value in a field of the requested dtype — never unwritten memory, never
reinterpreted bytes -/
theorem fromAttributes_table :
    ∀ src ∈ all, ∀ req ∈ (none :: all.map some),
      fromAttributes src req = (req.getD src, .val src (req.getD src)) := by decide +kernel

/-- table obligation: the Python-side guard only admits dtypes both compiled helpers really handle -/
theorem guard_sound :
    ∀ g ∈ Generated.cfunctionDtypes?.getD [], g ∈ csetDtypes ∧ g ∈ caddDtypes := by decide +kernel

/-- the unguarded path (before the repair of D10) leaves 9 source dtypes unwritten and reinterprets bytes on a
dtype request: the reason the guard and the cast exist -/
theorem old_path_uninit : (all.filter fun d => (fromAttributesOld d none).2 = .uninit).length = 9 := by decide +kernel
theorem old_path_garbage : (fromAttributesOld .i64 (some .f64)).2 = .garbage := by decide +kernel

/-- table obligation: every product term of `multiply`, for every ordered pair of dtypes, is a value of numpy's
promoted dtype -/
theorem multiply_table :
    ∀ a ∈ all, ∀ b ∈ all,
      multiplyCell (Generated.cfunctionDtypes?.getD []) a b = (promote a b, .val (promote a b) (promote a b)) := by
  decide +kernel

/-- the promotion table is symmetric and idempotent on the diagonal (sanity of the regenerated numpy fact) -/
theorem promotion_sane : (∀ a ∈ all, promote a a = a) ∧ (∀ a ∈ all, ∀ b ∈ all, promote a b = promote b a) := by
  decide +kernel

/-- no buffer cell of a product is left unwritten: the set-or-accumulate loop writes every allocated key, for every
number of terms (the allocated keys are exactly the pair sums) -/
theorem product_fully_written {S : Type} [CommSemiring S] (keys : List Expo) (a b : List (Expo × S))
    (h : ∀ k ∈ keys, k ∈ (pairProducts a b).map (·.1)) :
    freeze (cmultiply keys a b) = some (keys.map fun k => (k, sumFor k (pairProducts a b))) :=
  freeze_cmultiply keys a b h

/-- non-vacuity -/
example : fromAttributes .i32 (some .f32) = (.f32, .val .i32 .f32) ∧ promote .u8 .i8 = .i16 := by decide +kernel
/-- D31: inferring the dtype after cleaning made it depend on `retain_coefficients` — an int64 constant next to an
all-zero float64 coefficient is int64 with the flag off and float64 with it on; the repaired constructor infers it from
all coefficients, so the flag is not even an argument of `inferDtype` -/
theorem old_dtype_depended_on_option :
    inferDtypeOld false [(.i64, false), (.f64, true)] ≠ inferDtypeOld true [(.i64, false), (.f64, true)] := by
  decide +kernel
/-- (the inferred type is the promotion of *all* the coefficient types, in the order given, by the pairwise table; for
one or two types that is numpy's `result_type`. numpy's promotion of three or more types at once is not always this left
fold - `result_type(int8, uint16, complex64)` is complex64, the fold gives complex128 -, so beyond two types the run
compares the implementation with numpy's own n-ary `result_type` and counts the fold's deviations as drift of the model) -/
theorem dtype_is_promotion_of_all (c : DType × Bool) (cs : List (DType × Bool)) :
    inferDtype (c :: cs) = some (cs.foldl (fun d x => promote d x.1) c.1) := rfl

/-! ### numpy's promotion of several coefficient types at once (`Np.DT.promoteAll`, a transcription of
`PyArray_PromoteDTypeSequence`; compared with `numpy.result_type` on every pair and triple of the 14 types and on random
longer tuples by every run) -/

/-- for two types it is the pairwise table -/
theorem promoteAll_pair : ∀ a ∈ all, ∀ b ∈ all, promoteAll [a, b] = some (promote a b) := by decide +kernel

/-- it does not depend on the order in which the types are given (all 2744 triples, all six orders) -/
theorem promoteAll_triple_symmetric : ∀ a ∈ all, ∀ b ∈ all, ∀ c ∈ all,
    promoteAll [a, b, c] = promoteAll [b, a, c] ∧ promoteAll [a, b, c] = promoteAll [a, c, b] ∧
    promoteAll [a, b, c] = promoteAll [c, b, a] := by decide +kernel

/-- the result absorbs every one of the types given (promoting it with any input changes nothing): it is an upper bound
of the inputs in numpy's promotion order - so every coefficient can be cast into the stored type by a promotion -/
theorem promoteAll_triple_upper_bound : ∀ a ∈ all, ∀ b ∈ all, ∀ c ∈ all,
    ((promoteAll [a, b, c]).map fun r => decide (promote r a = r ∧ promote r b = r ∧ promote r c = r)) = some true := by
  decide +kernel

/-- it is not the left fold of the pairwise table: the fold over int8, uint16, complex64 ends in complex128 (int8 and
uint16 meet in int32 first), numpy - and the constructor, which asks numpy - answer complex64; the fold even depends on
the order -/
theorem promotion_is_not_a_fold :
    inferDtype [(.i8, false), (.u16, false), (.c64, false)] = some .c128 ∧
    inferDtype [(.c64, false), (.i8, false), (.u16, false)] = some .c64 ∧
    promoteAll [.i8, .u16, .c64] = some .c64 := by decide +kernel

/-- the inferred coefficient type of the constructor is numpy's promotion of all the coefficient types given: it
mentions neither the retain flags nor which coefficients are all zero -/
theorem inferred_dtype_is_numpy_promotion (cols : List (DType × Bool)) :
    inferDtypeN promoteAll cols = promoteAll (cols.map (·.1)) := rfl

end Np.Props.C12

import Np.Proofs.Call
import Np.Model.CallArr
import Mathlib.Algebra.MvPolynomial.Monad
import Np.Proofs.CallArr
import Np.Proofs.CallTop
/-! C02 — evaluation and substitution compute the polynomial's value: property theorems -/
namespace Np.Props.C02
open MvPolynomial
variable {R : Type} [CommSemiring R]

/-- the evaluation loop `out += coefficient * prod(arg[name] ** power)` equals `MvPolynomial.eval` of the
denotation — every number of terms and indeterminates -/
theorem call_eval (arg : Name → R) (ns : List Name) (ts : List (Expo × R)) :
    evalTerms arg ns ts = eval arg (denT ns ts) := evalTerms_eq_eval arg ns ts

/-- staged evaluation / evaluation through a substituted polynomial agree with evaluation at once (Mathlib) -/
theorem call_staged (σ : Name → MvPolynomial Name R) (arg : Name → R) (p : MvPolynomial Name R) :
    eval arg (bind₁ σ p) = eval (fun n => eval arg (σ n)) p := by
  simp only [eval, eval₂Hom_bind₁]

section bind
variable {α : Type}

/-- an unknown keyword raises `TypeError` -/
theorem call_unknown_keyword (names : List Name) (args : List (Option α)) (kwargs : List (Name × α))
    (h : ∃ kv ∈ kwargs, kv.1 ∉ names) : bindArgs names args kwargs = none := by
  obtain ⟨kv, hkv, hn⟩ := h
  unfold bindArgs
  split
  · rfl
  · have : kwargs.any (fun kv => !(names.contains kv.1)) = true :=
      List.any_eq_true.2 ⟨kv, hkv, by simpa using hn⟩
    rw [if_pos this]

/-- a name given positionally and by keyword raises `TypeError` -/
theorem call_double (names : List Name) (args : List (Option α)) (kwargs : List (Name × α)) (k : Nat)
    (hk : k < args.length) (hn : k < names.length) (h : ∃ kv ∈ kwargs, kv.1 = names[k]) :
    bindArgs names args kwargs = none := by
  obtain ⟨kv, hkv, he⟩ := h
  unfold bindArgs
  have : (List.zip args names).any (fun an => kwargs.any (fun kv => kv.1 == an.2)) = true := by
    rw [List.any_eq_true]
    refine ⟨(args[k], names[k]), ?_, ?_⟩
    · rw [List.mem_iff_getElem]
      exact ⟨k, by simp [hk, hn], by simp⟩
    · exact List.any_eq_true.2 ⟨kv, hkv, by simp [he]⟩
  simp [this]

/-- otherwise every indeterminate gets its positional value, else its keyword value, else stays free -/
theorem call_binds (names : List Name) (args : List (Option α)) (kwargs : List (Name × α))
    (h1 : (List.zip args names).any (fun an => kwargs.any (fun kv => kv.1 == an.2)) = false)
    (h2 : kwargs.any (fun kv => !(names.contains kv.1)) = false) :
    bindArgs names args kwargs = some ((List.range names.length).map fun k =>
      match (args.getD k none) with
      | some a => some a
      | none => (kwargs.find? (fun kv => kv.1 == names.getD k 0)).map (·.2)) := by
  unfold bindArgs
  rw [if_neg (by rw [h1]; simp), if_neg (by rw [h2]; simp)]
  rfl

/-- `None` as a keyword value (`bindArgsN`, what the driver runs): the two `TypeError`s are decided by the keyword *names*
alone, and otherwise every indeterminate gets its positional value, else the value of its keyword unless that is `None`,
else stays free -/
theorem call_binds_none_keyword {β : Type} (names : List Name) (args : List (Option β)) (kwargs : List (Name × Option β))
    (h1 : (List.zip args names).any (fun an => kwargs.any (fun kv => kv.1 == an.2)) = false)
    (h2 : kwargs.any (fun kv => !(names.contains kv.1)) = false) :
    bindArgsN names args kwargs = some ((List.range names.length).map fun k =>
      match (args.getD k none) with
      | some a => some a
      | none => (kwargs.find? (fun kv => kv.1 == names.getD k 0)).bind (·.2)) := by
  have h1' : (List.zip (args.map (Option.map some)) names).any
      (fun an => kwargs.any (fun kv => kv.1 == an.2)) = false := by
    rw [List.any_eq_false] at h1 ⊢
    intro an han
    have hz : List.zip (args.map (Option.map some)) names = (List.zip args names).map (Prod.map (Option.map some) id) := by
      rw [← List.zip_map, List.map_id]
    rw [hz] at han
    obtain ⟨bn, hbn, rfl⟩ := List.mem_map.1 han
    exact h1 bn hbn
  unfold bindArgsN
  rw [call_binds names _ kwargs h1' h2, Option.map_some, List.map_map]
  congr 1
  refine List.map_congr_left fun k _ => ?_
  have hk : (args.map (Option.map some)).getD k none = (args.getD k none).map some := by
    rw [List.getD_eq_getElem?_getD, List.getD_eq_getElem?_getD, List.getElem?_map]
    cases args[k]? <;> rfl
  simp only [Function.comp_apply]
  rw [hk]
  cases args.getD k none with
  | some a => rfl
  | none =>
    simp only [Option.map_none]
    cases kwargs.find? (fun kv => kv.1 == names.getD k 0) <;> rfl

/-- an unknown keyword or a doubly given name is a `TypeError` also when the keyword's value is `None` -/
theorem call_none_keyword_errors {β : Type} (names : List Name) (args : List (Option β)) (kwargs : List (Name × Option β))
    (h : (List.zip (args.map (Option.map some)) names).any (fun an => kwargs.any (fun kv => kv.1 == an.2)) = true ∨
      kwargs.any (fun kv => !(names.contains kv.1)) = true) : bindArgsN names args kwargs = none := by
  unfold bindArgsN bindArgs
  rcases h with h | h
  · rw [if_pos h]; rfl
  · by_cases h' : (List.zip (args.map (Option.map some)) names).any (fun an => kwargs.any (fun kv => kv.1 == an.2)) = true
    · rw [if_pos h']; rfl
    · rw [if_neg h', if_pos h]; rfl
end bind

/-! ### the complete call `poly(*args, **kwargs)` of the model (`callArr`: what the driver runs) — Np/Proofs/CallTop.lean.
`CallOK`: the polynomial array and every bound operand are well-formed, no zero-length axes. `callSubst ashape j names
params` sends indeterminate number `t` to element `j` (broadcast) of the `t`-th bound operand, or keeps it. -/
section top
open Shape
variable {R : Type} [CommRing R] [BEq R] [LawfulBEq R]

/-- **outcomes**: `ValueError` iff the argument shapes do not broadcast among themselves — the only possible error
(the model's `.internal` and `.uninit` are unreachable); otherwise a plain array or a polynomial array of shape
`poly.shape + broadcast(argument shapes)` -/
theorem call_outcomes (rc rn : Bool) (p : Arr R) (params : List (Option (Arr R))) (ok : CallOK p params) :
    ((argShape p params = none ∧ callArr rc rn p params = .error .valueError) ∨
     (∃ ashape, argShape p params = some ashape ∧
      ((∃ vals, callArr rc rn p params = .array (p.shape ++ ashape) vals) ∨
       (∃ r, callArr rc rn p params = .poly r ∧ r.shape = p.shape ++ ashape)))) ∧
    ∀ e, callArr rc rn p params = .error e ↔ e = .valueError ∧ argShape p params = none :=
  ⟨callArr_cases rc rn p params ok, fun e => callArr_error_iff rc rn p params ok e⟩

/-- **full evaluation**: a plain-array result holds, at position `(i, j)`, exactly the value of the substituted
element `i` — and the plain-array branch is taken exactly when every substituted element is a constant -/
theorem call_returns_values (rc rn : Bool) (p : Arr R) (params : List (Option (Arr R))) (ok : CallOK p params)
    {shape : List Nat} {vals : List R} (h : callArr rc rn p params = .array shape vals) :
    ∃ ashape, argShape p params = some ashape ∧ shape = p.shape ++ ashape ∧ vals.length = size shape ∧
      ∀ (i : Fin (size p.shape)) (j : Fin (size ashape)) (hk : i.val * size ashape + j.val < vals.length),
        bind₁ (callSubst ashape j.val p.poly.names params) (p.elem i) = C (vals[i.val * size ashape + j.val]) :=
  callArr_array_spec rc rn p params ok h
theorem call_array_iff_constant (rc rn : Bool) (p : Arr R) (params : List (Option (Arr R))) (ok : CallOK p params)
    {ashape : List Nat} (hs : argShape p params = some ashape) :
    (∃ shape vals, callArr rc rn p params = .array shape vals) ↔
      ∀ (i : Fin (size p.shape)) (j : Fin (size ashape)),
        ∃ c, bind₁ (callSubst ashape j.val p.poly.names params) (p.elem i) = C c :=
  callArr_array_iff rc rn p params ok hs

/-- **partial evaluation / substitution**: a polynomial result is well-formed and position `(i, j)` is the `bind₁`
substitution into element `i` (unbound indeterminates stay) -/
theorem call_returns_substitution (rc rn : Bool) (p : Arr R) (params : List (Option (Arr R))) (ok : CallOK p params)
    {r : Arr R} (h : callArr rc rn p params = .poly r) :
    r.WF ∧ ∃ ashape, argShape p params = some ashape ∧ r.shape = p.shape ++ ashape ∧
      ∀ (i : Fin (size p.shape)) (j : Fin (size ashape)) (k : Fin (size r.shape)),
        k.val = i.val * size ashape + j.val →
        r.elem k = bind₁ (callSubst ashape j.val p.poly.names params) (p.elem i) :=
  callArr_poly_spec rc rn p params ok h

/-- what the substitution does to each indeterminate of the polynomial -/
theorem call_substitution_pointwise (ashape : List Nat) (j : Nat) (ns : List Name) (params : List (Option (Arr R)))
    (t : Nat) (ht : t < ns.length) (hn : ns.Nodup) :
    callSubst ashape j ns params ns[t] =
      match params.getD t none with
      | some b => elemAt b (bindex b.shape ashape j)
      | none => X ns[t] :=
  callSubst_getElem ashape j ns params t ht hn
end top

/-- non-vacuity: (q0²q1 + 3)(q0=2, q1=-1) = -1 -/
example : evalTerms (fun n => if n = 0 then (2 : Int) else -1) [0, 1] [([2, 1], 1), ([0, 0], 3)] = -1 := by decide

/-! ### the array-level `call` of the model (what the driver executes) -/
section arrays
variable {R : Type} [CommRing R] [BEq R] [LawfulBEq R] {n m : Nat}

/-- **C02 on arrays, against Mathlib**: for a well-formed polynomial array `p` (flat size `n`) and one well-formed
parameter per indeterminate (flat size `m`, i.e. already broadcast against each other), the executable `callPoly`
succeeds, its result is well-formed, and *every* position `(i, j)` of the `n × m` result is Mathlib's substitution
`bind₁` of the parameters' elements at `j` into element `i` of `p` — every number of terms, indeterminates, every
shape, both retain flags -/
theorem call_array_is_bind₁ (rc rn : Bool) (p : Poly (Vec R n)) (params : List (Poly (Vec R m)))
    (hw : WF p) (hp : ∀ q ∈ params, WF q) (hlen : params.length = p.names.length) :
    ∃ out, callPoly rc rn p params = some out ∧ WF out ∧
      ∀ (i : Fin n) (j : Fin m) (k : Fin (n * m)), k.val = i.val * m + j.val →
        denAt out k = bind₁ (substOf j p.names params) (denAt p i) :=
  callPoly_bind₁ rc rn p params hw hp hlen

/-- the sum of products which `call` forms for position `(i, j)` is `eval₂` of element `i` -/
theorem call_sum_is_eval₂ (p : Poly (Vec R n)) (params : List (Poly (Vec R m))) (hn : p.names.Nodup)
    (hlen : params.length = p.names.length) (i : Fin n) (j : Fin m) :
    (p.terms.map fun t => C (t.2.get i) *
        ((List.zip params t.1).map fun qe => denAt qe.1 j ^ qe.2).prod).sum
      = eval₂ C (substOf j p.names params) (denAt p i) :=
  call_is_eval₂ p params hn hlen i j
end arrays

end Np.Props.C02

import Np.Proofs.Call
import Np.Model.CallArr
import Mathlib.Algebra.MvPolynomial.Monad
import Np.Proofs.CallArr
/-! C02 — evaluation and substitution compute the polynomial's value: property theorems -/
namespace Np.Props.C02
open MvPolynomial
variable {R : Type} [CommSemiring R]

/-- the evaluation loop `out += coefficient * prod(arg[name] ** power)` equals `MvPolynomial.eval` of the
denotation — every number of terms and indeterminates -/
theorem call_eval (arg : Name → R) (ns : List Name) (ts : List (Expo × R)) :
    evalTerms arg ns ts = eval arg (denT ns ts) := evalTerms_eq_eval arg ns ts

/-- staged evaluation / evaluation through a substituted polynomial agree with evaluation at once (Mathlib) -/
theorem call_staged (σ : Name → MvPolynomial Name R) (arg : Name → R) (p : MvPolynomial Name R) :
    eval arg (bind₁ σ p) = eval (fun n => eval arg (σ n)) p := by
  simp only [eval, eval₂Hom_bind₁]

section bind
variable {α : Type}

/-- an unknown keyword raises `TypeError` -/
theorem call_unknown_keyword (names : List Name) (args : List (Option α)) (kwargs : List (Name × α))
    (h : ∃ kv ∈ kwargs, kv.1 ∉ names) : bindArgs names args kwargs = none := by
  obtain ⟨kv, hkv, hn⟩ := h
  unfold bindArgs
  split
  · rfl
  · have : kwargs.any (fun kv => !(names.contains kv.1)) = true :=
      List.any_eq_true.2 ⟨kv, hkv, by simpa using hn⟩
    rw [if_pos this]

/-- a name given positionally and by keyword raises `TypeError` -/
theorem call_double (names : List Name) (args : List (Option α)) (kwargs : List (Name × α)) (k : Nat)
    (hk : k < args.length) (hn : k < names.length) (h : ∃ kv ∈ kwargs, kv.1 = names[k]) :
    bindArgs names args kwargs = none := by
  obtain ⟨kv, hkv, he⟩ := h
  unfold bindArgs
  have : (List.zip args names).any (fun an => kwargs.any (fun kv => kv.1 == an.2)) = true := by
    rw [List.any_eq_true]
    refine ⟨(args[k], names[k]), ?_, ?_⟩
    · rw [List.mem_iff_getElem]
      exact ⟨k, by simp [hk, hn], by simp⟩
    · exact List.any_eq_true.2 ⟨kv, hkv, by simp [he]⟩
  simp [this]

/-- otherwise every indeterminate gets its positional value, else its keyword value, else stays free -/
theorem call_binds (names : List Name) (args : List (Option α)) (kwargs : List (Name × α))
    (h1 : (List.zip args names).any (fun an => kwargs.any (fun kv => kv.1 == an.2)) = false)
    (h2 : kwargs.any (fun kv => !(names.contains kv.1)) = false) :
    bindArgs names args kwargs = some ((List.range names.length).map fun k =>
      match (args.getD k none) with
      | some a => some a
      | none => (kwargs.find? (fun kv => kv.1 == names.getD k 0)).map (·.2)) := by
  unfold bindArgs
  rw [if_neg (by rw [h1]; simp), if_neg (by rw [h2]; simp)]
  rfl
end bind

/-- non-vacuity: (q0²q1 + 3)(q0=2, q1=-1) = -1 -/
example : evalTerms (fun n => if n = 0 then (2 : Int) else -1) [0, 1] [([2, 1], 1), ([0, 0], 3)] = -1 := by decide

/-! ### the array-level `call` of the model (what the driver executes) -/
section arrays
variable {R : Type} [CommRing R] [BEq R] [LawfulBEq R] {n m : Nat}

/-- **C02 on arrays, against Mathlib**: for a well-formed polynomial array `p` (flat size `n`) and one well-formed
parameter per indeterminate (flat size `m`, i.e. already broadcast against each other), the executable `callPoly`
succeeds, its result is well-formed, and *every* position `(i, j)` of the `n × m` result is Mathlib's substitution
`bind₁` of the parameters' elements at `j` into element `i` of `p` — every number of terms, indeterminates, every
shape, both retain flags -/
theorem call_array_is_bind₁ (rc rn : Bool) (p : Poly (Vec R n)) (params : List (Poly (Vec R m)))
    (hw : WF p) (hp : ∀ q ∈ params, WF q) (hlen : params.length = p.names.length) :
    ∃ out, callPoly rc rn p params = some out ∧ WF out ∧
      ∀ (i : Fin n) (j : Fin m) (k : Fin (n * m)), k.val = i.val * m + j.val →
        denAt out k = bind₁ (substOf j p.names params) (denAt p i) :=
  callPoly_bind₁ rc rn p params hw hp hlen

/-- the sum of products which `call` forms for position `(i, j)` is `eval₂` of element `i` -/
theorem call_sum_is_eval₂ (p : Poly (Vec R n)) (params : List (Poly (Vec R m))) (hn : p.names.Nodup)
    (hlen : params.length = p.names.length) (i : Fin n) (j : Fin m) :
    (p.terms.map fun t => C (t.2.get i) *
        ((List.zip params t.1).map fun qe => denAt qe.1 j ^ qe.2).prod).sum
      = eval₂ C (substOf j p.names params) (denAt p i) :=
  call_is_eval₂ p params hn hlen i j
end arrays

end Np.Props.C02

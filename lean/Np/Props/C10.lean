import Np.Proofs.MapCoef
import Np.Proofs.Det
import Np.Model.Maps
import Np.Proofs.DetPoly
import Np.Proofs.Reduce
/-! C10 — reductions and linear algebra equal finite sums and products of elements: property theorems -/
namespace Np.Props.C10
open MvPolynomial
variable {S T : Type} [CommSemiring S] [CommSemiring T]

/-- applying one *additive* map to every coefficient column (sum, cumsum, diff, ediff1d, mean along any axis are
such maps, given by their weight matrix) acts coefficient-wise on the polynomial denoted: every coefficient of the
result is the map applied to the corresponding coefficient — for every weight matrix, shape and number of terms -/
theorem linear_coeff (φ : S →+ T) (p : Poly S) (m : Name →₀ ℕ) :
    coeff m (den (mapCoef φ p)) = φ (coeff m (den p)) := by
  simp only [den, mapCoef]
  generalize p.terms = ts
  induction ts with
  | nil => simp
  | cons t ts ih =>
    simp only [List.map_cons, denT_cons, coeff_add, map_add, ih, coeff_monomial]
    split <;> simp

/-- a weighted sum of elements is additive in the column: the hypothesis of `linear_coeff` holds for every weight list -/
theorem linearCol_add {R : Type} [CommSemiring R] {n : Nat} (m : Nat) (W : List (List (Nat × R))) (u v : Vec R n) :
    linearCol m W (u + v) = linearCol m W u + linearCol m W v := by
  apply Vec.ext'
  intro i
  simp only [linearCol, Vec.get_ofFn, Vec.get_add]
  generalize (W.getD i.val []) = row
  have key : ∀ (a b : R),
      row.foldl (fun acc jw => if h : jw.1 < n then acc + jw.2 * (u.get ⟨jw.1, h⟩ + v.get ⟨jw.1, h⟩) else acc) (a + b)
      = row.foldl (fun acc jw => if h : jw.1 < n then acc + jw.2 * u.get ⟨jw.1, h⟩ else acc) a
        + row.foldl (fun acc jw => if h : jw.1 < n then acc + jw.2 * v.get ⟨jw.1, h⟩ else acc) b := by
    induction row with
    | nil => intro a b; rfl
    | cons x xs ih =>
      intro a b
      simp only [List.foldl_cons]
      by_cases h : x.1 < n
      · simp only [h, dite_true]
        have : a + b + x.2 * (u.get ⟨x.1, h⟩ + v.get ⟨x.1, h⟩) = (a + x.2 * u.get ⟨x.1, h⟩) + (b + x.2 * v.get ⟨x.1, h⟩) := by ring
        rw [this]; exact ih _ _
      · simp only [h, dite_false]; exact ih a b
  simpa using key 0 0

/-- products of two polynomial arrays denote products (prod is an iterated instance; inner/outer/matmul combine
this with gathers and sums) -/
theorem product_den [BEq S] [LawfulBEq S] (rc rn : Bool) (a b : Poly S) (ha : WF a) (hb : WF b) :
    ∃ r, multiply rc rn a b = some r ∧ den r = den a * den b := mul_den rc rn a b ha hb

/-- the Laplace expansion with standard minors and alternating signs is the determinant, for every size -/
theorem det_spec {R : Type} [CommRing R] (n : Nat) (A : Fin n → Fin n → R) :
    Det.detStd n A = Matrix.det (Matrix.of A) := Det.detStd_eq_det n A

/-- the expansion with cyclically shifted minors and no sign (the shipped code before the repair of D8) is not -/
theorem det_old_wrong : Det.detOld 1 (fun _ _ => (5 : Int)) ≠ Matrix.det (Matrix.of fun (_ _ : Fin 1) => (5 : Int)) := by
  simp [Det.detOld]

/-- non-vacuity: summing the two elements of [q0+1, 3 q0] with weights (1, 1) -/
example : (linearCol 1 [[(0, (1 : Int)), (1, 1)]] (Vector.ofFn (n := 2) fun i => if i.val = 0 then 1 else 3)).toList = [4] := by
  decide

/-! ### the executable determinant of the model on polynomial arrays -/
section detexec
variable {R : Type} [CommRing R] [BEq R] [LawfulBEq R] {b : Nat}

/-- **C10 (det) for the executable model, against Mathlib**: for an `n × n` matrix (or a stack of `b` of them) of
well-formed polynomials, `detPoly` succeeds, the result is well-formed, and position `k` of it denotes
`Matrix.det` of the matrix of the polynomials at position `k` — every size `n`, every stack size -/
theorem det_array_is_det (rc rn : Bool) (n : Nat) (rows : List (List (Poly (Vec R b))))
    (hl : rows.length = n) (hrow : ∀ row ∈ rows, row.length = n) (hwf : ∀ row ∈ rows, ∀ p ∈ row, WF p) :
    ∃ d, detPoly rc rn n rows = some d ∧ WF d ∧ ∀ k : Fin b,
      denAt d k = Matrix.det (Matrix.of fun (i j : Fin n) => denAt ((rows[i.val]!)[j.val]!) k) :=
  detPoly_elem rc rn n rows hl hrow hwf
end detexec

/-! ### the executable reductions of the model, element by element (Np/Proofs/Reduce.lean) -/
section reduceexec
open Shape
variable {R : Type} [CommSemiring R] [BEq R] [LawfulBEq R]

/-- **sum, cumsum, diff, ediff1d, mean** (every axis / keepdims / n): element `i` of `linearOp` is the weighted sum of
the elements of `a` listed in row `i` of the weight matrix; the result is well-formed with the requested shape -/
theorem linear_is_weighted_sum (rc rn : Bool) (a : Arr R) (ha : a.WF) (outShape : List Nat)
    (W : List (List (Nat × R))) :
    (linearOp rc rn a outShape W).WF ∧ (linearOp rc rn a outShape W).shape = outShape ∧
    ∀ i : Fin (size outShape),
      (linearOp rc rn a outShape W).elem i = ((W.getD i.val []).map fun jw => C jw.2 * elemD a jw.1).sum :=
  ⟨linearOp_WF rc rn a ha outShape W, rfl, fun i => linearOp_elem rc rn a ha outShape W i⟩

/-- **inner, outer, matmul**: `bilinearOp` always succeeds on well-formed operands and element `i` is
`Σ_t a[ia(i,t)] · b[ib(i,t)]` -/
theorem bilinear_is_sum_of_products (rc rn : Bool) (a b : Arr R) (ha : a.WF) (hb : b.WF) (outShape : List Nat)
    (pairs : List (List Nat × List Nat)) :
    ∃ r : Arr R, bilinearOp rc rn a b outShape pairs = some r ∧ r.WF ∧ r.shape = outShape ∧
      ∀ i : Fin (size r.shape),
        r.elem i = (pairs.map fun p => gatheredElem a p.1 i.val * gatheredElem b p.2 i.val).sum :=
  bilinearOp_elem rc rn a b ha hb outShape pairs

/-- **prod along axes**: `prodOp` always succeeds and element `i` is `Π_t a[g(i,t)]` -/
theorem prod_is_product (rc rn : Bool) (a : Arr R) (ha : a.WF) (outShape : List Nat) (groups : List (List Nat)) :
    ∃ r : Arr R, prodOp rc rn a outShape groups = some r ∧ r.WF ∧ r.shape = outShape ∧
      ∀ i : Fin (size r.shape), r.elem i = (groups.map fun g => gatheredElem a g i.val).prod :=
  prodOp_elem rc rn a ha outShape groups
end reduceexec

end Np.Props.C10

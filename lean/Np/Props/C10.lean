import Np.Proofs.MapCoef
import Np.Proofs.Det
import Np.Model.Maps
import Np.Proofs.DetPoly
import Np.Proofs.Reduce
import Np.Proofs.ReduceFns
import Np.Proofs.BilinearFns
import Np.Proofs.ReduceFns2
/-! C10 — reductions and linear algebra equal finite sums and products of elements: property theorems -/
namespace Np.Props.C10
open MvPolynomial
variable {S T : Type} [CommSemiring S] [CommSemiring T]

/-- applying one *additive* map to every coefficient column (sum, cumsum, diff, ediff1d, mean along any axis are
such maps, given by their weight matrix) acts coefficient-wise on the polynomial denoted: every coefficient of the
result is the map applied to the corresponding coefficient — for every weight matrix, shape and number of terms -/
theorem linear_coeff (φ : S →+ T) (p : Poly S) (m : Name →₀ ℕ) :
    coeff m (den (mapCoef φ p)) = φ (coeff m (den p)) := by
  simp only [den, mapCoef]
  generalize p.terms = ts
  induction ts with
  | nil => simp
  | cons t ts ih =>
    simp only [List.map_cons, denT_cons, coeff_add, map_add, ih, coeff_monomial]
    split <;> simp

/-- a weighted sum of elements is additive in the column: the hypothesis of `linear_coeff` holds for every weight list -/
theorem linearCol_add {R : Type} [CommSemiring R] {n : Nat} (m : Nat) (W : List (List (Nat × R))) (u v : Vec R n) :
    linearCol m W (u + v) = linearCol m W u + linearCol m W v := by
  apply Vec.ext'
  intro i
  simp only [linearCol, Vec.get_ofFn, Vec.get_add]
  generalize (W.getD i.val []) = row
  have key : ∀ (a b : R),
      row.foldl (fun acc jw => if h : jw.1 < n then acc + jw.2 * (u.get ⟨jw.1, h⟩ + v.get ⟨jw.1, h⟩) else acc) (a + b)
      = row.foldl (fun acc jw => if h : jw.1 < n then acc + jw.2 * u.get ⟨jw.1, h⟩ else acc) a
        + row.foldl (fun acc jw => if h : jw.1 < n then acc + jw.2 * v.get ⟨jw.1, h⟩ else acc) b := by
    induction row with
    | nil => intro a b; rfl
    | cons x xs ih =>
      intro a b
      simp only [List.foldl_cons]
      by_cases h : x.1 < n
      · simp only [h, dite_true]
        have : a + b + x.2 * (u.get ⟨x.1, h⟩ + v.get ⟨x.1, h⟩) = (a + x.2 * u.get ⟨x.1, h⟩) + (b + x.2 * v.get ⟨x.1, h⟩) := by ring
        rw [this]; exact ih _ _
      · simp only [h, dite_false]; exact ih a b
  simpa using key 0 0

/-- products of two polynomial arrays denote products (prod is an iterated instance; inner/outer/matmul combine
this with gathers and sums) -/
theorem product_den [BEq S] [LawfulBEq S] (rc rn : Bool) (a b : Poly S) (ha : WF a) (hb : WF b) :
    ∃ r, multiply rc rn a b = some r ∧ den r = den a * den b := mul_den rc rn a b ha hb

/-- the Laplace expansion with standard minors and alternating signs is the determinant, for every size -/
theorem det_spec {R : Type} [CommRing R] (n : Nat) (A : Fin n → Fin n → R) :
    Det.detStd n A = Matrix.det (Matrix.of A) := Det.detStd_eq_det n A

/-- the expansion with cyclically shifted minors and no sign (the shipped code before the repair of D8) is not -/
theorem det_old_wrong : Det.detOld 1 (fun _ _ => (5 : Int)) ≠ Matrix.det (Matrix.of fun (_ _ : Fin 1) => (5 : Int)) := by
  simp [Det.detOld]

/-- non-vacuity: summing the two elements of [q0+1, 3 q0] with weights (1, 1) -/
example : (linearCol 1 [[(0, (1 : Int)), (1, 1)]] (Vector.ofFn (n := 2) fun i => if i.val = 0 then 1 else 3)).toList = [4] := by
  decide

/-! ### the executable determinant of the model on polynomial arrays -/
section detexec
variable {R : Type} [CommRing R] [BEq R] [LawfulBEq R] {b : Nat}

/-- **C10 (det) for the executable model, against Mathlib**: for an `n × n` matrix (or a stack of `b` of them) of
well-formed polynomials, `detPoly` succeeds, the result is well-formed, and position `k` of it denotes
`Matrix.det` of the matrix of the polynomials at position `k` — every size `n`, every stack size -/
theorem det_array_is_det (rc rn : Bool) (n : Nat) (rows : List (List (Poly (Vec R b))))
    (hl : rows.length = n) (hrow : ∀ row ∈ rows, row.length = n) (hwf : ∀ row ∈ rows, ∀ p ∈ row, WF p) :
    ∃ d, detPoly rc rn n rows = some d ∧ WF d ∧ ∀ k : Fin b,
      denAt d k = Matrix.det (Matrix.of fun (i j : Fin n) => denAt ((rows[i.val]!)[j.val]!) k) :=
  detPoly_elem rc rn n rows hl hrow hwf
end detexec

/-! ### the executable reductions of the model, element by element (Np/Proofs/Reduce.lean) -/
section reduceexec
open Shape
variable {R : Type} [CommSemiring R] [BEq R] [LawfulBEq R]

/-- **sum, cumsum, diff, ediff1d, mean** (every axis / keepdims / n): element `i` of `linearOp` is the weighted sum of
the elements of `a` listed in row `i` of the weight matrix; the result is well-formed with the requested shape -/
theorem linear_is_weighted_sum (rc rn : Bool) (a : Arr R) (ha : a.WF) (outShape : List Nat)
    (W : List (List (Nat × R))) :
    (linearOp rc rn a outShape W).WF ∧ (linearOp rc rn a outShape W).shape = outShape ∧
    ∀ i : Fin (size outShape),
      (linearOp rc rn a outShape W).elem i = ((W.getD i.val []).map fun jw => C jw.2 * elemD a jw.1).sum :=
  ⟨linearOp_WF rc rn a ha outShape W, rfl, fun i => linearOp_elem rc rn a ha outShape W i⟩

/-- **inner, outer, matmul**: `bilinearOp` always succeeds on well-formed operands and element `i` is
`Σ_t a[ia(i,t)] · b[ib(i,t)]` -/
theorem bilinear_is_sum_of_products (rc rn : Bool) (a b : Arr R) (ha : a.WF) (hb : b.WF) (outShape : List Nat)
    (pairs : List (List Nat × List Nat)) :
    ∃ r : Arr R, bilinearOp rc rn a b outShape pairs = some r ∧ r.WF ∧ r.shape = outShape ∧
      ∀ i : Fin (size r.shape),
        r.elem i = (pairs.map fun p => gatheredElem a p.1 i.val * gatheredElem b p.2 i.val).sum :=
  bilinearOp_elem rc rn a b ha hb outShape pairs

/-- **prod along axes**: `prodOp` always succeeds and element `i` is `Π_t a[g(i,t)]` -/
theorem prod_is_product (rc rn : Bool) (a : Arr R) (ha : a.WF) (outShape : List Nat) (groups : List (List Nat)) :
    ∃ r : Arr R, prodOp rc rn a outShape groups = some r ∧ r.WF ∧ r.shape = outShape ∧
      ∀ i : Fin (size r.shape), r.elem i = (groups.map fun g => gatheredElem a g i.val).prod :=
  prodOp_elem rc rn a ha outShape groups
end reduceexec

/-! ### numpy's index arithmetic for the reductions, inside the model (`Np/Model/ReduceFns.lean`; the run compares
every table with the weights the numpy function itself acts by). A shape with a valid axis is written `a ++ n :: b`
with `axis = a.length`; `InR idx s` = the multi-index lies inside the shape. -/
section tables
open Np.Shape Np.ReduceFns
variable (a b : List Nat) (n : Nat)

/-- `numpy.sum(x, axis, keepdims)`: the table has one row per output element, and the row of output multi-index
`x ++ y` (with a `0` in between under keepdims) lists exactly the inputs `x ++ t :: y`, `t < n`, each once, weight 1 -/
theorem sum_axis_table (k : Bool) : ∃ T, sumAxisW (a ++ n :: b) a.length k = some (sumOut a b k, T) ∧
    T.length = size (sumOut a b k) ∧
    (∀ row ∈ T, (row.map Prod.fst).Nodup ∧ ∀ iw ∈ row, iw.1 < size (a ++ n :: b) ∧ iw.2 = 1) ∧
    ∀ x y, InR x a → InR y b → T.getD (ravel (sumOut a b k) (sumIdx k x y)) [] =
      (List.range n).map fun t => (ravel (a ++ n :: b) (x ++ t :: y), 1) := sumAxisW_spec a b n k

/-- … and through the executable `linearOp`: the element at that output position of a well-formed polynomial array
*is* the finite sum of the operand's elements along the axis -/
theorem sum_axis_is_the_sum {R : Type} [CommRing R] [BEq R] [LawfulBEq R] (rc rn : Bool) (arr : Arr R) (ha : arr.WF)
    (hs : arr.shape = a ++ n :: b) (k : Bool) :
    ∃ T, sumAxisW arr.shape a.length k = some (sumOut a b k, T) ∧
      ∀ x y, InR x a → InR y b → ∀ i : Fin (size (sumOut a b k)), i.val = ravel (sumOut a b k) (sumIdx k x y) →
        (linearOp rc rn arr (sumOut a b k) (castW T)).elem i =
          ((List.range n).map fun t => elemD arr (ravel arr.shape (x ++ t :: y))).sum :=
  linearOp_sumAxisW a b n rc rn arr ha hs k

/-- an axis tuple holding one axis is that axis -/
theorem sum_axes_single (k : Bool) : sumAxesW (a ++ n :: b) [a.length] k = sumAxisW (a ++ n :: b) a.length k :=
  sumAxesW_single a b n k

/-- `numpy.sum` over an axis tuple (distinct axes in range): an input multi-index contributes to exactly the output
multi-index obtained by projecting the summed axes away -/
theorem sum_axes_table (shape axes : List Nat) (k : Bool) (h1 : ∀ ax ∈ axes, ax < shape.length) (h2 : axes.Nodup) :
    ∃ T, sumAxesW shape axes k = some (if k then keepShape axes shape 0 else dropShape axes shape 0, T) ∧
    T.length = size (keepShape axes shape 0) ∧ T.length = size (dropShape axes shape 0) ∧
    (∀ row ∈ T, (row.map Prod.fst).Pairwise (· < ·) ∧ ∀ iw ∈ row, iw.1 < size shape ∧ iw.2 = 1) ∧
    ∀ jdx, InR jdx (keepShape axes shape 0) → ∀ idx, InR idx shape →
      ((ravel shape idx, 1) ∈ T.getD (ravel (keepShape axes shape 0) jdx) [] ↔ projIdx axes idx 0 = jdx) :=
  sumAxesW_spec shape axes k h1 h2

/-- `numpy.cumsum(x, axis)`: the row of `x ++ u :: y` lists the inputs `x ++ t :: y` for `t ≤ u` -/
theorem cumsum_table : ∃ T, cumsumAxisW (a ++ n :: b) a.length = some (a ++ n :: b, T) ∧
    T.length = size (a ++ n :: b) ∧
    (∀ row ∈ T, (row.map Prod.fst).Nodup ∧ ∀ iw ∈ row, iw.1 < size (a ++ n :: b) ∧ iw.2 = 1) ∧
    ∀ x y u, InR x a → InR y b → u < n → T.getD (ravel (a ++ n :: b) (x ++ u :: y)) [] =
      (List.range (u + 1)).map fun t => (ravel (a ++ n :: b) (x ++ t :: y), 1) := cumsumAxisW_spec a b n

/-- `numpy.diff(x, axis=axis)`: `out[x, u, y] = in[x, u+1, y] − in[x, u, y]`, the axis shrinks by one -/
theorem diff_table : ∃ T, diffW (a ++ n :: b) a.length = some (a ++ (n - 1) :: b, T) ∧
    T.length = size (a ++ (n - 1) :: b) ∧
    (∀ row ∈ T, (row.map Prod.fst).Nodup ∧ ∀ iw ∈ row, iw.1 < size (a ++ n :: b) ∧ (iw.2 = 1 ∨ iw.2 = -1)) ∧
    ∀ x y u, InR x a → InR y b → u < n - 1 → T.getD (ravel (a ++ (n - 1) :: b) (x ++ u :: y)) [] =
      [(ravel (a ++ n :: b) (x ++ (u + 1) :: y), 1), (ravel (a ++ n :: b) (x ++ u :: y), -1)] := diffW_spec a b n

/-- `numpy.diff(x, n=2, axis)` is `diff` applied twice: weights `1, −2, 1` -/
theorem diff_twice_table : ∃ T, diffNW (a ++ n :: b) 2 a.length = some (a ++ (n - 2) :: b, T) ∧
    ∀ x y u, InR x a → InR y b → u + 2 < n → T.getD (ravel (a ++ (n - 2) :: b) (x ++ u :: y)) [] =
      [(ravel (a ++ n :: b) (x ++ (u + 2) :: y), 1), (ravel (a ++ n :: b) (x ++ (u + 1) :: y), -2),
        (ravel (a ++ n :: b) (x ++ u :: y), 1)] := diffNW_two a b n

/-- `numpy.ediff1d(x)`: differences of consecutive elements of the flattened array -/
theorem ediff1d_table (shape : List Nat) : ∃ T, ediff1dW shape = some ([size shape - 1], T) ∧
    T.length = size [size shape - 1] ∧
    (∀ row ∈ T, (row.map Prod.fst).Nodup ∧ ∀ iw ∈ row, iw.1 < size shape ∧ (iw.2 = 1 ∨ iw.2 = -1)) ∧
    ∀ j, j < size shape - 1 → T.getD j [] = [(j + 1, 1), (j, -1)] ∧
      T.getD j [] = [(ravel shape (unravel shape (j + 1)), 1), (ravel shape (unravel shape j), -1)] ∧
      InR (unravel shape (j + 1)) shape ∧ InR (unravel shape j) shape := ediff1dW_spec shape

/-- `numpy.prod(x, axis, keepdims)`: factor `t` at output multi-index `x ++ y` is the input at `x ++ t :: y` (1-based,
the layout `prodOp` consumes) -/
theorem prod_groups_table (k : Bool) : ∃ G, prodAxisGroups (a ++ n :: b) a.length k = some (sumOut a b k, G) ∧
    G.length = n ∧ ∀ x y t, InR x a → InR y b → t < n →
      (G.getD t []).getD (ravel (sumOut a b k) (sumIdx k x y)) 0 = ravel (a ++ n :: b) (x ++ t :: y) + 1 :=
  prodAxisGroups_spec a b n k

/-- non-vacuity: numpy.diff(arange(6).reshape(2,3), n=2, axis=1) and the mean over both axes of a 2x3 array -/
example : diffNW [2, 3] 2 1 = some ([2, 1], [[(2, 1), (1, -2), (0, 1)], [(5, 1), (4, -2), (3, 1)]]) := by decide
example : (sumAxesW [2, 3] [0, 1] true).map (·.1) = some [1, 1] := by decide
end tables

/-! ### numpy's index arithmetic for inner / outer / matmul inside the model (`Np/Model/BilinearFns.lean`), end to end
through the executable `bilinearOp` -/
section bilinear
open Np.Shape Np.BilinearFns Np.ReduceFns
variable {R : Type} [CommSemiring R] [BEq R] [LawfulBEq R]

/-- **matmul of two matrices**: element `(i, j)` of the result is `Σ_t a[i, t] · b[t, j]` in exact polynomial
arithmetic — for every `m, k, n`, any indeterminates and numbers of terms -/
theorem matmul_is_sum_of_products (rc rn : Bool) (a b : Arr R) (ha : a.WF) (hb : b.WF) {m k n : Nat}
    (hsa : a.shape = [m, k]) (hsb : b.shape = [k, n]) :
    ∃ P r, matmul2P m k n = some ([m, n], P) ∧ bilinearOp rc rn a b [m, n] P = some r ∧ r.WF ∧ r.shape = [m, n] ∧
      ∀ i j, i < m → j < n → ∀ p : Fin (size r.shape), p.val = ravel [m, n] [i, j] →
        r.elem p = ((List.range k).map fun t =>
          elemD a (ravel a.shape [i, t]) * elemD b (ravel b.shape [t, j])).sum :=
  bilinearOp_matmul2P rc rn a b ha hb hsa hsb

/-- **stacked matmul with broadcasting stacks** (numpy's rule for operands of 2 or more dimensions): element
`s ++ [i, j]` is `Σ_t a[bcast s ++ [i, t]] · b[bcast s ++ [t, j]]` -/
theorem stacked_matmul_is_sum_of_products (rc rn : Bool) (a b : Arr R) (ha : a.WF) (hb : b.WF)
    {stA stB st : List Nat} {m k n : Nat}
    (hsa : a.shape = stA ++ [m, k]) (hsb : b.shape = stB ++ [k, n]) (h : bshape stA stB = some st) :
    ∃ P r, matmulP a.shape b.shape = some (st ++ [m, n], P) ∧ bilinearOp rc rn a b (st ++ [m, n]) P = some r ∧
      r.WF ∧ r.shape = st ++ [m, n] ∧
      ∀ s i j, InR s st → i < m → j < n → ∀ p : Fin (size r.shape), p.val = ravel (st ++ [m, n]) (s ++ [i, j]) →
        r.elem p = ((List.range k).map fun t =>
          elemD a (ravel a.shape (bmulti stA s ++ [i, t])) * elemD b (ravel b.shape (bmulti stB s ++ [t, j]))).sum :=
  bilinearOp_matmulP rc rn a b ha hb hsa hsb h

/-- **outer**: element `(i, j)` is `a.flat[i] · b.flat[j]`; **inner of vectors**: `Σ_t a[t] · b[t]` -/
theorem outer_is_products (rc rn : Bool) (a b : Arr R) (ha : a.WF) (hb : b.WF) :
    ∃ p r, outerP a.shape b.shape = some ([size a.shape, size b.shape], [p]) ∧
      bilinearOp rc rn a b [size a.shape, size b.shape] [p] = some r ∧ r.WF ∧
      r.shape = [size a.shape, size b.shape] ∧
      ∀ i j, i < size a.shape → j < size b.shape → ∀ q : Fin (size r.shape),
        q.val = ravel [size a.shape, size b.shape] [i, j] → r.elem q = elemD a i * elemD b j :=
  bilinearOp_outerP rc rn a b ha hb
theorem inner_is_sum_of_products (rc rn : Bool) (a b : Arr R) (ha : a.WF) (hb : b.WF) (n : Nat) :
    ∃ P r, innerVecP n = some ([], P) ∧ bilinearOp rc rn a b [] P = some r ∧ r.WF ∧ r.shape = [] ∧
      ∀ q : Fin (size r.shape), r.elem q = ((List.range n).map fun t => elemD a t * elemD b t).sum :=
  bilinearOp_innerVecP rc rn a b ha hb n
end bilinear

/-! ### `diff` with prepend / append, `ediff1d` with to_begin / to_end, products over axis tuples
(`Np/Model/ReduceFns2.lean`) -/
section tables2
open Np.Shape Np.ReduceFns Np.ReduceFns2

/-- `numpy.prod` over an axis tuple (numpy's semantics: the reduced axes are removed unless keepdims): an input
multi-index belongs to exactly the group of its projection, every group has `Π shape[ax]` members, none twice -/
theorem prod_axes_groups (shape axes : List Nat) (k : Bool) (h1 : ∀ ax ∈ axes, ax < shape.length) (h2 : axes.Nodup) :
    ∃ G, prodAxesG shape axes k = some (if k then keepShape axes shape 0 else dropShape axes shape 0, G) ∧
    G.length = size (keepShape axes shape 0) ∧ G.length = size (dropShape axes shape 0) ∧
    (∀ g ∈ G, g.Pairwise (· < ·) ∧ ∀ i ∈ g, i < size shape) ∧
    (∀ jdx, InR jdx (keepShape axes shape 0) → ∀ idx, InR idx shape →
      (ravel shape idx ∈ G.getD (ravel (keepShape axes shape 0) jdx) [] ↔ projIdx axes idx 0 = jdx)) ∧
    (∀ idx, InR idx shape → InR (projIdx axes idx 0) (keepShape axes shape 0)) ∧
    ∀ jdx, InR jdx (keepShape axes shape 0) →
      (G.getD (ravel (keepShape axes shape 0) jdx) []).length = axesCount shape axes :=
  prodAxesG_spec shape axes k h1 h2

/-- `numpy.diff(a, prepend=P, append=A)`: the first difference of the concatenation `[P, a, A]` along the axis - output
index `u` reads `cat[u+1]` with weight 1 and `cat[u]` with weight −1, each in its own operand -/
theorem diff_with_prepend_append (a b : List Nat) (m : Nat) (p q : Option Nat) :
    ∃ T, diffPadW (a ++ m :: b) 1 a.length (padShape a b p) (padShape a b q) =
        some (a ++ (catLen m p q - 1) :: b, T) ∧
      T.length = size (a ++ (catLen m p q - 1) :: b) ∧
      ∀ x y u, InR x a → InR y b → u + 1 < catLen m p q →
        T.getD (ravel (a ++ (catLen m p q - 1) :: b) (x ++ u :: y)) [] =
          [((catAt a b m p q x y (u + 1)).1, (catAt a b m p q x y (u + 1)).2, 1),
            ((catAt a b m p q x y u).1, (catAt a b m p q x y u).2, -1)] := diffPadW_one a b m p q
end tables2

end Np.Props.C10

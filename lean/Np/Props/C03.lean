import Np.Proofs.Dispatch
import Np.Model.Construct
import Np.Proofs.Construct
import Np.Proofs.Sub
import Np.Proofs.GradArr
import Np.Proofs.Gather
import Np.Proofs.Reduce
import Np.Proofs.CompareArr
import Np.Proofs.Dims
import Np.Proofs.CallArr
import Np.Proofs.DetPoly
/-! C03 — results are well-formed and regenerate from their attributes: property theorems -/
namespace Np.Props.C03
open MvPolynomial
variable {S : Type} [CommSemiring S] [BEq S] [LawfulBEq S]

theorem hasDup_false_iff {α : Type} [BEq α] [LawfulBEq α] (l : List α) : hasDup l = false ↔ l.Nodup := by
  induction l with
  | nil => simp [hasDup]
  | cons x xs ih => simp [hasDup, ih, List.nodup_cons]

/-- cleaning never changes the polynomial denoted, whatever the retain flags -/
theorem clean_den (rc rn : Bool) (p : Poly S) (hw : WF p) : den (clean rc rn p) = den p :=
  den_clean rc rn p hw (WF_dropZeroCols p hw)

/-- with both retain flags on nothing at all is removed -/
theorem clean_retain (p : Poly S) : clean true true p = p := rfl

/-- with `retain_coefficients` off exactly the all-zero non-constant terms go (a single zero constant term stays
when nothing survives) -/
theorem dropZeroCols_rows (p : Poly S) (h : (p.terms.filter fun t => !(t.2 == 0) || isZeroExpo t.1) ≠ []) :
    (dropZeroCols p).terms = p.terms.filter fun t => !(t.2 == 0) || isZeroExpo t.1 := by
  unfold dropZeroCols
  split
  · rename_i heq; exact absurd heq h
  · rename_i heq; simp [heq]
theorem dropZeroCols_all_zero (p : Poly S) (h : (p.terms.filter fun t => !(t.2 == 0) || isZeroExpo t.1) = []) :
    (dropZeroCols p).terms = [(p.names.map fun _ => 0, 0)] := by
  unfold dropZeroCols; simp [h]
theorem dropZeroCols_WF (p : Poly S) (hw : WF p) : WF (dropZeroCols p) := WF_dropZeroCols p hw

/-- with `retain_names` off exactly the names occurring with a non-zero exponent stay (the first one if none does) -/
theorem dropUnusedNames_names (p : Poly S) : (dropUnusedNames p).names = usedNames p := rfl

/-- the constructor rejects a wrong number of coefficient arrays, a names/width mismatch, duplicate names and
duplicate exponent rows with `PolynomialConstructionError` -/
theorem fromAttributes_rejects_count (rc rn : Bool) (names) (expos : List Expo) (cols : List S)
    (h : cols.length ≠ expos.length) : fromAttributes rc rn names expos cols = none := by
  unfold fromAttributes
  have : (cols.length != expos.length) = true := by simpa using h
  simp [this]
theorem fromAttributes_rejects_dup_names (rc rn : Bool) (names : List Name) (expos : List Expo) (cols : List S)
    (h : ¬ names.Nodup) : fromAttributes rc rn (some names) expos cols = none := by
  unfold fromAttributes
  have hd : hasDup names = true := by
    cases hh : hasDup names
    · exact absurd ((hasDup_false_iff names).1 hh) h
    · rfl
  simp only [Option.getD_some, hd]
  split <;> [rfl; (split <;> rfl)]
theorem fromAttributes_rejects_dup_rows (rc rn : Bool) (names : List Name) (expos : List Expo) (cols : List S)
    (r : Poly S) (h : fromAttributes rc rn (some names) expos cols = some r) : r.expos.Nodup := by
  unfold fromAttributes at h
  simp only [Option.getD_some] at h
  split at h
  · exact absurd h (by simp)
  · split at h
    · exact absurd h (by simp)
    · split at h
      · exact absurd h (by simp)
      · split at h
        · exact absurd h (by simp)
        · rename_i hd
          injection h with h; subst h
          exact (hasDup_false_iff _).1 (by simpa using hd)

/-- rebuilding a well-formed polynomial from `(exponents, coefficients, names)` gives `clean` of it — the same
polynomial, and the very same representation when it is already clean or the retain flags are on -/
theorem regenerate_attrs (rc rn : Bool) (p : Poly S) (hw : WF p) (hne : p.terms ≠ [])
    (hc : (clean rc rn p).expos.Nodup) : regenerate rc rn p = some (clean rc rn p) := by
  unfold regenerate fromAttributes
  have hz : List.zip p.expos p.cols = p.terms := by
    simp only [Poly.expos, Poly.cols]
    induction p.terms with
    | nil => rfl
    | cons t ts ih => simp [ih]
  have h1 : (p.cols.length != p.expos.length) = false := by simp [Poly.cols, Poly.expos]
  have hlen : (p.expos.headD []).length = p.names.length := by
    cases hh : p.terms with
    | nil => exact absurd hh hne
    | cons t ts =>
      have : t.1 ∈ p.expos := by simp [Poly.expos, hh]
      simpa [Poly.expos, hh] using hw.row_len t.1 this
  have h2 : (p.names.length != (p.expos.headD []).length) = false := by rw [hlen]; simp
  have h3 : hasDup p.names = false := (hasDup_false_iff _).2 hw.names_nodup
  have h4 : hasDup (clean rc rn p).expos = false := (hasDup_false_iff _).2 hc
  have hp : ({ names := p.names, terms := p.terms } : Poly S) = p := by cases p; rfl
  simp only [Option.getD_some, h1, h2, h3, hz, hp, h4, Bool.false_eq_true, if_false]

/-- non-vacuity: unsorted rows, an all-zero term and an unused name; both flags off -/
example : (fromAttributes false false (some [0, 3]) [[0, 1], [0, 0], [0, 2]] [(0 : Int), 1, 3]).map
      (fun p => (p.names, p.terms)) = some ([3], [([0], 1), ([2], 3)]) := by decide
/-! ### exact characterisation of the constructor (Np/Proofs/Construct.lean) -/

/-- **exact success condition and result** of `polynomial_from_attributes`: as many coefficient arrays as rows, as
many names as columns, names duplicate-free, rows duplicate-free *after cleaning* (a zero-coefficient copy of a row
is removed first when `retain_coefficients` is off); the result is the cleaned raw polynomial — nothing else is
accepted, nothing else is returned -/
theorem fromAttributes_iff (rc rn : Bool) (names : Option (List Name)) (expos : List Expo) (cols : List S)
    (r : Poly S) :
    fromAttributes rc rn names expos cols = some r ↔
      cols.length = expos.length ∧
      (attrNames names expos).length = (expos.headD []).length ∧
      (attrNames names expos).Nodup ∧
      (clean rc rn (rawPoly names expos cols)).expos.Nodup ∧
      r = clean rc rn (rawPoly names expos cols) :=
  fromAttributes_some_iff rc rn names expos cols r

/-- **every polynomial the constructor returns is well-formed** (rectangular input; all four flag settings; raw rows
may repeat) -/
theorem fromAttributes_wellformed (rc rn : Bool) (names : Option (List Name)) (expos : List Expo)
    (cols : List S) (r : Poly S) (h : fromAttributes rc rn names expos cols = some r)
    (hrect : ∀ e ∈ expos, e.length = (expos.headD []).length) : WF r :=
  fromAttributes_WF rc rn names expos cols r h hrect

/-- **… and denotes exactly the terms passed in**: `Σ cols[k]·x^expos[k]` over the given (or default) names -/
theorem fromAttributes_denotes (rc rn : Bool) (names : Option (List Name)) (expos : List Expo)
    (cols : List S) (r : Poly S) (h : fromAttributes rc rn names expos cols = some r) :
    den r = denT (attrNames names expos) (List.zip expos cols) :=
  fromAttributes_den rc rn names expos cols r h

/-- **regeneration**: a well-formed polynomial rebuilt from its own `(exponents, coefficients, names)` is `clean` of
itself — no side condition — hence itself under `retain_* = True` or when already clean -/
theorem regenerate_wellformed (rc rn : Bool) (p : Poly S) (hw : WF p) (hne : p.terms ≠ []) :
    regenerate rc rn p = some (clean rc rn p) := regenerate_WF rc rn p hw hne
theorem regenerate_identity (p : Poly S) (hw : WF p) (hne : p.terms ≠ []) :
    regenerate true true p = some p := regenerate_retain p hw hne
theorem regenerate_clean_fixed (rc rn : Bool) (p : Poly S) (hw : WF p) (hne : p.terms ≠ [])
    (hcl : clean rc rn p = p) : regenerate rc rn p = some p := regenerate_fixed rc rn p hw hne hcl

/-! ### the invariant is preserved by every operation of the model (induction step of "every polynomial array the
library returns is well-formed"; base case: the constructor, `fromAttributes_wellformed`) -/
section closure
open Shape

/-- ring arithmetic, cleaning and alignment keep well-formedness — every retain flag setting -/
theorem closed_arith {S : Type} [CommRing S] [BEq S] [LawfulBEq S] (rc rn : Bool) (a b : Poly S) (ha : WF a) (hb : WF b) :
    WF (add rc rn a b) ∧ WF (sub rc rn a b) ∧ WF (neg rc rn a) ∧ WF (clean rc rn a) ∧
    (∃ r, multiply rc rn a b = some r ∧ WF r) ∧ (∀ k : Nat, ∃ r, powS rc rn a k = some r ∧ WF r) ∧
    (∀ common : List Name, common.Nodup → (∀ n ∈ a.names, n ∈ common) → WF (alignIndet common a)) :=
  ⟨WF_add rc rn a b ha hb, (sub_den_WF rc rn a b ha hb).2, (neg_den_WF rc rn a ha).2, WF_clean rc rn a ha,
    (let ⟨r, h1, _, h3⟩ := mul_den_WF rc rn a b ha hb; ⟨r, h1, h3⟩),
    (fun k => let ⟨r, h1, _, h3⟩ := pow_den_WF rc rn a ha k; ⟨r, h1, h3⟩),
    fun common hc hsub => WF_alignIndet common a ha hc hsub⟩

/-- differentiation keeps it (exponents below 2³², as the uint32 storage guarantees) -/
theorem closed_calculus {R : Type} [CommSemiring R] [BEq R] [LawfulBEq R] {n : Nat} (rc rn : Bool) (j : Nat)
    (p : Poly (Vec R n)) (hw : WF p) (hb : Bdd p) :
    WF (derivative rn j p) ∧ WF (gradient rc rn p) ∧ WF (hessianOf rc rn p) :=
  ⟨(derivative_WF rn j p hw hb).1, WF_gradient rc rn p hw hb, WF_hessianOf rc rn p hw hb⟩

/-- shape functions, reductions, selection, dimension changes and decomposition keep it -/
theorem closed_arrays {R : Type} [CommSemiring R] [BEq R] [LawfulBEq R] (rc rn : Bool) (a b : Arr R) (ha : a.WF)
    (hb : b.WF) (outShape idx : List Nat) (W : List (List (Nat × R))) (pairs : List (List Nat × List Nat))
    (groups : List (List Nat)) :
    (gatherOp rc rn [a, b] outShape idx).WF ∧ (linearOp rc rn a outShape W).WF ∧
    (∃ r : Arr R, bilinearOp rc rn a b outShape pairs = some r ∧ r.WF) ∧
    (∃ r : Arr R, prodOp rc rn a outShape groups = some r ∧ r.WF) ∧ WF (decompose a.poly) ∧
    (∀ (newNames : List Name), newNames.Nodup → a.poly.names ⊆ newNames → WF (setDimsAdd rc newNames a.poly)) ∧
    (∀ d : Nat, d ≤ a.poly.names.length → WF (setDimsDrop rc d a.poly)) :=
  ⟨(gatherOp_WF rc rn [a, b] (fun x hx => by
      simp only [List.mem_cons, List.not_mem_nil, or_false] at hx
      rcases hx with rfl | rfl
      · exact ha
      · exact hb) outShape idx).1,
    linearOp_WF rc rn a ha outShape W,
    (let ⟨r, h1, h2, _⟩ := bilinearOp_elem rc rn a b ha hb outShape pairs; ⟨r, h1, h2⟩),
    (let ⟨r, h1, h2, _⟩ := prodOp_elem rc rn a ha outShape groups; ⟨r, h1, h2⟩),
    WF_decompose a.poly ha,
    fun newNames hn hsub => WF_setDimsAdd rc newNames a.poly ha hn hsub,
    fun d hd => WF_setDimsDrop rc d a.poly ha hd⟩

/-- `where`, `maximum`, `minimum` keep it -/
theorem closed_select {R : Type} [CommSemiring R] [BEq R] [LawfulBEq R] {n : Nat} (lt : R → R → Bool)
    (rc rn graded reverse : Bool) (mask : Vec Bool n) (a b : Poly (Vec R n)) (ha : WF a) (hb : WF b) :
    WF (selectArr rc rn mask a b) ∧ WF (maximumArr lt rc rn graded reverse a b) ∧
      WF (minimumArr lt rc rn graded reverse a b) :=
  ⟨WF_selectArr rc rn mask a b ha hb, WF_maximumArr lt rc rn graded reverse a b ha hb,
    WF_minimumArr lt rc rn graded reverse a b ha hb⟩
end closure

end Np.Props.C03

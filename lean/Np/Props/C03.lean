import Np.Proofs.Dispatch
import Np.Model.Construct
import Np.Proofs.Construct
/-! C03 — results are well-formed and regenerate from their attributes: property theorems -/
namespace Np.Props.C03
open MvPolynomial
variable {S : Type} [CommSemiring S] [BEq S] [LawfulBEq S]

theorem hasDup_false_iff {α : Type} [BEq α] [LawfulBEq α] (l : List α) : hasDup l = false ↔ l.Nodup := by
  induction l with
  | nil => simp [hasDup]
  | cons x xs ih => simp [hasDup, ih, List.nodup_cons]

/-- cleaning never changes the polynomial denoted, whatever the retain flags -/
theorem clean_den (rc rn : Bool) (p : Poly S) (hw : WF p) : den (clean rc rn p) = den p :=
  den_clean rc rn p hw (WF_dropZeroCols p hw)

/-- with both retain flags on nothing at all is removed -/
theorem clean_retain (p : Poly S) : clean true true p = p := rfl

/-- with `retain_coefficients` off exactly the all-zero non-constant terms go (a single zero constant term stays
when nothing survives) -/
theorem dropZeroCols_rows (p : Poly S) (h : (p.terms.filter fun t => !(t.2 == 0) || isZeroExpo t.1) ≠ []) :
    (dropZeroCols p).terms = p.terms.filter fun t => !(t.2 == 0) || isZeroExpo t.1 := by
  unfold dropZeroCols
  split
  · rename_i heq; exact absurd heq h
  · rename_i heq; simp [heq]
theorem dropZeroCols_all_zero (p : Poly S) (h : (p.terms.filter fun t => !(t.2 == 0) || isZeroExpo t.1) = []) :
    (dropZeroCols p).terms = [(p.names.map fun _ => 0, 0)] := by
  unfold dropZeroCols; simp [h]
theorem dropZeroCols_WF (p : Poly S) (hw : WF p) : WF (dropZeroCols p) := WF_dropZeroCols p hw

/-- with `retain_names` off exactly the names occurring with a non-zero exponent stay (the first one if none does) -/
theorem dropUnusedNames_names (p : Poly S) : (dropUnusedNames p).names = usedNames p := rfl

/-- the constructor rejects a wrong number of coefficient arrays, a names/width mismatch, duplicate names and
duplicate exponent rows with `PolynomialConstructionError` -/
theorem fromAttributes_rejects_count (rc rn : Bool) (names) (expos : List Expo) (cols : List S)
    (h : cols.length ≠ expos.length) : fromAttributes rc rn names expos cols = none := by
  unfold fromAttributes
  have : (cols.length != expos.length) = true := by simpa using h
  simp [this]
theorem fromAttributes_rejects_dup_names (rc rn : Bool) (names : List Name) (expos : List Expo) (cols : List S)
    (h : ¬ names.Nodup) : fromAttributes rc rn (some names) expos cols = none := by
  unfold fromAttributes
  have hd : hasDup names = true := by
    cases hh : hasDup names
    · exact absurd ((hasDup_false_iff names).1 hh) h
    · rfl
  simp only [Option.getD_some, hd]
  split <;> [rfl; (split <;> rfl)]
theorem fromAttributes_rejects_dup_rows (rc rn : Bool) (names : List Name) (expos : List Expo) (cols : List S)
    (r : Poly S) (h : fromAttributes rc rn (some names) expos cols = some r) : r.expos.Nodup := by
  unfold fromAttributes at h
  simp only [Option.getD_some] at h
  split at h
  · exact absurd h (by simp)
  · split at h
    · exact absurd h (by simp)
    · split at h
      · exact absurd h (by simp)
      · split at h
        · exact absurd h (by simp)
        · rename_i hd
          injection h with h; subst h
          exact (hasDup_false_iff _).1 (by simpa using hd)

/-- rebuilding a well-formed polynomial from `(exponents, coefficients, names)` gives `clean` of it — the same
polynomial, and the very same representation when it is already clean or the retain flags are on -/
theorem regenerate_attrs (rc rn : Bool) (p : Poly S) (hw : WF p) (hne : p.terms ≠ [])
    (hc : (clean rc rn p).expos.Nodup) : regenerate rc rn p = some (clean rc rn p) := by
  unfold regenerate fromAttributes
  have hz : List.zip p.expos p.cols = p.terms := by
    simp only [Poly.expos, Poly.cols]
    induction p.terms with
    | nil => rfl
    | cons t ts ih => simp [ih]
  have h1 : (p.cols.length != p.expos.length) = false := by simp [Poly.cols, Poly.expos]
  have hlen : (p.expos.headD []).length = p.names.length := by
    cases hh : p.terms with
    | nil => exact absurd hh hne
    | cons t ts =>
      have : t.1 ∈ p.expos := by simp [Poly.expos, hh]
      simpa [Poly.expos, hh] using hw.row_len t.1 this
  have h2 : (p.names.length != (p.expos.headD []).length) = false := by rw [hlen]; simp
  have h3 : hasDup p.names = false := (hasDup_false_iff _).2 hw.names_nodup
  have h4 : hasDup (clean rc rn p).expos = false := (hasDup_false_iff _).2 hc
  have hp : ({ names := p.names, terms := p.terms } : Poly S) = p := by cases p; rfl
  simp only [Option.getD_some, h1, h2, h3, hz, hp, h4, Bool.false_eq_true, if_false]

/-- non-vacuity: unsorted rows, an all-zero term and an unused name; both flags off -/
example : (fromAttributes false false (some [0, 3]) [[0, 1], [0, 0], [0, 2]] [(0 : Int), 1, 3]).map
      (fun p => (p.names, p.terms)) = some ([3], [([0], 1), ([2], 3)]) := by decide
/-! ### exact characterisation of the constructor (Np/Proofs/Construct.lean) -/

/-- **exact success condition and result** of `polynomial_from_attributes`: as many coefficient arrays as rows, as
many names as columns, names duplicate-free, rows duplicate-free *after cleaning* (a zero-coefficient copy of a row
is removed first when `retain_coefficients` is off); the result is the cleaned raw polynomial — nothing else is
accepted, nothing else is returned -/
theorem fromAttributes_iff (rc rn : Bool) (names : Option (List Name)) (expos : List Expo) (cols : List S)
    (r : Poly S) :
    fromAttributes rc rn names expos cols = some r ↔
      cols.length = expos.length ∧
      (attrNames names expos).length = (expos.headD []).length ∧
      (attrNames names expos).Nodup ∧
      (clean rc rn (rawPoly names expos cols)).expos.Nodup ∧
      r = clean rc rn (rawPoly names expos cols) :=
  fromAttributes_some_iff rc rn names expos cols r

/-- **every polynomial the constructor returns is well-formed** (rectangular input; all four flag settings; raw rows
may repeat) -/
theorem fromAttributes_wellformed (rc rn : Bool) (names : Option (List Name)) (expos : List Expo)
    (cols : List S) (r : Poly S) (h : fromAttributes rc rn names expos cols = some r)
    (hrect : ∀ e ∈ expos, e.length = (expos.headD []).length) : WF r :=
  fromAttributes_WF rc rn names expos cols r h hrect

/-- **… and denotes exactly the terms passed in**: `Σ cols[k]·x^expos[k]` over the given (or default) names -/
theorem fromAttributes_denotes (rc rn : Bool) (names : Option (List Name)) (expos : List Expo)
    (cols : List S) (r : Poly S) (h : fromAttributes rc rn names expos cols = some r) :
    den r = denT (attrNames names expos) (List.zip expos cols) :=
  fromAttributes_den rc rn names expos cols r h

/-- **regeneration**: a well-formed polynomial rebuilt from its own `(exponents, coefficients, names)` is `clean` of
itself — no side condition — hence itself under `retain_* = True` or when already clean -/
theorem regenerate_wellformed (rc rn : Bool) (p : Poly S) (hw : WF p) (hne : p.terms ≠ []) :
    regenerate rc rn p = some (clean rc rn p) := regenerate_WF rc rn p hw hne
theorem regenerate_identity (p : Poly S) (hw : WF p) (hne : p.terms ≠ []) :
    regenerate true true p = some p := regenerate_retain p hw hne
theorem regenerate_clean_fixed (rc rn : Bool) (p : Poly S) (hw : WF p) (hne : p.terms ≠ [])
    (hcl : clean rc rn p = p) : regenerate rc rn p = some p := regenerate_fixed rc rn p hw hne hcl

end Np.Props.C03

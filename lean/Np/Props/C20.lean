import Np.Proofs.Key
import Np.Props.C01
import Np.Generated.Tables
/-! C20 — monomials are never confused, whatever the exponent size: property theorems -/
namespace Np.Props.C20
open Np.Key

/-- table obligation (regenerated from baseclass.py each run): the codec theorems are about the shipped offset -/
theorem keyOffset_is_59 : Generated.keyOffset = 59 := by decide

/-- whatever can be stored reads back as the same exponents (raw structured view and back) -/
theorem key_roundtrip (e k : List Nat) (h : encodeKey Generated.keyOffset e = some k) :
    decodeKey Generated.keyOffset k = e := Key.key_roundtrip _ e k h

/-- distinct exponent tuples get distinct storage keys -/
theorem encodeKey_injective (e1 e2 k : List Nat) (h1 : encodeKey Generated.keyOffset e1 = some k)
    (h2 : encodeKey Generated.keyOffset e2 = some k) : e1 = e2 := Key.encodeKey_injective _ e1 e2 k h1 h2

/-- every exponent below 55 237 (hence "every exponent below 55 000") is representable -/
theorem validKey_below (e : List Nat) (h : ∀ x ∈ e, x < 55237) : (encodeKey Generated.keyOffset e).isSome = true :=
  Key.valid_below e h

/-- outside the representable range construction is an error (`none`), never another key -/
theorem invalidKey_errors (e : List Nat) (h : ∃ x ∈ e, 55237 ≤ x ∧ x ≤ 57284 ∨ 1114052 < x) :
    encodeKey Generated.keyOffset e = none := by
  obtain ⟨x, hx, hr⟩ := h
  unfold encodeKey
  have : e.all (fun x => x + Generated.keyOffset < 4294967296 && validCodePoint (x + Generated.keyOffset)) = false := by
    rw [List.all_eq_false]
    refine ⟨x, hx, ?_⟩
    simp only [validCodePoint, keyOffset_is_59, Bool.and_eq_true, decide_eq_true_eq, bne_iff_ne, ne_eq,
      Bool.not_eq_true', Bool.and_eq_false_iff, decide_eq_false_iff_not, not_and, not_lt, not_le, Bool.not_eq_eq_eq_not,
      Bool.not_true]
    intro _ _
    omega
  simp [this]

/-- **the constructor never stores another monomial** (`storeKey`: exponents as the 64-bit integers a caller hands
over): whatever it accepts decodes to exactly the exponents given -/
theorem store_roundtrip (e : List Int) (k : List Nat) (h : storeKey Generated.keyOffset e = some k) :
    (decodeKey Generated.keyOffset k).map Int.ofNat = e := by
  unfold storeKey at h
  split at h
  · rename_i hall
    rw [Key.key_roundtrip _ _ k h, List.map_map]
    rw [List.all_eq_true] at hall
    conv => rhs; rw [← List.map_id e]
    refine List.map_congr_left fun x hx => ?_
    have := hall x hx
    simp only [Bool.and_eq_true, decide_eq_true_eq] at this
    simp only [Function.comp, id]
    exact Int.toNat_of_nonneg this.1
  · simp at h

/-- ... and it refuses (`ValueError`) every row with a negative exponent or one beyond 1114052, in particular
everything from 2**32 on -/
theorem store_rejects_out_of_range (e : List Int) (h : ∃ x ∈ e, x < 0 ∨ 1114052 < x) :
    storeKey Generated.keyOffset e = none := by
  obtain ⟨x, hx, hr⟩ := h
  unfold storeKey
  rw [if_neg]
  rw [List.all_eq_true]
  intro hall
  have := hall x hx
  simp only [keyOffset_is_59, Bool.and_eq_true, decide_eq_true_eq] at this
  omega

/-- before the repair D56 the row was narrowed to uint32 first: `2**32 + 5` was stored as the exponent 5, `2**40` as 0 -/
theorem old_store_wrapped : storeKeyOld 59 [4294967301] = encodeKey 59 [5] ∧ storeKeyOld 59 [1099511627776, 1] = encodeKey 59 [0, 1] ∧
    storeKey 59 [4294967301] = none ∧ storeKey 59 [1114052] = some [1114111] := by decide

/-- the key `multiply` writes a product term to is the key of the exponent sum, on both paths of the repair of
D15: under the guard the byte formatter is exact, outside it the key is built from the sum itself -/
theorem mulKeyPath_exact (dtypeOk : Bool) (maxExp : Nat) (e1 e2 : List Nat) (hlen : e1.length = e2.length)
    (hmax : ∀ s ∈ List.zipWith (· + ·) e1 e2, s ≤ maxExp) :
    mulKeyPath 59 dtypeOk maxExp e1 e2 = encodeKey 59 (List.zipWith (· + ·) e1 e2) := by
  unfold mulKeyPath
  split
  · rename_i h
    simp only [Bool.and_eq_true, decide_eq_true_eq] at h
    exact mulKey_small e1 e2 hlen (fun s hs => by have := hmax s hs; omega)
  · rfl

/-- the shipped byte formatter alone is *not* exact: `q0**256` lands on the key of the constant (D15) -/
theorem mulKey_aliases : mulKey 59 [256] [0] = encodeKey 59 [0] := Key.mulKey_aliases

/-- `(c·x^a)·(d·x^b) = c·d·x^(a+b)` for every `a`, `b`: instance of `mul_den` (stated for arbitrary exponents) -/
theorem monomial_product {S : Type} [CommSemiring S] [BEq S] [LawfulBEq S] (rc rn : Bool) (a b : Poly S)
    (ha : WF a) (hb : WF b) : ∃ r, multiply rc rn a b = some r ∧ den r = den a * den b :=
  C01.mul_den rc rn a b ha hb

/-- keys that the text header cannot carry are recognised (so that writing can refuse them): the check is
decidable and exponent `0` (key `;`) passes it -/
example : headerSafe [59, 60, 200] = true ∧ headerSafe [59 + 101] = false := by decide
end Np.Props.C20

import Np.Props.C01
import Np.Proofs.Expr3
import Np.Props.C03
import Np.Props.C04
import Np.Props.C06
import Np.Props.C16
import Np.Proofs.ExprPow
/-! C15 — option settings never change the mathematical result: corollaries of the refinement theorems, which are
all stated for every value of the retain flags with a right-hand side that does not mention any option -/
namespace Np.Props.C15
open MvPolynomial
variable {S : Type} [CommSemiring S] [BEq S] [LawfulBEq S]

/-- sums denote the same polynomial under any two settings of `retain_coefficients` / `retain_names` -/
theorem add_indep (rc1 rn1 rc2 rn2 : Bool) (a b : Poly S) (ha : WF a) (hb : WF b) :
    den (add rc1 rn1 a b) = den (add rc2 rn2 a b) := by
  rw [C01.add_den rc1 rn1 a b ha hb, C01.add_den rc2 rn2 a b ha hb]

/-- products exist (no setting makes the operation fail) and denote the same polynomial under any two settings -/
theorem mul_indep (rc1 rn1 rc2 rn2 : Bool) (a b : Poly S) (ha : WF a) (hb : WF b) :
    ∃ r1 r2, multiply rc1 rn1 a b = some r1 ∧ multiply rc2 rn2 a b = some r2 ∧ den r1 = den r2 := by
  obtain ⟨r1, h1, d1⟩ := C01.mul_den rc1 rn1 a b ha hb
  obtain ⟨r2, h2, d2⟩ := C01.mul_den rc2 rn2 a b ha hb
  exact ⟨r1, r2, h1, h2, by rw [d1, d2]⟩

/-- construction / cleaning: the retain flags only decide whether all-zero terms and unused names are kept -/
theorem clean_indep (rc1 rn1 rc2 rn2 : Bool) (p : Poly S) (hw : WF p) :
    den (clean rc1 rn1 p) = den (clean rc2 rn2 p) := by
  rw [C03.clean_den rc1 rn1 p hw, C03.clean_den rc2 rn2 p hw]

/-- alignment does not consult any option for its result's denotation -/
theorem align_indep (common : List Name) (p : Poly S) (hw : WF p) (hc : common.Nodup)
    (hsub : ∀ n ∈ p.names, n ∈ common) : den (alignIndet common p) = den p :=
  C04.alignIndet_den common p hw hc hsub

/-- differentiation: the rows built by `derivative` denote the formal partial derivative; no option occurs -/
theorem derivative_indep (ns : List Name) (hn : ns.Nodup) (j : Nat) (hj : j < ns.length)
    (ts : List (Expo × S)) (hlen : ∀ t ∈ ts, t.1.length = ns.length) :
    denT ns (derivTerms j ts) = pderiv ns[j] (denT ns ts) := C06.derivative_rows_den ns hn j hj ts hlen

/-- the display options only permute what is printed: any two display settings print terms with the same sum -/
theorem display_indep (ns : List Name) (g1 r1 i1 g2 r2 i2 : Bool) (ts : List (Expo × S)) :
    denT ns (Print.printOrder g1 r1 i1 ts) = denT ns (Print.printOrder g2 r2 i2 ts) := by
  rw [C16.printed_terms_den, C16.printed_terms_den]

/-- non-vacuity: q0·(q1 − q1) + 2 under both extreme settings of the retain flags -/
example : ((add true true ({ names := [0, 1], terms := [([1, 1], (1 : Int)), ([0, 0], 2)] } : Poly Int)
      { names := [0, 1], terms := [([1, 1], -1)] }).terms,
    (add false false ({ names := [0, 1], terms := [([1, 1], (1 : Int)), ([0, 0], 2)] } : Poly Int)
      { names := [0, 1], terms := [([1, 1], -1)] }).terms)
    = ([([0, 0], 2), ([1, 1], 0)], [([0], 2)]) := by decide
/-- **every program** (any depth, `+ - neg pos * **k **array`) gives the same shape and the same elements under any two
settings of the retain flags -/
theorem program_indep {R : Type} [CommRing R] [BEq R] [LawfulBEq R] (rc rn rc' rn' : Bool) (env : List (Arr R))
    (henv : ∀ a ∈ env, a.WF) (t : Expr2) (r r' : Arr R) (h : evalModel2 rc rn env t = .ok r)
    (h' : evalModel2 rc' rn' env t = .ok r') :
    r.shape = r'.shape ∧ ∀ i (hi : i < Shape.size r.shape) (hi' : i < Shape.size r'.shape),
      r.elem ⟨i, hi⟩ = r'.elem ⟨i, hi'⟩ :=
  expr2_den_unique rc rn rc' rn' env henv t r r' h h'

/-! ### the larger program language `Expr3` (`Np/Model/Expr3.lean`): `+ - neg pos * **k **array` plus derivative by
name, any gather (indexing, reshape, transpose, ...), joins of several operands (concatenate, stack, where, ...) and
linear reductions (sum, cumsum, diff, mean numerators) -/
/-- every successful evaluation of a program on well-formed operands is well-formed -/
theorem program3_wf {R : Type} [CommRing R] [BEq R] [LawfulBEq R] (rc rn : Bool) (env : List (Arr R))
    (henv : ∀ a ∈ env, a.WF) (t : Expr3) (r : Arr R) (h : evalModel3 rc rn env t = .ok r) : r.WF :=
  expr3_wf rc rn env henv t r h

/-- **C15 for compositions that differentiate, index, join and reduce**: two successful evaluations of one program under
any two settings of the retain flags have the same shape and the same elements -/
theorem program3_indep {R : Type} [CommRing R] [BEq R] [LawfulBEq R] (rc rn rc' rn' : Bool) (env : List (Arr R))
    (henv : ∀ a ∈ env, a.WF) (t : Expr3) (r r' : Arr R) (h : evalModel3 rc rn env t = .ok r)
    (h' : evalModel3 rc' rn' env t = .ok r') :
    r.shape = r'.shape ∧ ∀ i (hi : i < Shape.size r.shape) (hi' : i < Shape.size r'.shape),
      r.elem ⟨i, hi⟩ = r'.elem ⟨i, hi'⟩ := expr3_indep rc rn rc' rn' env henv t r r' h h'

/-- whether a program succeeds does not depend on the flags either - for programs without a derivative *by name* -/
theorem program3_succeeds_indep {R : Type} [CommRing R] [BEq R] [LawfulBEq R] (rc rn rc' rn' : Bool)
    (env : List (Arr R)) (henv : ∀ a ∈ env, a.WF) (t : Expr3) (hn : t.noDeriv = true) :
    (∃ r, evalModel3 rc rn env t = .ok r) ↔ (∃ r', evalModel3 rc' rn' env t = .ok r') :=
  expr3_succeeds_indep rc rn rc' rn' env henv t hn

/-- … and the restriction is needed: `derivative(q0*q1 - q0*q1, "q1")` succeeds while the cancelled indeterminate is
still carried (retain_coefficients=True) and raises ValueError once `retain_names=False` has dropped it. The library
does the same (`poly.names.index(name)`); DESIGN.md §7 lists this dependence on the *stored* names among the
observations. Values and shapes never differ where both runs succeed (`program3_indep`). -/
theorem derivative_by_name_success_depends_on_flags :
    ∃ (env : List (Arr Int)) (t : Expr3), (∀ a ∈ env, a.WF) ∧
      (∃ r, evalModel3 true true env t = .ok r) ∧ (∃ r, evalModel3 true false env t = .ok r) ∧
      evalModel3 false false env t = .error .valueError := deriv_success_depends_on_flags

end Np.Props.C15

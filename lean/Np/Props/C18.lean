import Np.Proofs.Index
/-! C18 — index generation and sorting are exact and platform-independent: property theorems -/
namespace Np.Props.C18
open Np.Index

/-- `glexsort` returns a permutation of the column positions -/
theorem glexsort_perm (graded reverse : Bool) (cols : List (List Nat)) :
    (glexsort graded reverse cols).Perm (List.range cols.length) := Index.glexsort_perm graded reverse cols

/-- … that lists the columns in (graded)(reverse) lexicographic order, for every key matrix -/
theorem glexsort_sorted (graded reverse : Bool) (cols : List (List Nat)) :
    (glexsort graded reverse cols).Pairwise
      (fun i j => glexLe graded reverse (cols.getD i []) (cols.getD j []) = true) :=
  Index.glexsort_sorted graded reverse cols

/-- table obligation, regenerated from utils/glexsort.py each run: the graded pass uses a sort numpy promises
to be stable (the model's second pass is `List.mergeSort`, which is) -/
theorem glexsort_source_is_stable :
    Generated.glexsortArgsortKind = .stable ∨ Generated.glexsortArgsortKind = .noArgsort := by decide

/-- why that obligation matters: a second pass that merely *sorts by the sum* may break the order.
`l1` is the lexsorted order of the columns (1,0),(0,1) (reverse=false: last row most significant); `[0,1]`
is also sorted by sum and a permutation of it, but is not in graded lexicographic order. -/
theorem glexsort_unstable_cex :
    let cols := [[1, 0], [0, 1]]
    let l1 := Sort.isort (le2 false cols) (List.range 2)
    let bad := [1, 0]
    l1 = [0, 1] ∧ bad.Perm l1 ∧ bad.Pairwise (fun i j => le1 cols i j = true) ∧
      ¬ bad.Pairwise (fun i j => glexLe true false (cols.getD i []) (cols.getD j []) = true) := by
  refine ⟨by decide, by decide, by decide, by decide⟩

section glexindex
variable (start stop : List Int) (ct0 ct1 : Norm) (graded reverse : Bool)

/-- the selection of `glexindex` before ordering (dimension ≥ 2 form shown; one dimension compares directly) -/
def selected : List (List Nat) :=
  let d := start.length
  let bound := (stop.foldl max 0).toNat
  let start' := start.map fun s => max s 0
  if d == 1 then (grid bound d).filter fun x => decide ((x.headD 0 : Int) ≥ start'.headD 0)
  else (grid bound d).filter fun x =>
    crossTruncate x (stop.map (· - 1)) ct1 && !crossTruncate x (start'.map (· - 1)) ct0

theorem glexindex_eq :
    glexindex false start stop ct0 ct1 graded reverse =
      (glexsort graded reverse (selected start stop ct0 ct1)).map fun i => (selected start stop ct0 ct1).getD i [] := by
  unfold glexindex selected
  simp only [Bool.false_eq_true, if_false]

/-- `glexindex` returns exactly the selected tuples … -/
theorem glexindex_perm :
    (glexindex false start stop ct0 ct1 graded reverse).Perm (selected start stop ct0 ct1) := by
  rw [glexindex_eq]
  exact perm_of_index_perm _ [] _ (Index.glexsort_perm graded reverse _)

/-- … i.e. (for ≥ 2 dimensions) the tuples of the right length inside the `stop` bound and not inside the
`start` bound — no assumption `start ≤ stop` -/
theorem glexindex_mem_iff (hd : start.length ≠ 1) (x : List Nat) :
    x ∈ glexindex false start stop ct0 ct1 graded reverse ↔
      x.length = start.length ∧ (∀ y ∈ x, y < (stop.foldl max 0).toNat) ∧
      crossTruncate x (stop.map (· - 1)) ct1 = true ∧
      crossTruncate x ((start.map fun s => max s 0).map (· - 1)) ct0 = false := by
  rw [(glexindex_perm start stop ct0 ct1 graded reverse).mem_iff]
  unfold selected
  have : (start.length == 1) = false := by simpa using hd
  simp only [this, Bool.false_eq_true, if_false, List.mem_filter, mem_grid, Bool.and_eq_true,
    Bool.not_eq_true', and_assoc]

theorem glexindex_mem_iff_1d (hd : start.length = 1) (x : List Nat) :
    x ∈ glexindex false start stop ct0 ct1 graded reverse ↔
      x.length = 1 ∧ (∀ y ∈ x, y < (stop.foldl max 0).toNat) ∧
      ((x.headD 0 : Int) ≥ (start.map fun s => max s 0).headD 0) := by
  rw [(glexindex_perm start stop ct0 ct1 graded reverse).mem_iff]
  unfold selected
  simp only [hd, beq_self_eq_true, if_true, List.mem_filter, mem_grid, decide_eq_true_eq, and_assoc]

/-- without duplicates -/
theorem glexindex_nodup : (glexindex false start stop ct0 ct1 graded reverse).Nodup := by
  rw [(glexindex_perm start stop ct0 ct1 graded reverse).nodup_iff]
  simp only [selected]
  split <;> exact (nodup_grid _ _).filter _

/-- and in the requested order -/
theorem glexindex_sorted :
    (glexindex false start stop ct0 ct1 graded reverse).Pairwise (fun a b => glexLe graded reverse a b = true) := by
  rw [glexindex_eq, List.pairwise_map]
  exact Index.glexsort_sorted graded reverse _
end glexindex

/-- the shipped selection `lower ^ upper` returns tuples *outside* the stop bound when start exceeds stop
(D19; repaired by `upper & ~lower`): `glexindex(3, 2, dimensions=2)` -/
theorem glexindex_xor_cex :
    glexindex true [3, 3] [2, 2] (.rat 1 1) (.rat 1 1) false false = [[1, 1]] ∧
    glexindex false [3, 3] [2, 2] (.rat 1 1) (.rat 1 1) false false = [] := by
  refine ⟨by decide +kernel, by decide +kernel⟩

/-- `cross_truncate` with all bounds positive, norm 1: inside iff Σ xᵢ/bᵢ ≤ 1 (exact rational arithmetic) -/
theorem crossTruncate_norm1 (x b : List Nat) :
    insidePos x b (.rat 1 1) =
      decide ((List.zipWith (fun (xi bi : Nat) => (xi : Rat) / (bi : Rat)) x b).foldl (· + ·) 0 ≤ 1) := by
  simp [insidePos, ratPowNat]

/-- norm ∞: inside iff every entry is within its bound -/
theorem crossTruncate_inf (x b : List Nat) :
    insidePos x b .inf = (List.zipWith (fun xi bi => decide (xi ≤ bi)) x b).all id := rfl

/-- norm 0: inside iff at most one entry is non-zero and it is within its bound -/
theorem crossTruncate_zero (x b : List Nat) :
    insidePos x b .zero =
      (decide ((x.filter (· > 0)).length ≤ 1) && (List.zipWith (fun xi bi => decide (xi ≤ bi)) x b).all id) := rfl

/-- a negative bound excludes everything; a zero bound admits only a zero entry -/
theorem crossTruncate_negative (x : List Nat) (bound : List Int) (norm : Norm) (h : ∃ b ∈ bound, b < 0) :
    crossTruncate x bound norm = false := by
  obtain ⟨b, hb, hneg⟩ := h
  have : bound.any (· < 0) = true := List.any_eq_true.2 ⟨b, hb, by simpa using hneg⟩
  simp [crossTruncate, this]

/-- `bindex`: the ordering string selects the flags, `I` reverses -/
theorem bindex_spec (start stop : List Int) (ct0 ct1 : Norm) (ordering : String) :
    bindex false start stop ct0 ct1 ordering =
      (if ordering.toUpper.contains 'I' then List.reverse else id)
        (glexindex false start stop ct0 ct1 (ordering.toUpper.contains 'G') (!(ordering.toUpper.contains 'R'))) := by
  unfold bindex; split <;> simp_all

/-- non-vacuity: graded reverse order of a 2×6 key matrix -/
example : glexsort true true [[0,0],[1,0],[0,1],[2,0],[1,1],[0,2]] = [0, 2, 1, 5, 4, 3] := by decide
example : glexindex false [0, 0] [3, 3] (.rat 1 1) (.rat 1 1) true true
    = [[0,0],[0,1],[1,0],[0,2],[1,1],[2,0]] := by decide +kernel
end Np.Props.C18

import Np.Proofs.Text
import Np.Proofs.TextFile
import Np.Props.C03
/-! C13 — pickle, copy and text save/load round-trip polynomial arrays: the logical round trips -/
namespace Np.Props.C13
open Np.Text

/-- a header can carry names/keys that contain neither the comma nor the blank -/
def Clean (xs : List Str) : Prop := xs ≠ [] ∧ ∀ x ∈ xs, comma ∉ x ∧ blank ∉ x

/-- the text header reads back as exactly the names, storage keys and shape that were written — every number of
names and terms, every shape including 0-d (empty shape field) -/
theorem header_roundtrip (h : Header) (hn : Clean h.names) (hk : Clean h.keys) : parse (format h) = some h := by
  obtain ⟨hn0, hn1⟩ := hn
  obtain ⟨hk0, hk1⟩ := hk
  have nb : ∀ (xs : List Str), (∀ x ∈ xs, blank ∉ x) → blank ∉ joinSep comma xs :=
    fun xs hx => joinSep_not_mem comma blank (by decide) xs hx
  have f1 : blank ∉ joinSep comma h.names := nb _ (fun x hx => (hn1 x hx).2)
  have f2 : blank ∉ joinSep comma h.keys := nb _ (fun x hx => (hk1 x hx).2)
  have f3 : blank ∉ joinSep comma (h.shape.map digits) :=
    nb _ (fun x hx => by obtain ⟨n, _, rfl⟩ := List.mem_map.1 hx; exact digits_clean n blank (Or.inr rfl))
  have hsplit : splitSep blank (format h) =
      [joinSep comma h.names, joinSep comma h.keys, joinSep comma (h.shape.map digits)] := by
    unfold format
    apply splitSep_joinSep blank _ (by simp)
    intro x hx
    simp only [List.mem_cons, List.not_mem_nil, or_false] at hx
    rcases hx with rfl | rfl | rfl <;> assumption
  have hnames : splitSep comma (joinSep comma h.names) = h.names :=
    splitSep_joinSep comma _ hn0 (fun x hx => (hn1 x hx).1)
  have hkeys : splitSep comma (joinSep comma h.keys) = h.keys :=
    splitSep_joinSep comma _ hk0 (fun x hx => (hk1 x hx).1)
  have hshape : ((splitSep comma (joinSep comma (h.shape.map digits))).filter (fun d => !d.isEmpty)).mapM ofDigits
      = some h.shape := by
    by_cases he : h.shape = []
    · simp [he, joinSep, splitSep]
    · have hne : h.shape.map digits ≠ [] := by simpa using he
      rw [splitSep_joinSep comma _ hne
        (fun x hx => by obtain ⟨n, _, rfl⟩ := List.mem_map.1 hx; exact digits_clean n comma (Or.inl rfl))]
      have hf : (h.shape.map digits).filter (fun d => !d.isEmpty) = h.shape.map digits := by
        rw [List.filter_eq_self]
        intro d hd
        obtain ⟨n, _, rfl⟩ := List.mem_map.1 hd
        have := digits_ne_nil n
        cases hdn : digits n with
        | nil => exact absurd hdn this
        | cons _ _ => rfl
      rw [hf]
      clear hf hne he f3 hsplit
      induction h.shape with
      | nil => rfl
      | cons n ns ih => simp [List.mapM_cons, ofDigits_digits, ih]
  unfold parse
  rw [hsplit]
  simp only [hnames, hkeys, hshape]

/-- the data block: `savetxt` writes `size` rows of `nterms` numbers; whatever `numpy.loadtxt` squeezes away,
`reshape(-1, nterms)` (the repair of D12) gives back `size` rows — for every size and number of terms ≥ 1 -/
theorem rows_restored (size nterms : Nat) (h : 0 < nterms) : loadedRows size nterms nterms = size := by
  unfold loadedRows; exact Nat.mul_div_cancel _ h

/-- `__reduce__` passes `(exponents, coefficients, names, dtype, allocation, retain_coefficients=True,
retain_names=True)` (the repair of D57): rebuilding from them gives back exactly the stored polynomial - every row, also
all-zero ones, every name, also unused ones - whatever options are in force when the pickle is loaded -/
theorem reduce_roundtrip {S : Type} [CommSemiring S] [BEq S] [LawfulBEq S] (p : Poly S) :
    clean true true p = p := C03.clean_retain p

/-- before the repair the last argument was `retain_coefficients=False` and `retain_names` was left to the option in
force at load time: the rebuilt polynomial denoted the same polynomial, but an all-zero term did not come back -/
theorem reduce_roundtrip_old {S : Type} [CommSemiring S] [BEq S] [LawfulBEq S] (rn : Bool) (p : Poly S) (hw : WF p) :
    den (clean false rn p) = den p := C03.clean_den false rn p hw
theorem reduce_old_dropped_terms :
    (clean false true (⟨[0, 1], [([0, 1], (0 : Int)), ([1, 0], 1)]⟩ : Poly Int)).terms = [([1, 0], 1)] := by decide

/-! ### the whole text file (`Np/Model/TextFile.lean`: header line, one line per array element with one number per
stored term, numpy.loadtxt's comment cutting / splitting / squeeze, numpoly's `reshape(-1, nkeys)` and the split into
one column per key; numpy's number formatting is the abstract codec `enc`/`dec`) -/

/-- **the file round trip**: loading what `savetxt` wrote gives back the header (names, keys, shape) and every
coefficient column — one theorem for 0-d arrays (a single line), size-1 arrays, a single stored term (one number per
line, which numpy.loadtxt squeezes to 1-d), empty arrays and the general case; for every number codec that decodes what
it encodes into non-empty tokens free of the delimiter and of `#` -/
theorem file_roundtrip {α : Type} {enc : α → Str} {dec : Str → Option α} {delim : Nat}
    (C : TextFile.Codec enc dec delim) (h : Header) (cols : List (List α)) (hn : Clean h.names) (hkeys : Clean h.keys)
    (hu : ∀ c ∈ cols, c.length = Shape.size h.shape) (hk : cols.length = h.keys.length) (h0 : 0 < cols.length) :
    TextFile.load dec delim (TextFile.save enc delim h cols) = some (h, cols) :=
  TextFile.load_save C h cols (header_roundtrip h hn hkeys) hu hk h0

/-- the data part has one line per array element (one line for a 0-d array) and every line one field per term -/
theorem file_layout {α : Type} {enc : α → Str} {dec : Str → Option α} {delim : Nat} (C : TextFile.Codec enc dec delim)
    (n : Nat) (cols : List (List α)) (h0 : cols ≠ []) (hu : ∀ c ∈ cols, c.length = n) :
    (TextFile.saveRows enc delim cols).length = n ∧
      ∀ l ∈ TextFile.saveRows enc delim cols, (splitSep delim l).length = cols.length :=
  ⟨TextFile.saveRows_length enc delim n cols h0 hu, TextFile.saveRows_fields C n cols h0 hu⟩

/-- the decimal codec the driver runs (`fmt="%d"` on natural numbers) meets the codec hypotheses for every delimiter
below the digits other than `#` (blank, tab, comma) -/
theorem decimal_codec (delim : Nat) (h1 : delim < 48) (h2 : TextFile.hash ≠ delim) :
    TextFile.Codec digits ofDigits delim := TextFile.digitsCodec delim h1 h2

/-- non-vacuity: a 0-d polynomial with two terms is one line; a single term of shape (3,) is three one-number lines -/
example : TextFile.load ofDigits comma (TextFile.save digits comma ⟨[[113, 48]], [[59], [60]], []⟩ [[7], [12]])
    = some (⟨[[113, 48]], [[59], [60]], []⟩, [[7], [12]]) := by decide +kernel
example : TextFile.load ofDigits blank (TextFile.save digits blank ⟨[[113, 48]], [[60]], [3]⟩ [[1, 20, 3]])
    = some (⟨[[113, 48]], [[60]], [3]⟩, [[1, 20, 3]]) := by decide +kernel

/-- non-vacuity: names q0,q10; keys ";<", "<;"; 0-d and 2×3 shapes -/
example : parse (format ⟨[[113, 48], [113, 49, 48]], [[59, 60], [60, 59]], []⟩)
    = some ⟨[[113, 48], [113, 49, 48]], [[59, 60], [60, 59]], []⟩ := by decide +kernel
example : (parse (format ⟨[[113, 48]], [[59]], [2, 3]⟩)).map (·.shape) = some [2, 3] := by decide +kernel
/-- a key containing the comma cannot be carried: the header then reads back as *different* keys, which is why
such keys (none exists below exponent 2³²: the offset keeps every key character ≥ ';') must be refused -/
example : (parse (format ⟨[[113, 48]], [[59, 44, 60]], []⟩)).map (·.keys) = some [[59], [60]] := by decide +kernel
end Np.Props.C13

import Np.Model.Div
import Np.Proofs.Div
import Mathlib.Algebra.MvPolynomial.Basic
import Mathlib.Tactic.Ring
import Np.Proofs.DivTerm
import Np.Proofs.DivArr
import Np.Proofs.DivExact
import Np.Proofs.DivArrExact
/-! C05 — polynomial division: the division identity is an invariant of every reduction step, the loop stops only
when no term of the remainder is reducible, zero and constant divisors, termination, exact multiples, degrees -/
namespace Np.Props.C05
open MvPolynomial Np.Div

section spec
variable {σ K : Type} [CommRing K]

/-- the division identity is preserved by every reduction step `q += c·x^m`, `f -= c·x^m·d` — for any number of
indeterminates, any coefficient `c` and any monomial `m` (so it holds whenever and however the loop stops) -/
theorem step_identity (f0 q f d : MvPolynomial σ K) (m : σ →₀ ℕ) (c : K) (h : f0 = q * d + f) :
    f0 = (q + monomial m c) * d + (f - monomial m c * d) := by
  rw [h]; ring

/-- … hence after any number of steps (induction over the list of steps taken) -/
theorem steps_identity (f0 d : MvPolynomial σ K) (steps : List ((σ →₀ ℕ) × K)) (q f : MvPolynomial σ K)
    (h : f0 = q * d + f) :
    f0 = (steps.foldl (fun s mc => (s.1 + monomial mc.1 mc.2, s.2 - monomial mc.1 mc.2 * d)) (q, f)).1 * d
        + (steps.foldl (fun s mc => (s.1 + monomial mc.1 mc.2, s.2 - monomial mc.1 mc.2 * d)) (q, f)).2 := by
  induction steps generalizing q f with
  | nil => simpa using h
  | cons mc rest ih =>
    simp only [List.foldl_cons]
    exact ih _ _ (step_identity f0 q f d mc.1 mc.2 h)
end spec

section model
variable {R : Type} [Zero R] [Add R] [Sub R] [Mul R] [Div R] [BEq R]

/-- a zero divisor element: nothing is reduced, `q = 0`, `r = dividend` (for every fuel ≥ 1) -/
theorem zero_divisor (d f : List (Expo × R)) (fuel : Nat) (h : maxTerm (fun t => !(t.2 == 0)) d = none) :
    divmodFuel d (fuel + 1) ([], f) = some ([], f) := by
  simp [divmodFuel, step, h]

/-- the loop stops only when the divisor is zero or no non-zero term of the running dividend is divisible by the
divisor's leading term (so the remainder is reduced with respect to that leading term) -/
theorem stops_when_irreducible (d : List (Expo × R)) (qf qf' : List (Expo × R) × List (Expo × R)) (fuel : Nat)
    (h : divmodFuel d (fuel + 1) qf = some qf') (hs : step d qf = none) : qf' = qf := by
  simp [divmodFuel, hs] at h; exact h.symm

theorem step_none_iff (d : List (Expo × R)) (qf : List (Expo × R) × List (Expo × R)) :
    step d qf = none ↔
      maxTerm (fun t => !(t.2 == 0)) d = none ∨
      ∃ lead, maxTerm (fun t => !(t.2 == 0)) d = some lead ∧
        maxTerm (fun t => !(t.2 == 0) && divides lead.1 t.1) qf.2 = none := by
  unfold step
  cases h1 : maxTerm (fun t => !(t.2 == 0)) d with
  | none => simp
  | some lead =>
    cases h2 : maxTerm (fun t => !(t.2 == 0) && divides lead.1 t.1) qf.2 with
    | none => simp [h2]
    | some k => simp [h2]

/-- more fuel never changes an answer already obtained -/
theorem fuel_mono (d : List (Expo × R)) :
    ∀ (fuel : Nat) (qf r : List (Expo × R) × List (Expo × R)),
      divmodFuel d fuel qf = some r → divmodFuel d (fuel + 1) qf = some r
  | 0, _, _, h => by simp [divmodFuel] at h
  | fuel + 1, qf, r, h => by
    unfold divmodFuel at h ⊢
    cases hs : step d qf with
    | none => simpa [hs] using h
    | some qf' =>
      simp only [hs] at h ⊢
      exact fuel_mono d fuel qf' r h
end model

section refinement
variable {K : Type} [Field K] [BEq K] [LawfulBEq K]

/-- the executable long division satisfies the division identity: whenever `divmod` returns (within its fuel),
`dividend = q·divisor + r` as multivariate polynomials — any number of indeterminates, any number of terms, any
field of coefficients (rows pairwise distinct and of the names' length, as in every well-formed polynomial) -/
theorem divmod_identity (ns : List Name) (fuel : Nat) (f d q r : List (Expo × K))
    (hf : (f.map (·.1)).Nodup) (hfl : ∀ t ∈ f, t.1.length = ns.length) (hdl : ∀ t ∈ d, t.1.length = ns.length)
    (h : divmod fuel f d = some (q, r)) : denT ns f = denT ns q * denT ns d + denT ns r :=
  Div.divmod_identity ns fuel f d q r hf hfl hdl h

/-- … and the remainder is reduced: when the divisor element is not zero it has a leading term (largest non-zero
term in lexsort order) and no non-zero term of the remainder is divisible by it. In one indeterminate this is
`deg r < deg divisor`; for a non-zero constant divisor every monomial is divisible, so `r = 0`. -/
theorem remainder_reduced (fuel : Nat) (f d q r : List (Expo × K)) (t0 : Expo × K) (ht0 : t0 ∈ d) (hnz : t0.2 ≠ 0)
    (h : divmod fuel f d = some (q, r)) :
    ∃ lead, maxTerm (fun t => !(t.2 == 0)) d = some lead ∧ lead ∈ d ∧ lead.2 ≠ 0 ∧
      ∀ t ∈ r, t.2 ≠ 0 → divides lead.1 t.1 = false :=
  Div.divmod_remainder_reduced' fuel f d q r t0 ht0 hnz h

/-- quotient and remainder are again sparse term lists with pairwise distinct rows of the right length -/
theorem divmod_wellformed (ns : List Name) (fuel : Nat) (f d q r : List (Expo × K))
    (hf : (f.map (·.1)).Nodup) (hfl : ∀ t ∈ f, t.1.length = ns.length) (hdl : ∀ t ∈ d, t.1.length = ns.length)
    (h : divmod fuel f d = some (q, r)) : Div.Inv ns q ∧ Div.Inv ns r := Div.divmod_inv ns fuel f d q r hf hfl hdl h
/-- **termination**: the long division always stops — for every dividend and divisor element (rows pairwise distinct
and of one length `n`, any number of indeterminates, any field) there is a fuel from which on `divmod` returns, always
with the same quotient and remainder. The measure: the candidate term (largest non-zero term of the remainder divisible
by the divisor's leading term, in lexsort order) strictly decreases in a well-founded monomial order
(`Np.Div.lexLt_wf`, `step_candidate_lt`), because a step cancels the candidate and only adds smaller rows. -/
theorem divmod_terminates (n : Nat) (f d : List (Expo × K))
    (hf : ∀ t ∈ f, t.1.length = n) (hd : ∀ t ∈ d, t.1.length = n)
    (hfn : (f.map (·.1)).Nodup) (hdn : (d.map (·.1)).Nodup) :
    ∃ fuel₀ q r, ∀ fuel ≥ fuel₀, divmod fuel f d = some (q, r) :=
  Div.divmod_terminates_mono n f d hf hd hfn hdn

/-- **total correctness**: termination and the identity together — quotient and remainder exist, satisfy
`dividend = q·divisor + r`, and the remainder is reduced -/
theorem divmod_total (ns : List Name) (f d : List (Expo × K))
    (hf : ∀ t ∈ f, t.1.length = ns.length) (hd : ∀ t ∈ d, t.1.length = ns.length)
    (hfn : (f.map (·.1)).Nodup) (hdn : (d.map (·.1)).Nodup) :
    ∃ fuel q r, divmod fuel f d = some (q, r) ∧ denT ns f = denT ns q * denT ns d + denT ns r := by
  obtain ⟨fuel, q, r, h⟩ := Div.divmod_terminates ns.length f d hf hd hfn hdn
  exact ⟨fuel, q, r, h, Div.divmod_identity ns fuel f d q r hfn hf hd h⟩
/-- **constant divisor**: where the divisor element is a non-zero constant `c` (its leading row is the zero row), the
remainder is zero and the quotient is the true quotient `f / c` -/
theorem constant_divisor (ns : List Name) (fuel : Nat) (f d q r : List (Expo × K)) (lead : Expo × K)
    (hf : (f.map (·.1)).Nodup) (hfl : ∀ t ∈ f, t.1.length = ns.length) (hdl : ∀ t ∈ d, t.1.length = ns.length)
    (hdn : (d.map (·.1)).Nodup)
    (hlead : maxTerm (fun t => !(t.2 == 0)) d = some lead) (hl0 : lead.1 = List.replicate ns.length 0)
    (h : divmod fuel f d = some (q, r)) :
    denT ns d = C lead.2 ∧ r = [] ∧ denT ns r = 0 ∧ denT ns q = C (lead.2)⁻¹ * denT ns f := by
  obtain ⟨h1, h2, h3⟩ := Div.divmod_const_divisor' ns fuel f d q r lead hf hfl hdl hdn hlead hl0 h
  exact ⟨h1, Div.divmod_const_remainder_nil fuel ns.length f d q r lead hlead hl0 h, h2, h3⟩

/-- **exact multiples**: where the dividend is a polynomial multiple `g · divisor` of a non-zero divisor — any number
of indeterminates, `g` any polynomial — the remainder is zero (the empty term list) and the quotient is the cofactor
`g`, term by term. (The lexsort order is compatible with adding exponent rows, so the largest monomial of
`(g − q)·d` would be divisible by the divisor's leading monomial, which a reduced remainder excludes.) -/
theorem exact_multiple (ns : List Name) (hn : ns.Nodup) (fuel : Nat) (f d q r : List (Expo × K))
    (g : MvPolynomial Name K)
    (hf : (f.map (·.1)).Nodup) (hfl : ∀ t ∈ f, t.1.length = ns.length)
    (hdn : (d.map (·.1)).Nodup) (hdl : ∀ t ∈ d, t.1.length = ns.length)
    (h : divmod fuel f d = some (q, r)) (hg : denT ns f = g * denT ns d) (hd0 : denT ns d ≠ 0) :
    denT ns r = 0 ∧ denT ns q = g ∧ r = [] ∧ ∀ t ∈ q, coeff (fsN ns t.1) g = t.2 ∧ t.2 ≠ 0 := by
  obtain ⟨h1, h2⟩ := Div.divmod_exact ns hn fuel f d q r g hf hfl hdn hdl h hg hd0
  obtain ⟨h3, h4⟩ := Div.divmod_exact_terms ns hn fuel f d q r g hf hfl hdn hdl h hg hd0
  exact ⟨h1, h2, h3, h4⟩

/-- quotient and remainder are unique: any decomposition `f = g·d + s` with `s` reduced w.r.t. the divisor's leading
monomial is the one the division returns -/
theorem quotient_unique (ns : List Name) (hn : ns.Nodup) (fuel : Nat) (f d q r s : List (Expo × K))
    (g : MvPolynomial Name K) (lead : Expo × K)
    (hf : (f.map (·.1)).Nodup) (hfl : ∀ t ∈ f, t.1.length = ns.length)
    (hdn : (d.map (·.1)).Nodup) (hdl : ∀ t ∈ d, t.1.length = ns.length)
    (hlead : maxTerm (fun t => !(t.2 == 0)) d = some lead)
    (h : divmod fuel f d = some (q, r))
    (hsl : ∀ t ∈ s, t.1.length = ns.length)
    (hsred : ∀ t ∈ s, t.2 ≠ 0 → divides lead.1 t.1 = false)
    (hg : denT ns f = g * denT ns d + denT ns s) :
    denT ns q = g ∧ denT ns r = denT ns s :=
  Div.divmod_unique ns hn fuel f d q r s g lead hf hfl hdn hdl hlead h hsl hsred hg

/-- **one indeterminate**: the remainder has lower degree than the divisor — every monomial of `r` has exponent
`< l` where `l` is the divisor's degree (its leading exponent; every monomial of `d` has exponent `≤ l`) -/
theorem univariate_degree (x : Name) (fuel : Nat) (f d q r : List (Expo × K)) (t0 : Expo × K)
    (hf : (f.map (·.1)).Nodup) (hfl : ∀ t ∈ f, t.1.length = 1) (hdl : ∀ t ∈ d, t.1.length = 1)
    (ht0 : t0 ∈ d) (hnz : t0.2 ≠ 0) (h : divmod fuel f d = some (q, r)) :
    ∃ (lead : Expo × K) (l : Nat), maxTerm (fun t => !(t.2 == 0)) d = some lead ∧ lead.2 ≠ 0 ∧ lead.1 = [l] ∧
      (∀ m, coeff m (denT [x] d) ≠ 0 → m x ≤ l) ∧ ∀ m, coeff m (denT [x] r) ≠ 0 → m x < l :=
  Div.divmod_univariate_den x fuel f d q r t0 hf hfl hdl ht0 hnz h

/-- no zero coefficient is ever stored in quotient or remainder -/
theorem no_zero_terms (fuel : Nat) (f d q r : List (Expo × K)) (h : divmod fuel f d = some (q, r)) :
    (∀ t ∈ q, t.2 ≠ 0) ∧ ∀ t ∈ r, t.2 ≠ 0 := Div.divmod_nz fuel f d q r h
end refinement

/-! ### on arrays: `poly_divmod(a, b)` divides element by element after broadcasting (Np/Model/DivArr.lean is what the
driver runs; Np/Proofs/DivArr.lean) -/
section arrays
open Shape
variable {K : Type} [Field K] [BEq K] [LawfulBEq K]

/-- shapes: `ValueError` iff the shapes do not broadcast; otherwise one (quotient, remainder) slot per element of the
broadcast shape over the union of the names; the model's own out-of-domain error is unreachable -/
theorem divmod_array_shape (fuel : Nat) (a b : Arr K) (ha : ∀ d ∈ a.shape, 0 < d) (hb : ∀ d ∈ b.shape, 0 < d) :
    (divmodArr fuel a b = .error .valueError ↔ bshape a.shape b.shape = none) ∧
    divmodArr fuel a b ≠ .error .internal ∧
    ∀ s, bshape a.shape b.shape = some s →
      ∃ elems, divmodArr fuel a b = .ok (s, a.commonNames b, elems) ∧ elems.length = size s :=
  divmodArr_shape fuel a b ha hb

/-- **the identity on arrays**: every finished element satisfies `a[σa i] = q_i · b[σb i] + r_i` for the broadcast
elements, quotient and remainder are sparse term lists with distinct rows, and the remainder is reduced with respect
to a non-zero term of the divisor element -/
theorem divmod_array_identity (fuel : Nat) (a b : Arr K) (ha : a.WF) (hb : b.WF) (s : List Nat) (names : List Name)
    (elems : List (Option (List (Expo × K) × List (Expo × K))))
    (h : divmodArr fuel a b = .ok (s, names, elems)) :
    ∃ (σa : Fin (size s) → Fin (size a.shape)) (σb : Fin (size s) → Fin (size b.shape)),
      (∀ i, (σa i).val = bindex a.shape s i.val) ∧ (∀ i, (σb i).val = bindex b.shape s i.val) ∧
      ∀ (i : Fin (size s)) (q r : List (Expo × K)), elems[i.val]? = some (some (q, r)) →
        a.elem (σa i) = denT names q * b.elem (σb i) + denT names r ∧
        Div.Inv names q ∧ Div.Inv names r ∧
        (b.elem (σb i) ≠ 0 → ∃ lead : Expo × K, lead.2 ≠ 0 ∧ lead.1.length = names.length ∧
          coeff (fsN names lead.1) (b.elem (σb i)) = lead.2 ∧
          ∀ t ∈ r, t.2 ≠ 0 → Div.divides lead.1 t.1 = false) :=
  divmodArr_identity fuel a b ha hb s names elems h

/-- **termination on arrays**: from some fuel on every element has finished and the result no longer changes -/
theorem divmod_array_terminates (a b : Arr K) (ha : a.WF) (hb : b.WF)
    (hpa : ∀ d ∈ a.shape, 0 < d) (hpb : ∀ d ∈ b.shape, 0 < d) (s : List Nat)
    (hs : bshape a.shape b.shape = some s) :
    ∃ fuel₀, ∃ qrs : List (List (Expo × K) × List (Expo × K)), qrs.length = size s ∧
      ∀ fuel ≥ fuel₀, divmodArr fuel a b = .ok (s, a.commonNames b, qrs.map some) :=
  divmodArr_terminates a b ha hb hpa hpb s hs

/-- a zero divisor element: quotient 0, remainder = the dividend element -/
theorem divmod_array_zero_divisor (fuel : Nat) (a b : Arr K) (ha : a.WF) (hb : b.WF) (s : List Nat)
    (names : List Name) (elems : List (Option (List (Expo × K) × List (Expo × K))))
    (h : divmodArr (fuel + 1) a b = .ok (s, names, elems)) :
    ∃ (σa : Fin (size s) → Fin (size a.shape)) (σb : Fin (size s) → Fin (size b.shape)),
      (∀ i, (σa i).val = bindex a.shape s i.val) ∧ (∀ i, (σb i).val = bindex b.shape s i.val) ∧
      ∀ i : Fin (size s), b.elem (σb i) = 0 →
        ∃ r, elems[i.val]? = some (some ([], r)) ∧ denT names r = a.elem (σa i) ∧ ∀ t ∈ r, t.2 ≠ 0 :=
  divmodArr_zero_divisor fuel a b ha hb s names elems h
/-! ### the three consequences on arrays (`Np/Proofs/DivArrExact.lean`): `poly_divmod(a, b)` with broadcasting -/
/-- **exact multiples on arrays**: wherever the broadcast dividend element is `g · divisor element` (divisor element
non-zero) the remainder there is the empty term list and the quotient is `g`, term by term -/
theorem divmod_array_exact_multiple (fuel : Nat) (a b : Arr K) (ha : a.WF) (hb : b.WF) (s : List Nat)
    (names : List Name) (elems : List (Option (List (Expo × K) × List (Expo × K))))
    (h : divmodArr fuel a b = .ok (s, names, elems)) :
    ∃ (σa : Fin (size s) → Fin (size a.shape)) (σb : Fin (size s) → Fin (size b.shape)),
      (∀ i, (σa i).val = bindex a.shape s i.val) ∧ (∀ i, (σb i).val = bindex b.shape s i.val) ∧
      ∀ (i : Fin (size s)) (q r : List (Expo × K)), elems[i.val]? = some (some (q, r)) →
        ∀ g : MvPolynomial Name K, a.elem (σa i) = g * b.elem (σb i) → b.elem (σb i) ≠ 0 →
          r = [] ∧ denT names r = 0 ∧ denT names q = g ∧
          ∀ t ∈ q, coeff (fsN names t.1) g = t.2 ∧ t.2 ≠ 0 :=
  divmodArr_exact_multiple fuel a b ha hb s names elems h

/-- **constant divisor elements**: remainder empty, quotient = element / c -/
theorem divmod_array_constant_divisor (fuel : Nat) (a b : Arr K) (ha : a.WF) (hb : b.WF) (s : List Nat)
    (names : List Name) (elems : List (Option (List (Expo × K) × List (Expo × K))))
    (h : divmodArr fuel a b = .ok (s, names, elems)) :
    ∃ (σa : Fin (size s) → Fin (size a.shape)) (σb : Fin (size s) → Fin (size b.shape)),
      (∀ i, (σa i).val = bindex a.shape s i.val) ∧ (∀ i, (σb i).val = bindex b.shape s i.val) ∧
      ∀ (i : Fin (size s)) (q r : List (Expo × K)), elems[i.val]? = some (some (q, r)) →
        ∀ c : K, c ≠ 0 → b.elem (σb i) = C c →
          r = [] ∧ denT names r = 0 ∧ denT names q = C c⁻¹ * a.elem (σa i) :=
  divmodArr_constant_divisor fuel a b ha hb s names elems h

/-- **one indeterminate**: at every position with a non-zero divisor element, `deg r < deg divisor` -/
theorem divmod_array_univariate (fuel : Nat) (a b : Arr K) (ha : a.WF) (hb : b.WF) (s : List Nat)
    (names : List Name) (elems : List (Option (List (Expo × K) × List (Expo × K))))
    (h : divmodArr fuel a b = .ok (s, names, elems)) (h1 : names.length = 1) :
    ∃ x, names = [x] ∧
    ∃ (σa : Fin (size s) → Fin (size a.shape)) (σb : Fin (size s) → Fin (size b.shape)),
      (∀ i, (σa i).val = bindex a.shape s i.val) ∧ (∀ i, (σb i).val = bindex b.shape s i.val) ∧
      ∀ (i : Fin (size s)) (q r : List (Expo × K)), elems[i.val]? = some (some (q, r)) →
        b.elem (σb i) ≠ 0 →
        ∃ l : Nat, (∀ m, coeff m (b.elem (σb i)) ≠ 0 → m x ≤ l) ∧
          coeff (Finsupp.single x l) (b.elem (σb i)) ≠ 0 ∧
          l = degreeOf x (b.elem (σb i)) ∧
          ∀ m, coeff m (denT names r) ≠ 0 → m x < l :=
  divmodArr_univariate fuel a b ha hb s names elems h h1
end arrays

/-- non-vacuity: (q0³ + q1³ + 1) / (q0 + q1) = q1² − q0 q1 + q0², remainder 1, within 3 steps;
and the witness of the former two-cycle now stops at once: q0² q1 is not divisible by the leading term q1² -/
example : divmod 10 [([3, 0], (1 : Rat)), ([0, 3], 1), ([0, 0], 1)] [([1, 0], (1 : Rat)), ([0, 1], 1)]
    = some ([([0, 2], 1), ([1, 1], -1), ([2, 0], 1)], [([0, 0], 1)]) := by decide +kernel
example : divmod 10 [([2, 1], (1 : Rat))] [([0, 2], (1 : Rat)), ([1, 0], -1)] = some ([], [([2, 1], 1)]) := by
  decide +kernel
end Np.Props.C05

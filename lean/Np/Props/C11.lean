import Np.Proofs.Dispatch
import Np.Proofs.ConstFns
import Np.Proofs.ElemFns
import Np.Model.Patterns
import Np.Proofs.ConstPatterns
import Np.Model.Signatures
import Np.Generated.Signatures
/-! C11 — on constant polynomials every mirrored function behaves exactly like numpy: pattern theorems and the
completeness of the classification over the regenerated registries -/
namespace Np.Props.C11
open MvPolynomial Np.Patterns
variable {S : Type} [CommSemiring S]

/-- table obligation: every function or ufunc registered on the working tree has a dispatch pattern (a newly
registered function without one breaks this, whatever the tests do) -/
theorem registry_classified :
    (∀ e ∈ Generated.ufuncRegistry, (classify e.1).isSome = true) ∧
    (∀ e ∈ Generated.functionRegistry, (classify e.1).isSome = true) := by
  refine ⟨by decide +kernel, by decide +kernel⟩

/-- rows of a constant polynomial: the all-zero exponent row carries the value, every other column is zero -/
def ConstRows (ns : List Name) (ts : List (Expo × S)) (c : S) : Prop :=
  ∀ t ∈ ts, (fsN ns t.1 = 0 ∧ t.2 = c) ∨ t.2 = 0

/-- pattern "columnwise" on constants: a function with `f 0 = 0` applied to every coefficient column of a constant
polynomial (one constant row; retained all-zero columns allowed) gives constant rows with value `f c` — the columns
that were zero stay zero, so nothing non-constant appears, whatever the retain flags -/
theorem columnwise_const (f : S → S) (hf : f 0 = 0) (ns : List Name) (ts : List (Expo × S)) (c : S)
    (h : ConstRows ns ts c) : ConstRows ns (ts.map fun t => (t.1, f t.2)) (f c) := by
  intro t ht
  obtain ⟨u, hu, rfl⟩ := List.mem_map.1 ht
  rcases h u hu with ⟨h1, h2⟩ | h0
  · left; exact ⟨h1, by simp [h2]⟩
  · right; simp [h0, hf]

theorem fsN_of_isZeroExpo (ns : List Name) (e : Expo) (h : isZeroExpo e = true) : fsN ns e = 0 := by
  induction ns generalizing e with
  | nil => simp [fsN]
  | cons n ns ih =>
    cases e with
    | nil => simp [fsN]
    | cons x xs =>
      simp only [isZeroExpo, List.all_cons, Bool.and_eq_true, beq_iff_eq] at h
      simp [fsN, h.1, ih xs (by simpa [isZeroExpo] using h.2)]

/-- the denotation of rows that are either all-zero-exponent or have a zero column is a constant polynomial: the
sum of the columns of the all-zero-exponent rows (exactly one such row for a well-formed polynomial) -/
theorem den_constRows (ns : List Name) :
    ∀ ts : List (Expo × S), (∀ t ∈ ts, isZeroExpo t.1 = true ∨ t.2 = 0) →
      denT ns ts = C ((ts.filter fun t => isZeroExpo t.1).map (·.2)).sum
  | [], _ => by simp
  | t :: ts, h => by
    have ih := den_constRows ns ts (fun u hu => h u (by simp [hu]))
    rw [denT_cons, ih]
    by_cases h1 : isZeroExpo t.1 = true
    · simp [h1, fsN_of_isZeroExpo ns t.1 h1, monomial_zero']
    · have h0 : t.2 = 0 := (h t (by simp)).resolve_left h1
      simp [h1, h0]

theorem find_row (ts : List (Expo × S)) (z : Expo) (c : S) (hm : (z, c) ∈ ts) (hnd : (ts.map (·.1)).Nodup) :
    ts.find? (fun t => t.1 == z) = some (z, c) := by
  induction ts with
  | nil => simp at hm
  | cons x xs ih =>
    simp only [List.map_cons, List.nodup_cons] at hnd
    rcases List.mem_cons.1 hm with rfl | hm'
    · simp
    · have hne : ¬ x.1 = z := fun he => hnd.1 (he ▸ List.mem_map_of_mem (f := (·.1)) hm')
      have : (x.1 == z) = false := by simpa using hne
      simp only [List.find?_cons, this]
      exact ih hm' hnd.2

/-- `tonumpy` of a constant polynomial reads the column of the all-zero exponent row -/
theorem tonumpy_reads_constant_row [BEq S] [LawfulBEq S] (p : Poly S) (c : S)
    (hrow : ((p.names.map fun _ => 0), c) ∈ p.terms) (hnd : p.expos.Nodup) (hc : isConstant p = true) :
    toNumpy p = some c := by
  unfold toNumpy
  rw [if_pos hc]
  congr 1
  unfold lookup
  rw [find_row p.terms _ c hrow hnd]

/-! ### on constants the executable operations ARE numpy's operations on the values (Np/Proofs/ConstPatterns.lean) -/
section patterns
open Shape MvPolynomial

/-- a well-formed polynomial (array) is constant with value `c` exactly when it denotes `C c` -/
theorem constant_iff {S : Type} [CommSemiring S] [BEq S] [LawfulBEq S] (p : Poly S) (c : S) (hw : WF p) :
    toNumpy p = some c ↔ den p = C c := toNumpy_iff_den_C p c hw

/-- arithmetic pattern: `+`, `-`, `*`, unary `-` of constants are the numeric operations on the values -/
theorem const_arith {S : Type} [CommRing S] [BEq S] [LawfulBEq S] (rc rn : Bool) (a b : Poly S) (ca cb : S)
    (ha : WF a) (hb : WF b) (h1 : toNumpy a = some ca) (h2 : toNumpy b = some cb) :
    toNumpy (add rc rn a b) = some (ca + cb) ∧ toNumpy (sub rc rn a b) = some (ca - cb) ∧
    toNumpy (neg rc rn a) = some (-ca) ∧
    ∃ r, multiply rc rn a b = some r ∧ WF r ∧ toNumpy r = some (ca * cb) :=
  ⟨toNumpy_add rc rn a b ca cb ha hb h1 h2, toNumpy_sub rc rn a b ca cb ha hb h1 h2, toNumpy_neg rc rn a ca ha h1,
    toNumpy_multiply_total rc rn a b ca cb ha hb h1 h2⟩

variable {R : Type} [CommSemiring R] [BEq R] [LawfulBEq R]

/-- gather pattern (every shape function, indexing form): the same index gather on the numeric array -/
theorem const_gather (rc rn : Bool) (a : Arr R) (c : Vec R (size a.shape)) (hw : a.WF)
    (h : toNumpy a.poly = some c) (outShape idx : List Nat) :
    toNumpy (gatherOp rc rn [a] outShape idx).poly = some (gatherFill (size outShape) idx c) :=
  toNumpy_gatherOp rc rn a c hw h outShape idx

/-- linear pattern (sum, cumsum, mean, diff, …): the same weighted sums of the numeric array -/
theorem const_linear (rc rn : Bool) (a : Arr R) (c : Vec R (size a.shape)) (hw : a.WF)
    (h : toNumpy a.poly = some c) (outShape : List Nat) (W : List (List (Nat × R))) :
    toNumpy (linearOp rc rn a outShape W).poly = some (linearCol (size outShape) W c) :=
  toNumpy_linearOp rc rn a c hw h outShape W

/-- product pattern (prod) and bilinear pattern (inner, outer, matmul) -/
theorem const_prod (rc rn : Bool) (a : Arr R) (c : Vec R (size a.shape)) (hw : a.WF)
    (h : toNumpy a.poly = some c) (outShape : List Nat) (groups : List (List Nat)) :
    ∃ p : Poly (Vec R (size outShape)), prodOp rc rn a outShape groups = some ⟨outShape, p⟩ ∧ WF p ∧
      toNumpy p = some (groups.foldl (fun acc g => acc * gatherFill (size outShape) g c) 1) :=
  toNumpy_prodOp rc rn a c hw h outShape groups
theorem const_bilinear (rc rn : Bool) (a b : Arr R) (ca : Vec R (size a.shape)) (cb : Vec R (size b.shape))
    (hwa : a.WF) (hwb : b.WF) (ha : toNumpy a.poly = some ca) (hb : toNumpy b.poly = some cb)
    (outShape : List Nat) (pairs : List (List Nat × List Nat)) :
    ∃ p : Poly (Vec R (size outShape)), bilinearOp rc rn a b outShape pairs = some ⟨outShape, p⟩ ∧ WF p ∧
      toNumpy p = some (pairs.foldl
        (fun acc p => acc + gatherFill (size outShape) p.1 ca * gatherFill (size outShape) p.2 cb) 0) :=
  toNumpy_bilinearOp rc rn a b ca cb hwa hwb ha hb outShape pairs

/-- ordering pattern: on constants every comparison operator is the numeric comparison of the values, whatever the
sort options; `==`/`!=` are numeric equality -/
theorem const_compare {n : Nat} (lt : R → R → Bool) (op : CmpOp) (graded reverse : Bool) (a b : Poly (Vec R n))
    (ca cb : Vec R n) (ha : WF a) (hb : WF b) (h1 : toNumpy a = some ca) (h2 : toNumpy b = some cb) (i : Fin n) :
    (compareArr lt op graded reverse a b).get i = op.rel lt (ca.get i) (cb.get i) ∧
    (equalArr a b).get i = (ca.get i == cb.get i) ∧ (notEqualArr a b).get i = (ca.get i != cb.get i) :=
  ⟨compareArr_const lt op graded reverse a b ca cb ha hb h1 h2 i, equalArr_const a b ca cb ha hb h1 h2 i,
    notEqualArr_const a b ca cb ha hb h1 h2 i⟩
end patterns

/-! ### the argument lists mirror numpy's (table regenerated from /repo and the installed numpy on every run) -/

/-- table obligation: for every registered function, the implementation's positional parameters carry numpy's names
in numpy's order and every default it shares with numpy has numpy's value — except the deviations that were read and
judged in `Np.Sig.reviewed` (harmless renamings of the first parameter, equivalent defaults, and the recorded
finding D29). A swapped parameter order or a changed default breaks this obligation even if no test calls the
function that way. -/
theorem signatures_mirror_numpy : Np.Sig.unreviewed Np.Generated.signatures = [] := by decide +kernel

/-- the table is not vacuous: it covers every registry entry for which numpy publishes a signature -/
theorem signatures_cover : 80 ≤ (Np.Generated.signatures.filter fun e => e.np.isSome).length := by decide +kernel

/-- non-vacuity: numpy.negative on the constant [2, -1] stored with a retained zero column -/
example : (unaryDispatch false true (fun x : Int => -x)
    ({ names := [0], terms := [([0], 2), ([3], 0)] } : Poly Int)).terms = [([0], -2)] := by decide
/-! ### numpy's semantics on integer / rational value arrays inside the model (`Np/Model/ConstFns.lean`; the run
compares the model's values with numpy's on a grid) -/
section constfns
open Np.Shape Np.ReduceFns Np.ConstFns

/-- `argmax` returns the FIRST index of a maximal entry (likewise `argmin`) -/
theorem argmax_first_occurrence {xs : List Int} {i : Nat} (h : argmaxFlat xs = some i) : IsArgmax xs i :=
  argmaxFlat_spec h
theorem argmin_first_occurrence {xs : List Int} {i : Nat} (h : argminFlat xs = some i) : IsArgmin xs i :=
  argminFlat_spec h

/-- … along an axis: for every output multi-index the first maximal position along the axis -/
theorem argmax_axis (a b : List Nat) {n : Nat} (hn : 0 < n) (xs : List Int) :
    ∃ I, argmaxAxis (a ++ n :: b) xs a.length = some (a ++ b, I) ∧ I.length = size (a ++ b) ∧
      ∀ x y, InR x a → InR y b → ∃ i, I[ravel (a ++ b) (x ++ y)]? = some i ∧ i < n ∧
        (∀ t < n, xs.getD (ravel (a ++ n :: b) (x ++ t :: y)) 0 ≤ xs.getD (ravel (a ++ n :: b) (x ++ i :: y)) 0) ∧
        ∀ t < i, xs.getD (ravel (a ++ n :: b) (x ++ t :: y)) 0 < xs.getD (ravel (a ++ n :: b) (x ++ i :: y)) 0 :=
  argmaxAxis_spec a b hn xs

/-- `floor_divide` / `remainder` on integers: `a = b·q + r` with the remainder carrying the sign of the divisor -/
theorem floor_divide_remainder (a b : Int) (hb : b ≠ 0) :
    a = b * floorDiv a b + pyMod a b ∧ ((0 ≤ pyMod a b ∧ pyMod a b < b) ∨ (b < pyMod a b ∧ pyMod a b ≤ 0)) :=
  floorDiv_spec a b hb

/-- `rint` rounds to the nearest integer, ties to even -/
theorem rint_half_to_even (q : Int × Nat) (hd : 0 < q.2) :
    -(q.2 : Int) ≤ 2 * q.1 - 2 * (rintQ q * (q.2 : Int)) ∧ 2 * q.1 - 2 * (rintQ q * (q.2 : Int)) ≤ (q.2 : Int) ∧
    ((2 * q.1 - 2 * (rintQ q * (q.2 : Int))).natAbs = q.2 → rintQ q % 2 = 0) := rintQ_spec q hd

/-- `isclose(a, b)` is `|a − b| ≤ atol + rtol·|b|` — relative to the SECOND operand -/
theorem isclose_is_relative_to_b (a b rtol atol : Int × Nat) (ha : 0 < a.2) (hb : 0 < b.2) (hr : 0 < rtol.2)
    (ht : 0 < atol.2) :
    iscloseQ a b rtol atol = true ↔ |toQ a - toQ b| ≤ toQ atol + toQ rtol * |toQ b| := iscloseQ_iff a b rtol atol ha hb hr ht

/-- `nonzero` lists exactly the multi-indices of the non-zero entries, in C order -/
theorem nonzero_lists_nonzeros (shape : List Nat) (xs : List Int) (hxs : xs.length = size shape) :
    (nonzeroF shape xs).length = shape.length ∧
    (∀ idx ∈ nonzeroIdx shape xs, InR idx shape) ∧
    (nonzeroIdx shape xs).Pairwise (fun i j => ravel shape i < ravel shape j) ∧
    ∀ idx, InR idx shape → (idx ∈ nonzeroIdx shape xs ↔ xs.getD (ravel shape idx) 0 ≠ 0) := by
  obtain ⟨h1, -, -, h4, h5, h6⟩ := nonzeroF_spec shape xs hxs
  exact ⟨h1, h4, h5, h6⟩
end constfns

/-! ### numpy's element-wise functions with broadcasting on value arrays (`Np/Model/ElemFns.lean`) -/
section elemfns
open Np.Shape Np.ShapeFns Np.ElemFns Np.ConstFns

/-- every binary element-wise function: the shapes broadcast like numpy's, and the entry at output multi-index `j` is
`f` of the two operands at their broadcast positions -/
theorem elementwise_broadcast {β : Type} {f : Int → Int → β} {sa sb out : List Nat} {xs ys : List Int} {r : List β}
    (h : binop f sa sb xs ys = some (out, r)) {j : List Nat} (hj : Valid out j) :
    bshape sa sb = some out ∧ r.length = size out ∧
    r[ravel out j]? = some (f (xs.getD (ravel sa (bmulti sa j)) 0) (ys.getD (ravel sb (bmulti sb j)) 0)) ∧
    Valid sa (bmulti sa j) ∧ ravel sa (bmulti sa j) < xs.length ∧
    Valid sb (bmulti sb j) ∧ ravel sb (bmulti sb j) < ys.length := binop_spec h hj

/-- comparisons of value arrays: at every position exactly one of `less`, `equal`, `greater` holds -/
theorem comparisons_trichotomy {sa sb out : List Nat} {xs ys : List Int} {l : List Bool}
    (hl : lessF sa sb xs ys = some (out, l)) :
    ∃ e g, equalF sa sb xs ys = some (out, e) ∧ greaterF sa sb xs ys = some (out, g) ∧
      ∀ i, i < size out → ∃ x y z, l[i]? = some x ∧ e[i]? = some y ∧ g[i]? = some z ∧
        ((x = true ∧ y = false ∧ z = false) ∨ (x = false ∧ y = true ∧ z = false) ∨
          (x = false ∧ y = false ∧ z = true)) := compare_trichotomy hl

/-- `floor_divide` and `remainder` with broadcasting: `a = b·q + r` with the divisor's sign on `r`; a zero divisor
gives 0 for both (numpy's integer semantics) -/
theorem floor_divide_remainder_broadcast {sa sb out : List Nat} {xs ys q : List Int}
    (hq : floorDivideF sa sb xs ys = some (out, q)) :
    ∃ m, remainderF sa sb xs ys = some (out, m) ∧ ∀ j, Valid out j → ∃ qv mv a b,
      a = xs.getD (ravel sa (bmulti sa j)) 0 ∧ b = ys.getD (ravel sb (bmulti sb j)) 0 ∧
      q[ravel out j]? = some qv ∧ m[ravel out j]? = some mv ∧
      (b ≠ 0 → a = b * qv + mv ∧ ((0 ≤ mv ∧ mv < b) ∨ (b < mv ∧ mv ≤ 0))) ∧
      (b = 0 → qv = 0 ∧ mv = 0) := floorDivide_remainder_spec hq
end elemfns

end Np.Props.C11

import Np.Proofs.Deriv
import Np.Model.Grad
/-! C06 — derivative, gradient and Hessian are the formal partial derivatives: property theorems -/
namespace Np.Props.C06
open MvPolynomial
variable {S : Type} [CommSemiring S]

/-- the rows `derivative` builds — exponent decremented on uint32 (wrapping for terms free of the variable),
coefficient multiplied by the old exponent — denote the formal partial derivative with respect to the
`j`-th indeterminate; for every number of terms, names and array elements, independent of any option -/
theorem derivative_rows_den (ns : List Name) (hn : ns.Nodup) (j : Nat) (hj : j < ns.length)
    (ts : List (Expo × S)) (hlen : ∀ t ∈ ts, t.1.length = ns.length) :
    denT ns (derivTerms j ts) = pderiv ns[j] (denT ns ts) := denT_derivTerms ns hn j hj ts hlen

/-- the rows that wrap (exponent 0 − 1 on uint32) carry the coefficient 0, which is why dropping them before the
constructor sees their unrepresentable exponent (the repair of D4) loses nothing -/
theorem wrapped_rows_are_zero (j : Nat) (t : Expo × S) (h : t.1.getD j 0 = 0) :
    ((derivTerms j [t]).map (·.2)) = [0] := by
  rw [List.getD_eq_getElem?_getD] at h
  simp [derivTerms, h]

/-- consequences through Mathlib's `pderiv` (a derivation): linearity, product rule, commuting partials -/
theorem pderiv_linear (v : Name) (p q : MvPolynomial Name S) (c : S) :
    pderiv v (p + C c * q) = pderiv v p + C c * pderiv v q := by
  simp [Derivation.leibniz]
theorem pderiv_product (v : Name) (p q : MvPolynomial Name S) :
    pderiv v (p * q) = pderiv v p * q + p * pderiv v q := pderiv_mul
theorem pderiv_commute (v w : Name) (p : MvPolynomial Name S) :
    pderiv v (pderiv w p) = pderiv w (pderiv v p) := by
  induction p using MvPolynomial.induction_on with
  | C a => simp
  | add p q hp hq => simp [hp, hq]
  | mul_X p n ih =>
    simp only [Derivation.leibniz, pderiv_X, smul_eq_mul, map_add, ih]
    by_cases h1 : v = n <;> by_cases h2 : w = n <;> simp [Pi.single_apply, h1, h2, Derivation.leibniz, pderiv_X] <;> ring

/-- non-vacuity: d/dq0 of q0²q1 + 3 has rows (1,1)↦2 and a wrapped row with coefficient 0 -/
example : derivTerms 0 [([2, 1], (1 : Int)), ([0, 0], 3)] = [([1, 1], 2), ([4294967295, 0], 0)] := by decide
end Np.Props.C06

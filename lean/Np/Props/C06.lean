import Np.Proofs.Deriv
import Np.Proofs.Expr3
import Np.Proofs.GradUnbounded
import Np.Model.Grad
import Np.Proofs.DerivFull
import Np.Proofs.GradArr
/-! C06 — derivative, gradient and Hessian are the formal partial derivatives: property theorems -/
namespace Np.Props.C06
open MvPolynomial
variable {S : Type} [CommSemiring S]

/-- the rows `derivative` builds — exponent decremented on uint32 (wrapping for terms free of the variable),
coefficient multiplied by the old exponent — denote the formal partial derivative with respect to the
`j`-th indeterminate; for every number of terms, names and array elements, independent of any option -/
theorem derivative_rows_den (ns : List Name) (hn : ns.Nodup) (j : Nat) (hj : j < ns.length)
    (ts : List (Expo × S)) (hlen : ∀ t ∈ ts, t.1.length = ns.length) :
    denT ns (derivTerms j ts) = pderiv ns[j] (denT ns ts) := denT_derivTerms ns hn j hj ts hlen

/-- the rows that wrap (exponent 0 − 1 on uint32) carry the coefficient 0, which is why dropping them before the
constructor sees their unrepresentable exponent (the repair of D4) loses nothing -/
theorem wrapped_rows_are_zero (j : Nat) (t : Expo × S) (h : t.1.getD j 0 = 0) :
    ((derivTerms j [t]).map (·.2)) = [0] := by
  rw [List.getD_eq_getElem?_getD] at h
  simp [derivTerms, h]

section full
variable [BEq S] [LawfulBEq S]

/-- `derivative(p, v)` for `v` given by position `j`: the whole pipeline — wrapped uint32 rows, the rebuild with the
vanished terms dropped (the repair of D4), the re-alignment with the input — denotes the formal partial derivative
with respect to the `j`-th name, for every value of `retain_names`; exponents below 2³² as numpy's uint32 demands -/
theorem derivative_den (rn : Bool) (j : Nat) (p : Poly S) (hw : WF p) (hb : Bdd p) (hj : j < p.names.length) :
    den (derivative rn j p) = pderiv (p.names[j]) (den p) := Np.derivative_den rn j p hw hb hj

/-- the result is again well-formed with exponents below 2³², and keeps the names (so derivatives iterate) -/
theorem derivative_wellformed (rn : Bool) (j : Nat) (p : Poly S) (hw : WF p) (hb : Bdd p) :
    WF (derivative rn j p) ∧ Bdd (derivative rn j p) := Np.derivative_WF rn j p hw hb
theorem derivative_keeps_names (rn : Bool) (j : Nat) (p : Poly S) (hs : p.names.Pairwise (· < ·)) :
    (derivative rn j p).names = p.names := Np.derivative_names rn j p hs

/-- several variables differentiate successively -/
theorem derivative_many (rn : Bool) (js : List Nat) (p : Poly S) (hw : WF p) (hb : Bdd p)
    (hs : p.names.Pairwise (· < ·)) (hj : ∀ j ∈ js, j < p.names.length) :
    den (derivativeMany rn js p) = js.foldl (fun acc j => pderiv (p.names[j]!) acc) (den p) :=
  Np.derivativeMany_den rn js p hw hb hs hj
end full

/-- consequences through Mathlib's `pderiv` (a derivation): linearity, product rule, commuting partials -/
theorem pderiv_linear (v : Name) (p q : MvPolynomial Name S) (c : S) :
    pderiv v (p + C c * q) = pderiv v p + C c * pderiv v q := by
  simp [Derivation.leibniz]
theorem pderiv_product (v : Name) (p q : MvPolynomial Name S) :
    pderiv v (p * q) = pderiv v p * q + p * pderiv v q := pderiv_mul
theorem pderiv_commute (v w : Name) (p : MvPolynomial Name S) :
    pderiv v (pderiv w p) = pderiv w (pderiv v p) := by
  induction p using MvPolynomial.induction_on with
  | C a => simp
  | add p q hp hq => simp [hp, hq]
  | mul_X p n ih =>
    simp only [Derivation.leibniz, pderiv_X, smul_eq_mul, map_add, ih]
    by_cases h1 : v = n <;> by_cases h2 : w = n <;> simp [Pi.single_apply, h1, h2, Derivation.leibniz, pderiv_X] <;> ring

/-- non-vacuity: d/dq0 of q0²q1 + 3 has rows (1,1)↦2 and a wrapped row with coefficient 0 -/
example : derivTerms 0 [([2, 1], (1 : Int)), ([0, 0], 3)] = [([1, 1], 2), ([4294967295, 0], 0)] := by decide
/-! ### gradient and Hessian of polynomial arrays, element by element (Np/Proofs/GradArr.lean) -/
section arrays
variable {R : Type} [CommSemiring R] [BEq R] [LawfulBEq R] {n : Nat}

/-- **gradient**: the result is well-formed, has one block per indeterminate (shape `(D,) + p.shape`), and flat
position `j * n + i` is `∂/∂x_j` of element `i` — every array size, number of terms, both retain flags (`Bdd`: exponents
below 2³², which the uint32 storage guarantees) -/
theorem gradient_is_partials (rc rn : Bool) (p : Poly (Vec R n)) (hw : WF p) (hb : Bdd p) :
    WF (gradient rc rn p) ∧ (partials rn p).length = p.names.length ∧
    ∀ (j : Nat) (hj : j < p.names.length) (i : Fin n) (k : Fin ((partials rn p).length * n)),
      k.val = j * n + i.val → denAt (gradient rc rn p) k = pderiv (p.names[j]) (denAt p i) :=
  ⟨WF_gradient rc rn p hw hb, partials_length rn p, fun j hj i k hk => gradient_elem rc rn p hw hb j hj i k hk⟩

/-- **Hessian**: well-formed, one row and one column per indeterminate whatever the retain flags (the repair of D24),
and entry `(a, j)` of element `i` is `∂²/∂x_a ∂x_j` with BOTH indices in the order of `p.names` — for every
well-formed `p`, also when its names are not stored in index order (rows follow `poly.names`, like the columns) -/
theorem hessian_is_second_partials (rc rn : Bool) (p : Poly (Vec R n)) (hw : WF p) (hb : Bdd p) :
    WF (hessianOf rc rn p) ∧ (hessRows rc rn p).length = p.names.length ∧
    ∀ (a : Nat) (ha : a < p.names.length) (j : Nat) (hj : j < p.names.length) (i : Fin n)
      (k' : Fin ((hessRows rc rn p).length * ((partials rn p).length * n))),
      k'.val = a * (p.names.length * n) + (j * n + i.val) →
      denAt (hessianOf rc rn p) k' = pderiv (p.names[a]) (pderiv (p.names[j]) (denAt p i)) :=
  ⟨WF_hessianOf rc rn p hw hb, hessian_rows rc rn p,
    fun a ha j hj i k' hk' => hessian_elem rc rn p hw hb a ha j hj i k' hk'⟩

/-- the Hessian is symmetric -/
theorem hessian_symmetric (rc rn : Bool) (p : Poly (Vec R n)) (hw : WF p) (hb : Bdd p)
    (a : Nat) (ha : a < p.names.length) (j : Nat) (hj : j < p.names.length)
    (i : Fin n) (k1 k2 : Fin ((hessRows rc rn p).length * ((partials rn p).length * n)))
    (h1 : k1.val = a * (p.names.length * n) + (j * n + i.val))
    (h2 : k2.val = j * (p.names.length * n) + (a * n + i.val)) :
    denAt (hessianOf rc rn p) k1 = denAt (hessianOf rc rn p) k2 :=
  hessian_symm rc rn p hw hb a ha j hj i k1 k2 h1 h2
end arrays

/-- `derivative` is the formal partial derivative for exponents of ANY size: the earlier statements carry the bound
"every exponent < 2^32" (`Bdd`), which products do not preserve; the rows whose uint32 decrement wraps are exactly the
rows the cleaning drops, so the bound is not needed -/
theorem derivative_den_unbounded {S : Type} [CommRing S] [BEq S] [LawfulBEq S] (rn : Bool) (j : Nat) (p : Poly S)
    (hw : WF p) (hj : j < p.names.length) :
    WF (derivative rn j p) ∧ den (derivative rn j p) = MvPolynomial.pderiv (p.names[j]) (den p) :=
  ⟨derivative_WF' rn j p hw hj, derivative_den' rn j p hw hj⟩

/-! ### the array-level statements without the exponent bound (`Np/Proofs/GradUnbounded.lean`): products do not
preserve "every exponent < 2^32", so these are the versions that compose with arithmetic -/
section unbounded
variable {R : Type} [CommSemiring R] [BEq R] [LawfulBEq R] {n : Nat}

theorem gradient_is_partials_unbounded (rc rn : Bool) (p : Poly (Vec R n)) (hw : WF p) :
    WF (gradient rc rn p) ∧ (partials rn p).length = p.names.length ∧
    ∀ (j : Nat) (hj : j < p.names.length) (i : Fin n) (k : Fin ((partials rn p).length * n)),
      k.val = j * n + i.val → denAt (gradient rc rn p) k = pderiv (p.names[j]) (denAt p i) :=
  gradient_is_partials' rc rn p hw

theorem hessian_is_second_partials_unbounded (rc rn : Bool) (p : Poly (Vec R n)) (hw : WF p) :
    WF (hessianOf rc rn p) ∧ (hessRows rc rn p).length = p.names.length ∧
    ∀ (a : Nat) (ha : a < p.names.length) (j : Nat) (hj : j < p.names.length) (i : Fin n)
      (k' : Fin ((hessRows rc rn p).length * ((partials rn p).length * n))),
      k'.val = a * (p.names.length * n) + (j * n + i.val) →
      denAt (hessianOf rc rn p) k' = pderiv (p.names[a]) (pderiv (p.names[j]) (denAt p i)) :=
  hessian_is_second_partials' rc rn p hw

theorem hessian_symmetric_unbounded (rc rn : Bool) (p : Poly (Vec R n)) (hw : WF p)
    (a : Nat) (ha : a < p.names.length) (j : Nat) (hj : j < p.names.length)
    (i : Fin n) (k1 k2 : Fin ((hessRows rc rn p).length * ((partials rn p).length * n)))
    (h1 : k1.val = a * (p.names.length * n) + (j * n + i.val))
    (h2 : k2.val = j * (p.names.length * n) + (a * n + i.val)) :
    denAt (hessianOf rc rn p) k1 = denAt (hessianOf rc rn p) k2 :=
  hessian_symmetric' rc rn p hw a ha j hj i k1 k2 h1 h2
end unbounded

end Np.Props.C06

import Np.Model.Store
import Np.Model.WriteSites
import Np.Generated.WriteSites
/-! C17 — operations never modify their arguments: the frame theorem of the store model and the coverage of the
write-site inventory regenerated from /repo on every run -/
namespace Np.Props.C17
open Np.Store
variable {B : Type}

theorem find_map_other (l : List (Id × B)) (t i : Id) (v : B) (h : t ≠ i) :
    ((l.map fun c => if c.1 == t then (c.1, v) else c).find? (·.1 == i)).map (·.2)
      = (l.find? (·.1 == i)).map (·.2) := by
  induction l with
  | nil => rfl
  | cons c cs ih =>
    simp only [List.map_cons, List.find?_cons]
    by_cases hci : c.1 = i
    · have hct : (c.1 == t) = false := by
        have : ¬ c.1 = t := fun e => h (e ▸ hci)
        simpa using this
      have h3 : (c.1 == i) = true := by simpa using hci
      simp only [hct, Bool.false_eq_true, if_false, h3]
    · have h1 : (c.1 == i) = false := by simpa using hci
      have h2 : ((if c.1 == t then (c.1, v) else c).1 == i) = false := by
        split <;> simpa using hci
      simp only [h1, h2]
      exact ih

theorem get_step_other (s : Store B) (st : Step B) (i : Id) (hi : i < s.next)
    (hw : ∀ t v, st = .write t v → t ≠ i) : (s.step st).get i = s.get i := by
  cases st with
  | alloc init =>
    have : (s.next == i) = false := by simpa using (Nat.ne_of_gt hi)
    simp [Store.step, Store.get, List.find?_cons, this]
  | write t v =>
    exact find_map_other s.cells t i v (hw t v rfl)

theorem next_mono (s : Store B) (st : Step B) : s.next ≤ (s.step st).next := by
  cases st <;> simp [Store.step]

/-- frame: whatever a disciplined operation does — any number of allocations and writes, in any order — every
object that existed before the call and is not an explicit output target has the same contents afterwards -/
theorem frame (entry : Id) (targets : List Id) :
    ∀ (steps : List (Step B)) (s : Store B), entry ≤ s.next → Disciplined entry targets steps →
      ∀ i, i < entry → i ∉ targets → (s.run steps).get i = s.get i
  | [], _, _, _, _, _, _ => rfl
  | st :: rest, s, hs, hd, i, hi, ht => by
    have hstep : (s.step st).get i = s.get i := by
      apply get_step_other s st i (Nat.lt_of_lt_of_le hi hs)
      intro t v hst
      subst hst
      have := hd.1
      rcases this with h | h
      · exact fun e => absurd (e ▸ h) (Nat.not_le.2 hi)
      · exact fun e => ht (e ▸ h)
    have hd' : Disciplined entry targets rest := by
      cases st with
      | alloc _ => exact hd
      | write _ _ => exact hd.2
    show ((s.step st).run rest).get i = s.get i
    rw [frame entry targets rest (s.step st) (Nat.le_trans hs (next_mono s st)) hd' i hi ht, hstep]

/-- table obligation (inventory regenerated from numpoly/**/*.py by harness/writesites.py on every run): every
in-place write the analysis cannot prove local is one of the reviewed sites -/
theorem inventory_covered :
    ∀ w ∈ Generated.writeSites, w.2.2.2.2 = "may-alias-argument" →
      (w.1, w.2.1, w.2.2.1, w.2.2.2.1) ∈ reviewedSites := by decide +kernel

/-- non-vacuity: an operation that allocates its result, fills it and also writes an explicit output target leaves
the argument object 0 untouched -/
example : (({ cells := [(0, "arg"), (1, "out")], next := 2 } : Store String).run
    [.alloc "?", .write 2 "result", .write 1 "written"]).get 0 = some "arg" := by decide
example : Generated.writeSites.length > 50 ∧ reviewedSites.length > 20 := by
  refine ⟨by decide +kernel, by decide +kernel⟩
end Np.Props.C17

import Np.Proofs.Routing
import Np.Model.RoutingTables
/-! C08 — numpy, numpoly and operator spellings agree; unsupported numpy calls raise: property theorems over the
tables regenerated from /repo on every run -/
namespace Np.Props.C08
open Np.Routing

/-- for *every* table, ufunc and method: forward to a registered implementation, or `FeatureNotSupported`; never
another error (the unguarded subscript that raised `KeyError` was D5), never a silent fall-through -/
theorem resolve_ufunc_total (T : Tables) (u : Callable) (m : String) :
    (∃ impl, arrayUfunc T u m = .forward impl ∧ ∃ f, find T.ufuncs f = some impl) ∨
      arrayUfunc T u m = .featureNotSupported := arrayUfunc_total T u m

/-- every ufunc method other than `__call__`, `reduce`, `accumulate` (`outer`, `at`, `reduceat`, …) is refused -/
theorem resolve_other_method (T : Tables) (u : Callable) (m : String)
    (h : m ≠ "reduce" ∧ m ≠ "accumulate" ∧ m ≠ "__call__") : arrayUfunc T u m = .featureNotSupported :=
  arrayUfunc_other_method T u m h

/-- `reduce`/`accumulate` of an unmapped ufunc is refused -/
theorem resolve_unmapped_reduce (T : Tables) (u : Callable) (h : find T.reduce u = none) :
    arrayUfunc T u "reduce" = .featureNotSupported := by
  simp [arrayUfunc, h]
theorem resolve_unmapped_accumulate (T : Tables) (u : Callable) (h : find T.accumulate u = none) :
    arrayUfunc T u "accumulate" = .featureNotSupported := by
  simp [arrayUfunc, h]

theorem resolve_function_total (T : Tables) (f : Callable) :
    (∃ impl, arrayFunction T f = .forward impl ∧ find T.functions f = some impl) ∨
      arrayFunction T f = .featureNotSupported := arrayFunction_total T f

/-- a registered function is forwarded to exactly its registered implementation -/
theorem resolve_registered (T : Tables) (f : Callable) (impl : Impl) (h : find T.functions f = some impl) :
    arrayFunction T f = .forward impl := spellings_agree T f impl h

/-- table obligation: on the working tree every public numpy ufunc that is not registered, with every method,
and every overridable numpy function that is not registered, resolves to `FeatureNotSupported` -/
def notOtherError : Outcome → Bool
  | .otherError _ => false
  | _ => true

theorem unregistered_ufuncs_refused :
    ∀ u ∈ Generated.numpyUfuncs, find shipped.ufuncs u = none →
      arrayUfunc shipped u "__call__" = .featureNotSupported ∧
      ∀ m ∈ ["reduce", "accumulate", "outer", "at", "reduceat"], notOtherError (arrayUfunc shipped u m) = true := by
  decide +kernel
theorem unregistered_functions_refused :
    ∀ f ∈ Generated.numpyOverridable, find shipped.functions f = none →
      arrayFunction shipped f = .featureNotSupported := by decide +kernel

/-- table obligation: `numpoly.<name>` *is* the object `numpy.<name>(poly)` is forwarded to — for every ufunc
entry, and for every function entry numpy can actually route through the array-function protocol (ufuncs never
are; the three function-registry entries keyed by the ufuncs divide/remainder/divmod are therefore inert) -/
theorem numpoly_spelling_is_registry_object :
    ∀ r ∈ Generated.spellingIdentity,
      (r.1 = "ufunc" → r.2.2.2.1 = true) ∧ (r.1 = "function" → r.2.2.2.2 = false → r.2.2.2.1 = true) := by
  decide +kernel

/-- what each operator must enter according to the property: arithmetic and comparison operators their ufunc's
implementation (a reflected comparison the mirrored one with swapped operands), `/`, `%`, `divmod` and their
reflections the polynomial division functions -/
def expectedOperator (op lk : String) : String × Bool :=
  let refl := lk != "poly"
  match op with
  | "add" => ("numpy.add", false) | "sub" => ("numpy.subtract", false) | "mul" => ("numpy.multiply", false)
  | "floordiv" => ("numpy.floor_divide", false) | "pow" => ("numpy.power", false) | "matmul" => ("numpy.matmul", false)
  | "truediv" => ("numpoly.poly_divide", false) | "mod" => ("numpoly.poly_remainder", false)
  | "divmod" => ("numpoly.poly_divmod", false)
  | "neg" => ("numpy.negative", false) | "pos" => ("numpy.positive", false) | "abs" => ("numpy.absolute", false)
  | "eq" => ("numpy.equal", refl) | "ne" => ("numpy.not_equal", refl)
  | "lt" => (if refl then "numpy.greater" else "numpy.less", refl)
  | "le" => (if refl then "numpy.greater_equal" else "numpy.less_equal", refl)
  | "gt" => (if refl then "numpy.less" else "numpy.greater", refl)
  | "ge" => (if refl then "numpy.less_equal" else "numpy.greater_equal", refl)
  | _ => ("<unknown operator>", false)

/-- table obligation (spy probe on the live classes each run): every operator, for every operand-kind pair, first
enters the implementation the property names, with the operands in the stated order, and that implementation is
registered (or is one of the three polynomial-division functions) -/
theorem operators_route_as_documented :
    ∀ r ∈ Generated.operatorRouting,
      (r.2.2.2.1, r.2.2.2.2) = expectedOperator r.1 r.2.1 ∧
        ((find shipped.ufuncs r.2.2.2.1).isSome || r.2.2.2.1.startsWith "numpoly.poly_") = true := by
  decide +kernel

/-- non-vacuity: the tables are not empty and contain the entries the statements talk about -/
example : Generated.ufuncRegistry.length > 50 ∧ Generated.operatorRouting.length > 90 ∧
    (find shipped.ufuncs "numpy.add").isSome = true ∧ find shipped.ufuncs "numpy.sin" = none ∧
    arrayUfunc shipped "numpy.subtract" "reduce" = .featureNotSupported ∧
    arrayUfunc shipped "numpy.add" "reduce" = arrayUfunc shipped "numpy.sum" "__call__" ∧
    arrayUfunc shipped "numpy.add" "reduce" ≠ .featureNotSupported := by
  refine ⟨by decide +kernel, by decide +kernel, by decide +kernel, by decide +kernel, by decide +kernel,
    by decide +kernel, by decide +kernel⟩
end Np.Props.C08

import Np.Proofs.CallArr
import Np.Proofs.Shape
import Np.Proofs.Arr
import Np.Proofs.Dims
import Np.Proofs.ConstPatterns
/-! C02, top level: `poly(*args, **kwargs)` on arrays (`callArr`): which branch is taken, the result shape,
the collapse to a plain array, and every element of the result as the `bind₁` substitution. -/
open MvPolynomial
set_option linter.unusedSectionVars false
namespace Np
open Shape

/-! ### 1. sizes -/
namespace Shape
theorem size_append (s t : List Nat) : size (s ++ t) = size s * size t := by
  induction s with
  | nil => simp
  | cons d ds ih => simp [ih, Nat.mul_assoc]

/-! ### 2. `bshapeAll`: every operand shape broadcasts to the common shape -/

/-- `t` broadcasts to `s`: not longer, and counting axes FROM THE RIGHT every dimension of `t` is the
dimension of `s` or is 1 -/
def BcastTo (t s : List Nat) : Prop :=
  t.length ≤ s.length ∧ ∀ k, k < t.length → t.reverse[k]? = s.reverse[k]? ∨ t.reverse[k]? = some 1

theorem BcastTo.refl (s : List Nat) : BcastTo s s := ⟨Nat.le_refl _, fun _ _ => .inl rfl⟩

theorem BcastTo.trans {a b c : List Nat} (h1 : BcastTo a b) (h2 : BcastTo b c) : BcastTo a c := by
  refine ⟨Nat.le_trans h1.1 h2.1, fun k hk => ?_⟩
  rcases h1.2 k hk with h | h
  · rcases h2.2 k (Nat.lt_of_lt_of_le hk h1.1) with h' | h'
    · exact .inl (h.trans h')
    · exact .inr (h.trans h')
  · exact .inr h

theorem bshape_bcastTo {s t r : List Nat} (h : bshape s t = some r) : BcastTo s r ∧ BcastTo t r := by
  obtain ⟨hl, hs, ht⟩ := bshape_spec h
  exact ⟨⟨by omega, hs⟩, ⟨by omega, ht⟩⟩

/-- **item 2**: if `bshapeAll shapes = some s` then every shape in the list broadcasts to `s` -/
theorem bshapeAll_bcastTo : ∀ {shapes : List (List Nat)} {s : List Nat}, bshapeAll shapes = some s →
    ∀ t ∈ shapes, BcastTo t s
  | [], _, _, t, ht => by simp at ht
  | u :: rest, s, h, t, ht => by
    rw [bshapeAll] at h
    cases hr : bshapeAll rest with
    | none => simp [hr] at h
    | some r =>
      simp only [hr] at h
      obtain ⟨h1, h2⟩ := bshape_bcastTo h
      rcases List.mem_cons.1 ht with rfl | ht
      · exact h1
      · exact (bshapeAll_bcastTo hr t ht).trans h2

theorem bshapeAll_pos : ∀ {shapes : List (List Nat)} {s : List Nat}, bshapeAll shapes = some s →
    (∀ t ∈ shapes, Pos t) → Pos s
  | [], s, h, _ => by
    simp only [bshapeAll, Option.some.injEq] at h
    subst h
    intro d hd
    simp at hd
  | u :: rest, s, h, hp => by
    rw [bshapeAll] at h
    cases hr : bshapeAll rest with
    | none => simp [hr] at h
    | some r =>
      simp only [hr] at h
      exact bshape_pos h (hp u (by simp)) (bshapeAll_pos hr fun t ht => hp t (by simp [ht]))

/-- the broadcast index of an operand that broadcasts to `s` stays inside the operand -/
theorem BcastTo.bindex_lt {t s : List Nat} (h : BcastTo t s) (ht : Pos t) (i : Nat) : bindex t s i < size t :=
  bindex_lt_of_length h.1 ht i

theorem BcastTo.mkIndexMap {t s : List Nat} (h : BcastTo t s) (ht : Pos t) :
    ∃ σ, mkIndexMap (size s) (size t) (bindex t s) = some σ := by
  cases hm : Shape.mkIndexMap (size s) (size t) (bindex t s) with
  | none => exact absurd hm (mkIndexMap_ne_none fun i _ => h.bindex_lt ht i)
  | some σ => exact ⟨σ, rfl⟩
end Shape

/-- generalisation of `Arr.bcast_total`: broadcasting to any shape the operand broadcasts to succeeds -/
theorem Arr.bcast_of_bcastTo {R : Type} (a : Arr R) {s : List Nat} (h : BcastTo a.shape s) (ha : Pos a.shape) :
    ∃ q, a.bcast s = some q := by
  obtain ⟨σ, hσ⟩ := h.mkIndexMap ha
  exact ⟨mapCoef (Vec.gather σ) a.poly, by simp only [Arr.bcast, hσ, Option.map_some]⟩

/-! `mapM` in `Option` -/
theorem mapM_option_iff {α β : Type} (f : α → Option β) : ∀ (l : List α) (bs : List β),
    l.mapM f = some bs ↔ List.Forall₂ (fun a b => f a = some b) l bs
  | [], bs => by
    simp only [List.mapM_nil]
    constructor
    · intro h; cases h; exact .nil
    · intro h; cases h; rfl
  | a :: l, bs => by
    rw [List.mapM_cons]
    cases hf : f a with
    | none =>
      simp only [Option.bind_eq_bind, Option.bind_none]
      constructor
      · intro h; cases h
      · intro h; cases h with | cons h1 _ => rw [hf] at h1; cases h1
    | some b =>
      simp only [Option.bind_eq_bind, Option.bind_some]
      cases hl : l.mapM f with
      | none =>
        simp only [Option.bind_none]
        constructor
        · intro h; cases h
        · intro h
          cases h with
          | cons _ h2 => rw [(mapM_option_iff f l _).2 h2] at hl; cases hl
      | some bs' =>
        simp only [Option.bind_some]
        constructor
        · intro h
          cases h
          exact .cons hf ((mapM_option_iff f l _).1 hl)
        · intro h
          cases h with
          | cons h1 h2 =>
            rw [hf] at h1; cases h1
            rw [(mapM_option_iff f l _).2 h2] at hl; cases hl
            rfl

theorem mapM_option_total {α β : Type} (f : α → Option β) : ∀ (l : List α), (∀ a ∈ l, ∃ b, f a = some b) →
    ∃ bs, l.mapM f = some bs
  | [], _ => ⟨[], rfl⟩
  | a :: l, h => by
    obtain ⟨b, hb⟩ := h a (by simp)
    obtain ⟨bs, hbs⟩ := mapM_option_total f l fun x hx => h x (by simp [hx])
    exact ⟨b :: bs, (mapM_option_iff f _ _).2 (.cons hb ((mapM_option_iff f _ _).1 hbs))⟩


/-! ### 3. the branches of `callArr` -/
section top
variable {R : Type} [CommRing R] [BEq R] [LawfulBEq R]

/-- the operand bound to an indeterminate that is kept: the indeterminate itself, as a 0-d array -/
def varArr (x : Name) : Arr R := ⟨[], { names := [x], terms := [([1], Vec.ofFn fun _ => 1)] }⟩

/-- the bound operands of `callArr`, one per indeterminate of the polynomial -/
def boundOf (ns : List Name) (params : List (Option (Arr R))) : List (Arr R) :=
  (List.range ns.length).map fun k =>
    match params.getD k none with
    | some a => a
    | none => varArr (ns.getD k 0)

/-- everything after the main loop: the size check, the collapse to a plain array, the final alignment -/
def callTail (shape : List Nat) (pn : List Name) {N : Nat} (out : Poly (Vec R N)) : CallResult R :=
  if h : N = size shape then
    let out : Poly (Vec R (size shape)) := h ▸ out
    match toNumpy out with
    | some v => .array shape v.toList
    | none => .poly ⟨shape, alignIndet (sortDedup natLt (out.names ++ pn)) out⟩
  else .error .internal

theorem callArr_eq (rc rn : Bool) (p : Arr R) (params : List (Option (Arr R))) :
    callArr rc rn p params =
      match bshapeAll ((boundOf p.poly.names params).map (·.shape)) with
      | none => .error .valueError
      | some ashape =>
        match (boundOf p.poly.names params).mapM (fun a => a.bcast ashape) with
        | none => .error .internal
        | some ps =>
          match callPoly rc rn p.poly ps with
          | none => .error .uninit
          | some out => callTail (p.shape ++ ashape) p.poly.names out := rfl

/-! the bound operands are well-formed and have no zero-length axis -/
theorem WF_varArr (x : Name) : (varArr x : Arr R).WF := by
  refine ⟨by simp [varArr], by simp [Poly.expos, varArr], ?_⟩
  intro e he
  simp only [Poly.expos, varArr, List.map_cons, List.map_nil, List.mem_singleton] at he
  simp [he, varArr]

theorem denAt_varArr (x : Name) (i : Fin (size (varArr x : Arr R).shape)) :
    denAt (varArr x : Arr R).poly i = X x := by
  simp only [denAt, den, mapCoef, varArr, denT, fsN, X, List.map_cons, List.map_nil, List.sum_cons, List.sum_nil,
    add_zero]
  congr 1
  exact Vec.get_ofFn _ i

theorem boundOf_length (ns : List Name) (params : List (Option (Arr R))) :
    (boundOf ns params).length = ns.length := by simp [boundOf]

theorem boundOf_cons (a : Name) (as : List Name) (params : List (Option (Arr R))) :
    boundOf (a :: as) params =
      (match params.headD none with | some b => b | none => varArr a) :: boundOf as params.tail := by
  cases params with
  | nil => simp [boundOf, List.range_succ_eq_map, List.map_map, Function.comp_def]
  | cons q qs => simp [boundOf, List.range_succ_eq_map, List.map_map, Function.comp_def]

theorem boundOf_mem (ns : List Name) (params : List (Option (Arr R)))
    (hw : ∀ a, some a ∈ params → a.WF) (hpos : ∀ a, some a ∈ params → Pos a.shape) :
    ∀ b ∈ boundOf ns params, b.WF ∧ Pos b.shape := by
  intro b hb
  simp only [boundOf, List.mem_map, List.mem_range] at hb
  obtain ⟨k, _, rfl⟩ := hb
  cases hk : params.getD k none with
  | none => exact ⟨WF_varArr _, fun d hd => by simp [varArr] at hd⟩
  | some a =>
    have hm : some a ∈ params := by
      rw [List.getD_eq_getElem?_getD] at hk
      cases hk' : params[k]? with
      | none => simp [hk'] at hk
      | some o =>
        simp only [hk', Option.getD_some] at hk
        subst hk
        exact List.mem_of_getElem? hk'
    exact ⟨hw a hm, hpos a hm⟩

/-! ### the tail: size check, collapse, final alignment -/

/-- a polynomial over columns is determined by its elements -/
theorem den_ext_elem {n : Nat} (f g : MvPolynomial Name (Vec R n))
    (h : ∀ i, MvPolynomial.map (Vec.evalAt i) f = MvPolynomial.map (Vec.evalAt i) g) : f = g := by
  apply MvPolynomial.ext; intro m
  apply Vec.ext'; intro i
  have := congrArg (coeff m) (h i)
  simpa [coeff_map] using this

theorem callTail_self (shape : List Nat) (pn : List Name) (out : Poly (Vec R (size shape))) :
    callTail shape pn out =
      match toNumpy out with
      | some v => .array shape v.toList
      | none => .poly ⟨shape, alignIndet (sortDedup natLt (out.names ++ pn)) out⟩ := by
  simp [callTail]

/-- the final `alignIndet` to the sorted union of names keeps well-formedness and every element -/
theorem alignFinal_spec {n : Nat} (pn : List Name) (out : Poly (Vec R n)) (hw : WF out) :
    WF (alignIndet (sortDedup natLt (out.names ++ pn)) out) ∧
    ∀ k, denAt (alignIndet (sortDedup natLt (out.names ++ pn)) out) k = denAt out k := by
  have hc : (sortDedup natLt (out.names ++ pn)).Nodup :=
    nodup_of_sortedLt natLt_strictTotal _ (sortedLt_sortDedup natLt_strictTotal _)
  have hsub : ∀ x ∈ out.names, x ∈ sortDedup natLt (out.names ++ pn) := fun x hx =>
    (mem_sortDedup natLt_strictTotal x _).2 (by simp [hx])
  refine ⟨WF_alignIndet _ out hw hc hsub, fun k => ?_⟩
  simp only [denAt, den_mapCoef]
  rw [den_alignIndet _ out hw.names_nodup hc]
  intro t _ x hx
  exact expoAt_not_mem _ _ _ fun hm => hx (hsub x hm)

/-- the dependent cast of `callArr` is harmless: for ANY `N` with `N = size shape`, the tail either collapses to a
plain array holding the constants, or returns a well-formed polynomial array with the same elements (and then
the elements are not all constants); never an error -/
theorem callTail_spec (shape : List Nat) (pn : List Name) {N : Nat} (out : Poly (Vec R N)) (h : N = size shape)
    (hw : WF out) :
    (∃ v : Vec R (size shape), callTail shape pn out = .array shape v.toList ∧
        ∀ k : Fin N, denAt out k = C (v.get (Fin.cast h k))) ∨
    (∃ q : Poly (Vec R (size shape)), callTail shape pn out = .poly ⟨shape, q⟩ ∧ WF q ∧
        (∀ k : Fin N, denAt q (Fin.cast h k) = denAt out k) ∧
        ¬ ∃ c : Fin N → R, ∀ k, denAt out k = C (c k)) := by
  subst h
  rw [callTail_self]
  cases ht : toNumpy out with
  | some v => exact .inl ⟨v, rfl, fun k => toNumpy_denAt out v hw ht k⟩
  | none =>
    obtain ⟨h1, h2⟩ := alignFinal_spec pn out hw
    refine .inr ⟨_, rfl, h1, fun k => h2 k, ?_⟩
    rintro ⟨c, hc⟩
    have : den out = C (Vec.ofFn c) := by
      apply den_ext_elem
      intro i
      have := hc i
      simp only [denAt, den_mapCoef] at this
      rw [this, map_C, Vec.evalAt_apply, Vec.get_ofFn]
    rw [(toNumpy_iff_den_C out _ hw).2 this] at ht
    cases ht

/-! ### the substitution performed by `callArr`, in terms of the ORIGINAL parameters -/

/-- element `i` of an array (zero outside the array) -/
noncomputable def elemAt (a : Arr R) (i : Nat) : MvPolynomial Name R :=
  if h : i < size a.shape then a.elem ⟨i, h⟩ else 0

/-- the substitution at position `j` of the argument shape `ashape`: name number `t` of the polynomial goes to
element `j` of parameter `t` broadcast to `ashape` (`none` or a missing parameter keeps the name); other names stay -/
noncomputable def callSubst (ashape : List Nat) (j : Nat) :
    List Name → List (Option (Arr R)) → Name → MvPolynomial Name R
  | [], _, x => X x
  | a :: as, params, x =>
    if a = x then
      (match params.headD none with
        | some b => elemAt b (bindex b.shape ashape j)
        | none => X a)
    else callSubst ashape j as params.tail x

theorem callSubst_not_mem (ashape : List Nat) (j : Nat) : ∀ (ns : List Name) (params : List (Option (Arr R)))
    (x : Name), x ∉ ns → callSubst ashape j ns params x = X x
  | [], _, _, _ => rfl
  | a :: as, params, x, h => by
    have h1 : a ≠ x := fun e => h (by simp [e])
    rw [callSubst, if_neg h1]
    exact callSubst_not_mem ashape j as _ x fun hm => h (by simp [hm])

/-- pointwise description: the `t`-th name goes to element `j` of the `t`-th parameter, broadcast -/
theorem callSubst_getElem (ashape : List Nat) (j : Nat) : ∀ (ns : List Name) (params : List (Option (Arr R)))
    (t : Nat) (ht : t < ns.length), ns.Nodup →
    callSubst ashape j ns params ns[t] =
      match params.getD t none with
      | some b => elemAt b (bindex b.shape ashape j)
      | none => X ns[t]
  | [], _, t, ht, _ => by simp at ht
  | a :: as, params, 0, _, _ => by
    rw [callSubst, List.getElem_cons_zero, if_pos rfl]
    cases params <;> rfl
  | a :: as, params, t + 1, ht, hn => by
    have hn' := List.nodup_cons.1 hn
    have h1 : a ≠ (a :: as)[t + 1] := by
      rw [List.getElem_cons_succ]
      intro e
      exact hn'.1 (e ▸ List.getElem_mem _)
    rw [callSubst, if_neg h1, List.getElem_cons_succ, callSubst_getElem ashape j as params.tail t _ hn'.2]
    cases params <;> simp

/-- element `j` of a broadcast operand is the element at the broadcast index of the operand -/
theorem denAt_bcast (b : Arr R) (ashape : List Nat) (q : Poly (Vec R (size ashape))) (h : b.bcast ashape = some q)
    (j : Fin (size ashape)) : denAt q j = elemAt b (bindex b.shape ashape j.val) := by
  obtain ⟨σ, hσ, rfl⟩ := Arr.bcast_spec _ _ _ h
  have hlt : bindex b.shape ashape j.val < size b.shape := by rw [← hσ j]; exact (σ j).isLt
  rw [gather_denAt, elemAt, dif_pos hlt]
  show denAt b.poly (σ j) = denAt b.poly _
  congr 1
  exact Fin.ext (hσ j)

/-- the substitution `substOf` over the broadcast operands IS `callSubst` over the original parameters -/
theorem substOf_eq_callSubst (ashape : List Nat) (j : Fin (size ashape)) :
    ∀ (ns : List Name) (params : List (Option (Arr R))) (ps : List (Poly (Vec R (size ashape)))),
      List.Forall₂ (fun a q => a.bcast ashape = some q) (boundOf ns params) ps →
      ∀ x, substOf j ns ps x = callSubst ashape j.val ns params x
  | [], _, ps, _, x => by
    cases ps <;> simp [substOf, callSubst]
  | a :: as, params, ps, h, x => by
    rw [boundOf_cons] at h
    cases h with
    | cons h1 h2 =>
      rename_i q qs
      rw [substOf, callSubst]
      by_cases hax : a = x
      · rw [if_pos hax, if_pos hax]
        cases hh : params.headD none with
        | none =>
          simp only [hh] at h1 ⊢
          rw [denAt_bcast _ _ _ h1 j, elemAt, dif_pos (by simp [varArr, bindex, ravel])]
          exact denAt_varArr a _
        | some b =>
          simp only [hh] at h1 ⊢
          exact denAt_bcast _ _ _ h1 j
      · rw [if_neg hax, if_neg hax]
        exact substOf_eq_callSubst ashape j as params.tail qs h2 x

/-! ### the run of `callArr` when the shapes broadcast -/

theorem forall₂_mem_right {α β : Type} {P : α → β → Prop} : ∀ {l1 : List α} {l2 : List β},
    List.Forall₂ P l1 l2 → ∀ b ∈ l2, ∃ a ∈ l1, P a b
  | _, _, .nil, b, hb => by simp at hb
  | _, _, .cons h1 h2, b, hb => by
    rcases List.mem_cons.1 hb with rfl | hb
    · exact ⟨_, by simp, h1⟩
    · obtain ⟨a, ha, hp⟩ := forall₂_mem_right h2 b hb
      exact ⟨a, by simp [ha], hp⟩

theorem flat_lt {n m i j : Nat} (hi : i < n) (hj : j < m) : i * m + j < n * m := by
  have : (i + 1) * m ≤ n * m := Nat.mul_le_mul_right _ hi
  rw [Nat.add_mul, Nat.one_mul] at this
  omega

theorem flat_split {n m k : Nat} (hk : k < n * m) : 0 < m ∧ k / m < n := by
  have hm : 0 < m := Nat.pos_of_ne_zero fun h0 => by subst h0; simp at hk
  exact ⟨hm, Nat.div_lt_of_lt_mul (by rwa [Nat.mul_comm] at hk)⟩

/-- the hypotheses of the section: a well-formed array, well-formed parameters without zero-length axes -/
structure CallOK (p : Arr R) (params : List (Option (Arr R))) : Prop where
  wf : p.WF
  pwf : ∀ a, some a ∈ params → a.WF
  ppos : ∀ a, some a ∈ params → Pos a.shape

/-- the common argument shape (`numpy.broadcast_shapes` of the bound operands) -/
def argShape (p : Arr R) (params : List (Option (Arr R))) : Option (List Nat) :=
  bshapeAll ((boundOf p.poly.names params).map (·.shape))

/-- when the shapes broadcast, every stage of `callArr` succeeds: all operands broadcast (no `.internal`), the
main loop is fully written (no `.uninit`), the size check passes, and position `(i, j)` of the loop's result is
the `bind₁` substitution -/
theorem callArr_run (rc rn : Bool) (p : Arr R) (params : List (Option (Arr R))) (ok : CallOK p params)
    {ashape : List Nat} (hs : argShape p params = some ashape) :
    ∃ out : Poly (Vec R (size p.shape * size ashape)), WF out ∧
      (∀ (i : Fin (size p.shape)) (j : Fin (size ashape)) (k : Fin (size p.shape * size ashape)),
        k.val = i.val * size ashape + j.val →
        denAt out k = bind₁ (callSubst ashape j.val p.poly.names params) (p.elem i)) ∧
      callArr rc rn p params = callTail (p.shape ++ ashape) p.poly.names out := by
  have hb := boundOf_mem p.poly.names params ok.pwf ok.ppos
  have htot : ∀ b ∈ boundOf p.poly.names params, ∃ q, b.bcast ashape = some q := fun b hbm =>
    Arr.bcast_of_bcastTo b (bshapeAll_bcastTo hs b.shape (List.mem_map_of_mem hbm)) (hb b hbm).2
  obtain ⟨ps, hps⟩ := mapM_option_total _ _ htot
  have hF := (mapM_option_iff _ _ _).1 hps
  have hwps : ∀ q ∈ ps, WF q := by
    intro q hq
    obtain ⟨b, hbm, hbq⟩ := forall₂_mem_right hF q hq
    obtain ⟨σ, _, rfl⟩ := Arr.bcast_spec _ _ _ hbq
    exact WF_mapCoef _ _ (hb b hbm).1
  have hlen : ps.length = p.poly.names.length := by
    rw [← hF.length_eq, boundOf_length]
  obtain ⟨out, hout, hwo, hd⟩ := callPoly_bind₁ rc rn p.poly ps ok.wf hwps hlen
  refine ⟨out, hwo, fun i j k hk => ?_, ?_⟩
  · have hsub : substOf j p.poly.names ps = callSubst ashape j.val p.poly.names params :=
      funext fun x => substOf_eq_callSubst ashape j _ _ _ hF x
    rw [hd i j k hk, hsub]
    rfl
  · rw [callArr_eq]
    unfold argShape at hs
    simp only [hs, hps, hout]

/-- **core**: with broadcastable shapes the result is either the plain array of the constants every substituted
element is, or a well-formed polynomial array of the substituted elements, not all of them constants -/
theorem callArr_core (rc rn : Bool) (p : Arr R) (params : List (Option (Arr R))) (ok : CallOK p params)
    {ashape : List Nat} (hs : argShape p params = some ashape) :
    (∃ v : Vec R (size (p.shape ++ ashape)),
        callArr rc rn p params = .array (p.shape ++ ashape) v.toList ∧
        ∀ (i : Fin (size p.shape)) (j : Fin (size ashape)) (k : Fin (size (p.shape ++ ashape))),
          k.val = i.val * size ashape + j.val →
          bind₁ (callSubst ashape j.val p.poly.names params) (p.elem i) = C (v.get k)) ∨
    (∃ q : Poly (Vec R (size (p.shape ++ ashape))),
        callArr rc rn p params = .poly ⟨p.shape ++ ashape, q⟩ ∧ WF q ∧
        (∀ (i : Fin (size p.shape)) (j : Fin (size ashape)) (k : Fin (size (p.shape ++ ashape))),
          k.val = i.val * size ashape + j.val →
          denAt q k = bind₁ (callSubst ashape j.val p.poly.names params) (p.elem i)) ∧
        ¬ ∀ (i : Fin (size p.shape)) (j : Fin (size ashape)),
          ∃ c, bind₁ (callSubst ashape j.val p.poly.names params) (p.elem i) = C c) := by
  obtain ⟨out, hwo, hd, hrun⟩ := callArr_run rc rn p params ok hs
  have hsz : size p.shape * size ashape = size (p.shape ++ ashape) := (size_append _ _).symm
  rcases callTail_spec (p.shape ++ ashape) p.poly.names out hsz hwo with ⟨v, hv, hc⟩ | ⟨q, hq, hwq, he, hn⟩
  · refine .inl ⟨v, hrun.trans hv, fun i j k hk => ?_⟩
    rw [← hd i j (Fin.cast hsz.symm k) hk, hc]
    rfl
  · refine .inr ⟨q, hrun.trans hq, hwq, fun i j k hk => ?_, fun hall => hn ?_⟩
    · rw [← hd i j (Fin.cast hsz.symm k) hk, ← he]
      rfl
    · have hm : ∀ k : Fin (size p.shape * size ashape), 0 < size ashape := fun k => (flat_split k.isLt).1
      have hdiv : ∀ k : Fin (size p.shape * size ashape), k.val / size ashape < size p.shape := fun k =>
        (flat_split k.isLt).2
      refine ⟨fun k => Classical.choose (hall ⟨k.val / size ashape, hdiv k⟩
        ⟨k.val % size ashape, Nat.mod_lt _ (hm k)⟩), fun k => ?_⟩
      rw [hd ⟨k.val / size ashape, hdiv k⟩ ⟨k.val % size ashape, Nat.mod_lt _ (hm k)⟩ k
        (Nat.div_add_mod' k.val (size ashape)).symm]
      exact Classical.choose_spec (hall ⟨k.val / size ashape, hdiv k⟩ ⟨k.val % size ashape, Nat.mod_lt _ (hm k)⟩)

/-! ### 3. which branch -/

theorem callArr_of_none (rc rn : Bool) (p : Arr R) (params : List (Option (Arr R)))
    (hs : argShape p params = none) : callArr rc rn p params = .error .valueError := by
  unfold argShape at hs
  rw [callArr_eq]
  simp only [hs]

/-- **C02 branches**: `.error .valueError` exactly when the bound operands' shapes do not broadcast; otherwise a
plain array or a polynomial array of shape `p.shape ++ ashape` -/
theorem callArr_cases (rc rn : Bool) (p : Arr R) (params : List (Option (Arr R))) (ok : CallOK p params) :
    (argShape p params = none ∧ callArr rc rn p params = .error .valueError) ∨
    (∃ ashape, argShape p params = some ashape ∧
      ((∃ vals, callArr rc rn p params = .array (p.shape ++ ashape) vals) ∨
       (∃ r, callArr rc rn p params = .poly r ∧ r.shape = p.shape ++ ashape))) := by
  cases hs : argShape p params with
  | none => exact .inl ⟨rfl, callArr_of_none rc rn p params hs⟩
  | some ashape =>
    refine .inr ⟨ashape, rfl, ?_⟩
    rcases callArr_core rc rn p params ok hs with ⟨v, hv, _⟩ | ⟨q, hq, _⟩
    · exact .inl ⟨_, hv⟩
    · exact .inr ⟨_, hq, rfl⟩

/-- the only error is `valueError`, and it is raised iff the shapes do not broadcast: never `.internal`
(every operand broadcasts, the size check passes), never `.uninit` (the loop writes everything) -/
theorem callArr_error_iff (rc rn : Bool) (p : Arr R) (params : List (Option (Arr R))) (ok : CallOK p params)
    (e : Err) : callArr rc rn p params = .error e ↔ e = .valueError ∧ argShape p params = none := by
  rcases callArr_cases rc rn p params ok with ⟨hn, he⟩ | ⟨ashape, hs, ⟨vals, hv⟩ | ⟨r, hr, _⟩⟩
  · rw [he]
    constructor
    · intro h; cases h; exact ⟨rfl, hn⟩
    · rintro ⟨rfl, _⟩; rfl
  · rw [hv, hs]
    constructor
    · intro h; cases h
    · rintro ⟨_, h⟩; cases h
  · rw [hr, hs]
    constructor
    · intro h; cases h
    · rintro ⟨_, h⟩; cases h

theorem callArr_valueError_iff (rc rn : Bool) (p : Arr R) (params : List (Option (Arr R))) (ok : CallOK p params) :
    callArr rc rn p params = .error .valueError ↔ argShape p params = none := by
  rw [callArr_error_iff rc rn p params ok]; simp

theorem callArr_ne_internal (rc rn : Bool) (p : Arr R) (params : List (Option (Arr R))) (ok : CallOK p params) :
    callArr rc rn p params ≠ .error .internal := fun h => by
  have := ((callArr_error_iff rc rn p params ok _).1 h).1; cases this

theorem callArr_ne_uninit (rc rn : Bool) (p : Arr R) (params : List (Option (Arr R))) (ok : CallOK p params) :
    callArr rc rn p params ≠ .error .uninit := fun h => by
  have := ((callArr_error_iff rc rn p params ok _).1 h).1; cases this

/-! ### 5. the polynomial branch -/

/-- **C02, substitution**: a `.poly r` result is well-formed, has shape `p.shape ++ ashape`, and its element at
flat index `i * size ashape + j` is `bind₁ (substitution at j) (p.elem i)` -/
theorem callArr_poly_spec (rc rn : Bool) (p : Arr R) (params : List (Option (Arr R))) (ok : CallOK p params)
    {r : Arr R} (h : callArr rc rn p params = .poly r) :
    r.WF ∧ ∃ ashape, argShape p params = some ashape ∧ r.shape = p.shape ++ ashape ∧
      ∀ (i : Fin (size p.shape)) (j : Fin (size ashape)) (k : Fin (size r.shape)),
        k.val = i.val * size ashape + j.val →
        r.elem k = bind₁ (callSubst ashape j.val p.poly.names params) (p.elem i) := by
  cases hs : argShape p params with
  | none => rw [callArr_of_none rc rn p params hs] at h; cases h
  | some ashape =>
    rcases callArr_core rc rn p params ok hs with ⟨v, hv, _⟩ | ⟨q, hq, hwq, he, _⟩
    · rw [hv] at h; cases h
    · rw [hq] at h
      cases h
      exact ⟨hwq, ashape, rfl, rfl, fun i j k hk => he i j k hk⟩

/-! ### 4. the plain-array branch -/

/-- **C02, evaluation**: an `.array shape vals` result has shape `p.shape ++ ashape`, `vals` has `size shape`
entries, and entry `i * size ashape + j` is the constant that `bind₁ (substitution at j) (p.elem i)` is -/
theorem callArr_array_spec (rc rn : Bool) (p : Arr R) (params : List (Option (Arr R))) (ok : CallOK p params)
    {shape : List Nat} {vals : List R} (h : callArr rc rn p params = .array shape vals) :
    ∃ ashape, argShape p params = some ashape ∧ shape = p.shape ++ ashape ∧ vals.length = size shape ∧
      ∀ (i : Fin (size p.shape)) (j : Fin (size ashape)) (hk : i.val * size ashape + j.val < vals.length),
        bind₁ (callSubst ashape j.val p.poly.names params) (p.elem i) = C (vals[i.val * size ashape + j.val]) := by
  cases hs : argShape p params with
  | none => rw [callArr_of_none rc rn p params hs] at h; cases h
  | some ashape =>
    rcases callArr_core rc rn p params ok hs with ⟨v, hv, hc⟩ | ⟨q, hq, _⟩
    · rw [hv] at h
      cases h
      refine ⟨ashape, rfl, rfl, by simp [Vec.toList], fun i j hk => ?_⟩
      have hk' : i.val * size ashape + j.val < size (p.shape ++ ashape) := by
        rw [size_append]; exact flat_lt i.isLt j.isLt
      rw [hc i j ⟨_, hk'⟩ rfl]
      simp [Vec.get, Vec.toList]
    · rw [hq] at h; cases h

/-- the collapse to a plain array happens exactly when every substituted element is a constant polynomial -/
theorem callArr_array_iff (rc rn : Bool) (p : Arr R) (params : List (Option (Arr R))) (ok : CallOK p params)
    {ashape : List Nat} (hs : argShape p params = some ashape) :
    (∃ shape vals, callArr rc rn p params = .array shape vals) ↔
      ∀ (i : Fin (size p.shape)) (j : Fin (size ashape)),
        ∃ c, bind₁ (callSubst ashape j.val p.poly.names params) (p.elem i) = C c := by
  rcases callArr_core rc rn p params ok hs with ⟨v, hv, hc⟩ | ⟨q, hq, _, _, hn⟩
  · refine ⟨fun _ i j => ?_, fun _ => ⟨_, _, hv⟩⟩
    have hk' : i.val * size ashape + j.val < size (p.shape ++ ashape) := by
      rw [size_append]; exact flat_lt i.isLt j.isLt
    exact ⟨_, hc i j ⟨_, hk'⟩ rfl⟩
  · refine ⟨fun ⟨_, _, h⟩ => ?_, fun h => absurd h hn⟩
    rw [hq] at h; cases h

/-- full evaluation: when every parameter is a plain numeric array (all substituted elements constant) the result
is never a polynomial — restated: a `.poly` result has some non-constant substituted element -/
theorem callArr_poly_nonconst (rc rn : Bool) (p : Arr R) (params : List (Option (Arr R))) (ok : CallOK p params)
    {ashape : List Nat} (hs : argShape p params = some ashape) {r : Arr R} (h : callArr rc rn p params = .poly r) :
    ∃ (i : Fin (size p.shape)) (j : Fin (size ashape)),
      ∀ c, bind₁ (callSubst ashape j.val p.poly.names params) (p.elem i) ≠ C c := by
  by_contra hcon
  have hall : ∀ (i : Fin (size p.shape)) (j : Fin (size ashape)),
      ∃ c, bind₁ (callSubst ashape j.val p.poly.names params) (p.elem i) = C c := by
    intro i j
    by_contra hne
    exact hcon ⟨i, j, fun c hc => hne ⟨c, hc⟩⟩
  obtain ⟨_, _, h'⟩ := (callArr_array_iff rc rn p params ok hs).2 hall
  rw [h'] at h; cases h

/-- `bindArgs` (positional + keyword arguments) hands `callArr` exactly one optional binding per indeterminate -/
theorem bindArgs_length {α : Type} (names : List Name) (args : List (Option α)) (kwargs : List (Name × α))
    (l : List (Option α)) (h : bindArgs names args kwargs = some l) : l.length = names.length := by
  unfold bindArgs at h
  split at h
  · cases h
  · split at h
    · cases h
    · injection h with h; subst h; simp
end top
end Np

import Np.Proofs.Sub
import Np.Proofs.MapCoef
/-! C01 at array level: broadcasting binary operations act element by element, for every shape -/
namespace Np
open MvPolynomial Shape
variable {R : Type}

/-- WF is about names and rows only: applying a function to the columns keeps it -/
theorem WF_mapCoef {S T : Type} [CommSemiring S] [CommSemiring T] (φ : S → T) (p : Poly S) (hw : WF p) :
    WF (mapCoef φ p) := by
  refine ⟨hw.names_nodup, ?_, ?_⟩
  · simpa [Poly.expos, mapCoef, List.map_map, Function.comp_def] using hw.expos_nodup
  · intro e he
    have : e ∈ p.expos := by simpa [Poly.expos, mapCoef, List.map_map, Function.comp_def] using he
    exact hw.row_len e this

/-- an array is well-formed when its polynomial is -/
def Arr.WF [CommSemiring R] (a : Arr R) : Prop := Np.WF a.poly

/-- the polynomial at flat position `i` -/
noncomputable def Arr.elem [CommSemiring R] (a : Arr R) (i : Fin (size a.shape)) : MvPolynomial Name R :=
  denAt a.poly i

/-- `a.bcast s` is a gather through the broadcast index map: element `i` is element `σ i` of `a` -/
theorem Arr.bcast_spec [CommSemiring R] (a : Arr R) (s : List Nat) (p : Poly (Vec R (size s)))
    (h : a.bcast s = some p) :
    ∃ σ : Fin (size s) → Fin (size a.shape),
      (∀ i, (σ i).val = bindex a.shape s i.val) ∧ p = mapCoef (Vec.gatherHom σ) a.poly := by
  unfold Arr.bcast at h
  cases hm : mkIndexMap (size s) (size a.shape) (bindex a.shape s) with
  | none => simp [hm] at h
  | some σ =>
    simp only [hm, Option.map_some, Option.some.injEq] at h
    refine ⟨σ, ?_, h.symm⟩
    intro i
    unfold mkIndexMap at hm
    split at hm
    · injection hm with hm; subst hm; rfl
    · exact absurd hm (by simp)

section ring
variable [CommRing R] [BEq R] [LawfulBEq R]

/-- the shape of a successful binary operation is numpy's broadcast shape, every element of the result is the
operation applied to the corresponding (broadcast) elements, and the result is well-formed -/
theorem Arr.binop_spec (f : (n : Nat) → Poly (Vec R n) → Poly (Vec R n) → Option (Poly (Vec R n)))
    (op : ∀ {n : Nat}, MvPolynomial Name (Vec R n) → MvPolynomial Name (Vec R n) → MvPolynomial Name (Vec R n))
    (op1 : MvPolynomial Name R → MvPolynomial Name R → MvPolynomial Name R)
    (hop : ∀ {n : Nat} (i : Fin n) (x y : MvPolynomial Name (Vec R n)),
      MvPolynomial.map (Vec.evalAt i) (op x y) = op1 (MvPolynomial.map (Vec.evalAt i) x) (MvPolynomial.map (Vec.evalAt i) y))
    (hf : ∀ n (x y : Poly (Vec R n)), Np.WF x → Np.WF y → ∃ z, f n x y = some z ∧ den z = op (den x) (den y) ∧ Np.WF z)
    (a b r : Arr R) (ha : a.WF) (hb : b.WF) (h : Arr.binop f a b = .ok r) :
    r.WF ∧ bshape a.shape b.shape = some r.shape ∧
      ∃ (σa : Fin (size r.shape) → Fin (size a.shape)) (σb : Fin (size r.shape) → Fin (size b.shape)),
        (∀ i, (σa i).val = bindex a.shape r.shape i.val) ∧ (∀ i, (σb i).val = bindex b.shape r.shape i.val) ∧
        ∀ i, r.elem i = op1 (a.elem (σa i)) (b.elem (σb i)) := by
  unfold Arr.binop at h
  cases hs : bshape a.shape b.shape with
  | none => simp [hs] at h
  | some s =>
    simp only [hs] at h
    cases hpa : a.bcast s with
    | none => simp [hpa] at h
    | some pa =>
      cases hpb : b.bcast s with
      | none => simp [hpa, hpb] at h
      | some pb =>
        simp only [hpa, hpb] at h
        obtain ⟨σa, hσa, rfl⟩ := Arr.bcast_spec a s pa hpa
        obtain ⟨σb, hσb, rfl⟩ := Arr.bcast_spec b s pb hpb
        have wa : Np.WF (mapCoef (Vec.gatherHom σa) a.poly) := WF_mapCoef _ _ ha
        have wb : Np.WF (mapCoef (Vec.gatherHom σb) b.poly) := WF_mapCoef _ _ hb
        obtain ⟨z, hz, hd, hwz⟩ := hf _ _ _ wa wb
        simp only [hz] at h
        injection h with h
        subst h
        refine ⟨hwz, rfl, σa, σb, hσa, hσb, ?_⟩
        intro i
        show denAt z i = op1 (denAt a.poly (σa i)) (denAt b.poly (σb i))
        rw [← gather_denAt σa a.poly i, ← gather_denAt σb b.poly i]
        simp only [denAt, den_mapCoef] at *
        rw [hd, hop]

/-- C01 for `+` on arrays -/
theorem Arr.add_spec (rc rn : Bool) (a b r : Arr R) (ha : a.WF) (hb : b.WF) (h : Arr.add rc rn a b = .ok r) :
    r.WF ∧ bshape a.shape b.shape = some r.shape ∧
      ∃ (σa : Fin (size r.shape) → Fin (size a.shape)) (σb : Fin (size r.shape) → Fin (size b.shape)),
        (∀ i, (σa i).val = bindex a.shape r.shape i.val) ∧ (∀ i, (σb i).val = bindex b.shape r.shape i.val) ∧
        ∀ i, r.elem i = a.elem (σa i) + b.elem (σb i) :=
  Arr.binop_spec _ (fun x y => x + y) (fun x y => x + y) (fun _ _ _ => by simp)
    (fun n x y hx hy => ⟨_, rfl, (add_den rc rn x y hx hy).1, WF_add rc rn x y hx hy⟩) a b r ha hb h

/-- C01 for `-` on arrays -/
theorem Arr.sub_spec (rc rn : Bool) (a b r : Arr R) (ha : a.WF) (hb : b.WF) (h : Arr.sub rc rn a b = .ok r) :
    r.WF ∧ bshape a.shape b.shape = some r.shape ∧
      ∃ (σa : Fin (size r.shape) → Fin (size a.shape)) (σb : Fin (size r.shape) → Fin (size b.shape)),
        (∀ i, (σa i).val = bindex a.shape r.shape i.val) ∧ (∀ i, (σb i).val = bindex b.shape r.shape i.val) ∧
        ∀ i, r.elem i = a.elem (σa i) - b.elem (σb i) :=
  Arr.binop_spec _ (fun {n} (x y : MvPolynomial Name (Vec R n)) => x - y) (fun x y => x - y) (fun _ _ _ => by simp)
    (fun n x y hx hy => ⟨_, rfl, (sub_den_WF rc rn x y hx hy).1, (sub_den_WF rc rn x y hx hy).2⟩) a b r ha hb h

/-- C01 for `*` on arrays (and: the product never hands back unwritten memory) -/
theorem Arr.mul_spec (rc rn : Bool) (a b r : Arr R) (ha : a.WF) (hb : b.WF) (h : Arr.mul rc rn a b = .ok r) :
    r.WF ∧ bshape a.shape b.shape = some r.shape ∧
      ∃ (σa : Fin (size r.shape) → Fin (size a.shape)) (σb : Fin (size r.shape) → Fin (size b.shape)),
        (∀ i, (σa i).val = bindex a.shape r.shape i.val) ∧ (∀ i, (σb i).val = bindex b.shape r.shape i.val) ∧
        ∀ i, r.elem i = a.elem (σa i) * b.elem (σb i) :=
  Arr.binop_spec _ (fun x y => x * y) (fun x y => x * y) (fun _ _ _ => by simp)
    (fun n x y hx hy => mul_den_WF rc rn x y hx hy) a b r ha hb h

/-- C01 for unary `-`, `+` and `**k` on arrays: element by element, same shape -/
theorem Arr.neg_spec (rc rn : Bool) (a : Arr R) (ha : a.WF) :
    (Arr.neg rc rn a).WF ∧ ∀ i, (Arr.neg rc rn a).elem i = - a.elem i := by
  refine ⟨(neg_den_WF rc rn a.poly ha).2, fun i => ?_⟩
  show denAt (Np.neg rc rn a.poly) i = - denAt a.poly i
  simp only [denAt, den_mapCoef, (neg_den_WF rc rn a.poly ha).1, map_neg]

theorem Arr.pos_spec (rc rn : Bool) (a : Arr R) (ha : a.WF) :
    (Arr.pos rc rn a).WF ∧ ∀ i, (Arr.pos rc rn a).elem i = a.elem i := by
  refine ⟨WF_clean rc rn a.poly ha, fun i => ?_⟩
  show denAt (clean rc rn a.poly) i = denAt a.poly i
  simp only [denAt, den_mapCoef, den_clean rc rn a.poly ha (WF_dropZeroCols _ ha)]

theorem Arr.pow_spec (rc rn : Bool) (a : Arr R) (k : Nat) (ha : a.WF) :
    ∃ r, Arr.pow rc rn a k = .ok r ∧ r.WF ∧ ∃ h : r.shape = a.shape, ∀ i, r.elem i = a.elem (h ▸ i) ^ k := by
  obtain ⟨p, hp, hd, hw⟩ := pow_den_WF rc rn a.poly ha k
  refine ⟨⟨a.shape, p⟩, by simp [Arr.pow, hp], hw, rfl, fun i => ?_⟩
  show denAt p i = denAt a.poly i ^ k
  simp only [denAt, den_mapCoef, hd, map_pow]
end ring
end Np

import Np.Model.Shape
import Np.Model.Arr
import Batteries.Data.List.Basic
/-! broadcasting never goes out of range: row-major `ravel`/`unravel` round trip, `bshape` is
`numpy.broadcast_shapes`, `bindex` stays inside the operand, hence `Arr.bcast` is total on broadcastable
shapes and `Arr.binop` never reports `.internal`.  All dimensions are assumed positive (no empty arrays). -/
namespace Np.Shape

/-- all dimensions positive (no empty array) -/
abbrev Pos (s : List Nat) : Prop := ∀ d ∈ s, 0 < d

@[simp] theorem size_nil : size [] = 1 := rfl
@[simp] theorem size_cons (d : Nat) (ds : List Nat) : size (d :: ds) = d * size ds := rfl

/-! ### 1. sizes and `unravel` -/

theorem size_pos : ∀ {s : List Nat}, (∀ d ∈ s, 0 < d) → 0 < size s
  | [], _ => by simp
  | d :: ds, h => by
    rw [size_cons]
    exact Nat.mul_pos (h d (by simp)) (size_pos fun x hx => h x (by simp [hx]))

theorem unravel_length : ∀ (s : List Nat) (i : Nat), (unravel s i).length = s.length
  | [], _ => rfl
  | d :: ds, i => by simp [unravel, unravel_length ds]

theorem unravel_lt : ∀ {s : List Nat}, (∀ d ∈ s, 0 < d) → ∀ i, List.Forall₂ (· < ·) (unravel s i) s
  | [], _, _ => .nil
  | d :: ds, h, i => by
    rw [unravel]
    exact .cons (Nat.mod_lt _ (h d (by simp))) (unravel_lt (fun x hx => h x (by simp [hx])) _)

/-! ### 2. `ravel` stays in range -/

theorem ravel_lt : ∀ {s idx : List Nat}, idx.length = s.length → (∀ d ∈ s, 0 < d) → ravel s idx < size s
  | [], [], _, _ => by simp [ravel]
  | [], _ :: _, hl, _ => by simp at hl
  | _ :: _, [], hl, _ => by simp at hl
  | d :: ds, x :: xs, hl, h => by
    have hd : 0 < d := h d (by simp)
    have ih : ravel ds xs < size ds := ravel_lt (by simpa using hl) fun y hy => h y (by simp [hy])
    have hx : x % d + 1 ≤ d := Nat.mod_lt _ hd
    have hm : (x % d + 1) * size ds ≤ d * size ds := Nat.mul_le_mul_right _ hx
    rw [Nat.add_mul, Nat.one_mul] at hm
    rw [ravel, size_cons]
    omega

/-! ### 3. row-major round trip -/

theorem ravel_unravel : ∀ {s : List Nat}, (∀ d ∈ s, 0 < d) → ∀ {i}, i < size s → ravel s (unravel s i) = i
  | [], _, i, hi => by
    simp at hi
    simp [ravel, hi]
  | d :: ds, h, i, hi => by
    have hp : 0 < size ds := size_pos fun x hx => h x (by simp [hx])
    have ih : ravel ds (unravel ds (i % size ds)) = i % size ds :=
      ravel_unravel (fun x hx => h x (by simp [hx])) (Nat.mod_lt _ hp)
    have hq : i / size ds < d := by
      rw [Nat.div_lt_iff_lt_mul hp]
      simpa using hi
    rw [unravel, ravel, ih, Nat.mod_mod, Nat.mod_eq_of_lt hq]
    exact Nat.div_add_mod' i (size ds)

/-! ### 4. `bshape` is `numpy.broadcast_shapes` -/

theorem bshapeRev_nil_right (a : List Nat) : bshapeRev a [] = some a := by
  cases a <;> rfl

/-- length of the broadcast shape, and every dimension of either operand equals the result's or is 1
(lists with the LAST axis first, so positions are aligned from the right) -/
theorem bshapeRev_spec : ∀ {a b c : List Nat}, bshapeRev a b = some c →
    c.length = max a.length b.length ∧
    (∀ k, k < a.length → a[k]? = c[k]? ∨ a[k]? = some 1) ∧
    (∀ k, k < b.length → b[k]? = c[k]? ∨ b[k]? = some 1)
  | [], b, c, h => by
    simp only [bshapeRev, Option.some.injEq] at h
    subst h
    simp
  | x :: a, [], c, h => by
    simp only [bshapeRev, Option.some.injEq] at h
    subst h
    simp
  | x :: a, y :: b, c, h => by
    rw [bshapeRev] at h
    cases hr : bshapeRev a b with
    | none => simp [hr] at h
    | some r =>
      obtain ⟨hl, ha, hb⟩ := bshapeRev_spec hr
      simp only [hr] at h
      have key : ∀ z, (x = z ∨ x = 1) → (y = z ∨ y = 1) → c = z :: r →
          c.length = max (x :: a).length (y :: b).length ∧
          (∀ k, k < (x :: a).length → (x :: a)[k]? = c[k]? ∨ (x :: a)[k]? = some 1) ∧
          (∀ k, k < (y :: b).length → (y :: b)[k]? = c[k]? ∨ (y :: b)[k]? = some 1) := by
        intro z hx hy hc
        subst hc
        refine ⟨by simp only [List.length_cons, hl]; omega, ?_, ?_⟩
        · intro k hk
          cases k with
          | zero => simpa using hx
          | succ k => simpa using ha k (by simpa using hk)
        · intro k hk
          cases k with
          | zero => simpa using hy
          | succ k => simpa using hb k (by simpa using hk)
      by_cases h1 : x = y
      · subst h1
        simp only [beq_self_eq_true, if_true, Option.some.injEq] at h
        exact key x (.inl rfl) (.inl rfl) h.symm
      · by_cases h2 : x = 1
        · subst h2
          simp only [beq_iff_eq, h1, if_false, if_true, Option.some.injEq] at h
          exact key y (.inr rfl) (.inl rfl) h.symm
        · by_cases h3 : y = 1
          · subst h3
            simp only [beq_iff_eq, h1, if_false, if_true, Option.some.injEq] at h
            exact key x (.inl rfl) (.inr rfl) h.symm
          · simp [h1, h2, h3] at h

/-- the `getElem` form of `bshapeRev_spec` -/
theorem bshapeRev_spec_left {a b c : List Nat} (h : bshapeRev a b = some c) :
    c.length = max a.length b.length ∧
    ∀ k (hk : k < a.length), a[k] = c[k]'(by have := (bshapeRev_spec h).1; omega) ∨ a[k] = 1 := by
  obtain ⟨hl, ha, _⟩ := bshapeRev_spec h
  refine ⟨hl, fun k hk => ?_⟩
  have hc : k < c.length := by omega
  have := ha k hk
  simpa [List.getElem?_eq_getElem hk, List.getElem?_eq_getElem hc] using this

theorem bshapeRev_spec_right {a b c : List Nat} (h : bshapeRev a b = some c) :
    c.length = max a.length b.length ∧
    ∀ k (hk : k < b.length), b[k] = c[k]'(by have := (bshapeRev_spec h).1; omega) ∨ b[k] = 1 := by
  obtain ⟨hl, _, hb⟩ := bshapeRev_spec h
  refine ⟨hl, fun k hk => ?_⟩
  have hc : k < c.length := by omega
  have := hb k hk
  simpa [List.getElem?_eq_getElem hk, List.getElem?_eq_getElem hc] using this

theorem bshape_eq {s t r : List Nat} (h : bshape s t = some r) :
    ∃ c, bshapeRev s.reverse t.reverse = some c ∧ r = c.reverse := by
  unfold bshape at h
  cases hc : bshapeRev s.reverse t.reverse with
  | none => simp [hc] at h
  | some c => exact ⟨c, rfl, by simpa [hc] using h.symm⟩

/-- `bshape` (first axis first): length is the maximum, and counting positions FROM THE RIGHT every
dimension of `s` and of `t` equals the result's or is 1 -/
theorem bshape_spec {s t r : List Nat} (h : bshape s t = some r) :
    r.length = max s.length t.length ∧
    (∀ k, k < s.length → s.reverse[k]? = r.reverse[k]? ∨ s.reverse[k]? = some 1) ∧
    (∀ k, k < t.length → t.reverse[k]? = r.reverse[k]? ∨ t.reverse[k]? = some 1) := by
  obtain ⟨c, hc, rfl⟩ := bshape_eq h
  obtain ⟨hl, ha, hb⟩ := bshapeRev_spec hc
  simp only [List.length_reverse] at hl ha hb
  simp only [List.length_reverse, List.reverse_reverse]
  exact ⟨hl, ha, hb⟩

theorem bshape_length {s t r : List Nat} (h : bshape s t = some r) : r.length = max s.length t.length :=
  (bshape_spec h).1

/-- every dimension of the broadcast shape is a dimension of one of the operands -/
theorem bshapeRev_mem : ∀ {a b c : List Nat}, bshapeRev a b = some c → ∀ d ∈ c, d ∈ a ∨ d ∈ b
  | [], b, c, h => by
    simp only [bshapeRev, Option.some.injEq] at h
    subst h
    exact fun d hd => .inr hd
  | x :: a, [], c, h => by
    simp only [bshapeRev, Option.some.injEq] at h
    subst h
    exact fun d hd => .inl hd
  | x :: a, y :: b, c, h => by
    rw [bshapeRev] at h
    cases hr : bshapeRev a b with
    | none => simp [hr] at h
    | some r =>
      have ih := bshapeRev_mem hr
      simp only [hr] at h
      have key : ∀ z, (z = x ∨ z = y) → c = z :: r → ∀ d ∈ c, d ∈ x :: a ∨ d ∈ y :: b := by
        intro z hz hc d hd
        subst hc
        rcases List.mem_cons.1 hd with rfl | hd
        · rcases hz with rfl | rfl <;> simp
        · rcases ih d hd with h' | h' <;> simp [h']
      split at h
      · exact key x (.inl rfl) (by simpa using h.symm)
      · split at h
        · exact key y (.inr rfl) (by simpa using h.symm)
        · split at h
          · exact key x (.inl rfl) (by simpa using h.symm)
          · simp at h

theorem bshape_pos {s t r : List Nat} (h : bshape s t = some r)
    (hs : ∀ d ∈ s, 0 < d) (ht : ∀ d ∈ t, 0 < d) : ∀ d ∈ r, 0 < d := by
  obtain ⟨c, hc, rfl⟩ := bshape_eq h
  intro d hd
  rcases bshapeRev_mem hc d (by simpa using hd) with h' | h'
  · exact hs d (by simpa using h')
  · exact ht d (by simpa using h')

/-! ### 5. `bindex` stays in range -/

theorem bmulti_length {s idx : List Nat} (h : s.length ≤ idx.length) : (bmulti s idx).length = s.length := by
  simp only [bmulti, List.length_zipWith, List.length_drop]
  omega

/-- the general form: only the lengths matter -/
theorem bindex_lt_of_length {s r : List Nat} (hl : s.length ≤ r.length) (hs : ∀ d ∈ s, 0 < d) (i : Nat) :
    bindex s r i < size s :=
  ravel_lt (bmulti_length (by rw [unravel_length]; exact hl)) hs

theorem bindex_lt {s t r : List Nat} (h : bshape s t = some r)
    (hs : ∀ d ∈ s, 0 < d) (_ht : ∀ d ∈ t, 0 < d) {i : Nat} (_hi : i < size r) :
    bindex s r i < size s :=
  bindex_lt_of_length (by have := bshape_length h; omega) hs i

theorem bindex_lt_right {s t r : List Nat} (h : bshape s t = some r)
    (_hs : ∀ d ∈ s, 0 < d) (ht : ∀ d ∈ t, 0 < d) {i : Nat} (_hi : i < size r) :
    bindex t r i < size t :=
  bindex_lt_of_length (by have := bshape_length h; omega) ht i

theorem mkIndexMap_ne_none {n m : Nat} {f : Nat → Nat} (h : ∀ i, i < n → f i < m) :
    mkIndexMap n m f ≠ none := by
  unfold mkIndexMap
  rw [dif_pos fun i : Fin n => h i.val i.isLt]
  simp

theorem mkIndexMap_bindex {s t r : List Nat} (h : bshape s t = some r)
    (hs : ∀ d ∈ s, 0 < d) (ht : ∀ d ∈ t, 0 < d) :
    mkIndexMap (size r) (size s) (bindex s r) ≠ none ∧ mkIndexMap (size r) (size t) (bindex t r) ≠ none :=
  ⟨mkIndexMap_ne_none fun _ hi => bindex_lt h hs ht hi,
   mkIndexMap_ne_none fun _ hi => bindex_lt_right h hs ht hi⟩

/-! ### 6. an operand that already has the broadcast shape is not rearranged -/

theorem zipWith_one_of_lt : ∀ {idx s : List Nat}, List.Forall₂ (· < ·) idx s →
    List.zipWith (fun d x => if d == 1 then 0 else x) s idx = idx
  | _, _, .nil => rfl
  | _, _, .cons (a := x) (b := d) hx hr => by
    rw [List.zipWith_cons_cons, zipWith_one_of_lt hr]
    by_cases hd : d = 1
    · subst hd
      have : x = 0 := by omega
      simp [this]
    · simp [hd]

theorem bmulti_unravel {s : List Nat} (hs : ∀ d ∈ s, 0 < d) (i : Nat) :
    bmulti s (unravel s i) = unravel s i := by
  simp only [bmulti, unravel_length, Nat.sub_self, List.drop_zero]
  exact zipWith_one_of_lt (unravel_lt hs i)

theorem bindex_same {s : List Nat} (hs : ∀ d ∈ s, 0 < d) {i : Nat} (hi : i < size s) : bindex s s i = i := by
  rw [bindex, bmulti_unravel hs, ravel_unravel hs hi]

end Np.Shape

namespace Np
open Shape
variable {R : Type}

/-- broadcasting an operand to the common shape always succeeds -/
theorem Arr.bcast_total (a b : Arr R) {r : List Nat} (h : bshape a.shape b.shape = some r)
    (ha : ∀ d ∈ a.shape, 0 < d) (hb : ∀ d ∈ b.shape, 0 < d) :
    a.bcast r ≠ none ∧ b.bcast r ≠ none := by
  obtain ⟨h1, h2⟩ := mkIndexMap_bindex h ha hb
  unfold Arr.bcast
  constructor
  · cases hm : mkIndexMap (size r) (size a.shape) (bindex a.shape r) with
    | none => exact absurd hm h1
    | some σ => simp
  · cases hm : mkIndexMap (size r) (size b.shape) (bindex b.shape r) with
    | none => exact absurd hm h2
    | some σ => simp

/-- the model's "used outside its domain" error is unreachable for non-empty operands -/
theorem Arr.binop_never_internal
    (f : (n : Nat) → Poly (Vec R n) → Poly (Vec R n) → Option (Poly (Vec R n))) (a b : Arr R)
    (ha : ∀ d ∈ a.shape, 0 < d) (hb : ∀ d ∈ b.shape, 0 < d) :
    Arr.binop f a b ≠ .error .internal := by
  unfold Arr.binop
  cases hs : bshape a.shape b.shape with
  | none => simp
  | some s =>
    obtain ⟨h1, h2⟩ := Arr.bcast_total a b hs ha hb
    cases hpa : a.bcast s with
    | none => exact absurd hpa h1
    | some pa =>
      cases hpb : b.bcast s with
      | none => exact absurd hpb h2
      | some pb =>
        cases hf : f _ pa pb <;> simp [hpa, hpb, hf]

/-- an empty-free broadcast either fails with `valueError` (shapes not broadcastable), `uninit`
(only from `f`), or succeeds with the broadcast shape -/
theorem Arr.binop_cases
    (f : (n : Nat) → Poly (Vec R n) → Poly (Vec R n) → Option (Poly (Vec R n))) (a b : Arr R)
    (ha : ∀ d ∈ a.shape, 0 < d) (hb : ∀ d ∈ b.shape, 0 < d) :
    (bshape a.shape b.shape = none ∧ Arr.binop f a b = .error .valueError) ∨
    (∃ s, bshape a.shape b.shape = some s ∧
      (Arr.binop f a b = .error .uninit ∨ ∃ p, Arr.binop f a b = .ok ⟨s, p⟩)) := by
  unfold Arr.binop
  cases hs : bshape a.shape b.shape with
  | none => exact .inl ⟨rfl, rfl⟩
  | some s =>
    obtain ⟨h1, h2⟩ := Arr.bcast_total a b hs ha hb
    refine .inr ⟨s, rfl, ?_⟩
    cases hpa : a.bcast s with
    | none => exact absurd hpa h1
    | some pa =>
      cases hpb : b.bcast s with
      | none => exact absurd hpb h2
      | some pb =>
        cases hf : f _ pa pb with
        | none => exact .inl (by simp only [hpa, hpb, hf])
        | some p => exact .inr ⟨p, by simp only [hpa, hpb, hf]⟩

end Np

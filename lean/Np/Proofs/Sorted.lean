import Np.Model.Basic
/-! lemmas on insertSorted / sortDedup (Mathlib-free) -/
namespace Np

/-- what we need of a comparison: irreflexive, and trichotomous up to equality -/
structure StrictTotal (lt : α → α → Bool) : Prop where
  irrefl : ∀ a, lt a a = false
  tri : ∀ a b, lt a b = false → lt b a = false → a = b
  trans : ∀ a b c, lt a b = true → lt b c = true → lt a c = true

theorem mem_insertSorted {lt : α → α → Bool} (h : StrictTotal lt) (x y : α) (l : List α) :
    y ∈ insertSorted lt x l ↔ y = x ∨ y ∈ l := by
  induction l with
  | nil => simp [insertSorted]
  | cons z zs ih =>
    simp only [insertSorted]
    split
    · simp
    · split
      · simp only [List.mem_cons, ih]; constructor
        · rintro (h1 | h1 | h1) <;> simp [h1]
        · rintro (h1 | h1 | h1) <;> simp [h1]
      · rename_i h1 h2
        have : x = z := h.tri x z (by simpa using h1) (by simpa using h2)
        subst this; simp

theorem mem_sortDedup {lt : α → α → Bool} (h : StrictTotal lt) (y : α) (l : List α) :
    y ∈ sortDedup lt l ↔ y ∈ l := by
  induction l with
  | nil => simp [sortDedup]
  | cons z zs ih =>
    simp only [sortDedup, List.foldr_cons] at ih ⊢
    rw [mem_insertSorted h, ih]; simp

/-- sorted strictly ascending -/
def SortedLt (lt : α → α → Bool) (l : List α) : Prop := l.Pairwise (fun a b => lt a b = true)

theorem sortedLt_insertSorted {lt : α → α → Bool} (h : StrictTotal lt) (x : α) (l : List α)
    (hl : SortedLt lt l) : SortedLt lt (insertSorted lt x l) := by
  induction l with
  | nil => simp [insertSorted, SortedLt]
  | cons z zs ih =>
    simp only [SortedLt, List.pairwise_cons] at hl
    simp only [insertSorted]
    split
    · rename_i h1
      simp only [SortedLt, List.pairwise_cons, List.mem_cons]
      refine ⟨?_, hl⟩
      rintro a (rfl | ha)
      · exact h1
      · exact h.trans _ _ _ h1 (hl.1 a ha)
    · split
      · rename_i h1 h2
        simp only [SortedLt, List.pairwise_cons]
        refine ⟨?_, ih hl.2⟩
        intro a ha
        rw [mem_insertSorted h] at ha
        rcases ha with rfl | ha
        · exact h2
        · exact hl.1 a ha
      · simp only [SortedLt, List.pairwise_cons]; exact hl

theorem sortedLt_sortDedup {lt : α → α → Bool} (h : StrictTotal lt) (l : List α) :
    SortedLt lt (sortDedup lt l) := by
  induction l with
  | nil => simp [sortDedup, SortedLt]
  | cons z zs ih =>
    simp only [sortDedup, List.foldr_cons] at ih ⊢
    exact sortedLt_insertSorted h z _ ih

theorem nodup_of_sortedLt {lt : α → α → Bool} (h : StrictTotal lt) (l : List α)
    (hl : SortedLt lt l) : l.Nodup := by
  unfold SortedLt at hl
  exact hl.imp (fun {a b} hab heq => by subst heq; simp [h.irrefl] at hab)

theorem natLt_strictTotal : StrictTotal natLt := by
  constructor
  · intro a; simp [natLt]
  · intro a b h1 h2; simp [natLt] at h1 h2; omega
  · intro a b c h1 h2; simp [natLt] at *; omega

theorem expoLt_strictTotal : StrictTotal expoLt := by
  constructor
  · intro a; induction a with
    | nil => rfl
    | cons x xs ih => simp [expoLt, ih]
  · intro a; induction a with
    | nil => intro b; cases b <;> simp [expoLt]
    | cons x xs ih =>
      intro b; cases b with
      | nil => simp [expoLt]
      | cons y ys =>
        simp only [expoLt]
        intro h1 h2
        by_cases hxy : x < y
        · simp [hxy] at h1
        · by_cases hyx : y < x
          · simp [hyx] at h2
          · have : x = y := by omega
            subst this
            simp at h1 h2
            rw [ih ys h1 h2]
  · intro a; induction a with
    | nil => intro b c; cases b <;> cases c <;> simp [expoLt]
    | cons x xs ih =>
      intro b c; cases b with
      | nil => simp [expoLt]
      | cons y ys =>
        cases c with
        | nil => simp [expoLt]
        | cons z zs =>
          simp only [expoLt]
          intro h1 h2
          by_cases hxy : x < y
          · by_cases hyz : y < z
            · have : x < z := by omega
              simp [this]
            · by_cases hzy : z < y
              · simp [hyz, hzy] at h2
              · have : y = z := by omega
                subst this; simp [hxy]
          · by_cases hyx : y < x
            · simp [hxy, hyx] at h1
            · have : x = y := by omega
              subst this
              simp at h1
              by_cases hyz : x < z
              · simp [hyz]
              · by_cases hzy : z < x
                · simp [hyz, hzy] at h2
                · simp [hyz, hzy] at h2 ⊢
                  exact ih ys zs h1 h2
end Np

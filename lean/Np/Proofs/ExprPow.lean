import Np.Model.ExprPow
import Np.Proofs.Expr
import Np.Proofs.PowArr
/-! C01, the "programs" quantifier with `**` by an ARRAY of exponents: every expression tree over
+ - * neg pos **k **array evaluates, in the model, to the array whose elements are the ring expression of the
(broadcast) elements of the leaves. `Expr2`/`evalModel2` (Np/Model/ExprPow.lean) extend `Expr`/`evalModel` by the node
`powArr x kshape ks`; `Expr.embed` embeds the old programs, on which the two evaluators and the two specifications
coincide, so `expr_den` is the restriction of `expr2_den` to embedded programs. -/
set_option linter.unusedSectionVars false
namespace Np
open MvPolynomial Shape
variable {R : Type} [CommRing R] [BEq R] [LawfulBEq R]

/-! ### 1. the specification side -/

/-- the specification: shapes by numpy broadcasting, elements by ring arithmetic in `MvPolynomial Name R`; for
`powArr` element `i` of the broadcast shape `s` is `base[bindex base.shape s i] ^ ks[bindex kshape s i]` -/
noncomputable def specEval2 (env : List (Arr R)) : Expr2 → Option (List Nat × (Nat → MvPolynomial Name R))
  | .leaf i => (env[i]?).map fun a => (a.shape, a.elemN)
  | .add x y =>
    match specEval2 env x, specEval2 env y with
    | some (s1, f1), some (s2, f2) =>
      (bshape s1 s2).map fun s => (s, fun i => f1 (bindex s1 s i) + f2 (bindex s2 s i))
    | _, _ => none
  | .sub x y =>
    match specEval2 env x, specEval2 env y with
    | some (s1, f1), some (s2, f2) =>
      (bshape s1 s2).map fun s => (s, fun i => f1 (bindex s1 s i) - f2 (bindex s2 s i))
    | _, _ => none
  | .mul x y =>
    match specEval2 env x, specEval2 env y with
    | some (s1, f1), some (s2, f2) =>
      (bshape s1 s2).map fun s => (s, fun i => f1 (bindex s1 s i) * f2 (bindex s2 s i))
    | _, _ => none
  | .neg x => (specEval2 env x).map fun sf => (sf.1, fun i => - sf.2 i)
  | .pos x => specEval2 env x
  | .pow x k => (specEval2 env x).map fun sf => (sf.1, fun i => sf.2 i ^ k)
  | .powArr x kshape ks =>
    match specEval2 env x with
    | some (s1, f1) =>
      (bshape s1 kshape).map fun s => (s, fun i => f1 (bindex s1 s i) ^ ks.getD (bindex kshape s i) 0)
    | none => none

/-! ### 2. the embedding of the old programs -/

/-- the two evaluators agree on embedded programs -/
theorem evalModel2_embed (rc rn : Bool) (env : List (Arr R)) :
    ∀ t : Expr, evalModel2 rc rn env t.embed = evalModel rc rn env t
  | .leaf i => by
    simp only [Expr.embed, evalModel2, evalModel]
    cases env[i]? <;> rfl
  | .add x y => by
    simp only [Expr.embed, evalModel2, evalModel, evalModel2_embed rc rn env x, evalModel2_embed rc rn env y]
  | .sub x y => by
    simp only [Expr.embed, evalModel2, evalModel, evalModel2_embed rc rn env x, evalModel2_embed rc rn env y]
  | .mul x y => by
    simp only [Expr.embed, evalModel2, evalModel, evalModel2_embed rc rn env x, evalModel2_embed rc rn env y]
  | .neg x => by simp only [Expr.embed, evalModel2, evalModel, evalModel2_embed rc rn env x]
  | .pos x => by simp only [Expr.embed, evalModel2, evalModel, evalModel2_embed rc rn env x]
  | .pow x k => by simp only [Expr.embed, evalModel2, evalModel, evalModel2_embed rc rn env x]

/-- the two specifications agree on embedded programs -/
theorem specEval2_embed (env : List (Arr R)) :
    ∀ t : Expr, specEval2 env t.embed = specEval env t
  | .leaf i => by simp only [Expr.embed, specEval2, specEval]
  | .add x y => by
    simp only [Expr.embed, specEval2, specEval, specEval2_embed env x, specEval2_embed env y]
    rcases specEval env x with _ | ⟨s1, f1⟩ <;> rcases specEval env y with _ | ⟨s2, f2⟩ <;> rfl
  | .sub x y => by
    simp only [Expr.embed, specEval2, specEval, specEval2_embed env x, specEval2_embed env y]
    rcases specEval env x with _ | ⟨s1, f1⟩ <;> rcases specEval env y with _ | ⟨s2, f2⟩ <;> rfl
  | .mul x y => by
    simp only [Expr.embed, specEval2, specEval, specEval2_embed env x, specEval2_embed env y]
    rcases specEval env x with _ | ⟨s1, f1⟩ <;> rcases specEval env y with _ | ⟨s2, f2⟩ <;> rfl
  | .neg x => by simp only [Expr.embed, specEval2, specEval, specEval2_embed env x]
  | .pos x => by simp only [Expr.embed, specEval2, specEval, specEval2_embed env x]
  | .pow x k => by simp only [Expr.embed, specEval2, specEval, specEval2_embed env x]

/-- the embedding is injective: no two old programs are identified -/
theorem Expr.embed_injective : ∀ t u : Expr, t.embed = u.embed → t = u
  | .leaf _, .leaf _, h => by simp only [Expr.embed, Expr2.leaf.injEq] at h; rw [h]
  | .add x y, .add x' y', h => by
    simp only [Expr.embed, Expr2.add.injEq] at h
    rw [Expr.embed_injective x x' h.1, Expr.embed_injective y y' h.2]
  | .sub x y, .sub x' y', h => by
    simp only [Expr.embed, Expr2.sub.injEq] at h
    rw [Expr.embed_injective x x' h.1, Expr.embed_injective y y' h.2]
  | .mul x y, .mul x' y', h => by
    simp only [Expr.embed, Expr2.mul.injEq] at h
    rw [Expr.embed_injective x x' h.1, Expr.embed_injective y y' h.2]
  | .neg x, .neg x', h => by
    simp only [Expr.embed, Expr2.neg.injEq] at h
    rw [Expr.embed_injective x x' h]
  | .pos x, .pos x', h => by
    simp only [Expr.embed, Expr2.pos.injEq] at h
    rw [Expr.embed_injective x x' h]
  | .pow x k, .pow x' k', h => by
    simp only [Expr.embed, Expr2.pow.injEq] at h
    rw [Expr.embed_injective x x' h.1, h.2]
  | .leaf _, .add _ _, h | .leaf _, .sub _ _, h | .leaf _, .mul _ _, h | .leaf _, .neg _, h | .leaf _, .pos _, h
  | .leaf _, .pow _ _, h
  | .add _ _, .leaf _, h | .add _ _, .sub _ _, h | .add _ _, .mul _ _, h | .add _ _, .neg _, h | .add _ _, .pos _, h
  | .add _ _, .pow _ _, h
  | .sub _ _, .leaf _, h | .sub _ _, .add _ _, h | .sub _ _, .mul _ _, h | .sub _ _, .neg _, h | .sub _ _, .pos _, h
  | .sub _ _, .pow _ _, h
  | .mul _ _, .leaf _, h | .mul _ _, .add _ _, h | .mul _ _, .sub _ _, h | .mul _ _, .neg _, h | .mul _ _, .pos _, h
  | .mul _ _, .pow _ _, h
  | .neg _, .leaf _, h | .neg _, .add _ _, h | .neg _, .sub _ _, h | .neg _, .mul _ _, h | .neg _, .pos _, h
  | .neg _, .pow _ _, h
  | .pos _, .leaf _, h | .pos _, .add _ _, h | .pos _, .sub _ _, h | .pos _, .mul _ _, h | .pos _, .neg _, h
  | .pos _, .pow _ _, h
  | .pow _ _, .leaf _, h | .pow _ _, .add _ _, h | .pow _ _, .sub _ _, h | .pow _ _, .mul _ _, h | .pow _ _, .neg _, h
  | .pow _ _, .pos _, h => by simp [Expr.embed] at h

/-! ### 3. the new case, in the form the induction needs -/

/-- the `powArr` step: if the base `a` agrees with `(s1, f1)` and `Arr.powArr` succeeds with `r`, then `r` is
well-formed and agrees with the specification's `powArr` node over `(s1, f1)` -/
theorem agrees_powArr (rc rn : Bool) (a r : Arr R) (kshape ks : List Nat) (s1 : List Nat)
    (f1 : Nat → MvPolynomial Name R) (wa : a.WF) (ha : Agrees a (s1, f1))
    (h : Arr.powArr rc rn a kshape ks = .ok r) :
    r.WF ∧ ∃ sf, (bshape s1 kshape).map
        (fun s => (s, fun i => f1 (bindex s1 s i) ^ ks.getD (bindex kshape s i) 0)) = some sf ∧ Agrees r sf := by
  obtain ⟨wr, hs, σa, σk, hσa, hσk, hel⟩ := Arr.powArr_spec rc rn a kshape ks r wa h
  obtain ⟨ha1, ha2⟩ := ha
  simp only at ha1
  subst ha1
  refine ⟨wr, _, by rw [hs]; rfl, rfl, ?_⟩
  intro i hi
  simp only
  rw [hel ⟨i, hi⟩, hσk ⟨i, hi⟩]
  have e1 := ha2 (σa ⟨i, hi⟩).val (σa ⟨i, hi⟩).isLt
  simp only at e1
  rw [← hσa ⟨i, hi⟩, ← e1]

/-- un-nesting one monadic bind of the evaluator -/
theorem bind_ok {α β : Type} {x : Except Err α} {f : α → Except Err β} {r : β} (h : (x >>= f) = .ok r) :
    ∃ a, x = .ok a ∧ f a = .ok r := by
  cases x with
  | error e => simp [bind, Except.bind] at h
  | ok a => exact ⟨a, rfl, h⟩

/-! ### 4. the theorem -/

/-- C01 with array exponents: every program over + - * neg pos **k **array computes, element by element and in
numpy's broadcast shape, the ring expression of its leaves, and the result is well-formed -/
theorem expr2_den (rc rn : Bool) (env : List (Arr R)) (henv : ∀ a ∈ env, a.WF) :
    ∀ (t : Expr2) (r : Arr R), evalModel2 rc rn env t = .ok r →
      r.WF ∧ ∃ sf, specEval2 env t = some sf ∧ Agrees r sf
  | .leaf i, r, h => by
    simp only [evalModel2] at h
    cases hi : env[i]? with
    | none => simp [hi] at h
    | some a =>
      simp only [hi] at h
      injection h with h; subst h
      refine ⟨henv a (List.mem_of_getElem? hi), (a.shape, a.elemN), by simp [specEval2, hi], rfl, ?_⟩
      intro j hj
      simp [Arr.elemN, hj]
  | .add x y, r, h => by
    simp only [evalModel2] at h
    obtain ⟨a, hx, h⟩ := bind_ok h
    obtain ⟨b, hy, h⟩ := bind_ok h
    obtain ⟨wa, ⟨s1, f1⟩, hsa, aga⟩ := expr2_den rc rn env henv x a hx
    obtain ⟨wb, ⟨s2, f2⟩, hsb, agb⟩ := expr2_den rc rn env henv y b hy
    obtain ⟨wr, hs, σa, σb, hσa, hσb, hel⟩ := Arr.add_spec rc rn a b r wa wb h
    obtain ⟨sf, hsf, ag⟩ := agrees_binop (· + ·) a b r s1 s2 f1 f2 aga agb hs σa σb hσa hσb hel
    exact ⟨wr, sf, by simp only [specEval2, hsa, hsb]; exact hsf, ag⟩
  | .sub x y, r, h => by
    simp only [evalModel2] at h
    obtain ⟨a, hx, h⟩ := bind_ok h
    obtain ⟨b, hy, h⟩ := bind_ok h
    obtain ⟨wa, ⟨s1, f1⟩, hsa, aga⟩ := expr2_den rc rn env henv x a hx
    obtain ⟨wb, ⟨s2, f2⟩, hsb, agb⟩ := expr2_den rc rn env henv y b hy
    obtain ⟨wr, hs, σa, σb, hσa, hσb, hel⟩ := Arr.sub_spec rc rn a b r wa wb h
    obtain ⟨sf, hsf, ag⟩ := agrees_binop (· - ·) a b r s1 s2 f1 f2 aga agb hs σa σb hσa hσb hel
    exact ⟨wr, sf, by simp only [specEval2, hsa, hsb]; exact hsf, ag⟩
  | .mul x y, r, h => by
    simp only [evalModel2] at h
    obtain ⟨a, hx, h⟩ := bind_ok h
    obtain ⟨b, hy, h⟩ := bind_ok h
    obtain ⟨wa, ⟨s1, f1⟩, hsa, aga⟩ := expr2_den rc rn env henv x a hx
    obtain ⟨wb, ⟨s2, f2⟩, hsb, agb⟩ := expr2_den rc rn env henv y b hy
    obtain ⟨wr, hs, σa, σb, hσa, hσb, hel⟩ := Arr.mul_spec rc rn a b r wa wb h
    obtain ⟨sf, hsf, ag⟩ := agrees_binop (· * ·) a b r s1 s2 f1 f2 aga agb hs σa σb hσa hσb hel
    exact ⟨wr, sf, by simp only [specEval2, hsa, hsb]; exact hsf, ag⟩
  | .neg x, r, h => by
    simp only [evalModel2] at h
    obtain ⟨a, hx, h⟩ := bind_ok h
    injection h with h; subst h
    obtain ⟨wa, ⟨s1, f1⟩, hsa, ⟨ag1, ag2⟩⟩ := expr2_den rc rn env henv x a hx
    refine ⟨(Arr.neg_spec rc rn a wa).1, (s1, fun i => - f1 i), by simp [specEval2, hsa], ag1, ?_⟩
    intro i hi
    rw [(Arr.neg_spec rc rn a wa).2 ⟨i, hi⟩]
    exact congrArg Neg.neg (ag2 i hi)
  | .pos x, r, h => by
    simp only [evalModel2] at h
    obtain ⟨a, hx, h⟩ := bind_ok h
    injection h with h; subst h
    obtain ⟨wa, ⟨s1, f1⟩, hsa, ⟨ag1, ag2⟩⟩ := expr2_den rc rn env henv x a hx
    refine ⟨(Arr.pos_spec rc rn a wa).1, (s1, f1), by simp [specEval2, hsa], ag1, ?_⟩
    intro i hi
    rw [(Arr.pos_spec rc rn a wa).2 ⟨i, hi⟩]
    exact ag2 i hi
  | .pow x k, r, h => by
    simp only [evalModel2] at h
    obtain ⟨a, hx, h⟩ := bind_ok h
    obtain ⟨wa, ⟨s1, f1⟩, hsa, ⟨ag1, ag2⟩⟩ := expr2_den rc rn env henv x a hx
    obtain ⟨r', hr', wr', hshape, hel⟩ := Arr.pow_spec rc rn a k wa
    rw [hr'] at h
    injection h with h; subst h
    refine ⟨wr', (s1, fun i => f1 i ^ k), by simp [specEval2, hsa], hshape.trans ag1, ?_⟩
    intro i hi
    rw [hel ⟨i, hi⟩]
    have hi' : i < size a.shape := hshape ▸ hi
    have := ag2 i hi'
    simp only at this ⊢
    rw [← this]
    congr 2
    apply Fin.ext
    cases r'; cases a
    simp only at hshape
    subst hshape
    rfl
  | .powArr x kshape ks, r, h => by
    simp only [evalModel2] at h
    obtain ⟨a, hx, h⟩ := bind_ok h
    obtain ⟨wa, ⟨s1, f1⟩, hsa, aga⟩ := expr2_den rc rn env henv x a hx
    obtain ⟨wr, sf, hsf, ag⟩ := agrees_powArr rc rn a r kshape ks s1 f1 wa aga h
    exact ⟨wr, sf, by simp only [specEval2, hsa]; exact hsf, ag⟩

/-! ### 5. consequences -/

/-- `expr_den` is `expr2_den` restricted to embedded programs -/
theorem expr_den_of_expr2_den (rc rn : Bool) (env : List (Arr R)) (henv : ∀ a ∈ env, a.WF) (t : Expr) (r : Arr R)
    (h : evalModel rc rn env t = .ok r) : r.WF ∧ ∃ sf, specEval env t = some sf ∧ Agrees r sf := by
  rw [← evalModel2_embed] at h
  rw [← specEval2_embed]
  exact expr2_den rc rn env henv _ r h

/-- the specification is a function: the model's answer is determined (shape and every element) by the spec -/
theorem expr2_den_unique (rc rn rc' rn' : Bool) (env : List (Arr R)) (henv : ∀ a ∈ env, a.WF) (t : Expr2)
    (r r' : Arr R) (h : evalModel2 rc rn env t = .ok r) (h' : evalModel2 rc' rn' env t = .ok r') :
    r.shape = r'.shape ∧ ∀ i (hi : i < size r.shape) (hi' : i < size r'.shape), r.elem ⟨i, hi⟩ = r'.elem ⟨i, hi'⟩ := by
  obtain ⟨_, sf, hsf, ag1, ag2⟩ := expr2_den rc rn env henv t r h
  obtain ⟨_, sf', hsf', ag1', ag2'⟩ := expr2_den rc' rn' env henv t r' h'
  rw [hsf] at hsf'
  injection hsf' with hsf'
  subst hsf'
  exact ⟨ag1.trans ag1'.symm, fun i hi hi' => (ag2 i hi).trans (ag2' i hi').symm⟩

/-- a one-node instance: `leaf 0 ** ks` has, at flat position `i` of the broadcast shape, the element
`env[0][bindex ..] ^ ks[bindex ..]` -/
theorem powArr_leaf_den (rc rn : Bool) (a : Arr R) (ha : a.WF) (kshape ks : List Nat) (r : Arr R)
    (h : evalModel2 rc rn [a] (.powArr (.leaf 0) kshape ks) = .ok r) :
    r.WF ∧ bshape a.shape kshape = some r.shape ∧
      ∀ i (hi : i < size r.shape), r.elem ⟨i, hi⟩ =
        a.elemN (bindex a.shape r.shape i) ^ ks.getD (bindex kshape r.shape i) 0 := by
  obtain ⟨wr, sf, hsf, ag1, ag2⟩ := expr2_den rc rn [a] (by simpa using ha) _ r h
  simp only [specEval2, List.getElem?_cons_zero, Option.map_some] at hsf
  cases hb : bshape a.shape kshape with
  | none => simp [hb] at hsf
  | some s =>
    simp only [hb, Option.map_some, Option.some.injEq] at hsf
    subst hsf
    simp only at ag1 ag2
    subst ag1
    exact ⟨wr, rfl, ag2⟩
end Np

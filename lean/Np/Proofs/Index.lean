import Np.Model.Index
import Np.Proofs.StableSort
import Mathlib.Data.List.Range
import Mathlib.Data.List.Perm.Basic
/-! C18: `glexsort` is a permutation that sorts in (graded)(reverse) lexicographic order, ties in input order -/
namespace Np.Index

theorem lexLe_total : ∀ a b : List Nat, lexLe a b || lexLe b a
  | [], _ => by simp [lexLe]
  | _ :: _, [] => by simp [lexLe]
  | a :: as, b :: bs => by
    simp only [lexLe]
    by_cases h1 : a < b
    · simp [h1]
    · by_cases h2 : b < a
      · simp [h2]
      · simpa [h1, h2] using lexLe_total as bs

theorem lexLe_trans : ∀ a b c : List Nat, lexLe a b → lexLe b c → lexLe a c
  | [], _, _ => by simp [lexLe]
  | _ :: _, [], _ => by simp [lexLe]
  | _ :: _, _ :: _, [] => by simp [lexLe]
  | a :: as, b :: bs, c :: cs => by
    simp only [lexLe]
    intro h1 h2
    by_cases hab : a < b
    · by_cases hbc : b < c
      · have : a < c := by omega
        simp [this]
      · by_cases hcb : c < b
        · simp [hbc, hcb] at h2
        · have : a < c := by omega
          simp [this]
    · by_cases hba : b < a
      · simp [hab, hba] at h1
      · have hEq : a = b := by omega
        subst hEq
        simp only [hab, if_false] at h1
        by_cases hac : a < c
        · simp [hac]
        · by_cases hca : c < a
          · simp [hac, hca] at h2
          · simp only [hac, hca, if_false] at h2 ⊢
            exact lexLe_trans as bs cs h1 h2

section
variable (graded reverse : Bool) (cols : List (List Nat))

/-- the comparison on indices used by the first (lexsort) pass -/
def le2 (i j : Nat) : Bool := lexLe (colKey reverse (cols.getD i [])) (colKey reverse (cols.getD j []))
/-- the comparison on indices used by the second (graded) pass -/
def le1 (i j : Nat) : Bool := decide (colSum (cols.getD i []) ≤ colSum (cols.getD j []))

theorem le2_trans (a b c : Nat) : le2 reverse cols a b → le2 reverse cols b c → le2 reverse cols a c :=
  lexLe_trans _ _ _
theorem le2_total (a b : Nat) : le2 reverse cols a b || le2 reverse cols b a := lexLe_total _ _
theorem le1_trans (a b c : Nat) : le1 cols a b → le1 cols b c → le1 cols a c := by
  simp only [le1, decide_eq_true_eq]; omega
theorem le1_total (a b : Nat) : le1 cols a b || le1 cols b a := by
  simp only [le1, Bool.or_eq_true, decide_eq_true_eq]; omega

theorem glexsort_eq :
    glexsort graded reverse cols =
      if graded then Sort.isort (le1 cols) (Sort.isort (le2 reverse cols) (List.range cols.length))
      else Sort.isort (le2 reverse cols) (List.range cols.length) := by
  unfold glexsort le1 le2
  split <;> rfl

/-- `glexsort` returns a permutation of `0 … n-1` -/
theorem glexsort_perm : (glexsort graded reverse cols).Perm (List.range cols.length) := by
  rw [glexsort_eq]
  split
  · exact (Sort.perm_isort _ _).trans (Sort.perm_isort _ _)
  · exact Sort.perm_isort _ _

/-- the output is sorted: earlier positions are `≤` later ones in the (graded)(reverse) lexicographic order -/
theorem glexsort_sorted :
    (glexsort graded reverse cols).Pairwise
      (fun i j => glexLe graded reverse (cols.getD i []) (cols.getD j []) = true) := by
  rw [glexsort_eq]
  cases graded with
  | false =>
    simp only [Bool.false_eq_true, if_false, glexLe]
    exact Sort.pairwise_isort _ (le2_trans reverse cols) (le2_total reverse cols) _
  | true =>
    simp only [if_true, glexLe]
    have h := Np.Sort.two_pass_sorted (List.range cols.length) List.nodup_range (le1 cols) (le2 reverse cols)
      (le1_trans cols) (le1_total cols) (le2_trans reverse cols) (le2_total reverse cols)
    refine h.imp ?_
    intro a b ⟨h1, h2⟩
    simp only [le1, decide_eq_true_eq] at h1 h2
    simp only [Bool.or_eq_true, decide_eq_true_eq, Bool.and_eq_true, beq_iff_eq]
    by_cases hlt : colSum (cols.getD a []) < colSum (cols.getD b [])
    · exact Or.inl hlt
    · right
      have hEq : colSum (cols.getD a []) = colSum (cols.getD b []) := by omega
      exact ⟨hEq, h2 (by omega)⟩
end
end Np.Index

namespace Np.Index

theorem mem_grid (b : Nat) : ∀ (d : Nat) (x : List Nat), x ∈ grid b d ↔ x.length = d ∧ ∀ y ∈ x, y < b
  | 0, x => by
    simp only [grid, List.mem_singleton]
    constructor
    · rintro rfl; simp
    · rintro ⟨h, _⟩; exact List.length_eq_zero_iff.1 h
  | d + 1, x => by
    simp only [grid, List.mem_flatMap, List.mem_range, List.mem_map]
    constructor
    · rintro ⟨a, ha, t, ht, rfl⟩
      have := (mem_grid b d t).1 ht
      refine ⟨by simp [this.1], ?_⟩
      intro y hy
      rcases List.mem_cons.1 hy with rfl | hy
      · exact ha
      · exact this.2 y hy
    · rintro ⟨hl, hb⟩
      cases x with
      | nil => simp at hl
      | cons a t =>
        refine ⟨a, hb a (by simp), t, (mem_grid b d t).2 ⟨by simpa using hl, fun y hy => hb y (by simp [hy])⟩, rfl⟩

theorem nodup_grid (b : Nat) : ∀ d : Nat, (grid b d).Nodup
  | 0 => by simp [grid]
  | d + 1 => by
    simp only [grid]
    rw [List.nodup_flatMap]
    refine ⟨?_, ?_⟩
    · intro a _
      exact (nodup_grid b d).map (fun x y h => by simpa using h)
    · refine List.Pairwise.imp_of_mem ?_ (List.nodup_range (n := b))
      intro a c _ _ hac
      simp only [Function.onFun, List.disjoint_left, List.mem_map]
      rintro x ⟨t, _, rfl⟩ ⟨u, _, h⟩
      exact hac (by simpa using (List.cons.inj h).1.symm)

theorem map_getD_range {α : Type} (l : List α) (d : α) : (List.range l.length).map (fun i => l.getD i d) = l := by
  apply List.ext_getElem
  · simp
  · intro i h1 h2
    simp at h1
    simp [List.getD, h1]

/-- reading a list through a permutation of its positions gives a permutation of the list -/
theorem perm_of_index_perm {α : Type} (l : List α) (d : α) (order : List Nat)
    (h : order.Perm (List.range l.length)) : (order.map fun i => l.getD i d).Perm l := by
  have := h.map (fun i => l.getD i d)
  rwa [map_getD_range] at this
end Np.Index

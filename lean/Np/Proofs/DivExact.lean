import Np.Proofs.DivTerm
import Np.Proofs.WF
import Np.Proofs.CompareArr
import Mathlib.Algebra.MvPolynomial.Basic
import Mathlib.Algebra.MvPolynomial.CommRing
/-! C05: three consequences of the division identity + reduced remainder of `poly_divmod` (one array element):
(A) a constant divisor leaves remainder 0 and the true quotient `f / c`;
(B) in one indeterminate `deg r < deg d`;
(C) an exact multiple `f = g·d` (`d ≠ 0`) is divided exactly: `r = 0`, `q = g`.
For (C) the largest monomial of `g - q` (in the `lexsort` order on the rows over `ns`) times the leading monomial
of `d` is a monomial of the product with a non-zero coefficient, and it is divisible by the leading monomial. -/
open MvPolynomial
set_option linter.unusedSectionVars false
namespace Np.Div
open Np

variable {K : Type} [Field K] [BEq K] [LawfulBEq K]

/-! ### 0. terms and coefficients of `denT` -/

theorem denT_all_zero (ns : List Name) (ts : List (Expo × K)) (h : ∀ t ∈ ts, t.2 = 0) : denT ns ts = 0 := by
  induction ts with
  | nil => simp
  | cons t ts ih =>
    rw [denT_cons, h t (by simp), ih (fun u hu => h u (by simp [hu]))]; simp

/-- a monomial of `denT ns ts` comes from a non-zero term of `ts` -/
theorem coeff_denT_ne_zero (ns : List Name) (ts : List (Expo × K)) (m : Name →₀ ℕ)
    (h : coeff m (denT ns ts) ≠ 0) : ∃ t ∈ ts, t.2 ≠ 0 ∧ fsN ns t.1 = m := by
  induction ts with
  | nil => simp at h
  | cons t ts ih =>
    rw [denT_cons, coeff_add, coeff_monomial] at h
    by_cases h1 : fsN ns t.1 = m ∧ t.2 ≠ 0
    · exact ⟨t, by simp, h1.2, h1.1⟩
    · have h2 : coeff m (denT ns ts) ≠ 0 := by
        intro h0
        apply h
        rw [h0, add_zero]
        split
        · rename_i hm
          by_contra hc
          exact h1 ⟨hm, hc⟩
        · rfl
      obtain ⟨u, hu, h3⟩ := ih h2
      exact ⟨u, by simp [hu], h3⟩

theorem coeff_denT_mem (ns : List Name) (hn : ns.Nodup) (ts : List (Expo × K))
    (hl : ∀ t ∈ ts, t.1.length = ns.length) (hnd : (ts.map (·.1)).Nodup) (t : Expo × K) (ht : t ∈ ts) :
    coeff (fsN ns t.1) (denT ns ts) = t.2 := by
  obtain ⟨j, hj, rfl⟩ := List.getElem_of_mem ht
  exact coeff_denT_getElem ns hn ts hl hnd j hj

/-- only one term is non-zero -/
theorem denT_single (ns : List Name) (lead : Expo × K) : ∀ (ts : List (Expo × K)), (ts.map (·.1)).Nodup →
    lead ∈ ts → (∀ t ∈ ts, t.2 ≠ 0 → t = lead) → denT ns ts = monomial (fsN ns lead.1) lead.2
  | [], _, h, _ => by simp at h
  | t :: ts, hnd, hmem, hall => by
    simp only [List.map_cons, List.nodup_cons] at hnd
    rw [denT_cons]
    by_cases ht : t = lead
    · subst ht
      rw [denT_all_zero ns ts, add_zero]
      intro u hu
      by_contra hne
      have := hall u (by simp [hu]) hne
      exact hnd.1 (this ▸ List.mem_map_of_mem hu)
    · have h0 : t.2 = 0 := by
        by_contra hne
        exact ht (hall t (by simp) hne)
      have hmem' : lead ∈ ts := by
        rcases List.mem_cons.1 hmem with h | h
        · exact absurd h.symm ht
        · exact h
      rw [h0, denT_single ns lead ts hnd.2 hmem' (fun u hu => hall u (by simp [hu]))]
      simp

/-! ### (A) constant divisor -/

theorem divides_zeros : ∀ (n : Nat) (e : Expo), divides (List.replicate n 0) e = true
  | 0, _ => by simp [divides]
  | _ + 1, [] => by simp [divides]
  | n + 1, x :: xs => by
    have := divides_zeros n xs
    simp only [divides] at this ⊢
    simp [List.replicate_succ, this]

/-- nothing is below the zero row -/
theorem lexLe_zeros : ∀ (k : Nat) (a : List Nat), a.length = k → Index.lexLe a (List.replicate k 0) = true →
    a = List.replicate k 0
  | 0, a, h, _ => by simpa using h
  | k + 1, [], h, _ => by simp at h
  | k + 1, x :: xs, h, hle => by
    simp only [List.replicate_succ, Index.lexLe, Nat.not_lt_zero, if_false] at hle
    by_cases hx : 0 < x
    · simp [hx] at hle
    · simp only [hx, if_false] at hle
      have hx0 : x = 0 := by omega
      rw [hx0, List.replicate_succ, lexLe_zeros k xs (by simpa using h) hle]

theorem not_lexLt_zeros (n : Nat) (a : Expo) (ha : a.length = n) : lexLt a (List.replicate n 0) = false := by
  apply Bool.eq_false_iff.2
  intro h
  rw [lexLt_iff] at h
  apply h.2
  have := lexLe_zeros n a.reverse (by simpa using ha) (by simpa using h.1)
  have h2 := congrArg List.reverse this
  simpa using h2

/-- (A, remainder) a divisor whose leading row is the zero row: every term of the remainder has coefficient 0 -/
theorem divmod_const_remainder (fuel n : Nat) (f d q r : List (Expo × K)) (lead : Expo × K)
    (hlead : maxTerm (fun t => !(t.2 == 0)) d = some lead) (hl0 : lead.1 = List.replicate n 0)
    (h : divmod fuel f d = some (q, r)) : ∀ t ∈ r, t.2 = 0 := by
  intro t ht
  have := maxTerm_none _ _ (divmod_remainder_reduced fuel f d q r lead hlead h) t ht
  rw [hl0, divides_zeros] at this
  simpa using this

theorem divmod_const_remainder_den (ns : List Name) (fuel n : Nat) (f d q r : List (Expo × K)) (lead : Expo × K)
    (hlead : maxTerm (fun t => !(t.2 == 0)) d = some lead) (hl0 : lead.1 = List.replicate n 0)
    (h : divmod fuel f d = some (q, r)) : denT ns r = 0 :=
  denT_all_zero ns r (divmod_const_remainder fuel n f d q r lead hlead hl0 h)

/-- a divisor (distinct rows of one length) whose leading row is the zero row denotes the constant `lead.2`:
all its other terms are zero -/
theorem denT_const_divisor (ns : List Name) (d : List (Expo × K)) (lead : Expo × K)
    (hdn : (d.map (·.1)).Nodup) (hdl : ∀ t ∈ d, t.1.length = ns.length)
    (hlead : maxTerm (fun t => !(t.2 == 0)) d = some lead) (hl0 : lead.1 = List.replicate ns.length 0) :
    (∀ t ∈ d, t.2 ≠ 0 → t = lead) ∧ denT ns d = C lead.2 := by
  have hl := maxTerm_some _ _ _ hlead
  have hall : ∀ t ∈ d, t.2 ≠ 0 → t = lead := by
    intro t ht hnz
    have hmax := maxTerm_max _ d lead hlead t ht (by simpa using hnz)
    have h1 : t.1 = lead.1 := by
      by_contra hne
      rcases lexLt_total t.1 lead.1 hne with h | h
      · rw [hl0, not_lexLt_zeros _ _ (hdl t ht)] at h; cases h
      · rw [h] at hmax; cases hmax
    exact List.inj_on_of_nodup_map hdn ht hl.1 h1
  refine ⟨hall, ?_⟩
  rw [denT_single ns lead d hdn hl.1 hall, hl0, fsN_replicate, C_apply]

/-- (A) constant divisor `c = lead.2 ≠ 0`: remainder 0 and `q·c = f`, i.e. `q` is the true quotient `f / c` -/
theorem divmod_const_divisor (ns : List Name) (fuel : Nat) (f d q r : List (Expo × K)) (lead : Expo × K)
    (hf : (f.map (·.1)).Nodup) (hfl : ∀ t ∈ f, t.1.length = ns.length) (hdl : ∀ t ∈ d, t.1.length = ns.length)
    (hlead : maxTerm (fun t => !(t.2 == 0)) d = some lead) (hl0 : lead.1 = List.replicate ns.length 0)
    (hD : denT ns d = C lead.2) (h : divmod fuel f d = some (q, r)) :
    (∀ t ∈ r, t.2 = 0) ∧ denT ns r = 0 ∧ denT ns q * C lead.2 = denT ns f ∧
      denT ns q = C (lead.2)⁻¹ * denT ns f := by
  have hr := divmod_const_remainder fuel ns.length f d q r lead hlead hl0 h
  have hr0 := denT_all_zero ns r hr
  have hid := divmod_identity ns fuel f d q r hf hfl hdl h
  rw [hr0, add_zero, hD] at hid
  have hnz : lead.2 ≠ 0 := by simpa using (maxTerm_some _ _ _ hlead).2
  refine ⟨hr, hr0, hid.symm, ?_⟩
  rw [hid, mul_comm (denT ns q), ← mul_assoc, ← C_mul, inv_mul_cancel₀ hnz, C_1, one_mul]

/-- (A) with the hypothesis on the rows only (distinct rows): the leading row is the zero row -/
theorem divmod_const_divisor' (ns : List Name) (fuel : Nat) (f d q r : List (Expo × K)) (lead : Expo × K)
    (hf : (f.map (·.1)).Nodup) (hfl : ∀ t ∈ f, t.1.length = ns.length) (hdl : ∀ t ∈ d, t.1.length = ns.length)
    (hdn : (d.map (·.1)).Nodup)
    (hlead : maxTerm (fun t => !(t.2 == 0)) d = some lead) (hl0 : lead.1 = List.replicate ns.length 0)
    (h : divmod fuel f d = some (q, r)) :
    denT ns d = C lead.2 ∧ denT ns r = 0 ∧ denT ns q = C (lead.2)⁻¹ * denT ns f := by
  have hD := (denT_const_divisor ns d lead hdn hdl hlead hl0).2
  have := divmod_const_divisor ns fuel f d q r lead hf hfl hdl hlead hl0 hD h
  exact ⟨hD, this.2.1, this.2.2.2⟩

/-! ### (B) one indeterminate: `deg r < deg d` -/

theorem length_one (e : Expo) (h : e.length = 1) : ∃ a, e = [a] := by
  match e, h with
  | [a], _ => exact ⟨a, rfl⟩

theorem lexLt_single (a b : Nat) : lexLt [a] [b] = decide (a < b) := by
  by_cases h1 : a < b
  · have h2 : a ≠ b := by omega
    simp [lexLt, lexLe, Index.lexLe, h1, h2]
  · by_cases h2 : b < a
    · simp [lexLt, lexLe, Index.lexLe, h1, h2]
    · have : a = b := by omega
      simp [lexLt, this]

/-- (B) rows of length 1: every non-zero term of the remainder has an exponent strictly below the leading exponent
of the divisor (which is the largest exponent of a non-zero term of `d`) -/
theorem divmod_univariate (ns : List Name) (hns : ns.length = 1) (fuel : Nat) (f d q r : List (Expo × K))
    (t0 : Expo × K) (hf : (f.map (·.1)).Nodup) (hfl : ∀ t ∈ f, t.1.length = ns.length)
    (hdl : ∀ t ∈ d, t.1.length = ns.length) (ht0 : t0 ∈ d) (hnz : t0.2 ≠ 0)
    (h : divmod fuel f d = some (q, r)) :
    ∃ (lead : Expo × K) (l : Nat), maxTerm (fun t => !(t.2 == 0)) d = some lead ∧ lead ∈ d ∧ lead.2 ≠ 0 ∧
      lead.1 = [l] ∧ (∀ u ∈ d, u.2 ≠ 0 → ∃ b, u.1 = [b] ∧ b ≤ l) ∧
      ∀ t ∈ r, t.2 ≠ 0 → ∃ a, t.1 = [a] ∧ a < l ∧ lexLt t.1 lead.1 = true := by
  obtain ⟨lead, hlead, hld, hl2, hred⟩ := divmod_remainder_reduced' fuel f d q r t0 ht0 hnz h
  obtain ⟨l, hl⟩ := length_one lead.1 ((hdl lead hld).trans hns)
  have hinv := (divmod_inv ns fuel f d q r hf hfl hdl h).2
  refine ⟨lead, l, hlead, hld, hl2, hl, ?_, ?_⟩
  · intro u hu hu2
    obtain ⟨b, hb⟩ := length_one u.1 ((hdl u hu).trans hns)
    refine ⟨b, hb, ?_⟩
    have hmax := maxTerm_max _ d lead hlead u hu (by simpa using hu2)
    rw [hl, hb] at hmax
    rw [lexLt_single] at hmax
    simpa using hmax
  · intro t ht ht2
    obtain ⟨a, ha⟩ := length_one t.1 ((hinv.len t ht).trans hns)
    have hdv := hred t ht ht2
    rw [hl, ha] at hdv
    have hal : a < l := by simpa [divides] using hdv
    refine ⟨a, ha, hal, ?_⟩
    rw [hl, ha, lexLt_single]
    simpa using hal

/-- (B) on the denotation, one indeterminate `x`: every monomial of the remainder has `x`-degree below the leading
exponent `l` of the divisor, and every monomial of the divisor has `x`-degree at most `l` (attained: `lead`) -/
theorem divmod_univariate_den (x : Name) (fuel : Nat) (f d q r : List (Expo × K)) (t0 : Expo × K)
    (hf : (f.map (·.1)).Nodup) (hfl : ∀ t ∈ f, t.1.length = 1) (hdl : ∀ t ∈ d, t.1.length = 1)
    (ht0 : t0 ∈ d) (hnz : t0.2 ≠ 0) (h : divmod fuel f d = some (q, r)) :
    ∃ (lead : Expo × K) (l : Nat), maxTerm (fun t => !(t.2 == 0)) d = some lead ∧ lead.2 ≠ 0 ∧ lead.1 = [l] ∧
      (∀ m, coeff m (denT [x] d) ≠ 0 → m x ≤ l) ∧ ∀ m, coeff m (denT [x] r) ≠ 0 → m x < l := by
  obtain ⟨lead, l, hlead, -, hl2, hl, hdd, hrr⟩ :=
    divmod_univariate [x] rfl fuel f d q r t0 hf hfl hdl ht0 hnz h
  refine ⟨lead, l, hlead, hl2, hl, ?_, ?_⟩
  · intro m hm
    obtain ⟨u, hu, hu2, rfl⟩ := coeff_denT_ne_zero [x] d m hm
    obtain ⟨b, hb, hbl⟩ := hdd u hu hu2
    simpa [hb, fsN] using hbl
  · intro m hm
    obtain ⟨t, ht, ht2, rfl⟩ := coeff_denT_ne_zero [x] r m hm
    obtain ⟨a, ha, hal, -⟩ := hrr t ht ht2
    simpa [ha, fsN] using hal

/-! ### (C) exact multiples -/

/-- the exponent row of a monomial over the names `ns` -/
noncomputable def row (ns : List Name) (m : Name →₀ ℕ) : Expo := ns.map m

@[simp] theorem row_length (ns : List Name) (m : Name →₀ ℕ) : (row ns m).length = ns.length := by simp [row]

theorem row_add (ns : List Name) (a b : Name →₀ ℕ) :
    row ns (a + b) = List.zipWith (· + ·) (row ns a) (row ns b) := by
  unfold row
  induction ns with
  | nil => rfl
  | cons x xs _ => simp

theorem fsN_not_mem (ns : List Name) (e : Expo) (x : Name) (h : x ∉ ns) : fsN ns e x = 0 := by
  induction ns generalizing e with
  | nil => simp [fsN]
  | cons a as ih =>
    cases e with
    | nil => simp [fsN]
    | cons y ys =>
      simp only [List.mem_cons, not_or] at h
      simp [fsN, Ne.symm h.1, ih ys h.2]

theorem row_fsN (ns : List Name) (hn : ns.Nodup) (e : Expo) (he : e.length = ns.length) :
    row ns (fsN ns e) = e := by
  induction ns generalizing e with
  | nil =>
    have : e = [] := List.length_eq_zero_iff.1 (by simpa using he)
    simp [row, this]
  | cons x xs ih =>
    cases e with
    | nil => simp at he
    | cons y ys =>
      simp only [List.nodup_cons] at hn
      have h1 : fsN xs ys x = 0 := fsN_not_mem xs ys x hn.1
      have h2 : xs.map (⇑(Finsupp.single x y + fsN xs ys)) = xs.map (⇑(fsN xs ys)) := by
        apply List.map_congr_left
        intro z hz
        have : x ≠ z := fun e => hn.1 (e ▸ hz)
        simp [this]
      have h3 := ih hn.2 ys (by simpa using he)
      unfold row at h3 ⊢
      simp only [fsN, List.map_cons, h2, h3, Finsupp.add_apply, Finsupp.single_eq_same, h1, add_zero]

theorem zipWith_add_comm (a b : List Nat) : List.zipWith (· + ·) a b = List.zipWith (· + ·) b a :=
  List.zipWith_comm_of_comm (fun x y => Nat.add_comm x y)

theorem divides_add : ∀ (a l : Expo), a.length = l.length → divides l (List.zipWith (· + ·) a l) = true
  | [], _, _ => by simp [divides]
  | _ :: _, [], h => by simp at h
  | x :: a, y :: l, h => by
    have := divides_add a l (by simpa using h)
    simp only [divides] at this ⊢
    simp [this]

/-- a non-empty list of monomials has one whose row is maximal in the `lexsort` order -/
theorem exists_max_row (ns : List Name) : ∀ (l : List (Name →₀ ℕ)), l ≠ [] →
    ∃ m ∈ l, ∀ a ∈ l, lexLt (row ns m) (row ns a) = false
  | [], h => absurd rfl h
  | x :: l, _ => by
    by_cases hl : l = []
    · subst hl
      exact ⟨x, by simp, by simp [lexLt_irrefl]⟩
    · obtain ⟨m, hm, hmax⟩ := exists_max_row ns l hl
      by_cases hx : lexLt (row ns m) (row ns x) = true
      · refine ⟨x, by simp, ?_⟩
        intro a ha
        rcases List.mem_cons.1 ha with rfl | ha
        · exact lexLt_irrefl _
        · apply Bool.eq_false_iff.2
          intro h2
          have := lexLt_trans _ _ _ hx h2
          rw [hmax a ha] at this; cases this
      · refine ⟨m, by simp [hm], ?_⟩
        intro a ha
        rcases List.mem_cons.1 ha with rfl | ha
        · simpa using hx
        · exact hmax a ha

/-- key step of (C): `h·D` with `h ≠ 0` has a non-zero coefficient at (largest monomial of `h`) + (leading monomial
of `D`) -/
theorem coeff_top_mul (ns : List Name) (hn : ns.Nodup) (d : List (Expo × K)) (lead : Expo × K)
    (hdn : (d.map (·.1)).Nodup) (hdl : ∀ t ∈ d, t.1.length = ns.length)
    (hlead : maxTerm (fun t => !(t.2 == 0)) d = some lead)
    (h : MvPolynomial Name K) (m0 : Name →₀ ℕ)
    (hmax : ∀ a ∈ h.support, lexLt (row ns m0) (row ns a) = false) :
    coeff (m0 + fsN ns lead.1) (h * denT ns d) = coeff m0 h * lead.2 := by
  have hl := maxTerm_some _ _ _ hlead
  have hll := hdl lead hl.1
  rw [coeff_mul, Finset.sum_eq_single (m0, fsN ns lead.1)]
  · rw [coeff_denT_mem ns hn d hdl hdn lead hl.1]
  · rintro ⟨a, b⟩ hab hne
    rw [Finset.mem_antidiagonal] at hab
    simp only at hab ⊢
    by_contra hprod
    have ha : coeff a h ≠ 0 := fun h0 => hprod (by rw [h0, zero_mul])
    have hb : coeff b (denT ns d) ≠ 0 := fun h0 => hprod (by rw [h0, mul_zero])
    obtain ⟨u, hu, hu2, rfl⟩ := coeff_denT_ne_zero ns d b hb
    have hul := hdl u hu
    by_cases hue : u.1 = lead.1
    · rw [hue] at hab hne
      exact hne (by rw [add_right_cancel hab])
    · have hm := maxTerm_max _ d lead hlead u hu (by simpa using hu2)
      have hlt : lexLt u.1 lead.1 = true := by
        rcases lexLt_total u.1 lead.1 hue with h1 | h1
        · exact h1
        · rw [h1] at hm; cases hm
      have hrows := congrArg (row ns) hab
      rw [row_add, row_add, row_fsN ns hn u.1 hul, row_fsN ns hn lead.1 hll] at hrows
      have h1 := lexLt_translate (row ns a) u.1 lead.1 (by simp [hul]) (hul.trans hll.symm) hlt
      rw [hrows] at h1
      have hamax := hmax a (mem_support_iff.2 ha)
      by_cases hae : row ns a = row ns m0
      · rw [hae, lexLt_irrefl] at h1; cases h1
      · have h2 : lexLt (row ns a) (row ns m0) = true := by
          rcases lexLt_total _ _ hae with h2 | h2
          · exact h2
          · rw [h2] at hamax; cases hamax
        have h3 := lexLt_translate lead.1 (row ns a) (row ns m0) (by simp [hll]) (by simp) h2
        rw [zipWith_add_comm lead.1, zipWith_add_comm lead.1] at h3
        have := lexLt_trans _ _ _ h1 h3
        rw [lexLt_irrefl] at this; cases this
  · intro hnot
    exact absurd (by simp [Finset.mem_antidiagonal]) hnot

/-- a reduced term list has coefficient zero at every monomial divisible by the leading monomial -/
theorem coeff_reduced (ns : List Name) (hn : ns.Nodup) (r : List (Expo × K)) (l : Expo) (hll : l.length = ns.length)
    (hrl : ∀ t ∈ r, t.1.length = ns.length) (hred : ∀ t ∈ r, t.2 ≠ 0 → divides l t.1 = false)
    (m : Name →₀ ℕ) : coeff (m + fsN ns l) (denT ns r) = 0 := by
  by_contra hc0
  obtain ⟨t, ht, ht2, hte⟩ := coeff_denT_ne_zero ns r _ hc0
  have hrow := congrArg (row ns) hte
  rw [row_add, row_fsN ns hn t.1 (hrl t ht), row_fsN ns hn l hll] at hrow
  have := hred t ht ht2
  rw [hrow, divides_add _ _ (by simp [hll])] at this
  cases this

/-- a polynomial without monomials divisible by the leading monomial of `D` is a multiple `h·D` only for `h = 0` -/
theorem reduced_multiple_zero (ns : List Name) (hn : ns.Nodup) (d : List (Expo × K)) (lead : Expo × K)
    (hdn : (d.map (·.1)).Nodup) (hdl : ∀ t ∈ d, t.1.length = ns.length)
    (hlead : maxTerm (fun t => !(t.2 == 0)) d = some lead)
    (R : MvPolynomial Name K) (hR : ∀ m, coeff (m + fsN ns lead.1) R = 0)
    (h : MvPolynomial Name K) (heq : R = h * denT ns d) : h = 0 := by
  by_contra hne
  have hl := maxTerm_some _ _ _ hlead
  have hl2 : lead.2 ≠ 0 := by simpa using hl.2
  have hsupp : h.support.toList ≠ [] := by
    intro h0
    rw [Finset.toList_eq_nil] at h0
    exact hne (support_eq_empty.1 h0)
  obtain ⟨m0, hm0, hmax⟩ := exists_max_row ns h.support.toList hsupp
  rw [Finset.mem_toList] at hm0
  have hc := coeff_top_mul ns hn d lead hdn hdl hlead h m0
    (fun a ha => hmax a (Finset.mem_toList.2 ha))
  rw [← heq, hR m0] at hc
  exact mul_ne_zero (mem_support_iff.1 hm0) hl2 hc.symm

/-- (C) exact multiples: if `f = g·d` as polynomials (any `g`, possibly in further indeterminates) and `d ≠ 0`,
the long division returns remainder 0 and the quotient `g` -/
theorem divmod_exact (ns : List Name) (hn : ns.Nodup) (fuel : Nat) (f d q r : List (Expo × K))
    (g : MvPolynomial Name K)
    (hf : (f.map (·.1)).Nodup) (hfl : ∀ t ∈ f, t.1.length = ns.length)
    (hdn : (d.map (·.1)).Nodup) (hdl : ∀ t ∈ d, t.1.length = ns.length)
    (h : divmod fuel f d = some (q, r)) (hg : denT ns f = g * denT ns d) (hd0 : denT ns d ≠ 0) :
    denT ns r = 0 ∧ denT ns q = g := by
  have hex : ∃ t0 ∈ d, t0.2 ≠ 0 := by
    by_contra hno
    apply hd0
    apply denT_all_zero
    intro t ht
    by_contra hne
    exact hno ⟨t, ht, hne⟩
  obtain ⟨t0, ht0, hnz⟩ := hex
  obtain ⟨lead, hlead, -, -, hred⟩ := divmod_remainder_reduced' fuel f d q r t0 ht0 hnz h
  have hinv := (divmod_inv ns fuel f d q r hf hfl hdl h).2
  have hid := divmod_identity ns fuel f d q r hf hfl hdl h
  have heq : denT ns r = (g - denT ns q) * denT ns d := by
    rw [sub_mul, ← hg, hid]; ring
  have hll := hdl lead (maxTerm_some _ _ _ hlead).1
  have h0 := reduced_multiple_zero ns hn d lead hdn hdl hlead _
    (coeff_reduced ns hn r lead.1 hll hinv.len hred) _ heq
  refine ⟨by rw [heq, h0, zero_mul], (sub_eq_zero.1 h0).symm⟩

/-- (C), uniqueness form: any other pair `(g, s)` with `f = g·d + s` and `s` reduced (given as a term list with rows
of the right length, no non-zero term divisible by the leading row) is the computed one -/
theorem divmod_unique (ns : List Name) (hn : ns.Nodup) (fuel : Nat) (f d q r s : List (Expo × K))
    (g : MvPolynomial Name K) (lead : Expo × K)
    (hf : (f.map (·.1)).Nodup) (hfl : ∀ t ∈ f, t.1.length = ns.length)
    (hdn : (d.map (·.1)).Nodup) (hdl : ∀ t ∈ d, t.1.length = ns.length)
    (hlead : maxTerm (fun t => !(t.2 == 0)) d = some lead)
    (h : divmod fuel f d = some (q, r))
    (hsl : ∀ t ∈ s, t.1.length = ns.length)
    (hsred : ∀ t ∈ s, t.2 ≠ 0 → divides lead.1 t.1 = false)
    (hg : denT ns f = g * denT ns d + denT ns s) :
    denT ns q = g ∧ denT ns r = denT ns s := by
  have hl := maxTerm_some _ _ _ hlead
  have hll := hdl lead hl.1
  have hred := fun t ht hne => by
    have := maxTerm_none _ _ (divmod_remainder_reduced fuel f d q r lead hlead h) t ht
    have hb : (t.2 == 0) = false := by simpa using hne
    simpa [hb] using this
  have hinv := (divmod_inv ns fuel f d q r hf hfl hdl h).2
  have hid := divmod_identity ns fuel f d q r hf hfl hdl h
  have heq : denT ns r - denT ns s = (g - denT ns q) * denT ns d := by
    have : denT ns r = denT ns f - denT ns q * denT ns d := by rw [hid]; ring
    rw [this, hg]; ring
  have h0 := reduced_multiple_zero ns hn d lead hdn hdl hlead _
    (fun m => by
      rw [coeff_sub, coeff_reduced ns hn r lead.1 hll hinv.len hred,
        coeff_reduced ns hn s lead.1 hll hsl hsred, sub_zero]) _ heq
  rw [h0, zero_mul] at heq
  exact ⟨(sub_eq_zero.1 h0).symm, sub_eq_zero.1 heq⟩

/-! ### quotient and remainder store no zero coefficient; so a zero remainder is the empty term list -/

theorem addTerm_nz (ts : List (Expo × K)) (e : Expo) (c : K) (h : ∀ t ∈ ts, t.2 ≠ 0) :
    ∀ t ∈ addTerm ts e c, t.2 ≠ 0 := by
  intro t ht
  unfold addTerm at ht
  split at ht
  · simpa using (List.mem_filter.1 ht).2
  · split at ht
    · exact h t ht
    · rename_i hc
      rcases List.mem_append.1 ht with h1 | h1
      · exact h t h1
      · simp only [List.mem_singleton] at h1
        subst h1
        simpa using hc

theorem step_nz (d q f q' f' : List (Expo × K)) (hq : ∀ t ∈ q, t.2 ≠ 0) (hf : ∀ t ∈ f, t.2 ≠ 0)
    (h : step d (q, f) = some (q', f')) : (∀ t ∈ q', t.2 ≠ 0) ∧ ∀ t ∈ f', t.2 ≠ 0 := by
  unfold step at h
  split at h
  · cases h
  · split at h
    · cases h
    · simp only [Option.some.injEq, Prod.mk.injEq] at h
      obtain ⟨rfl, rfl⟩ := h
      exact ⟨addTerm_nz q _ _ hq,
        subScaled_ind (fun acc => ∀ t ∈ acc, t.2 ≠ 0) d _ _ f hf (fun acc _ _ ha => addTerm_nz acc _ _ ha)⟩

theorem divmodFuel_nz (d : List (Expo × K)) : ∀ (fuel : Nat) (q f q' r : List (Expo × K)),
    (∀ t ∈ q, t.2 ≠ 0) → (∀ t ∈ f, t.2 ≠ 0) → divmodFuel d fuel (q, f) = some (q', r) →
    (∀ t ∈ q', t.2 ≠ 0) ∧ ∀ t ∈ r, t.2 ≠ 0
  | 0, _, _, _, _, _, _, h => by simp [divmodFuel] at h
  | fuel + 1, q, f, q', r, hq, hf, h => by
    simp only [divmodFuel] at h
    split at h
    · simp only [Option.some.injEq, Prod.mk.injEq] at h
      obtain ⟨rfl, rfl⟩ := h
      exact ⟨hq, hf⟩
    · rename_i qf' hstep
      obtain ⟨q1, f1⟩ := qf'
      obtain ⟨h1, h2⟩ := step_nz d q f q1 f1 hq hf hstep
      exact divmodFuel_nz d fuel q1 f1 q' r h1 h2 h

/-- quotient and remainder never store a zero coefficient -/
theorem divmod_nz (fuel : Nat) (f d q r : List (Expo × K)) (h : divmod fuel f d = some (q, r)) :
    (∀ t ∈ q, t.2 ≠ 0) ∧ ∀ t ∈ r, t.2 ≠ 0 :=
  divmodFuel_nz d fuel [] _ q r (by simp) (fun t ht => by simpa using (List.mem_filter.1 ht).2) h

/-- (A) as term lists: a divisor whose leading row is the zero row leaves the empty remainder -/
theorem divmod_const_remainder_nil (fuel n : Nat) (f d q r : List (Expo × K)) (lead : Expo × K)
    (hlead : maxTerm (fun t => !(t.2 == 0)) d = some lead) (hl0 : lead.1 = List.replicate n 0)
    (h : divmod fuel f d = some (q, r)) : r = [] := by
  cases r with
  | nil => rfl
  | cons t ts =>
    exact absurd (divmod_const_remainder fuel n f d q (t :: ts) lead hlead hl0 h t (by simp))
      ((divmod_nz fuel f d q (t :: ts) h).2 t (by simp))

/-- (C) as term lists: an exact multiple leaves the empty remainder, and the quotient's stored coefficients are the
coefficients of `g` (every monomial of `g` is stored: `denT ns q = g`, `divmod_exact`) -/
theorem divmod_exact_terms (ns : List Name) (hn : ns.Nodup) (fuel : Nat) (f d q r : List (Expo × K))
    (g : MvPolynomial Name K)
    (hf : (f.map (·.1)).Nodup) (hfl : ∀ t ∈ f, t.1.length = ns.length)
    (hdn : (d.map (·.1)).Nodup) (hdl : ∀ t ∈ d, t.1.length = ns.length)
    (h : divmod fuel f d = some (q, r)) (hg : denT ns f = g * denT ns d) (hd0 : denT ns d ≠ 0) :
    r = [] ∧ ∀ t ∈ q, coeff (fsN ns t.1) g = t.2 ∧ t.2 ≠ 0 := by
  obtain ⟨hr0, hqg⟩ := divmod_exact ns hn fuel f d q r g hf hfl hdn hdl h hg hd0
  obtain ⟨hiq, hir⟩ := divmod_inv ns fuel f d q r hf hfl hdl h
  obtain ⟨hnq, hnr⟩ := divmod_nz fuel f d q r h
  refine ⟨?_, fun t ht => ⟨?_, hnq t ht⟩⟩
  · cases r with
    | nil => rfl
    | cons t ts =>
      have := coeff_denT_mem ns hn (t :: ts) hir.len hir.nodup t (by simp)
      rw [hr0, coeff_zero] at this
      exact absurd this.symm (hnr t (by simp))
  · rw [← hqg]
    exact coeff_denT_mem ns hn q hiq.len hiq.nodup t ht

/-- non-vacuity: (q0² − q1²) / (q0 − q1) and (2·q0 + 4) / 2 are exact -/
example : (divmod 10 [([2, 0], (1 : Rat)), ([0, 2], -1)] [([1, 0], (1 : Rat)), ([0, 1], -1)]).map (·.2) = some [] := by
  decide +kernel
example : divmod 10 [([1], (2 : Rat)), ([0], 4)] [([0], (2 : Rat))] = some ([([1], 1), ([0], 2)], []) := by
  decide +kernel
end Np.Div

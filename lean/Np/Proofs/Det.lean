import Np.Model.Det
import Mathlib.LinearAlgebra.Matrix.Determinant.Basic
open Matrix
namespace Np.Det
variable {R : Type} [CommRing R]

theorem skip_eq_succAbove {n : Nat} (j : Fin (n + 1)) (k : Fin n) : skip j k = j.succAbove k := by
  simp only [skip, Fin.succAbove, Fin.lt_def, Fin.coe_castSucc]
  split <;> rfl

theorem sign_eq (j : Nat) : (sign j : R) = (-1) ^ j := by
  unfold sign
  rcases Nat.even_or_odd j with h | h
  · have : j % 2 = 0 := Nat.even_iff.1 h
    simp [this, h.neg_one_pow]
  · have : j % 2 = 1 := Nat.odd_iff.1 h
    simp [this, h.neg_one_pow]

theorem foldr_finRange_sum {n : Nat} (f : Fin n → R) :
    (List.finRange n).foldr (fun j acc => f j + acc) 0 = ∑ j : Fin n, f j := by
  rw [← List.sum_ofFn, List.ofFn_eq_map, List.sum_eq_foldr]
  induction (List.finRange n) with
  | nil => rfl
  | cons x xs ih => simp [ih]

/-- C10: the repaired Laplace expansion is the determinant, for every size -/
theorem detStd_eq_det : ∀ (n : Nat) (A : Fin n → Fin n → R), detStd n A = Matrix.det (Matrix.of A)
  | 0, A => by simp [detStd]
  | n + 1, A => by
    rw [detStd, foldr_finRange_sum, Matrix.det_succ_row_zero]
    apply Finset.sum_congr rfl
    intro j _
    rw [detStd_eq_det n, sign_eq]
    congr 1

/-- D8 as theorems about the shipped recursion: wrong for 1×1 and for a 4×4 permutation matrix -/
example : detOld 1 (fun _ _ => (5 : Int)) ≠ Matrix.det (Matrix.of fun (_ _ : Fin 1) => (5 : Int)) := by
  simp [detOld]

end Np.Det

import Np.Proofs.DerivFull
import Np.Proofs.MapCoef
import Np.Proofs.Gather
import Np.Proofs.CallArr
import Np.Model.Grad
/-! C06 on polynomial ARRAYS: `gradient` and `hessianOf` are the formal partial derivatives, element by element.
1. `alignAll` (any number of operands) keeps denotations and gives one common layout;
2. `stackPolys` puts element `i` of block `b` at flat position `b * n + i`;
3. `gradient`: position `j * n + i` is `pderiv x_j` of element `i`;
4. `hessianOf`: position `a * (m * n) + (j * n + i)` is `pderiv x_a (pderiv x_j ·)` of element `i`, rows and columns
   both in the order of `p.names` (no assumption that the names are stored in index order). -/
open MvPolynomial
namespace Np
set_option linter.unusedSectionVars false

/-! ### 1. `alignAll` -/
section AlignAll
variable {S : Type} [CommSemiring S]

theorem commonNamesAll_nodup (ps : List (Poly S)) : (commonNamesAll ps).Nodup :=
  nodup_of_sortedLt natLt_strictTotal _ (sortedLt_sortDedup natLt_strictTotal _)

theorem mem_commonNamesAll (ps : List (Poly S)) (x : Name) :
    x ∈ commonNamesAll ps ↔ ∃ p ∈ ps, x ∈ p.names := by
  simp [commonNamesAll, mem_sortDedup natLt_strictTotal]

/-- the common exponent rows of `alignAll` -/
def commonExposAll (ps : List (Poly S)) : List Expo :=
  sortDedup expoLt ((ps.map (alignIndet (commonNamesAll ps))).flatMap (·.expos))

theorem commonExposAll_nodup (ps : List (Poly S)) : (commonExposAll ps).Nodup :=
  nodup_of_sortedLt expoLt_strictTotal _ (sortedLt_sortDedup expoLt_strictTotal _)

theorem mem_commonExposAll (ps : List (Poly S)) (e : Expo) :
    e ∈ commonExposAll ps ↔ ∃ p ∈ ps, e ∈ (alignIndet (commonNamesAll ps) p).expos := by
  simp [commonExposAll, mem_sortDedup expoLt_strictTotal]

theorem alignAll_eq (ps : List (Poly S)) :
    alignAll ps = ps.map fun p => alignExpo (commonExposAll ps) (alignIndet (commonNamesAll ps) p) := by
  simp [alignAll, commonExposAll, List.map_map, Function.comp_def]

theorem alignAll_length (ps : List (Poly S)) : (alignAll ps).length = ps.length := by
  simp [alignAll_eq]

theorem alignAll_getElem (ps : List (Poly S)) (b : Nat) (hb : b < ps.length) :
    (alignAll ps)[b]'(by rw [alignAll_length]; exact hb) =
      alignExpo (commonExposAll ps) (alignIndet (commonNamesAll ps) ps[b]) := by
  simp [alignAll_eq]

theorem mem_alignAll (ps : List (Poly S)) (q : Poly S) (hq : q ∈ alignAll ps) :
    ∃ p ∈ ps, q = alignExpo (commonExposAll ps) (alignIndet (commonNamesAll ps) p) := by
  rw [alignAll_eq, List.mem_map] at hq
  obtain ⟨p, hp, rfl⟩ := hq
  exact ⟨p, hp, rfl⟩

/-- every aligned operand carries the common names … -/
theorem alignAll_names (ps : List (Poly S)) (q : Poly S) (hq : q ∈ alignAll ps) :
    q.names = commonNamesAll ps := by
  obtain ⟨p, _, rfl⟩ := mem_alignAll ps q hq; rfl

/-- … and the common exponent rows, in the same order -/
theorem alignAll_expos (ps : List (Poly S)) (q : Poly S) (hq : q ∈ alignAll ps) :
    q.expos = commonExposAll ps := by
  obtain ⟨p, _, rfl⟩ := mem_alignAll ps q hq; exact expos_alignExpo _ _

theorem WF_alignIndet_common (ps : List (Poly S)) (hw : ∀ p ∈ ps, WF p) (p : Poly S) (hp : p ∈ ps) :
    WF (alignIndet (commonNamesAll ps) p) :=
  WF_alignIndet _ p (hw p hp) (commonNamesAll_nodup ps)
    (fun x hx => (mem_commonNamesAll ps x).2 ⟨p, hp, hx⟩)

theorem alignAll_WF (ps : List (Poly S)) (hw : ∀ p ∈ ps, WF p) (q : Poly S) (hq : q ∈ alignAll ps) :
    WF q := by
  refine ⟨?_, ?_, ?_⟩
  · rw [alignAll_names ps q hq]; exact commonNamesAll_nodup ps
  · rw [alignAll_expos ps q hq]; exact commonExposAll_nodup ps
  · intro e he
    rw [alignAll_expos ps q hq, mem_commonExposAll] at he
    obtain ⟨p, hp, hep⟩ := he
    rw [alignAll_names ps q hq]
    exact (WF_alignIndet_common ps hw p hp).row_len e hep

theorem den_alignAll_of_mem (ps : List (Poly S)) (hw : ∀ p ∈ ps, WF p) (p : Poly S) (hp : p ∈ ps) :
    den (alignExpo (commonExposAll ps) (alignIndet (commonNamesAll ps) p)) = den p := by
  have hsub : ∀ x ∈ p.names, x ∈ commonNamesAll ps := fun x hx => (mem_commonNamesAll ps x).2 ⟨p, hp, hx⟩
  rw [den_alignExpo _ _ (WF_alignIndet_common ps hw p hp).expos_nodup (commonExposAll_nodup ps)
    (fun e he => (mem_commonExposAll ps e).2 ⟨p, hp, he⟩)]
  exact den_alignIndet _ p (hw p hp).names_nodup (commonNamesAll_nodup ps)
    (fun t _ x hx => expoAt_not_mem p.names t.1 x (fun h => hx (hsub x h)))

/-- aligning any number of operands changes no denotation -/
theorem den_alignAll (ps : List (Poly S)) (hw : ∀ p ∈ ps, WF p) (b : Nat) (hb : b < ps.length) :
    den ((alignAll ps)[b]'(by rw [alignAll_length]; exact hb)) = den ps[b] := by
  rw [alignAll_getElem ps b hb]
  exact den_alignAll_of_mem ps hw ps[b] (List.getElem_mem hb)
end AlignAll

/-! ### 2. `stackPolys` -/
section Stack
variable {R : Type} [CommSemiring R] {n : Nat}

theorem get_stackCols (K : Nat) (cols : List (Vec R n)) (b : Nat) (i : Fin n) (k : Fin (K * n))
    (hk : k.val = b * n + i.val) : (stackCols K cols).get k = (cols.getD b 0).get i := by
  have hd : k.val / n = b := by rw [hk]; exact flat_div i.isLt
  have hm : k.val % n = i.val := by rw [hk]; exact flat_mod i.isLt
  simp only [stackCols, Vec.get_ofFn]
  rw [dif_pos (by rw [hm]; exact i.isLt), hd]
  congr 1
  exact Fin.ext hm

theorem getD_fst {S : Type} (ts : List (Expo × S)) (r : Nat) (d : S) :
    (ts.getD r ([], d)).1 = (ts.map (·.1)).getD r [] := by
  simp only [List.getD_eq_getElem?_getD, List.getElem?_map]
  cases ts[r]? <;> rfl

theorem stackPolys_eq (ps : List (Poly (Vec R n))) (p0 : Poly (Vec R n)) (rest : List (Poly (Vec R n)))
    (h : alignAll ps = p0 :: rest) :
    stackPolys ps = { names := p0.names, terms := (List.range p0.terms.length).map fun r =>
      ((p0.terms.getD r ([], 0)).1,
        stackCols ps.length ((alignAll ps).map fun p => (p.terms.getD r ([], 0)).2)) } := by
  simp only [stackPolys, h]

theorem stackPolys_nil : stackPolys ([] : List (Poly (Vec R n))) = { names := [], terms := [] } := rfl

theorem alignAll_head (ps : List (Poly (Vec R n))) (hne : ps ≠ []) :
    ∃ p0 rest, alignAll ps = p0 :: rest := by
  cases h : alignAll ps with
  | nil =>
    have := alignAll_length ps
    rw [h] at this
    exact absurd (List.length_eq_zero_iff.1 this.symm) hne
  | cons p0 rest => exact ⟨p0, rest, rfl⟩

theorem stackPolys_names (ps : List (Poly (Vec R n))) (hne : ps ≠ []) :
    (stackPolys ps).names = commonNamesAll ps := by
  obtain ⟨p0, rest, h⟩ := alignAll_head ps hne
  rw [stackPolys_eq ps p0 rest h]
  exact alignAll_names ps p0 (by rw [h]; simp)

theorem stackPolys_expos (ps : List (Poly (Vec R n))) (hne : ps ≠ []) :
    (stackPolys ps).expos = commonExposAll ps := by
  obtain ⟨p0, rest, h⟩ := alignAll_head ps hne
  rw [stackPolys_eq ps p0 rest h, ← alignAll_expos ps p0 (by rw [h]; simp)]
  simp only [Poly.expos, List.map_map]
  apply List.ext_getElem (by simp)
  intro r h1 h2
  have hr : r < p0.terms.length := by simpa using h1
  simp [List.getD_eq_getElem?_getD, List.getElem?_eq_getElem hr]

/-- joining well-formed arrays gives a well-formed array (also for the empty list) -/
theorem WF_stackPolys (ps : List (Poly (Vec R n))) (hw : ∀ p ∈ ps, WF p) : WF (stackPolys ps) := by
  by_cases hne : ps = []
  · subst hne
    rw [stackPolys_nil]
    exact ⟨by simp, by simp [Poly.expos], by simp [Poly.expos]⟩
  · obtain ⟨p0, rest, h⟩ := alignAll_head ps hne
    have w0 := alignAll_WF ps hw p0 (by rw [h]; simp)
    have hn := stackPolys_names ps hne
    have he := stackPolys_expos ps hne
    rw [← alignAll_names ps p0 (by rw [h]; simp)] at hn
    rw [← alignAll_expos ps p0 (by rw [h]; simp)] at he
    exact ⟨hn ▸ w0.names_nodup, he ▸ w0.expos_nodup, fun e hm => by
      rw [hn]; exact w0.row_len e (he ▸ hm)⟩

/-- element `(b, i)` of the join is element `i` of the aligned block `b` -/
theorem stackPolys_denAt_aligned (ps : List (Poly (Vec R n))) (b : Nat) (hb : b < ps.length)
    (i : Fin n) (k : Fin (ps.length * n)) (hk : k.val = b * n + i.val) :
    denAt (stackPolys ps) k = denAt ((alignAll ps)[b]'(by rw [alignAll_length]; exact hb)) i := by
  have hne : ps ≠ [] := by rintro rfl; simp at hb
  have hbl : b < (alignAll ps).length := by rw [alignAll_length]; exact hb
  obtain ⟨p0, rest, h⟩ := alignAll_head ps hne
  have hq : (alignAll ps)[b] ∈ alignAll ps := List.getElem_mem hbl
  have h0 : p0 ∈ alignAll ps := by rw [h]; simp
  have hnames : (alignAll ps)[b].names = p0.names := by
    rw [alignAll_names ps _ hq, alignAll_names ps _ h0]
  have hexpos : (alignAll ps)[b].expos = p0.expos := by
    rw [alignAll_expos ps _ hq, alignAll_expos ps _ h0]
  have hlen : (alignAll ps)[b].terms.length = p0.terms.length := by
    have := congrArg List.length hexpos
    simpa [Poly.expos] using this
  rw [stackPolys_eq ps p0 rest h]
  simp only [denAt, den, mapCoef, List.map_map, hnames]
  congr 1
  apply List.ext_getElem (by simp [hlen])
  intro r h1 h2
  have hr : r < p0.terms.length := by simpa using h1
  have hr' : r < (alignAll ps)[b].terms.length := by rw [hlen]; exact hr
  simp only [List.getElem_map, List.getElem_range, Function.comp_apply, Vec.evalAt_apply]
  rw [get_stackCols ps.length _ b i k hk]
  have e1 : (p0.terms.getD r ([], 0)).1 = ((alignAll ps)[b].terms[r]).1 := by
    rw [getD_fst]
    show p0.expos.getD r [] = _
    rw [← hexpos]
    simp [Poly.expos, List.getD_eq_getElem?_getD, List.getElem?_eq_getElem hr']
  have e2 : ((alignAll ps).map fun p => (p.terms.getD r ([], 0)).2).getD b 0 = ((alignAll ps)[b].terms[r]).2 := by
    simp [List.getD_eq_getElem?_getD, List.getElem?_eq_getElem hbl, List.getElem?_eq_getElem hr']
  rw [e1, e2]

/-- C06/C09 (join): element `b * n + i` of `stackPolys ps` is element `i` of `ps[b]` -/
theorem stackPolys_elem (ps : List (Poly (Vec R n))) (hw : ∀ p ∈ ps, WF p) (b : Nat) (hb : b < ps.length)
    (i : Fin n) (k : Fin (ps.length * n)) (hk : k.val = b * n + i.val) :
    denAt (stackPolys ps) k = denAt ps[b] i := by
  rw [stackPolys_denAt_aligned ps b hb i k hk]
  simp only [denAt, den_mapCoef]
  rw [den_alignAll ps hw b hb]

/-- coefficient-wise: the coefficient of `μ` at position `b * n + i` is entry `i` of the coefficient column of
`μ` in block `b` -/
theorem stackPolys_coeff (ps : List (Poly (Vec R n))) (hw : ∀ p ∈ ps, WF p) (b : Nat) (hb : b < ps.length)
    (i : Fin n) (k : Fin (ps.length * n)) (hk : k.val = b * n + i.val) (μ : Name →₀ ℕ) :
    (coeff μ (den (stackPolys ps))).get k = (coeff μ (den ps[b])).get i := by
  rw [← coeff_denAt, ← coeff_denAt, stackPolys_elem ps hw b hb i k hk]
end Stack

/-! ### 3. `gradient` -/
section Gradient
variable {R : Type} [CommSemiring R] [BEq R] [LawfulBEq R] {n : Nat}

/-- the partial derivatives that `gradient` joins (one per name, in the order of the names) -/
abbrev partials (rn : Bool) (p : Poly (Vec R n)) : List (Poly (Vec R n)) :=
  (List.range p.names.length).map fun j => derivative rn j p

/-- cast lemma for the size in the type of `gradient` -/
theorem partials_length (rn : Bool) (p : Poly (Vec R n)) : (partials rn p).length = p.names.length := by
  simp [partials]

theorem partials_getElem (rn : Bool) (p : Poly (Vec R n)) (j : Nat) (hj : j < p.names.length) :
    (partials rn p)[j]'(by rw [partials_length]; exact hj) = derivative rn j p := by
  simp [partials]

theorem mem_partials (rn : Bool) (p : Poly (Vec R n)) (q : Poly (Vec R n)) (hq : q ∈ partials rn p) :
    ∃ j, j < p.names.length ∧ q = derivative rn j p := by
  simp only [partials, List.mem_map, List.mem_range] at hq
  obtain ⟨j, hj, rfl⟩ := hq
  exact ⟨j, hj, rfl⟩

theorem partials_WF (rn : Bool) (p : Poly (Vec R n)) (hw : WF p) (hb : Bdd p) : ∀ q ∈ partials rn p, WF q := by
  intro q hq
  obtain ⟨j, _, rfl⟩ := mem_partials rn p q hq
  exact (derivative_WF rn j p hw hb).1

theorem gradient_eq (rc rn : Bool) (p : Poly (Vec R n)) :
    gradient rc rn p = clean rc rn (stackPolys (partials rn p)) := rfl

/-- the gradient of a well-formed array is well-formed -/
theorem WF_gradient (rc rn : Bool) (p : Poly (Vec R n)) (hw : WF p) (hb : Bdd p) : WF (gradient rc rn p) :=
  WF_clean rc rn _ (WF_stackPolys _ (partials_WF rn p hw hb))

/-- C06 (gradient): flat position `j * n + i` of `gradient p` is `∂/∂x_j` of element `i` of `p` -/
theorem gradient_elem (rc rn : Bool) (p : Poly (Vec R n)) (hw : WF p) (hb : Bdd p) (j : Nat)
    (hj : j < p.names.length) (i : Fin n) (k : Fin ((partials rn p).length * n))
    (hk : k.val = j * n + i.val) :
    denAt (gradient rc rn p) k = pderiv (p.names[j]) (denAt p i) := by
  have hws := partials_WF rn p hw hb
  have hjl : j < (partials rn p).length := by rw [partials_length]; exact hj
  rw [gradient_eq, denAt_clean rc rn _ (WF_stackPolys _ hws) k,
    stackPolys_elem (partials rn p) hws j hjl i k hk, partials_getElem rn p j hj]
  simp only [denAt, den_mapCoef, derivative_den rn j p hw hb hj, pderiv_map]

theorem gradient_index_lt (rn : Bool) (p : Poly (Vec R n)) (j : Nat) (hj : j < p.names.length) (i : Fin n) :
    j * n + i.val < (partials rn p).length * n := by
  rw [partials_length]
  calc j * n + i.val < j * n + n := by omega
    _ = (j + 1) * n := by rw [Nat.add_mul, Nat.one_mul]
    _ ≤ p.names.length * n := Nat.mul_le_mul_right n hj

/-- the same with the position built from `(j, i)` -/
theorem gradient_elem' (rc rn : Bool) (p : Poly (Vec R n)) (hw : WF p) (hb : Bdd p) (j : Nat)
    (hj : j < p.names.length) (i : Fin n) :
    denAt (gradient rc rn p) ⟨j * n + i.val, gradient_index_lt rn p j hj i⟩ =
      pderiv (p.names[j]) (denAt p i) :=
  gradient_elem rc rn p hw hb j hj i _ rfl

/-- every position of the gradient is of the form `(j, i)` -/
theorem gradient_index_split (rn : Bool) (p : Poly (Vec R n)) (k : Fin ((partials rn p).length * n)) :
    ∃ j, ∃ _ : j < p.names.length, ∃ i : Fin n, k.val = j * n + i.val := by
  have hk : k.val < p.names.length * n := (partials_length rn p) ▸ k.isLt
  have hn : 0 < n := by
    rcases Nat.eq_zero_or_pos n with h | h
    · subst h; simp at hk
    · exact h
  refine ⟨k.val / n, (Nat.div_lt_iff_lt_mul hn).2 hk, ⟨k.val % n, Nat.mod_lt _ hn⟩, ?_⟩
  show k.val = k.val / n * n + k.val % n
  have := Nat.div_add_mod k.val n
  rw [Nat.mul_comm] at this
  exact this.symm
end Gradient

/-! ### 4. `hessianOf` -/
section Hessian
variable {R : Type} [CommSemiring R] [BEq R] [LawfulBEq R] {n : Nat}

/-- second partial derivatives commute (not in Mathlib's `PDeriv` file) -/
theorem pderiv_pderiv_comm {A σ : Type} [CommSemiring A] (a b : σ) (f : MvPolynomial σ A) :
    pderiv a (pderiv b f) = pderiv b (pderiv a f) := by
  classical
  induction f using MvPolynomial.induction_on' with
  | monomial s c =>
    by_cases h : a = b
    · subst h; rfl
    · have h' : ¬ b = a := fun hh => h hh.symm
      simp only [pderiv_monomial, Finsupp.tsub_apply, Finsupp.single_apply, h, h', if_false, tsub_zero]
      rw [tsub_right_comm]
      congr 1
      ring
  | add p q hp hq => simp only [map_add, hp, hq]

theorem Bdd_stackPolys (ps : List (Poly (Vec R n))) (hb : ∀ p ∈ ps, Bdd p) : Bdd (stackPolys ps) := by
  by_cases hne : ps = []
  · subst hne; intro e he; simp [stackPolys_nil, Poly.expos] at he
  · intro e he
    rw [stackPolys_expos ps hne, mem_commonExposAll] at he
    obtain ⟨p, hp, hep⟩ := he
    exact Bdd_alignIndet _ p (hb p hp) e hep

theorem Bdd_gradient (rc rn : Bool) (p : Poly (Vec R n)) (hb : Bdd p) : Bdd (gradient rc rn p) := by
  apply Bdd_clean
  apply Bdd_stackPolys
  intro q hq
  obtain ⟨j, _, rfl⟩ := mem_partials rn p q hq
  exact derivative_Bdd rn j p hb

theorem derivative_names_subset (rn : Bool) (j : Nat) (p : Poly (Vec R n)) :
    ∀ x ∈ (derivative rn j p).names, x ∈ p.names := by
  intro x hx
  rw [derivative_eq] at hx
  rcases (mem_commonNames _ _ x).1 hx with h | h
  · exact names_clean_subset false rn { names := p.names, terms := derivTerms j p.terms } x h
  · exact h

theorem stackPolys_names_subset (ps : List (Poly (Vec R n))) :
    ∀ x ∈ (stackPolys ps).names, ∃ q ∈ ps, x ∈ q.names := by
  intro x hx
  by_cases hne : ps = []
  · subst hne; rw [stackPolys_nil] at hx; simp at hx
  · rwa [stackPolys_names _ hne, mem_commonNamesAll] at hx

/-- the gradient introduces no name -/
theorem gradient_names_subset (rc rn : Bool) (p : Poly (Vec R n)) :
    ∀ x ∈ (gradient rc rn p).names, x ∈ p.names := by
  intro x hx
  have hx' := names_clean_subset rc rn (stackPolys (partials rn p)) x hx
  obtain ⟨q, hq, hxq⟩ := stackPolys_names_subset _ x hx'
  obtain ⟨j, _, rfl⟩ := mem_partials rn p q hq
  exact derivative_names_subset rn j p x hxq

/-- the gradient brought back to (at least) the names of the input: what `hessianOf` differentiates again -/
abbrev hessAligned (rc rn : Bool) (p : Poly (Vec R n)) : Poly (Vec R ((partials rn p).length * n)) :=
  alignIndet (sortDedup natLt ((gradient rc rn p).names ++ p.names)) (gradient rc rn p)

/-- the rows `hessianOf` joins: one derivative of the re-aligned gradient per name of the INPUT, in the order of
`p.names` (the position of the name in the re-aligned gradient is looked up) -/
abbrev hessRows (rc rn : Bool) (p : Poly (Vec R n)) : List (Poly (Vec R ((partials rn p).length * n))) :=
  p.names.map fun x => derivative rn ((hessAligned rc rn p).names.idxOf x) (hessAligned rc rn p)

theorem hessianOf_eq (rc rn : Bool) (p : Poly (Vec R n)) :
    hessianOf rc rn p = clean rc rn (stackPolys (hessRows rc rn p)) := rfl

theorem hessAligned_names_nodup (rc rn : Bool) (p : Poly (Vec R n)) : (hessAligned rc rn p).names.Nodup :=
  nodup_of_sortedLt natLt_strictTotal _ (sortedLt_sortDedup natLt_strictTotal _)

theorem WF_hessAligned (rc rn : Bool) (p : Poly (Vec R n)) (hw : WF p) (hb : Bdd p) :
    WF (hessAligned rc rn p) :=
  WF_alignIndet _ _ (WF_gradient rc rn p hw hb) (hessAligned_names_nodup rc rn p)
    (fun x hx => (mem_sortDedup natLt_strictTotal x _).2 (List.mem_append.2 (Or.inl hx)))

theorem Bdd_hessAligned (rc rn : Bool) (p : Poly (Vec R n)) (hb : Bdd p) : Bdd (hessAligned rc rn p) :=
  Bdd_alignIndet _ _ (Bdd_gradient rc rn p hb)

/-- re-aligning the gradient changes no element -/
theorem den_hessAligned (rc rn : Bool) (p : Poly (Vec R n)) (hw : WF p) (hb : Bdd p) :
    den (hessAligned rc rn p) = den (gradient rc rn p) :=
  den_alignIndet _ _ (WF_gradient rc rn p hw hb).names_nodup (hessAligned_names_nodup rc rn p)
    (fun t _ x hx => expoAt_not_mem _ t.1 x (fun h => hx
      ((mem_sortDedup natLt_strictTotal x _).2 (List.mem_append.2 (Or.inl h)))))

/-- every name of the input is a name of the re-aligned gradient (this is the repair) … -/
theorem hessAligned_names_mem (rc rn : Bool) (p : Poly (Vec R n)) (x : Name) :
    x ∈ (hessAligned rc rn p).names ↔ x ∈ p.names := by
  show x ∈ sortDedup natLt _ ↔ _
  rw [mem_sortDedup natLt_strictTotal, List.mem_append]
  exact ⟨fun h => h.elim (gradient_names_subset rc rn p x) id, Or.inr⟩

/-- … and for sorted input names they are exactly the names of the input, in the same order -/
theorem hessAligned_names (rc rn : Bool) (p : Poly (Vec R n)) (hs : p.names.Pairwise (· < ·)) :
    (hessAligned rc rn p).names = p.names := by
  show sortDedup natLt (_ ++ p.names) = p.names
  apply sortDedup_append_of_subset natLt_strictTotal
  · exact hs.imp (fun {a b} hab => by simpa [natLt] using hab)
  · exact gradient_names_subset rc rn p

/-- number of rows of the Hessian (outer axis): one per name of the input, whatever their order -/
theorem hessian_rows (rc rn : Bool) (p : Poly (Vec R n)) : (hessRows rc rn p).length = p.names.length := by
  simp [hessRows]

theorem hessRows_getElem (rc rn : Bool) (p : Poly (Vec R n)) (a : Nat) (ha : a < p.names.length) :
    (hessRows rc rn p)[a]'(by rw [hessian_rows]; exact ha) =
      derivative rn ((hessAligned rc rn p).names.idxOf p.names[a]) (hessAligned rc rn p) := by
  simp [hessRows]

theorem hessRows_WF (rc rn : Bool) (p : Poly (Vec R n)) (hw : WF p) (hb : Bdd p) :
    ∀ q ∈ hessRows rc rn p, WF q := by
  intro q hq
  simp only [hessRows, List.mem_map] at hq
  obtain ⟨x, _, rfl⟩ := hq
  exact (derivative_WF rn _ _ (WF_hessAligned rc rn p hw hb) (Bdd_hessAligned rc rn p hb)).1

/-- the position looked up for the `a`-th name of the input is a position of the re-aligned gradient … -/
theorem hessIdx_lt (rc rn : Bool) (p : Poly (Vec R n)) (a : Nat) (ha : a < p.names.length) :
    (hessAligned rc rn p).names.idxOf p.names[a] < (hessAligned rc rn p).names.length :=
  List.idxOf_lt_length_of_mem ((hessAligned_names_mem rc rn p _).2 (List.getElem_mem ha))

/-- … and it holds that very name -/
theorem hessIdx_name (rc rn : Bool) (p : Poly (Vec R n)) (a : Nat) (ha : a < p.names.length) :
    (hessAligned rc rn p).names[(hessAligned rc rn p).names.idxOf p.names[a]]'(hessIdx_lt rc rn p a ha) =
      p.names[a] :=
  List.getElem_idxOf _

/-- the Hessian of a well-formed array is well-formed -/
theorem WF_hessianOf (rc rn : Bool) (p : Poly (Vec R n)) (hw : WF p) (hb : Bdd p) : WF (hessianOf rc rn p) :=
  WF_clean rc rn _ (WF_stackPolys _ (hessRows_WF rc rn p hw hb))

/-- outer index: position `a * N + k` of the Hessian is `∂/∂x_a` of position `k` of the gradient
(`x` = names of the INPUT in their own order, `N` = size of the gradient) -/
theorem hessian_elem_outer (rc rn : Bool) (p : Poly (Vec R n)) (hw : WF p) (hb : Bdd p) (a : Nat)
    (ha : a < p.names.length) (k : Fin ((partials rn p).length * n))
    (k' : Fin ((hessRows rc rn p).length * ((partials rn p).length * n)))
    (hk' : k'.val = a * ((partials rn p).length * n) + k.val) :
    denAt (hessianOf rc rn p) k' = pderiv (p.names[a]) (denAt (gradient rc rn p) k) := by
  have hws := hessRows_WF rc rn p hw hb
  have hal : a < (hessRows rc rn p).length := by rw [hessian_rows]; exact ha
  rw [hessianOf_eq, denAt_clean rc rn _ (WF_stackPolys _ hws) k',
    stackPolys_elem (hessRows rc rn p) hws a hal k k' hk', hessRows_getElem rc rn p a ha]
  simp only [denAt, den_mapCoef, derivative_den rn _ _ (WF_hessAligned rc rn p hw hb)
    (Bdd_hessAligned rc rn p hb) (hessIdx_lt rc rn p a ha), hessIdx_name rc rn p a ha,
    den_hessAligned rc rn p hw hb, pderiv_map]

/-- C06 (Hessian): position `a * (m * n) + (j * n + i)` is `∂/∂x_a ∂/∂x_j` of element `i` of `p`, both indices in the
order of `p.names`, for every well-formed `p` (names need not be stored in index order), whatever the retain flags -/
theorem hessian_elem (rc rn : Bool) (p : Poly (Vec R n)) (hw : WF p) (hb : Bdd p) (a : Nat)
    (ha : a < p.names.length) (j : Nat) (hj : j < p.names.length) (i : Fin n)
    (k' : Fin ((hessRows rc rn p).length * ((partials rn p).length * n)))
    (hk' : k'.val = a * (p.names.length * n) + (j * n + i.val)) :
    denAt (hessianOf rc rn p) k' = pderiv (p.names[a]) (pderiv (p.names[j]) (denAt p i)) := by
  rw [hessian_elem_outer rc rn p hw hb a ha ⟨j * n + i.val, gradient_index_lt rn p j hj i⟩ k'
      (by simp only [hk', partials_length]),
    gradient_elem' rc rn p hw hb j hj i]

/-- the Hessian is symmetric: entries `(a, j)` and `(j, a)` denote the same polynomial -/
theorem hessian_symm (rc rn : Bool) (p : Poly (Vec R n)) (hw : WF p) (hb : Bdd p)
    (a : Nat) (ha : a < p.names.length) (j : Nat) (hj : j < p.names.length)
    (i : Fin n) (k1 k2 : Fin ((hessRows rc rn p).length * ((partials rn p).length * n)))
    (h1 : k1.val = a * (p.names.length * n) + (j * n + i.val))
    (h2 : k2.val = j * (p.names.length * n) + (a * n + i.val)) :
    denAt (hessianOf rc rn p) k1 = denAt (hessianOf rc rn p) k2 := by
  rw [hessian_elem rc rn p hw hb a ha j hj i k1 h1,
    hessian_elem rc rn p hw hb j hj a ha i k2 h2, pderiv_pderiv_comm]
end Hessian
end Np

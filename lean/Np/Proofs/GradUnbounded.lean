import Np.Proofs.Expr3
import Np.Proofs.GradArr
import Np.Proofs.DerivFull
/-! C06 without the uint32 bound `Bdd` ("every exponent < 2^32"): successive derivatives, `gradient` and `hessianOf`
are the formal partial derivatives for exponents of ANY size.

`Np/Proofs/Expr3.lean` (section `DerivNoBound`) proves `derivative_WF'` / `derivative_den'` without the bound: the rows
whose uint32 decrement wraps are exactly the rows the cleaning drops.  Here the remaining statements of
`Np/Props/C06.lean` are re-proved on top of these, with the same conclusions and no `Bdd` hypothesis:
* `Np.derivativeMany_WF'`, `Np.derivativeMany_den'`   (twin of `derivativeMany_WF` / `derivativeMany_den`);
* `Np.derivative_WF''` (well-formedness for every position `j`, in range or not);
* `Np.WF_gradient'`, `Np.gradient_elem_unb` (the name `gradient_elem'` is taken in GradArr), `Np.gradient_elem_pos'`;
* `Np.WF_hessianOf'`, `Np.hessian_elem_outer'`, `Np.hessian_elem'`, `Np.hessian_symm'`;
* the property statements `Np.Props.C06.derivative_many'`, `gradient_is_partials'`, `hessian_is_second_partials'`,
  `hessian_symmetric'`, and `derivative_wellformed'` (well-formedness for EVERY position `j`, in range or not).

What still needs the bound: nothing in the conclusions above.  Only the statements whose CONCLUSION is `Bdd`
(`derivative_Bdd`, `Bdd_gradient`, `Bdd_hessAligned`, the `Bdd` half of `derivative_wellformed`) keep it, as a
hypothesis they merely propagate; and `WF_derivTerms` (the RAW rows before cleaning are duplicate-free) is false
without it — rows `[0]` and `[2^32]` both decrement to `[4294967295]` — which is why the unbounded proofs go through
`posRows` (the rows that survive the cleaning) instead. -/
open MvPolynomial
namespace Np
set_option linter.unusedSectionVars false

/-! ### 1. `derivative` / `derivativeMany` -/
section Deriv
variable {S : Type} [CommSemiring S] [BEq S] [LawfulBEq S]

/-- a position outside the row leaves the exponents alone -/
theorem decAt_of_le (j : Nat) (e : Expo) (h : e.length ≤ j) : decAt j e = e := by
  unfold decAt
  exact List.modify_eq_self h

/-- for a position `j` that is no position of `p`, the raw derivative rows keep the exponent rows of `p` -/
theorem WF_derivTerms_out (p : Poly S) (hw : WF p) (j : Nat) (hj : p.names.length ≤ j) :
    WF ({ names := p.names, terms := derivTerms j p.terms } : Poly S) := by
  have hex : ({ names := p.names, terms := derivTerms j p.terms } : Poly S).expos = p.expos := by
    show (derivTerms j p.terms).map (·.1) = p.terms.map (·.1)
    rw [expos_derivTerms, List.map_map]
    apply List.map_congr_left
    intro t ht
    exact decAt_of_le j t.1 (by rw [hw.row_len t.1 (List.mem_map_of_mem ht)]; exact hj)
  exact ⟨hw.names_nodup, hex ▸ hw.expos_nodup, fun e he => hw.row_len e (hex ▸ he)⟩

/-- C03 for `derivative`, exponents of any size, EVERY position `j` (in range: `derivative_WF'`) -/
theorem derivative_WF'' (rn : Bool) (j : Nat) (p : Poly S) (hw : WF p) : WF (derivative rn j p) := by
  by_cases hj : j < p.names.length
  · exact derivative_WF' rn j p hw hj
  · rw [derivative_eq]
    exact WF_alignPair_fst _ _ (WF_clean false rn _ (WF_derivTerms_out p hw j (Nat.le_of_not_lt hj))) hw

/-- successive derivatives keep the invariant and the (sorted) names — no bound on the exponents -/
theorem derivativeMany_WF' (rn : Bool) (js : List Nat) (p : Poly S) (hw : WF p)
    (hs : p.names.Pairwise (· < ·)) :
    WF (derivativeMany rn js p) ∧ (derivativeMany rn js p).names = p.names := by
  induction js generalizing p with
  | nil => exact ⟨hw, rfl⟩
  | cons j js ih =>
    have hn := derivative_names rn j p hs
    have := ih (derivative rn j p) (derivative_WF'' rn j p hw) (hn ▸ hs)
    rw [hn] at this
    exact this

/-- C06: differentiating successively with respect to the positions `js` denotes the iterated `pderiv`, for
exponents of any size -/
theorem derivativeMany_den' (rn : Bool) (js : List Nat) (p : Poly S) (hw : WF p)
    (hs : p.names.Pairwise (· < ·)) (hj : ∀ j ∈ js, j < p.names.length) :
    den (derivativeMany rn js p) = js.foldl (fun acc j => pderiv (p.names[j]!) acc) (den p) := by
  induction js generalizing p with
  | nil => rfl
  | cons j js ih =>
    have hj0 := hj j (by simp)
    have hn := derivative_names rn j p hs
    have := ih (derivative rn j p) (derivative_WF' rn j p hw hj0) (hn ▸ hs)
      (fun i hi => hn ▸ hj i (by simp [hi]))
    rw [hn, derivative_den' rn j p hw hj0] at this
    show den (derivativeMany rn js (derivative rn j p)) = _
    rw [this, List.foldl_cons, getElem!_pos p.names j hj0]
end Deriv

/-! ### 2. `gradient` -/
section Gradient
variable {R : Type} [CommSemiring R] [BEq R] [LawfulBEq R] {n : Nat}

theorem partials_WF' (rn : Bool) (p : Poly (Vec R n)) (hw : WF p) : ∀ q ∈ partials rn p, WF q := by
  intro q hq
  obtain ⟨j, hj, rfl⟩ := mem_partials rn p q hq
  exact derivative_WF' rn j p hw hj

/-- the gradient of a well-formed array is well-formed (exponents of any size) -/
theorem WF_gradient' (rc rn : Bool) (p : Poly (Vec R n)) (hw : WF p) : WF (gradient rc rn p) :=
  WF_clean rc rn _ (WF_stackPolys _ (partials_WF' rn p hw))

/-- C06 (gradient): flat position `j * n + i` of `gradient p` is `∂/∂x_j` of element `i` of `p` -/
theorem gradient_elem_unb (rc rn : Bool) (p : Poly (Vec R n)) (hw : WF p) (j : Nat)
    (hj : j < p.names.length) (i : Fin n) (k : Fin ((partials rn p).length * n))
    (hk : k.val = j * n + i.val) :
    denAt (gradient rc rn p) k = pderiv (p.names[j]) (denAt p i) := by
  have hws := partials_WF' rn p hw
  have hjl : j < (partials rn p).length := by rw [partials_length]; exact hj
  rw [gradient_eq, denAt_clean rc rn _ (WF_stackPolys _ hws) k,
    stackPolys_elem (partials rn p) hws j hjl i k hk, partials_getElem rn p j hj]
  simp only [denAt, den_mapCoef, derivative_den' rn j p hw hj, pderiv_map]

/-- the same with the position built from `(j, i)` -/
theorem gradient_elem_pos' (rc rn : Bool) (p : Poly (Vec R n)) (hw : WF p) (j : Nat)
    (hj : j < p.names.length) (i : Fin n) :
    denAt (gradient rc rn p) ⟨j * n + i.val, gradient_index_lt rn p j hj i⟩ =
      pderiv (p.names[j]) (denAt p i) :=
  gradient_elem_unb rc rn p hw j hj i _ rfl
end Gradient

/-! ### 3. `hessianOf` -/
section Hessian
variable {R : Type} [CommSemiring R] [BEq R] [LawfulBEq R] {n : Nat}

theorem WF_hessAligned' (rc rn : Bool) (p : Poly (Vec R n)) (hw : WF p) : WF (hessAligned rc rn p) :=
  WF_alignIndet _ _ (WF_gradient' rc rn p hw) (hessAligned_names_nodup rc rn p)
    (fun x hx => (mem_sortDedup natLt_strictTotal x _).2 (List.mem_append.2 (Or.inl hx)))

/-- re-aligning the gradient changes no element -/
theorem den_hessAligned' (rc rn : Bool) (p : Poly (Vec R n)) (hw : WF p) :
    den (hessAligned rc rn p) = den (gradient rc rn p) :=
  den_alignIndet _ _ (WF_gradient' rc rn p hw).names_nodup (hessAligned_names_nodup rc rn p)
    (fun t _ x hx => expoAt_not_mem _ t.1 x (fun h => hx
      ((mem_sortDedup natLt_strictTotal x _).2 (List.mem_append.2 (Or.inl h)))))

theorem hessRows_WF' (rc rn : Bool) (p : Poly (Vec R n)) (hw : WF p) : ∀ q ∈ hessRows rc rn p, WF q := by
  intro q hq
  simp only [hessRows, List.mem_map] at hq
  obtain ⟨x, _, rfl⟩ := hq
  exact derivative_WF'' rn _ _ (WF_hessAligned' rc rn p hw)

/-- the Hessian of a well-formed array is well-formed (exponents of any size) -/
theorem WF_hessianOf' (rc rn : Bool) (p : Poly (Vec R n)) (hw : WF p) : WF (hessianOf rc rn p) :=
  WF_clean rc rn _ (WF_stackPolys _ (hessRows_WF' rc rn p hw))

/-- outer index: position `a * N + k` of the Hessian is `∂/∂x_a` of position `k` of the gradient -/
theorem hessian_elem_outer' (rc rn : Bool) (p : Poly (Vec R n)) (hw : WF p) (a : Nat)
    (ha : a < p.names.length) (k : Fin ((partials rn p).length * n))
    (k' : Fin ((hessRows rc rn p).length * ((partials rn p).length * n)))
    (hk' : k'.val = a * ((partials rn p).length * n) + k.val) :
    denAt (hessianOf rc rn p) k' = pderiv (p.names[a]) (denAt (gradient rc rn p) k) := by
  have hws := hessRows_WF' rc rn p hw
  have hal : a < (hessRows rc rn p).length := by rw [hessian_rows]; exact ha
  rw [hessianOf_eq, denAt_clean rc rn _ (WF_stackPolys _ hws) k',
    stackPolys_elem (hessRows rc rn p) hws a hal k k' hk', hessRows_getElem rc rn p a ha]
  simp only [denAt, den_mapCoef, derivative_den' rn _ _ (WF_hessAligned' rc rn p hw) (hessIdx_lt rc rn p a ha),
    hessIdx_name rc rn p a ha, den_hessAligned' rc rn p hw, pderiv_map]

/-- C06 (Hessian): position `a * (m * n) + (j * n + i)` is `∂/∂x_a ∂/∂x_j` of element `i` of `p`, both indices in the
order of `p.names`, for every well-formed `p`, whatever the retain flags, exponents of any size -/
theorem hessian_elem' (rc rn : Bool) (p : Poly (Vec R n)) (hw : WF p) (a : Nat)
    (ha : a < p.names.length) (j : Nat) (hj : j < p.names.length) (i : Fin n)
    (k' : Fin ((hessRows rc rn p).length * ((partials rn p).length * n)))
    (hk' : k'.val = a * (p.names.length * n) + (j * n + i.val)) :
    denAt (hessianOf rc rn p) k' = pderiv (p.names[a]) (pderiv (p.names[j]) (denAt p i)) := by
  rw [hessian_elem_outer' rc rn p hw a ha ⟨j * n + i.val, gradient_index_lt rn p j hj i⟩ k'
      (by simp only [hk', partials_length]),
    gradient_elem_pos' rc rn p hw j hj i]

/-- the Hessian is symmetric: entries `(a, j)` and `(j, a)` denote the same polynomial -/
theorem hessian_symm' (rc rn : Bool) (p : Poly (Vec R n)) (hw : WF p)
    (a : Nat) (ha : a < p.names.length) (j : Nat) (hj : j < p.names.length)
    (i : Fin n) (k1 k2 : Fin ((hessRows rc rn p).length * ((partials rn p).length * n)))
    (h1 : k1.val = a * (p.names.length * n) + (j * n + i.val))
    (h2 : k2.val = j * (p.names.length * n) + (a * n + i.val)) :
    denAt (hessianOf rc rn p) k1 = denAt (hessianOf rc rn p) k2 := by
  rw [hessian_elem' rc rn p hw a ha j hj i k1 h1, hessian_elem' rc rn p hw j hj a ha i k2 h2, pderiv_pderiv_comm]
end Hessian

/-- the raw rows of the derivative are NOT duplicate-free without the bound (so `WF_derivTerms` needs `Bdd`): the
exponents 0 and 2^32 of a one-variable polynomial both become 4294967295 -/
example : (derivTerms 0 [([0], (1 : Int)), ([4294967296], 1)]).map (·.1) = [[4294967295], [4294967295]] := by
  decide
end Np

/-! ### property statements (twins of `Np/Props/C06.lean`, no `Bdd`) -/
namespace Np.Props.C06
open MvPolynomial
section full
variable {S : Type} [CommSemiring S] [BEq S] [LawfulBEq S]

/-- the result of `derivative` is well-formed for exponents of any size and EVERY position `j` -/
theorem derivative_wellformed' (rn : Bool) (j : Nat) (p : Poly S) (hw : WF p) : WF (derivative rn j p) :=
  Np.derivative_WF'' rn j p hw

/-- several variables differentiate successively — exponents of any size -/
theorem derivative_many' (rn : Bool) (js : List Nat) (p : Poly S) (hw : WF p)
    (hs : p.names.Pairwise (· < ·)) (hj : ∀ j ∈ js, j < p.names.length) :
    den (derivativeMany rn js p) = js.foldl (fun acc j => pderiv (p.names[j]!) acc) (den p) :=
  Np.derivativeMany_den' rn js p hw hs hj

/-- … and the result is well-formed with the names of the input -/
theorem derivative_many_wellformed' (rn : Bool) (js : List Nat) (p : Poly S) (hw : WF p)
    (hs : p.names.Pairwise (· < ·)) :
    WF (derivativeMany rn js p) ∧ (derivativeMany rn js p).names = p.names :=
  Np.derivativeMany_WF' rn js p hw hs
end full

section arrays
variable {R : Type} [CommSemiring R] [BEq R] [LawfulBEq R] {n : Nat}

/-- **gradient**: the result is well-formed, has one block per indeterminate (shape `(D,) + p.shape`), and flat
position `j * n + i` is `∂/∂x_j` of element `i` — every array size, number of terms, both retain flags, exponents of
any size -/
theorem gradient_is_partials' (rc rn : Bool) (p : Poly (Vec R n)) (hw : WF p) :
    WF (gradient rc rn p) ∧ (partials rn p).length = p.names.length ∧
    ∀ (j : Nat) (hj : j < p.names.length) (i : Fin n) (k : Fin ((partials rn p).length * n)),
      k.val = j * n + i.val → denAt (gradient rc rn p) k = pderiv (p.names[j]) (denAt p i) :=
  ⟨WF_gradient' rc rn p hw, partials_length rn p, fun j hj i k hk => gradient_elem_unb rc rn p hw j hj i k hk⟩

/-- **Hessian**: well-formed, one row and one column per indeterminate whatever the retain flags, and entry `(a, j)`
of element `i` is `∂²/∂x_a ∂x_j` with both indices in the order of `p.names` — exponents of any size -/
theorem hessian_is_second_partials' (rc rn : Bool) (p : Poly (Vec R n)) (hw : WF p) :
    WF (hessianOf rc rn p) ∧ (hessRows rc rn p).length = p.names.length ∧
    ∀ (a : Nat) (ha : a < p.names.length) (j : Nat) (hj : j < p.names.length) (i : Fin n)
      (k' : Fin ((hessRows rc rn p).length * ((partials rn p).length * n))),
      k'.val = a * (p.names.length * n) + (j * n + i.val) →
      denAt (hessianOf rc rn p) k' = pderiv (p.names[a]) (pderiv (p.names[j]) (denAt p i)) :=
  ⟨WF_hessianOf' rc rn p hw, hessian_rows rc rn p,
    fun a ha j hj i k' hk' => hessian_elem' rc rn p hw a ha j hj i k' hk'⟩

/-- the Hessian is symmetric — exponents of any size -/
theorem hessian_symmetric' (rc rn : Bool) (p : Poly (Vec R n)) (hw : WF p)
    (a : Nat) (ha : a < p.names.length) (j : Nat) (hj : j < p.names.length)
    (i : Fin n) (k1 k2 : Fin ((hessRows rc rn p).length * ((partials rn p).length * n)))
    (h1 : k1.val = a * (p.names.length * n) + (j * n + i.val))
    (h2 : k2.val = j * (p.names.length * n) + (a * n + i.val)) :
    denAt (hessianOf rc rn p) k1 = denAt (hessianOf rc rn p) k2 :=
  hessian_symm' rc rn p hw a ha j hj i k1 k2 h1 h2
end arrays
end Np.Props.C06

import Np.Model.Text
import Mathlib.Data.List.Basic
namespace Np.Text

theorem splitSep_ne_nil (sep : Nat) : ∀ s : Str, splitSep sep s ≠ []
  | [] => by simp [splitSep]
  | c :: cs => by
    simp only [splitSep]
    split
    · simp
    · split <;> simp

/-- splitting a piece that does not contain the separator gives the piece back -/
theorem splitSep_of_not_mem (sep : Nat) : ∀ s : Str, sep ∉ s → splitSep sep s = [s]
  | [], _ => rfl
  | c :: cs, h => by
    simp only [List.mem_cons, not_or] at h
    have hc : (c == sep) = false := by simpa using (fun e : c = sep => h.1 e.symm)
    simp [splitSep, hc, splitSep_of_not_mem sep cs h.2]

/-- `piece ++ sep :: rest` splits into the piece followed by the split of the rest -/
theorem splitSep_append (sep : Nat) : ∀ (x : Str) (rest : Str), sep ∉ x →
    splitSep sep (x ++ sep :: rest) = x :: splitSep sep rest
  | [], rest, _ => by simp [splitSep]
  | c :: cs, rest, h => by
    simp only [List.mem_cons, not_or] at h
    have hc : (c == sep) = false := by simpa using (fun e : c = sep => h.1 e.symm)
    simp [splitSep, hc, splitSep_append sep cs rest h.2]

/-- the codec fact behind every field of the header: joining pieces that do not contain the separator and
splitting again returns the pieces (for a non-empty list of pieces) -/
theorem splitSep_joinSep (sep : Nat) : ∀ xs : List Str, xs ≠ [] → (∀ x ∈ xs, sep ∉ x) →
    splitSep sep (joinSep sep xs) = xs
  | [], h, _ => absurd rfl h
  | [x], _, hx => by simpa [joinSep] using splitSep_of_not_mem sep x (hx x (by simp))
  | x :: y :: rest, _, hx => by
    rw [joinSep, splitSep_append sep x _ (hx x (by simp)),
      splitSep_joinSep sep (y :: rest) (by simp) (fun z hz => hx z (by simp [hz]))]

theorem joinSep_not_mem (sep c : Nat) (hne : c ≠ sep) : ∀ xs : List Str, (∀ x ∈ xs, c ∉ x) → c ∉ joinSep sep xs
  | [], _ => by simp [joinSep]
  | [x], h => by simpa [joinSep] using h x (by simp)
  | x :: y :: rest, h => by
    rw [joinSep]
    simp only [List.mem_append, List.mem_cons, not_or]
    exact ⟨h x (by simp), hne, joinSep_not_mem sep c hne (y :: rest) (fun z hz => h z (by simp [hz]))⟩
end Np.Text

namespace Np.Text

def stepDigit (acc : Option Nat) (c : Nat) : Option Nat :=
  acc.bind fun a => if 48 ≤ c ∧ c ≤ 57 then some (a * 10 + (c - 48)) else none

theorem ofDigits_eq (s : Str) (h : s ≠ []) : ofDigits s = s.foldl stepDigit (some 0) := by
  unfold ofDigits
  have : s.isEmpty = false := by cases s <;> simp_all
  simp only [this]
  rfl

theorem digitChar_toNat (d : Nat) (h : d < 10) : (Nat.digitChar d).toNat = 48 + d :=
  Nat.toNat_digitChar_of_lt_ten h

theorem foldl_digits (n : Nat) : (digits n).foldl stepDigit (some 0) = some n := by
  induction n using Nat.strongRecOn with
  | _ n ih =>
    unfold digits
    rw [Nat.toDigits_eq_if (by decide : 1 < 10)]
    split
    · rename_i h
      simp [stepDigit, digitChar_toNat n h]
      omega
    · rename_i h
      have hlt : n / 10 < n := Nat.div_lt_self (by omega) (by decide)
      have ih' := ih (n / 10) hlt
      unfold digits at ih'
      rw [List.map_append, List.foldl_append, ih']
      have hm : n % 10 < 10 := Nat.mod_lt _ (by decide)
      simp [stepDigit, digitChar_toNat (n % 10) hm]
      omega

theorem digits_ne_nil (n : Nat) : digits n ≠ [] := by
  unfold digits
  simp [Nat.toDigits_ne_nil]

/-- decimal shape entries read back as the same numbers -/
theorem ofDigits_digits (n : Nat) : ofDigits (digits n) = some n := by
  rw [ofDigits_eq _ (digits_ne_nil n), foldl_digits]

/-- decimal digits contain neither the comma nor the blank -/
theorem digits_clean (n c : Nat) (hc : c = comma ∨ c = blank) : c ∉ digits n := by
  intro hmem
  unfold digits at hmem
  obtain ⟨ch, hch, rfl⟩ := List.mem_map.1 hmem
  have hd := Nat.isDigit_of_mem_toDigits (b := 10) (by decide) (by decide) hch
  simp only [Char.isDigit, Bool.and_eq_true, decide_eq_true_eq] at hd
  have h1 : 48 ≤ ch.toNat := by
    have := hd.1
    show 48 ≤ ch.val.toNat
    exact this
  rcases hc with h | h <;> simp only [comma, blank] at h <;> omega
end Np.Text

import Np.Model.Expr3
import Np.Proofs.ExprPow
import Np.Proofs.GradArr
import Np.Proofs.Reduce
/-! C15 / C01 / C03 for the extended program language `Expr3` (ring operators, `**`, differentiation by a name,
gathers = any indexing / shape function, joins of several operands, linear reductions):
* `expr3_den`: a successful evaluation on a well-formed environment is well-formed and agrees, shape and every
  element, with a specification in `MvPolynomial Name R` that mentions no option (`specEval3`);
* `expr3_wf`, `expr3_indep`: the two corollaries asked for (well-formedness; independence of the retain flags);
* `expr3_succeeds_indep`: for programs without `deriv`, success itself does not depend on the flags; for `deriv` it
  does (`deriv_success_depends_on_flags`: `names.index(name)` raises when `retain_names=False` has dropped the name).
The derivative facts are re-proved here WITHOUT the uint32 bound `Bdd` of `DerivFull` (products do not keep it). -/
set_option linter.unusedSectionVars false
open MvPolynomial
namespace Np
open Shape

/-! ### 1. `derivative` without the bound on the exponents -/
section DerivNoBound
variable {S : Type} [CommSemiring S]

/-- the rows in which variable `j` really occurs -/
def posRows (j : Nat) (ts : List (Expo × S)) : List (Expo × S) := ts.filter fun t => t.1.getD j 0 != 0

theorem decAt_pos_injective (j : Nat) (e1 e2 : Expo) (hl : e1.length = e2.length)
    (h1 : e1.getD j 0 ≠ 0) (h2 : e2.getD j 0 ≠ 0) (h : decAt j e1 = decAt j e2) : e1 = e2 := by
  apply List.ext_getElem hl
  intro i hi1 hi2
  have hi1' : i < (decAt j e1).length := by simpa [decAt] using hi1
  have hi : (decAt j e1)[i] = (decAt j e2)[i]'(by simpa [decAt] using hi2) := by simp only [h]
  simp only [decAt, List.getElem_modify] at hi
  by_cases hji : j = i
  · subst hji
    simp only [if_true] at hi
    have a1 : e1[j] ≠ 0 := by simpa [List.getD_eq_getElem?_getD, List.getElem?_eq_getElem hi1] using h1
    have a2 : e2[j] ≠ 0 := by simpa [List.getD_eq_getElem?_getD, List.getElem?_eq_getElem hi2] using h2
    unfold decU32 at hi
    rw [if_neg a1, if_neg a2] at hi
    omega
  · simpa only [hji, if_false] using hi

theorem posRows_cons_zero (j : Nat) (t : Expo × S) (ts : List (Expo × S)) (hz : t.1.getD j 0 = 0) :
    posRows j (t :: ts) = posRows j ts := by
  simp only [posRows, List.filter_cons, hz, bne_self_eq_false, Bool.false_eq_true, if_false]

theorem posRows_cons_pos (j : Nat) (t : Expo × S) (ts : List (Expo × S)) (hz : t.1.getD j 0 ≠ 0) :
    posRows j (t :: ts) = t :: posRows j ts := by
  have : (t.1.getD j 0 != 0) = true := by simpa using hz
  simp only [posRows, List.filter_cons, this, if_true]

variable [BEq S] [LawfulBEq S]

/-- the wrapped rows (exponent 0 at `j`) never survive `remove_redundant_coefficients` -/
theorem filter_derivTerms (j : Nat) (ts : List (Expo × S)) (hlen : ∀ t ∈ ts, j < t.1.length) :
    (derivTerms j ts).filter (fun t => !(t.2 == 0) || isZeroExpo t.1) =
      (derivTerms j (posRows j ts)).filter (fun t => !(t.2 == 0) || isZeroExpo t.1) := by
  induction ts with
  | nil => rfl
  | cons t ts ih =>
    have ih' := ih (fun x hx => hlen x (by simp [hx]))
    by_cases hz : t.1.getD j 0 = 0
    · have hp := posRows_cons_zero j t ts hz
      have hnz := decAt_not_zero j t.1 (hlen t (by simp)) hz
      rw [hp, ← ih']
      simp only [derivTerms, List.map_cons, List.filter_cons, hz, Nat.cast_zero, zero_mul, hnz, beq_self_eq_true,
        Bool.not_true, Bool.or_false, Bool.false_eq_true, if_false]
    · have hp := posRows_cons_pos j t ts hz
      rw [hp]
      simp only [derivTerms, List.map_cons, List.filter_cons] at ih' ⊢
      rw [ih']

theorem clean_derivTerms (rn : Bool) (j : Nat) (p : Poly S) (hlen : ∀ t ∈ p.terms, j < t.1.length) :
    clean false rn ({ names := p.names, terms := derivTerms j p.terms } : Poly S) =
      clean false rn { names := p.names, terms := derivTerms j (posRows j p.terms) } := by
  have h : dropZeroCols ({ names := p.names, terms := derivTerms j p.terms } : Poly S) =
      dropZeroCols { names := p.names, terms := derivTerms j (posRows j p.terms) } := by
    unfold dropZeroCols
    simp only [filter_derivTerms j p.terms hlen]
  unfold clean
  simp only [Bool.false_eq_true, if_false, h]

theorem WF_derivTerms_pos (p : Poly S) (hw : WF p) (j : Nat) :
    WF ({ names := p.names, terms := derivTerms j (posRows j p.terms) } : Poly S) := by
  have hex : ({ names := p.names, terms := derivTerms j (posRows j p.terms) } : Poly S).expos =
      ((posRows j p.terms).map (·.1)).map (decAt j) := expos_derivTerms j _
  have hsub : ((posRows j p.terms).map (·.1)).Sublist p.expos := List.filter_sublist.map _
  have hpos : ∀ e ∈ (posRows j p.terms).map (·.1), e.getD j 0 ≠ 0 := by
    intro e he
    obtain ⟨t, ht, rfl⟩ := List.mem_map.1 he
    simpa [posRows] using (List.mem_filter.1 ht).2
  refine ⟨hw.names_nodup, ?_, ?_⟩
  · rw [hex]
    apply List.Nodup.map_on _ (hw.expos_nodup.sublist hsub)
    intro e1 m1 e2 m2 heq
    exact decAt_pos_injective j e1 e2 (by rw [hw.row_len e1 (hsub.subset m1), hw.row_len e2 (hsub.subset m2)])
      (hpos e1 m1) (hpos e2 m2) heq
  · intro e he
    rw [hex] at he
    obtain ⟨e0, m0, rfl⟩ := List.mem_map.1 he
    simpa [decAt] using hw.row_len e0 (hsub.subset m0)

theorem denT_derivTerms_pos (ns : List Name) (j : Nat) (ts : List (Expo × S)) :
    denT ns (derivTerms j (posRows j ts)) = denT ns (derivTerms j ts) := by
  induction ts with
  | nil => rfl
  | cons t ts ih =>
    by_cases hz : t.1.getD j 0 = 0
    · have hp := posRows_cons_zero j t ts hz
      rw [hp, ih]
      simp only [derivTerms, List.map_cons, denT_cons, hz, Nat.cast_zero, zero_mul, map_zero, zero_add]
    · have hp := posRows_cons_pos j t ts hz
      rw [hp]
      simp only [derivTerms, List.map_cons, denT_cons] at ih ⊢
      rw [ih]

theorem rows_longer (p : Poly S) (hw : WF p) (j : Nat) (hj : j < p.names.length) : ∀ t ∈ p.terms, j < t.1.length :=
  fun t ht => by rw [hw.row_len t.1 (List.mem_map_of_mem ht)]; exact hj

/-- C03 for `derivative`, for exponents of any size -/
theorem derivative_WF' (rn : Bool) (j : Nat) (p : Poly S) (hw : WF p) (hj : j < p.names.length) :
    WF (derivative rn j p) := by
  rw [derivative_eq, clean_derivTerms rn j p (rows_longer p hw j hj)]
  exact WF_alignPair_fst _ _ (WF_clean false rn _ (WF_derivTerms_pos p hw j)) hw

/-- C06 for `derivative`, for exponents of any size -/
theorem derivative_den' (rn : Bool) (j : Nat) (p : Poly S) (hw : WF p) (hj : j < p.names.length) :
    den (derivative rn j p) = pderiv (p.names[j]) (den p) := by
  have hq := WF_derivTerms_pos p hw j
  rw [derivative_eq, clean_derivTerms rn j p (rows_longer p hw j hj),
    den_alignPair_fst _ _ (WF_clean false rn _ hq) hw, den_clean false rn _ hq (WF_dropZeroCols _ hq)]
  show denT p.names (derivTerms j (posRows j p.terms)) = _
  rw [denT_derivTerms_pos]
  exact denT_derivTerms p.names hw.names_nodup j hj p.terms
    (fun t ht => hw.row_len t.1 (List.mem_map_of_mem ht))
end DerivNoBound

variable {R : Type} [CommRing R] [BEq R] [LawfulBEq R]

/-! ### 2. the new array operations, element by element -/

/-- `derivative(a, name)`: succeeds only when `a` carries the name; then every element is differentiated -/
theorem Arr.derivName_spec (rn : Bool) (a r : Arr R) (name : Name) (ha : a.WF)
    (h : Arr.derivName rn a name = .ok r) :
    r.WF ∧ name ∈ a.poly.names ∧ r.shape = a.shape ∧
      ∀ i (hi : i < size r.shape) (hi' : i < size a.shape), r.elem ⟨i, hi⟩ = pderiv name (a.elem ⟨i, hi'⟩) := by
  unfold Arr.derivName at h
  split at h
  · rename_i hc
    have hm : name ∈ a.poly.names := by simpa using hc
    have hj : a.poly.names.idxOf name < a.poly.names.length := List.idxOf_lt_length_of_mem hm
    injection h with h
    subst h
    refine ⟨derivative_WF' rn _ a.poly ha hj, hm, rfl, ?_⟩
    intro i hi hi'
    simp only [Arr.elem, denAt, den_mapCoef, derivative_den' rn _ a.poly ha hj, pderiv_map,
      List.getElem_idxOf hj]
  · exact absurd h (by simp)

/-- what a gather reads from the concatenation of several specified operands at global position `g` -/
noncomputable def joinElem : List (List Nat × (Nat → MvPolynomial Name R)) → Nat → MvPolynomial Name R
  | [], _ => 0
  | sf :: rest, g => if g < size sf.1 then sf.2 g else joinElem rest (g - size sf.1)

/-- the specification of `gatherOp`: shape as requested; position `k` reads global position `idx[k] - 1`, 0 fills -/
noncomputable def joinSpec (sfs : List (List Nat × (Nat → MvPolynomial Name R))) (outShape idx : List Nat) :
    List Nat × (Nat → MvPolynomial Name R) :=
  (outShape, fun k => if idx.getD k 0 = 0 then 0 else joinElem sfs (idx.getD k 0 - 1))

theorem superOperand_joinElem (N : Nat) (ops : List (Arr R))
    (sfs : List (List Nat × (Nat → MvPolynomial Name R))) (hag : List.Forall₂ Agrees ops sfs) :
    ∀ (_ : ∀ a ∈ ops, a.WF) (off : Nat) (j : Fin N) (_ : off ≤ j.val),
      denAt (superOperand N ops off) j = joinElem sfs (j.val - off) := by
  induction hag with
  | nil => intro _ off j _; exact denAt_zeroPoly j
  | @cons a sf rest sfs' h1 _ ih =>
    intro hw off j hj
    have hwr : ∀ c ∈ rest, c.WF := fun c hc => hw c (by simp [hc])
    obtain ⟨hs, hel⟩ := h1
    rw [superOperand_step N a rest hw off j]
    simp only [joinElem, ← hs]
    by_cases hlt : j.val - off < size a.shape
    · rw [dif_pos ⟨hj, hlt⟩, if_pos hlt, superOperand_below N rest hwr _ j (by omega), add_zero]
      exact hel _ hlt
    · rw [dif_neg (fun h => hlt h.2), if_neg hlt, zero_add, ih hwr _ j (by omega)]
      congr 1; omega

theorem joinElem_out (ops : List (Arr R)) (sfs : List (List Nat × (Nat → MvPolynomial Name R)))
    (hag : List.Forall₂ Agrees ops sfs) : ∀ g, totalSize ops ≤ g → joinElem sfs g = 0 := by
  induction hag with
  | nil => intro g _; rfl
  | @cons a sf rest sfs' h1 _ ih =>
    intro g hg
    rw [totalSize_cons] at hg
    simp only [joinElem, ← h1.1]
    rw [if_neg (by omega)]
    exact ih _ (by omega)

/-- any gather / join agrees with `joinSpec` over the specifications of its operands -/
theorem agrees_gatherOp (rc rn : Bool) (ops : List (Arr R)) (hw : ∀ a ∈ ops, a.WF)
    (sfs : List (List Nat × (Nat → MvPolynomial Name R))) (hag : List.Forall₂ Agrees ops sfs)
    (outShape idx : List Nat) : Agrees (gatherOp rc rn ops outShape idx) (joinSpec sfs outShape idx) := by
  refine ⟨rfl, ?_⟩
  intro k hk
  show (gatherOp rc rn ops outShape idx).elem ⟨k, hk⟩ = if idx.getD k 0 = 0 then 0 else joinElem sfs (idx.getD k 0 - 1)
  have hk' : k < size outShape := hk
  refine (gatherOp_elem_eq rc rn ops hw outShape idx ⟨k, hk'⟩).trans ?_
  by_cases h0 : idx.getD k 0 = 0
  · rw [if_pos h0]; exact gatherFill_elem_fill _ idx _ ⟨k, hk'⟩ h0
  rw [if_neg h0]
  by_cases h1 : totalSize ops < idx.getD k 0
  · rw [gatherFill_elem_out _ idx _ ⟨k, hk'⟩ h1, joinElem_out ops sfs hag _ (by omega)]
  · rw [gatherFill_elem_copy _ idx _ ⟨k, hk'⟩ (idx.getD k 0 - 1) (by simp only; omega) (by omega),
      superOperand_joinElem _ ops sfs hag hw 0 _ (Nat.zero_le _)]
    rfl

theorem castWeights_getD (W : List (List (Nat × Int))) (i : Nat) :
    (castWeights W : List (List (Nat × R))).getD i [] = (W.getD i []).map fun jw => (jw.1, (jw.2 : R)) := by
  simp only [castWeights, List.getD_eq_getElem?_getD, List.getElem?_map]
  cases W[i]? <;> rfl

/-- the specification of a linear reduction over a specified operand -/
noncomputable def sumSpec (sf : List Nat × (Nat → MvPolynomial Name R)) (outShape : List Nat)
    (W : List (List (Nat × Int))) : List Nat × (Nat → MvPolynomial Name R) :=
  (outShape, fun i => ((W.getD i []).map fun jw => C (jw.2 : R) * if jw.1 < size sf.1 then sf.2 jw.1 else 0).sum)

theorem agrees_linearOp (rc rn : Bool) (a : Arr R) (ha : a.WF) (sf : List Nat × (Nat → MvPolynomial Name R))
    (hag : Agrees a sf) (outShape : List Nat) (W : List (List (Nat × Int))) :
    Agrees (linearOp rc rn a outShape (castWeights W)) (sumSpec sf outShape W) := by
  refine ⟨rfl, ?_⟩
  intro i hi
  have hi' : i < size outShape := hi
  refine (linearOp_elem rc rn a ha outShape _ ⟨i, hi'⟩).trans ?_
  rw [castWeights_getD, List.map_map]
  show _ = ((W.getD i []).map fun jw => C (jw.2 : R) * if jw.1 < size sf.1 then sf.2 jw.1 else 0).sum
  congr 1
  apply List.map_congr_left
  intro jw _
  simp only [Function.comp, elemD, ← hag.1]
  by_cases h : jw.1 < size a.shape
  · rw [dif_pos h, if_pos h, hag.2 _ h]
  · rw [dif_neg h, if_neg h]

/-! ### 3. the specification: no option occurs in it -/

mutual
/-- shapes by numpy broadcasting / as requested, elements by arithmetic in `MvPolynomial Name R` -/
noncomputable def specEval3 (env : List (Arr R)) : Expr3 → Option (List Nat × (Nat → MvPolynomial Name R))
  | .leaf i => (env[i]?).map fun a => (a.shape, a.elemN)
  | .add x y =>
    match specEval3 env x, specEval3 env y with
    | some (s1, f1), some (s2, f2) =>
      (bshape s1 s2).map fun s => (s, fun i => f1 (bindex s1 s i) + f2 (bindex s2 s i))
    | _, _ => none
  | .sub x y =>
    match specEval3 env x, specEval3 env y with
    | some (s1, f1), some (s2, f2) =>
      (bshape s1 s2).map fun s => (s, fun i => f1 (bindex s1 s i) - f2 (bindex s2 s i))
    | _, _ => none
  | .mul x y =>
    match specEval3 env x, specEval3 env y with
    | some (s1, f1), some (s2, f2) =>
      (bshape s1 s2).map fun s => (s, fun i => f1 (bindex s1 s i) * f2 (bindex s2 s i))
    | _, _ => none
  | .neg x => (specEval3 env x).map fun sf => (sf.1, fun i => - sf.2 i)
  | .pos x => specEval3 env x
  | .pow x k => (specEval3 env x).map fun sf => (sf.1, fun i => sf.2 i ^ k)
  | .powArr x kshape ks =>
    match specEval3 env x with
    | some (s1, f1) =>
      (bshape s1 kshape).map fun s => (s, fun i => f1 (bindex s1 s i) ^ ks.getD (bindex kshape s i) 0)
    | none => none
  | .deriv x name => (specEval3 env x).map fun sf => (sf.1, fun i => pderiv name (sf.2 i))
  | .gather x outShape idx => (specEval3 env x).map fun sf => joinSpec [sf] outShape idx
  | .join xs outShape idx => (specList3 env xs).map fun sfs => joinSpec sfs outShape idx
  | .sum x outShape W => (specEval3 env x).map fun sf => sumSpec sf outShape W
noncomputable def specList3 (env : List (Arr R)) :
    List Expr3 → Option (List (List Nat × (Nat → MvPolynomial Name R)))
  | [] => some []
  | x :: xs =>
    match specEval3 env x, specList3 env xs with
    | some sf, some sfs => some (sf :: sfs)
    | _, _ => none
end

/-! ### 4. the theorem -/

mutual
/-- C01 / C03 / C06 / C09 / C10 for compositions: every program computes, element by element, what `specEval3` says,
and the result is well-formed -/
theorem expr3_den (rc rn : Bool) (env : List (Arr R)) (henv : ∀ a ∈ env, a.WF) :
    ∀ (t : Expr3) (r : Arr R), evalModel3 rc rn env t = .ok r →
      r.WF ∧ ∃ sf, specEval3 env t = some sf ∧ Agrees r sf
  | .leaf i, r, h => by
    simp only [evalModel3] at h
    cases hi : env[i]? with
    | none => simp [hi] at h
    | some a =>
      simp only [hi] at h
      injection h with h; subst h
      refine ⟨henv a (List.mem_of_getElem? hi), (a.shape, a.elemN), by simp [specEval3, hi], rfl, ?_⟩
      intro j hj
      simp [Arr.elemN, hj]
  | .add x y, r, h => by
    simp only [evalModel3] at h
    obtain ⟨a, hx, h⟩ := bind_ok h
    obtain ⟨b, hy, h⟩ := bind_ok h
    obtain ⟨wa, ⟨s1, f1⟩, hsa, aga⟩ := expr3_den rc rn env henv x a hx
    obtain ⟨wb, ⟨s2, f2⟩, hsb, agb⟩ := expr3_den rc rn env henv y b hy
    obtain ⟨wr, hs, σa, σb, hσa, hσb, hel⟩ := Arr.add_spec rc rn a b r wa wb h
    obtain ⟨sf, hsf, ag⟩ := agrees_binop (· + ·) a b r s1 s2 f1 f2 aga agb hs σa σb hσa hσb hel
    exact ⟨wr, sf, by simp only [specEval3, hsa, hsb]; exact hsf, ag⟩
  | .sub x y, r, h => by
    simp only [evalModel3] at h
    obtain ⟨a, hx, h⟩ := bind_ok h
    obtain ⟨b, hy, h⟩ := bind_ok h
    obtain ⟨wa, ⟨s1, f1⟩, hsa, aga⟩ := expr3_den rc rn env henv x a hx
    obtain ⟨wb, ⟨s2, f2⟩, hsb, agb⟩ := expr3_den rc rn env henv y b hy
    obtain ⟨wr, hs, σa, σb, hσa, hσb, hel⟩ := Arr.sub_spec rc rn a b r wa wb h
    obtain ⟨sf, hsf, ag⟩ := agrees_binop (· - ·) a b r s1 s2 f1 f2 aga agb hs σa σb hσa hσb hel
    exact ⟨wr, sf, by simp only [specEval3, hsa, hsb]; exact hsf, ag⟩
  | .mul x y, r, h => by
    simp only [evalModel3] at h
    obtain ⟨a, hx, h⟩ := bind_ok h
    obtain ⟨b, hy, h⟩ := bind_ok h
    obtain ⟨wa, ⟨s1, f1⟩, hsa, aga⟩ := expr3_den rc rn env henv x a hx
    obtain ⟨wb, ⟨s2, f2⟩, hsb, agb⟩ := expr3_den rc rn env henv y b hy
    obtain ⟨wr, hs, σa, σb, hσa, hσb, hel⟩ := Arr.mul_spec rc rn a b r wa wb h
    obtain ⟨sf, hsf, ag⟩ := agrees_binop (· * ·) a b r s1 s2 f1 f2 aga agb hs σa σb hσa hσb hel
    exact ⟨wr, sf, by simp only [specEval3, hsa, hsb]; exact hsf, ag⟩
  | .neg x, r, h => by
    simp only [evalModel3] at h
    obtain ⟨a, hx, h⟩ := bind_ok h
    injection h with h; subst h
    obtain ⟨wa, ⟨s1, f1⟩, hsa, ⟨ag1, ag2⟩⟩ := expr3_den rc rn env henv x a hx
    refine ⟨(Arr.neg_spec rc rn a wa).1, (s1, fun i => - f1 i), by simp [specEval3, hsa], ag1, ?_⟩
    intro i hi
    rw [(Arr.neg_spec rc rn a wa).2 ⟨i, hi⟩]
    exact congrArg Neg.neg (ag2 i hi)
  | .pos x, r, h => by
    simp only [evalModel3] at h
    obtain ⟨a, hx, h⟩ := bind_ok h
    injection h with h; subst h
    obtain ⟨wa, ⟨s1, f1⟩, hsa, ⟨ag1, ag2⟩⟩ := expr3_den rc rn env henv x a hx
    refine ⟨(Arr.pos_spec rc rn a wa).1, (s1, f1), by simp [specEval3, hsa], ag1, ?_⟩
    intro i hi
    rw [(Arr.pos_spec rc rn a wa).2 ⟨i, hi⟩]
    exact ag2 i hi
  | .pow x k, r, h => by
    simp only [evalModel3] at h
    obtain ⟨a, hx, h⟩ := bind_ok h
    obtain ⟨wa, ⟨s1, f1⟩, hsa, ⟨ag1, ag2⟩⟩ := expr3_den rc rn env henv x a hx
    obtain ⟨r', hr', wr', hshape, hel⟩ := Arr.pow_spec rc rn a k wa
    rw [hr'] at h
    injection h with h; subst h
    refine ⟨wr', (s1, fun i => f1 i ^ k), by simp [specEval3, hsa], hshape.trans ag1, ?_⟩
    intro i hi
    rw [hel ⟨i, hi⟩]
    have hi' : i < size a.shape := hshape ▸ hi
    have := ag2 i hi'
    simp only at this ⊢
    rw [← this]
    congr 2
    apply Fin.ext
    cases r'; cases a
    simp only at hshape
    subst hshape
    rfl
  | .powArr x kshape ks, r, h => by
    simp only [evalModel3] at h
    obtain ⟨a, hx, h⟩ := bind_ok h
    obtain ⟨wa, ⟨s1, f1⟩, hsa, aga⟩ := expr3_den rc rn env henv x a hx
    obtain ⟨wr, sf, hsf, ag⟩ := agrees_powArr rc rn a r kshape ks s1 f1 wa aga h
    exact ⟨wr, sf, by simp only [specEval3, hsa]; exact hsf, ag⟩
  | .deriv x name, r, h => by
    simp only [evalModel3] at h
    obtain ⟨a, hx, h⟩ := bind_ok h
    obtain ⟨wa, ⟨s1, f1⟩, hsa, ⟨ag1, ag2⟩⟩ := expr3_den rc rn env henv x a hx
    obtain ⟨wr, _, hshape, hel⟩ := Arr.derivName_spec rn a r name wa h
    refine ⟨wr, (s1, fun i => pderiv name (f1 i)), by simp [specEval3, hsa], hshape.trans ag1, ?_⟩
    intro i hi
    have hi' : i < size a.shape := hshape ▸ hi
    rw [hel i hi hi', ag2 i hi']
  | .gather x outShape idx, r, h => by
    simp only [evalModel3] at h
    obtain ⟨a, hx, h⟩ := bind_ok h
    injection h with h; subst h
    obtain ⟨wa, sf, hsa, aga⟩ := expr3_den rc rn env henv x a hx
    have hw : ∀ b ∈ [a], b.WF := by simpa using wa
    exact ⟨(gatherOp_WF rc rn [a] hw outShape idx).1, joinSpec [sf] outShape idx, by simp [specEval3, hsa],
      agrees_gatherOp rc rn [a] hw [sf] (.cons aga .nil) outShape idx⟩
  | .join xs outShape idx, r, h => by
    simp only [evalModel3] at h
    obtain ⟨as, hx, h⟩ := bind_ok h
    injection h with h; subst h
    obtain ⟨hw, sfs, hsa, aga⟩ := exprList3_den rc rn env henv xs as hx
    exact ⟨(gatherOp_WF rc rn as hw outShape idx).1, joinSpec sfs outShape idx, by simp [specEval3, hsa],
      agrees_gatherOp rc rn as hw sfs aga outShape idx⟩
  | .sum x outShape W, r, h => by
    simp only [evalModel3] at h
    obtain ⟨a, hx, h⟩ := bind_ok h
    injection h with h; subst h
    obtain ⟨wa, sf, hsa, aga⟩ := expr3_den rc rn env henv x a hx
    exact ⟨linearOp_WF rc rn a wa outShape _, sumSpec sf outShape W, by simp [specEval3, hsa],
      agrees_linearOp rc rn a wa sf aga outShape W⟩
/-- the same for the operands of a `join` -/
theorem exprList3_den (rc rn : Bool) (env : List (Arr R)) (henv : ∀ a ∈ env, a.WF) :
    ∀ (ts : List Expr3) (rs : List (Arr R)), evalList3 rc rn env ts = .ok rs →
      (∀ a ∈ rs, a.WF) ∧ ∃ sfs, specList3 env ts = some sfs ∧ List.Forall₂ Agrees rs sfs
  | [], rs, h => by
    simp only [evalList3] at h
    injection h with h; subst h
    exact ⟨by simp, [], by simp [specList3], .nil⟩
  | x :: xs, rs, h => by
    simp only [evalList3] at h
    obtain ⟨a, hx, h⟩ := bind_ok h
    obtain ⟨as, hxs, h⟩ := bind_ok h
    injection h with h; subst h
    obtain ⟨wa, sf, hsa, aga⟩ := expr3_den rc rn env henv x a hx
    obtain ⟨was, sfs, hsas, agas⟩ := exprList3_den rc rn env henv xs as hxs
    refine ⟨?_, sf :: sfs, by simp [specList3, hsa, hsas], .cons aga agas⟩
    intro b hb
    rcases List.mem_cons.1 hb with rfl | hb
    · exact wa
    · exact was b hb
end

/-! ### 5. the corollaries asked for -/

/-- (a) C03 for compositions: a successful evaluation on a well-formed environment is well-formed -/
theorem expr3_wf (rc rn : Bool) (env : List (Arr R)) (henv : ∀ a ∈ env, a.WF) (t : Expr3) (r : Arr R)
    (h : evalModel3 rc rn env t = .ok r) : r.WF := (expr3_den rc rn env henv t r h).1

/-- (b) C15 for compositions: two successful evaluations of one program under any two settings of the retain flags
have the same shape and the same elements -/
theorem expr3_indep (rc rn rc' rn' : Bool) (env : List (Arr R)) (henv : ∀ a ∈ env, a.WF) (t : Expr3)
    (r r' : Arr R) (h : evalModel3 rc rn env t = .ok r) (h' : evalModel3 rc' rn' env t = .ok r') :
    r.shape = r'.shape ∧ ∀ i (hi : i < size r.shape) (hi' : i < size r'.shape), r.elem ⟨i, hi⟩ = r'.elem ⟨i, hi'⟩ := by
  obtain ⟨_, sf, hsf, ag1, ag2⟩ := expr3_den rc rn env henv t r h
  obtain ⟨_, sf', hsf', ag1', ag2'⟩ := expr3_den rc' rn' env henv t r' h'
  rw [hsf] at hsf'
  injection hsf' with hsf'
  subst hsf'
  exact ⟨ag1.trans ag1'.symm, fun i hi hi' => (ag2 i hi).trans (ag2' i hi').symm⟩

/-! ### 6. success does not depend on the flags (programs without `deriv`) -/

/-- whether an operand can be broadcast to `s` depends on its shape only -/
theorem Arr.bcast_ok_of_shape (a a' : Arr R) (hs : a.shape = a'.shape) (s : List Nat)
    (p : Poly (Vec R (size s))) (h : a.bcast s = some p) (wa' : a'.WF) :
    ∃ p', a'.bcast s = some p' ∧ Np.WF p' := by
  obtain ⟨sh, pl⟩ := a
  obtain ⟨sh', pl'⟩ := a'
  simp only at hs
  subst hs
  unfold Arr.bcast at h ⊢
  cases hm : mkIndexMap (size s) (size sh) (bindex sh s) with
  | none => simp [hm] at h
  | some σ => exact ⟨_, rfl, WF_mapCoef _ _ wa'⟩

/-- a broadcasting binary operation that cannot fail on well-formed operands succeeds whenever one (with any other
column operation) succeeded on operands of the same shapes -/
theorem Arr.binop_ok_transfer (f g : (n : Nat) → Poly (Vec R n) → Poly (Vec R n) → Option (Poly (Vec R n)))
    (hg : ∀ n (x y : Poly (Vec R n)), Np.WF x → Np.WF y → ∃ z, g n x y = some z)
    (a b a' b' r : Arr R) (hsa : a.shape = a'.shape) (hsb : b.shape = b'.shape) (wa' : a'.WF) (wb' : b'.WF)
    (h : Arr.binop f a b = .ok r) : ∃ r', Arr.binop g a' b' = .ok r' := by
  unfold Arr.binop at h ⊢
  cases hs : bshape a.shape b.shape with
  | none => simp [hs] at h
  | some s =>
    simp only [hs] at h
    cases hpa : a.bcast s with
    | none => simp [hpa] at h
    | some pa =>
      cases hpb : b.bcast s with
      | none => simp [hpa, hpb] at h
      | some pb =>
        obtain ⟨pa', hpa', wpa'⟩ := Arr.bcast_ok_of_shape a a' hsa s pa hpa wa'
        obtain ⟨pb', hpb', wpb'⟩ := Arr.bcast_ok_of_shape b b' hsb s pb hpb wb'
        obtain ⟨z, hz⟩ := hg _ pa' pb' wpa' wpb'
        have hs' : bshape a'.shape b'.shape = some s := hsa ▸ hsb ▸ hs
        simp only [hs', hpa', hpb', hz]
        exact ⟨_, rfl⟩

theorem Arr.powArr_ok_transfer (rc rn rc' rn' : Bool) (a a' r : Arr R) (kshape ks : List Nat)
    (hsa : a.shape = a'.shape) (wa' : a'.WF) (h : Arr.powArr rc rn a kshape ks = .ok r) :
    ∃ r', Arr.powArr rc' rn' a' kshape ks = .ok r' := by
  cases hs : bshape a.shape kshape with
  | none => simp [Arr.powArr, hs] at h
  | some s =>
    cases hpa : a.bcast s with
    | none => simp [Arr.powArr, hs, hpa] at h
    | some pa =>
      cases hσk : mkIndexMap (size s) (size kshape) (bindex kshape s) with
      | none => simp [Arr.powArr, hs, hpa, hσk] at h
      | some σk =>
        obtain ⟨pa', hpa', _⟩ := Arr.bcast_ok_of_shape a a' hsa s pa hpa wa'
        obtain ⟨p, hp, _⟩ := Arr.powArr_ok rc' rn' a' kshape ks wa' s (hsa ▸ hs) pa' hpa' σk hσk
        exact ⟨_, hp⟩

mutual
theorem expr3_ok_transfer (rc rn rc' rn' : Bool) (env : List (Arr R)) (henv : ∀ a ∈ env, a.WF) :
    ∀ (t : Expr3), t.noDeriv = true → ∀ r, evalModel3 rc rn env t = .ok r →
      ∃ r', evalModel3 rc' rn' env t = .ok r'
  | .leaf i, _, r, h => by
    simp only [evalModel3] at h ⊢
    exact ⟨r, h⟩
  | .add x y, hn, r, h => by
    simp only [Expr3.noDeriv, Bool.and_eq_true] at hn
    simp only [evalModel3] at h ⊢
    obtain ⟨a, hx, h⟩ := bind_ok h
    obtain ⟨b, hy, h⟩ := bind_ok h
    obtain ⟨a', hx'⟩ := expr3_ok_transfer rc rn rc' rn' env henv x hn.1 a hx
    obtain ⟨b', hy'⟩ := expr3_ok_transfer rc rn rc' rn' env henv y hn.2 b hy
    rw [hx', hy']
    show ∃ r', Arr.add rc' rn' a' b' = .ok r'
    exact Arr.binop_ok_transfer _ (fun _ p q => some (Np.add rc' rn' p q)) (fun _ _ _ _ _ => ⟨_, rfl⟩) a b a' b' r
      (expr3_indep rc rn rc' rn' env henv x a a' hx hx').1 (expr3_indep rc rn rc' rn' env henv y b b' hy hy').1
      (expr3_wf rc' rn' env henv x a' hx') (expr3_wf rc' rn' env henv y b' hy') h
  | .sub x y, hn, r, h => by
    simp only [Expr3.noDeriv, Bool.and_eq_true] at hn
    simp only [evalModel3] at h ⊢
    obtain ⟨a, hx, h⟩ := bind_ok h
    obtain ⟨b, hy, h⟩ := bind_ok h
    obtain ⟨a', hx'⟩ := expr3_ok_transfer rc rn rc' rn' env henv x hn.1 a hx
    obtain ⟨b', hy'⟩ := expr3_ok_transfer rc rn rc' rn' env henv y hn.2 b hy
    rw [hx', hy']
    show ∃ r', Arr.sub rc' rn' a' b' = .ok r'
    exact Arr.binop_ok_transfer _ (fun _ p q => some (Np.sub rc' rn' p q)) (fun _ _ _ _ _ => ⟨_, rfl⟩) a b a' b' r
      (expr3_indep rc rn rc' rn' env henv x a a' hx hx').1 (expr3_indep rc rn rc' rn' env henv y b b' hy hy').1
      (expr3_wf rc' rn' env henv x a' hx') (expr3_wf rc' rn' env henv y b' hy') h
  | .mul x y, hn, r, h => by
    simp only [Expr3.noDeriv, Bool.and_eq_true] at hn
    simp only [evalModel3] at h ⊢
    obtain ⟨a, hx, h⟩ := bind_ok h
    obtain ⟨b, hy, h⟩ := bind_ok h
    obtain ⟨a', hx'⟩ := expr3_ok_transfer rc rn rc' rn' env henv x hn.1 a hx
    obtain ⟨b', hy'⟩ := expr3_ok_transfer rc rn rc' rn' env henv y hn.2 b hy
    rw [hx', hy']
    exact Arr.binop_ok_transfer _ _
      (fun _ p q wp wq => (mul_den rc' rn' p q wp wq).imp fun _ hz => hz.1) a b a' b' r
      (expr3_indep rc rn rc' rn' env henv x a a' hx hx').1 (expr3_indep rc rn rc' rn' env henv y b b' hy hy').1
      (expr3_wf rc' rn' env henv x a' hx') (expr3_wf rc' rn' env henv y b' hy') h
  | .neg x, hn, r, h => by
    simp only [Expr3.noDeriv] at hn
    simp only [evalModel3] at h ⊢
    obtain ⟨a, hx, h⟩ := bind_ok h
    obtain ⟨a', hx'⟩ := expr3_ok_transfer rc rn rc' rn' env henv x hn a hx
    rw [hx']; exact ⟨_, rfl⟩
  | .pos x, hn, r, h => by
    simp only [Expr3.noDeriv] at hn
    simp only [evalModel3] at h ⊢
    obtain ⟨a, hx, h⟩ := bind_ok h
    obtain ⟨a', hx'⟩ := expr3_ok_transfer rc rn rc' rn' env henv x hn a hx
    rw [hx']; exact ⟨_, rfl⟩
  | .pow x k, hn, r, h => by
    simp only [Expr3.noDeriv] at hn
    simp only [evalModel3] at h ⊢
    obtain ⟨a, hx, h⟩ := bind_ok h
    obtain ⟨a', hx'⟩ := expr3_ok_transfer rc rn rc' rn' env henv x hn a hx
    obtain ⟨r', hr', _⟩ := Arr.pow_spec rc' rn' a' k (expr3_wf rc' rn' env henv x a' hx')
    rw [hx']; exact ⟨r', hr'⟩
  | .powArr x kshape ks, hn, r, h => by
    simp only [Expr3.noDeriv] at hn
    simp only [evalModel3] at h ⊢
    obtain ⟨a, hx, h⟩ := bind_ok h
    obtain ⟨a', hx'⟩ := expr3_ok_transfer rc rn rc' rn' env henv x hn a hx
    rw [hx']
    exact Arr.powArr_ok_transfer rc rn rc' rn' a a' r kshape ks
      (expr3_indep rc rn rc' rn' env henv x a a' hx hx').1 (expr3_wf rc' rn' env henv x a' hx') h
  | .deriv x name, hn, _, _ => by simp [Expr3.noDeriv] at hn
  | .gather x outShape idx, hn, r, h => by
    simp only [Expr3.noDeriv] at hn
    simp only [evalModel3] at h ⊢
    obtain ⟨a, hx, h⟩ := bind_ok h
    obtain ⟨a', hx'⟩ := expr3_ok_transfer rc rn rc' rn' env henv x hn a hx
    rw [hx']; exact ⟨_, rfl⟩
  | .join xs outShape idx, hn, r, h => by
    simp only [Expr3.noDeriv] at hn
    simp only [evalModel3] at h ⊢
    obtain ⟨as, hx, h⟩ := bind_ok h
    obtain ⟨as', hx'⟩ := exprList3_ok_transfer rc rn rc' rn' env henv xs hn as hx
    rw [hx']; exact ⟨_, rfl⟩
  | .sum x outShape W, hn, r, h => by
    simp only [Expr3.noDeriv] at hn
    simp only [evalModel3] at h ⊢
    obtain ⟨a, hx, h⟩ := bind_ok h
    obtain ⟨a', hx'⟩ := expr3_ok_transfer rc rn rc' rn' env henv x hn a hx
    rw [hx']; exact ⟨_, rfl⟩
theorem exprList3_ok_transfer (rc rn rc' rn' : Bool) (env : List (Arr R)) (henv : ∀ a ∈ env, a.WF) :
    ∀ (ts : List Expr3), Expr3.noDerivList ts = true → ∀ rs, evalList3 rc rn env ts = .ok rs →
      ∃ rs', evalList3 rc' rn' env ts = .ok rs'
  | [], _, _, _ => ⟨[], by simp only [evalList3]⟩
  | x :: xs, hn, rs, h => by
    simp only [Expr3.noDerivList, Bool.and_eq_true] at hn
    simp only [evalList3] at h ⊢
    obtain ⟨a, hx, h⟩ := bind_ok h
    obtain ⟨as, hxs, h⟩ := bind_ok h
    obtain ⟨a', hx'⟩ := expr3_ok_transfer rc rn rc' rn' env henv x hn.1 a hx
    obtain ⟨as', hxs'⟩ := exprList3_ok_transfer rc rn rc' rn' env henv xs hn.2 as hxs
    rw [hx', hxs']; exact ⟨_, rfl⟩
end

/-- (c) for programs without `deriv`: evaluation succeeds under one setting of the retain flags iff it does under
any other -/
theorem expr3_succeeds_indep (rc rn rc' rn' : Bool) (env : List (Arr R)) (henv : ∀ a ∈ env, a.WF) (t : Expr3)
    (hn : t.noDeriv = true) :
    (∃ r, evalModel3 rc rn env t = .ok r) ↔ (∃ r', evalModel3 rc' rn' env t = .ok r') :=
  ⟨fun ⟨r, h⟩ => expr3_ok_transfer rc rn rc' rn' env henv t hn r h,
   fun ⟨r, h⟩ => expr3_ok_transfer rc' rn' rc rn env henv t hn r h⟩

/-! ### 7. `deriv`: success DOES depend on `retain_names` (and, through it, on `retain_coefficients`) -/

def failsWithValueError {α : Type} : Except Err α → Bool
  | .error .valueError => true
  | _ => false

theorem eq_of_failsWithValueError {α : Type} (x : Except Err α) (h : failsWithValueError x = true) :
    x = .error .valueError := by
  cases x with
  | ok r => simp [failsWithValueError] at h
  | error e => cases e <;> first | rfl | simp [failsWithValueError] at h

theorem ok_of_isOk {α : Type} (x : Except Err α) (h : x.isOk = true) : ∃ r, x = .ok r := by
  cases x with
  | ok r => exact ⟨r, rfl⟩
  | error e => simp [Except.isOk, Except.toBool] at h

/-- the witness: `derivative(q0*q1 - q0*q1, "q1")`. With `retain_names=True` the difference still carries `q1` and the
derivative is computed; with both flags off the difference is the constant 0 over `("q0",)` and
`poly.names.index("q1")` raises `ValueError`. (Whenever both succeed the values agree: `expr3_indep`.) -/
theorem deriv_success_depends_on_flags :
    ∃ (env : List (Arr Int)) (t : Expr3), (∀ a ∈ env, a.WF) ∧
      (∃ r, evalModel3 true true env t = .ok r) ∧ (∃ r, evalModel3 true false env t = .ok r) ∧
      evalModel3 false false env t = .error .valueError := by
  refine ⟨[⟨[], { names := [0, 1], terms := [([1, 1], #v[1])] }⟩], .deriv (.sub (.leaf 0) (.leaf 0)) 1, ?_,
    ok_of_isOk _ (by decide +kernel), ok_of_isOk _ (by decide +kernel),
    eq_of_failsWithValueError _ (by decide +kernel)⟩
  intro a ha
  rw [List.mem_singleton] at ha
  subst ha
  exact ⟨by decide, by decide, by decide⟩

/-! ### 8. the old programs -/

/-- on embedded `Expr2` programs the two evaluators coincide, so `expr2_den_unique` / `program_indep` are instances of
`expr3_indep` -/
theorem evalModel3_embed3 (rc rn : Bool) (env : List (Arr R)) :
    ∀ t : Expr2, evalModel3 rc rn env t.embed3 = evalModel2 rc rn env t
  | .leaf i => by
    simp only [Expr2.embed3, evalModel3, evalModel2]
    cases env[i]? <;> rfl
  | .add x y => by
    simp only [Expr2.embed3, evalModel3, evalModel2, evalModel3_embed3 rc rn env x, evalModel3_embed3 rc rn env y]
  | .sub x y => by
    simp only [Expr2.embed3, evalModel3, evalModel2, evalModel3_embed3 rc rn env x, evalModel3_embed3 rc rn env y]
  | .mul x y => by
    simp only [Expr2.embed3, evalModel3, evalModel2, evalModel3_embed3 rc rn env x, evalModel3_embed3 rc rn env y]
  | .neg x => by simp only [Expr2.embed3, evalModel3, evalModel2, evalModel3_embed3 rc rn env x]
  | .pos x => by simp only [Expr2.embed3, evalModel3, evalModel2, evalModel3_embed3 rc rn env x]
  | .pow x k => by simp only [Expr2.embed3, evalModel3, evalModel2, evalModel3_embed3 rc rn env x]
  | .powArr x kshape ks => by simp only [Expr2.embed3, evalModel3, evalModel2, evalModel3_embed3 rc rn env x]

theorem noDeriv_embed3 : ∀ t : Expr2, t.embed3.noDeriv = true
  | .leaf _ => rfl
  | .add x y | .sub x y | .mul x y => by simp only [Expr2.embed3, Expr3.noDeriv, noDeriv_embed3 x, noDeriv_embed3 y, Bool.and_self]
  | .neg x | .pos x | .pow x _ | .powArr x _ _ => by simp only [Expr2.embed3, Expr3.noDeriv, noDeriv_embed3 x]

/-- non-vacuity: a program using every new constructor evaluates under both extreme settings of the flags -/
example :
    let a : Arr Int := ⟨[], { names := [0, 1], terms := [([1, 1], #v[1])] }⟩
    let t : Expr3 := .sum (.join [.leaf 0, .deriv (.mul (.leaf 0) (.leaf 0)) 1, .gather (.leaf 0) [2] [1, 0]] [4]
      [1, 2, 3, 4]) [] [[(0, 1), (1, -1), (2, 3)]]
    (evalModel3 true true [a] t).isOk = true ∧ (evalModel3 false false [a] t).isOk = true := by decide +kernel
end Np

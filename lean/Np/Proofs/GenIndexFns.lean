import Np.Proofs.IndexFns
import Np.Proofs.AdvIndexFns
import Np.Model.GenIndexFns
/-! C09: the general index expression `a[items]` (`Np/Model/GenIndexFns.lean`) in terms of multi-indices: (a) one
entry per output position, (b) every entry is a position of the operand, (c) the two-stage characterisation: the
output multi-index `pre ++ b ++ post` reads the view at `mixIn vs m b (pre ++ post)` (advanced axes read their index
arrays at `b`, kept axes take the components of `pre ++ post`) and the view reads the operand by numpy's rules for
basic indexing (`Reads`). -/
namespace Np.GenIndexFns
open Np.Shape Np.ShapeFns Np.SelectFns Np.IndexFns Np.AdvIndexFns

/-! ### the advanced stage with an explicit position of the broadcast axes -/

theorem mixedIndexF_eq_at (shape : List Nat) (items : List (Option Ix)) :
    mixedIndexF shape items = mixedAtF shape items (bpos items) := rfl

theorem mixedAtF_eq {shape : List Nat} {items : List (Option Ix)} {p : Nat} {out idx : List Nat}
    (h : mixedAtF shape items p = some (out, idx)) :
    ∃ B, bshapeAll ((items.filterMap id).map (·.1)) = some B ∧ mixOK (size B != 0) shape items = true ∧
      out = (slicedDims shape items).take p ++ B ++ (slicedDims shape items).drop p ∧
      idx = gatherBy shape out fun j => mixIn shape items ((j.drop p).take B.length)
        (j.take p ++ j.drop (p + B.length)) := by
  unfold mixedAtF at h
  split at h
  · simp at h
  · rename_i B hB
    split at h
    · simp only [Option.some.injEq, Prod.mk.injEq] at h
      obtain ⟨rfl, rfl⟩ := h
      exact ⟨B, hB, ‹_›, rfl, rfl⟩
    · simp at h

theorem mixedAtF_length {shape : List Nat} {items : List (Option Ix)} {p : Nat} {out idx : List Nat}
    (h : mixedAtF shape items p = some (out, idx)) : idx.length = size out := by
  obtain ⟨B, -, -, -, rfl⟩ := mixedAtF_eq h
  exact gatherBy_length _ _ _

theorem mixedAtF_lt {shape : List Nat} {items : List (Option Ix)} {p : Nat} {out idx : List Nat}
    (hp : p ≤ (slicedDims shape items).length)
    (h : mixedAtF shape items p = some (out, idx)) : ∀ k ∈ idx, k < size shape := by
  obtain ⟨B, hB, hok, rfl, rfl⟩ := mixedAtF_eq h
  refine gatherBy_lt fun j hj => ?_
  obtain ⟨pre, b, post, rfl, h1, h2, h3⟩ := valid_parts hj
  obtain ⟨e1, e2⟩ := mix_args (post := post) (by rw [h1.1, List.length_take_of_le hp]) h2.1
  rw [e1, e2]
  rw [chk_of_valid h2] at hok
  have := valid_append h1 h3
  rw [List.take_append_drop] at this
  exact mix_valid h2 hok (mixed_bcast hB) this

/-- the advanced stage: with `sl` the extents of the kept axes and `B` the broadcast shape of the index arrays the
output shape is `sl[:p] ++ B ++ sl[p:]`, and output multi-index `pre ++ b ++ post` reads `mixIn shape items b (pre ++
post)`, a valid position -/
theorem mixedAtF_spec {shape : List Nat} {items : List (Option Ix)} {p : Nat} {out idx : List Nat}
    (hp : p ≤ (slicedDims shape items).length) (h : mixedAtF shape items p = some (out, idx)) :
    ∃ B, bshapeAll ((items.filterMap id).map (·.1)) = some B ∧ (∀ ix ∈ items.filterMap id, BcastTo ix.1 B) ∧
      out = (slicedDims shape items).take p ++ B ++ (slicedDims shape items).drop p ∧
      ∀ pre b post, Valid ((slicedDims shape items).take p) pre → Valid B b →
        Valid ((slicedDims shape items).drop p) post →
        idx[ravel out (pre ++ b ++ post)]? = some (ravel shape (mixIn shape items b (pre ++ post))) ∧
        Valid shape (mixIn shape items b (pre ++ post)) ∧ mixOK true shape items = true := by
  obtain ⟨B, hB, hok, rfl, rfl⟩ := mixedAtF_eq h
  refine ⟨B, hB, mixed_bcast hB, rfl, fun pre b post h1 h2 h3 => ?_⟩
  have hj := valid_append (valid_append h1 h2) h3
  obtain ⟨e1, e2⟩ := mix_args (post := post) (by rw [h1.1, List.length_take_of_le hp]) h2.1
  rw [chk_of_valid h2] at hok
  have hs := valid_append h1 h3
  rw [List.take_append_drop] at hs
  refine ⟨?_, mix_valid h2 hok (mixed_bcast hB) hs, hok⟩
  rw [gatherBy_spec hj, e1, e2]

theorem bposG_le {chk : Bool} {vs : List Nat} {m : List (Option Ix)} (items : List GItem)
    (h : mixOK chk vs m = true) : bposG items m ≤ (slicedDims vs m).length := by
  have := lead_le h
  unfold bposG
  split <;> omega

/-! ### the view stage never contains an ellipsis -/

theorem translate_noEllipsis : ∀ {shape : List Nat} {items : List GItem} {v : List Item} {m : List (Option Ix)},
    translate shape items = some (v, m) → ∀ it ∈ v, it.isEllipsis = false
  | _, [], v, m, h => by
    simp only [translate, Option.some.injEq, Prod.mk.injEq] at h
    obtain ⟨rfl, -⟩ := h
    simp
  | shape, .newaxis :: items, v, m, h => by
    simp only [translate, Option.map_eq_some_iff] at h
    obtain ⟨r, hr, he⟩ := h
    simp only [Prod.mk.injEq] at he
    obtain ⟨rfl, -⟩ := he
    intro it hit
    rcases List.mem_cons.1 hit with rfl | hit
    · rfl
    · exact translate_noEllipsis (v := r.1) (m := r.2) hr it hit
  | _, .ellipsis :: _, _, _, h => by simp [translate] at h
  | [], .int _ :: _, _, _, h => by simp [translate] at h
  | [], .slice .. :: _, _, _, h => by simp [translate] at h
  | [], .arr _ :: _, _, _, h => by simp [translate] at h
  | n :: shape, .int i :: items, v, m, h => by
    simp only [translate] at h
    split at h
    · simp only [Option.map_eq_some_iff] at h
      obtain ⟨r, hr, he⟩ := h
      simp only [Prod.mk.injEq] at he
      obtain ⟨rfl, -⟩ := he
      intro it hit
      rcases List.mem_cons.1 hit with rfl | hit
      · rfl
      · exact translate_noEllipsis (v := r.1) (m := r.2) hr it hit
    · simp at h
  | _ :: shape, .slice a b st :: items, v, m, h => by
    simp only [translate, Option.map_eq_some_iff] at h
    obtain ⟨r, hr, he⟩ := h
    simp only [Prod.mk.injEq] at he
    obtain ⟨rfl, -⟩ := he
    intro it hit
    rcases List.mem_cons.1 hit with rfl | hit
    · rfl
    · exact translate_noEllipsis (v := r.1) (m := r.2) hr it hit
  | n :: shape, .arr ix :: items, v, m, h => by
    simp only [translate] at h
    split at h
    · simp only [Option.map_eq_some_iff] at h
      obtain ⟨r, hr, he⟩ := h
      simp only [Prod.mk.injEq] at he
      obtain ⟨rfl, -⟩ := he
      intro it hit
      rcases List.mem_cons.1 hit with rfl | hit
      · rfl
      · exact translate_noEllipsis (v := r.1) (m := r.2) hr it hit
    · simp at h
  | shape, .mask ms bits :: items, v, m, h => by
    simp only [translate] at h
    split at h
    · simp only [Option.map_eq_some_iff] at h
      obtain ⟨r, hr, he⟩ := h
      simp only [Prod.mk.injEq] at he
      obtain ⟨rfl, -⟩ := he
      intro it hit
      rcases List.mem_append.1 hit with hit | hit
      · rw [List.eq_of_mem_replicate hit]; rfl
      · exact translate_noEllipsis (v := r.1) (m := r.2) hr it hit
    · simp at h

/-! ### the two stages -/

/-- an advanced index that numpy accepts decomposes into the view stage and the advanced stage -/
theorem genIndexF_adv_eq {shape : List Nat} {items : List GItem} {out idx : List Nat}
    (ha : items.any GItem.isAdvanced = true) (h : genIndexF shape items = some (out, idx)) :
    ∃ items' v m vs idx1 idx2, expandG shape.length items = some items' ∧ translate shape items' = some (v, m) ∧
      basicIndexF shape v = some (vs, idx1) ∧ mixedAtF vs m (bposG items m) = some (out, idx2) ∧
      idx = idx2.map fun k => idx1.getD k 0 := by
  unfold genIndexF at h
  rw [if_pos ha] at h
  split at h
  · simp at h
  · rename_i items' h1
    split at h
    · simp at h
    · rename_i v m h2
      split at h
      · simp at h
      · rename_i vs idx1 h3
        split at h
        · simp at h
        · rename_i out' idx2 h4
          simp only [Option.some.injEq, Prod.mk.injEq] at h
          obtain ⟨rfl, rfl⟩ := h
          exact ⟨items', v, m, vs, idx1, idx2, h1, h2, h3, h4, rfl⟩

/-- without an integer array or a mask the index is a basic one -/
theorem genIndexF_basic {shape : List Nat} {items : List GItem} (ha : items.any GItem.isAdvanced = false) :
    genIndexF shape items = basicIndexF shape (items.map GItem.toBasic) := by
  unfold genIndexF
  rw [if_neg (by simp [ha])]

/-- (a) one entry per output position -/
theorem genIndexF_length {shape : List Nat} {items : List GItem} {out idx : List Nat}
    (h : genIndexF shape items = some (out, idx)) : idx.length = size out := by
  cases ha : items.any GItem.isAdvanced
  · rw [genIndexF_basic ha] at h
    exact basicIndexF_length h
  · obtain ⟨_, _, _, _, _, idx2, -, -, -, h4, rfl⟩ := genIndexF_adv_eq ha h
    rw [List.length_map]
    exact mixedAtF_length h4

/-- (b) every entry is a position of the operand -/
theorem genIndexF_lt {shape : List Nat} {items : List GItem} {out idx : List Nat}
    (h : genIndexF shape items = some (out, idx)) : ∀ k ∈ idx, k < size shape := by
  cases ha : items.any GItem.isAdvanced
  · rw [genIndexF_basic ha] at h
    exact basicIndexF_lt h
  · obtain ⟨_, v, m, vs, idx1, idx2, -, -, h3, h4, rfl⟩ := genIndexF_adv_eq ha h
    intro k hk
    obtain ⟨k2, hk2, rfl⟩ := List.mem_map.1 hk
    obtain ⟨B, -, hok, -, -⟩ := mixedAtF_eq h4
    have hlt := mixedAtF_lt (bposG_le items hok) h4 k2 hk2
    have hlen := basicIndexF_length h3
    have hmem : idx1.getD k2 0 ∈ idx1 := by
      rw [List.getD_eq_getElem?_getD, List.getElem?_eq_getElem (by omega)]
      exact List.getElem_mem _
    exact basicIndexF_lt h3 _ hmem

/-- (c) the element read: output multi-index `pre ++ b ++ post` (`b` runs over the broadcast shape `B` of the index
arrays, `pre ++ post` over the kept axes of the view) reads the view at `y = mixIn vs m b (pre ++ post)`, and the view
reads the operand at the `x` that numpy's rules for basic indexing (`Reads`) assign to `y` -/
theorem genIndexF_spec {shape : List Nat} {items : List GItem} {out idx : List Nat}
    (ha : items.any GItem.isAdvanced = true) (h : genIndexF shape items = some (out, idx)) :
    ∃ items' v m vs B, expandG shape.length items = some items' ∧ translate shape items' = some (v, m) ∧
      bshapeAll ((m.filterMap id).map (·.1)) = some B ∧ (∀ ix ∈ m.filterMap id, BcastTo ix.1 B) ∧
      bposG items m ≤ (slicedDims vs m).length ∧
      out = (slicedDims vs m).take (bposG items m) ++ B ++ (slicedDims vs m).drop (bposG items m) ∧
      ∀ pre b post, Valid ((slicedDims vs m).take (bposG items m)) pre → Valid B b →
        Valid ((slicedDims vs m).drop (bposG items m)) post →
        ∃ x, Reads shape v vs (mixIn vs m b (pre ++ post)) x ∧ Valid shape x ∧
          idx[ravel out (pre ++ b ++ post)]? = some (ravel shape x) := by
  obtain ⟨items', v, m, vs, idx1, idx2, h1, h2, h3, h4, rfl⟩ := genIndexF_adv_eq ha h
  obtain ⟨B', -, hok, -, -⟩ := mixedAtF_eq h4
  have hp := bposG_le items hok
  obtain ⟨B, hB, hbc, hout, hrd⟩ := mixedAtF_spec hp h4
  refine ⟨items', v, m, vs, B, h1, h2, hB, hbc, hp, hout, fun pre b post hv1 hv2 hv3 => ?_⟩
  obtain ⟨e, hy, -⟩ := hrd pre b post hv1 hv2 hv3
  obtain ⟨x, hr, hx, hi⟩ := basicIndexF_spec (translate_noEllipsis h2) h3 hy
  refine ⟨x, hr, hx, ?_⟩
  rw [List.getElem?_map, e, Option.map_some, List.getD_eq_getElem?_getD, hi]
  rfl

end Np.GenIndexFns

/-! ### a boolean mask of the operand's own shape selects the `True` positions in C order -/
namespace Np.GenIndexFns
open Np.Shape Np.ShapeFns Np.SelectFns Np.IndexFns Np.AdvIndexFns

theorem inIndex_full : ∀ (shape j : List Nat), j.length = shape.length →
    inIndex (shape.map fun n => AxOp.sl 0 1 n) j = j
  | [], j, h => by
    have : j = [] := List.length_eq_zero_iff.1 (by simpa using h)
    subst this; rfl
  | n :: shape, [], h => by simp at h
  | n :: shape, x :: xs, h => by
    simp only [List.map_cons, inIndex, List.headD_cons, List.tail_cons]
    rw [inIndex_full shape xs (by simpa using h)]
    congr 1
    omega

theorem resolve_fulls : ∀ shape : List Nat,
    resolve shape (List.replicate shape.length Item.full) = some (shape.map fun n => AxOp.sl 0 1 n)
  | [] => rfl
  | n :: shape => by
    rw [List.length_cons, List.replicate_succ]
    show resolve (n :: shape) (Item.slice none none 1 :: List.replicate shape.length Item.full) = _
    rw [resolve, sliceIndices_full]
    simp only [resolve_fulls shape, Option.map_some, sliceLen_full, List.map_cons]

/-- the view `a[:, :, ..., :]` is the operand itself -/
theorem basicIndexF_fulls (shape : List Nat) :
    basicIndexF shape (List.replicate shape.length Item.full) = some (shape, List.range (size shape)) := by
  have hne : ∀ it ∈ List.replicate shape.length Item.full, it.isEllipsis = false := by
    intro it hit
    rw [List.eq_of_mem_replicate hit]; rfl
  unfold basicIndexF
  rw [expand_of_no_ellipsis _ hne]
  simp only [resolve_fulls, outShape_full, Option.some.injEq, Prod.mk.injEq, true_and]
  unfold gatherBy
  conv => rhs; rw [← List.map_id (List.range (size shape))]
  refine List.map_congr_left fun i hi => ?_
  have hi' : i < size shape := List.mem_range.1 hi
  have hpos := pos_of_size_pos (s := shape) (by omega)
  rw [inIndex_full shape _ (unravel_length shape i), ravel_unravel hpos hi']
  rfl

theorem truePos_lt {bits : List Bool} {p : Nat} (h : p ∈ truePos bits) : p < bits.length := by
  unfold truePos at h
  exact List.mem_range.1 (List.mem_filter.1 h).1

theorem maskCols_length (ms : List Nat) (bits : List Bool) : (maskCols ms bits).length = ms.length := by
  simp [maskCols]

theorem maskCols_shapes (ms : List Nat) (bits : List Bool) :
    (maskCols ms bits).map (·.1) = List.replicate ms.length [(truePos bits).length] := by
  unfold maskCols
  rw [List.map_map]
  exact List.ext_getElem (by simp) fun d h1 h2 => by simp

theorem bshape_one_self (c : Nat) : bshape [c] [c] = some [c] := by
  simp [bshape, bshapeRev]

theorem bshapeAll_replicate (c : Nat) : ∀ k : Nat, 0 < k → bshapeAll (List.replicate k [c]) = some [c]
  | 1, _ => bshapeAll_single [c]
  | k + 2, _ => by
    rw [List.replicate_succ, bshapeAll, bshapeAll_replicate c (k + 1) (by omega)]
    exact bshape_one_self c

theorem ixOK_of_all {chk : Bool} {n c : Nat} {data : List Int} (hl : data.length = c)
    (h : ∀ x ∈ data, inRange n x = true) : ixOK chk n (([c], data) : Ix) = true := by
  unfold ixOK
  have : data.all (inRange n) = true := List.all_eq_true.2 h
  simp [size, hl, this]

/-- the coordinate arrays of a mask are acceptable index arrays for the axes they stand for -/
theorem advOK_maskCols {bits : List Bool} (chk : Bool) : ∀ (pre ms : List Nat),
    (∀ d ∈ pre ++ ms, 0 < d) →
    advOK chk ms ((List.range ms.length).map fun d =>
      (([(truePos bits).length], (truePos bits).map fun p =>
        (((unravel (pre ++ ms) p).getD (pre.length + d) 0 : Nat) : Int)) : Ix)) = true
  | _, [], _ => rfl
  | pre, n :: ms, hpos => by
    rw [List.length_cons, List.range_succ_eq_map, List.map_cons, advOK, Bool.and_eq_true]
    constructor
    · refine ixOK_of_all (by simp) fun x hx => ?_
      obtain ⟨p, -, rfl⟩ := List.mem_map.1 hx
      have hv := unravel_valid hpos p
      have := hv.2 (pre.length + 0) (by simp)
      have e : (pre ++ n :: ms).getD (pre.length + 0) 0 = n := by simp
      rw [e] at this
      unfold inRange
      simp only [Bool.and_eq_true, decide_eq_true_eq]
      omega
    · have ih := advOK_maskCols (bits := bits) chk (pre ++ [n]) ms (by simpa using hpos)
      rw [List.map_map]
      have e : ∀ d p, (unravel (pre ++ [n] ++ ms) p).getD ((pre ++ [n]).length + d) 0 =
          (unravel (pre ++ n :: ms) p).getD (pre.length + (d + 1)) 0 := by
        intro d p
        rw [List.append_assoc, List.singleton_append, List.length_append, List.length_singleton, Nat.add_assoc,
          Nat.add_comm 1 d]
      simp only [e] at ih
      exact ih

theorem normAt_natCast (n x : Nat) : normAt n (x : Int) = x := by
  unfold normAt
  rw [if_neg (by omega)]
  simp

theorem ixAt_maskCol {ms : List Nat} {bits : List Bool} {t d n : Nat} (ht : t < (truePos bits).length) :
    ixAt n (([(truePos bits).length], (truePos bits).map fun p => (((unravel ms p).getD d 0 : Nat) : Int)) : Ix) [t] =
      (unravel ms ((truePos bits).getD t 0)).getD d 0 := by
  have hv : Valid [(truePos bits).length] [t] := valid_cons.2 ⟨ht, valid_nil.2 rfl⟩
  unfold ixAt
  simp only [bmulti_self hv]
  have hr : ravel [(truePos bits).length] [t] = t := by
    simp [ravel, size, Nat.mod_eq_of_lt ht]
  have e1 : (truePos bits).getD t 0 = (truePos bits)[t] := by
    rw [List.getD_eq_getElem?_getD, List.getElem?_eq_getElem ht, Option.getD_some]
  rw [hr, List.getD_eq_getElem?_getD, List.getElem?_map, List.getElem?_eq_getElem ht, Option.map_some,
    Option.getD_some, e1]
  exact normAt_natCast _ _

theorem zipWith_maskCols {shape : List Nat} {bits : List Bool} {t : Nat} (ht : t < (truePos bits).length) :
    List.zipWith (fun n ix => ixAt n ix [t]) shape (maskCols shape bits) =
      unravel shape ((truePos bits).getD t 0) := by
  refine List.ext_getElem (by simp [maskCols, unravel_length]) fun d h1 h2 => ?_
  have hd : d < shape.length := by simpa [maskCols] using h1
  rw [List.getElem_zipWith]
  have : (maskCols shape bits)[d]'(by simp [maskCols, hd]) =
      (([(truePos bits).length], (truePos bits).map fun p => (((unravel shape p).getD d 0 : Nat) : Int)) : Ix) := by
    simp [maskCols]
  rw [this, ixAt_maskCol ht, List.getD_eq_getElem?_getD, List.getElem?_eq_getElem h2]
  rfl

/-- **a boolean mask of the operand's own shape**: `a[mask]` is 1-d, has one entry per `True`, and lists the flat
positions of the `True`s in ascending (C) order - for every shape of at least one dimension without a zero-length axis
and every mask -/
theorem mask_selects_true_positions (shape : List Nat) (bits : List Bool) (hnd : shape.length ≠ 0)
    (hpos : ∀ d ∈ shape, 0 < d) (hb : bits.length = size shape) :
    genIndexF shape [.mask shape bits] = some ([(truePos bits).length], truePos bits) := by
  have hlt : ∀ p ∈ truePos bits, p < size shape := fun p hp => hb ▸ truePos_lt hp
  unfold genIndexF
  have ha : ([GItem.mask shape bits].any GItem.isAdvanced) = true := rfl
  rw [if_pos ha]
  have he : expandG shape.length [GItem.mask shape bits] = some [GItem.mask shape bits] := rfl
  rw [he]
  have ht : translate shape [GItem.mask shape bits] =
      some (List.replicate shape.length Item.full ++ [], (maskCols shape bits).map some ++ []) := by
    rw [translate, if_pos ⟨hnd, by simp, hb⟩]
    simp [translate]
  simp only [ht, List.append_nil, basicIndexF_fulls]
  have hp : bposG [GItem.mask shape bits] ((maskCols shape bits).map some) = 0 := by
    unfold bposG
    cases h : maskCols shape bits with
    | nil => simp [lead]
    | cons c cs => simp [lead]
  rw [hp, show mixedAtF shape ((maskCols shape bits).map some) 0 =
      mixedIndexF shape ((maskCols shape bits).map some) by
    rw [mixedIndexF_eq_at, bpos_map_some], ← advIndexF_eq_mixed]
  -- the advanced stage
  have hB : bshapeAll ((maskCols shape bits).map (·.1)) = some [(truePos bits).length] := by
    rw [maskCols_shapes]
    exact bshapeAll_replicate _ shape.length (Nat.pos_of_ne_zero hnd)
  have hok : ∀ chk, advOK chk shape (maskCols shape bits) = true := fun chk => by
    have := advOK_maskCols (bits := bits) chk [] shape (by simpa using hpos)
    simpa [maskCols] using this
  obtain ⟨⟨out, idx2⟩, hr⟩ := Option.isSome_iff_exists.1
    ((advIndexF_isSome shape (maskCols shape bits)).2 ⟨_, hB, hok _⟩)
  rw [hr]
  obtain ⟨B, hB', -, -, hout, hrd⟩ := advIndexF_spec hr
  rw [hB] at hB'
  obtain rfl : [(truePos bits).length] = B := Option.some.inj hB'
  have hdrop : shape.drop (maskCols shape bits).length = [] := by
    rw [maskCols_length, List.drop_length]
  rw [hdrop] at hout hrd
  rw [List.append_nil] at hout
  subst hout
  have hlen : idx2.length = (truePos bits).length := by
    rw [advIndexF_length hr]; simp [size]
  simp only [Option.some.injEq, Prod.mk.injEq, true_and]
  refine List.ext_getElem (by rw [List.length_map, hlen]) fun t h1 h2 => ?_
  have ht' : t < (truePos bits).length := h2
  have hv : Valid [(truePos bits).length] [t] := valid_cons.2 ⟨ht', valid_nil.2 rfl⟩
  obtain ⟨e, -, -⟩ := hrd [t] [] hv (valid_nil.2 rfl)
  have hr' : ravel [(truePos bits).length] ([t] ++ []) = t := by
    simp [ravel, size, Nat.mod_eq_of_lt ht']
  rw [hr', List.append_nil, zipWith_maskCols ht'] at e
  have hpt : (truePos bits).getD t 0 < size shape := by
    rw [List.getD_eq_getElem?_getD, List.getElem?_eq_getElem ht']
    exact hlt _ (List.getElem_mem _)
  rw [ravel_unravel hpos hpt] at e
  rw [List.getElem_map]
  have e2 : idx2[t] = (truePos bits).getD t 0 := by
    have := List.getElem?_eq_getElem (l := idx2) (by rw [hlen]; exact ht')
    rw [this] at e
    exact Option.some.inj e
  have e1 : (truePos bits).getD t 0 = (truePos bits)[t] := by
    rw [List.getD_eq_getElem?_getD, List.getElem?_eq_getElem ht', Option.getD_some]
  rw [e2, e1]
  rw [e1] at hpt
  rw [List.getD_eq_getElem?_getD, List.getElem?_eq_getElem (by simpa using hpt), Option.getD_some,
    List.getElem_range]

/-- the 1-d case: `a[mask]` on a vector lists the positions where the mask is `True` -/
theorem mask_index_1d (n : Nat) (bits : List Bool) (hn : 0 < n) (hb : bits.length = n) :
    genIndexF [n] [.mask [n] bits] = some ([(truePos bits).length], truePos bits) :=
  mask_selects_true_positions [n] bits (by simp) (by simpa using hn) (by simpa [size] using hb)
end Np.GenIndexFns

import Np.Proofs.IndexFns
import Np.Proofs.AdvIndexFns
import Np.Model.GenIndexFns
/-! C09: the general index expression `a[items]` (`Np/Model/GenIndexFns.lean`) in terms of multi-indices: (a) one
entry per output position, (b) every entry is a position of the operand, (c) the two-stage characterisation: the
output multi-index `pre ++ b ++ post` reads the view at `mixIn vs m b (pre ++ post)` (advanced axes read their index
arrays at `b`, kept axes take the components of `pre ++ post`) and the view reads the operand by numpy's rules for
basic indexing (`Reads`). -/
namespace Np.GenIndexFns
open Np.Shape Np.ShapeFns Np.SelectFns Np.IndexFns Np.AdvIndexFns

/-! ### the advanced stage with an explicit position of the broadcast axes -/

theorem mixedIndexF_eq_at (shape : List Nat) (items : List (Option Ix)) :
    mixedIndexF shape items = mixedAtF shape items (bpos items) := rfl

theorem mixedAtF_eq {shape : List Nat} {items : List (Option Ix)} {p : Nat} {out idx : List Nat}
    (h : mixedAtF shape items p = some (out, idx)) :
    ∃ B, bshapeAll ((items.filterMap id).map (·.1)) = some B ∧ mixOK (size B != 0) shape items = true ∧
      out = (slicedDims shape items).take p ++ B ++ (slicedDims shape items).drop p ∧
      idx = gatherBy shape out fun j => mixIn shape items ((j.drop p).take B.length)
        (j.take p ++ j.drop (p + B.length)) := by
  unfold mixedAtF at h
  split at h
  · simp at h
  · rename_i B hB
    split at h
    · simp only [Option.some.injEq, Prod.mk.injEq] at h
      obtain ⟨rfl, rfl⟩ := h
      exact ⟨B, hB, ‹_›, rfl, rfl⟩
    · simp at h

theorem mixedAtF_length {shape : List Nat} {items : List (Option Ix)} {p : Nat} {out idx : List Nat}
    (h : mixedAtF shape items p = some (out, idx)) : idx.length = size out := by
  obtain ⟨B, -, -, -, rfl⟩ := mixedAtF_eq h
  exact gatherBy_length _ _ _

theorem mixedAtF_lt {shape : List Nat} {items : List (Option Ix)} {p : Nat} {out idx : List Nat}
    (hp : p ≤ (slicedDims shape items).length)
    (h : mixedAtF shape items p = some (out, idx)) : ∀ k ∈ idx, k < size shape := by
  obtain ⟨B, hB, hok, rfl, rfl⟩ := mixedAtF_eq h
  refine gatherBy_lt fun j hj => ?_
  obtain ⟨pre, b, post, rfl, h1, h2, h3⟩ := valid_parts hj
  obtain ⟨e1, e2⟩ := mix_args (post := post) (by rw [h1.1, List.length_take_of_le hp]) h2.1
  rw [e1, e2]
  rw [chk_of_valid h2] at hok
  have := valid_append h1 h3
  rw [List.take_append_drop] at this
  exact mix_valid h2 hok (mixed_bcast hB) this

/-- the advanced stage: with `sl` the extents of the kept axes and `B` the broadcast shape of the index arrays the
output shape is `sl[:p] ++ B ++ sl[p:]`, and output multi-index `pre ++ b ++ post` reads `mixIn shape items b (pre ++
post)`, a valid position -/
theorem mixedAtF_spec {shape : List Nat} {items : List (Option Ix)} {p : Nat} {out idx : List Nat}
    (hp : p ≤ (slicedDims shape items).length) (h : mixedAtF shape items p = some (out, idx)) :
    ∃ B, bshapeAll ((items.filterMap id).map (·.1)) = some B ∧ (∀ ix ∈ items.filterMap id, BcastTo ix.1 B) ∧
      out = (slicedDims shape items).take p ++ B ++ (slicedDims shape items).drop p ∧
      ∀ pre b post, Valid ((slicedDims shape items).take p) pre → Valid B b →
        Valid ((slicedDims shape items).drop p) post →
        idx[ravel out (pre ++ b ++ post)]? = some (ravel shape (mixIn shape items b (pre ++ post))) ∧
        Valid shape (mixIn shape items b (pre ++ post)) ∧ mixOK true shape items = true := by
  obtain ⟨B, hB, hok, rfl, rfl⟩ := mixedAtF_eq h
  refine ⟨B, hB, mixed_bcast hB, rfl, fun pre b post h1 h2 h3 => ?_⟩
  have hj := valid_append (valid_append h1 h2) h3
  obtain ⟨e1, e2⟩ := mix_args (post := post) (by rw [h1.1, List.length_take_of_le hp]) h2.1
  rw [chk_of_valid h2] at hok
  have hs := valid_append h1 h3
  rw [List.take_append_drop] at hs
  refine ⟨?_, mix_valid h2 hok (mixed_bcast hB) hs, hok⟩
  rw [gatherBy_spec hj, e1, e2]

theorem bposG_le {chk : Bool} {vs : List Nat} {m : List (Option Ix)} (items : List GItem)
    (h : mixOK chk vs m = true) : bposG items m ≤ (slicedDims vs m).length := by
  have := lead_le h
  unfold bposG
  split <;> omega

/-! ### the view stage never contains an ellipsis -/

theorem translate_noEllipsis : ∀ {shape : List Nat} {items : List GItem} {v : List Item} {m : List (Option Ix)},
    translate shape items = some (v, m) → ∀ it ∈ v, it.isEllipsis = false
  | _, [], v, m, h => by
    simp only [translate, Option.some.injEq, Prod.mk.injEq] at h
    obtain ⟨rfl, -⟩ := h
    simp
  | shape, .newaxis :: items, v, m, h => by
    simp only [translate, Option.map_eq_some_iff] at h
    obtain ⟨r, hr, he⟩ := h
    simp only [Prod.mk.injEq] at he
    obtain ⟨rfl, -⟩ := he
    intro it hit
    rcases List.mem_cons.1 hit with rfl | hit
    · rfl
    · exact translate_noEllipsis (v := r.1) (m := r.2) hr it hit
  | _, .ellipsis :: _, _, _, h => by simp [translate] at h
  | [], .int _ :: _, _, _, h => by simp [translate] at h
  | [], .slice .. :: _, _, _, h => by simp [translate] at h
  | [], .arr _ :: _, _, _, h => by simp [translate] at h
  | n :: shape, .int i :: items, v, m, h => by
    simp only [translate] at h
    split at h
    · simp only [Option.map_eq_some_iff] at h
      obtain ⟨r, hr, he⟩ := h
      simp only [Prod.mk.injEq] at he
      obtain ⟨rfl, -⟩ := he
      intro it hit
      rcases List.mem_cons.1 hit with rfl | hit
      · rfl
      · exact translate_noEllipsis (v := r.1) (m := r.2) hr it hit
    · simp at h
  | _ :: shape, .slice a b st :: items, v, m, h => by
    simp only [translate, Option.map_eq_some_iff] at h
    obtain ⟨r, hr, he⟩ := h
    simp only [Prod.mk.injEq] at he
    obtain ⟨rfl, -⟩ := he
    intro it hit
    rcases List.mem_cons.1 hit with rfl | hit
    · rfl
    · exact translate_noEllipsis (v := r.1) (m := r.2) hr it hit
  | n :: shape, .arr ix :: items, v, m, h => by
    simp only [translate] at h
    split at h
    · simp only [Option.map_eq_some_iff] at h
      obtain ⟨r, hr, he⟩ := h
      simp only [Prod.mk.injEq] at he
      obtain ⟨rfl, -⟩ := he
      intro it hit
      rcases List.mem_cons.1 hit with rfl | hit
      · rfl
      · exact translate_noEllipsis (v := r.1) (m := r.2) hr it hit
    · simp at h
  | shape, .mask ms bits :: items, v, m, h => by
    simp only [translate] at h
    split at h
    · simp only [Option.map_eq_some_iff] at h
      obtain ⟨r, hr, he⟩ := h
      simp only [Prod.mk.injEq] at he
      obtain ⟨rfl, -⟩ := he
      intro it hit
      rcases List.mem_append.1 hit with hit | hit
      · rw [List.eq_of_mem_replicate hit]; rfl
      · exact translate_noEllipsis (v := r.1) (m := r.2) hr it hit
    · simp at h

/-! ### the two stages -/

/-- an advanced index that numpy accepts decomposes into the view stage and the advanced stage -/
theorem genIndexF_adv_eq {shape : List Nat} {items : List GItem} {out idx : List Nat}
    (ha : items.any GItem.isAdvanced = true) (h : genIndexF shape items = some (out, idx)) :
    ∃ items' v m vs idx1 idx2, expandG shape.length items = some items' ∧ translate shape items' = some (v, m) ∧
      basicIndexF shape v = some (vs, idx1) ∧ mixedAtF vs m (bposG items m) = some (out, idx2) ∧
      idx = idx2.map fun k => idx1.getD k 0 := by
  unfold genIndexF at h
  rw [if_pos ha] at h
  split at h
  · simp at h
  · rename_i items' h1
    split at h
    · simp at h
    · rename_i v m h2
      split at h
      · simp at h
      · rename_i vs idx1 h3
        split at h
        · simp at h
        · rename_i out' idx2 h4
          simp only [Option.some.injEq, Prod.mk.injEq] at h
          obtain ⟨rfl, rfl⟩ := h
          exact ⟨items', v, m, vs, idx1, idx2, h1, h2, h3, h4, rfl⟩

/-- without an integer array or a mask the index is a basic one -/
theorem genIndexF_basic {shape : List Nat} {items : List GItem} (ha : items.any GItem.isAdvanced = false) :
    genIndexF shape items = basicIndexF shape (items.map GItem.toBasic) := by
  unfold genIndexF
  rw [if_neg (by simp [ha])]

/-- (a) one entry per output position -/
theorem genIndexF_length {shape : List Nat} {items : List GItem} {out idx : List Nat}
    (h : genIndexF shape items = some (out, idx)) : idx.length = size out := by
  cases ha : items.any GItem.isAdvanced
  · rw [genIndexF_basic ha] at h
    exact basicIndexF_length h
  · obtain ⟨_, _, _, _, _, idx2, -, -, -, h4, rfl⟩ := genIndexF_adv_eq ha h
    rw [List.length_map]
    exact mixedAtF_length h4

/-- (b) every entry is a position of the operand -/
theorem genIndexF_lt {shape : List Nat} {items : List GItem} {out idx : List Nat}
    (h : genIndexF shape items = some (out, idx)) : ∀ k ∈ idx, k < size shape := by
  cases ha : items.any GItem.isAdvanced
  · rw [genIndexF_basic ha] at h
    exact basicIndexF_lt h
  · obtain ⟨_, v, m, vs, idx1, idx2, -, -, h3, h4, rfl⟩ := genIndexF_adv_eq ha h
    intro k hk
    obtain ⟨k2, hk2, rfl⟩ := List.mem_map.1 hk
    obtain ⟨B, -, hok, -, -⟩ := mixedAtF_eq h4
    have hlt := mixedAtF_lt (bposG_le items hok) h4 k2 hk2
    have hlen := basicIndexF_length h3
    have hmem : idx1.getD k2 0 ∈ idx1 := by
      rw [List.getD_eq_getElem?_getD, List.getElem?_eq_getElem (by omega)]
      exact List.getElem_mem _
    exact basicIndexF_lt h3 _ hmem

/-- (c) the element read: output multi-index `pre ++ b ++ post` (`b` runs over the broadcast shape `B` of the index
arrays, `pre ++ post` over the kept axes of the view) reads the view at `y = mixIn vs m b (pre ++ post)`, and the view
reads the operand at the `x` that numpy's rules for basic indexing (`Reads`) assign to `y` -/
theorem genIndexF_spec {shape : List Nat} {items : List GItem} {out idx : List Nat}
    (ha : items.any GItem.isAdvanced = true) (h : genIndexF shape items = some (out, idx)) :
    ∃ items' v m vs B, expandG shape.length items = some items' ∧ translate shape items' = some (v, m) ∧
      bshapeAll ((m.filterMap id).map (·.1)) = some B ∧ (∀ ix ∈ m.filterMap id, BcastTo ix.1 B) ∧
      bposG items m ≤ (slicedDims vs m).length ∧
      out = (slicedDims vs m).take (bposG items m) ++ B ++ (slicedDims vs m).drop (bposG items m) ∧
      ∀ pre b post, Valid ((slicedDims vs m).take (bposG items m)) pre → Valid B b →
        Valid ((slicedDims vs m).drop (bposG items m)) post →
        ∃ x, Reads shape v vs (mixIn vs m b (pre ++ post)) x ∧ Valid shape x ∧
          idx[ravel out (pre ++ b ++ post)]? = some (ravel shape x) := by
  obtain ⟨items', v, m, vs, idx1, idx2, h1, h2, h3, h4, rfl⟩ := genIndexF_adv_eq ha h
  obtain ⟨B', -, hok, -, -⟩ := mixedAtF_eq h4
  have hp := bposG_le items hok
  obtain ⟨B, hB, hbc, hout, hrd⟩ := mixedAtF_spec hp h4
  refine ⟨items', v, m, vs, B, h1, h2, hB, hbc, hp, hout, fun pre b post hv1 hv2 hv3 => ?_⟩
  obtain ⟨e, hy, -⟩ := hrd pre b post hv1 hv2 hv3
  obtain ⟨x, hr, hx, hi⟩ := basicIndexF_spec (translate_noEllipsis h2) h3 hy
  refine ⟨x, hr, hx, ?_⟩
  rw [List.getElem?_map, e, Option.map_some, List.getD_eq_getElem?_getD, hi]
  rfl

end Np.GenIndexFns

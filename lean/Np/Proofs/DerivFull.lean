import Np.Proofs.Deriv
import Np.Proofs.WF
/-! C06 (derivative), full statement: `derivative` / `derivativeMany` denote `pderiv`, keep the representation
invariant `WF`, keep the exponents below 2^32 and keep the names (when these are sorted). -/
open MvPolynomial
namespace Np
variable {S : Type} [CommSemiring S]
set_option linter.unusedSectionVars false

/-- every exponent fits a uint32 -/
def Bdd (p : Poly S) : Prop := ∀ e ∈ p.expos, ∀ x ∈ e, x < 4294967296

/-! ### 1. the uint32 decrement is injective below 2^32 -/

theorem decU32_injective_on {x y : Nat} (hx : x < 4294967296) (hy : y < 4294967296)
    (h : decU32 x = decU32 y) : x = y := by
  unfold decU32 at h
  split at h <;> split at h <;> omega

theorem decAt_injective (j : Nat) (e1 e2 : Expo) (hl : e1.length = e2.length)
    (h1 : ∀ x ∈ e1, x < 4294967296) (h2 : ∀ x ∈ e2, x < 4294967296)
    (h : decAt j e1 = decAt j e2) : e1 = e2 := by
  apply List.ext_getElem hl
  intro i hi1 hi2
  have hi1' : i < (decAt j e1).length := by simpa [decAt] using hi1
  have hi2' : i < (decAt j e2).length := by simpa [decAt] using hi2
  have hi : (decAt j e1)[i] = (decAt j e2)[i] := by simp only [h]
  simp only [decAt, List.getElem_modify] at hi
  by_cases hji : j = i
  · simp only [hji, if_true] at hi
    exact decU32_injective_on (h1 _ (List.getElem_mem hi1)) (h2 _ (List.getElem_mem hi2)) hi
  · simpa only [hji, if_false] using hi

/-! ### 2. the raw rows of the derivative are well-formed -/

theorem expos_derivTerms (j : Nat) (ts : List (Expo × S)) :
    (derivTerms j ts).map (·.1) = (ts.map (·.1)).map (decAt j) := by
  simp [derivTerms, List.map_map, Function.comp_def]

theorem WF_derivTerms (p : Poly S) (hw : WF p) (hb : Bdd p) (j : Nat) :
    WF ({ names := p.names, terms := derivTerms j p.terms } : Poly S) := by
  have hex : ({ names := p.names, terms := derivTerms j p.terms } : Poly S).expos = p.expos.map (decAt j) :=
    expos_derivTerms j p.terms
  refine ⟨hw.names_nodup, ?_, ?_⟩
  · rw [hex]
    apply List.Nodup.map_on _ hw.expos_nodup
    intro e1 m1 e2 m2 heq
    exact decAt_injective j e1 e2 (by rw [hw.row_len e1 m1, hw.row_len e2 m2]) (hb e1 m1) (hb e2 m2) heq
  · intro e he
    rw [hex] at he
    obtain ⟨e0, m0, rfl⟩ := List.mem_map.1 he
    simpa [decAt] using hw.row_len e0 m0

/-! ### the first component of `alignPair` -/

theorem expos_alignPair_fst (a b : Poly S) :
    (alignPair a b).1.expos = sortDedup expoLt ((alignIndet (commonNames a b) a).expos ++
      (alignIndet (commonNames a b) b).expos) := expos_alignExpo _ _

theorem WF_alignPair_fst (a b : Poly S) (ha : WF a) (hb : WF b) : WF (alignPair a b).1 := by
  have hc := commonNames_nodup a b
  have wa := WF_alignIndet (commonNames a b) a ha hc (fun n h => (mem_commonNames a b n).2 (Or.inl h))
  have wb := WF_alignIndet (commonNames a b) b hb hc (fun n h => (mem_commonNames a b n).2 (Or.inr h))
  refine ⟨hc, ?_, ?_⟩
  · rw [expos_alignPair_fst]
    exact nodup_of_sortedLt expoLt_strictTotal _ (sortedLt_sortDedup expoLt_strictTotal _)
  · intro e he
    rw [expos_alignPair_fst, mem_sortDedup expoLt_strictTotal, List.mem_append] at he
    rcases he with h | h
    · exact wa.row_len e h
    · exact wb.row_len e h

theorem den_alignPair_fst (a b : Poly S) (ha : WF a) (_hb : WF b) : den (alignPair a b).1 = den a := by
  have hc := commonNames_nodup a b
  have hsa : ∀ n ∈ a.names, n ∈ commonNames a b := fun n h => (mem_commonNames a b n).2 (Or.inl h)
  have wa := WF_alignIndet (commonNames a b) a ha hc hsa
  have da := den_alignIndet (commonNames a b) a ha.names_nodup hc
    (fun t _ n hn => expoAt_not_mem a.names t.1 n (fun h => hn (hsa n h)))
  rw [← da]
  exact den_alignExpo _ _ wa.expos_nodup
    (nodup_of_sortedLt expoLt_strictTotal _ (sortedLt_sortDedup expoLt_strictTotal _))
    (fun e h => (mem_sortDedup expoLt_strictTotal e _).2 (List.mem_append.2 (Or.inl h)))

/-! ### 3. the derivative denotes the formal partial derivative -/

theorem derivative_eq [BEq S] (rn : Bool) (j : Nat) (p : Poly S) :
    derivative rn j p = (alignPair (clean false rn { names := p.names, terms := derivTerms j p.terms }) p).1 := rfl

theorem derivative_den [BEq S] [LawfulBEq S] (rn : Bool) (j : Nat) (p : Poly S) (hw : WF p) (hb : Bdd p)
    (hj : j < p.names.length) : den (derivative rn j p) = pderiv (p.names[j]) (den p) := by
  have hq := WF_derivTerms p hw hb j
  rw [derivative_eq, den_alignPair_fst _ _ (WF_clean false rn _ hq) hw,
    den_clean false rn _ hq (WF_dropZeroCols _ hq)]
  exact denT_derivTerms p.names hw.names_nodup j hj p.terms
    (fun t ht => hw.row_len t.1 (List.mem_map_of_mem ht))

/-! ### 4. exponents stay below 2^32 -/

theorem expoAt_lt (ns : List Name) (e : Expo) (n : Name) (B : Nat) (hB : 0 < B) (h : ∀ x ∈ e, x < B) :
    expoAt ns e n < B := by
  induction ns generalizing e with
  | nil => simpa [expoAt] using hB
  | cons m ms ih =>
    cases e with
    | nil => simpa [expoAt] using hB
    | cons x xs =>
      simp only [expoAt]
      split
      · exact h x (by simp)
      · exact ih xs (fun y hy => h y (by simp [hy]))

theorem Bdd_alignIndet (common : List Name) (p : Poly S) (hb : Bdd p) : Bdd (alignIndet common p) := by
  intro e he x hx
  simp only [Poly.expos, alignIndet, List.map_map, List.mem_map, Function.comp] at he
  obtain ⟨t, ht, rfl⟩ := he
  simp only [scatter, List.mem_map] at hx
  obtain ⟨n, _, rfl⟩ := hx
  exact expoAt_lt _ _ _ _ (by decide) (hb t.1 (List.mem_map_of_mem ht))

theorem Bdd_dropZeroCols [BEq S] [LawfulBEq S] (p : Poly S) (h : Bdd p) : Bdd (dropZeroCols p) := by
  unfold dropZeroCols
  split
  · intro e he x hx
    simp only [Poly.expos, List.map_cons, List.map_nil, List.mem_singleton] at he
    subst he
    simp only [List.mem_map] at hx
    obtain ⟨_, _, rfl⟩ := hx
    decide
  · intro e he
    exact h e ((List.filter_sublist.map _).subset he)

theorem Bdd_clean [BEq S] [LawfulBEq S] (rc rn : Bool) (p : Poly S) (h : Bdd p) : Bdd (clean rc rn p) := by
  unfold clean
  cases rc <;> cases rn <;> simp only [Bool.false_eq_true, if_false, if_true]
  · exact Bdd_alignIndet _ _ (Bdd_dropZeroCols p h)
  · exact Bdd_dropZeroCols p h
  · exact Bdd_alignIndet _ _ h
  · exact h

theorem Bdd_alignPair_fst (a b : Poly S) (ha : Bdd a) (hb : Bdd b) : Bdd (alignPair a b).1 := by
  intro e he
  rw [expos_alignPair_fst, mem_sortDedup expoLt_strictTotal, List.mem_append] at he
  rcases he with h | h
  · exact Bdd_alignIndet _ a ha e h
  · exact Bdd_alignIndet _ b hb e h

/-- the decrement keeps the bound, wrapped or not: the wrapped value 4294967295 is itself a uint32 -/
theorem decAt_bdd (j : Nat) (e : Expo) (h : ∀ x ∈ e, x < 4294967296) : ∀ x ∈ decAt j e, x < 4294967296 := by
  intro x hx
  obtain ⟨i, hi, rfl⟩ := List.mem_iff_getElem.1 hx
  have hi' : i < e.length := by simpa [decAt] using hi
  simp only [decAt, List.getElem_modify]
  have hb := h e[i] (List.getElem_mem hi')
  split
  · unfold decU32
    split <;> omega
  · exact hb

theorem Bdd_derivTerms (p : Poly S) (hb : Bdd p) (j : Nat) :
    Bdd ({ names := p.names, terms := derivTerms j p.terms } : Poly S) := by
  intro e he
  have hex : ({ names := p.names, terms := derivTerms j p.terms } : Poly S).expos = p.expos.map (decAt j) :=
    expos_derivTerms j p.terms
  rw [hex] at he
  obtain ⟨e0, m0, rfl⟩ := List.mem_map.1 he
  exact decAt_bdd j e0 (hb e0 m0)

/-- a wrapped row is not the constant row -/
theorem decAt_not_zero (j : Nat) (e : Expo) (hj : j < e.length) (hz : e.getD j 0 = 0) :
    isZeroExpo (decAt j e) = false := by
  have hj' : j < (decAt j e).length := by simpa [decAt] using hj
  have hv : (decAt j e)[j] = 4294967295 := by
    have : e[j] = 0 := by simpa [List.getD_eq_getElem?_getD, List.getElem?_eq_getElem hj] using hz
    simp [decAt, this, decU32]
  cases hc : isZeroExpo (decAt j e) with
  | false => rfl
  | true =>
    simp only [isZeroExpo, List.all_eq_true, beq_iff_eq] at hc
    have := hc _ (List.getElem_mem hj')
    omega

/-- the wrapped rows (exponent 0 in position `j`, hence 4294967295 afterwards) have coefficient `0 * c = 0` and are
not the constant row: `remove_redundant_coefficients` (`dropZeroCols`) removes every one of them -/
theorem derivTerms_wrapped_removed [BEq S] [LawfulBEq S] (p : Poly S) (hw : WF p) (j : Nat)
    (hj : j < p.names.length) (t0 : Expo × S) (ht0 : t0 ∈ p.terms) (hz : t0.1.getD j 0 = 0) :
    (decAt j t0.1, ((t0.1.getD j 0 : Nat) : S) * t0.2) ∉
      (derivTerms j p.terms).filter (fun t => !(t.2 == 0) || isZeroExpo t.1) := by
  intro hmem
  have h2 := (List.mem_filter.1 hmem).2
  have hm : t0.1 ∈ p.expos := List.mem_map_of_mem ht0
  have hnz := decAt_not_zero j t0.1 (by rw [hw.row_len _ hm]; exact hj) hz
  have hc : ((t0.1.getD j 0 : Nat) : S) * t0.2 = 0 := by rw [hz, Nat.cast_zero, zero_mul]
  simp only [hnz, hc, beq_self_eq_true, Bool.not_true, Bool.or_false, Bool.false_eq_true] at h2

theorem derivative_Bdd [BEq S] [LawfulBEq S] (rn : Bool) (j : Nat) (p : Poly S) (hb : Bdd p) :
    Bdd (derivative rn j p) := by
  rw [derivative_eq]
  exact Bdd_alignPair_fst _ _ (Bdd_clean false rn _ (Bdd_derivTerms p hb j)) hb

theorem derivative_WF [BEq S] [LawfulBEq S] (rn : Bool) (j : Nat) (p : Poly S) (hw : WF p) (hb : Bdd p) :
    WF (derivative rn j p) ∧ Bdd (derivative rn j p) := by
  refine ⟨?_, derivative_Bdd rn j p hb⟩
  rw [derivative_eq]
  exact WF_alignPair_fst _ _ (WF_clean false rn _ (WF_derivTerms p hw hb j)) hw

/-! ### 5. the names are kept (when sorted), several variables -/

theorem insertSorted_of_mem {α : Type} {lt : α → α → Bool} (h : StrictTotal lt) (x : α) (l : List α)
    (hl : SortedLt lt l) (hx : x ∈ l) : insertSorted lt x l = l := by
  induction l with
  | nil => simp at hx
  | cons y ys ih =>
    simp only [SortedLt, List.pairwise_cons] at hl
    simp only [insertSorted]
    rcases List.mem_cons.1 hx with rfl | hm
    · simp [h.irrefl]
    · have hyx : lt y x = true := hl.1 x hm
      have hxy : lt x y = false := by
        cases hc : lt x y with
        | false => rfl
        | true => have := h.trans x y x hc hyx; rw [h.irrefl] at this; exact absurd this (by simp)
      simp only [hxy, hyx, Bool.false_eq_true, if_false, if_true]
      rw [ih hl.2 hm]

theorem sortDedup_of_sorted {α : Type} {lt : α → α → Bool} (l : List α) (hl : SortedLt lt l) :
    sortDedup lt l = l := by
  induction l with
  | nil => rfl
  | cons y ys ih =>
    simp only [SortedLt, List.pairwise_cons] at hl
    have : sortDedup lt (y :: ys) = insertSorted lt y (sortDedup lt ys) := rfl
    rw [this, ih hl.2]
    cases ys with
    | nil => rfl
    | cons z zs => simp [insertSorted, hl.1 z (by simp)]

theorem sortDedup_append_of_subset {α : Type} {lt : α → α → Bool} (h : StrictTotal lt) (xs l : List α)
    (hl : SortedLt lt l) (hsub : ∀ x ∈ xs, x ∈ l) : sortDedup lt (xs ++ l) = l := by
  induction xs with
  | nil => exact sortDedup_of_sorted l hl
  | cons x xs ih =>
    have : sortDedup lt (x :: xs ++ l) = insertSorted lt x (sortDedup lt (xs ++ l)) := rfl
    rw [this, ih (fun y hy => hsub y (by simp [hy]))]
    exact insertSorted_of_mem h x l hl (hsub x (by simp))

theorem names_dropZeroCols [BEq S] (p : Poly S) : (dropZeroCols p).names = p.names := by
  unfold dropZeroCols; split <;> rfl

theorem usedNames_subset (p : Poly S) : ∀ n ∈ usedNames p, n ∈ p.names := by
  intro n hn
  unfold usedNames at hn
  split at hn
  · exact List.mem_of_mem_take hn
  · exact (List.mem_filter.1 hn).1

theorem names_clean_subset [BEq S] (rc rn : Bool) (p : Poly S) : ∀ n ∈ (clean rc rn p).names, n ∈ p.names := by
  intro n hn
  unfold clean at hn
  cases rc <;> cases rn <;> simp only [Bool.false_eq_true, if_false, if_true] at hn
  · have := usedNames_subset _ n hn
    rwa [names_dropZeroCols] at this
  · rwa [names_dropZeroCols] at hn
  · exact usedNames_subset _ n hn
  · exact hn

/-- `derivative` keeps the names of its (sorted) input: the dropped names come back with the re-alignment -/
theorem derivative_names [BEq S] (rn : Bool) (j : Nat) (p : Poly S) (hs : p.names.Pairwise (· < ·)) :
    (derivative rn j p).names = p.names := by
  show sortDedup natLt (_ ++ p.names) = p.names
  apply sortDedup_append_of_subset natLt_strictTotal
  · exact hs.imp (fun {a b} hab => by simpa [natLt] using hab)
  · intro n hn
    exact names_clean_subset false rn { names := p.names, terms := derivTerms j p.terms } n hn

/-- successive derivatives: invariant, bound and names are kept -/
theorem derivativeMany_WF [BEq S] [LawfulBEq S] (rn : Bool) (js : List Nat) (p : Poly S) (hw : WF p)
    (hb : Bdd p) (hs : p.names.Pairwise (· < ·)) :
    WF (derivativeMany rn js p) ∧ Bdd (derivativeMany rn js p) ∧ (derivativeMany rn js p).names = p.names := by
  induction js generalizing p with
  | nil => exact ⟨hw, hb, rfl⟩
  | cons j js ih =>
    have hn := derivative_names rn j p hs
    obtain ⟨w1, b1⟩ := derivative_WF rn j p hw hb
    have := ih (derivative rn j p) w1 b1 (hn ▸ hs)
    rw [hn] at this
    exact this

/-- C06: differentiating successively with respect to the positions `js` denotes the iterated `pderiv` -/
theorem derivativeMany_den [BEq S] [LawfulBEq S] (rn : Bool) (js : List Nat) (p : Poly S) (hw : WF p)
    (hb : Bdd p) (hs : p.names.Pairwise (· < ·)) (hj : ∀ j ∈ js, j < p.names.length) :
    den (derivativeMany rn js p) = js.foldl (fun acc j => pderiv (p.names[j]!) acc) (den p) := by
  induction js generalizing p with
  | nil => rfl
  | cons j js ih =>
    have hj0 := hj j (by simp)
    have hn := derivative_names rn j p hs
    obtain ⟨w1, b1⟩ := derivative_WF rn j p hw hb
    have := ih (derivative rn j p) w1 b1 (hn ▸ hs) (fun i hi => hn ▸ hj i (by simp [hi]))
    rw [hn, derivative_den rn j p hw hb hj0] at this
    show den (derivativeMany rn js (derivative rn j p)) = _
    rw [this, List.foldl_cons, getElem!_pos p.names j hj0]
end Np

import Np.Proofs.Div
import Np.Proofs.Compare
/-! C05: the long-division loop of `poly_divmod` TERMINATES (enough fuel always exists).

The candidate rows chosen by successive `step`s are strictly decreasing in the `numpy.lexsort` order `lexLt`,
which is a well-order on exponent rows of one fixed length. -/
set_option linter.unusedSectionVars false
namespace Np.Div
open Np

/-! ### 1. `lexLt` on rows of a fixed length is well-founded -/

/-- strict part of `Index.lexLe` -/
def sLt (a b : List Nat) : Prop := Index.lexLe a b = true ∧ a ≠ b

theorem sLt_cons (x y : Nat) (xs ys : List Nat) :
    sLt (x :: xs) (y :: ys) ↔ x < y ∨ (x = y ∧ sLt xs ys) := by
  unfold sLt
  simp only [Index.lexLe, ne_eq, List.cons.injEq, not_and]
  by_cases h1 : x < y
  · simp only [h1, if_true, true_and, true_or, iff_true]
    intro h; omega
  · by_cases h2 : y < x
    · simp only [h1, h2, if_false, if_true, false_or]
      constructor
      · intro h; exact absurd h.1 (by simp)
      · intro h; omega
    · have : x = y := by omega
      subst this
      simp

/-- same length and strictly smaller -/
def sRel (a b : List Nat) : Prop := a.length = b.length ∧ sLt a b

theorem sRel_acc : ∀ (n : Nat) (l : List Nat), l.length = n → Acc sRel l
  | 0, l, hl => by
    have : l = [] := List.length_eq_zero_iff.1 hl
    subst this
    constructor
    intro y hy
    have : y = [] := List.length_eq_zero_iff.1 hy.1
    exact absurd this hy.2.2
  | n + 1, l, hl => by
    have IH := sRel_acc n
    suffices H : ∀ x : Nat, ∀ xs : List Nat, xs.length = n → Acc sRel (x :: xs) by
      cases l with
      | nil => simp at hl
      | cons x xs => exact H x xs (by simpa using hl)
    intro x
    induction x using Nat.strong_induction_on with
    | _ x ihx =>
      intro xs hxs
      have hacc := IH xs hxs
      induction hacc with
      | intro xs _ ihxs =>
        constructor
        intro y hy
        cases y with
        | nil => exact absurd hy.1 (by simp)
        | cons y0 ys =>
          have hlen : ys.length = xs.length := by simpa using hy.1
          rcases (sLt_cons y0 x ys xs).1 hy.2 with h | ⟨rfl, h⟩
          · exact ihx y0 h ys (hlen.trans hxs)
          · exact ihxs ys ⟨hlen, h⟩ (hlen.trans hxs)

theorem sRel_wf : WellFounded sRel := ⟨fun l => sRel_acc l.length l rfl⟩

theorem lexLt_iff (a b : Expo) :
    lexLt a b = true ↔ Index.lexLe a.reverse b.reverse = true ∧ a ≠ b := by
  simp [lexLt, lexLe]

/-- `lexLt` between rows of equal length -/
def rowLt (a b : Expo) : Prop := a.length = b.length ∧ lexLt a b = true

/-- (1a) the `lexsort` order restricted to rows of equal length is well-founded -/
theorem rowLt_wf : WellFounded rowLt := by
  apply Subrelation.wf (r := InvImage sRel List.reverse) _ (InvImage.wf _ sRel_wf)
  intro a b h
  obtain ⟨h1, h2⟩ := h
  rw [lexLt_iff] at h2
  exact ⟨by simpa using h1, h2.1, fun h => h2.2 (List.reverse_injective h)⟩

/-- (1b) the form on the subtype of rows of length `n` -/
theorem lexLt_wf (n : Nat) :
    WellFounded (fun a b : {e : Expo // e.length = n} => lexLt a.1 b.1 = true) := by
  apply Subrelation.wf (r := InvImage rowLt Subtype.val) _ (InvImage.wf _ rowLt_wf)
  intro a b h
  exact ⟨a.2.trans b.2.symm, h⟩

/-! ### 2. strict total order, compatible with translation -/

theorem lexLt_irrefl (a : Expo) : lexLt a a = false := by simp [lexLt]

theorem lexLt_trans (a b c : Expo) (h1 : lexLt a b = true) (h2 : lexLt b c = true) :
    lexLt a c = true := by
  rw [lexLt_iff] at *
  refine ⟨Index.lexLe_trans _ _ _ h1.1 h2.1, ?_⟩
  rintro rfl
  exact h1.2 (List.reverse_injective (Index.lexLe_antisymm _ _ h1.1 h2.1))

theorem lexLt_asymm (a b : Expo) (h1 : lexLt a b = true) (h2 : lexLt b a = true) : False := by
  have := lexLt_trans a b a h1 h2
  simp [lexLt_irrefl] at this

/-- trichotomy (no length hypothesis needed) -/
theorem lexLt_total (a b : Expo) (h : a ≠ b) : lexLt a b = true ∨ lexLt b a = true := by
  have := Index.lexLe_total a.reverse b.reverse
  simp only [Bool.or_eq_true] at this
  rcases this with h1 | h1
  · exact Or.inl ((lexLt_iff a b).2 ⟨h1, h⟩)
  · exact Or.inr ((lexLt_iff b a).2 ⟨h1, fun e => h e.symm⟩)

theorem lexLe_translate : ∀ (m a b : List Nat), m.length = a.length → a.length = b.length →
    Index.lexLe a b = true →
    Index.lexLe (List.zipWith (· + ·) m a) (List.zipWith (· + ·) m b) = true
  | [], _, _, _, _, _ => by simp [Index.lexLe]
  | _ :: _, [], _, h, _, _ => by simp at h
  | _ :: _, _ :: _, [], _, h, _ => by simp at h
  | m0 :: m, x :: a, y :: b, h1, h2, h => by
    simp only [List.zipWith_cons_cons, Index.lexLe, Nat.add_lt_add_iff_left] at h ⊢
    by_cases hxy : x < y
    · simp [hxy]
    · by_cases hyx : y < x
      · simp [hxy, hyx] at h
      · simp only [hxy, hyx, if_false] at h ⊢
        exact lexLe_translate m a b (by simpa using h1) (by simpa using h2) h

theorem translate_injective : ∀ (m a b : List Nat), m.length = a.length → a.length = b.length →
    List.zipWith (· + ·) m a = List.zipWith (· + ·) m b → a = b
  | [], a, b, h1, h2, _ => by
    have ha : a = [] := List.length_eq_zero_iff.1 (by simpa using h1.symm)
    subst ha
    exact (List.length_eq_zero_iff.1 (by simpa using h2.symm)).symm
  | _ :: _, [], _, h, _, _ => by simp at h
  | _ :: _, _ :: _, [], _, h, _ => by simp at h
  | m0 :: m, x :: a, y :: b, h1, h2, h => by
    simp only [List.zipWith_cons_cons, List.cons.injEq, Nat.add_left_cancel_iff] at h
    rw [h.1, translate_injective m a b (by simpa using h1) (by simpa using h2) h.2]

/-- (2) `a <lex b → m + a <lex m + b` on rows of one length -/
theorem lexLt_translate (m a b : Expo) (h1 : m.length = a.length) (h2 : a.length = b.length)
    (h : lexLt a b = true) :
    lexLt (List.zipWith (· + ·) m a) (List.zipWith (· + ·) m b) = true := by
  rw [lexLt_iff] at *
  refine ⟨?_, fun e => h.2 (translate_injective m a b h1 h2 e)⟩
  rw [List.reverse_zipWith h1, List.reverse_zipWith (h1.trans h2)]
  exact lexLe_translate _ _ _ (by simpa using h1) (by simpa using h2) h.1

/-- `(k - l) + l = k` for a divisible row -/
theorem sub_add_row : ∀ (k l : Expo), k.length = l.length → divides l k = true →
    List.zipWith (· + ·) (List.zipWith (· - ·) k l) l = k
  | [], _, _, _ => by simp
  | _ :: _, [], h, _ => by simp at h
  | x :: k, y :: l, h, hd => by
    simp only [divides, List.zipWith_cons_cons, List.all_cons, id, Bool.and_eq_true,
      decide_eq_true_eq] at hd
    simp only [List.zipWith_cons_cons, List.cons.injEq]
    exact ⟨by omega, sub_add_row k l (by simpa using h) hd.2⟩

/-! ### 3. `maxTerm` returns a `lexLt`-maximal term -/

theorem maxTerm_max {R : Type} (p : Expo × R → Bool) : ∀ (ts : List (Expo × R)) (k : Expo × R),
    maxTerm p ts = some k → ∀ t ∈ ts, p t = true → lexLt k.1 t.1 = false
  | [], _ => by simp [maxTerm]
  | a :: ts, k => by
    have ih := maxTerm_max p ts
    simp only [maxTerm]
    cases h : maxTerm p ts with
    | none =>
      simp only
      split
      · intro h' t ht hp
        cases h'
        rcases List.mem_cons.1 ht with rfl | ht
        · exact lexLt_irrefl _
        · have := maxTerm_none p ts h t ht
          simp [hp] at this
      · intro h'; cases h'
    | some u =>
      simp only
      split
      · rename_i hc
        simp only [Bool.and_eq_true] at hc
        intro h' t ht hp
        cases h'
        rcases List.mem_cons.1 ht with rfl | ht
        · exact lexLt_irrefl _
        · have h1 := ih u h t ht hp
          apply Bool.eq_false_iff.2
          intro h2
          rw [lexLt_trans _ _ _ hc.2 h2] at h1; cases h1
      · rename_i hc
        intro h' t ht hp
        cases h'
        rcases List.mem_cons.1 ht with rfl | ht
        · apply Bool.eq_false_iff.2
          intro h2
          simp [hp, h2] at hc
        · exact ih k h t ht hp

variable {K : Type} [Field K] [BEq K] [LawfulBEq K]

/-! ### 4. which rows `addTerm` / `subScaled` can create, keep and cancel -/

theorem addTerm_mem (ts : List (Expo × K)) (e : Expo) (c : K) (t : Expo × K)
    (ht : t ∈ addTerm ts e c) : t ∈ ts ∨ (t.1 = e ∧ c ≠ 0) := by
  unfold addTerm at ht
  split at ht
  · obtain ⟨t0, h0, rfl⟩ := List.mem_map.1 (List.mem_filter.1 ht).1
    by_cases hte : t0.1 = e
    · by_cases hc : c = 0
      · subst hc; subst hte; left
        have : (if (t0.1 == t0.1) = true then (t0.1, t0.2 + 0) else t0) = t0 := by simp
        rw [this]; exact h0
      · right; simp [hte, hc]
    · left; simpa [hte] using h0
  · split at ht
    · exact Or.inl ht
    · rename_i hc
      rcases List.mem_append.1 ht with h | h
      · exact Or.inl h
      · simp only [List.mem_singleton] at h
        subst h
        exact Or.inr ⟨rfl, by simpa using hc⟩

theorem addTerm_keep (ts : List (Expo × K)) (e : Expo) (c : K) (k : Expo × K)
    (hk : k ∈ ts) (hnz : k.2 ≠ 0) (hne : k.1 ≠ e) : k ∈ addTerm ts e c := by
  unfold addTerm
  split
  · exact List.mem_filter.2 ⟨List.mem_map.2 ⟨k, hk, by simp [hne]⟩, by simp [hnz]⟩
  · split
    · exact hk
    · exact List.mem_append_left _ hk

theorem addTerm_cancel (ts : List (Expo × K)) (e : Expo) (a c : K)
    (hnd : (ts.map (·.1)).Nodup) (hk : (e, a) ∈ ts) (hz : a + c = 0) :
    ∀ t ∈ addTerm ts e c, t.1 ≠ e := by
  have hany : ts.any (fun t => t.1 == e) = true := List.any_eq_true.2 ⟨(e, a), hk, by simp⟩
  unfold addTerm
  rw [if_pos hany]
  intro t ht
  obtain ⟨hm, hnz⟩ := List.mem_filter.1 ht
  obtain ⟨t0, h0, rfl⟩ := List.mem_map.1 hm
  by_cases h : t0.1 = e
  · have : t0 = (e, a) := List.inj_on_of_nodup_map hnd h0 hk h
    subst this
    simp [hz] at hnz
  · simp [h]

theorem subScaled_ind (P : List (Expo × K) → Prop) (d : List (Expo × K)) (m : Expo) (c : K) :
    ∀ f : List (Expo × K), P f →
    (∀ acc u, u ∈ d → P acc → P (addTerm acc (List.zipWith (· + ·) m u.1) ((0 : K) - c * u.2))) →
    P (subScaled f d m c) := by
  unfold subScaled
  induction d with
  | nil => intro f h0 _; exact h0
  | cons u d ih =>
    intro f h0 hs
    simp only [List.foldl_cons]
    exact ih _ (hs f u (by simp) h0) (fun acc v hv => hs acc v (by simp [hv]))

theorem subScaled_nodup (f d : List (Expo × K)) (m : Expo) (c : K) (hf : (f.map (·.1)).Nodup) :
    ((subScaled f d m c).map (·.1)).Nodup :=
  subScaled_ind (fun acc => (acc.map (·.1)).Nodup) d m c f hf
    (fun acc _ _ h => (denT_addTerm [] acc _ _ h).2)

theorem subScaled_len (n : Nat) (f d : List (Expo × K)) (m : Expo) (c : K)
    (hf : ∀ t ∈ f, t.1.length = n) (hd : ∀ t ∈ d, t.1.length = n) (hm : m.length = n) :
    ∀ t ∈ subScaled f d m c, t.1.length = n :=
  subScaled_ind (fun acc => ∀ t ∈ acc, t.1.length = n) d m c f hf
    (fun acc u hu h => addTerm_rows acc _ _ (fun e => e.length = n) h (by simp [hm, hd u hu]))

/-- a row of `f - c·x^m·d` is a row of `f` (same coefficient) or `m + u` for a non-zero term `u` of `d` -/
theorem subScaled_mem (f d : List (Expo × K)) (m : Expo) (c : K) :
    ∀ t ∈ subScaled f d m c,
      t ∈ f ∨ ∃ u ∈ d, u.2 ≠ 0 ∧ t.1 = List.zipWith (· + ·) m u.1 := by
  apply subScaled_ind (fun acc => ∀ t ∈ acc,
    t ∈ f ∨ ∃ u ∈ d, u.2 ≠ 0 ∧ t.1 = List.zipWith (· + ·) m u.1) d m c f (fun t ht => Or.inl ht)
  intro acc u hu h t ht
  rcases addTerm_mem acc _ _ t ht with h1 | ⟨h1, h2⟩
  · exact h t h1
  · refine Or.inr ⟨u, hu, ?_, h1⟩
    rintro h0
    exact h2 (by rw [h0]; simp)

theorem subScaled_absent (f d : List (Expo × K)) (m : Expo) (c : K) (x : Expo)
    (hd : ∀ u ∈ d, List.zipWith (· + ·) m u.1 ≠ x) (hf : ∀ t ∈ f, t.1 ≠ x) :
    ∀ t ∈ subScaled f d m c, t.1 ≠ x :=
  subScaled_ind (fun acc => ∀ t ∈ acc, t.1 ≠ x) d m c f hf
    (fun acc u hu h => addTerm_rows acc _ _ (fun e => e ≠ x) h (hd u hu))

theorem subScaled_cons (f : List (Expo × K)) (u : Expo × K) (d : List (Expo × K)) (m : Expo) (c : K) :
    subScaled f (u :: d) m c =
      subScaled (addTerm f (List.zipWith (· + ·) m u.1) ((0 : K) - c * u.2)) d m c := rfl

/-- the row `k = m + l` is cancelled exactly when `k.2 - c * l.2 = 0` and no other row of `d` translates to it -/
theorem subScaled_cancel (m : Expo) (c : K) (k l : Expo × K)
    (hkl : List.zipWith (· + ·) m l.1 = k.1) (hc : k.2 + ((0 : K) - c * l.2) = 0) (hk2 : k.2 ≠ 0) :
    ∀ (d f : List (Expo × K)), (d.map (·.1)).Nodup → l ∈ d →
      (∀ u ∈ d, u.1 ≠ l.1 → List.zipWith (· + ·) m u.1 ≠ k.1) →
      (f.map (·.1)).Nodup → k ∈ f → ∀ t ∈ subScaled f d m c, t.1 ≠ k.1
  | [], _, _, hl, _, _, _ => by simp at hl
  | u :: d, f, hdn, hl, hinj, hfn, hk => by
    rw [subScaled_cons]
    simp only [List.map_cons, List.nodup_cons] at hdn
    by_cases hu : u = l
    · subst hu
      apply subScaled_absent
      · intro v hv
        apply hinj v (by simp [hv])
        intro e
        exact hdn.1 (e ▸ List.mem_map_of_mem hv)
      · rw [hkl]
        exact addTerm_cancel f k.1 k.2 _ hfn hk hc
    · have hl' : l ∈ d := by
        rcases List.mem_cons.1 hl with h | h
        · exact absurd h.symm hu
        · exact h
      have hne : u.1 ≠ l.1 := fun e => hdn.1 (e ▸ List.mem_map_of_mem hl')
      apply subScaled_cancel m c k l hkl hc hk2 d _ hdn.2 hl'
        (fun v hv => hinj v (by simp [hv])) (denT_addTerm [] f _ _ hfn).2
      exact addTerm_keep f _ _ k hk hk2 (fun e => hinj u (by simp) hne e.symm)

/-! ### 5. one step strictly lowers the candidate row -/

/-- every reducible (non-zero, divisible by the leading row `l`) term of `r` is `<lex b` -/
def bound (l : Expo) (r : List (Expo × K)) (b : Expo) : Prop :=
  ∀ t ∈ r, t.2 ≠ 0 → divides l t.1 = true → lexLt t.1 b = true

/-- rows pairwise distinct and of length `n` -/
structure RowInv (n : Nat) (ts : List (Expo × K)) : Prop where
  nodup : (ts.map (·.1)).Nodup
  len : ∀ t ∈ ts, t.1.length = n

/-- (3) a step with candidate `k` leaves a remainder all of whose reducible terms are `<lex k` -/
theorem step_decrease (n : Nat) (d q r q' r' : List (Expo × K)) (lead : Expo × K)
    (hd : RowInv n d) (hr : RowInv n r)
    (hlead : maxTerm (fun t => !(t.2 == 0)) d = some lead)
    (h : step d (q, r) = some (q', r')) :
    ∃ k ∈ r, k.2 ≠ 0 ∧ divides lead.1 k.1 = true ∧ RowInv n r' ∧ bound lead.1 r' k.1 := by
  unfold step at h
  rw [hlead] at h
  simp only at h
  split at h
  · cases h
  · rename_i k hk
    simp only [Option.some.injEq, Prod.mk.injEq] at h
    obtain ⟨-, rfl⟩ := h
    have hl := maxTerm_some _ _ _ hlead
    have hk' := maxTerm_some _ _ _ hk
    simp only [Bool.and_eq_true, Bool.not_eq_eq_eq_not, Bool.not_true, beq_eq_false_iff_ne] at hl hk'
    obtain ⟨hld, hl2⟩ := hl
    obtain ⟨hkr, hk2, hkdiv⟩ := hk'
    have hkn := hr.len k hkr
    have hln := hd.len lead hld
    have hmn : (List.zipWith (· - ·) k.1 lead.1).length = n := by simp [hkn, hln]
    have hkl := sub_add_row k.1 lead.1 (hkn.trans hln.symm) hkdiv
    have hc : k.2 + ((0 : K) - k.2 / lead.2 * lead.2) = 0 := by
      rw [div_mul_cancel₀ _ hl2]; simp
    have hlen' := subScaled_len n r d _ (k.2 / lead.2) hr.len hd.len hmn
    have hcancel := subScaled_cancel _ (k.2 / lead.2) k lead hkl hc hk2 d r hd.nodup hld
      (fun u hu hne e => hne (translate_injective _ u.1 lead.1 (hmn.trans (hd.len u hu).symm)
        ((hd.len u hu).trans hln.symm) (e.trans hkl.symm))) hr.nodup hkr
    refine ⟨k, hkr, hk2, hkdiv, ⟨subScaled_nodup r d _ _ hr.nodup, hlen'⟩, ?_⟩
    intro t ht hnz hdiv
    have hne : t.1 ≠ k.1 := hcancel t ht
    rcases subScaled_mem r d _ _ t ht with hin | ⟨u, hu, hunz, hte⟩
    · have hmax := maxTerm_max _ r k hk t hin (by simp [hnz, hdiv])
      rcases lexLt_total t.1 k.1 hne with h1 | h1
      · exact h1
      · rw [h1] at hmax; cases hmax
    · have hune : u.1 ≠ lead.1 := by
        intro e
        rw [e, hkl] at hte
        exact hne hte
      have hmax := maxTerm_max _ d lead hlead u hu (by simp [hunz])
      have hlt : lexLt u.1 lead.1 = true := by
        rcases lexLt_total u.1 lead.1 hune with h1 | h1
        · exact h1
        · rw [h1] at hmax; cases hmax
      have := lexLt_translate (List.zipWith (· - ·) k.1 lead.1) u.1 lead.1
        (hmn.trans (hd.len u hu).symm) ((hd.len u hu).trans hln.symm) hlt
      rw [hkl, ← hte] at this
      exact this

/-- a step picks its candidate below any bound on the reducible terms -/
theorem step_candidate_lt (n : Nat) (d q r q' r' : List (Expo × K)) (lead : Expo × K) (b : Expo)
    (hd : RowInv n d) (hr : RowInv n r) (hb : bound lead.1 r b)
    (hlead : maxTerm (fun t => !(t.2 == 0)) d = some lead)
    (h : step d (q, r) = some (q', r')) :
    ∃ k : Expo, k.length = n ∧ lexLt k b = true ∧ RowInv n r' ∧ bound lead.1 r' k := by
  obtain ⟨k, hkr, hk2, hkdiv, hinv, hbd⟩ := step_decrease n d q r q' r' lead hd hr hlead h
  exact ⟨k.1, hr.len k hkr, hb k hkr hk2 hkdiv, hinv, hbd⟩

/-! ### 6. the loop terminates -/

theorem divmodFuel_terminates_bounded (n : Nat) (d : List (Expo × K)) (lead : Expo × K)
    (hd : RowInv n d) (hlead : maxTerm (fun t => !(t.2 == 0)) d = some lead) :
    ∀ (b : Expo) (q r : List (Expo × K)), b.length = n → RowInv n r → bound lead.1 r b →
      ∃ fuel qr, divmodFuel d fuel (q, r) = some qr := by
  intro b
  induction b using rowLt_wf.induction with
  | _ b ih =>
    intro q r hbn hr hb
    cases hs : step d (q, r) with
    | none => exact ⟨1, (q, r), by simp [divmodFuel, hs]⟩
    | some qr' =>
      obtain ⟨q', r'⟩ := qr'
      obtain ⟨k, hkn, hlt, hinv, hbd⟩ := step_candidate_lt n d q r q' r' lead b hd hr hb hlead hs
      obtain ⟨fuel, qr, hf⟩ := ih k ⟨hkn.trans hbn.symm, hlt⟩ q' r' hkn hinv hbd
      exact ⟨fuel + 1, qr, by simp [divmodFuel, hs, hf]⟩

/-- from every state whose rows (and the divisor's rows) are distinct and of length `n`, the loop stops -/
theorem divmodFuel_terminates (n : Nat) (d q r : List (Expo × K)) (hd : RowInv n d) (hr : RowInv n r) :
    ∃ fuel qr, divmodFuel d fuel (q, r) = some qr := by
  cases hs : step d (q, r) with
  | none => exact ⟨1, (q, r), by simp [divmodFuel, hs]⟩
  | some qr' =>
    obtain ⟨q', r'⟩ := qr'
    cases hlead : maxTerm (fun t : Expo × K => !(t.2 == 0)) d with
    | none => simp [step, hlead] at hs
    | some lead =>
      obtain ⟨k, hkr, -, -, hinv, hbd⟩ := step_decrease n d q r q' r' lead hd hr hlead hs
      obtain ⟨fuel, qr, hf⟩ :=
        divmodFuel_terminates_bounded n d lead hd hlead k.1 q' r' (hr.len k hkr) hinv hbd
      exact ⟨fuel + 1, qr, by simp [divmodFuel, hs, hf]⟩

/-- more fuel never changes a finished run -/
theorem divmodFuel_mono (d : List (Expo × K)) : ∀ (fuel : Nat) (qf qr : List (Expo × K) × List (Expo × K)),
    divmodFuel d fuel qf = some qr → divmodFuel d (fuel + 1) qf = some qr
  | 0, _, _, h => by simp [divmodFuel] at h
  | fuel + 1, qf, qr, h => by
    rw [divmodFuel] at h ⊢
    cases hs : step d qf with
    | none => simpa [hs] using h
    | some qf' =>
      simp only [hs] at h ⊢
      exact divmodFuel_mono d fuel qf' qr h

theorem divmodFuel_mono_le (d : List (Expo × K)) (fuel₀ fuel : Nat)
    (qf qr : List (Expo × K) × List (Expo × K)) (hle : fuel₀ ≤ fuel)
    (h : divmodFuel d fuel₀ qf = some qr) : divmodFuel d fuel qf = some qr := by
  induction hle with
  | refl => exact h
  | step _ ih => exact divmodFuel_mono d _ qf qr ih

/-- C05 (termination): the long division of `f` by `d` stops — enough fuel always exists -/
theorem divmod_terminates (n : Nat) (f d : List (Expo × K))
    (hf : ∀ t ∈ f, t.1.length = n) (hd : ∀ t ∈ d, t.1.length = n)
    (hfn : (f.map (·.1)).Nodup) (hdn : (d.map (·.1)).Nodup) :
    ∃ fuel q r, divmod fuel f d = some (q, r) := by
  obtain ⟨fuel, ⟨q, r⟩, h⟩ := divmodFuel_terminates n d [] (f.filter fun t => !(t.2 == 0)) ⟨hdn, hd⟩
    ⟨nodup_filter_rows f _ hfn, fun t ht => hf t (List.mem_filter.1 ht).1⟩
  exact ⟨fuel, q, r, h⟩

/-- monotone form: from some fuel on, every run finishes (with the same result) -/
theorem divmod_terminates_mono (n : Nat) (f d : List (Expo × K))
    (hf : ∀ t ∈ f, t.1.length = n) (hd : ∀ t ∈ d, t.1.length = n)
    (hfn : (f.map (·.1)).Nodup) (hdn : (d.map (·.1)).Nodup) :
    ∃ fuel₀ q r, ∀ fuel ≥ fuel₀, divmod fuel f d = some (q, r) := by
  obtain ⟨fuel₀, q, r, h⟩ := divmod_terminates n f d hf hd hfn hdn
  exact ⟨fuel₀, q, r, fun fuel hle => divmodFuel_mono_le d fuel₀ fuel _ _ hle h⟩

theorem divmod_terminates_isSome (n : Nat) (f d : List (Expo × K))
    (hf : ∀ t ∈ f, t.1.length = n) (hd : ∀ t ∈ d, t.1.length = n)
    (hfn : (f.map (·.1)).Nodup) (hdn : (d.map (·.1)).Nodup) :
    ∃ fuel₀, ∀ fuel ≥ fuel₀, (divmod fuel f d).isSome = true := by
  obtain ⟨fuel₀, q, r, h⟩ := divmod_terminates_mono n f d hf hd hfn hdn
  exact ⟨fuel₀, fun fuel hle => by rw [h fuel hle]; rfl⟩

end Np.Div

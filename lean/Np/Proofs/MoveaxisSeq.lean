import Np.Proofs.ShapeFns
import Np.Proofs.StableSort
/-! C09: `numpy.moveaxis` with sequences of axes (`Np.ShapeFns.moveaxisSeqF`): the axis order handed to `transpose` puts
every source axis at its destination - `order[dst_i] = src_i` for every pair. (numpy sorts the pairs by destination
before inserting them one by one; inserting in the order given does not have this property - seeded change C09-13.) -/
namespace Np.ShapeFns
open Np.Shape Np.Sort

/-- inserting at a later position leaves an earlier position alone (also when the insertion is out of range) -/
theorem getD_insertIdx_of_lt {l : List Nat} {i d x : Nat} (h : i < d) : (l.insertIdx d x).getD i 0 = l.getD i 0 := by
  by_cases hd : d ≤ l.length
  · rw [List.getD_eq_getElem?_getD, List.getD_eq_getElem?_getD, List.getElem?_insertIdx_of_lt h]
  · rw [List.insertIdx_of_length_lt (by omega)]

theorem getD_insertIdx_self {l : List Nat} {d x : Nat} (h : d ≤ l.length) : (l.insertIdx d x).getD d 0 = x := by
  rw [List.getD_eq_getElem?_getD, List.getElem?_insertIdx_self, if_pos h]
  rfl

/-- later pairs (all with larger destinations) do not disturb position `i` -/
theorem foldl_insert_getD_of_lt : ∀ (ps : List (Nat × Nat)) (l : List Nat) (i : Nat), (∀ p ∈ ps, i < p.1) →
    (ps.foldl (fun order p => order.insertIdx p.1 p.2) l).getD i 0 = l.getD i 0
  | [], _, _, _ => rfl
  | p :: ps, l, i, h => by
    rw [List.foldl_cons, foldl_insert_getD_of_lt ps _ i (fun q hq => h q (by simp [hq])),
      getD_insertIdx_of_lt (h p (by simp))]

theorem length_foldl_insert_le : ∀ (ps : List (Nat × Nat)) (l : List Nat),
    l.length ≤ (ps.foldl (fun order p => order.insertIdx p.1 p.2) l).length
  | [], _ => Nat.le_refl _
  | p :: ps, l => by
    rw [List.foldl_cons]
    refine Nat.le_trans ?_ (length_foldl_insert_le ps _)
    by_cases hd : p.1 ≤ l.length
    · rw [List.length_insertIdx_of_le_length hd]; omega
    · rw [List.insertIdx_of_length_lt (by omega)]
      exact Nat.le_refl _

/-- a strictly increasing list of numbers in `(a, n)` has at most `n - 1 - a` entries -/
theorem length_of_increasing : ∀ (l : List Nat) (a n : Nat), l.Pairwise (· < ·) → (∀ x ∈ l, a < x ∧ x < n) →
    l.length ≤ n - 1 - a
  | [], _, _, _, _ => Nat.zero_le _
  | x :: xs, a, n, hp, hr => by
    have hx := hr x (by simp)
    have ih := length_of_increasing xs x n (List.Pairwise.of_cons hp)
      (fun y hy => ⟨List.rel_of_pairwise_cons hp hy, (hr y (by simp [hy])).2⟩)
    simp only [List.length_cons]
    omega

/-- the insertions, sorted by strictly increasing destination and with room for every one of them, put every source at
its destination -/
theorem foldl_insert_spec : ∀ (ps : List (Nat × Nat)) (l : List Nat) (n : Nat),
    (ps.map (·.1)).Pairwise (· < ·) → (∀ p ∈ ps, p.1 < n) → l.length + ps.length = n →
    ∀ p ∈ ps, (ps.foldl (fun order q => order.insertIdx q.1 q.2) l).getD p.1 0 = p.2
  | [], _, _, _, _, _, p, hp => by simp at hp
  | q :: qs, l, n, hs, hr, hl, p, hp => by
    have hs' : (qs.map (·.1)).Pairwise (· < ·) := List.Pairwise.of_cons (by simpa using hs)
    have hgt : ∀ r ∈ qs, q.1 < r.1 := by
      intro r hr'
      have := List.rel_of_pairwise_cons (by simpa using hs) (List.mem_map_of_mem (f := (·.1)) hr')
      simpa using this
    have hroom : q.1 ≤ l.length := by
      have := length_of_increasing (qs.map (·.1)) q.1 n hs' (by
        intro x hx
        obtain ⟨r, hr', rfl⟩ := List.mem_map.1 hx
        exact ⟨hgt r hr', hr r (by simp [hr'])⟩)
      have hq := hr q (by simp)
      simp only [List.length_map, List.length_cons] at this hl
      omega
    rw [List.foldl_cons]
    rcases List.mem_cons.1 hp with rfl | hp
    · rw [foldl_insert_getD_of_lt qs _ _ hgt, getD_insertIdx_self hroom]
    · refine foldl_insert_spec qs _ n hs' (fun r hr' => hr r (by simp [hr'])) ?_ p hp
      rw [List.length_insertIdx_of_le_length hroom]
      simp only [List.length_cons] at hl
      omega

/-- under the same hypotheses every insertion has room: the list grows by one per pair, keeps its elements and gains
every inserted source -/
theorem foldl_insert_length_mem : ∀ (ps : List (Nat × Nat)) (l : List Nat) (n : Nat),
    (ps.map (·.1)).Pairwise (· < ·) → (∀ p ∈ ps, p.1 < n) → l.length + ps.length = n →
    (ps.foldl (fun order q => order.insertIdx q.1 q.2) l).length = n ∧
    ∀ a, a ∈ ps.foldl (fun order q => order.insertIdx q.1 q.2) l ↔ (a ∈ l ∨ ∃ p ∈ ps, p.2 = a)
  | [], l, n, _, _, hl => by simpa using hl
  | q :: qs, l, n, hs, hr, hl => by
    have hs' : (qs.map (·.1)).Pairwise (· < ·) := List.Pairwise.of_cons (by simpa using hs)
    have hgt : ∀ r ∈ qs, q.1 < r.1 := by
      intro r hr'
      have := List.rel_of_pairwise_cons (by simpa using hs) (List.mem_map_of_mem (f := (·.1)) hr')
      simpa using this
    have hroom : q.1 ≤ l.length := by
      have := length_of_increasing (qs.map (·.1)) q.1 n hs' (by
        intro x hx
        obtain ⟨r, hr', rfl⟩ := List.mem_map.1 hx
        exact ⟨hgt r hr', hr r (by simp [hr'])⟩)
      have hq := hr q (by simp)
      simp only [List.length_map, List.length_cons] at this hl
      omega
    have ih := foldl_insert_length_mem qs (l.insertIdx q.1 q.2) n hs' (fun r hr' => hr r (by simp [hr'])) (by
      rw [List.length_insertIdx_of_le_length hroom]
      simp only [List.length_cons] at hl
      omega)
    rw [List.foldl_cons]
    refine ⟨ih.1, fun a => ?_⟩
    rw [ih.2 a, List.mem_insertIdx hroom]
    constructor
    · rintro ((rfl | h) | ⟨p, hp, rfl⟩)
      · exact Or.inr ⟨q, by simp, rfl⟩
      · exact Or.inl h
      · exact Or.inr ⟨p, by simp [hp], rfl⟩
    · rintro (h | ⟨p, hp, rfl⟩)
      · exact Or.inl (Or.inr h)
      · rcases List.mem_cons.1 hp with rfl | hp
        · exact Or.inl (Or.inl rfl)
        · exact Or.inr ⟨p, hp, rfl⟩

/-- the axes that are not moved: as many as there are axes minus the moved ones -/
theorem length_rest (n : Nat) (src : List Nat) (hs : src.Nodup) (hr : ∀ a ∈ src, a < n) :
    ((List.range n).filter fun a => !src.contains a).length + src.length = n := by
  have hsplit := List.length_eq_length_filter_add (l := List.range n) (fun a => !src.contains a)
  have hperm : ((List.range n).filter fun a => !!src.contains a).Perm src := by
    refine (List.perm_ext_iff_of_nodup ((List.nodup_range).filter _) hs).2 fun a => ?_
    simp only [Bool.not_not, List.mem_filter, List.mem_range, List.contains_iff_mem]
    exact ⟨fun h => h.2, fun h => ⟨hr a h, h⟩⟩
  rw [List.length_range] at hsplit
  rw [← hperm.length_eq]
  omega

/-- **`numpy.moveaxis` with sequences**: for duplicate-free in-range sequences of equal length, the axis order handed to
`transpose` has source `s_i` at position `d_i` for every pair - so (by `transpose_reads`) axis `d_i` of the result is axis
`s_i` of the operand -/
theorem moveaxisSeqPerm_puts_sources (n : Nat) (src dst : List Nat) (hlen : src.length = dst.length)
    (hs : src.Nodup) (hd : dst.Nodup) (hsr : ∀ a ∈ src, a < n) (hdr : ∀ a ∈ dst, a < n) :
    ∀ p ∈ List.zip dst src, (moveaxisSeqPerm n src dst).getD p.1 0 = p.2 := by
  intro p hp
  unfold moveaxisSeqPerm sortPairs
  set le : Nat × Nat → Nat × Nat → Bool := fun a b => decide (a.1 ≤ b.1) with hle
  have hperm := perm_isort le (List.zip dst src)
  have hfst : ((List.zip dst src).map (·.1)) = dst := List.map_fst_zip (by omega)
  have hnd : ((isort le (List.zip dst src)).map (·.1)).Nodup := by
    have hd' : ((List.zip dst src).map (·.1)).Nodup := by rw [hfst]; exact hd
    exact (hperm.map (·.1)).nodup_iff.2 hd'
  have hsorted : ((isort le (List.zip dst src)).map (·.1)).Pairwise (· < ·) := by
    have h1 : (isort le (List.zip dst src)).Pairwise (fun a b => le a b = true) :=
      pairwise_isort le (fun a b c h1 h2 => by simp only [hle, decide_eq_true_eq] at *; omega)
        (fun a b => by simp only [hle, Bool.or_eq_true, decide_eq_true_eq]; omega) _
    have h2 : ((isort le (List.zip dst src)).map (·.1)).Pairwise (· ≤ ·) := by
      rw [List.pairwise_map]
      exact h1.imp (by intro a b h; simpa [hle] using h)
    exact (h2.and hnd).imp (by intro a b h; omega)
  refine foldl_insert_spec _ _ n hsorted ?_ ?_ p ((mem_isort le _ p).2 hp)
  · intro q hq
    have hq' := (mem_isort le _ q).1 hq
    exact hdr q.1 (List.of_mem_zip hq').1
  · rw [hperm.length_eq, List.length_zip, ← hlen, Nat.min_self]
    exact length_rest n src hs hsr

/-- ... and the order is a permutation of the axes, so the transpose exists: for duplicate-free in-range sequences of equal
length `numpy.moveaxis` never raises -/
theorem moveaxisSeqPerm_isPerm (n : Nat) (src dst : List Nat) (hlen : src.length = dst.length)
    (hs : src.Nodup) (hd : dst.Nodup) (hsr : ∀ a ∈ src, a < n) (hdr : ∀ a ∈ dst, a < n) :
    isPerm n (moveaxisSeqPerm n src dst) = true := by
  unfold moveaxisSeqPerm sortPairs
  set le : Nat × Nat → Nat × Nat → Bool := fun a b => decide (a.1 ≤ b.1) with hle
  have hperm := perm_isort le (List.zip dst src)
  have hfst : ((List.zip dst src).map (·.1)) = dst := List.map_fst_zip (by omega)
  have hsnd : ((List.zip dst src).map (·.2)) = src := List.map_snd_zip (by omega)
  have hnd : ((isort le (List.zip dst src)).map (·.1)).Nodup := by
    have hd' : ((List.zip dst src).map (·.1)).Nodup := by rw [hfst]; exact hd
    exact (hperm.map (·.1)).nodup_iff.2 hd'
  have hsorted : ((isort le (List.zip dst src)).map (·.1)).Pairwise (· < ·) := by
    have h1 : (isort le (List.zip dst src)).Pairwise (fun a b => le a b = true) :=
      pairwise_isort le (fun a b c h1 h2 => by simp only [hle, decide_eq_true_eq] at *; omega)
        (fun a b => by simp only [hle, Bool.or_eq_true, decide_eq_true_eq]; omega) _
    have h2 : ((isort le (List.zip dst src)).map (·.1)).Pairwise (· ≤ ·) := by
      rw [List.pairwise_map]
      exact h1.imp (by intro a b h; simpa [hle] using h)
    exact (h2.and hnd).imp (by intro a b h; omega)
  obtain ⟨hl, hm⟩ := foldl_insert_length_mem (isort le (List.zip dst src))
    ((List.range n).filter fun a => !src.contains a) n hsorted
    (fun q hq => hdr q.1 (List.of_mem_zip ((mem_isort le _ q).1 hq)).1)
    (by rw [hperm.length_eq, List.length_zip, ← hlen, Nat.min_self]; exact length_rest n src hs hsr)
  simp only [isPerm, Bool.and_eq_true, beq_iff_eq, List.all_eq_true, List.mem_range, List.contains_iff_mem]
  refine ⟨hl, fun a ha => (hm a).2 ?_⟩
  by_cases hin : a ∈ src
  · right
    have : a ∈ (List.zip dst src).map (·.2) := by rw [hsnd]; exact hin
    obtain ⟨p, hp, rfl⟩ := List.mem_map.1 this
    exact ⟨p, (mem_isort le _ p).2 hp, rfl⟩
  · left
    simp only [List.mem_filter, List.mem_range, Bool.not_eq_true', List.contains_eq_mem, decide_eq_false_iff_not]
    exact ⟨ha, hin⟩

theorem distinctB_iff_nodup : ∀ l : List Nat, distinctB l = true ↔ l.Nodup
  | [] => by simp [distinctB]
  | x :: xs => by simp [distinctB, distinctB_iff_nodup xs, List.contains_iff_mem]

/-- `numpy.moveaxis` with duplicate-free in-range sequences of equal length succeeds -/
theorem moveaxisSeqF_isSome (shape src dst : List Nat) (hlen : src.length = dst.length)
    (hs : src.Nodup) (hd : dst.Nodup) (hsr : ∀ a ∈ src, a < shape.length) (hdr : ∀ a ∈ dst, a < shape.length) :
    ∃ out idx, moveaxisSeqF shape src dst = some (out, idx) := by
  unfold moveaxisSeqF
  have hg : (src.length == dst.length && distinctB src && distinctB dst && src.all (· < shape.length) &&
      dst.all (· < shape.length)) = true := by
    simp only [Bool.and_eq_true, beq_iff_eq, List.all_eq_true, decide_eq_true_eq]
    exact ⟨⟨⟨⟨hlen, (distinctB_iff_nodup src).2 hs⟩, (distinctB_iff_nodup dst).2 hd⟩, hsr⟩, hdr⟩
  rw [if_pos hg]
  unfold transposeF
  rw [if_pos (moveaxisSeqPerm_isPerm shape.length src dst hlen hs hd hsr hdr)]
  exact ⟨_, _, rfl⟩

end Np.ShapeFns

import Np.Proofs.Shape
import Np.Model.ShapeFns
import Mathlib.Data.List.Nodup
import Mathlib.Data.List.Perm.Subperm
/-! C09: the index arithmetic of the shape functions (`Np/Model/ShapeFns.lean`) in terms of multi-indices.
For every function: (a) the index list has one entry per output position, (b) every entry is in range of the
operand, (c) the output multi-index `j` reads the stated input multi-index, (d) for the pure rearrangements the
index list is a permutation of `0 .. size-1`.  No positivity assumption on the dimensions is needed: an empty
output has an empty index list. -/
namespace Np.ShapeFns
open Np.Shape

/-- `j` is a multi-index of an array of shape `s` -/
def Valid (s j : List Nat) : Prop := j.length = s.length ∧ ∀ a, a < s.length → j.getD a 0 < s.getD a 0

/-! ### 0. `ravel` / `unravel` on valid multi-indices -/

theorem valid_nil {j : List Nat} : Valid [] j ↔ j = [] := by
  simp [Valid]

theorem valid_cons {d x : Nat} {ds xs : List Nat} : Valid (d :: ds) (x :: xs) ↔ x < d ∧ Valid ds xs := by
  constructor
  · rintro ⟨hl, h⟩
    refine ⟨by simpa using h 0 (by simp), by simpa using hl, fun a ha => ?_⟩
    simpa using h (a + 1) (by simpa using ha)
  · rintro ⟨hx, hl, h⟩
    refine ⟨by simpa using hl, fun a ha => ?_⟩
    cases a with
    | zero => simpa using hx
    | succ a => simpa using h a (by simpa using ha)

theorem Valid.length {s j : List Nat} (h : Valid s j) : j.length = s.length := h.1

theorem Valid.pos : ∀ {s j : List Nat}, Valid s j → ∀ d ∈ s, 0 < d
  | [], _, _ => by simp
  | d :: ds, [], h => by simp [Valid] at h
  | d :: ds, x :: xs, h => by
    obtain ⟨hx, hr⟩ := valid_cons.1 h
    intro e he
    rcases List.mem_cons.1 he with rfl | he
    · omega
    · exact hr.pos e he

theorem pos_of_size_pos : ∀ {s : List Nat}, 0 < size s → ∀ d ∈ s, 0 < d
  | [], _ => by simp
  | d :: ds, h => by
    rw [size_cons] at h
    intro e he
    rcases List.mem_cons.1 he with rfl | he
    · exact Nat.pos_of_mul_pos_right h
    · exact pos_of_size_pos (Nat.pos_of_mul_pos_left h) e he

theorem ravel_lt_of_valid {s j : List Nat} (h : Valid s j) : ravel s j < size s :=
  ravel_lt h.1 h.pos

theorem unravel_valid : ∀ {s : List Nat}, (∀ d ∈ s, 0 < d) → ∀ i, Valid s (unravel s i)
  | [], _, _ => by simp [unravel, Valid]
  | d :: ds, h, i => by
    rw [unravel, valid_cons]
    exact ⟨Nat.mod_lt _ (h d (by simp)), unravel_valid (fun x hx => h x (by simp [hx])) _⟩

theorem unravel_ravel : ∀ {s j : List Nat}, Valid s j → unravel s (ravel s j) = j
  | [], j, h => by simp [valid_nil.1 h, unravel]
  | d :: ds, [], h => by simp [Valid] at h
  | d :: ds, x :: xs, h => by
    obtain ⟨hx, hr⟩ := valid_cons.1 h
    have hlt := ravel_lt_of_valid hr
    have hS : 0 < size ds := by omega
    rw [ravel, unravel, Nat.mod_eq_of_lt hx]
    have h1 : (x * size ds + ravel ds xs) / size ds = x := by
      rw [Nat.mul_comm, Nat.mul_add_div hS, Nat.div_eq_of_lt hlt, Nat.add_zero]
    have h2 : (x * size ds + ravel ds xs) % size ds = ravel ds xs := by
      rw [Nat.mul_comm, Nat.mul_add_mod, Nat.mod_eq_of_lt hlt]
    rw [h1, h2, Nat.mod_eq_of_lt hx, unravel_ravel hr]

/-! ### 1. the generic gather -/

theorem gatherBy_length (inn out : List Nat) (f : List Nat → List Nat) :
    (gatherBy inn out f).length = size out := by
  simp [gatherBy]

theorem gatherBy_getElem? {inn out : List Nat} {f : List Nat → List Nat} {i : Nat} (hi : i < size out) :
    (gatherBy inn out f)[i]? = some (ravel inn (f (unravel out i))) := by
  simp [gatherBy, hi]

/-- (b) all positions are in range as soon as `f` maps valid multi-indices to valid multi-indices -/
theorem gatherBy_lt {inn out : List Nat} {f : List Nat → List Nat}
    (hf : ∀ j, Valid out j → Valid inn (f j)) : ∀ k ∈ gatherBy inn out f, k < size inn := by
  intro k hk
  simp only [gatherBy, List.mem_map, List.mem_range] at hk
  obtain ⟨i, hi, rfl⟩ := hk
  exact ravel_lt_of_valid (hf _ (unravel_valid (pos_of_size_pos (by omega)) i))

/-- (c) output multi-index `j` reads input multi-index `f j` -/
theorem gatherBy_spec {inn out : List Nat} {f : List Nat → List Nat} {j : List Nat} (hj : Valid out j) :
    (gatherBy inn out f)[ravel out j]? = some (ravel inn (f j)) := by
  rw [gatherBy_getElem? (ravel_lt_of_valid hj), unravel_ravel hj]

/-- a list of `n` distinct numbers below `n` is a permutation of `0 .. n-1` -/
theorem perm_range_of_nodup {l : List Nat} {n : Nat} (hl : l.length = n) (hlt : ∀ k ∈ l, k < n)
    (hnd : l.Nodup) : l.Perm (List.range n) :=
  (List.subperm_of_subset hnd fun k hk => List.mem_range.2 (hlt k hk)).perm_of_length_le (by simp [hl])

/-- (d) an injective rearrangement between shapes of the same size is a permutation of the positions -/
theorem gatherBy_perm {inn out : List Nat} {f : List Nat → List Nat}
    (hf : ∀ j, Valid out j → Valid inn (f j))
    (hinj : ∀ j j', Valid out j → Valid out j' → f j = f j' → j = j')
    (hsize : size out = size inn) : (gatherBy inn out f).Perm (List.range (size inn)) := by
  refine perm_range_of_nodup (by rw [gatherBy_length, hsize]) (gatherBy_lt hf) ?_
  refine List.Nodup.map_on ?_ List.nodup_range
  intro i hi i' hi' h
  rw [List.mem_range] at hi hi'
  have hp := pos_of_size_pos (s := out) (by omega)
  have hv := unravel_valid hp i
  have hv' := unravel_valid hp i'
  have h1 := congrArg (unravel inn) h
  rw [unravel_ravel (hf _ hv), unravel_ravel (hf _ hv')] at h1
  have h2 := congrArg (ravel out) (hinj _ _ hv hv' h1)
  rwa [ravel_unravel hp hi, ravel_unravel hp hi'] at h2

/-! ### 2. `transposeF` -/

theorem size_perm {l₁ l₂ : List Nat} (h : l₁.Perm l₂) : size l₁ = size l₂ :=
  h.foldr_eq' (fun x _ y _ z => Nat.mul_left_comm y x z) 1

theorem isPerm_spec {n : Nat} {perm : List Nat} (h : isPerm n perm = true) :
    perm.length = n ∧ (List.range n).Perm perm := by
  simp only [isPerm, Bool.and_eq_true, beq_iff_eq, List.all_eq_true, List.mem_range,
    List.contains_iff_mem] at h
  obtain ⟨hl, hm⟩ := h
  exact ⟨hl, (List.subperm_of_subset List.nodup_range fun a ha => hm a (List.mem_range.1 ha)).perm_of_length_le
    (by simp [hl])⟩

theorem isPerm_mem {n : Nat} {perm : List Nat} (h : isPerm n perm = true) {a : Nat} : a ∈ perm ↔ a < n := by
  rw [← (isPerm_spec h).2.mem_iff, List.mem_range]

theorem isPerm_nodup {n : Nat} {perm : List Nat} (h : isPerm n perm = true) : perm.Nodup :=
  (isPerm_spec h).2.nodup_iff.1 List.nodup_range

theorem transposeIn_length (n : Nat) (perm j : List Nat) : (transposeIn n perm j).length = n := by
  simp [transposeIn]

theorem transposeIn_getD {n : Nat} (perm j : List Nat) {a : Nat} (ha : a < n) :
    (transposeIn n perm j).getD a 0 = j.getD (perm.idxOf a) 0 := by
  simp [transposeIn, List.getD_eq_getElem?_getD, ha]

theorem shape_eq_map (shape : List Nat) : (List.range shape.length).map (fun a => shape.getD a 0) = shape := by
  apply List.ext_getElem (by simp)
  intro i h1 h2
  simp [List.getD_eq_getElem?_getD, h2]

theorem transposeOut_size {shape perm : List Nat} (h : isPerm shape.length perm = true) :
    size (perm.map fun a => shape.getD a 0) = size shape := by
  conv_rhs => rw [← shape_eq_map shape]
  exact size_perm ((isPerm_spec h).2.symm.map _)

theorem transposeOut_getD {shape perm : List Nat} (h : isPerm shape.length perm = true) {a : Nat}
    (ha : a < shape.length) : (perm.map fun a => shape.getD a 0).getD (perm.idxOf a) 0 = shape.getD a 0 := by
  have hm : a ∈ perm := (isPerm_mem h).2 ha
  have hp : perm.idxOf a < perm.length := List.idxOf_lt_length_of_mem hm
  simp [List.getD_eq_getElem?_getD, hp, List.getElem_idxOf]

theorem transposeIn_valid {shape perm : List Nat} (h : isPerm shape.length perm = true) {j : List Nat}
    (hj : Valid (perm.map fun a => shape.getD a 0) j) : Valid shape (transposeIn shape.length perm j) := by
  refine ⟨transposeIn_length _ _ _, fun a ha => ?_⟩
  rw [transposeIn_getD _ _ ha, ← transposeOut_getD h ha]
  have hm : a ∈ perm := (isPerm_mem h).2 ha
  exact hj.2 _ (by simpa using List.idxOf_lt_length_of_mem hm)

theorem transposeIn_inj {shape perm : List Nat} (h : isPerm shape.length perm = true) {j j' : List Nat}
    (hj : Valid (perm.map fun a => shape.getD a 0) j) (hj' : Valid (perm.map fun a => shape.getD a 0) j')
    (he : transposeIn shape.length perm j = transposeIn shape.length perm j') : j = j' := by
  have hl := hj.1
  have hl' := hj'.1
  rw [List.length_map] at hl hl'
  apply List.ext_getElem (by omega)
  intro p h1 h2
  have hp : p < perm.length := by omega
  have ha : perm[p] < shape.length := (isPerm_mem h).1 (List.getElem_mem hp)
  have := congrArg (fun l => l.getD perm[p] 0) he
  simp only [transposeIn_getD _ _ ha, (isPerm_nodup h).idxOf_getElem p hp] at this
  simpa [List.getD_eq_getElem?_getD, h1, h2] using this

theorem transposeF_eq {shape perm out idx : List Nat} (h : transposeF shape perm = some (out, idx)) :
    isPerm shape.length perm = true ∧ out = perm.map (fun a => shape.getD a 0) ∧
    idx = gatherBy shape out (transposeIn shape.length perm) := by
  unfold transposeF at h
  split at h
  · simp only [Option.some.injEq, Prod.mk.injEq] at h
    obtain ⟨rfl, rfl⟩ := h
    exact ⟨‹_›, rfl, rfl⟩
  · simp at h

/-- numpy raises exactly when `perm` is not a permutation of the axes -/
theorem transposeF_isSome (shape perm : List Nat) :
    (transposeF shape perm).isSome = isPerm shape.length perm := by
  unfold transposeF
  split <;> simp_all

/-- the output shape: output axis `p` has the extent of input axis `perm[p]` -/
theorem transposeF_shape {shape perm out idx : List Nat} (h : transposeF shape perm = some (out, idx)) :
    out = perm.map (fun a => shape.getD a 0) ∧ size out = size shape := by
  obtain ⟨hp, rfl, -⟩ := transposeF_eq h
  exact ⟨rfl, transposeOut_size hp⟩

/-- (a) -/
theorem transposeF_length {shape perm out idx : List Nat} (h : transposeF shape perm = some (out, idx)) :
    idx.length = size out := by
  obtain ⟨-, -, rfl⟩ := transposeF_eq h
  exact gatherBy_length _ _ _

/-- (b) -/
theorem transposeF_lt {shape perm out idx : List Nat} (h : transposeF shape perm = some (out, idx)) :
    ∀ k ∈ idx, k < size shape := by
  obtain ⟨hp, rfl, rfl⟩ := transposeF_eq h
  exact gatherBy_lt fun j hj => transposeIn_valid hp hj

/-- (c) output multi-index `j` reads the input multi-index whose component on axis `a` is `j[position of a in perm]` -/
theorem transposeF_spec {shape perm out idx : List Nat} (h : transposeF shape perm = some (out, idx))
    {j : List Nat} (hj : Valid out j) :
    idx[ravel out j]? = some (ravel shape ((List.range shape.length).map fun a => j.getD (perm.idxOf a) 0)) ∧
    Valid shape ((List.range shape.length).map fun a => j.getD (perm.idxOf a) 0) := by
  obtain ⟨hp, rfl, rfl⟩ := transposeF_eq h
  exact ⟨gatherBy_spec hj, transposeIn_valid hp hj⟩

/-- (d) -/
theorem transposeF_perm {shape perm out idx : List Nat} (h : transposeF shape perm = some (out, idx)) :
    idx.Perm (List.range (size shape)) := by
  obtain ⟨hp, rfl, rfl⟩ := transposeF_eq h
  exact gatherBy_perm (fun j hj => transposeIn_valid hp hj) (fun j j' hj hj' => transposeIn_inj hp hj hj')
    (transposeOut_size hp)

/-! ### 3. `reshapeF` -/

theorem reshapeF_eq {shape new out idx : List Nat} (h : reshapeF shape new = some (out, idx)) :
    size shape = size new ∧ out = new ∧ idx = List.range (size new) := by
  unfold reshapeF at h
  split at h
  · rename_i hs
    simp only [Option.some.injEq, Prod.mk.injEq] at h
    exact ⟨by simpa using hs, h.1.symm, h.2.symm⟩
  · simp at h

/-- numpy raises exactly when the sizes differ -/
theorem reshapeF_isSome (shape new : List Nat) : (reshapeF shape new).isSome = (size shape == size new) := by
  unfold reshapeF
  split <;> simp_all

/-- (a) -/
theorem reshapeF_length {shape new out idx : List Nat} (h : reshapeF shape new = some (out, idx)) :
    idx.length = size out := by
  obtain ⟨-, rfl, rfl⟩ := reshapeF_eq h
  simp

/-- (b) -/
theorem reshapeF_lt {shape new out idx : List Nat} (h : reshapeF shape new = some (out, idx)) :
    ∀ k ∈ idx, k < size shape := by
  obtain ⟨hs, rfl, rfl⟩ := reshapeF_eq h
  intro k hk
  rw [hs]
  exact List.mem_range.1 hk

/-- (c) output multi-index `j` reads the input multi-index with the same C-order flat position -/
theorem reshapeF_spec {shape new out idx : List Nat} (h : reshapeF shape new = some (out, idx))
    {j : List Nat} (hj : Valid out j) :
    idx[ravel out j]? = some (ravel shape (unravel shape (ravel out j))) ∧
    Valid shape (unravel shape (ravel out j)) ∧ ravel shape (unravel shape (ravel out j)) = ravel out j := by
  obtain ⟨hs, rfl, rfl⟩ := reshapeF_eq h
  have hlt := ravel_lt_of_valid hj
  have hp := pos_of_size_pos (s := shape) (by omega)
  have hr := ravel_unravel hp (i := ravel out j) (by omega)
  refine ⟨?_, unravel_valid hp _, hr⟩
  rw [hr]
  simp [hlt]

/-- (d) -/
theorem reshapeF_perm {shape new out idx : List Nat} (h : reshapeF shape new = some (out, idx)) :
    idx.Perm (List.range (size shape)) := by
  obtain ⟨hs, rfl, rfl⟩ := reshapeF_eq h
  rw [hs]

/-! ### 4. `expandDimsF` -/

theorem size_append (a b : List Nat) : size (a ++ b) = size a * size b := by
  induction a with
  | nil => simp
  | cons d ds ih => simp [ih, Nat.mul_assoc]

theorem size_insert (s₁ s₂ : List Nat) (n : Nat) : size (s₁ ++ n :: s₂) = n * size (s₁ ++ s₂) := by
  simp only [size_append, size_cons]
  exact Nat.mul_left_comm _ _ _

/-- dropping the component of a unit axis does not change the flat position -/
theorem ravel_insert_one : ∀ (s₁ s₂ j : List Nat),
    ravel (s₁ ++ s₂) (j.eraseIdx s₁.length) = ravel (s₁ ++ 1 :: s₂) j
  | [], s₂, [] => by cases s₂ <;> simp [ravel]
  | [], s₂, x :: xs => by simp [ravel, Nat.mod_one]
  | d :: s₁, s₂, [] => by simp [ravel]
  | d :: s₁, s₂, x :: xs => by
    simp only [List.cons_append, List.length_cons, List.eraseIdx_cons_succ, ravel,
      ravel_insert_one s₁ s₂ xs, size_insert, Nat.one_mul]

theorem valid_eraseIdx : ∀ {s₁ s₂ j : List Nat} {n : Nat}, Valid (s₁ ++ n :: s₂) j →
    Valid (s₁ ++ s₂) (j.eraseIdx s₁.length) ∧ j.getD s₁.length 0 < n
  | _, _, [], _, h => by simp [Valid] at h
  | [], s₂, x :: xs, _, h => by
    obtain ⟨hx, hr⟩ := valid_cons.1 h
    exact ⟨by simpa using hr, by simpa using hx⟩
  | d :: s₁, s₂, x :: xs, _, h => by
    obtain ⟨hx, hr⟩ := valid_cons.1 h
    obtain ⟨h1, h2⟩ := valid_eraseIdx hr
    exact ⟨by simpa using valid_cons.2 ⟨hx, h1⟩, by simpa using h2⟩

theorem expandDimsF_eq {shape out idx : List Nat} {axis : Nat} (h : expandDimsF shape axis = some (out, idx)) :
    axis ≤ shape.length ∧ out = shape.take axis ++ 1 :: shape.drop axis ∧
    idx = gatherBy shape out fun j => j.eraseIdx axis := by
  unfold expandDimsF at h
  split at h
  · simp only [Option.some.injEq, Prod.mk.injEq] at h
    obtain ⟨rfl, rfl⟩ := h
    exact ⟨‹_›, rfl, rfl⟩
  · simp at h

/-- numpy raises exactly when `axis > ndim` -/
theorem expandDimsF_isSome (shape : List Nat) (axis : Nat) :
    (expandDimsF shape axis).isSome = decide (axis ≤ shape.length) := by
  unfold expandDimsF
  split <;> simp_all

theorem expandDimsF_size {shape out idx : List Nat} {axis : Nat} (h : expandDimsF shape axis = some (out, idx)) :
    size out = size shape := by
  obtain ⟨-, rfl, -⟩ := expandDimsF_eq h
  rw [size_insert, Nat.one_mul, List.take_append_drop]

/-- (c) output multi-index `j` reads `j` without its component on the new axis; that is the same flat position -/
theorem expandDimsF_spec {shape out idx : List Nat} {axis : Nat} (h : expandDimsF shape axis = some (out, idx))
    {j : List Nat} (hj : Valid out j) :
    idx[ravel out j]? = some (ravel shape (j.eraseIdx axis)) ∧ Valid shape (j.eraseIdx axis) ∧
    ravel shape (j.eraseIdx axis) = ravel out j := by
  obtain ⟨ha, rfl, rfl⟩ := expandDimsF_eq h
  have hl : (shape.take axis).length = axis := List.length_take_of_le ha
  have h1 := ravel_insert_one (shape.take axis) (shape.drop axis) j
  have h2 := (valid_eraseIdx hj).1
  rw [hl, List.take_append_drop] at h1 h2
  exact ⟨gatherBy_spec hj, h2, h1⟩

/-- the flat positions do not move at all -/
theorem expandDimsF_idx {shape out idx : List Nat} {axis : Nat} (h : expandDimsF shape axis = some (out, idx)) :
    idx = List.range (size shape) := by
  have hs := expandDimsF_size h
  obtain ⟨ha, rfl, rfl⟩ := expandDimsF_eq h
  have hl : (shape.take axis).length = axis := List.length_take_of_le ha
  rw [← hs, gatherBy]
  conv_rhs => rw [← List.map_id (List.range _)]
  apply List.map_congr_left
  intro i hi
  rw [List.mem_range] at hi
  have hp := pos_of_size_pos (by omega : 0 < size (shape.take axis ++ 1 :: shape.drop axis))
  have h1 := ravel_insert_one (shape.take axis) (shape.drop axis)
    (unravel (shape.take axis ++ 1 :: shape.drop axis) i)
  rw [hl, List.take_append_drop] at h1
  rw [h1, ravel_unravel hp hi, id]

/-- (a) -/
theorem expandDimsF_length {shape out idx : List Nat} {axis : Nat} (h : expandDimsF shape axis = some (out, idx)) :
    idx.length = size out := by
  rw [expandDimsF_idx h, expandDimsF_size h, List.length_range]

/-- (b) -/
theorem expandDimsF_lt {shape out idx : List Nat} {axis : Nat} (h : expandDimsF shape axis = some (out, idx)) :
    ∀ k ∈ idx, k < size shape := by
  rw [expandDimsF_idx h]
  exact fun k hk => List.mem_range.1 hk

/-- (d) -/
theorem expandDimsF_perm {shape out idx : List Nat} {axis : Nat} (h : expandDimsF shape axis = some (out, idx)) :
    idx.Perm (List.range (size shape)) := by
  rw [expandDimsF_idx h]

/-! ### 5. `repeatF` -/

theorem getD_set {l : List Nat} {i : Nat} (hi : i < l.length) (a v : Nat) :
    (l.set i v).getD a 0 = if a = i then v else l.getD a 0 := by
  simp only [List.getD_eq_getElem?_getD, List.getElem?_set]
  by_cases h : i = a
  · subst h; simp [hi]
  · simp [h, Ne.symm h]

theorem size_set : ∀ (s : List Nat) (i v : Nat), i < s.length → size (s.set i v) = v * size (s.eraseIdx i)
  | [], _, _, h => by simp at h
  | d :: ds, 0, v, _ => by simp
  | d :: ds, i + 1, v, h => by
    simp only [List.set_cons_succ, List.eraseIdx_cons_succ, size_cons, size_set ds i v (by simpa using h)]
    exact Nat.mul_left_comm _ _ _

theorem size_eq_getD_mul (s : List Nat) {i : Nat} (hi : i < s.length) :
    size s = s.getD i 0 * size (s.eraseIdx i) := by
  rw [← size_set s i _ hi]
  simp [List.getD_eq_getElem?_getD, hi]

theorem repeatF_eq {shape out idx : List Nat} {k axis : Nat} (h : repeatF shape k axis = some (out, idx)) :
    axis < shape.length ∧ out = shape.set axis (shape.getD axis 0 * k) ∧
    idx = gatherBy shape out fun j => j.set axis (j.getD axis 0 / k) := by
  unfold repeatF at h
  split at h
  · simp only [Option.some.injEq, Prod.mk.injEq] at h
    obtain ⟨rfl, rfl⟩ := h
    exact ⟨‹_›, rfl, rfl⟩
  · simp at h

/-- numpy raises exactly when `axis` is out of range -/
theorem repeatF_isSome (shape : List Nat) (k axis : Nat) :
    (repeatF shape k axis).isSome = decide (axis < shape.length) := by
  unfold repeatF
  split <;> simp_all

theorem repeatF_size {shape out idx : List Nat} {k axis : Nat} (h : repeatF shape k axis = some (out, idx)) :
    size out = size shape * k := by
  obtain ⟨ha, rfl, -⟩ := repeatF_eq h
  rw [size_set _ _ _ ha, size_eq_getD_mul shape ha, Nat.mul_right_comm]

theorem repeat_valid {shape j : List Nat} {k axis : Nat} (ha : axis < shape.length)
    (hj : Valid (shape.set axis (shape.getD axis 0 * k)) j) :
    Valid shape (j.set axis (j.getD axis 0 / k)) := by
  obtain ⟨hl, hv⟩ := hj
  rw [List.length_set] at hl hv
  refine ⟨by rw [List.length_set, hl], fun a h => ?_⟩
  have := hv a h
  rw [getD_set ha] at this
  rw [getD_set (by omega)]
  by_cases hx : a = axis
  · subst hx
    simp only [if_true] at this ⊢
    exact Nat.div_lt_of_lt_mul (by rwa [Nat.mul_comm])
  · simpa [hx] using this

/-- (a) -/
theorem repeatF_length {shape out idx : List Nat} {k axis : Nat} (h : repeatF shape k axis = some (out, idx)) :
    idx.length = size out := by
  obtain ⟨-, -, rfl⟩ := repeatF_eq h
  exact gatherBy_length _ _ _

/-- (b) -/
theorem repeatF_lt {shape out idx : List Nat} {k axis : Nat} (h : repeatF shape k axis = some (out, idx)) :
    ∀ p ∈ idx, p < size shape := by
  obtain ⟨ha, rfl, rfl⟩ := repeatF_eq h
  exact gatherBy_lt fun j hj => repeat_valid ha hj

/-- (c) output multi-index `j` reads `j` with its `axis` component divided by `k` -/
theorem repeatF_spec {shape out idx : List Nat} {k axis : Nat} (h : repeatF shape k axis = some (out, idx))
    {j : List Nat} (hj : Valid out j) :
    idx[ravel out j]? = some (ravel shape (j.set axis (j.getD axis 0 / k))) ∧
    Valid shape (j.set axis (j.getD axis 0 / k)) := by
  obtain ⟨ha, rfl, rfl⟩ := repeatF_eq h
  exact ⟨gatherBy_spec hj, repeat_valid ha hj⟩

/-! ### 6. `concatF` -/

/-- `locate` finds the operand and the position inside it -/
theorem locate_spec : ∀ (dims : List Nat) (x : Nat), x < dims.sum →
    (locate dims x).1 < dims.length ∧ (locate dims x).2 < dims.getD (locate dims x).1 0 ∧
    x = (dims.take (locate dims x).1).sum + (locate dims x).2
  | [], x, h => by simp at h
  | d :: ds, x, h => by
    rw [locate]
    split
    · simpa
    · obtain ⟨h1, h2, h3⟩ := locate_spec ds (x - d) (by rw [List.sum_cons] at h; omega)
      refine ⟨by simpa using h1, by simpa using h2, ?_⟩
      simp only [List.take_succ_cons, List.sum_cons]
      omega

theorem concatOK_spec {s0 s : List Nat} {axis : Nat} (h : concatOK s0 axis s = true) :
    s.length = s0.length ∧ ∀ a, a < s0.length → a ≠ axis → s.getD a 0 = s0.getD a 0 := by
  simp only [concatOK, Bool.and_eq_true, beq_iff_eq, List.all_eq_true, List.mem_range, Bool.or_eq_true] at h
  exact ⟨h.1, fun a ha hne => (h.2 a ha).resolve_left hne⟩

theorem concatF_eq {shapes : List (List Nat)} {axis : Nat} {out : List Nat} {idx : List (Nat × Nat)}
    (h : concatF shapes axis = some (out, idx)) :
    ∃ s0, shapes.head? = some s0 ∧ axis < s0.length ∧ (∀ s ∈ shapes, concatOK s0 axis s = true) ∧
      out = s0.set axis (shapes.map fun s => s.getD axis 0).sum ∧
      idx = (List.range (size out)).map fun i =>
        ((locate (shapes.map fun s => s.getD axis 0) ((unravel out i).getD axis 0)).1,
         ravel (shapes.getD (locate (shapes.map fun s => s.getD axis 0) ((unravel out i).getD axis 0)).1 [])
          ((unravel out i).set axis
            (locate (shapes.map fun s => s.getD axis 0) ((unravel out i).getD axis 0)).2)) := by
  unfold concatF at h
  split at h
  · simp at h
  · rename_i s0 rest
    split at h
    · rename_i hc
      simp only [Bool.and_eq_true, decide_eq_true_eq, List.all_eq_true] at hc
      simp only [Option.some.injEq, Prod.mk.injEq] at h
      obtain ⟨rfl, rfl⟩ := h
      exact ⟨s0, rfl, hc.1, hc.2, rfl, rfl⟩
    · simp at h

/-- the heart of (b)/(c): where a valid output multi-index lands -/
theorem concat_valid {shapes : List (List Nat)} {s0 j : List Nat} {axis : Nat} (ha : axis < s0.length)
    (hok : ∀ s ∈ shapes, concatOK s0 axis s = true)
    (hj : Valid (s0.set axis (shapes.map fun s => s.getD axis 0).sum) j) :
    (locate (shapes.map fun s => s.getD axis 0) (j.getD axis 0)).1 < shapes.length ∧
    Valid (shapes.getD (locate (shapes.map fun s => s.getD axis 0) (j.getD axis 0)).1 [])
      (j.set axis (locate (shapes.map fun s => s.getD axis 0) (j.getD axis 0)).2) ∧
    j.getD axis 0 = ((shapes.take (locate (shapes.map fun s => s.getD axis 0) (j.getD axis 0)).1).map
      fun s => s.getD axis 0).sum + (locate (shapes.map fun s => s.getD axis 0) (j.getD axis 0)).2 := by
  obtain ⟨hl, hv⟩ := hj
  rw [List.length_set] at hl hv
  have hx := hv axis ha
  rw [getD_set ha, if_pos rfl] at hx
  obtain ⟨h1, h2, h3⟩ := locate_spec _ _ hx
  generalize locate (shapes.map fun s => s.getD axis 0) (j.getD axis 0) = r at h1 h2 h3 ⊢
  rw [List.length_map] at h1
  have hg : shapes.getD r.1 [] = shapes[r.1] := by simp [List.getD_eq_getElem?_getD, h1]
  obtain ⟨hsl, hsv⟩ := concatOK_spec (hok _ (List.getElem_mem h1))
  refine ⟨h1, ⟨by rw [List.length_set, hg, hl, hsl], fun a h => ?_⟩, by rw [List.map_take]; exact h3⟩
  rw [hg] at h ⊢
  rw [getD_set (by omega)]
  by_cases hx : a = axis
  · subst hx
    simpa [List.getD_eq_getElem?_getD, h1] using h2
  · have := hv a (by omega)
    rw [getD_set ha, if_neg hx] at this
    rw [if_neg hx, hsv a (by omega) hx]
    exact this

/-- (a) -/
theorem concatF_length {shapes : List (List Nat)} {axis : Nat} {out : List Nat} {idx : List (Nat × Nat)}
    (h : concatF shapes axis = some (out, idx)) : idx.length = size out := by
  obtain ⟨s0, -, -, -, -, rfl⟩ := concatF_eq h
  simp

/-- the output shape: the first operand's with the `axis` extents summed -/
theorem concatF_shape {shapes : List (List Nat)} {axis : Nat} {out : List Nat} {idx : List (Nat × Nat)}
    (h : concatF shapes axis = some (out, idx)) :
    ∃ s0, shapes.head? = some s0 ∧ axis < s0.length ∧ out = s0.set axis (shapes.map fun s => s.getD axis 0).sum ∧
      ∀ s ∈ shapes, s.length = s0.length ∧ ∀ a, a < s0.length → a ≠ axis → s.getD a 0 = s0.getD a 0 := by
  obtain ⟨s0, h0, ha, hok, ho, -⟩ := concatF_eq h
  exact ⟨s0, h0, ha, ho, fun s hs => concatOK_spec (hok s hs)⟩

/-- (b) every entry names an operand and a position inside that operand -/
theorem concatF_lt {shapes : List (List Nat)} {axis : Nat} {out : List Nat} {idx : List (Nat × Nat)}
    (h : concatF shapes axis = some (out, idx)) :
    ∀ p ∈ idx, p.1 < shapes.length ∧ p.2 < size (shapes.getD p.1 []) := by
  obtain ⟨s0, -, ha, hok, rfl, rfl⟩ := concatF_eq h
  intro p hp
  simp only [List.mem_map, List.mem_range] at hp
  obtain ⟨i, hi, rfl⟩ := hp
  obtain ⟨h1, h2, -⟩ := concat_valid ha hok (unravel_valid (pos_of_size_pos (by omega)) i)
  exact ⟨h1, ravel_lt_of_valid h2⟩

/-- (c) output multi-index `j` reads operand `o` at `j` with the `axis` component reduced by the extents of the
earlier operands, where `o` is the operand whose block contains `j[axis]` -/
theorem concatF_spec {shapes : List (List Nat)} {axis : Nat} {out : List Nat} {idx : List (Nat × Nat)}
    (h : concatF shapes axis = some (out, idx)) {j : List Nat} (hj : Valid out j) :
    ∃ o r, idx[ravel out j]? = some (o, ravel (shapes.getD o []) (j.set axis r)) ∧ o < shapes.length ∧
      Valid (shapes.getD o []) (j.set axis r) ∧
      j.getD axis 0 = ((shapes.take o).map fun s => s.getD axis 0).sum + r := by
  obtain ⟨s0, -, ha, hok, rfl, rfl⟩ := concatF_eq h
  obtain ⟨h1, h2, h3⟩ := concat_valid ha hok hj
  refine ⟨_, _, ?_, h1, h2, h3⟩
  rw [List.getElem?_map, List.getElem?_range (ravel_lt_of_valid hj), Option.map_some, unravel_ravel hj]

/-! ### 7. `stackF` -/

theorem stackF_eq {shapes : List (List Nat)} {axis : Nat} {out : List Nat} {idx : List (Nat × Nat)}
    (h : stackF shapes axis = some (out, idx)) :
    ∃ s0, shapes.head? = some s0 ∧ axis ≤ s0.length ∧ (∀ s ∈ shapes, s = s0) ∧
      out = s0.take axis ++ shapes.length :: s0.drop axis ∧
      idx = (List.range (size out)).map fun i =>
        ((unravel out i).getD axis 0, ravel s0 ((unravel out i).eraseIdx axis)) := by
  unfold stackF at h
  split at h
  · simp at h
  · rename_i s0 rest
    split at h
    · rename_i hc
      simp only [Bool.and_eq_true, decide_eq_true_eq, List.all_eq_true, beq_iff_eq] at hc
      simp only [Option.some.injEq, Prod.mk.injEq] at h
      obtain ⟨rfl, rfl⟩ := h
      exact ⟨s0, rfl, hc.1, hc.2, rfl, rfl⟩
    · simp at h

theorem stack_valid {s0 j : List Nat} {axis n : Nat} (ha : axis ≤ s0.length)
    (hj : Valid (s0.take axis ++ n :: s0.drop axis) j) : Valid s0 (j.eraseIdx axis) ∧ j.getD axis 0 < n := by
  have := valid_eraseIdx hj
  rwa [List.length_take_of_le ha, List.take_append_drop] at this

/-- (a) -/
theorem stackF_length {shapes : List (List Nat)} {axis : Nat} {out : List Nat} {idx : List (Nat × Nat)}
    (h : stackF shapes axis = some (out, idx)) : idx.length = size out := by
  obtain ⟨s0, -, -, -, -, rfl⟩ := stackF_eq h
  simp

/-- (b) -/
theorem stackF_lt {shapes : List (List Nat)} {axis : Nat} {out : List Nat} {idx : List (Nat × Nat)}
    (h : stackF shapes axis = some (out, idx)) :
    ∀ p ∈ idx, p.1 < shapes.length ∧ p.2 < size (shapes.getD p.1 []) := by
  obtain ⟨s0, -, ha, hall, rfl, rfl⟩ := stackF_eq h
  intro p hp
  simp only [List.mem_map, List.mem_range] at hp
  obtain ⟨i, hi, rfl⟩ := hp
  obtain ⟨h1, h2⟩ := stack_valid ha (unravel_valid (pos_of_size_pos (Nat.zero_lt_of_lt hi)) i)
  refine ⟨h2, ?_⟩
  have : shapes.getD ((unravel (s0.take axis ++ shapes.length :: s0.drop axis) i).getD axis 0) [] = s0 := by
    rw [List.getD_eq_getElem?_getD, List.getElem?_eq_getElem h2]
    exact hall _ (List.getElem_mem h2)
  rw [this]
  exact ravel_lt_of_valid h1

/-- (c) the output shape is the common shape with the number of operands inserted at `axis`; output multi-index
`j` reads operand `j[axis]` at `j` without that component -/
theorem stackF_spec {shapes : List (List Nat)} {axis : Nat} {out : List Nat} {idx : List (Nat × Nat)}
    (h : stackF shapes axis = some (out, idx)) :
    ∃ s0, (∀ s ∈ shapes, s = s0) ∧ out = s0.take axis ++ shapes.length :: s0.drop axis ∧
      ∀ j, Valid out j → idx[ravel out j]? = some (j.getD axis 0, ravel s0 (j.eraseIdx axis)) ∧
        j.getD axis 0 < shapes.length ∧ Valid s0 (j.eraseIdx axis) := by
  obtain ⟨s0, -, ha, hall, rfl, rfl⟩ := stackF_eq h
  refine ⟨s0, hall, rfl, fun j hj => ?_⟩
  obtain ⟨h1, h2⟩ := stack_valid ha hj
  refine ⟨?_, h2, h1⟩
  rw [List.getElem?_map, List.getElem?_range (ravel_lt_of_valid hj), Option.map_some, unravel_ravel hj]

/-! ### 8. `swapaxesF` -/

theorem swapAxis_lt {n a b k : Nat} (ha : a < n) (hb : b < n) (hk : k < n) : swapAxis a b k < n := by
  simp only [swapAxis, beq_iff_eq]
  split
  · exact hb
  · split <;> assumption

theorem swapAxis_swapAxis (a b k : Nat) : swapAxis a b (swapAxis a b k) = k := by
  simp only [swapAxis, beq_iff_eq]
  split <;> split <;> (try split) <;> (try split) <;> omega

theorem swapaxesPerm_getElem {n a b p : Nat} (hp : p < (swapaxesPerm n a b).length) :
    (swapaxesPerm n a b)[p] = swapAxis a b p := by
  simp [swapaxesPerm]

theorem swapaxes_isPerm {n a b : Nat} (ha : a < n) (hb : b < n) : isPerm n (swapaxesPerm n a b) = true := by
  simp only [isPerm, swapaxesPerm, List.length_map, List.length_range, beq_self_eq_true, Bool.true_and,
    List.all_eq_true, List.mem_range, List.contains_iff_mem, List.mem_map]
  exact fun k hk => ⟨swapAxis a b k, swapAxis_lt ha hb hk, swapAxis_swapAxis a b k⟩

theorem swapaxes_idxOf {n a b c : Nat} (ha : a < n) (hb : b < n) (hc : c < n) :
    (swapaxesPerm n a b).idxOf c = swapAxis a b c := by
  have hl : swapAxis a b c < (swapaxesPerm n a b).length := by
    simpa [swapaxesPerm] using swapAxis_lt ha hb hc
  have := (isPerm_nodup (swapaxes_isPerm ha hb)).idxOf_getElem _ hl
  rwa [swapaxesPerm_getElem, swapAxis_swapAxis] at this

theorem swapaxesF_eq {shape : List Nat} {a b : Nat} {r : List Nat × List Nat} (h : swapaxesF shape a b = some r) :
    a < shape.length ∧ b < shape.length ∧ transposeF shape (swapaxesPerm shape.length a b) = some r := by
  unfold swapaxesF at h
  split at h
  · rename_i hc
    simp only [Bool.and_eq_true, decide_eq_true_eq] at hc
    exact ⟨hc.1, hc.2, h⟩
  · simp at h

/-- numpy raises exactly when an axis is out of range -/
theorem swapaxesF_isSome (shape : List Nat) (a b : Nat) :
    (swapaxesF shape a b).isSome = (decide (a < shape.length) && decide (b < shape.length)) := by
  unfold swapaxesF
  split
  · rename_i hc
    rw [hc, transposeF_isSome]
    simp only [Bool.and_eq_true, decide_eq_true_eq] at hc
    exact swapaxes_isPerm hc.1 hc.2
  · rename_i hc
    simpa using hc

/-- (a) -/
theorem swapaxesF_length {shape out idx : List Nat} {a b : Nat} (h : swapaxesF shape a b = some (out, idx)) :
    idx.length = size out := transposeF_length (swapaxesF_eq h).2.2

/-- (b) -/
theorem swapaxesF_lt {shape out idx : List Nat} {a b : Nat} (h : swapaxesF shape a b = some (out, idx)) :
    ∀ k ∈ idx, k < size shape := transposeF_lt (swapaxesF_eq h).2.2

/-- (c) the output shape and the output multi-index are the input ones with components `a` and `b` exchanged -/
theorem swapaxesF_spec {shape out idx : List Nat} {a b : Nat} (h : swapaxesF shape a b = some (out, idx)) :
    out = (List.range shape.length).map (fun k => shape.getD (swapAxis a b k) 0) ∧
    ∀ j, Valid out j →
      idx[ravel out j]? = some (ravel shape ((List.range shape.length).map fun c => j.getD (swapAxis a b c) 0)) ∧
      Valid shape ((List.range shape.length).map fun c => j.getD (swapAxis a b c) 0) := by
  obtain ⟨ha, hb, ht⟩ := swapaxesF_eq h
  refine ⟨by rw [(transposeF_shape ht).1, swapaxesPerm, List.map_map]; rfl, fun j hj => ?_⟩
  have h1 := transposeF_spec ht hj
  have he : ((List.range shape.length).map fun c => j.getD ((swapaxesPerm shape.length a b).idxOf c) 0) =
      (List.range shape.length).map fun c => j.getD (swapAxis a b c) 0 :=
    List.map_congr_left fun c hc => by rw [swapaxes_idxOf ha hb (List.mem_range.1 hc)]
  rwa [he] at h1

/-- (d) -/
theorem swapaxesF_perm {shape out idx : List Nat} {a b : Nat} (h : swapaxesF shape a b = some (out, idx)) :
    idx.Perm (List.range (size shape)) := transposeF_perm (swapaxesF_eq h).2.2

/-! ### 9. `moveaxisF` -/

theorem moveaxis_filter_length {n src : Nat} (hs : src < n) :
    ((List.range n).filter fun a => a != src).length = n - 1 := by
  rw [← List.nodup_range.erase_eq_filter, List.length_erase_of_mem (List.mem_range.2 hs), List.length_range]

theorem moveaxis_isPerm {n src dst : Nat} (hs : src < n) (hd : dst < n) :
    isPerm n (moveaxisPerm n src dst) = true := by
  have hl := moveaxis_filter_length hs
  have hle : dst ≤ ((List.range n).filter fun a => a != src).length := by omega
  simp only [isPerm, moveaxisPerm, Bool.and_eq_true, beq_iff_eq, List.all_eq_true, List.mem_range,
    List.contains_iff_mem]
  refine ⟨by rw [List.length_insertIdx_of_le_length hle, hl]; omega, fun k hk => ?_⟩
  rw [List.mem_insertIdx hle]
  by_cases h : k = src
  · exact .inl h
  · exact .inr (by simp [hk, h])

/-- what `numpy.moveaxis` promises: axis `src` lands at position `dst`, the others keep their order -/
theorem moveaxisPerm_spec {n src dst : Nat} (hs : src < n) (hd : dst < n) :
    (moveaxisPerm n src dst)[dst]? = some src ∧
    (moveaxisPerm n src dst).eraseIdx dst = (List.range n).filter fun a => a != src := by
  have hl := moveaxis_filter_length hs
  have hlt : dst < (moveaxisPerm n src dst).length := by
    rw [moveaxisPerm, List.length_insertIdx_of_le_length (by omega), hl]; omega
  exact ⟨by rw [List.getElem?_eq_getElem hlt]; simp [moveaxisPerm, List.getElem_insertIdx_self],
    List.eraseIdx_insertIdx_self _⟩

theorem moveaxisF_eq {shape : List Nat} {src dst : Nat} {r : List Nat × List Nat}
    (h : moveaxisF shape src dst = some r) :
    src < shape.length ∧ dst < shape.length ∧ transposeF shape (moveaxisPerm shape.length src dst) = some r := by
  unfold moveaxisF at h
  split at h
  · rename_i hc
    simp only [Bool.and_eq_true, decide_eq_true_eq] at hc
    exact ⟨hc.1, hc.2, h⟩
  · simp at h

/-- numpy raises exactly when an axis is out of range -/
theorem moveaxisF_isSome (shape : List Nat) (src dst : Nat) :
    (moveaxisF shape src dst).isSome = (decide (src < shape.length) && decide (dst < shape.length)) := by
  unfold moveaxisF
  split
  · rename_i hc
    rw [hc, transposeF_isSome]
    simp only [Bool.and_eq_true, decide_eq_true_eq] at hc
    exact moveaxis_isPerm hc.1 hc.2
  · rename_i hc
    simpa using hc

/-- (a) -/
theorem moveaxisF_length {shape out idx : List Nat} {src dst : Nat}
    (h : moveaxisF shape src dst = some (out, idx)) : idx.length = size out :=
  transposeF_length (moveaxisF_eq h).2.2

/-- (b) -/
theorem moveaxisF_lt {shape out idx : List Nat} {src dst : Nat}
    (h : moveaxisF shape src dst = some (out, idx)) : ∀ k ∈ idx, k < size shape :=
  transposeF_lt (moveaxisF_eq h).2.2

/-- (c) it is the transposition by `moveaxisPerm` (see `moveaxisPerm_spec`) -/
theorem moveaxisF_spec {shape out idx : List Nat} {src dst : Nat}
    (h : moveaxisF shape src dst = some (out, idx)) :
    out = (moveaxisPerm shape.length src dst).map (fun a => shape.getD a 0) ∧
    ∀ j, Valid out j →
      idx[ravel out j]? = some (ravel shape
        ((List.range shape.length).map fun a => j.getD ((moveaxisPerm shape.length src dst).idxOf a) 0)) ∧
      Valid shape ((List.range shape.length).map fun a => j.getD ((moveaxisPerm shape.length src dst).idxOf a) 0) :=
  ⟨(transposeF_shape (moveaxisF_eq h).2.2).1, fun _ hj => transposeF_spec (moveaxisF_eq h).2.2 hj⟩

/-- (d) -/
theorem moveaxisF_perm {shape out idx : List Nat} {src dst : Nat}
    (h : moveaxisF shape src dst = some (out, idx)) : idx.Perm (List.range (size shape)) :=
  transposeF_perm (moveaxisF_eq h).2.2

/-! ### 10. `tileF` -/

theorem padOnes_length {d : Nat} {s : List Nat} (h : s.length ≤ d) : (padOnes d s).length = d := by
  simp only [padOnes, List.length_append, List.length_replicate]
  omega

theorem padOnes_getD (d : Nat) (s : List Nat) (a : Nat) :
    (padOnes d s).getD (d - s.length + a) 0 = s.getD a 0 := by
  simp [padOnes, List.getD_eq_getElem?_getD, List.getElem?_append_right]

theorem zipWith_getD {f : Nat → Nat → Nat} {l₁ l₂ : List Nat} {q : Nat} (h1 : q < l₁.length) (h2 : q < l₂.length) :
    (List.zipWith f l₁ l₂).getD q 0 = f (l₁.getD q 0) (l₂.getD q 0) := by
  simp [List.getD_eq_getElem?_getD, List.getElem?_zipWith, h1, h2]

theorem drop_getD (l : List Nat) (k a : Nat) : (l.drop k).getD a 0 = l.getD (k + a) 0 := by
  simp [List.getD_eq_getElem?_getD, List.getElem?_drop]

/-- the input multi-index of `tileF`: the trailing components of `j`, each reduced modulo the extent -/
theorem tile_valid {shape reps j : List Nat}
    (hj : Valid (List.zipWith (· * ·) (padOnes (max shape.length reps.length) shape)
      (padOnes (max shape.length reps.length) reps)) j) :
    Valid shape ((List.zipWith (fun x n => x % n) j (padOnes (max shape.length reps.length) shape)).drop
      (max shape.length reps.length - shape.length)) ∧
    ∀ a, a < shape.length →
      ((List.zipWith (fun x n => x % n) j (padOnes (max shape.length reps.length) shape)).drop
        (max shape.length reps.length - shape.length)).getD a 0 =
      j.getD (max shape.length reps.length - shape.length + a) 0 % shape.getD a 0 := by
  obtain ⟨hl, hv⟩ := hj
  have hs := padOnes_length (Nat.le_max_left shape.length reps.length)
  have hr := padOnes_length (Nat.le_max_right shape.length reps.length)
  generalize max shape.length reps.length = d at *
  have hd : shape.length ≤ d := by
    simp only [padOnes, List.length_append, List.length_replicate] at hs
    omega
  rw [List.length_zipWith, hs, hr, Nat.min_self] at hl hv
  have key : ∀ a, a < shape.length →
      ((List.zipWith (fun x n => x % n) j (padOnes d shape)).drop (d - shape.length)).getD a 0 =
      j.getD (d - shape.length + a) 0 % shape.getD a 0 := by
    intro a ha
    rw [drop_getD, zipWith_getD (by omega) (by omega), padOnes_getD]
  refine ⟨⟨by simp only [List.length_drop, List.length_zipWith, hl, hs]; omega, fun a ha => ?_⟩, key⟩
  rw [key a ha]
  have := hv (d - shape.length + a) (by omega)
  rw [zipWith_getD (by omega) (by omega), padOnes_getD] at this
  exact Nat.mod_lt _ (Nat.pos_of_mul_pos_right (Nat.zero_lt_of_lt this))

theorem tileF_eq {shape reps out idx : List Nat} (h : tileF shape reps = some (out, idx)) :
    out = List.zipWith (· * ·) (padOnes (max shape.length reps.length) shape)
      (padOnes (max shape.length reps.length) reps) ∧
    idx = gatherBy shape out fun j =>
      (List.zipWith (fun x n => x % n) j (padOnes (max shape.length reps.length) shape)).drop
        (max shape.length reps.length - shape.length) := by
  simp only [tileF, Option.some.injEq, Prod.mk.injEq] at h
  obtain ⟨rfl, rfl⟩ := h
  exact ⟨rfl, rfl⟩

/-- (a) -/
theorem tileF_length {shape reps out idx : List Nat} (h : tileF shape reps = some (out, idx)) :
    idx.length = size out := by
  obtain ⟨-, rfl⟩ := tileF_eq h
  exact gatherBy_length _ _ _

/-- (b) -/
theorem tileF_lt {shape reps out idx : List Nat} (h : tileF shape reps = some (out, idx)) :
    ∀ k ∈ idx, k < size shape := by
  obtain ⟨rfl, rfl⟩ := tileF_eq h
  exact gatherBy_lt fun j hj => (tile_valid hj).1

/-- (c) with `d = max ndim (len reps)`, output multi-index `j` (of length `d`) reads the input multi-index whose
component `a` is `j[d - ndim + a] % shape[a]` -/
theorem tileF_spec {shape reps out idx : List Nat} (h : tileF shape reps = some (out, idx))
    {j : List Nat} (hj : Valid out j) :
    ∃ x, idx[ravel out j]? = some (ravel shape x) ∧ Valid shape x ∧
      ∀ a, a < shape.length →
        x.getD a 0 = j.getD (max shape.length reps.length - shape.length + a) 0 % shape.getD a 0 := by
  obtain ⟨rfl, rfl⟩ := tileF_eq h
  exact ⟨_, gatherBy_spec hj, (tile_valid hj).1, (tile_valid hj).2⟩

/-! ### 11. `diagonalF` -/

/-- position of `a` among the numbers below `n` that satisfy `P` -/
theorem filter_range_idxOf (P : Nat → Bool) : ∀ (n a : Nat), a < n → P a = true →
    ((List.range n).filter P).idxOf a = ((List.range a).filter P).length
  | 0, a, h, _ => by omega
  | n + 1, a, h, hP => by
    rw [List.range_succ, List.filter_append, List.idxOf_append]
    by_cases ha : a = n
    · subst ha
      simp [hP]
    · have hm : a ∈ (List.range n).filter P := by
        rw [List.mem_filter, List.mem_range]
        exact ⟨by omega, hP⟩
      rw [if_pos hm]
      exact filter_range_idxOf P n a (by omega) hP

/-- how many axes below `a` remain once `ax1` and `ax2` are removed -/
theorem diag_count {ax1 ax2 : Nat} (hne : ax1 ≠ ax2) : ∀ a : Nat,
    ((List.range a).filter fun a => a != ax1 && a != ax2).length + (if ax1 < a then 1 else 0) +
      (if ax2 < a then 1 else 0) = a
  | 0 => by simp
  | a + 1 => by
    have ih := diag_count hne a
    rw [List.range_succ, List.filter_append, List.length_append]
    have hf : (([a] : List Nat).filter fun a => a != ax1 && a != ax2).length =
        if a = ax1 ∨ a = ax2 then 0 else 1 := by
      by_cases h1 : a = ax1 <;> by_cases h2 : a = ax2 <;> simp [h1, h2]
    rw [hf]
    split_ifs at ih ⊢ <;> omega

/-- the remaining axes in order: axis `a` sits at position `a - [ax1 < a] - [ax2 < a]` -/
theorem diag_rest {n ax1 ax2 a : Nat} (hne : ax1 ≠ ax2) (h1 : ax1 < n) (h2 : ax2 < n) (ha : a < n)
    (ha1 : a ≠ ax1) (ha2 : a ≠ ax2) :
    ((List.range n).filter fun a => a != ax1 && a != ax2).length = n - 2 ∧
    ((List.range n).filter fun a => a != ax1 && a != ax2)[a - (if ax1 < a then 1 else 0) -
      (if ax2 < a then 1 else 0)]? = some a := by
  have hn := diag_count hne n
  rw [if_pos h1, if_pos h2] at hn
  have hP : (fun a => a != ax1 && a != ax2) a = true := by simp [ha1, ha2]
  have hi := filter_range_idxOf (fun a => a != ax1 && a != ax2) n a ha hP
  have hc := diag_count hne a
  have hm : a ∈ (List.range n).filter fun a => a != ax1 && a != ax2 := by
    rw [List.mem_filter, List.mem_range]
    exact ⟨ha, hP⟩
  have hp : a - (if ax1 < a then 1 else 0) - (if ax2 < a then 1 else 0) =
      ((List.range n).filter fun a => a != ax1 && a != ax2).idxOf a := by
    rw [hi]; omega
  refine ⟨by omega, ?_⟩
  rw [hp, List.getElem?_eq_getElem (List.idxOf_lt_length_of_mem hm), List.getElem_idxOf]

theorem diagonalIn_getD {n : Nat} (offset : Int) (ax1 ax2 : Nat) (j : List Nat) {a : Nat} (ha : a < n) :
    (diagonalIn n offset ax1 ax2 j).getD a 0 =
      if a = ax1 then j.getD (n - 2) 0 + (-offset).toNat
      else if a = ax2 then j.getD (n - 2) 0 + offset.toNat
      else j.getD (a - (if ax1 < a then 1 else 0) - (if ax2 < a then 1 else 0)) 0 := by
  simp [diagonalIn, List.getD_eq_getElem?_getD, ha]

theorem diagonal_valid {shape j : List Nat} {offset : Int} {ax1 ax2 : Nat} (hne : ax1 ≠ ax2)
    (h1 : ax1 < shape.length) (h2 : ax2 < shape.length)
    (hj : Valid ((((List.range shape.length).filter fun a => a != ax1 && a != ax2).map fun a => shape.getD a 0) ++
      [diagLen (shape.getD ax1 0) (shape.getD ax2 0) offset]) j) :
    Valid shape (diagonalIn shape.length offset ax1 ax2 j) := by
  obtain ⟨hl, hv⟩ := hj
  refine ⟨by simp [diagonalIn], fun a ha => ?_⟩
  rw [diagonalIn_getD _ _ _ _ ha]
  have hL : ((List.range shape.length).filter fun a => a != ax1 && a != ax2).length = shape.length - 2 := by
    have hn := diag_count hne shape.length
    rw [if_pos h1, if_pos h2] at hn
    omega
  simp only [List.length_append, List.length_map, hL, List.length_singleton] at hl hv
  have hd := hv (shape.length - 2) (by omega)
  rw [List.getD_eq_getElem?_getD, List.getD_eq_getElem?_getD (l := _ ++ _),
    List.getElem?_append_right (by simp [hL])] at hd
  simp only [List.length_map, hL, Nat.sub_self, List.getElem?_cons_zero, Option.getD_some, diagLen] at hd
  rw [← List.getD_eq_getElem?_getD] at hd
  by_cases e1 : a = ax1
  · rw [if_pos e1, e1]
    split at hd <;> omega
  · rw [if_neg e1]
    by_cases e2 : a = ax2
    · rw [if_pos e2, e2]
      split at hd <;> omega
    · rw [if_neg e2]
      obtain ⟨-, hg⟩ := diag_rest hne h1 h2 ha e1 e2
      have hlt : a - (if ax1 < a then 1 else 0) - (if ax2 < a then 1 else 0) < shape.length - 2 := by
        split <;> split <;> omega
      have := hv _ (by omega : a - (if ax1 < a then 1 else 0) - (if ax2 < a then 1 else 0) < shape.length - 2 + 1)
      rw [List.getD_eq_getElem?_getD (l := _ ++ _), List.getElem?_append_left (by simpa [hL] using hlt),
        List.getElem?_map, hg] at this
      simpa using this

theorem diagonalF_eq {shape out idx : List Nat} {offset : Int} {ax1 ax2 : Nat}
    (h : diagonalF shape offset ax1 ax2 = some (out, idx)) :
    ax1 < shape.length ∧ ax2 < shape.length ∧ ax1 ≠ ax2 ∧
    out = (((List.range shape.length).filter fun a => a != ax1 && a != ax2).map fun a => shape.getD a 0) ++
      [diagLen (shape.getD ax1 0) (shape.getD ax2 0) offset] ∧
    idx = gatherBy shape out (diagonalIn shape.length offset ax1 ax2) := by
  unfold diagonalF at h
  simp only at h
  split at h
  · rename_i hc
    simp only [Bool.and_eq_true, decide_eq_true_eq, bne_iff_ne, ne_eq] at hc
    simp only [Option.some.injEq, Prod.mk.injEq] at h
    obtain ⟨rfl, rfl⟩ := h
    exact ⟨hc.1.1, hc.1.2, hc.2, rfl, rfl⟩
  · simp at h

/-- (a) -/
theorem diagonalF_length {shape out idx : List Nat} {offset : Int} {ax1 ax2 : Nat}
    (h : diagonalF shape offset ax1 ax2 = some (out, idx)) : idx.length = size out := by
  obtain ⟨-, -, -, -, rfl⟩ := diagonalF_eq h
  exact gatherBy_length _ _ _

/-- (b) -/
theorem diagonalF_lt {shape out idx : List Nat} {offset : Int} {ax1 ax2 : Nat}
    (h : diagonalF shape offset ax1 ax2 = some (out, idx)) : ∀ k ∈ idx, k < size shape := by
  obtain ⟨h1, h2, hne, rfl, rfl⟩ := diagonalF_eq h
  exact gatherBy_lt fun j hj => diagonal_valid hne h1 h2 hj

/-- (c) output multi-index `j` (last component `i` along the diagonal) reads the input multi-index with
`i + max 0 (-offset)` on `ax1`, `i + max 0 offset` on `ax2`, and the other components of `j` in order -/
theorem diagonalF_spec {shape out idx : List Nat} {offset : Int} {ax1 ax2 : Nat}
    (h : diagonalF shape offset ax1 ax2 = some (out, idx)) {j : List Nat} (hj : Valid out j) :
    ∃ x, idx[ravel out j]? = some (ravel shape x) ∧ Valid shape x ∧
      x.getD ax1 0 = j.getD (shape.length - 2) 0 + (-offset).toNat ∧
      x.getD ax2 0 = j.getD (shape.length - 2) 0 + offset.toNat ∧
      ∀ a, a < shape.length → a ≠ ax1 → a ≠ ax2 →
        x.getD a 0 = j.getD (a - (if ax1 < a then 1 else 0) - (if ax2 < a then 1 else 0)) 0 := by
  obtain ⟨h1, h2, hne, rfl, rfl⟩ := diagonalF_eq h
  refine ⟨_, gatherBy_spec hj, diagonal_valid hne h1 h2 hj, ?_, ?_, fun a ha e1 e2 => ?_⟩
  · rw [diagonalIn_getD _ _ _ _ h1, if_pos rfl]
  · rw [diagonalIn_getD _ _ _ _ h2, if_neg (Ne.symm hne), if_pos rfl]
  · rw [diagonalIn_getD _ _ _ _ ha, if_neg e1, if_neg e2]

/-! ### 12. the 1-based positions handed to `Np.gatherOp` stay inside the concatenation of the operands -/

theorem sum_take_add_le : ∀ (l : List Nat) (o : Nat), o < l.length → (l.take o).sum + l.getD o 0 ≤ l.sum
  | [], _, h => by simp at h
  | d :: ds, 0, _ => by simp
  | d :: ds, o + 1, h => by
    have := sum_take_add_le ds o (by simpa using h)
    simp only [List.take_succ_cons, List.sum_cons, List.getD_cons_succ]
    omega

theorem gatherIdx1_range {idx : List Nat} {n : Nat} (h : ∀ k ∈ idx, k < n) :
    ∀ k ∈ gatherIdx1 idx, 0 < k ∧ k - 1 < n := by
  intro k hk
  simp only [gatherIdx1, List.mem_map] at hk
  obtain ⟨k', hk', rfl⟩ := hk
  exact ⟨by omega, by simpa using h k' hk'⟩

theorem gatherIdxN_range {shapes : List (List Nat)} {idx : List (Nat × Nat)}
    (h : ∀ p ∈ idx, p.1 < shapes.length ∧ p.2 < size (shapes.getD p.1 [])) :
    ∀ k ∈ gatherIdxN shapes idx, 0 < k ∧ k - 1 < (shapes.map size).sum := by
  intro k hk
  simp only [gatherIdxN, List.mem_map] at hk
  obtain ⟨p, hp, rfl⟩ := hk
  obtain ⟨h1, h2⟩ := h p hp
  have := sum_take_add_le (shapes.map size) p.1 (by simpa using h1)
  rw [List.map_take] at *
  simp only [List.getD_eq_getElem?_getD, List.getElem?_map, List.getElem?_eq_getElem h1, Option.map_some,
    Option.getD_some] at this h2
  exact ⟨by omega, by omega⟩

end Np.ShapeFns

import Np.Proofs.Walk
import Np.Proofs.Index
import Np.Model.Compare
import Mathlib.Data.List.Nodup
import Mathlib.Data.List.Perm.Basic
/-! C07: the executable comparison walk (`cmpWalk` over `glexsort` order) decides "larger coefficient at the
largest monomial where the operands differ", monomials ordered by the selected (graded)(reverse) lexicographic
order `glexLt`. -/
namespace Np.Index

/-! ### 1. `glexLt` is a strict total order on exponent rows -/

theorem lexLe_refl : ∀ a : List Nat, lexLe a a = true
  | [] => rfl
  | a :: as => by simp [lexLe, lexLe_refl as]

/-- antisymmetry of `lexLe` (holds for all lists: a proper prefix is strictly smaller) -/
theorem lexLe_antisymm : ∀ a b : List Nat, lexLe a b = true → lexLe b a = true → a = b
  | [], [] => fun _ _ => rfl
  | [], _ :: _ => by simp [lexLe]
  | _ :: _, [] => by simp [lexLe]
  | a :: as, b :: bs => by
    simp only [lexLe]
    intro h1 h2
    by_cases hab : a < b
    · have hba : ¬ b < a := by omega
      simp [hab, hba] at h2
    · by_cases hba : b < a
      · simp [hab, hba] at h1
      · simp only [hab, hba, if_false] at h1 h2
        have hEq : a = b := by omega
        rw [hEq, lexLe_antisymm as bs h1 h2]

theorem colKey_injective (reverse : Bool) (a b : List Nat) (h : colKey reverse a = colKey reverse b) : a = b := by
  cases reverse
  · simpa [colKey] using h
  · simpa [colKey] using h

section
variable (graded reverse : Bool)

theorem glexLe_refl (a : List Nat) : glexLe graded reverse a a = true := by
  cases graded <;> simp [glexLe, lexLe_refl]

theorem glexLe_trans (a b c : List Nat) (h1 : glexLe graded reverse a b = true)
    (h2 : glexLe graded reverse b c = true) : glexLe graded reverse a c = true := by
  cases graded with
  | false =>
    simp only [glexLe, Bool.false_eq_true, if_false] at h1 h2 ⊢
    exact lexLe_trans _ _ _ h1 h2
  | true =>
    simp only [glexLe, if_true, Bool.or_eq_true, decide_eq_true_eq, Bool.and_eq_true, beq_iff_eq] at h1 h2 ⊢
    rcases h1 with h1 | ⟨h1, h1'⟩ <;> rcases h2 with h2 | ⟨h2, h2'⟩
    · left; omega
    · left; omega
    · left; omega
    · right; exact ⟨by omega, lexLe_trans _ _ _ h1' h2'⟩

theorem glexLe_total (a b : List Nat) : glexLe graded reverse a b = true ∨ glexLe graded reverse b a = true := by
  have ht := lexLe_total (colKey reverse a) (colKey reverse b)
  simp only [Bool.or_eq_true] at ht
  cases graded with
  | false => simpa [glexLe] using ht
  | true =>
    simp only [glexLe, if_true, Bool.or_eq_true, decide_eq_true_eq, Bool.and_eq_true, beq_iff_eq]
    rcases Nat.lt_trichotomy (colSum a) (colSum b) with h | h | h
    · exact Or.inl (Or.inl h)
    · rcases ht with ht | ht
      · exact Or.inl (Or.inr ⟨h, ht⟩)
      · exact Or.inr (Or.inr ⟨h.symm, ht⟩)
    · exact Or.inr (Or.inl h)

/-- the key fact: `glexLe` is antisymmetric (so it is a total *order* on rows, not merely a preorder) -/
theorem glexLe_antisymm (a b : List Nat) (h1 : glexLe graded reverse a b = true)
    (h2 : glexLe graded reverse b a = true) : a = b := by
  cases graded with
  | false =>
    simp only [glexLe, Bool.false_eq_true, if_false] at h1 h2
    exact colKey_injective reverse a b (lexLe_antisymm _ _ h1 h2)
  | true =>
    simp only [glexLe, if_true, Bool.or_eq_true, decide_eq_true_eq, Bool.and_eq_true, beq_iff_eq] at h1 h2
    rcases h1 with h1 | ⟨_, h1'⟩ <;> rcases h2 with h2 | ⟨_, h2'⟩
    · omega
    · omega
    · omega
    · exact colKey_injective reverse a b (lexLe_antisymm _ _ h1' h2')

/-- strict version of the order `glexsort` sorts by -/
def glexLt (a b : List Nat) : Bool := glexLe graded reverse a b && !(a == b)

theorem glexLt_iff (a b : List Nat) :
    glexLt graded reverse a b = true ↔ glexLe graded reverse a b = true ∧ a ≠ b := by
  simp [glexLt]

theorem glexLt_irrefl (a : List Nat) : glexLt graded reverse a a = false := by simp [glexLt]

theorem glexLt_asymm (a b : List Nat) (h1 : glexLt graded reverse a b = true)
    (h2 : glexLt graded reverse b a = true) : False := by
  rw [glexLt_iff] at h1 h2
  exact h1.2 (glexLe_antisymm graded reverse a b h1.1 h2.1)

theorem glexLt_trans (a b c : List Nat) (h1 : glexLt graded reverse a b = true)
    (h2 : glexLt graded reverse b c = true) : glexLt graded reverse a c = true := by
  rw [glexLt_iff] at h1 h2 ⊢
  refine ⟨glexLe_trans graded reverse a b c h1.1 h2.1, ?_⟩
  rintro rfl
  exact h1.2 (glexLe_antisymm graded reverse a b h1.1 h2.1)

theorem glexLt_total (a b : List Nat) (h : a ≠ b) :
    glexLt graded reverse a b = true ∨ glexLt graded reverse b a = true := by
  simp only [glexLt_iff]
  rcases glexLe_total graded reverse a b with h1 | h1
  · exact Or.inl ⟨h1, h⟩
  · exact Or.inr ⟨h1, h.symm⟩

/-! ### 2. `glexsort` visits distinct rows in strictly increasing order -/

theorem mem_glexsort (cols : List (List Nat)) (i : Nat) :
    i ∈ glexsort graded reverse cols ↔ i < cols.length := by
  rw [(glexsort_perm graded reverse cols).mem_iff, List.mem_range]

theorem glexsort_nodup (cols : List (List Nat)) : (glexsort graded reverse cols).Nodup :=
  (glexsort_perm graded reverse cols).nodup_iff.2 List.nodup_range

theorem getD_ne_of_nodup {expos : List (List Nat)} (hnd : expos.Nodup) {i j : Nat}
    (hi : i < expos.length) (hj : j < expos.length) (hij : i ≠ j) : expos.getD i [] ≠ expos.getD j [] := by
  simp only [List.getD_eq_getElem?_getD, List.getElem?_eq_getElem hi, List.getElem?_eq_getElem hj, Option.getD_some]
  intro h
  exact hij ((hnd.getElem_inj_iff).1 h)

theorem glexsort_strict (expos : List (List Nat)) (hnd : expos.Nodup) :
    (glexsort graded reverse expos).Pairwise
      (fun i j => glexLt graded reverse (expos.getD i []) (expos.getD j []) = true) := by
  have hs := glexsort_sorted graded reverse expos
  have hn : (glexsort graded reverse expos).Pairwise (· ≠ ·) := glexsort_nodup graded reverse expos
  refine (hs.and hn).imp_of_mem ?_
  intro i j hi hj ⟨hle, hij⟩
  rw [mem_glexsort] at hi hj
  exact (glexLt_iff graded reverse _ _).2 ⟨hle, getD_ne_of_nodup hnd hi hj hij⟩
end
end Np.Index

namespace Np
open Np.Index

/-! ### 3. the walk returns the verdict at the last differing index -/
section walk
variable {R : Type} [BEq R]

theorem cmpWalk_eq_walk (order : List Nat) (init : Bool) (rel : R → R → Bool) (z : R) (c1 c2 : List R) :
    cmpWalk order init rel z c1 c2 =
      Ord.walk init (fun i => c1.getD i z != c2.getD i z) (fun i => rel (c1.getD i z) (c2.getD i z)) order := rfl

theorem cmpWalk_last (order : List Nat) (init : Bool) (rel : R → R → Bool) (z : R) (c1 c2 : List R) :
    cmpWalk order init rel z c1 c2 =
      match order.reverse.find? (fun i => c1.getD i z != c2.getD i z) with
      | some i => rel (c1.getD i z) (c2.getD i z)
      | none => init := by
  rw [cmpWalk_eq_walk, Ord.walk_last]
  cases order.reverse.find? (fun i => c1.getD i z != c2.getD i z) <;> rfl

/-- the same, with "last differing index" spelled out as a split of `order` -/
theorem cmpWalk_cases [LawfulBEq R] (order : List Nat) (init : Bool) (rel : R → R → Bool) (z : R) (c1 c2 : List R) :
    ((∀ j ∈ order, c1.getD j z = c2.getD j z) ∧ cmpWalk order init rel z c1 c2 = init) ∨
    ∃ pre i post, order = pre ++ i :: post ∧ c1.getD i z ≠ c2.getD i z ∧
      (∀ j ∈ post, c1.getD j z = c2.getD j z) ∧
      cmpWalk order init rel z c1 c2 = rel (c1.getD i z) (c2.getD i z) := by
  rw [cmpWalk_last]
  cases hfind : order.reverse.find? (fun i => c1.getD i z != c2.getD i z) with
  | none =>
    left
    refine ⟨?_, rfl⟩
    intro j hj
    have := List.find?_eq_none.1 hfind j (List.mem_reverse.2 hj)
    simpa using this
  | some i =>
    right
    obtain ⟨hd, as, bs, hsplit, hno⟩ := List.find?_eq_some_iff_append.1 hfind
    refine ⟨bs.reverse, i, as.reverse, ?_, by simpa using hd, ?_, rfl⟩
    · have := congrArg List.reverse hsplit
      simpa using this
    · intro j hj
      have := hno j (List.mem_reverse.1 hj)
      simpa using this
end walk

/-! ### 4. the walk over `glexsort` order decides the comparison at the largest differing monomial -/
section decides
variable {K : Type} (graded reverse : Bool) (expos : List (List Nat)) (z : K)

/-- `i` is the largest (in `glexLt`) monomial index at which the two columns differ -/
def TopDiff (c1 c2 : List K) (i : Nat) : Prop :=
  i < expos.length ∧ c1.getD i z ≠ c2.getD i z ∧
    ∀ j < expos.length, glexLt graded reverse (expos.getD i []) (expos.getD j []) = true →
      c1.getD j z = c2.getD j z

variable {graded reverse expos z}

theorem TopDiff.symm {c1 c2 : List K} {i : Nat} (h : TopDiff graded reverse expos z c1 c2 i) :
    TopDiff graded reverse expos z c2 c1 i :=
  ⟨h.1, fun e => h.2.1 e.symm, fun j hj hlt => (h.2.2 j hj hlt).symm⟩

theorem TopDiff.unique (hnd : expos.Nodup) {c1 c2 : List K} {i k : Nat}
    (hi : TopDiff graded reverse expos z c1 c2 i) (hk : TopDiff graded reverse expos z c1 c2 k) : i = k := by
  by_contra hne
  rcases glexLt_total graded reverse _ _ (getD_ne_of_nodup hnd hi.1 hk.1 hne) with h | h
  · exact hk.2.1 (hi.2.2 k hk.1 h)
  · exact hi.2.1 (hk.2.2 i hi.1 h)

variable (graded reverse expos z)

/-- value of the walk for an arbitrary verdict function `rel`: the initial verdict if the columns agree
everywhere, the verdict at the top differing monomial otherwise -/
theorem cmpWalk_glex [BEq K] [LawfulBEq K] (hnd : expos.Nodup) (init : Bool) (rel : K → K → Bool) (c1 c2 : List K) :
    ((∀ j < expos.length, c1.getD j z = c2.getD j z) ∧
        cmpWalk (glexsort graded reverse expos) init rel z c1 c2 = init) ∨
    ∃ i, TopDiff graded reverse expos z c1 c2 i ∧
      cmpWalk (glexsort graded reverse expos) init rel z c1 c2 = rel (c1.getD i z) (c2.getD i z) := by
  rcases cmpWalk_cases (glexsort graded reverse expos) init rel z c1 c2 with ⟨hall, heq⟩ | ⟨pre, i, post, hsplit, hd, hpost, heq⟩
  · left
    exact ⟨fun j hj => hall j ((mem_glexsort graded reverse expos j).2 hj), heq⟩
  · right
    have hstrict := glexsort_strict graded reverse expos hnd
    rw [hsplit, List.pairwise_append] at hstrict
    have hmem : ∀ j, j < expos.length ↔ j ∈ pre ∨ j = i ∨ j ∈ post := by
      intro j
      rw [← mem_glexsort graded reverse expos j, hsplit, List.mem_append, List.mem_cons]
    refine ⟨i, ⟨(hmem i).2 (Or.inr (Or.inl rfl)), hd, ?_⟩, heq⟩
    intro j hj hlt
    rcases (hmem j).1 hj with hj | rfl | hj
    · exact (glexLt_asymm graded reverse _ _ hlt (hstrict.2.2 j hj i (by simp))).elim
    · rw [glexLt_irrefl] at hlt; exact absurd hlt (by simp)
    · exact hpost j hj

/-- `c1` is greater than `c2`: larger coefficient at some monomial, agreement at all larger monomials -/
def ColGt [LT K] (c1 c2 : List K) : Prop :=
  ∃ i < expos.length, c2.getD i z < c1.getD i z ∧
    ∀ j < expos.length, glexLt graded reverse (expos.getD i []) (expos.getD j []) = true →
      c1.getD j z = c2.getD j z

variable {graded reverse expos z}

theorem colGt_iff_of_topDiff [LinearOrder K] (hnd : expos.Nodup) {c1 c2 : List K} {i : Nat}
    (hi : TopDiff graded reverse expos z c1 c2 i) :
    ColGt graded reverse expos z c1 c2 ↔ c2.getD i z < c1.getD i z := by
  constructor
  · rintro ⟨k, hk, hlt, habove⟩
    have hki : k = i := TopDiff.unique hnd ⟨hk, ne_of_gt hlt, habove⟩ hi
    rw [← hki]; exact hlt
  · intro h
    exact ⟨i, hi.1, h, hi.2.2⟩

theorem not_colGt_of_all_eq [LinearOrder K] {c1 c2 : List K}
    (hall : ∀ j < expos.length, c1.getD j z = c2.getD j z) : ¬ ColGt graded reverse expos z c1 c2 := by
  rintro ⟨i, hi, hlt, _⟩
  rw [hall i hi] at hlt
  exact lt_irrefl _ hlt

variable (graded reverse expos z)

/-- **`greater`**: the walk in `glexsort` order, started from the comparison at storage row 0, is true iff at the
largest monomial where the operands differ the first has the larger coefficient -/
theorem greater_walk_decides [LinearOrder K] [BEq K] [LawfulBEq K] (hnd : expos.Nodup) (h0 : 0 < expos.length)
    (c1 c2 : List K) :
    cmpWalk (glexsort graded reverse expos) (decide (c2.getD 0 z < c1.getD 0 z)) (fun x y => decide (y < x)) z c1 c2 = true ↔
      ∃ i < expos.length, c2.getD i z < c1.getD i z ∧
        ∀ j < expos.length, glexLt graded reverse (expos.getD i []) (expos.getD j []) = true →
          c1.getD j z = c2.getD j z := by
  change _ ↔ ColGt graded reverse expos z c1 c2
  rcases cmpWalk_glex graded reverse expos z hnd (decide (c2.getD 0 z < c1.getD 0 z)) (fun x y => decide (y < x)) c1 c2
    with ⟨hall, heq⟩ | ⟨i, hi, heq⟩
  · rw [heq, hall 0 h0]
    simp [not_colGt_of_all_eq hall]
  · rw [heq, colGt_iff_of_topDiff hnd hi]
    simp

/-! ### 5. all four operators, equality, trichotomy -/

/-- the documented meaning of each operator in terms of the one strict order `ColGt` -/
def CmpSpec [LT K] (op : CmpOp) (c1 c2 : List K) : Prop :=
  match op with
  | .gt => ColGt graded reverse expos z c1 c2
  | .lt => ColGt graded reverse expos z c2 c1
  | .ge => ¬ ColGt graded reverse expos z c2 c1
  | .le => ¬ ColGt graded reverse expos z c1 c2

/-- `greater`, `greater_equal`, `less`, `less_equal` as the model runs them (`compareArr`, one column) -/
theorem compare_walk_decides [LinearOrder K] [BEq K] [LawfulBEq K] (hnd : expos.Nodup) (h0 : 0 < expos.length)
    (op : CmpOp) (c1 c2 : List K) :
    cmpWalk (glexsort graded reverse expos)
        (op.rel (fun x y => decide (x < y)) (c1.getD 0 z) (c2.getD 0 z))
        (op.rel (fun x y => decide (x < y))) z c1 c2 = true ↔
      CmpSpec graded reverse expos z op c1 c2 := by
  rcases cmpWalk_glex graded reverse expos z hnd
      (op.rel (fun x y => decide (x < y)) (c1.getD 0 z) (c2.getD 0 z))
      (op.rel (fun x y => decide (x < y))) c1 c2 with ⟨hall, heq⟩ | ⟨i, hi, heq⟩
  · have hall' : ∀ j < expos.length, c2.getD j z = c1.getD j z := fun j hj => (hall j hj).symm
    rw [heq, hall 0 h0]
    cases op <;>
      simp [CmpOp.rel, CmpSpec, not_colGt_of_all_eq hall, not_colGt_of_all_eq hall']
  · rw [heq]
    cases op <;>
      simp [CmpOp.rel, CmpSpec, colGt_iff_of_topDiff hnd hi, colGt_iff_of_topDiff hnd hi.symm]

/-- the initial verdict of `compareArr` reads storage row 0 -/
theorem headD_eq_getD_zero (c : List K) : c.headD z = c.getD 0 z := by cases c <;> rfl

/-- `ColGt` is a strict order on columns with trichotomy against "equal at every index" -/
theorem colGt_asymm [LinearOrder K] (hnd : expos.Nodup) (c1 c2 : List K)
    (h1 : ColGt graded reverse expos z c1 c2) (h2 : ColGt graded reverse expos z c2 c1) : False := by
  obtain ⟨i, hi, hlt, habove⟩ := h1
  have ht : TopDiff graded reverse expos z c1 c2 i := ⟨hi, ne_of_gt hlt, habove⟩
  exact lt_asymm hlt ((colGt_iff_of_topDiff hnd ht.symm).1 h2)

theorem colGt_trichotomy [LinearOrder K] (hnd : expos.Nodup) (c1 c2 : List K) :
    ColGt graded reverse expos z c2 c1 ∨ (∀ j < expos.length, c1.getD j z = c2.getD j z) ∨
      ColGt graded reverse expos z c1 c2 := by
  rcases cmpWalk_glex graded reverse expos z hnd false (fun _ _ => false) c1 c2 with ⟨hall, _⟩ | ⟨i, hi, _⟩
  · exact Or.inr (Or.inl hall)
  · rcases lt_or_gt_of_ne hi.2.1 with h | h
    · exact Or.inl ((colGt_iff_of_topDiff hnd hi.symm).2 h)
    · exact Or.inr (Or.inr ((colGt_iff_of_topDiff hnd hi).2 h))

/-- `equalArr` on one column: the conjunction over the zipped columns is true iff no index differs -/
theorem equal_zip_iff [BEq K] [LawfulBEq K] :
    ∀ (c1 c2 : List K), c1.length = c2.length →
      ((List.zipWith (fun x y => x == y) c1 c2).all id = true ↔ ∀ j < c1.length, c1.getD j z = c2.getD j z)
  | [], [], _ => by simp
  | [], _ :: _, h => by simp at h
  | _ :: _, [], h => by simp at h
  | x :: xs, y :: ys, h => by
    have ih := equal_zip_iff xs ys (by simpa using h)
    simp only [List.zipWith_cons_cons, List.all_cons, id, Bool.and_eq_true, beq_iff_eq, ih, List.length_cons]
    constructor
    · rintro ⟨hxy, hrest⟩ j hj
      cases j with
      | zero => simpa using hxy
      | succ j => simpa using hrest j (by omega)
    · intro hj
      refine ⟨by simpa using hj 0 (by omega), fun j hjl => ?_⟩
      simpa using hj (j + 1) (by omega)

/-- `notEqualArr` on one column is the negation -/
theorem not_equal_zip_iff [BEq K] [LawfulBEq K] (c1 c2 : List K) (h : c1.length = c2.length) :
    ((List.zipWith (fun x y => x != y) c1 c2).any id = true ↔ ¬ ∀ j < c1.length, c1.getD j z = c2.getD j z) := by
  rw [← equal_zip_iff z c1 c2 h]
  induction c1 generalizing c2 with
  | nil => cases c2 <;> simp at h ⊢
  | cons x xs ih =>
    cases c2 with
    | nil => simp at h
    | cons y ys =>
      have := ih ys (by simpa using h)
      simp only [List.zipWith_cons_cons, List.any_cons, List.all_cons, id, Bool.or_eq_true, Bool.and_eq_true,
        bne_iff_ne, beq_iff_eq, this]
      tauto
end decides
end Np

import Np.Proofs.Arr
/-! C01, the "programs" quantifier: every expression tree over + - * neg pos **k evaluates, in the model, to the array
whose elements are the ring expression of the (broadcast) elements of the leaves — by structural induction, for every
depth, shape, name set and retain-flag setting -/
namespace Np
open MvPolynomial Shape
variable {R : Type} [CommRing R] [BEq R] [LawfulBEq R]

/-- element `i` of an array, as a function on all naturals (0 outside the array) -/
noncomputable def Arr.elemN (a : Arr R) (i : Nat) : MvPolynomial Name R :=
  if h : i < size a.shape then a.elem ⟨i, h⟩ else 0

/-- the specification: shapes by numpy broadcasting, elements by ring arithmetic in `MvPolynomial Name R` -/
noncomputable def specEval (env : List (Arr R)) : Expr → Option (List Nat × (Nat → MvPolynomial Name R))
  | .leaf i => (env[i]?).map fun a => (a.shape, a.elemN)
  | .add x y =>
    match specEval env x, specEval env y with
    | some (s1, f1), some (s2, f2) =>
      (bshape s1 s2).map fun s => (s, fun i => f1 (bindex s1 s i) + f2 (bindex s2 s i))
    | _, _ => none
  | .sub x y =>
    match specEval env x, specEval env y with
    | some (s1, f1), some (s2, f2) =>
      (bshape s1 s2).map fun s => (s, fun i => f1 (bindex s1 s i) - f2 (bindex s2 s i))
    | _, _ => none
  | .mul x y =>
    match specEval env x, specEval env y with
    | some (s1, f1), some (s2, f2) =>
      (bshape s1 s2).map fun s => (s, fun i => f1 (bindex s1 s i) * f2 (bindex s2 s i))
    | _, _ => none
  | .neg x => (specEval env x).map fun sf => (sf.1, fun i => - sf.2 i)
  | .pos x => specEval env x
  | .pow x k => (specEval env x).map fun sf => (sf.1, fun i => sf.2 i ^ k)

/-- what "the model's answer `r` is the specification's answer `(s, f)`" means -/
def Agrees (r : Arr R) (sf : List Nat × (Nat → MvPolynomial Name R)) : Prop :=
  r.shape = sf.1 ∧ ∀ i (h : i < size r.shape), r.elem ⟨i, h⟩ = sf.2 i

theorem agrees_binop (op1 : MvPolynomial Name R → MvPolynomial Name R → MvPolynomial Name R)
    (a b r : Arr R) (s1 s2 : List Nat) (f1 f2 : Nat → MvPolynomial Name R)
    (ha : Agrees a (s1, f1)) (hb : Agrees b (s2, f2))
    (hs : bshape a.shape b.shape = some r.shape)
    (σa : Fin (size r.shape) → Fin (size a.shape)) (σb : Fin (size r.shape) → Fin (size b.shape))
    (hσa : ∀ i, (σa i).val = bindex a.shape r.shape i.val) (hσb : ∀ i, (σb i).val = bindex b.shape r.shape i.val)
    (hel : ∀ i, r.elem i = op1 (a.elem (σa i)) (b.elem (σb i))) :
    ∃ sf, (bshape s1 s2).map (fun s => (s, fun i => op1 (f1 (bindex s1 s i)) (f2 (bindex s2 s i)))) = some sf ∧
      Agrees r sf := by
  obtain ⟨ha1, ha2⟩ := ha
  obtain ⟨hb1, hb2⟩ := hb
  simp only at ha1 hb1
  subst ha1; subst hb1
  refine ⟨_, by rw [hs]; rfl, rfl, ?_⟩
  intro i h
  simp only
  rw [hel ⟨i, h⟩]
  have e1 := ha2 (σa ⟨i, h⟩).val (σa ⟨i, h⟩).isLt
  have e2 := hb2 (σb ⟨i, h⟩).val (σb ⟨i, h⟩).isLt
  simp only at e1 e2
  rw [← hσa ⟨i, h⟩, ← hσb ⟨i, h⟩, ← e1, ← e2]

/-- C01: every program over the ring operators computes, element by element and in numpy's broadcast shape, the ring
expression of its leaves; the result is well-formed; and the only possible error is a shape mismatch or an index map
out of range (never unwritten memory) -/
theorem expr_den (rc rn : Bool) (env : List (Arr R)) (henv : ∀ a ∈ env, a.WF) :
    ∀ (t : Expr) (r : Arr R), evalModel rc rn env t = .ok r →
      r.WF ∧ ∃ sf, specEval env t = some sf ∧ Agrees r sf
  | .leaf i, r, h => by
    simp only [evalModel] at h
    cases hi : env[i]? with
    | none => simp [hi] at h
    | some a =>
      simp only [hi] at h
      injection h with h; subst h
      refine ⟨henv a (List.mem_of_getElem? hi), (a.shape, a.elemN), by simp [specEval, hi], rfl, ?_⟩
      intro j hj
      simp [Arr.elemN, hj]
  | .add x y, r, h => by
    simp only [evalModel, bind, Except.bind] at h
    cases hx : evalModel rc rn env x with
    | error e => simp [hx] at h
    | ok a =>
      cases hy : evalModel rc rn env y with
      | error e => simp [hx, hy] at h
      | ok b =>
        simp only [hx, hy] at h
        obtain ⟨wa, ⟨s1, f1⟩, hsa, aga⟩ := expr_den rc rn env henv x a hx
        obtain ⟨wb, ⟨s2, f2⟩, hsb, agb⟩ := expr_den rc rn env henv y b hy
        obtain ⟨wr, hs, σa, σb, hσa, hσb, hel⟩ := Arr.add_spec rc rn a b r wa wb h
        obtain ⟨sf, hsf, ag⟩ := agrees_binop (· + ·) a b r s1 s2 f1 f2 aga agb hs σa σb hσa hσb hel
        exact ⟨wr, sf, by simp only [specEval, hsa, hsb]; exact hsf, ag⟩
  | .sub x y, r, h => by
    simp only [evalModel, bind, Except.bind] at h
    cases hx : evalModel rc rn env x with
    | error e => simp [hx] at h
    | ok a =>
      cases hy : evalModel rc rn env y with
      | error e => simp [hx, hy] at h
      | ok b =>
        simp only [hx, hy] at h
        obtain ⟨wa, ⟨s1, f1⟩, hsa, aga⟩ := expr_den rc rn env henv x a hx
        obtain ⟨wb, ⟨s2, f2⟩, hsb, agb⟩ := expr_den rc rn env henv y b hy
        obtain ⟨wr, hs, σa, σb, hσa, hσb, hel⟩ := Arr.sub_spec rc rn a b r wa wb h
        obtain ⟨sf, hsf, ag⟩ := agrees_binop (· - ·) a b r s1 s2 f1 f2 aga agb hs σa σb hσa hσb hel
        exact ⟨wr, sf, by simp only [specEval, hsa, hsb]; exact hsf, ag⟩
  | .mul x y, r, h => by
    simp only [evalModel, bind, Except.bind] at h
    cases hx : evalModel rc rn env x with
    | error e => simp [hx] at h
    | ok a =>
      cases hy : evalModel rc rn env y with
      | error e => simp [hx, hy] at h
      | ok b =>
        simp only [hx, hy] at h
        obtain ⟨wa, ⟨s1, f1⟩, hsa, aga⟩ := expr_den rc rn env henv x a hx
        obtain ⟨wb, ⟨s2, f2⟩, hsb, agb⟩ := expr_den rc rn env henv y b hy
        obtain ⟨wr, hs, σa, σb, hσa, hσb, hel⟩ := Arr.mul_spec rc rn a b r wa wb h
        obtain ⟨sf, hsf, ag⟩ := agrees_binop (· * ·) a b r s1 s2 f1 f2 aga agb hs σa σb hσa hσb hel
        exact ⟨wr, sf, by simp only [specEval, hsa, hsb]; exact hsf, ag⟩
  | .neg x, r, h => by
    simp only [evalModel, bind, Except.bind, pure, Except.pure] at h
    cases hx : evalModel rc rn env x with
    | error e => simp [hx] at h
    | ok a =>
      simp only [hx] at h
      injection h with h; subst h
      obtain ⟨wa, ⟨s1, f1⟩, hsa, ⟨ag1, ag2⟩⟩ := expr_den rc rn env henv x a hx
      refine ⟨(Arr.neg_spec rc rn a wa).1, (s1, fun i => - f1 i), by simp [specEval, hsa], ag1, ?_⟩
      intro i hi
      rw [(Arr.neg_spec rc rn a wa).2 ⟨i, hi⟩]
      exact congrArg Neg.neg (ag2 i hi)
  | .pos x, r, h => by
    simp only [evalModel, bind, Except.bind, pure, Except.pure] at h
    cases hx : evalModel rc rn env x with
    | error e => simp [hx] at h
    | ok a =>
      simp only [hx] at h
      injection h with h; subst h
      obtain ⟨wa, ⟨s1, f1⟩, hsa, ⟨ag1, ag2⟩⟩ := expr_den rc rn env henv x a hx
      refine ⟨(Arr.pos_spec rc rn a wa).1, (s1, f1), by simp [specEval, hsa], ag1, ?_⟩
      intro i hi
      rw [(Arr.pos_spec rc rn a wa).2 ⟨i, hi⟩]
      exact ag2 i hi
  | .pow x k, r, h => by
    simp only [evalModel, bind, Except.bind] at h
    cases hx : evalModel rc rn env x with
    | error e => simp [hx] at h
    | ok a =>
      simp only [hx] at h
      obtain ⟨wa, ⟨s1, f1⟩, hsa, ⟨ag1, ag2⟩⟩ := expr_den rc rn env henv x a hx
      obtain ⟨r', hr', wr', hshape, hel⟩ := Arr.pow_spec rc rn a k wa
      rw [hr'] at h
      injection h with h; subst h
      refine ⟨wr', (s1, fun i => f1 i ^ k), by simp [specEval, hsa], hshape.trans ag1, ?_⟩
      intro i hi
      rw [hel ⟨i, hi⟩]
      have hi' : i < size a.shape := hshape ▸ hi
      have := ag2 i hi'
      simp only at this ⊢
      rw [← this]
      congr 2
      apply Fin.ext
      cases r'; cases a
      simp only at hshape
      subst hshape
      rfl

/-- the ring laws for compositions come for free from Mathlib's `CommRing (MvPolynomial Name R)`: e.g. the two
programs `(a+b)*c` and `a*c+b*c` have the same specification -/
theorem spec_distrib (f g h : MvPolynomial Name R) : (f + g) * h = f * h + g * h := add_mul f g h
theorem spec_mul_comm (f g : MvPolynomial Name R) : f * g = g * f := mul_comm f g
theorem spec_mul_assoc (f g h : MvPolynomial Name R) : f * g * h = f * (g * h) := mul_assoc f g h
end Np

import Np.Proofs.Compare
import Np.Proofs.Dispatch
import Np.Proofs.Vec
import Np.Proofs.Sorted
/-! C19: the executable `leadWalk`/`leadArr` (lead_exponent / lead_coefficient) return THE largest term with a
non-zero coefficient in the selected monomial order; `proxyArr` (sortable_proxy) is a permutation of the flat
positions, strictly monotone in `proxyKey` and stable on ties. -/
namespace Np
open Np.Index

/-! ### 1. `leadWalk` over `glexsort` order -/
section lead
variable {R : Type} [Zero R] [BEq R]

/-- the overwrite test of `leadWalk` at storage row `idx` -/
def leadP (rows : List (Expo × R)) (idx : Nat) : Bool :=
  match rows[idx]? with
  | some t => t.2 != 0
  | none => false

theorem leadWalk_eq_walk (order : List Nat) (width : Nat) (rows : List (Expo × R)) :
    leadWalk order width rows =
      Ord.walk (List.replicate width 0, 0) (leadP rows)
        (fun idx => (rows[idx]?).getD (List.replicate width 0, 0)) order := by
  unfold leadWalk Ord.walk
  congr 1
  funext acc idx
  unfold leadP
  cases h : rows[idx]? <;> simp [h]

theorem leadP_true [LawfulBEq R] {rows : List (Expo × R)} {i : Nat} (h : leadP rows i = true) :
    ∃ hi : i < rows.length, rows[i].2 ≠ 0 := by
  unfold leadP at h
  by_cases hi : i < rows.length
  · rw [List.getElem?_eq_getElem hi] at h
    exact ⟨hi, by simpa using h⟩
  · rw [List.getElem?_eq_none (by omega)] at h
    simp at h

theorem leadP_false [LawfulBEq R] {rows : List (Expo × R)} {i : Nat} (hi : i < rows.length)
    (h : leadP rows i = false) : rows[i].2 = 0 := by
  unfold leadP at h
  rw [List.getElem?_eq_getElem hi] at h
  simpa using h

/-- what `lead_exponent`/`lead_coefficient` promise for one element: zeros for the zero polynomial, otherwise the
unique largest term with non-zero coefficient -/
def LeadSpec (graded reverse : Bool) (width : Nat) (rows : List (Expo × R)) (res : Expo × R) : Prop :=
  ((∀ t ∈ rows, t.2 = 0) ∧ res = (List.replicate width 0, 0)) ∨
  ∃ t ∈ rows, t.2 ≠ 0 ∧ res = t ∧
    ∀ u ∈ rows, u.2 ≠ 0 → u = t ∨ glexLt graded reverse u.1 t.1 = true

omit [Zero R] [BEq R] in
theorem getD_map_fst (rows : List (Expo × R)) (k : Nat) (hk : k < rows.length) :
    (rows.map (·.1)).getD k [] = rows[k].1 := by
  simp [List.getD_eq_getElem?_getD, List.getElem?_eq_getElem hk]

/-- **`leadWalk_spec`** -/
theorem leadWalk_spec [LawfulBEq R] (graded reverse : Bool) (width : Nat) (rows : List (Expo × R))
    (hnd : (rows.map (·.1)).Nodup) :
    ((∀ t ∈ rows, t.2 = 0) ∧
        leadWalk (glexsort graded reverse (rows.map (·.1))) width rows = (List.replicate width 0, 0)) ∨
    ∃ t ∈ rows, t.2 ≠ 0 ∧ leadWalk (glexsort graded reverse (rows.map (·.1))) width rows = t ∧
      ∀ u ∈ rows, u.2 ≠ 0 → u = t ∨ glexLt graded reverse u.1 t.1 = true := by
  set order := glexsort graded reverse (rows.map (·.1)) with horder
  have hmem : ∀ k, k ∈ order ↔ k < rows.length := by
    intro k
    rw [horder, mem_glexsort, List.length_map]
  rw [leadWalk_eq_walk, Ord.walk_last]
  cases hfind : order.reverse.find? (leadP rows) with
  | none =>
    left
    refine ⟨?_, rfl⟩
    intro t ht
    obtain ⟨k, hk, rfl⟩ := List.getElem_of_mem ht
    have := List.find?_eq_none.1 hfind k (List.mem_reverse.2 ((hmem k).2 hk))
    exact leadP_false hk (by simpa using this)
  | some i =>
    right
    obtain ⟨hP, as, bs, hsplit, hno⟩ := List.find?_eq_some_iff_append.1 hfind
    obtain ⟨hi, hnz⟩ := leadP_true hP
    have hord : order = bs.reverse ++ i :: as.reverse := by
      have := congrArg List.reverse hsplit
      simpa using this
    have hstrict := glexsort_strict graded reverse (rows.map (·.1)) hnd
    rw [← horder, hord, List.pairwise_append] at hstrict
    refine ⟨rows[i], List.getElem_mem hi, hnz, ?_, ?_⟩
    · simp [List.getElem?_eq_getElem hi]
    · intro u hu hunz
      obtain ⟨k, hk, rfl⟩ := List.getElem_of_mem hu
      have hko := (hmem k).2 hk
      rw [hord, List.mem_append, List.mem_cons] at hko
      rcases hko with hko | rfl | hko
      · right
        have := hstrict.2.2 k hko i (by simp)
        rwa [getD_map_fst rows k hk, getD_map_fst rows i hi] at this
      · left; rfl
      · have := hno k (List.mem_reverse.1 hko)
        have hz := leadP_false hk (by simpa using this)
        exact absurd hz hunz

theorem leadWalk_leadSpec [LawfulBEq R] (graded reverse : Bool) (width : Nat) (rows : List (Expo × R))
    (hnd : (rows.map (·.1)).Nodup) :
    LeadSpec graded reverse width rows (leadWalk (glexsort graded reverse (rows.map (·.1))) width rows) :=
  leadWalk_spec graded reverse width rows hnd

omit [BEq R] in
/-- the largest non-zero term is unique: any two results meeting the specification coincide -/
theorem LeadSpec.unique {graded reverse : Bool} {width : Nat} {rows : List (Expo × R)} {r1 r2 : Expo × R}
    (h1 : LeadSpec graded reverse width rows r1) (h2 : LeadSpec graded reverse width rows r2) : r1 = r2 := by
  rcases h1 with ⟨hz1, e1⟩ | ⟨t1, ht1, hn1, e1, hm1⟩ <;> rcases h2 with ⟨hz2, e2⟩ | ⟨t2, ht2, hn2, e2, hm2⟩
  · rw [e1, e2]
  · exact absurd (hz1 t2 ht2) hn2
  · exact absurd (hz2 t1 ht1) hn1
  · rw [e1, e2]
    rcases hm2 t1 ht1 hn1 with h | h
    · exact h
    · rcases hm1 t2 ht2 hn2 with h' | h'
      · exact h'.symm
      · exact (glexLt_asymm graded reverse _ _ h h').elim

/-! ### 2. the array version -/
variable {n : Nat}

/-- the (exponent, coefficient) rows of element `i` -/
def elemRows (p : Poly (Vec R n)) (i : Fin n) : List (Expo × R) := p.terms.map fun t => (t.1, t.2.get i)

omit [Zero R] [BEq R] in
theorem elemRows_expos (p : Poly (Vec R n)) (i : Fin n) : (elemRows p i).map (·.1) = p.expos := by
  simp [elemRows, Poly.expos, List.map_map, Function.comp_def]

theorem leadArr_get (graded reverse : Bool) (p : Poly (Vec R n)) (i : Fin n) :
    (leadArr graded reverse p).get i =
      leadWalk (glexsort graded reverse p.expos) p.names.length (elemRows p i) := by
  simp [leadArr, elemRows]

/-- **`leadArr_spec`**: every element of `leadArr` is the largest non-zero term of that element's polynomial -/
theorem leadArr_spec [LawfulBEq R] (graded reverse : Bool) (p : Poly (Vec R n)) (hw : WF p) (i : Fin n) :
    ((∀ t ∈ elemRows p i, t.2 = 0) ∧
        (leadArr graded reverse p).get i = (List.replicate p.names.length 0, 0)) ∨
    ∃ t ∈ elemRows p i, t.2 ≠ 0 ∧ (leadArr graded reverse p).get i = t ∧
      ∀ u ∈ elemRows p i, u.2 ≠ 0 → u = t ∨ glexLt graded reverse u.1 t.1 = true := by
  have hnd : ((elemRows p i).map (·.1)).Nodup := by rw [elemRows_expos]; exact hw.expos_nodup
  have h := leadWalk_spec graded reverse p.names.length (elemRows p i) hnd
  rw [elemRows_expos] at h
  rw [leadArr_get]
  exact h

theorem leadArr_leadSpec [LawfulBEq R] (graded reverse : Bool) (p : Poly (Vec R n)) (hw : WF p) (i : Fin n) :
    LeadSpec graded reverse p.names.length (elemRows p i) ((leadArr graded reverse p).get i) :=
  leadArr_spec graded reverse p hw i
end lead

/-! ### 3. ranks: the inverse permutation of a sorted index list -/
section rank

theorem map_idxOf_self (l : List Nat) (hnd : l.Nodup) : l.map (fun a => l.idxOf a) = List.range l.length := by
  apply List.ext_getElem
  · simp
  · intro i h1 h2
    simp only [List.getElem_map, List.getElem_range]
    exact hnd.idxOf_getElem i (by simpa using h1)

/-- if `l` is a permutation of `0..n-1` then the positions of `0, 1, …, n-1` in `l` are again a permutation -/
theorem idxOf_perm_range (n : Nat) (l : List Nat) (hp : l.Perm (List.range n)) :
    ((List.range n).map (fun a => l.idxOf a)).Perm (List.range n) := by
  have hnd : l.Nodup := hp.nodup_iff.2 List.nodup_range
  have hlen : l.length = n := by simpa using hp.length_eq
  have h1 : ((List.range n).map (fun a => l.idxOf a)).Perm (l.map (fun a => l.idxOf a)) := hp.symm.map _
  rw [map_idxOf_self l hnd, hlen] at h1
  exact h1

/-- any two positions `i < j` of a list give a two-element sublist -/
theorem pair_sublist_getElem {τ : Type} (l : List τ) (i j : Nat) (hi : i < l.length) (hj : j < l.length)
    (hij : i < j) : [l[i], l[j]].Sublist l := by
  have h : l.Pairwise (fun x y => [x, y].Sublist l) := List.pairwise_iff_forall_sublist.2 (fun h => h)
  exact List.pairwise_iff_getElem.1 h i j hi hj hij

/-- in a duplicate-free list, "a before b" as a sublist means a smaller `idxOf` -/
theorem idxOf_lt_of_sublist (l : List Nat) (hnd : l.Nodup) (a b : Nat) (h : [a, b].Sublist l) :
    l.idxOf a < l.idxOf b := by
  have ha : a ∈ l := h.subset (by simp)
  have hb : b ∈ l := h.subset (by simp)
  have hne : a ≠ b := by
    rintro rfl
    have : [a, a].Nodup := hnd.sublist h
    simp at this
  have hia := List.idxOf_lt_length_iff.2 ha
  have hib := List.idxOf_lt_length_iff.2 hb
  by_contra hnot
  have hlt : l.idxOf b < l.idxOf a := by
    rcases Nat.lt_or_ge (l.idxOf b) (l.idxOf a) with h' | h'
    · exact h'
    · exact absurd ((List.idxOf_inj ha).1 (by omega)) hne
  have := pair_sublist_getElem l _ _ hib hia hlt
  rw [List.getElem_idxOf hib, List.getElem_idxOf hia] at this
  exact Sort.not_both_orders l hnd a b h this

/-- key lemma: in the stable sort of a duplicate-free list, an element strictly before another in the preorder
has the smaller position -/
theorem isort_idxOf_lt (le : Nat → Nat → Bool) (t : ∀ a b c, le a b → le b c → le a c)
    (tot : ∀ a b, le a b || le b a) (l : List Nat) (hnd : l.Nodup) (a b : Nat) (ha : a ∈ l) (hb : b ∈ l)
    (hlt : le b a = false) : (Sort.isort le l).idxOf a < (Sort.isort le l).idxOf b := by
  have hnd' : (Sort.isort le l).Nodup := (Sort.perm_isort le l).nodup_iff.2 hnd
  have hne : a ≠ b := by
    rintro rfl
    have := tot a a
    simp [hlt] at this
  rcases Sort.pair_sublist_or _ a b ((Sort.mem_isort le l a).2 ha) ((Sort.mem_isort le l b).2 hb) hne with h | h
  · exact idxOf_lt_of_sublist _ hnd' a b h
  · have := List.pairwise_iff_forall_sublist.1 (Sort.pairwise_isort le t tot l) h
    rw [hlt] at this
    exact absurd this (by simp)

/-- stability: tied (or ordered) elements keep their input order -/
theorem isort_idxOf_lt_stable (le : Nat → Nat → Bool) (l : List Nat) (hnd : l.Nodup) (a b : Nat)
    (hab : [a, b].Sublist l) (hle : le a b = true) :
    (Sort.isort le l).idxOf a < (Sort.isort le l).idxOf b :=
  idxOf_lt_of_sublist _ ((Sort.perm_isort le l).nodup_iff.2 hnd) a b (Sort.pair_sublist_isort le hle hab)

theorem pair_sublist_range (n i j : Nat) (hij : i < j) (hj : j < n) : [i, j].Sublist (List.range n) := by
  have := pair_sublist_getElem (List.range n) i j (by simp; omega) (by simpa using hj) hij
  simpa using this
end rank

/-! ### 4. the sort proxy -/
section proxy
variable {R : Type}

/-- the comparison inside `proxyArr`: lexicographic `≤` on (position of the leading exponent, leading coefficient) -/
def keyLe (lt : R → R → Bool) (a b : Nat × R) : Bool :=
  decide (a.1 < b.1) || (a.1 == b.1 && !(lt b.2 a.2))

/-- strictly smaller key: smaller first component, or equal first component and `lt` on the second -/
def keyLt (lt : R → R → Bool) (a b : Nat × R) : Prop :=
  a.1 < b.1 ∨ (a.1 = b.1 ∧ lt a.2 b.2 = true)

/-- `StrictTotal lt` (Np/Proofs/Sorted.lean: irreflexive, transitive, trichotomous) in the "total on distinct
values" form -/
theorem StrictTotal.total {lt : R → R → Bool} (h : StrictTotal lt) (x y : R) (hne : x ≠ y) :
    lt x y = true ∨ lt y x = true := by
  cases h1 : lt x y with
  | true => exact Or.inl rfl
  | false =>
    cases h2 : lt y x with
    | true => exact Or.inr rfl
    | false => exact absurd (h.tri x y h1 h2) hne

theorem StrictTotal.asymm {lt : R → R → Bool} (h : StrictTotal lt) (x y : R) (h1 : lt x y = true)
    (h2 : lt y x = true) : False := by
  have := h.trans x y x h1 h2
  rw [h.irrefl] at this
  exact absurd this (by simp)

/-- `¬ (· < ·)` is transitive for a strict total order -/
theorem StrictTotal.not_lt_trans {lt : R → R → Bool} (h : StrictTotal lt) (a b c : R) (h1 : lt b a = false)
    (h2 : lt c b = false) : lt c a = false := by
  cases hca : lt c a with
  | false => rfl
  | true =>
    by_cases hab : a = b
    · subst hab; rw [hca] at h2; exact absurd h2 (by simp)
    · rcases h.total a b hab with h' | h'
      · have := h.trans c a b hca h'
        rw [h2] at this; exact absurd this (by simp)
      · rw [h1] at h'; exact absurd h' (by simp)

theorem keyLe_total {lt : R → R → Bool} (h : StrictTotal lt) (a b : Nat × R) :
    (keyLe lt a b || keyLe lt b a) = true := by
  simp only [keyLe, Bool.or_eq_true, decide_eq_true_eq, Bool.and_eq_true, beq_iff_eq, Bool.not_eq_true']
  rcases Nat.lt_trichotomy a.1 b.1 with h1 | h1 | h1
  · exact Or.inl (Or.inl h1)
  · cases hba : lt b.2 a.2 with
    | false => exact Or.inl (Or.inr ⟨h1, rfl⟩)
    | true =>
      right; right
      refine ⟨h1.symm, ?_⟩
      cases hab : lt a.2 b.2 with
      | false => rfl
      | true => exact (h.asymm _ _ hab hba).elim
  · exact Or.inr (Or.inl h1)

theorem keyLe_trans {lt : R → R → Bool} (h : StrictTotal lt) (a b c : Nat × R) (h1 : keyLe lt a b = true)
    (h2 : keyLe lt b c = true) : keyLe lt a c = true := by
  simp only [keyLe, Bool.or_eq_true, decide_eq_true_eq, Bool.and_eq_true, beq_iff_eq, Bool.not_eq_true'] at h1 h2 ⊢
  rcases h1 with h1 | ⟨h1, h1'⟩ <;> rcases h2 with h2 | ⟨h2, h2'⟩
  · left; omega
  · left; omega
  · left; omega
  · right; exact ⟨by omega, h.not_lt_trans _ _ _ h1' h2'⟩

theorem keyLe_false_of_keyLt {lt : R → R → Bool} (a b : Nat × R) (h : keyLt lt a b) : keyLe lt b a = false := by
  simp only [keyLe, Bool.or_eq_false_iff, decide_eq_false_iff_not, Bool.and_eq_false_iff, beq_eq_false_iff_ne,
    Bool.not_eq_false']
  rcases h with h | ⟨h, h'⟩
  · exact ⟨by omega, Or.inl (by omega)⟩
  · exact ⟨by omega, Or.inr h'⟩

/-- a strict total order from a `LinearOrder` -/
theorem strictTotal_decide_lt [LinearOrder R] : StrictTotal (fun x y : R => decide (x < y)) :=
  ⟨fun x => by simp, fun x y h1 h2 => by simp at h1 h2; exact le_antisymm h2 h1,
   fun x y z h1 h2 => by simp at h1 h2 ⊢; exact lt_trans h1 h2⟩

variable {n : Nat} [Zero R] [BEq R]

/-- the preorder on flat positions `proxyArr` sorts by -/
def proxyLe (lt : R → R → Bool) (graded reverse : Bool) (p : Poly (Vec R n)) (i j : Nat) : Bool :=
  keyLe lt ((proxyKey lt graded reverse p).getD i (0, 0)) ((proxyKey lt graded reverse p).getD j (0, 0))

theorem proxyArr_eq (lt : R → R → Bool) (graded reverse : Bool) (p : Poly (Vec R n)) :
    proxyArr lt graded reverse p =
      (List.range n).map fun i => (Sort.isort (proxyLe lt graded reverse p) (List.range n)).idxOf i := rfl

theorem proxyArr_length (lt : R → R → Bool) (graded reverse : Bool) (p : Poly (Vec R n)) :
    (proxyArr lt graded reverse p).length = n := by
  rw [proxyArr_eq]; simp

theorem proxyArr_getD (lt : R → R → Bool) (graded reverse : Bool) (p : Poly (Vec R n)) (i : Nat) (hi : i < n) :
    (proxyArr lt graded reverse p).getD i 0 =
      (Sort.isort (proxyLe lt graded reverse p) (List.range n)).idxOf i := by
  rw [proxyArr_eq]
  simp [List.getD_eq_getElem?_getD, hi]

/-- **`proxyArr_perm`**: the proxy is a permutation of the flat positions (no laws on `lt` needed) -/
theorem proxyArr_perm (lt : R → R → Bool) (graded reverse : Bool) (p : Poly (Vec R n)) :
    (proxyArr lt graded reverse p).Perm (List.range n) := by
  rw [proxyArr_eq]
  exact idxOf_perm_range n _ (Sort.perm_isort _ _)

/-- **`proxyArr_monotone`**: a strictly smaller `proxyKey` gets a strictly smaller proxy value -/
theorem proxyArr_monotone (lt : R → R → Bool) (hlt : StrictTotal lt) (graded reverse : Bool) (p : Poly (Vec R n))
    (i j : Nat) (hi : i < n) (hj : j < n)
    (h : keyLt lt ((proxyKey lt graded reverse p).getD i (0, 0)) ((proxyKey lt graded reverse p).getD j (0, 0))) :
    (proxyArr lt graded reverse p).getD i 0 < (proxyArr lt graded reverse p).getD j 0 := by
  rw [proxyArr_getD lt graded reverse p i hi, proxyArr_getD lt graded reverse p j hj]
  apply isort_idxOf_lt (proxyLe lt graded reverse p)
    (fun a b c => keyLe_trans hlt _ _ _) (fun a b => keyLe_total hlt _ _) _ List.nodup_range i j
    (List.mem_range.2 hi) (List.mem_range.2 hj)
  exact keyLe_false_of_keyLt _ _ h

/-- stability (the repaired behaviour): on a tie — more generally whenever `key i ≤ key j` — the earlier flat
position gets the smaller proxy value; no laws on `lt` needed -/
theorem proxyArr_stable (lt : R → R → Bool) (graded reverse : Bool) (p : Poly (Vec R n))
    (i j : Nat) (hij : i < j) (hj : j < n)
    (h : keyLe lt ((proxyKey lt graded reverse p).getD i (0, 0)) ((proxyKey lt graded reverse p).getD j (0, 0)) = true) :
    (proxyArr lt graded reverse p).getD i 0 < (proxyArr lt graded reverse p).getD j 0 := by
  rw [proxyArr_getD lt graded reverse p i (by omega), proxyArr_getD lt graded reverse p j hj]
  exact isort_idxOf_lt_stable (proxyLe lt graded reverse p) _ List.nodup_range i j (pair_sublist_range n i j hij hj) h

/-- the `LinearOrder` instance of `proxyArr_monotone` -/
theorem proxyArr_monotone_linearOrder {K : Type} [LinearOrder K] [Zero K] [BEq K] (graded reverse : Bool)
    (p : Poly (Vec K n)) (i j : Nat) (hi : i < n) (hj : j < n)
    (h : let keys := proxyKey (fun x y : K => decide (x < y)) graded reverse p
         (keys.getD i (0, 0)).1 < (keys.getD j (0, 0)).1 ∨
           ((keys.getD i (0, 0)).1 = (keys.getD j (0, 0)).1 ∧ (keys.getD i (0, 0)).2 < (keys.getD j (0, 0)).2)) :
    (proxyArr (fun x y : K => decide (x < y)) graded reverse p).getD i 0 <
      (proxyArr (fun x y : K => decide (x < y)) graded reverse p).getD j 0 := by
  apply proxyArr_monotone _ strictTotal_decide_lt graded reverse p i j hi hj
  rcases h with h | ⟨h, h'⟩
  · exact Or.inl h
  · exact Or.inr ⟨h, by simpa using h'⟩
end proxy
end Np

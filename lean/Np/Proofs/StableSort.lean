import Mathlib.Data.List.Basic
import Mathlib.Data.List.Nodup
/-! C18: two stable passes (secondary key first) sort lexicographically — the structure of `glexsort` -/
namespace Np.Sort
variable {τ : Type}

theorem pair_sublist_or (l : List τ) (a b : τ) (ha : a ∈ l) (hb : b ∈ l) (hab : a ≠ b) :
    [a, b].Sublist l ∨ [b, a].Sublist l := by
  induction l with
  | nil => simp at ha
  | cons x xs ih =>
    simp only [List.mem_cons] at ha hb
    rcases ha with rfl | ha
    · rcases hb with rfl | hb
      · exact absurd rfl hab
      · left; exact List.Sublist.cons_cons _ (List.singleton_sublist.2 hb)
    · rcases hb with rfl | hb
      · right; exact List.Sublist.cons_cons _ (List.singleton_sublist.2 ha)
      · rcases ih ha hb with h | h
        · exact Or.inl (h.cons _)
        · exact Or.inr (h.cons _)

theorem not_both_orders (l : List τ) (hnd : l.Nodup) (a b : τ) (h1 : [a, b].Sublist l)
    (h2 : [b, a].Sublist l) : False := by
  have hp : l.Pairwise (· ≠ ·) := hnd
  induction l with
  | nil => simp at h1
  | cons x xs ih =>
    rw [List.pairwise_cons] at hp
    have hndx := (List.nodup_cons.1 hnd)
    cases h1 with
    | cons _ h1' =>
      cases h2 with
      | cons _ h2' => exact ih hndx.2 h1' h2' hp.2
      | cons_cons _ h2' =>
        -- x = b, and a ∈ xs, but [a, b] <+ xs means b ∈ xs: contradiction with nodup
        exact hndx.1 (h1'.subset (by simp))
    | cons_cons _ h1' =>
      cases h2 with
      | cons _ h2' =>
        exact hndx.1 (h2'.subset (by simp))
      | cons_cons _ h2' =>
        -- a = x = b
        exact hndx.1 (List.singleton_sublist.1 h1')

/-- Sorting by the secondary key and then *stably* by the primary key sorts by (primary, secondary). -/
theorem two_pass_sorted (l : List τ) (hnd : l.Nodup) (le1 le2 : τ → τ → Bool)
    (t1 : ∀ a b c, le1 a b → le1 b c → le1 a c) (tot1 : ∀ a b, le1 a b || le1 b a)
    (t2 : ∀ a b c, le2 a b → le2 b c → le2 a c) (tot2 : ∀ a b, le2 a b || le2 b a) :
    ((l.mergeSort le2).mergeSort le1).Pairwise
      (fun a b => le1 a b = true ∧ (le1 b a = true → le2 a b = true)) := by
  set l1 := l.mergeSort le2 with hl1
  set l2 := l1.mergeSort le1 with hl2
  have hnd1 : l1.Nodup := (List.mergeSort_perm l le2).nodup_iff.2 hnd
  have hnd2 : l2.Nodup := (List.mergeSort_perm l1 le1).nodup_iff.2 hnd1
  have hs1 : l1.Pairwise (fun a b => le2 a b = true) := List.pairwise_mergeSort t2 tot2 l
  have hs2 : l2.Pairwise (fun a b => le1 a b = true) := List.pairwise_mergeSort t1 tot1 l1
  rw [List.pairwise_iff_forall_sublist] at hs1 hs2 ⊢
  intro a b hab
  refine ⟨hs2 hab, ?_⟩
  intro hba
  by_contra hno
  have ha2 : a ∈ l2 := hab.subset (by simp)
  have hb2 : b ∈ l2 := hab.subset (by simp)
  have hne : a ≠ b := by
    rintro rfl
    have : [a, a].Nodup := hnd2.sublist hab
    simp at this
  have ha1 : a ∈ l1 := (List.mem_mergeSort).1 ha2
  have hb1 : b ∈ l1 := (List.mem_mergeSort).1 hb2
  rcases pair_sublist_or l1 a b ha1 hb1 hne with h | h
  · exact hno (hs1 h)
  · have : [b, a].Sublist l2 := List.pair_sublist_mergeSort t1 tot1 hba h
    exact not_both_orders l2 hnd2 a b hab this
end Np.Sort

import Mathlib.Data.List.Basic
import Mathlib.Data.List.Nodup
import Mathlib.Data.List.Perm.Basic
import Np.Model.Sort
/-! C18: two stable passes (secondary key first) sort lexicographically — the structure of `glexsort` -/
namespace Np.Sort
variable {τ : Type}

theorem pair_sublist_or (l : List τ) (a b : τ) (ha : a ∈ l) (hb : b ∈ l) (hab : a ≠ b) :
    [a, b].Sublist l ∨ [b, a].Sublist l := by
  induction l with
  | nil => simp at ha
  | cons x xs ih =>
    simp only [List.mem_cons] at ha hb
    rcases ha with rfl | ha
    · rcases hb with rfl | hb
      · exact absurd rfl hab
      · left; exact List.Sublist.cons_cons _ (List.singleton_sublist.2 hb)
    · rcases hb with rfl | hb
      · right; exact List.Sublist.cons_cons _ (List.singleton_sublist.2 ha)
      · rcases ih ha hb with h | h
        · exact Or.inl (h.cons _)
        · exact Or.inr (h.cons _)

theorem not_both_orders (l : List τ) (hnd : l.Nodup) (a b : τ) (h1 : [a, b].Sublist l)
    (h2 : [b, a].Sublist l) : False := by
  have hp : l.Pairwise (· ≠ ·) := hnd
  induction l with
  | nil => simp at h1
  | cons x xs ih =>
    rw [List.pairwise_cons] at hp
    have hndx := (List.nodup_cons.1 hnd)
    cases h1 with
    | cons _ h1' =>
      cases h2 with
      | cons _ h2' => exact ih hndx.2 h1' h2' hp.2
      | cons_cons _ h2' =>
        -- x = b, and a ∈ xs, but [a, b] <+ xs means b ∈ xs: contradiction with nodup
        exact hndx.1 (h1'.subset (by simp))
    | cons_cons _ h1' =>
      cases h2 with
      | cons _ h2' =>
        exact hndx.1 (h2'.subset (by simp))
      | cons_cons _ h2' =>
        -- a = x = b
        exact hndx.1 (List.singleton_sublist.1 h1')

/-! ### the model's structural insertion sort: permutation, sortedness, stability -/

theorem perm_insertBy (le : τ → τ → Bool) (x : τ) : ∀ l : List τ, (insertBy le x l).Perm (x :: l)
  | [] => List.Perm.refl _
  | y :: ys => by
    simp only [insertBy]
    split
    · exact List.Perm.refl _
    · exact ((perm_insertBy le x ys).cons y).trans (List.Perm.swap x y ys)

theorem perm_isort (le : τ → τ → Bool) : ∀ l : List τ, (isort le l).Perm l
  | [] => List.Perm.refl _
  | x :: xs => (perm_insertBy le x (isort le xs)).trans ((perm_isort le xs).cons x)

theorem mem_isort (le : τ → τ → Bool) (l : List τ) (a : τ) : a ∈ isort le l ↔ a ∈ l :=
  (perm_isort le l).mem_iff

theorem pairwise_insertBy (le : τ → τ → Bool) (t : ∀ a b c, le a b → le b c → le a c)
    (tot : ∀ a b, le a b || le b a) (x : τ) :
    ∀ l : List τ, l.Pairwise (fun a b => le a b = true) → (insertBy le x l).Pairwise (fun a b => le a b = true)
  | [], _ => by simp [insertBy]
  | y :: ys, h => by
    simp only [insertBy]
    rw [List.pairwise_cons] at h
    split
    · rename_i hxy
      refine List.pairwise_cons.2 ⟨?_, List.pairwise_cons.2 h⟩
      intro z hz
      rcases List.mem_cons.1 hz with rfl | hz
      · exact hxy
      · exact t _ _ _ hxy (h.1 z hz)
    · rename_i hxy
      have hyx : le y x = true := by
        have := tot x y
        simp only [Bool.or_eq_true] at this
        rcases this with h1 | h1
        · exact absurd h1 hxy
        · exact h1
      refine List.pairwise_cons.2 ⟨?_, pairwise_insertBy le t tot x ys h.2⟩
      intro z hz
      rcases List.mem_cons.1 ((perm_insertBy le x ys).mem_iff.1 hz) with rfl | hz
      · exact hyx
      · exact h.1 z hz

theorem pairwise_isort (le : τ → τ → Bool) (t : ∀ a b c, le a b → le b c → le a c)
    (tot : ∀ a b, le a b || le b a) : ∀ l : List τ, (isort le l).Pairwise (fun a b => le a b = true)
  | [] => List.Pairwise.nil
  | x :: xs => pairwise_insertBy le t tot x _ (pairwise_isort le t tot xs)

theorem sublist_insertBy (le : τ → τ → Bool) (x : τ) : ∀ l : List τ, l.Sublist (insertBy le x l)
  | [] => by simp [insertBy]
  | y :: ys => by
    simp only [insertBy]
    split
    · exact List.Sublist.cons _ (List.Sublist.refl _)
    · exact List.Sublist.cons_cons _ (sublist_insertBy le x ys)

theorem cons_sublist_insertBy (le : τ → τ → Bool) (x : τ) :
    ∀ (l c : List τ), c.Sublist l → (∀ a ∈ c, le x a = true) → (x :: c).Sublist (insertBy le x l)
  | [], c, hc, _ => by
    have : c = [] := List.eq_nil_of_sublist_nil hc
    subst this; simp [insertBy]
  | y :: ys, c, hc, hx => by
    simp only [insertBy]
    split
    · exact List.Sublist.cons_cons _ hc
    · rename_i hxy
      cases hc with
      | cons _ h => exact List.Sublist.cons _ (cons_sublist_insertBy le x ys c h hx)
      | cons_cons _ h => exact absurd (hx y (by simp)) hxy

/-- stability: a sorted sublist of the input is still a sublist of the output -/
theorem sublist_isort (le : τ → τ → Bool) :
    ∀ (l c : List τ), c.Pairwise (fun a b => le a b = true) → c.Sublist l → c.Sublist (isort le l)
  | [], c, _, hc => by simpa [isort] using hc
  | x :: xs, c, hr, hc => by
    simp only [isort]
    cases hc with
    | cons _ h => exact (sublist_isort le xs c hr h).trans (sublist_insertBy le x _)
    | cons_cons _ h =>
      rw [List.pairwise_cons] at hr
      exact cons_sublist_insertBy le x _ _ (sublist_isort le xs _ hr.2 h) hr.1

theorem pair_sublist_isort (le : τ → τ → Bool) {a b : τ} {l : List τ} (hab : le a b = true)
    (h : [a, b].Sublist l) : [a, b].Sublist (isort le l) :=
  sublist_isort le l [a, b] (by simp [hab]) h

/-- Sorting by the secondary key and then *stably* by the primary key sorts by (primary, secondary). -/
theorem two_pass_sorted (l : List τ) (hnd : l.Nodup) (le1 le2 : τ → τ → Bool)
    (t1 : ∀ a b c, le1 a b → le1 b c → le1 a c) (tot1 : ∀ a b, le1 a b || le1 b a)
    (t2 : ∀ a b c, le2 a b → le2 b c → le2 a c) (tot2 : ∀ a b, le2 a b || le2 b a) :
    (isort le1 (isort le2 l)).Pairwise
      (fun a b => le1 a b = true ∧ (le1 b a = true → le2 a b = true)) := by
  set l1 := isort le2 l with hl1
  set l2 := isort le1 l1 with hl2
  have hnd1 : l1.Nodup := (perm_isort le2 l).nodup_iff.2 hnd
  have hnd2 : l2.Nodup := (perm_isort le1 l1).nodup_iff.2 hnd1
  have hs1 : l1.Pairwise (fun a b => le2 a b = true) := pairwise_isort le2 t2 tot2 l
  have hs2 : l2.Pairwise (fun a b => le1 a b = true) := pairwise_isort le1 t1 tot1 l1
  rw [List.pairwise_iff_forall_sublist] at hs1 hs2 ⊢
  intro a b hab
  refine ⟨hs2 hab, ?_⟩
  intro hba
  by_contra hno
  have ha2 : a ∈ l2 := hab.subset (by simp)
  have hb2 : b ∈ l2 := hab.subset (by simp)
  have hne : a ≠ b := by
    rintro rfl
    have : [a, a].Nodup := hnd2.sublist hab
    simp at this
  have ha1 : a ∈ l1 := (mem_isort le1 l1 a).1 ha2
  have hb1 : b ∈ l1 := (mem_isort le1 l1 b).1 hb2
  rcases pair_sublist_or l1 a b ha1 hb1 hne with h | h
  · exact hno (hs1 h)
  · have : [b, a].Sublist l2 := pair_sublist_isort le1 hba h
    exact not_both_orders l2 hnd2 a b hab this
end Np.Sort

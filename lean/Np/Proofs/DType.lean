import Np.Model.DType
namespace Np.DT

/-- C12: for every source dtype and every requested dtype the repaired constructor stores numpy's cast -/
theorem fromAttributes_table :
    ∀ src ∈ all, ∀ req ∈ (none :: all.map some),
      fromAttributes src req = (req.getD src, .val src (req.getD src)) := by decide

/-- D10 as a theorem about the shipped path: 9 source dtypes leave the buffer unwritten … -/
theorem old_uninit : (all.filter fun d => (fromAttributesOld d none).2 = .uninit).length = 9 := by decide
/-- … and every mismatching pair inside the switch is a raw reinterpretation -/
theorem old_garbage : (fromAttributesOld .i64 (some .f64)).2 = .garbage := by decide

/-- the table really quantifies over all 14 dtypes -/
theorem all_complete (d : DType) : d ∈ all := by cases d <;> decide
end Np.DT

import Np.Model.DType
namespace Np.DT
/-- the table really quantifies over all 14 dtypes -/
theorem all_complete (d : DType) : d ∈ all := by cases d <;> decide
end Np.DT

import Np.Proofs.SelectFns
import Np.Proofs.ConstFns
import Np.Model.ElemFns
/-! C11: the element-wise functions of `Np/Model/ElemFns.lean` are numpy's ufuncs on integer value arrays: numpy's
broadcasting in terms of multi-indices (`binop_spec`), when numpy raises (`binop_isSome`), and the defining
properties of the instances, position by position. -/
namespace Np.ElemFns
open Np.Shape Np.ShapeFns Np.ConstFns Np.SelectFns

/-! ### 0. `numpy.broadcast_shapes` is symmetric -/

theorem bshapeRev_comm : ∀ (a b : List Nat), bshapeRev a b = bshapeRev b a
  | [], b => by rw [bshapeRev_nil_right]; simp [bshapeRev]
  | x :: a, [] => by simp [bshapeRev]
  | x :: a, y :: b => by
    rw [bshapeRev, bshapeRev, bshapeRev_comm a b]
    cases bshapeRev b a with
    | none => rfl
    | some r =>
      simp only
      by_cases h1 : x = y
      · subst h1; rfl
      · have h1' : ¬ y = x := fun h => h1 h.symm
        by_cases h2 : x = 1 <;> by_cases h3 : y = 1 <;> simp_all

theorem bshape_comm (s t : List Nat) : bshape s t = bshape t s := by
  rw [bshape, bshape, bshapeRev_comm]

theorem bshape_nil_right' (s : List Nat) : bshape s [] = some s := by simp [bshape, bshapeRev_nil_right]

/-! ### 1. `binop`: numpy's broadcasting -/

section
variable {β γ : Type} {f : Int → Int → β} {sa sb out : List Nat} {xs ys : List Int} {r : List β}

theorem binop_eq (h : binop f sa sb xs ys = some (out, r)) :
    xs.length = size sa ∧ ys.length = size sb ∧ bshape sa sb = some out ∧
    r = (List.range (size out)).map fun i => f (xs.getD (bindex sa out i) 0) (ys.getD (bindex sb out i) 0) := by
  unfold binop at h
  split at h
  · rename_i hc
    simp only [Bool.and_eq_true, beq_iff_eq] at hc
    split at h
    · simp at h
    · rename_i o ho
      simp only [Option.some.injEq, Prod.mk.injEq] at h
      obtain ⟨rfl, rfl⟩ := h
      exact ⟨hc.1, hc.2, ho, rfl⟩
  · simp at h

theorem binop_of (f : Int → Int → β) (hx : xs.length = size sa) (hy : ys.length = size sb)
    (hb : bshape sa sb = some out) :
    binop f sa sb xs ys = some (out, (List.range (size out)).map fun i =>
      f (xs.getD (bindex sa out i) 0) (ys.getD (bindex sb out i) 0)) := by
  simp [binop, hx, hy, hb]

/-- **`binop_isSome`**: numpy raises exactly when the shapes do not broadcast (the lengths must fit the shapes) -/
theorem binop_isSome (f : Int → Int → β) (sa sb : List Nat) (xs ys : List Int) :
    (binop f sa sb xs ys).isSome = (xs.length == size sa && ys.length == size sb && (bshape sa sb).isSome) := by
  unfold binop
  split
  · rename_i hc
    rw [hc]
    cases bshape sa sb <;> simp
  · rename_i hc
    simp only [Bool.not_eq_true] at hc
    rw [hc]
    rfl

theorem binop_isSome_iff (f : Int → Int → β) (sa sb : List Nat) (xs ys : List Int) :
    (binop f sa sb xs ys).isSome = true ↔
      xs.length = size sa ∧ ys.length = size sb ∧ ∃ out, bshape sa sb = some out := by
  rw [binop_isSome]
  simp [Option.isSome_iff_exists, and_assoc]

/-- the output shape is `numpy.broadcast_shapes`; both operand shapes broadcast to it; one entry per position -/
theorem binop_shape (h : binop f sa sb xs ys = some (out, r)) :
    bshape sa sb = some out ∧ BcastTo sa out ∧ BcastTo sb out ∧ r.length = size out := by
  obtain ⟨-, -, hb, rfl⟩ := binop_eq h
  exact ⟨hb, (bshape_bcastTo hb).1, (bshape_bcastTo hb).2, by simp⟩

/-- flat form: position `i` combines the operands at their broadcast positions, which are in range -/
theorem binop_getElem? (h : binop f sa sb xs ys = some (out, r)) {i : Nat} (hi : i < size out) :
    r[i]? = some (f (xs.getD (bindex sa out i) 0) (ys.getD (bindex sb out i) 0)) ∧
    bindex sa out i < xs.length ∧ bindex sb out i < ys.length := by
  obtain ⟨-, ha, hb, -⟩ := binop_shape h
  obtain ⟨hx, hy, -, rfl⟩ := binop_eq h
  exact ⟨getElem?_map_range _ hi, by rw [hx]; exact bindex_lt_of_bcastTo ha hi,
    by rw [hy]; exact bindex_lt_of_bcastTo hb hi⟩

/-- **`binop_spec`**: on success the shapes broadcast to `out`, there are `size out` entries, and the entry at the
valid output multi-index `j` is `f` of the operands at the broadcast multi-indices `bmulti sa j`, `bmulti sb j`
(axes aligned from the right, an axis of extent 1 read at 0), both valid and in range -/
theorem binop_spec (h : binop f sa sb xs ys = some (out, r)) {j : List Nat} (hj : Valid out j) :
    bshape sa sb = some out ∧ r.length = size out ∧
    r[ravel out j]? = some (f (xs.getD (ravel sa (bmulti sa j)) 0) (ys.getD (ravel sb (bmulti sb j)) 0)) ∧
    Valid sa (bmulti sa j) ∧ ravel sa (bmulti sa j) < xs.length ∧
    Valid sb (bmulti sb j) ∧ ravel sb (bmulti sb j) < ys.length := by
  obtain ⟨hb, ha, hb', hl⟩ := binop_shape h
  obtain ⟨h1, h2, h3⟩ := binop_getElem? h (ravel_lt_of_valid hj)
  simp only [bindex_ravel _ hj] at h1 h2 h3
  exact ⟨hb, hl, h1, bmulti_valid ha hj, h2, bmulti_valid hb' hj, h3⟩

/-- any pointwise property of `f` holds at every output multi-index -/
theorem binop_pointwise (P : Int → Int → β → Prop) (hP : ∀ a b, P a b (f a b))
    (h : binop f sa sb xs ys = some (out, r)) {j : List Nat} (hj : Valid out j) :
    ∃ v, r[ravel out j]? = some v ∧
      P (xs.getD (ravel sa (bmulti sa j)) 0) (ys.getD (ravel sb (bmulti sb j)) 0) v :=
  ⟨_, (binop_spec h hj).2.2.1, hP _ _⟩

/-- **commutativity transfer** -/
theorem binop_comm {g : Int → Int → β} (hfg : ∀ a b, f a b = g b a) (sa sb : List Nat) (xs ys : List Int) :
    binop f sa sb xs ys = binop g sb sa ys xs := by
  unfold binop
  rw [bshape_comm sb sa, Bool.and_comm]
  simp only [hfg]

/-- post-composition -/
theorem binop_map (h : β → γ) (f : Int → Int → β) (sa sb : List Nat) (xs ys : List Int) :
    binop (fun a b => h (f a b)) sa sb xs ys = (binop f sa sb xs ys).map fun r => (r.1, r.2.map h) := by
  unfold binop
  split
  · cases bshape sa sb <;> simp
  · rfl

theorem getD_map_of_lt (g : Int → Int) {xs : List Int} {i : Nat} (hi : i < xs.length) :
    (xs.map g).getD i 0 = g (xs.getD i 0) := by
  simp [List.getD_eq_getElem?_getD, List.getElem?_map, List.getElem?_eq_getElem hi]

/-- pre-composition: a ufunc of element-wise transformed operands -/
theorem binop_comp (f : Int → Int → β) (g h : Int → Int) (sa sb : List Nat) (xs ys : List Int) :
    binop f sa sb (xs.map g) (ys.map h) = binop (fun a b => f (g a) (h b)) sa sb xs ys := by
  unfold binop
  simp only [List.length_map]
  split
  · rename_i hc
    simp only [Bool.and_eq_true, beq_iff_eq] at hc
    cases hb : bshape sa sb with
    | none => rfl
    | some o =>
      simp only [Option.some.injEq, Prod.mk.injEq, true_and]
      apply List.map_congr_left
      intro i hi
      have hi' : i < size o := List.mem_range.1 hi
      rw [getD_map_of_lt g (by rw [hc.1]; exact bindex_lt_of_bcastTo (bshape_bcastTo hb).1 hi'),
        getD_map_of_lt h (by rw [hc.2]; exact bindex_lt_of_bcastTo (bshape_bcastTo hb).2 hi')]
  · rfl

theorem unop_eq {f : Int → β} {sa out : List Nat} {xs : List Int} {r : List β} :
    unop f sa xs = some (out, r) ↔ xs.length = size sa ∧ out = sa ∧ r = xs.map f := by
  unfold unop
  split
  · rename_i hc
    simp only [beq_iff_eq] at hc
    simp [hc, eq_comm]
  · rename_i hc
    simp only [beq_iff_eq] at hc
    simp [hc]

theorem bindex_nil (o : List Nat) (i : Nat) : bindex [] o i = 0 := by
  simp [bindex, ravel]

/-- a 0-d second operand: the ufunc is the unary function `f · c` -/
theorem binop_scalar_right (f : Int → Int → β) (c : Int) (hx : xs.length = size sa) :
    binop f sa [] xs [c] = unop (fun a => f a c) sa xs := by
  rw [binop_of f hx (by simp [size]) (bshape_nil_right' sa), (unop_eq).2 ⟨hx, rfl, rfl⟩]
  simp only [Option.some.injEq, Prod.mk.injEq, true_and]
  apply List.ext_getElem (by simp [hx])
  intro i h1 h2
  have hi : i < size sa := by simpa using h1
  simp only [List.getElem_map, List.getElem_range, bindex_nil, List.getD_cons_zero]
  rw [bindex_same (pos_of_size_pos (by omega)) hi, List.getD_eq_getElem?_getD,
    List.getElem?_eq_getElem (by omega), Option.getD_some]
end

/-! ### 2. comparisons: trichotomy and complements -/

theorem tri (a b : Int) :
    (decide (a < b) = true ∧ (a == b) = false ∧ decide (b < a) = false) ∨
    (decide (a < b) = false ∧ (a == b) = true ∧ decide (b < a) = false) ∨
    (decide (a < b) = false ∧ (a == b) = false ∧ decide (b < a) = true) := by
  simp only [decide_eq_true_eq, decide_eq_false_iff_not, beq_iff_eq, beq_eq_false_iff_ne, ne_eq]
  omega

/-- **trichotomy**: `less`, `equal`, `greater` succeed together, with the same shape, and at every position exactly
one of them is true -/
theorem compare_trichotomy {sa sb out : List Nat} {xs ys : List Int} {l : List Bool}
    (hl : lessF sa sb xs ys = some (out, l)) :
    ∃ e g, equalF sa sb xs ys = some (out, e) ∧ greaterF sa sb xs ys = some (out, g) ∧
      ∀ i, i < size out → ∃ x y z, l[i]? = some x ∧ e[i]? = some y ∧ g[i]? = some z ∧
        ((x = true ∧ y = false ∧ z = false) ∨ (x = false ∧ y = true ∧ z = false) ∨
          (x = false ∧ y = false ∧ z = true)) := by
  obtain ⟨hx, hy, hb, rfl⟩ := binop_eq hl
  refine ⟨_, _, binop_of _ hx hy hb, binop_of _ hx hy hb, fun i hi => ?_⟩
  exact ⟨_, _, _, getElem?_map_range _ hi, getElem?_map_range _ hi, getElem?_map_range _ hi, tri _ _⟩

/-- `less_equal` is the negation of `greater` -/
theorem lessEqualF_eq (sa sb : List Nat) (xs ys : List Int) :
    lessEqualF sa sb xs ys = (greaterF sa sb xs ys).map fun r => (r.1, r.2.map not) := by
  unfold lessEqualF greaterF
  rw [← binop_map]
  congr 1
  funext a b
  by_cases h : a ≤ b <;> simp [h]
  omega

/-- `greater_equal` is the negation of `less` -/
theorem greaterEqualF_eq (sa sb : List Nat) (xs ys : List Int) :
    greaterEqualF sa sb xs ys = (lessF sa sb xs ys).map fun r => (r.1, r.2.map not) := by
  unfold greaterEqualF lessF
  rw [← binop_map]
  congr 1
  funext a b
  by_cases h : b ≤ a <;> simp [h]
  omega

/-- `not_equal` is the negation of `equal` -/
theorem notEqualF_eq (sa sb : List Nat) (xs ys : List Int) :
    notEqualF sa sb xs ys = (equalF sa sb xs ys).map fun r => (r.1, r.2.map not) := by
  unfold notEqualF equalF
  rw [← binop_map]
  rfl

/-- `greater(x, y) = less(y, x)`, `greater_equal(x, y) = less_equal(y, x)`, `equal` is symmetric -/
theorem greaterF_eq_lessF (sa sb : List Nat) (xs ys : List Int) : greaterF sa sb xs ys = lessF sb sa ys xs :=
  binop_comm (fun _ _ => rfl) sa sb xs ys
theorem greaterEqualF_eq_lessEqualF (sa sb : List Nat) (xs ys : List Int) :
    greaterEqualF sa sb xs ys = lessEqualF sb sa ys xs := binop_comm (fun _ _ => rfl) sa sb xs ys
theorem equalF_comm (sa sb : List Nat) (xs ys : List Int) : equalF sa sb xs ys = equalF sb sa ys xs :=
  binop_comm (fun a b => by simp [eq_comm]) sa sb xs ys

/-! ### 3. arithmetic -/

theorem addF_comm (sa sb : List Nat) (xs ys : List Int) : addF sa sb xs ys = addF sb sa ys xs :=
  binop_comm (fun a b => Int.add_comm a b) sa sb xs ys
theorem mulF_comm (sa sb : List Nat) (xs ys : List Int) : mulF sa sb xs ys = mulF sb sa ys xs :=
  binop_comm (fun a b => Int.mul_comm a b) sa sb xs ys
theorem maximumF_comm (sa sb : List Nat) (xs ys : List Int) : maximumF sa sb xs ys = maximumF sb sa ys xs :=
  binop_comm (fun a b => by show (if a < b then b else a) = if b < a then a else b; split <;> split <;> omega)
    sa sb xs ys
theorem minimumF_comm (sa sb : List Nat) (xs ys : List Int) : minimumF sa sb xs ys = minimumF sb sa ys xs :=
  binop_comm (fun a b => by show (if b < a then b else a) = if a < b then a else b; split <;> split <;> omega)
    sa sb xs ys

/-- `subtract(x, y) = add(x, negative(y))` -/
theorem subF_eq (sa sb : List Nat) (xs ys : List Int) :
    subF sa sb xs ys = addF sa sb xs (ys.map fun y => -y) := by
  have := binop_comp (· + ·) id (fun y => -y) sa sb xs ys
  rw [List.map_id] at this
  unfold subF addF
  rw [this]
  congr 1

/-- **maximum**: every entry is one of the two operands and is ≥ both -/
theorem maximumF_spec {sa sb out : List Nat} {xs ys r : List Int} (h : maximumF sa sb xs ys = some (out, r))
    {j : List Nat} (hj : Valid out j) :
    ∃ v, r[ravel out j]? = some v ∧
      (v = xs.getD (ravel sa (bmulti sa j)) 0 ∨ v = ys.getD (ravel sb (bmulti sb j)) 0) ∧
      xs.getD (ravel sa (bmulti sa j)) 0 ≤ v ∧ ys.getD (ravel sb (bmulti sb j)) 0 ≤ v :=
  binop_pointwise (fun a b v => (v = a ∨ v = b) ∧ a ≤ v ∧ b ≤ v)
    (fun a b => by show ((if a < b then b else a) = a ∨ _) ∧ _; split <;> omega) h hj

/-- **minimum**: every entry is one of the two operands and is ≤ both -/
theorem minimumF_spec {sa sb out : List Nat} {xs ys r : List Int} (h : minimumF sa sb xs ys = some (out, r))
    {j : List Nat} (hj : Valid out j) :
    ∃ v, r[ravel out j]? = some v ∧
      (v = xs.getD (ravel sa (bmulti sa j)) 0 ∨ v = ys.getD (ravel sb (bmulti sb j)) 0) ∧
      v ≤ xs.getD (ravel sa (bmulti sa j)) 0 ∧ v ≤ ys.getD (ravel sb (bmulti sb j)) 0 :=
  binop_pointwise (fun a b v => (v = a ∨ v = b) ∧ v ≤ a ∧ v ≤ b)
    (fun a b => by show ((if b < a then b else a) = a ∨ _) ∧ _; split <;> omega) h hj

/-! ### 4. floor_divide / remainder / divmod -/

/-- **floor_divide / remainder**: they succeed together with the same shape; at every output multi-index, for a
non-zero divisor `b`, `a = b * q + m` with `m` between 0 and `b` (sign of `b`); for `b = 0` both are 0 -/
theorem floorDivide_remainder_spec {sa sb out : List Nat} {xs ys q : List Int}
    (hq : floorDivideF sa sb xs ys = some (out, q)) :
    ∃ m, remainderF sa sb xs ys = some (out, m) ∧ ∀ j, Valid out j → ∃ qv mv a b,
      a = xs.getD (ravel sa (bmulti sa j)) 0 ∧ b = ys.getD (ravel sb (bmulti sb j)) 0 ∧
      q[ravel out j]? = some qv ∧ m[ravel out j]? = some mv ∧
      (b ≠ 0 → a = b * qv + mv ∧ ((0 ≤ mv ∧ mv < b) ∨ (b < mv ∧ mv ≤ 0))) ∧
      (b = 0 → qv = 0 ∧ mv = 0) := by
  obtain ⟨hx, hy, hb, -⟩ := binop_eq hq
  have hm := binop_of pyMod hx hy hb
  refine ⟨_, hm, fun j hj => ⟨_, _, _, _, rfl, rfl, (binop_spec hq hj).2.2.1, (binop_spec hm hj).2.2.1, ?_, ?_⟩⟩
  · exact fun h0 => floorDiv_spec _ _ h0
  · intro h0
    rw [h0]
    exact floorDiv_zero _

/-- `divmod` is the pair (`floor_divide`, `remainder`) -/
theorem divmodF_fst (sa sb : List Nat) (xs ys : List Int) :
    (divmodF sa sb xs ys).map (fun r => (r.1, r.2.map Prod.fst)) = floorDivideF sa sb xs ys :=
  (binop_map Prod.fst divmodI sa sb xs ys).symm
theorem divmodF_snd (sa sb : List Nat) (xs ys : List Int) :
    (divmodF sa sb xs ys).map (fun r => (r.1, r.2.map Prod.snd)) = remainderF sa sb xs ys :=
  (binop_map Prod.snd divmodI sa sb xs ys).symm

/-! ### 5. power -/

theorem powerF_eq {sa sb out : List Nat} {xs ys r : List Int} (h : powerF sa sb xs ys = some (out, r)) :
    ∃ ps, binop (fun a k => (a, k)) sa sb xs ys = some (out, ps) ∧ (∀ p ∈ ps, 0 ≤ p.2) ∧
      r = ps.map fun p => p.1 ^ p.2.toNat := by
  unfold powerF at h
  cases hb : binop (fun a k => (a, k)) sa sb xs ys with
  | none => simp [hb] at h
  | some p =>
    obtain ⟨o, ps⟩ := p
    simp only [hb, Option.bind_some] at h
    split at h
    · rename_i hall
      simp only [Option.some.injEq, Prod.mk.injEq] at h
      obtain ⟨rfl, rfl⟩ := h
      exact ⟨ps, rfl, by simpa using hall, rfl⟩
    · simp at h

/-- **power**: at every output multi-index the exponent `k` is non-negative and the entry is `x ^ k` -/
theorem powerF_spec {sa sb out : List Nat} {xs ys r : List Int} (h : powerF sa sb xs ys = some (out, r))
    {j : List Nat} (hj : Valid out j) :
    0 ≤ ys.getD (ravel sb (bmulti sb j)) 0 ∧
    r[ravel out j]? = some (xs.getD (ravel sa (bmulti sa j)) 0 ^ (ys.getD (ravel sb (bmulti sb j)) 0).toNat) ∧
    bshape sa sb = some out ∧ r.length = size out ∧
    Valid sa (bmulti sa j) ∧ ravel sa (bmulti sa j) < xs.length ∧
    Valid sb (bmulti sb j) ∧ ravel sb (bmulti sb j) < ys.length := by
  obtain ⟨ps, hb, hall, rfl⟩ := powerF_eq h
  obtain ⟨h1, h2, h3, h4, h5, h6, h7⟩ := binop_spec hb hj
  refine ⟨hall _ (List.mem_of_getElem? h3), ?_, h1, by simpa using h2, h4, h5, h6, h7⟩
  rw [List.getElem?_map, h3]
  rfl

/-- numpy raises exactly when the shapes do not broadcast or a visited exponent is negative -/
theorem powerF_isSome_iff (sa sb : List Nat) (xs ys : List Int) :
    (powerF sa sb xs ys).isSome = true ↔ xs.length = size sa ∧ ys.length = size sb ∧
      ∃ out, bshape sa sb = some out ∧ ∀ i, i < size out → 0 ≤ ys.getD (bindex sb out i) 0 := by
  constructor
  · intro h
    obtain ⟨⟨out, r⟩, hr⟩ := Option.isSome_iff_exists.1 h
    obtain ⟨ps, hb, hall, -⟩ := powerF_eq hr
    obtain ⟨hx, hy, hs, rfl⟩ := binop_eq hb
    refine ⟨hx, hy, out, hs, fun i hi => ?_⟩
    exact hall _ (List.mem_map.2 ⟨i, List.mem_range.2 hi, rfl⟩)
  · rintro ⟨hx, hy, out, hs, hall⟩
    unfold powerF
    rw [binop_of _ hx hy hs, Option.bind_some, if_pos]
    · rfl
    · simpa using hall

/-- with every exponent equal to 2, `power` is the broadcast square -/
theorem powerF_two {sa sb : List Nat} {xs ys : List Int} (h2 : ∀ y ∈ ys, y = 2) :
    powerF sa sb xs ys = binop (fun a _ => a * a) sa sb xs ys := by
  cases hb : binop (fun a k => (a, k)) sa sb xs ys with
  | none =>
    have h1 : (binop (fun a _ => a * a) sa sb xs ys).isSome = false := by
      rw [binop_isSome, ← binop_isSome (fun a k => (a, k)), hb]; rfl
    rw [Option.isSome_eq_false_iff, Option.isNone_iff_eq_none] at h1
    simp [powerF, hb, h1]
  | some p =>
    obtain ⟨out, ps⟩ := p
    obtain ⟨hx, hy, hs, rfl⟩ := binop_eq hb
    have hk : ∀ i, i < size out → ys.getD (bindex sb out i) 0 = 2 := fun i hi => by
      have hlt : bindex sb out i < ys.length := by rw [hy]; exact bindex_lt_of_bcastTo (bshape_bcastTo hs).2 hi
      rw [List.getD_eq_getElem?_getD, List.getElem?_eq_getElem hlt]
      exact h2 _ (List.getElem_mem hlt)
    unfold powerF
    rw [hb, Option.bind_some, binop_of _ hx hy hs, if_pos]
    · simp only [List.map_map, Option.some.injEq, Prod.mk.injEq, true_and]
      apply List.map_congr_left
      intro i hi
      simp only [Function.comp, hk i (List.mem_range.1 hi)]
      show _ ^ 2 = _
      rw [Int.pow_succ, Int.pow_succ, Int.pow_zero, Int.one_mul]
    · simp only [List.all_map, List.all_eq_true, List.mem_range, Function.comp, decide_eq_true_eq]
      intro i hi
      rw [hk i hi]
      omega

/-- `power(x, 2)` with the scalar 2 is `square(x)` -/
theorem powerF_scalar_two {sa : List Nat} {xs : List Int} (hx : xs.length = size sa) :
    powerF sa [] xs [2] = squareF sa xs := by
  rw [powerF_two (by simp), binop_scalar_right _ _ hx]
  rfl

/-! ### 6. logical functions: De Morgan -/

/-- `logical_not` as an integer array -/
def notI (x : Int) : Int := if x = 0 then 1 else 0

theorem logicalNot_notI (x : Int) : (notI x != 0) = logicalNot x := by
  by_cases h : x = 0 <;> simp [notI, logicalNot, h]

theorem deMorgan_and (a b : Int) : (!logicalAnd a b) = (logicalNot a || logicalNot b) := by
  simp only [logicalAnd, logicalNot, bne]; cases (a == 0) <;> cases (b == 0) <;> rfl
theorem deMorgan_or (a b : Int) : (!logicalOr a b) = (logicalNot a && logicalNot b) := by
  simp only [logicalOr, logicalNot, bne]; cases (a == 0) <;> cases (b == 0) <;> rfl

/-- `logical_not(logical_and(x, y)) = logical_or(logical_not(x), logical_not(y))`, with broadcasting -/
theorem logicalAndF_deMorgan (sa sb : List Nat) (xs ys : List Int) :
    (logicalAndF sa sb xs ys).map (fun r => (r.1, r.2.map not)) = logicalOrF sa sb (xs.map notI) (ys.map notI) := by
  unfold logicalAndF logicalOrF
  rw [← binop_map, binop_comp]
  congr 1
  funext a b
  rw [deMorgan_and]
  simp only [logicalOr, logicalNot_notI]

/-- `logical_not(logical_or(x, y)) = logical_and(logical_not(x), logical_not(y))`, with broadcasting -/
theorem logicalOrF_deMorgan (sa sb : List Nat) (xs ys : List Int) :
    (logicalOrF sa sb xs ys).map (fun r => (r.1, r.2.map not)) = logicalAndF sa sb (xs.map notI) (ys.map notI) := by
  unfold logicalAndF logicalOrF
  rw [← binop_map, binop_comp]
  congr 1
  funext a b
  rw [deMorgan_or]
  simp only [logicalAnd, logicalNot_notI]

/-- `logical_xor` is `not_equal` of the truth values; the logical functions are symmetric -/
theorem logicalXor_eq (a b : Int) : logicalXor a b = (logicalOr a b && !logicalAnd a b) := by
  simp only [logicalXor, logicalOr, logicalAnd, bne]; cases (a == 0) <;> cases (b == 0) <;> rfl
theorem logicalAndF_comm (sa sb : List Nat) (xs ys : List Int) :
    logicalAndF sa sb xs ys = logicalAndF sb sa ys xs :=
  binop_comm (fun _ _ => Bool.and_comm _ _) sa sb xs ys
theorem logicalOrF_comm (sa sb : List Nat) (xs ys : List Int) : logicalOrF sa sb xs ys = logicalOrF sb sa ys xs :=
  binop_comm (fun _ _ => Bool.or_comm _ _) sa sb xs ys

/-! ### 7. unary functions -/

/-- `absolute` is `sign * x`, is non-negative, and `negative` is an involution -/
theorem absolute_sign (a : Int) : (a.natAbs : Int) = Int.sign a * a ∧ 0 ≤ (a.natAbs : Int) :=
  ⟨by rw [Int.mul_comm]; exact (Int.mul_sign_self a).symm, by omega⟩

theorem negativeF_negativeF {sa out : List Nat} {xs r : List Int} (h : negativeF sa xs = some (out, r)) :
    negativeF out r = some (sa, xs) := by
  obtain ⟨hx, rfl, rfl⟩ := unop_eq.1 h
  exact unop_eq.2 ⟨by simpa using hx, rfl, by simp⟩

/-! ### 8. `where` on constants -/

/-- output multi-index `j` holds `x` where the condition (at its broadcast multi-index) is true, else `y` -/
theorem whereConstF_spec {cond : List Bool} {sc sx sy out : List Nat} {xs ys r : List Int}
    (h : whereConstF cond sc sx sy xs ys = some (out, r)) {j : List Nat} (hj : Valid out j) :
    bshapeAll [sc, sx, sy] = some out ∧ r.length = size out ∧
    r[ravel out j]? = some (if cond.getD (ravel sc (bmulti sc j)) false then xs.getD (ravel sx (bmulti sx j)) 0
      else ys.getD (ravel sy (bmulti sy j)) 0) ∧
    ravel sc (bmulti sc j) < cond.length ∧ ravel sx (bmulti sx j) < xs.length ∧
    ravel sy (bmulti sy j) < ys.length := by
  unfold whereConstF at h
  split at h
  · rename_i hc
    simp only [Bool.and_eq_true, beq_iff_eq] at hc
    cases hw : whereF cond sc sx sy with
    | none => simp [hw] at h
    | some p =>
      obtain ⟨o, idx⟩ := p
      simp only [hw, Option.map_some, Option.some.injEq, Prod.mk.injEq] at h
      obtain ⟨rfl, rfl⟩ := h
      obtain ⟨h1, -, h3, h4, h5⟩ := whereF_spec hw hj
      refine ⟨(whereF_shape hw).1, by simpa using whereF_length hw, ?_, h3,
        by rw [hc.1]; exact ravel_lt_of_valid h4, by rw [hc.2]; exact ravel_lt_of_valid h5⟩
      rw [List.getElem?_map, h1]
      split <;> simp
  · simp at h

end Np.ElemFns

import Np.Proofs.Dims
import Np.Proofs.Gather
import Np.Proofs.Compare
import Np.Proofs.DerivFull
import Np.Model.Maps
import Np.Model.Compare
/-! C11: on *constant* polynomial arrays (`toNumpy p = some c`) the mirrored functions act on the numeric column
`c` exactly as numpy acts on the underlying array: pattern theorems for the executable model.
Key fact: for a well-formed `p`, `toNumpy p = some c ↔ den p = C c`; every denotation theorem then transfers. -/
open MvPolynomial
set_option linter.unusedSectionVars false
namespace Np
open Shape

/-! ### 0. `tonumpy` succeeds exactly on the polynomials that denote a constant -/
section key
variable {S : Type} [CommSemiring S]

/-- distinct rows (of the right length, over distinct names) are distinct monomials -/
theorem fsN_injective (ns : List Name) (hn : ns.Nodup) (e1 e2 : Expo) (h1 : e1.length = ns.length)
    (h2 : e2.length = ns.length) (h : fsN ns e1 = fsN ns e2) : e1 = e2 := by
  apply row_ext ns hn e1 e2 h1 h2
  intro n _
  rw [← fsN_apply ns hn, ← fsN_apply ns hn, h]

theorem lookup_mem (ts : List (Expo × S)) (t : Expo × S) (ht : t ∈ ts) (hnd : (ts.map (·.1)).Nodup) :
    lookup ts t.1 = t.2 := by
  induction ts with
  | nil => simp at ht
  | cons x xs ih =>
    obtain ⟨e, c⟩ := x
    simp only [List.map_cons, List.nodup_cons] at hnd
    rcases List.mem_cons.1 ht with rfl | ht'
    · exact lookup_cons_self _ _ _
    · have hne : e ≠ t.1 := fun he => hnd.1 (he ▸ List.mem_map_of_mem (f := (·.1)) ht')
      rw [lookup_cons_ne _ _ _ _ hne]
      exact ih ht' hnd.2

/-- coefficient extraction: the coefficient of the monomial of row `e` is the column stored under `e` -/
theorem coeff_denT_lookup (ns : List Name) (hn : ns.Nodup) (ts : List (Expo × S)) (hnd : (ts.map (·.1)).Nodup)
    (hlen : ∀ t ∈ ts, t.1.length = ns.length) (e : Expo) (he : e.length = ns.length) :
    coeff (fsN ns e) (denT ns ts) = lookup ts e := by
  induction ts with
  | nil => simp [lookup]
  | cons x xs ih =>
    obtain ⟨e0, c0⟩ := x
    simp only [List.map_cons, List.nodup_cons] at hnd
    have ih' := ih hnd.2 (fun t ht => hlen t (List.mem_cons_of_mem _ ht))
    rw [denT_cons, coeff_add, coeff_monomial, ih']
    by_cases h0 : e0 = e
    · subst h0
      rw [if_pos rfl, lookup_cons_self, lookup_not_mem xs e0 hnd.1, add_zero]
    · have hne : fsN ns e0 ≠ fsN ns e := fun h =>
        h0 (fsN_injective ns hn e0 e (hlen (e0, c0) (by simp)) he h)
      rw [if_neg hne, zero_add, lookup_cons_ne _ _ _ _ h0]

theorem isZeroExpo_zeros (ns : List Name) : isZeroExpo (ns.map fun _ => 0) = true := by
  simp [isZeroExpo]

/-- **converse of `toNumpy_den`**: a well-formed polynomial denoting the constant `C c` converts to `c` -/
theorem toNumpy_of_den_C [BEq S] [LawfulBEq S] (p : Poly S) (c : S) (hw : WF p) (h : den p = C c) :
    toNumpy p = some c := by
  have hlen : ∀ t ∈ p.terms, t.1.length = p.names.length :=
    fun t ht => hw.row_len t.1 (List.mem_map_of_mem ht)
  have hco : ∀ e : Expo, e.length = p.names.length →
      lookup p.terms e = if fsN p.names e = 0 then c else 0 := by
    intro e he
    rw [← coeff_denT_lookup p.names hw.names_nodup p.terms hw.expos_nodup hlen e he]
    show coeff _ (den p) = _
    rw [h, coeff_C]
    simp only [eq_comm]
  have hconst : isConstant p = true := by
    unfold isConstant
    rw [List.all_eq_true]
    intro t ht
    by_cases hz : isZeroExpo t.1 = true
    · simp [hz]
    · have h2 : t.2 = 0 := by
        rw [← lookup_mem p.terms t ht hw.expos_nodup, hco t.1 (hlen t ht), if_neg]
        intro h0
        apply hz
        have : t.1 = p.names.map fun _ => 0 :=
          fsN_injective p.names hw.names_nodup _ _ (hlen t ht) (by simp) (by rw [h0, fsN_zeros])
        rw [this]; exact isZeroExpo_zeros _
      simp [h2]
  unfold toNumpy
  rw [if_pos hconst, hco _ (by simp), if_pos (fsN_zeros _)]

/-- the two views of "constant" coincide on well-formed polynomials -/
theorem toNumpy_iff_den_C [BEq S] [LawfulBEq S] (p : Poly S) (c : S) (hw : WF p) :
    toNumpy p = some c ↔ den p = C c :=
  ⟨toNumpy_den p c hw, toNumpy_of_den_C p c hw⟩

/-! ### additive maps on the columns (gathers, weighted sums) -/

theorem den_mapCoef_add_const {T : Type} [CommSemiring T] (φ : S →+ T) (p : Poly S) (c : S)
    (h : den p = C c) : den (mapCoef φ p) = C (φ c) := by
  ext mono
  rw [coeff_mapCoef_add, h, coeff_C, coeff_C]
  split <;> simp

/-- generic pattern: an additive column map followed by the re-wrap's `clean`, applied to a constant, is the map
applied to the numeric value -/
theorem toNumpy_clean_mapCoef_add {T : Type} [CommSemiring T] [BEq S] [LawfulBEq S] [BEq T] [LawfulBEq T]
    (φ : S →+ T) (rc rn : Bool) (p : Poly S) (c : S) (hw : WF p) (h : toNumpy p = some c) :
    toNumpy (clean rc rn (mapCoef φ p)) = some (φ c) := by
  have hwm := WF_mapCoef φ p hw
  apply toNumpy_of_den_C _ _ (WF_clean rc rn _ hwm)
  rw [den_clean rc rn _ hwm (WF_dropZeroCols _ hwm)]
  exact den_mapCoef_add_const φ p c (toNumpy_den p c hw h)

/-! ### 3. arithmetic pattern -/
section arith
variable [BEq S] [LawfulBEq S]

theorem toNumpy_add (rc rn : Bool) (a b : Poly S) (ca cb : S) (ha : WF a) (hb : WF b)
    (h1 : toNumpy a = some ca) (h2 : toNumpy b = some cb) : toNumpy (add rc rn a b) = some (ca + cb) := by
  apply toNumpy_of_den_C _ _ (WF_add rc rn a b ha hb)
  rw [(add_den rc rn a b ha hb).1, toNumpy_den a ca ha h1, toNumpy_den b cb hb h2, map_add]

theorem toNumpy_multiply (rc rn : Bool) (a b r : Poly S) (ca cb : S) (ha : WF a) (hb : WF b)
    (h1 : toNumpy a = some ca) (h2 : toNumpy b = some cb) (hr : multiply rc rn a b = some r) :
    toNumpy r = some (ca * cb) := by
  obtain ⟨r', hr', hd, hwr⟩ := mul_den_WF rc rn a b ha hb
  rw [hr] at hr'
  injection hr' with hr'
  subst hr'
  apply toNumpy_of_den_C _ _ hwr
  rw [hd, toNumpy_den a ca ha h1, toNumpy_den b cb hb h2, map_mul]

/-- the product of two constants is always fully written (never `none`) -/
theorem toNumpy_multiply_total (rc rn : Bool) (a b : Poly S) (ca cb : S) (ha : WF a) (hb : WF b)
    (h1 : toNumpy a = some ca) (h2 : toNumpy b = some cb) :
    ∃ r, multiply rc rn a b = some r ∧ WF r ∧ toNumpy r = some (ca * cb) := by
  obtain ⟨r, hr, _, hwr⟩ := mul_den_WF rc rn a b ha hb
  exact ⟨r, hr, hwr, toNumpy_multiply rc rn a b r ca cb ha hb h1 h2 hr⟩
end arith
end key

section arithRing
variable {S : Type} [CommRing S] [BEq S] [LawfulBEq S]

theorem toNumpy_sub (rc rn : Bool) (a b : Poly S) (ca cb : S) (ha : WF a) (hb : WF b)
    (h1 : toNumpy a = some ca) (h2 : toNumpy b = some cb) : toNumpy (sub rc rn a b) = some (ca - cb) := by
  apply toNumpy_of_den_C _ _ (sub_den_WF rc rn a b ha hb).2
  rw [(sub_den_WF rc rn a b ha hb).1, toNumpy_den a ca ha h1, toNumpy_den b cb hb h2, map_sub]

theorem toNumpy_neg (rc rn : Bool) (a : Poly S) (ca : S) (ha : WF a) (h1 : toNumpy a = some ca) :
    toNumpy (neg rc rn a) = some (-ca) := by
  apply toNumpy_of_den_C _ _ (neg_den_WF rc rn a ha).2
  rw [(neg_den_WF rc rn a ha).1, toNumpy_den a ca ha h1, map_neg]
end arithRing

/-! ### 1. gather pattern, 2. linear pattern -/
section maps
variable {R : Type} [CommSemiring R] [BEq R] [LawfulBEq R]

/-- reading through an embedding at offset 0 into a column that is long enough reads the column itself -/
theorem gatherFill_embedCol {n : Nat} (m : Nat) (idx : List Nat) (N : Nat) (hN : n ≤ N) (v : Vec R n) :
    gatherFill m idx (embedCol 0 N v) = gatherFill m idx v := by
  apply Vec.ext'
  intro i
  simp only [get_gatherFill, get_embedCol]
  by_cases h : 0 < idx.getD i.val 0 ∧ idx.getD i.val 0 - 1 < n
  · rw [dif_pos ⟨h.1, by omega⟩, dif_pos h, dif_pos ⟨Nat.zero_le _, by simpa using h.2⟩]
    congr 1
  · rw [dif_neg h]
    split
    · rename_i h1
      rw [dif_neg]
      intro h2
      exact h ⟨h1.1, by simpa using h2.2⟩
    · rfl

/-- the join of a single constant operand is the constant column placed in the joined index space -/
theorem toNumpy_superOperand_single (N : Nat) (a : Arr R) (c : Vec R (size a.shape)) (hw : a.WF)
    (h : toNumpy a.poly = some c) : toNumpy (superOperand N [a] 0) = some (embedCol 0 N c) := by
  have hws : ∀ b ∈ [a], b.WF := fun b hb => by simp only [List.mem_singleton] at hb; exact hb ▸ hw
  apply toNumpy_of_den_C _ _ (WF_superOperand N [a] hws 0)
  show den (add true true (mapCoef (embedCol 0 N) a.poly) (superOperand N [] (0 + size a.shape))) = _
  rw [(add_den true true _ _ (WF_mapCoef _ _ hw) (WF_superOperand N [] (by simp) _)).1]
  have h1 := den_mapCoef_add_const (embedHom 0 N) a.poly c (toNumpy_den a.poly c hw h)
  simp only [embedHom_apply] at h1
  have h1' : den (mapCoef (embedCol 0 N) a.poly) = C (embedCol 0 N c) := h1
  rw [h1']
  simp [superOperand, den]

/-- **gather pattern**: any shape function (`gatherOp`: reshape, transpose, indexing, broadcast_to, repeat, tile,
 …) applied to a constant polynomial array is the same index gather applied to the numeric array -/
theorem toNumpy_gatherOp (rc rn : Bool) (a : Arr R) (c : Vec R (size a.shape)) (hw : a.WF)
    (h : toNumpy a.poly = some c) (outShape idx : List Nat) :
    toNumpy (gatherOp rc rn [a] outShape idx).poly = some (gatherFill (size outShape) idx c) := by
  have hws : ∀ b ∈ [a], b.WF := fun b hb => by simp only [List.mem_singleton] at hb; exact hb ▸ hw
  rw [gatherOp_poly]
  have := toNumpy_clean_mapCoef_add (gatherFillHom (size outShape) idx) rc rn
    (superOperand (totalSize [a]) [a] 0) _ (WF_superOperand _ [a] hws 0)
    (toNumpy_superOperand_single (totalSize [a]) a c hw h)
  simp only [gatherFillHom_apply] at this
  rw [gatherFill_embedCol _ _ _ (by simp) c] at this
  exact this

theorem linearCol_zero {n : Nat} (m : Nat) (W : List (List (Nat × R))) :
    linearCol m W (0 : Vec R n) = 0 := by
  apply Vec.ext'
  intro i
  simp only [linearCol, Vec.get_ofFn, Vec.get_zero]
  generalize (W.getD i.val []) = row
  induction row with
  | nil => rfl
  | cons x xs ih =>
    simp only [List.foldl_cons]
    by_cases h : x.1 < n <;> simp [h]

theorem linearCol_add' {n : Nat} (m : Nat) (W : List (List (Nat × R))) (u v : Vec R n) :
    linearCol m W (u + v) = linearCol m W u + linearCol m W v := by
  apply Vec.ext'
  intro i
  simp only [linearCol, Vec.get_ofFn, Vec.get_add]
  generalize (W.getD i.val []) = row
  have key : ∀ (a b : R),
      row.foldl (fun acc jw => if h : jw.1 < n then acc + jw.2 * (u.get ⟨jw.1, h⟩ + v.get ⟨jw.1, h⟩) else acc) (a + b)
      = row.foldl (fun acc jw => if h : jw.1 < n then acc + jw.2 * u.get ⟨jw.1, h⟩ else acc) a
        + row.foldl (fun acc jw => if h : jw.1 < n then acc + jw.2 * v.get ⟨jw.1, h⟩ else acc) b := by
    induction row with
    | nil => intro a b; rfl
    | cons x xs ih =>
      intro a b
      simp only [List.foldl_cons]
      by_cases h : x.1 < n
      · simp only [h, dite_true]
        have : a + b + x.2 * (u.get ⟨x.1, h⟩ + v.get ⟨x.1, h⟩)
            = (a + x.2 * u.get ⟨x.1, h⟩) + (b + x.2 * v.get ⟨x.1, h⟩) := by ring
        rw [this]; exact ih _ _
      · simp only [h, dite_false]; exact ih a b
  simpa using key 0 0

/-- a weighted sum of elements (sum, cumsum, mean, diff, ediff1d along any axis) is an additive map on columns -/
def linearColHomCP {n : Nat} (m : Nat) (W : List (List (Nat × R))) : Vec R n →+ Vec R m where
  toFun := linearCol m W
  map_zero' := linearCol_zero m W
  map_add' := linearCol_add' m W

/-- **linear pattern**: `sum`, `cumsum`, `mean`, `diff`, … of a constant polynomial array are numpy's on the values -/
theorem toNumpy_linearOp (rc rn : Bool) (a : Arr R) (c : Vec R (size a.shape)) (hw : a.WF)
    (h : toNumpy a.poly = some c) (outShape : List Nat) (W : List (List (Nat × R))) :
    toNumpy (linearOp rc rn a outShape W).poly = some (linearCol (size outShape) W c) :=
  toNumpy_clean_mapCoef_add (linearColHomCP (size outShape) W) rc rn a.poly c hw h
end maps

/-! ### 4. product and bilinear patterns -/
section prods
variable {R : Type} [CommSemiring R] [BEq R] [LawfulBEq R]

theorem toNumpy_mapCoef_add {S T : Type} [CommSemiring S] [CommSemiring T] [BEq S] [LawfulBEq S] [BEq T]
    [LawfulBEq T] (φ : S →+ T) (p : Poly S) (c : S) (hw : WF p) (h : toNumpy p = some c) :
    toNumpy (mapCoef φ p) = some (φ c) :=
  toNumpy_of_den_C _ _ (WF_mapCoef φ p hw) (den_mapCoef_add_const φ p c (toNumpy_den p c hw h))

/-- the loop of `prodOp`, for any step function that multiplies the accumulator by a gathered copy of `a` -/
theorem prod_fold (rc rn : Bool) {N m : Nat} (a : Poly (Vec R N)) (c : Vec R N) (hw : WF a)
    (h : toNumpy a = some c) (f : Option (Poly (Vec R m)) → List Nat → Option (Poly (Vec R m)))
    (hf : ∀ s g, f (some s) g = multiply rc rn s (mapCoef (gatherFill m g) a)) (groups : List (List Nat)) :
    ∀ (s : Poly (Vec R m)) (v : Vec R m), WF s → toNumpy s = some v →
      ∃ r, groups.foldl f (some s) = some r ∧ WF r ∧
        toNumpy r = some (groups.foldl (fun acc g => acc * gatherFill m g c) v) := by
  induction groups with
  | nil => intro s v hs hv; exact ⟨s, rfl, hs, hv⟩
  | cons g gs ih =>
    intro s v hs hv
    obtain ⟨r, hr, hwr, hnr⟩ := toNumpy_multiply_total rc rn s (mapCoef (gatherFill m g) a) v
      (gatherFill m g c) hs (WF_mapCoef _ _ hw) hv (toNumpy_mapCoef_add (gatherFillHom m g) a c hw h)
    simp only [List.foldl_cons, hf, hr]
    exact ih r _ hwr hnr

/-- **product pattern**: `prod` along axes of a constant array is fully written and is the product of the
gathered numeric columns (`result_i = Π_t c[g(i,t)]`, factor 0 where the group has no entry) -/
theorem toNumpy_prodOp (rc rn : Bool) (a : Arr R) (c : Vec R (size a.shape)) (hw : a.WF)
    (h : toNumpy a.poly = some c) (outShape : List Nat) (groups : List (List Nat)) :
    ∃ p : Poly (Vec R (size outShape)), prodOp rc rn a outShape groups = some ⟨outShape, p⟩ ∧ WF p ∧
      toNumpy p = some (groups.foldl (fun acc g => acc * gatherFill (size outShape) g c) 1) := by
  have h1 := den_one_WF (S := Vec R (size outShape)) a.poly.names hw.names_nodup
  obtain ⟨r, hr, hwr, hnr⟩ := prod_fold rc rn a.poly c hw h
    (fun acc g => match acc with
      | none => none
      | some s => multiply rc rn s (mapCoef (gatherFill (size outShape) g) a.poly))
    (fun _ _ => rfl) groups _ 1 h1.2 (toNumpy_of_den_C _ _ h1.2 (by rw [h1.1]; rfl))
  refine ⟨r, ?_, hwr, hnr⟩
  unfold prodOp
  simp only
  refine (congrArg (Option.map fun p => (⟨outShape, p⟩ : Arr R)) (Eq.trans ?_ hr))
  congr 1
  funext acc g
  cases acc <;> rfl

/-- the loop of `bilinearOp` -/
theorem bilinear_fold (rc rn : Bool) {N M m : Nat} (a : Poly (Vec R N)) (b : Poly (Vec R M)) (ca : Vec R N)
    (cb : Vec R M) (hwa : WF a) (hwb : WF b) (ha : toNumpy a = some ca) (hb : toNumpy b = some cb)
    (f : Option (Poly (Vec R m)) → List Nat × List Nat → Option (Poly (Vec R m)))
    (hf : ∀ s p, f (some s) p =
      (multiply rc rn (mapCoef (gatherFill m p.1) a) (mapCoef (gatherFill m p.2) b)).map fun t => add rc rn s t)
    (pairs : List (List Nat × List Nat)) :
    ∀ (s : Poly (Vec R m)) (v : Vec R m), WF s → toNumpy s = some v →
      ∃ r, pairs.foldl f (some s) = some r ∧ WF r ∧
        toNumpy r = some (pairs.foldl (fun acc p => acc + gatherFill m p.1 ca * gatherFill m p.2 cb) v) := by
  induction pairs with
  | nil => intro s v hs hv; exact ⟨s, rfl, hs, hv⟩
  | cons p ps ih =>
    intro s v hs hv
    obtain ⟨t, ht, hwt, hnt⟩ := toNumpy_multiply_total rc rn (mapCoef (gatherFill m p.1) a)
      (mapCoef (gatherFill m p.2) b) (gatherFill m p.1 ca) (gatherFill m p.2 cb)
      (WF_mapCoef _ _ hwa) (WF_mapCoef _ _ hwb)
      (toNumpy_mapCoef_add (gatherFillHom m p.1) a ca hwa ha) (toNumpy_mapCoef_add (gatherFillHom m p.2) b cb hwb hb)
    simp only [List.foldl_cons, hf, ht, Option.map_some]
    exact ih (add rc rn s t) _ (WF_add rc rn s t hs hwt) (toNumpy_add rc rn s t _ _ hs hwt hv hnt)

/-- **bilinear pattern**: `inner`, `outer`, `matmul`, `dot` of constant arrays are fully written and are the sum of
products of the gathered numeric columns (`result_i = Σ_t ca[ia(i,t)] * cb[ib(i,t)]`) -/
theorem toNumpy_bilinearOp (rc rn : Bool) (a b : Arr R) (ca : Vec R (size a.shape)) (cb : Vec R (size b.shape))
    (hwa : a.WF) (hwb : b.WF) (ha : toNumpy a.poly = some ca) (hb : toNumpy b.poly = some cb)
    (outShape : List Nat) (pairs : List (List Nat × List Nat)) :
    ∃ p : Poly (Vec R (size outShape)), bilinearOp rc rn a b outShape pairs = some ⟨outShape, p⟩ ∧ WF p ∧
      toNumpy p = some (pairs.foldl
        (fun acc p => acc + gatherFill (size outShape) p.1 ca * gatherFill (size outShape) p.2 cb) 0) := by
  have hz : WF ({ names := [0], terms := [([0], 0)] } : Poly (Vec R (size outShape))) := WF_zeroPoly
  obtain ⟨r, hr, hwr, hnr⟩ := bilinear_fold rc rn a.poly b.poly ca cb hwa hwb ha hb
    (fun acc p => match acc with
      | none => none
      | some s =>
        match multiply rc rn (mapCoef (gatherFill (size outShape) p.1) a.poly)
            (mapCoef (gatherFill (size outShape) p.2) b.poly) with
        | none => none
        | some t => some (add rc rn s t))
    (fun s p => by
      dsimp only
      cases multiply rc rn (mapCoef (gatherFill (size outShape) p.1) a.poly)
        (mapCoef (gatherFill (size outShape) p.2) b.poly) <;> rfl) pairs _ 0 hz (toNumpy_of_den_C _ _ hz (by simp [den]))
  refine ⟨r, ?_, hwr, hnr⟩
  unfold bilinearOp
  simp only
  refine (congrArg (Option.map fun p => (⟨outShape, p⟩ : Arr R)) (Eq.trans ?_ hr))
  congr 1
  funext acc g
  cases acc with
  | none => rfl
  | some s => simp only []; split <;> simp_all

/-- entry `i` of the value computed by the product / bilinear patterns -/
theorem get_foldl_mul {α : Type} {m : Nat} (F : α → Vec R m) (l : List α) (v : Vec R m) (i : Fin m) :
    (l.foldl (fun acc x => acc * F x) v).get i = l.foldl (fun acc x => acc * (F x).get i) (v.get i) := by
  induction l generalizing v with
  | nil => rfl
  | cons x xs ih => simp only [List.foldl_cons, ih, Vec.get_mul]

theorem get_foldl_add_mul {α : Type} {m : Nat} (F G : α → Vec R m) (l : List α) (v : Vec R m) (i : Fin m) :
    (l.foldl (fun acc x => acc + F x * G x) v).get i
      = l.foldl (fun acc x => acc + (F x).get i * (G x).get i) (v.get i) := by
  induction l generalizing v with
  | nil => rfl
  | cons x xs ih => simp only [List.foldl_cons, ih, Vec.get_add, Vec.get_mul]
end prods

/-! ### 5. comparison pattern -/
section compare
variable {S : Type} [CommSemiring S]

/-- the rows of a constant polynomial: an all-zero exponent row carries `c`, every other column is zero; without an
all-zero row the value is 0 -/
def ConstRowsOf (p : Poly S) (c : S) : Prop :=
  (∀ t ∈ p.terms, (isZeroExpo t.1 = true ∧ t.2 = c) ∨ (isZeroExpo t.1 = false ∧ t.2 = 0)) ∧
  ((∀ t ∈ p.terms, isZeroExpo t.1 = false) → c = 0)

theorem constRowsOf_toNumpy [BEq S] [LawfulBEq S] (p : Poly S) (c : S) (hw : WF p) (h : toNumpy p = some c) :
    ConstRowsOf p c := by
  unfold toNumpy at h
  split at h
  · rename_i hc
    injection h with h
    have hzrow : ∀ t ∈ p.terms, isZeroExpo t.1 = true → t.1 = p.names.map fun _ => 0 := by
      intro t ht hz
      have h' := isZeroExpo_eq_replicate t.1 hz
      rw [hw.row_len t.1 (List.mem_map_of_mem ht)] at h'
      rw [h', List.map_const']
    refine ⟨?_, ?_⟩
    · intro t ht
      by_cases hz : isZeroExpo t.1 = true
      · left
        refine ⟨hz, ?_⟩
        rw [← h, ← hzrow t ht hz]
        exact (lookup_mem p.terms t ht hw.expos_nodup).symm
      · right
        have := (List.all_eq_true.1 hc) t ht
        simp only [Bool.or_eq_true, beq_iff_eq] at this
        exact ⟨by simpa using hz, this.resolve_left hz⟩
    · intro hno
      rw [← h]
      apply lookup_not_mem
      intro hmem
      obtain ⟨t, ht, hte⟩ := List.mem_map.1 hmem
      have := hno t ht
      rw [hte, isZeroExpo_zeros] at this
      exact absurd this (by simp)
  · simp at h
end compare

section compareArr
variable {R : Type} [CommSemiring R] [BEq R] [LawfulBEq R] {n : Nat}

theorem colAt_getD_lt (p : Poly (Vec R n)) (i : Fin n) (j : Nat) (hj : j < p.terms.length) :
    (colAt p i).getD j 0 = (p.terms[j]).2.get i := by
  simp [colAt, List.getD_eq_getElem?_getD, hj]

theorem colAt_getD_ge (p : Poly (Vec R n)) (i : Fin n) (j : Nat) (hj : ¬ j < p.terms.length) :
    (colAt p i).getD j 0 = 0 := by
  have : (colAt p i).length ≤ j := by simp only [colAt, List.length_map]; omega
  simp [List.getD_eq_getElem?_getD, List.getElem?_eq_none this]

/-- two constants stored over the same rows: at every storage index the two columns either hold the two values or
are both zero -/
theorem colAt_pair (p q : Poly (Vec R n)) (cp cq : Vec R n) (hp : ConstRowsOf p cp) (hq : ConstRowsOf q cq)
    (hE : p.expos = q.expos) (i : Fin n) (j : Nat) :
    ((colAt p i).getD j 0 = cp.get i ∧ (colAt q i).getD j 0 = cq.get i) ∨
    ((colAt p i).getD j 0 = 0 ∧ (colAt q i).getD j 0 = 0) := by
  have hl : p.terms.length = q.terms.length := by simpa [Poly.expos] using congrArg List.length hE
  by_cases hj : j < p.terms.length
  · have hj' : j < q.terms.length := hl ▸ hj
    have e1 : (p.terms[j]).1 = (q.terms[j]).1 := by
      have := List.getElem_of_eq hE (by simpa [Poly.expos] using hj)
      simpa [Poly.expos] using this
    rw [colAt_getD_lt p i j hj, colAt_getD_lt q i j hj']
    rcases hp.1 _ (List.getElem_mem hj) with ⟨hz, hc⟩ | ⟨hz, hc⟩ <;>
      rcases hq.1 _ (List.getElem_mem hj') with ⟨hz', hc'⟩ | ⟨hz', hc'⟩
    · left; rw [hc, hc']; exact ⟨rfl, rfl⟩
    · rw [e1, hz'] at hz; exact absurd hz (by simp)
    · rw [e1, hz'] at hz; exact absurd hz (by simp)
    · right; rw [hc, hc']; simp
  · right
    exact ⟨colAt_getD_ge p i j hj, colAt_getD_ge q i j (hl ▸ hj)⟩

/-- storage row 0 of both columns holds the two values, provided an all-zero row (if any) is stored first -/
theorem colAt_head (p q : Poly (Vec R n)) (cp cq : Vec R n) (hp : ConstRowsOf p cp) (hq : ConstRowsOf q cq)
    (hE : p.expos = q.expos)
    (hhead : ∀ e ∈ p.expos, isZeroExpo e = true → ∃ e0 es, p.expos = e0 :: es ∧ isZeroExpo e0 = true)
    (i : Fin n) : (colAt p i).getD 0 0 = cp.get i ∧ (colAt q i).getD 0 0 = cq.get i := by
  by_cases hex : ∃ t ∈ p.terms, isZeroExpo t.1 = true
  · obtain ⟨t, ht, hz⟩ := hex
    obtain ⟨e0, es, hes, hz0⟩ := hhead t.1 (List.mem_map_of_mem ht) hz
    have hpe := hes
    simp only [Poly.expos] at hpe
    obtain ⟨t0, ts, hpt, ht0, _⟩ := List.map_eq_cons_iff.1 hpe
    have hqe : q.terms.map (·.1) = e0 :: es := by rw [← hes, hE]; rfl
    obtain ⟨u0, us, hqt, hu0, _⟩ := List.map_eq_cons_iff.1 hqe
    have hp0 : 0 < p.terms.length := by rw [hpt]; simp
    have hq0 : 0 < q.terms.length := by rw [hqt]; simp
    rw [colAt_getD_lt p i 0 hp0, colAt_getD_lt q i 0 hq0]
    have e1 : p.terms[0] = t0 := by simp [hpt]
    have e2 : q.terms[0] = u0 := by simp [hqt]
    rw [e1, e2]
    constructor
    · rcases hp.1 t0 (by rw [hpt]; simp) with ⟨_, hc⟩ | ⟨hz', _⟩
      · rw [hc]
      · rw [ht0, hz0] at hz'; exact absurd hz' (by simp)
    · rcases hq.1 u0 (by rw [hqt]; simp) with ⟨_, hc⟩ | ⟨hz', _⟩
      · rw [hc]
      · rw [hu0, hz0] at hz'; exact absurd hz' (by simp)
  · have hnp : ∀ t ∈ p.terms, isZeroExpo t.1 = false := by
      intro t ht
      by_contra hne
      exact hex ⟨t, ht, by simpa using hne⟩
    have hnq : ∀ t ∈ q.terms, isZeroExpo t.1 = false := by
      intro t ht
      have : t.1 ∈ p.expos := by rw [hE]; exact List.mem_map_of_mem ht
      obtain ⟨t', ht', hte⟩ := List.mem_map.1 this
      rw [← hte]; exact hnp t' ht'
    have hcp : cp = 0 := hp.2 hnp
    have hcq : cq = 0 := hq.2 hnq
    rcases colAt_pair p q cp cq hp hq hE i 0 with h | h
    · exact h
    · rw [h.1, h.2, hcp, hcq]; simp

/-- the ordering walk on two constants stored over the same rows decides by the two values, for every visiting
order of the storage rows, every initial-row convention and every relation -/
theorem cmpWalk_const (p q : Poly (Vec R n)) (cp cq : Vec R n) (hp : ConstRowsOf p cp) (hq : ConstRowsOf q cq)
    (hE : p.expos = q.expos)
    (hhead : ∀ e ∈ p.expos, isZeroExpo e = true → ∃ e0 es, p.expos = e0 :: es ∧ isZeroExpo e0 = true)
    (order : List Nat) (rel : R → R → Bool) (i : Fin n) :
    cmpWalk order (rel ((colAt p i).headD 0) ((colAt q i).headD 0)) rel 0 (colAt p i) (colAt q i)
      = rel (cp.get i) (cq.get i) := by
  rcases cmpWalk_cases order (rel ((colAt p i).headD 0) ((colAt q i).headD 0)) rel 0 (colAt p i) (colAt q i)
    with ⟨_, heq⟩ | ⟨_, j, _, _, hd, _, heq⟩
  · rw [heq, headD_eq_getD_zero, headD_eq_getD_zero]
    obtain ⟨h1, h2⟩ := colAt_head p q cp cq hp hq hE hhead i
    rw [h1, h2]
  · rw [heq]
    rcases colAt_pair p q cp cq hp hq hE i j with h | h
    · rw [h.1, h.2]
    · rw [h.1, h.2] at hd; exact absurd rfl hd
end compareArr

/-! ### the aligned pair of two constants -/
section aligned
variable {S : Type} [CommSemiring S]

theorem expos_alignPair_snd_cp (a b : Poly S) :
    (alignPair a b).2.expos = sortDedup expoLt ((alignIndet (commonNames a b) a).expos ++
      (alignIndet (commonNames a b) b).expos) := expos_alignExpo _ _

theorem WF_alignPair_snd_cp (a b : Poly S) (ha : WF a) (hb : WF b) : WF (alignPair a b).2 := by
  have h1 := WF_alignPair_fst a b ha hb
  refine ⟨h1.names_nodup, ?_, ?_⟩
  · rw [expos_alignPair_snd_cp, ← expos_alignPair_fst]; exact h1.expos_nodup
  · intro e he
    rw [expos_alignPair_snd_cp, ← expos_alignPair_fst] at he
    exact h1.row_len e he

theorem den_alignPair_snd_cp (a b : Poly S) (_ha : WF a) (hb : WF b) : den (alignPair a b).2 = den b := by
  have hc := commonNames_nodup a b
  have hsb : ∀ n ∈ b.names, n ∈ commonNames a b := fun n h => (mem_commonNames a b n).2 (Or.inr h)
  have wb := WF_alignIndet (commonNames a b) b hb hc hsb
  have db := den_alignIndet (commonNames a b) b hb.names_nodup hc
    (fun t _ n hn => expoAt_not_mem b.names t.1 n (fun h => hn (hsb n h)))
  rw [← db]
  exact den_alignExpo _ _ wb.expos_nodup
    (nodup_of_sortedLt expoLt_strictTotal _ (sortedLt_sortDedup expoLt_strictTotal _))
    (fun e h => (mem_sortDedup expoLt_strictTotal e _).2 (List.mem_append.2 (Or.inr h)))

/-- nothing is below an all-zero row of the same length in `numpy.unique` row order -/
theorem expoLt_zero_false : ∀ (e z : Expo), e.length = z.length → isZeroExpo z = true → expoLt e z = false
  | [], [], _, _ => rfl
  | [], _ :: _, h, _ => by simp at h
  | _ :: _, [], h, _ => by simp at h
  | x :: xs, y :: ys, h, hz => by
    simp only [isZeroExpo, List.all_cons, Bool.and_eq_true, beq_iff_eq] at hz
    have ih := expoLt_zero_false xs ys (by simpa using h) hz.2
    simp only [expoLt, hz.1, Nat.not_lt_zero, if_false, ih]
    split <;> rfl

/-- in the sorted common rows an all-zero row, if present, is stored first -/
theorem alignPair_head (a b : Poly S) (ha : WF a) (hb : WF b) :
    ∀ e ∈ (alignPair a b).1.expos, isZeroExpo e = true →
      ∃ e0 es, (alignPair a b).1.expos = e0 :: es ∧ isZeroExpo e0 = true := by
  have hw := WF_alignPair_fst a b ha hb
  have hs : SortedLt expoLt (alignPair a b).1.expos := by
    rw [expos_alignPair_fst]; exact sortedLt_sortDedup expoLt_strictTotal _
  intro e he hz
  generalize hL : (alignPair a b).1.expos = L at hs he
  have hlen : ∀ e' ∈ L, e'.length = (alignPair a b).1.names.length := fun e' h => hw.row_len e' (hL ▸ h)
  cases L with
  | nil => simp at he
  | cons x xs =>
    refine ⟨x, xs, rfl, ?_⟩
    rcases List.mem_cons.1 he with rfl | he'
    · exact hz
    · have hlt := (List.pairwise_cons.1 hs).1 e he'
      rw [expoLt_zero_false x e (by rw [hlen x (by simp), hlen e he]) hz] at hlt
      exact absurd hlt (by simp)
end aligned

section compareConst
variable {R : Type} [CommSemiring R] [BEq R] [LawfulBEq R] {n : Nat}

/-- **comparison pattern**: `greater`, `greater_equal`, `less`, `less_equal` on constant polynomial arrays compare
the numeric values element by element, whatever `sort_graded` / `sort_reverse` and whatever the order `lt` -/
theorem compareArr_const (lt : R → R → Bool) (op : CmpOp) (graded reverse : Bool) (a b : Poly (Vec R n))
    (ca cb : Vec R n) (ha : WF a) (hb : WF b) (h1 : toNumpy a = some ca) (h2 : toNumpy b = some cb) (i : Fin n) :
    (compareArr lt op graded reverse a b).get i = op.rel lt (ca.get i) (cb.get i) := by
  have w1 := WF_alignPair_fst a b ha hb
  have w2 := WF_alignPair_snd_cp a b ha hb
  have c1 := constRowsOf_toNumpy _ ca w1
    (toNumpy_of_den_C _ _ w1 (by rw [den_alignPair_fst a b ha hb, toNumpy_den a ca ha h1]))
  have c2 := constRowsOf_toNumpy _ cb w2
    (toNumpy_of_den_C _ _ w2 (by rw [den_alignPair_snd_cp a b ha hb, toNumpy_den b cb hb h2]))
  have hE : (alignPair a b).1.expos = (alignPair a b).2.expos := by
    rw [expos_alignPair_fst, expos_alignPair_snd_cp]
  simp only [compareArr, Vec.get_ofFn]
  exact cmpWalk_const _ _ ca cb c1 c2 hE (alignPair_head a b ha hb) _ (op.rel lt) i

/-- `equal` on constant polynomial arrays is `==` on the numeric values, element by element -/
theorem equalArr_const (a b : Poly (Vec R n)) (ca cb : Vec R n) (ha : WF a) (hb : WF b)
    (h1 : toNumpy a = some ca) (h2 : toNumpy b = some cb) (i : Fin n) :
    (equalArr a b).get i = (ca.get i == cb.get i) := by
  have w1 := WF_alignPair_fst a b ha hb
  have w2 := WF_alignPair_snd_cp a b ha hb
  have c1 := constRowsOf_toNumpy _ ca w1
    (toNumpy_of_den_C _ _ w1 (by rw [den_alignPair_fst a b ha hb, toNumpy_den a ca ha h1]))
  have c2 := constRowsOf_toNumpy _ cb w2
    (toNumpy_of_den_C _ _ w2 (by rw [den_alignPair_snd_cp a b ha hb, toNumpy_den b cb hb h2]))
  have hE : (alignPair a b).1.expos = (alignPair a b).2.expos := by
    rw [expos_alignPair_fst, expos_alignPair_snd_cp]
  have hl : (colAt (alignPair a b).1 i).length = (colAt (alignPair a b).2 i).length := by
    have := congrArg List.length hE
    simpa [Poly.expos, colAt] using this
  simp only [equalArr, Vec.get_ofFn]
  rw [Bool.eq_iff_iff, equal_zip_iff (z := (0 : R)) _ _ hl, beq_iff_eq]
  constructor
  · intro hall
    obtain ⟨e1, e2⟩ := colAt_head _ _ ca cb c1 c2 hE (alignPair_head a b ha hb) i
    by_cases h0 : 0 < (colAt (alignPair a b).1 i).length
    · rw [← e1, ← e2]; exact hall 0 h0
    · have hlen0 : ¬ 0 < (alignPair a b).1.terms.length := by simpa [colAt] using h0
      have hlen0' : ¬ 0 < (alignPair a b).2.terms.length := by
        have := hl; simp only [colAt, List.length_map] at this; omega
      rw [← e1, ← e2, colAt_getD_ge _ i 0 hlen0, colAt_getD_ge _ i 0 hlen0']
  · intro heq j _
    rcases colAt_pair _ _ ca cb c1 c2 hE i j with h | h
    · rw [h.1, h.2, heq]
    · rw [h.1, h.2]
theorem any_ne_eq_not_all_eq : ∀ (c1 c2 : List R),
    (List.zipWith (fun x y => x != y) c1 c2).any id = !(List.zipWith (fun x y => x == y) c1 c2).all id
  | [], _ => by simp
  | _ :: _, [] => by simp
  | x :: xs, y :: ys => by
    have ih := any_ne_eq_not_all_eq xs ys
    simp only [List.zipWith_cons_cons, List.any_cons, List.all_cons, id, Bool.not_and]
    rw [ih]
    rfl

/-- `not_equal` on constant polynomial arrays is `!=` on the numeric values -/
theorem notEqualArr_const (a b : Poly (Vec R n)) (ca cb : Vec R n) (ha : WF a) (hb : WF b)
    (h1 : toNumpy a = some ca) (h2 : toNumpy b = some cb) (i : Fin n) :
    (notEqualArr a b).get i = (ca.get i != cb.get i) := by
  have := equalArr_const a b ca cb ha hb h1 h2 i
  simp only [equalArr, Vec.get_ofFn] at this
  simp only [notEqualArr, Vec.get_ofFn]
  rw [any_ne_eq_not_all_eq, this]
  rfl
end compareConst

/-- non-vacuity: a constant stored with a retained all-zero column plus a constant over another name -/
example : toNumpy (add false false ({ names := [0], terms := [([0], 2), ([3], 0)] } : Poly Int)
    ({ names := [1], terms := [([0], 5)] } : Poly Int)) = some 7 := by decide

end Np

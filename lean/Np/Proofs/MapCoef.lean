import Np.Proofs.Multiply
import Np.Proofs.Vec
import Mathlib.Algebra.MvPolynomial.Eval
open MvPolynomial
namespace Np
variable {S T : Type} [CommSemiring S] [CommSemiring T]

/-- one lemma transports the whole algebra through element extraction, broadcasting and shape functions -/
theorem den_mapCoef (φ : S →+* T) (p : Poly S) : den (mapCoef φ p) = MvPolynomial.map φ (den p) := by
  simp only [den, mapCoef]
  generalize p.terms = ts
  induction ts with
  | nil => simp
  | cons t ts ih => simp [ih, map_monomial]

/-- the polynomial sitting at array position `i` -/
noncomputable def denAt {R : Type} [CommSemiring R] {n : Nat} (p : Poly (Vec R n)) (i : Fin n) :
    MvPolynomial Name R := den (mapCoef (Vec.evalAt i) p)

/-- C09 in one line: a function that applies the same index map to every column moves whole elements -/
theorem gather_denAt {R : Type} [CommSemiring R] {n m : Nat} (σ : Fin n → Fin m) (p : Poly (Vec R m))
    (i : Fin n) : denAt (mapCoef (Vec.gatherHom σ) p) i = denAt p (σ i) := by
  simp only [denAt, mapCoef, List.map_map]
  congr 2
  apply List.map_congr_left; intro t _
  simp [Function.comp]
end Np

namespace Np
/-- C01 per element: for arrays with `n` elements, position `i` of the sum is the sum of the positions -/
theorem add_denAt {R : Type} [CommSemiring R] [BEq R] [LawfulBEq R] {n : Nat} (rc rn : Bool)
    (a b : Poly (Vec R n)) (ha : WF a) (hb : WF b) (i : Fin n) :
    denAt (add rc rn a b) i = denAt a i + denAt b i := by
  simp only [denAt, den_mapCoef, (add_den rc rn a b ha hb).1, map_add]

theorem mul_denAt {R : Type} [CommSemiring R] [BEq R] [LawfulBEq R] {n : Nat} (rc rn : Bool)
    (a b : Poly (Vec R n)) (ha : WF a) (hb : WF b) (i : Fin n) :
    ∃ r, multiply rc rn a b = some r ∧ denAt r i = denAt a i * denAt b i := by
  obtain ⟨r, hr, hd⟩ := mul_den rc rn a b ha hb
  exact ⟨r, hr, by simp only [denAt, den_mapCoef, hd, map_mul]⟩
end Np

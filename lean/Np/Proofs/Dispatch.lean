import Np.Proofs.Den
open MvPolynomial
namespace Np
variable {S : Type} [CommSemiring S]

/-- representation invariant (C03, structural part) -/
structure WF (p : Poly S) : Prop where
  names_nodup : p.names.Nodup
  expos_nodup : p.expos.Nodup
  row_len : ∀ e ∈ p.expos, e.length = p.names.length

/-! scatter is injective on rows of the right length when no name is lost -/
theorem expoAt_eq_getD (ns : List Name) (hn : ns.Nodup) (e : Expo) (he : e.length = ns.length) (j : Nat)
    (hj : j < ns.length) : expoAt ns e ns[j] = e.getD j 0 := by
  induction ns generalizing e j with
  | nil => simp at hj
  | cons n ns ih =>
    cases e with
    | nil => simp at he
    | cons x xs =>
      simp only [List.nodup_cons] at hn
      cases j with
      | zero => simp [expoAt]
      | succ j =>
        simp only [List.length_cons, Nat.add_lt_add_iff_right] at hj
        have hne : (n == ns[j]) = false := by
          have : n ≠ ns[j] := fun h => hn.1 (h ▸ List.getElem_mem hj)
          simpa using this
        simp only [List.getElem_cons_succ, expoAt, hne, List.getD_cons_succ]
        exact ih hn.2 xs (by simpa using he) j hj

theorem row_ext (ns : List Name) (hn : ns.Nodup) (e1 e2 : Expo) (h1 : e1.length = ns.length)
    (h2 : e2.length = ns.length) (h : ∀ n ∈ ns, expoAt ns e1 n = expoAt ns e2 n) : e1 = e2 := by
  apply List.ext_getElem (by omega)
  intro j hj1 hj2
  have hj : j < ns.length := by omega
  have := h ns[j] (List.getElem_mem hj)
  rw [expoAt_eq_getD ns hn e1 h1 j hj, expoAt_eq_getD ns hn e2 h2 j hj] at this
  simpa [List.getD_eq_getElem?_getD, List.getElem?_eq_getElem hj1, List.getElem?_eq_getElem hj2] using this

theorem expoAt_scatter (names common : List Name) (e : Expo) (n : Name) (hn : n ∈ common)
    (hc : common.Nodup) : expoAt common (scatter names common e) n = expoAt names e n := by
  have := fsN_map common hc (expoAt names e) n
  rw [← scatter, fsN_apply common hc] at this
  simpa [hn] using this

theorem scatter_injective (names common : List Name) (hn : names.Nodup) (hc : common.Nodup)
    (hsub : ∀ n ∈ names, n ∈ common) (e1 e2 : Expo) (h1 : e1.length = names.length)
    (h2 : e2.length = names.length) (h : scatter names common e1 = scatter names common e2) : e1 = e2 := by
  apply row_ext names hn e1 e2 h1 h2
  intro n hnn
  rw [← expoAt_scatter names common e1 n (hsub n hnn) hc, ← expoAt_scatter names common e2 n (hsub n hnn) hc, h]

theorem WF_alignIndet (common : List Name) (p : Poly S) (hw : WF p) (hc : common.Nodup)
    (hsub : ∀ n ∈ p.names, n ∈ common) : WF (alignIndet common p) := by
  have hex : (alignIndet common p).expos = p.expos.map (scatter p.names common) := by
    simp [Poly.expos, alignIndet, List.map_map, Function.comp_def]
  refine ⟨hc, ?_, ?_⟩
  · rw [hex]
    apply List.Nodup.map_on _ hw.expos_nodup
    intro e1 h1 e2 h2 heq
    exact scatter_injective p.names common hw.names_nodup hc hsub e1 e2 (hw.row_len e1 h1) (hw.row_len e2 h2) heq
  · intro e he
    rw [hex] at he
    simp only [List.mem_map] at he
    obtain ⟨t, _, rfl⟩ := he
    simp [scatter, alignIndet]

/-! ### the common layout -/

theorem commonNames_nodup (a b : Poly S) : (commonNames a b).Nodup :=
  nodup_of_sortedLt natLt_strictTotal _ (sortedLt_sortDedup natLt_strictTotal _)

theorem mem_commonNames (a b : Poly S) (n : Name) : n ∈ commonNames a b ↔ n ∈ a.names ∨ n ∈ b.names := by
  simp [commonNames, mem_sortDedup natLt_strictTotal]

theorem den_zip_add (ns : List Name) (es : List Expo) (f g : Expo → S) :
    denT ns (List.zipWith (fun x y => (x.1, x.2 + y.2)) (es.map fun e => (e, f e)) (es.map fun e => (e, g e)))
      = denT ns (es.map fun e => (e, f e)) + denT ns (es.map fun e => (e, g e)) := by
  induction es with
  | nil => simp
  | cons e es ih =>
    simp only [List.map_cons, List.zipWith_cons_cons, denT_cons, ih, map_add]
    abel

/-- `simple_dispatch(numpy.add, (a, b))` before cleaning: the aligned column-wise sum denotes the sum -/
theorem den_alignPair_add (a b : Poly S) (ha : WF a) (hb : WF b) :
    den (zipCols (· + ·) (alignPair a b).1 (alignPair a b).2) = den a + den b := by
  have hc := commonNames_nodup a b
  have hsa : ∀ n ∈ a.names, n ∈ commonNames a b := fun n h => (mem_commonNames a b n).2 (Or.inl h)
  have hsb : ∀ n ∈ b.names, n ∈ commonNames a b := fun n h => (mem_commonNames a b n).2 (Or.inr h)
  have wa := WF_alignIndet (commonNames a b) a ha hc hsa
  have wb := WF_alignIndet (commonNames a b) b hb hc hsb
  have da := den_alignIndet (commonNames a b) a ha.names_nodup hc
    (fun t _ n hn => expoAt_not_mem a.names t.1 n (fun h => hn (hsa n h)))
  have db := den_alignIndet (commonNames a b) b hb.names_nodup hc
    (fun t _ n hn => expoAt_not_mem b.names t.1 n (fun h => hn (hsb n h)))
  set a' := alignIndet (commonNames a b) a with ha'
  set b' := alignIndet (commonNames a b) b with hb'
  set es := sortDedup expoLt (a'.expos ++ b'.expos) with hes
  have hesnd : es.Nodup := nodup_of_sortedLt expoLt_strictTotal _ (sortedLt_sortDedup expoLt_strictTotal _)
  have hmem : ∀ e, e ∈ es ↔ e ∈ a'.expos ∨ e ∈ b'.expos := by
    intro e; simp [hes, mem_sortDedup expoLt_strictTotal]
  have ea := den_alignExpo es a' wa.expos_nodup hesnd (fun e h => (hmem e).2 (Or.inl h))
  have eb := den_alignExpo es b' wb.expos_nodup hesnd (fun e h => (hmem e).2 (Or.inr h))
  have : alignPair a b = (alignExpo es a', alignExpo es b') := rfl
  rw [this]
  simp only [den, zipCols, alignExpo] at ea eb ⊢
  have hn : a'.names = b'.names := rfl
  rw [den_zip_add, ea, hn, eb]
  show den a' + den b' = _
  rw [da, db]
  rfl

/-! ### cleaning keeps the denotation -/

theorem filter_nodup_sub (l : List Name) (q : Name → Bool) (h : l.Nodup) : (l.filter q).Nodup :=
  h.sublist List.filter_sublist

theorem usedNames_nodup (p : Poly S) (hw : WF p) : (usedNames p).Nodup := by
  unfold usedNames
  split
  · exact hw.names_nodup.sublist (List.take_sublist 1 p.names)
  · exact filter_nodup_sub _ _ hw.names_nodup

/-- a name that is not kept has exponent zero in every row -/
theorem usedNames_keep (p : Poly S) (t : Expo × S) (ht : t ∈ p.terms) (n : Name)
    (hn : n ∉ usedNames p) : expoAt p.names t.1 n = 0 := by
  by_cases hmem : n ∈ p.names
  · have hfil : n ∉ p.names.filter (occurs p) := by
      unfold usedNames at hn
      split at hn
      · rename_i heq
        rw [List.isEmpty_iff] at heq
        rw [heq]; simp
      · exact hn
    simp only [List.mem_filter, hmem, true_and, occurs, List.any_eq_true, bne_iff_ne, ne_eq, not_exists,
      not_and, not_not] at hfil
    exact hfil t ht
  · exact expoAt_not_mem p.names t.1 n hmem

theorem den_dropUnusedNames (p : Poly S) (hw : WF p) : den (dropUnusedNames p) = den p :=
  den_alignIndet (usedNames p) p hw.names_nodup (usedNames_nodup p hw)
    (fun t ht n hn => usedNames_keep p t ht n hn)

theorem den_clean [BEq S] [LawfulBEq S] (rc rn : Bool) (p : Poly S) (hw : WF p) (hw' : WF (dropZeroCols p)) :
    den (clean rc rn p) = den p := by
  unfold clean
  cases rc <;> cases rn <;> simp [den_dropZeroCols, den_dropUnusedNames, hw, hw']


theorem WF_dropZeroCols [BEq S] [LawfulBEq S] (p : Poly S) (hw : WF p) : WF (dropZeroCols p) := by
  unfold dropZeroCols
  split
  · refine ⟨hw.names_nodup, by simp [Poly.expos], ?_⟩
    intro e he
    simp only [Poly.expos, List.map_cons, List.map_nil, List.mem_singleton] at he
    simp [he]
  · rename_i kept heq
    have hsub : (p.terms.filter fun t => !(t.2 == 0) || isZeroExpo t.1).Sublist p.terms := List.filter_sublist
    refine ⟨hw.names_nodup, ?_, ?_⟩
    · exact hw.expos_nodup.sublist (hsub.map _)
    · intro e he
      exact hw.row_len e ((hsub.map _).subset he)

theorem expos_alignExpo [Zero S] (es : List Expo) (p : Poly S) : (alignExpo es p).expos = es := by
  simp [Poly.expos, alignExpo, List.map_map, Function.comp_def]

/-- C01 (sum): the result of `add` denotes the sum of the operands, whatever the retain flags -/
theorem add_den [BEq S] [LawfulBEq S] (rc rn : Bool) (a b : Poly S) (ha : WF a) (hb : WF b) :
    den (add rc rn a b) = den a + den b ∧ WF (zipCols (· + ·) (alignPair a b).1 (alignPair a b).2) := by
  have hc := commonNames_nodup a b
  have hsa : ∀ n ∈ a.names, n ∈ commonNames a b := fun n h => (mem_commonNames a b n).2 (Or.inl h)
  have hsb : ∀ n ∈ b.names, n ∈ commonNames a b := fun n h => (mem_commonNames a b n).2 (Or.inr h)
  have wa := WF_alignIndet (commonNames a b) a ha hc hsa
  have wb := WF_alignIndet (commonNames a b) b hb hc hsb
  have hwz : WF (zipCols (· + ·) (alignPair a b).1 (alignPair a b).2) := by
    set a' := alignIndet (commonNames a b) a
    set b' := alignIndet (commonNames a b) b
    set es := sortDedup expoLt (a'.expos ++ b'.expos) with hes
    have hesnd : es.Nodup := nodup_of_sortedLt expoLt_strictTotal _ (sortedLt_sortDedup expoLt_strictTotal _)
    have hex : (zipCols (· + ·) (alignExpo es a') (alignExpo es b')).expos = es := by
      simp only [Poly.expos, zipCols, alignExpo]
      clear hesnd hes
      induction es with
      | nil => simp
      | cons e es ih => simpa using ih
    refine ⟨hc, ?_, ?_⟩
    · show (zipCols (· + ·) (alignExpo es a') (alignExpo es b')).expos.Nodup
      rw [hex]; exact hesnd
    · intro e he
      have he' : e ∈ es := by
        have : e ∈ (zipCols (· + ·) (alignExpo es a') (alignExpo es b')).expos := he
        rwa [hex] at this
      rw [hes, mem_sortDedup expoLt_strictTotal, List.mem_append] at he'
      rcases he' with h | h
      · exact wa.row_len e h
      · exact wb.row_len e h
  refine ⟨?_, hwz⟩
  show den (clean rc rn (zipCols (· + ·) (alignPair a b).1 (alignPair a b).2)) = _
  rw [den_clean rc rn _ hwz (WF_dropZeroCols _ hwz), den_alignPair_add a b ha hb]

end Np

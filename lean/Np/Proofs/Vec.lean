import Np.Model.Vec
import Mathlib.Algebra.Ring.Pi
import Mathlib.Algebra.Ring.InjSurj
import Mathlib.Data.Nat.Cast.Basic
import Mathlib.Data.Int.Cast.Pi
namespace Np.Vec
variable {R : Type} {n : Nat}

theorem ext' {a b : Vec R n} (h : ∀ i, a.get i = b.get i) : a = b := by
  apply Vector.ext; intro i hi; exact h ⟨i, hi⟩

theorem get_injective : Function.Injective (Vec.get : Vec R n → Fin n → R) :=
  fun _ _ h => ext' (congrFun h)

@[simp] theorem get_zero [Zero R] (i : Fin n) : (0 : Vec R n).get i = 0 := by
  show (Vector.replicate n (0:R))[i.val] = 0; simp
@[simp] theorem get_one [One R] (i : Fin n) : (1 : Vec R n).get i = 1 := by
  show (Vector.replicate n (1:R))[i.val] = 1; simp
@[simp] theorem get_add [Add R] (a b : Vec R n) (i : Fin n) : (a + b).get i = a.get i + b.get i := by
  show (Vector.zipWith (· + ·) a b)[i.val] = _; simp [get]
@[simp] theorem get_mul [Mul R] (a b : Vec R n) (i : Fin n) : (a * b).get i = a.get i * b.get i := by
  show (Vector.zipWith (· * ·) a b)[i.val] = _; simp [get]
@[simp] theorem get_sub [Sub R] (a b : Vec R n) (i : Fin n) : (a - b).get i = a.get i - b.get i := by
  show (Vector.zipWith (· - ·) a b)[i.val] = _; simp [get]
@[simp] theorem get_neg [Neg R] (a : Vec R n) (i : Fin n) : (-a).get i = - a.get i := by
  show (Vector.map (- ·) a)[i.val] = _; simp [get]
@[simp] theorem get_natCast [NatCast R] (k : Nat) (i : Fin n) : ((k : Vec R n)).get i = (k : R) := by
  show (Vector.replicate n (k:R))[i.val] = _; simp
@[simp] theorem get_gather {m : Nat} (σ : Fin n → Fin m) (v : Vec R m) (i : Fin n) :
    (gather σ v).get i = v.get (σ i) := by
  simp [gather, get]
@[simp] theorem get_ofFn (f : Fin n → R) (i : Fin n) : (ofFn f).get i = f i := by
  simp [ofFn, get]

instance [CommSemiring R] : SMul Nat (Vec R n) := ⟨fun k a => Vector.map (k • ·) a⟩
instance [CommSemiring R] : Pow (Vec R n) Nat := ⟨fun a k => Vector.map (· ^ k) a⟩
@[simp] theorem get_nsmul [CommSemiring R] (k : Nat) (a : Vec R n) (i : Fin n) : (k • a).get i = k • a.get i := by
  show (Vector.map (k • ·) a)[i.val] = _; simp [get]
@[simp] theorem get_pow [CommSemiring R] (a : Vec R n) (k : Nat) (i : Fin n) : (a ^ k).get i = a.get i ^ k := by
  show (Vector.map (· ^ k) a)[i.val] = _; simp [get]

/-- the executable column type is a commutative semiring: pointwise `Rⁿ` -/
instance [CommSemiring R] : CommSemiring (Vec R n) :=
  Function.Injective.commSemiring Vec.get get_injective
    (by funext i; simp) (by funext i; simp) (fun _ _ => by funext i; simp) (fun _ _ => by funext i; simp)
    (fun _ _ => by funext i; simp) (fun _ _ => by funext i; simp) (fun _ => by funext i; simp [Pi.natCast_apply])

instance [CommRing R] : IntCast (Vec R n) := ⟨fun k => Vector.replicate n (k : R)⟩
instance [CommRing R] : SMul Int (Vec R n) := ⟨fun k a => Vector.map (k • ·) a⟩
@[simp] theorem get_intCast [CommRing R] (k : Int) (i : Fin n) : ((k : Vec R n)).get i = (k : R) := by
  show (Vector.replicate n (k:R))[i.val] = _; simp
@[simp] theorem get_zsmul [CommRing R] (k : Int) (a : Vec R n) (i : Fin n) : (k • a).get i = k • a.get i := by
  show (Vector.map (k • ·) a)[i.val] = _; simp [get]

/-- … and a commutative ring when `R` is -/
instance [CommRing R] : CommRing (Vec R n) :=
  Function.Injective.commRing Vec.get get_injective
    (by funext i; simp) (by funext i; simp) (fun _ _ => by funext i; simp) (fun _ _ => by funext i; simp)
    (fun _ => by funext i; simp) (fun _ _ => by funext i; simp)
    (fun _ _ => by funext i; simp) (fun _ _ => by funext i; simp) (fun _ _ => by funext i; simp)
    (fun _ => by funext i; simp [Pi.natCast_apply]) (fun _ => by funext i; simp [Pi.intCast_apply])

/-- evaluation at one array element is a ring homomorphism -/
def evalAt [CommSemiring R] (i : Fin n) : Vec R n →+* R where
  toFun v := v.get i
  map_one' := by simp
  map_mul' _ _ := by simp
  map_zero' := by simp
  map_add' _ _ := by simp

/-- any index map (broadcast, transpose, reshape, indexing, …) is a ring homomorphism on columns -/
def gatherHom [CommSemiring R] {m : Nat} (σ : Fin n → Fin m) : Vec R m →+* Vec R n where
  toFun := gather σ
  map_one' := by apply ext'; intro i; simp
  map_mul' _ _ := by apply ext'; intro i; simp
  map_zero' := by apply ext'; intro i; simp
  map_add' _ _ := by apply ext'; intro i; simp

@[simp] theorem gatherHom_apply [CommSemiring R] {m : Nat} (σ : Fin n → Fin m) (v : Vec R m) :
    gatherHom σ v = gather σ v := rfl
@[simp] theorem evalAt_apply [CommSemiring R] (i : Fin n) (v : Vec R n) : evalAt i v = v.get i := rfl
end Np.Vec

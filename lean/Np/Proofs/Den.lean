import Np.Proofs.Sorted
import Mathlib.Algebra.MvPolynomial.Basic
open MvPolynomial
namespace Np
variable {S : Type} [CommSemiring S]

/-- exponent row over a name list → finsupp Name →₀ ℕ -/
noncomputable def fsN : List Name → Expo → (Name →₀ ℕ)
  | n :: ns, x :: xs => Finsupp.single n x + fsN ns xs
  | _, _ => 0

noncomputable def denT (names : List Name) (ts : List (Expo × S)) : MvPolynomial Name S :=
  (ts.map fun t => monomial (fsN names t.1) t.2).sum

/-- the denotation: the polynomial over the coefficient ring `S` -/
noncomputable def den (p : Poly S) : MvPolynomial Name S := denT p.names p.terms

@[simp] theorem denT_nil (ns : List Name) : denT ns ([] : List (Expo × S)) = 0 := rfl
@[simp] theorem denT_cons (ns : List Name) (t : Expo × S) (ts) :
    denT ns (t :: ts) = monomial (fsN ns t.1) t.2 + denT ns ts := by simp [denT]
@[simp] theorem denT_append (ns : List Name) (a b : List (Expo × S)) :
    denT ns (a ++ b) = denT ns a + denT ns b := by simp [denT]

theorem expoAt_not_mem (ns : List Name) (e : Expo) (m : Name) (h : m ∉ ns) : expoAt ns e m = 0 := by
  induction ns generalizing e with
  | nil => simp [expoAt]
  | cons n ns ih =>
    cases e with
    | nil => simp [expoAt]
    | cons x xs =>
      simp only [List.mem_cons, not_or] at h
      have : (n == m) = false := by simpa using (Ne.symm h.1)
      simp [expoAt, this, ih xs h.2]

theorem fsN_apply (ns : List Name) (hnd : ns.Nodup) (e : Expo) (n : Name) :
    fsN ns e n = expoAt ns e n := by
  induction ns generalizing e with
  | nil => simp [fsN, expoAt]
  | cons m ms ih =>
    cases e with
    | nil => simp [fsN, expoAt]
    | cons x xs =>
      simp only [List.nodup_cons] at hnd
      simp only [fsN, Finsupp.add_apply, Finsupp.single_apply, expoAt]
      by_cases hmn : m = n
      · subst hmn
        simp [ih hnd.2 xs, expoAt_not_mem ms xs m hnd.1]
      · have : (m == n) = false := by simpa using hmn
        simp [hmn, this, ih hnd.2 xs]

theorem fsN_map (common : List Name) (hc : common.Nodup) (f : Name → Nat) (n : Name) :
    fsN common (common.map f) n = if n ∈ common then f n else 0 := by
  induction common with
  | nil => simp [fsN]
  | cons m ms ih =>
    simp only [List.nodup_cons] at hc
    simp only [List.map_cons, fsN, Finsupp.add_apply, Finsupp.single_apply, ih hc.2, List.mem_cons]
    by_cases hmn : m = n
    · subst hmn; simp [hc.1]
    · have : ¬ n = m := fun h => hmn h.symm
      simp [hmn, this]

/-- re-expressing a row over other names keeps the monomial, as long as no used name is lost -/
theorem fsN_scatter (names common : List Name) (hn : names.Nodup) (hc : common.Nodup) (e : Expo)
    (hkeep : ∀ n, n ∉ common → expoAt names e n = 0) :
    fsN common (scatter names common e) = fsN names e := by
  ext n
  rw [scatter, fsN_map common hc, fsN_apply names hn]
  by_cases h : n ∈ common
  · simp [h]
  · simp [h, hkeep n h]

theorem den_alignIndet (common : List Name) (p : Poly S) (hn : p.names.Nodup) (hc : common.Nodup)
    (hkeep : ∀ t ∈ p.terms, ∀ n, n ∉ common → expoAt p.names t.1 n = 0) :
    den (alignIndet common p) = den p := by
  simp only [den, alignIndet]
  generalize p.terms = ts at hkeep
  induction ts with
  | nil => simp
  | cons t ts ih =>
    simp only [List.map_cons, denT_cons]
    rw [ih (fun t' ht' => hkeep t' (by simp [ht'])),
        fsN_scatter p.names common hn hc t.1 (hkeep t (by simp))]

/-! ### exponent alignment -/

theorem lookup_cons_self (e : Expo) (c : S) (p : List (Expo × S)) : lookup ((e, c) :: p) e = c := by
  simp [lookup]
theorem lookup_cons_ne (e e' : Expo) (c : S) (p : List (Expo × S)) (h : e' ≠ e) :
    lookup ((e', c) :: p) e = lookup p e := by
  simp [lookup, h]

theorem denT_alignTo (ns : List Name) (es : List Expo) (p : List (Expo × S))
    (hp : (p.map (·.1)).Nodup) (hes : es.Nodup) (hsub : ∀ e ∈ p.map (·.1), e ∈ es) :
    denT ns (es.map fun e => (e, lookup p e)) = denT ns p := by
  induction p generalizing es with
  | nil =>
    have : ∀ es : List Expo, denT ns (es.map fun e => (e, lookup ([] : List (Expo × S)) e)) = 0 := by
      intro es; induction es with
      | nil => rfl
      | cons e es ih => simp [lookup] at ih ⊢; exact ih
    simpa using this es
  | cons t p ih =>
    obtain ⟨e0, c0⟩ := t
    simp only [List.map_cons, List.nodup_cons] at hp
    have he0 : e0 ∈ es := hsub e0 (by simp)
    obtain ⟨l1, l2, rfl⟩ := List.append_of_mem he0
    have hnd := hes
    rw [List.nodup_append] at hnd
    have h1 : e0 ∉ l1 := fun h => (hnd.2.2 e0 h e0 (by simp)) rfl
    have h2 : e0 ∉ l2 := (List.nodup_cons.1 hnd.2.1).1
    have key : ∀ l : List Expo, e0 ∉ l →
        (l.map fun e => (e, lookup ((e0, c0) :: p) e)) = (l.map fun e => (e, lookup p e)) := by
      intro l hl
      apply List.map_congr_left
      intro e he
      have : e0 ≠ e := fun h => hl (h ▸ he)
      rw [lookup_cons_ne _ _ _ _ this]
    have ih' := ih (l1 ++ l2) hp.2 (by
        rw [List.nodup_append]; refine ⟨hnd.1, (List.nodup_cons.1 hnd.2.1).2, ?_⟩
        intro a ha b hb; exact hnd.2.2 a ha b (by simp [hb])) (by
        intro e he
        have := hsub e (by simp only [List.map_cons, List.mem_cons]; exact Or.inr he)
        simp only [List.mem_append, List.mem_cons] at this ⊢
        rcases this with h | h | h
        · exact Or.inl h
        · subst h; exact absurd he hp.1
        · exact Or.inr h)
    simp only [List.map_append, denT_append, List.map_cons, denT_cons] at ih' ⊢
    rw [key l1 h1, key l2 h2, lookup_cons_self, ← ih']
    abel

theorem den_alignExpo (es : List Expo) (p : Poly S) (hp : p.expos.Nodup) (hes : es.Nodup)
    (hsub : ∀ e ∈ p.expos, e ∈ es) : den (alignExpo es p) = den p := by
  simp only [den, alignExpo]
  exact denT_alignTo p.names es p.terms hp hes hsub

/-! ### cleaning -/

theorem denT_filter (ns : List Name) [BEq S] [LawfulBEq S] (ts : List (Expo × S)) (q : Expo → Bool) :
    denT ns (ts.filter fun t => !(t.2 == 0) || q t.1) = denT ns ts := by
  induction ts with
  | nil => simp
  | cons t ts ih =>
    simp only [List.filter_cons]
    split
    · simp [ih]
    · rename_i h
      have : t.2 = 0 := by
        simp only [Bool.or_eq_true, Bool.not_eq_eq_eq_not, Bool.not_true, not_or, Bool.not_eq_true, Bool.not_eq_false] at h
        simpa using h.1
      simp [ih, this]

theorem den_dropZeroCols [BEq S] [LawfulBEq S] (p : Poly S) : den (dropZeroCols p) = den p := by
  unfold dropZeroCols
  have h := denT_filter p.names p.terms isZeroExpo
  split
  · rename_i heq
    rw [heq] at h
    simp [den, ← h]
  · rename_i kept _
    simp only [den]
    exact h
end Np

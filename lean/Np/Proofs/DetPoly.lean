import Np.Model.Maps
import Np.Proofs.Sub
import Np.Proofs.MapCoef
import Np.Proofs.Det
import Mathlib.LinearAlgebra.Matrix.Determinant.Basic
import Mathlib.Algebra.BigOperators.Fin
/-! C10: the determinant of a matrix of polynomials (`detPoly`: Laplace expansion along the first row computed with
the model's `multiply` / `add` / `neg`) is fully written, well-formed and denotes `Matrix.det` of the matrix of
denotations in `MvPolynomial Name (Vec R b)`; element-wise for every stacked matrix. -/
open MvPolynomial Matrix
namespace Np

instance instInhabitedPoly {S : Type} : Inhabited (Poly S) := ⟨⟨[], []⟩⟩

/-! ### the same recursion on lists of ring elements -/

/-- the minor of the rows below the first one: drop column `j` -/
def minorL {A : Type} (j : Nat) (rest : List (List A)) : List (List A) :=
  rest.map fun row => row.take j ++ row.drop (j + 1)

/-- Laplace expansion along the first row on lists of ring elements, same traversal as `detPoly` -/
def detList {A : Type} [Zero A] [One A] [Add A] [Mul A] [Neg A] : (n : Nat) → List (List A) → A
  | 0, _ => 1
  | _ + 1, [] => 0
  | n + 1, first :: rest =>
    (List.range (n + 1)).foldl (fun acc j =>
      acc + (if j % 2 = 0 then first.getD j 0 * detList n (minorL j rest)
             else -(first.getD j 0 * detList n (minorL j rest)))) 0

theorem minorL_map {A B : Type} (f : A → B) (j : Nat) (rest : List (List A)) :
    minorL j (rest.map (·.map f)) = (minorL j rest).map (·.map f) := by
  simp [minorL, List.map_map, Function.comp_def, List.map_take, List.map_drop]

theorem minorL_length {A : Type} (j : Nat) (rest : List (List A)) : (minorL j rest).length = rest.length := by
  simp [minorL]

theorem minorL_row_length {A : Type} (j n : Nat) (hj : j ≤ n) (rest : List (List A))
    (h : ∀ row ∈ rest, row.length = n + 1) : ∀ row ∈ minorL j rest, row.length = n := by
  intro row hr
  obtain ⟨r, hr', rfl⟩ := List.mem_map.1 hr
  have := h r hr'
  simp only [List.length_append, List.length_take, List.length_drop]
  omega

theorem minorL_mem {A : Type} (j : Nat) (rest : List (List A)) (P : A → Prop)
    (h : ∀ row ∈ rest, ∀ p ∈ row, P p) : ∀ row ∈ minorL j rest, ∀ p ∈ row, P p := by
  intro row hr p hp
  obtain ⟨r, hr', rfl⟩ := List.mem_map.1 hr
  rcases List.mem_append.1 hp with hp | hp
  · exact h r hr' p (List.mem_of_mem_take hp)
  · exact h r hr' p (List.mem_of_mem_drop hp)

/-! ### (a) `detPoly` computes `detList` of the denotations -/
section stepA
variable {S : Type} [CommSemiring S]

/-- the constant polynomials `detPoly` starts from -/
theorem den_const_WF (c : S) :
    den ({ names := [0], terms := [([0], c)] } : Poly S) = C c ∧
    WF ({ names := [0], terms := [([0], c)] } : Poly S) := by
  refine ⟨?_, ⟨by simp, by simp [Poly.expos], ?_⟩⟩
  · simp [den, fsN]
  · intro e he
    simp only [Poly.expos, List.map_cons, List.map_nil, List.mem_singleton] at he
    simp [he]

end stepA

section stepA'
variable {R : Type} [CommRing R] [BEq R] [LawfulBEq R] {b : Nat}

/-- (a): `detPoly` is fully written, well-formed, and denotes the list-level Laplace recursion on the denotations -/
theorem detPoly_detList (rc rn : Bool) : ∀ (n : Nat) (rows : List (List (Poly (Vec R b)))),
    rows.length = n → (∀ row ∈ rows, row.length = n) → (∀ row ∈ rows, ∀ p ∈ row, WF p) →
    ∃ d, detPoly rc rn n rows = some d ∧ WF d ∧ den d = detList n (rows.map (·.map den))
  | 0, rows, _, _, _ => by
    refine ⟨_, rfl, (den_const_WF (1 : Vec R b)).2, ?_⟩
    rw [(den_const_WF (1 : Vec R b)).1]; simp [detList]
  | n + 1, [], hl, _, _ => by simp at hl
  | n + 1, first :: rest, hl, hrow, hwf => by
    have hfl : first.length = n + 1 := hrow first (by simp)
    have hrl : rest.length = n := by simpa using hl
    have hrrow : ∀ row ∈ rest, row.length = n + 1 := fun r hr => hrow r (by simp [hr])
    have hrwf : ∀ row ∈ rest, ∀ p ∈ row, WF p := fun r hr => hwf r (by simp [hr])
    simp only [detPoly, List.map_cons, detList]
    -- invariant over the prefixes of the column range
    suffices H : ∀ m, m ≤ n + 1 → ∃ s,
        (List.range m).foldl (fun acc j =>
          match acc, first[j]? with
          | some s, some a0j =>
            match detPoly rc rn n (rest.map fun row => (row.take j) ++ (row.drop (j + 1))) with
            | none => none
            | some d =>
              match multiply rc rn a0j d with
              | none => none
              | some t => some (add rc rn s (if j % 2 == 0 then t else neg rc rn t))
          | _, _ => none) (some { names := [0], terms := [([0], 0)] }) = some s ∧ WF s ∧
        den s = (List.range m).foldl (fun acc j =>
          acc + (if j % 2 = 0 then (first.map den).getD j 0 * detList n (minorL j (rest.map (·.map den)))
                 else -((first.map den).getD j 0 * detList n (minorL j (rest.map (·.map den)))))) 0 by
      exact H (n + 1) (Nat.le_refl _)
    intro m
    induction m with
    | zero =>
      intro _
      refine ⟨_, rfl, (den_const_WF (0 : Vec R b)).2, ?_⟩
      rw [(den_const_WF (0 : Vec R b)).1]; simp
    | succ m ih =>
      intro hm
      obtain ⟨s, hs, hws, hds⟩ := ih (by omega)
      have hmf : m < first.length := by omega
      have hwa : WF first[m] := hwf first (by simp) _ (List.getElem_mem hmf)
      obtain ⟨d, hd, hwd, hdd⟩ := detPoly_detList rc rn n (minorL m rest)
        (by rw [minorL_length]; exact hrl)
        (minorL_row_length m n (by omega) rest hrrow)
        (minorL_mem m rest WF hrwf)
      obtain ⟨t, ht, hdt, hwt⟩ := mul_den_WF rc rn first[m] d hwa hwd
      have hgd : (first.map den).getD m 0 = den first[m] := by
        simp [List.getD_eq_getElem?_getD, hmf]
      rw [List.range_succ, List.foldl_append, List.foldl_append, hs, ← hds]
      simp only [List.foldl_cons, List.foldl_nil, List.getElem?_eq_getElem hmf]
      change detPoly rc rn n (minorL m rest) = some d at hd
      simp only [minorL] at hd
      simp only [hd, ht]
      rw [hgd, minorL_map, ← hdd, ← hdt]
      by_cases hpar : m % 2 = 0
      · refine ⟨_, rfl, ?_, ?_⟩
        · simpa [hpar] using WF_add rc rn s t hws hwt
        · simp only [hpar, beq_self_eq_true, if_true]
          exact (add_den rc rn s t hws hwt).1
      · have hn := neg_den_WF rc rn t hwt
        have hb : (m % 2 == 0) = false := by simpa using hpar
        refine ⟨_, rfl, ?_, ?_⟩
        · simpa [hb] using WF_add rc rn s _ hws hn.2
        · simp only [hb, hpar, if_false, Bool.false_eq_true]
          rw [(add_den rc rn s _ hws hn.2).1, hn.1]

end stepA'

/-! ### (b) the list recursion is the determinant -/
section stepB
variable {A : Type} [CommRing A]

omit [CommRing A] in
theorem getD_skip (d : A) (row : List A) (j k : Nat) (hj : j ≤ row.length) :
    (row.take j ++ row.drop (j + 1)).getD k d = row.getD (if k < j then k else k + 1) d := by
  simp only [List.getD_eq_getElem?_getD, List.getElem?_append, List.length_take, List.getElem?_take,
    List.getElem?_drop]
  have hmin : min j row.length = j := by omega
  rw [hmin]
  split
  · rfl
  · congr 2; omega

theorem foldl_range_sum (g : Nat → A) (m : Nat) :
    (List.range m).foldl (fun acc j => acc + g j) 0 = ∑ j ∈ Finset.range m, g j := by
  induction m with
  | zero => simp
  | succ m ih => rw [List.range_succ, List.foldl_append, ih, Finset.sum_range_succ]; simp

/-- (b): on `n × n` lists the list recursion is `Matrix.det` -/
theorem detList_eq_det : ∀ (n : Nat) (L : List (List A)), L.length = n → (∀ row ∈ L, row.length = n) →
    detList n L = Matrix.det (Matrix.of fun (i j : Fin n) => (L.getD i.val []).getD j.val 0)
  | 0, L, _, _ => by simp [detList]
  | n + 1, [], hl, _ => by simp at hl
  | n + 1, first :: rest, hl, hrow => by
    have hfl : first.length = n + 1 := hrow first (by simp)
    have hrl : rest.length = n := by simpa using hl
    have hrrow : ∀ row ∈ rest, row.length = n + 1 := fun r hr => hrow r (by simp [hr])
    rw [detList, foldl_range_sum, Finset.sum_range, Matrix.det_succ_row_zero]
    apply Finset.sum_congr rfl
    intro j _
    rw [detList_eq_det n (minorL j.val rest) (by rw [minorL_length]; exact hrl)
      (minorL_row_length j.val n (by omega) rest hrrow)]
    have hM : (Matrix.of fun (i k : Fin n) => ((minorL j.val rest).getD i.val []).getD k.val (0 : A)) =
        (Matrix.of fun (i k : Fin (n + 1)) => (((first :: rest).getD i.val []).getD k.val (0 : A))).submatrix
          Fin.succ j.succAbove := by
      ext i k
      have hi : i.val < rest.length := by omega
      have hlen : rest[i.val].length = n + 1 := hrrow _ (List.getElem_mem hi)
      simp only [Matrix.of_apply, Matrix.submatrix_apply, Fin.val_succ, List.getD_cons_succ]
      have h1 : (minorL j.val rest).getD i.val [] =
          rest[i.val].take j.val ++ rest[i.val].drop (j.val + 1) := by
        simp [minorL, List.getD_eq_getElem?_getD, hi]
      have h2 : rest.getD i.val [] = rest[i.val] := by simp [List.getD_eq_getElem?_getD, hi]
      rw [h1, h2, getD_skip _ _ _ _ (by omega)]
      congr 1
      simp only [Fin.succAbove, Fin.lt_def, Fin.val_castSucc]
      split <;> rfl
    rw [hM]
    simp only [Matrix.of_apply, Fin.val_zero, List.getD_cons_zero]
    rcases Nat.even_or_odd j.val with h | h
    · have : j.val % 2 = 0 := Nat.even_iff.1 h
      simp [this, h.neg_one_pow]
    · have : j.val % 2 = 1 := Nat.odd_iff.1 h
      simp [this, h.neg_one_pow]

/-- (b'), in the vocabulary of Np/Model/Det.lean: the list recursion is `detStd` -/
theorem detList_eq_detStd (n : Nat) (L : List (List A)) (hl : L.length = n) (hrow : ∀ row ∈ L, row.length = n) :
    detList n L = Np.Det.detStd n (fun (i j : Fin n) => (L.getD i.val []).getD j.val 0) := by
  rw [Np.Det.detStd_eq_det, detList_eq_det n L hl hrow]

end stepB

/-! ### (c) the specification -/
section spec
variable {R : Type} [CommRing R] [BEq R] [LawfulBEq R] {b : Nat}

omit [BEq R] [LawfulBEq R] in
theorem getD_map_den (rows : List (List (Poly (Vec R b)))) (n : Nat) (hl : rows.length = n)
    (hrow : ∀ row ∈ rows, row.length = n) (i j : Fin n) :
    ((rows.map (·.map den)).getD i.val []).getD j.val 0 = den ((rows[i.val]!)[j.val]!) := by
  have hi : i.val < rows.length := by omega
  have hj : j.val < rows[i.val].length := by rw [hrow _ (List.getElem_mem hi)]; exact j.isLt
  simp [List.getD_eq_getElem?_getD, hi, hj]

/-- C10: the determinant of an `n × n` matrix of well-formed polynomial arrays is fully written, well-formed and
denotes the determinant, in `MvPolynomial Name (Vec R b)`, of the matrix of denotations -/
theorem detPoly_spec (rc rn : Bool) (n : Nat) (rows : List (List (Poly (Vec R b))))
    (hl : rows.length = n) (hrow : ∀ row ∈ rows, row.length = n) (hwf : ∀ row ∈ rows, ∀ p ∈ row, WF p) :
    ∃ d, detPoly rc rn n rows = some d ∧ WF d ∧
      den d = Matrix.det (Matrix.of fun (i j : Fin n) => den ((rows[i.val]!)[j.val]!)) := by
  obtain ⟨d, hd, hw, hden⟩ := detPoly_detList rc rn n rows hl hrow hwf
  refine ⟨d, hd, hw, ?_⟩
  rw [hden, detList_eq_det n _ (by simpa using hl) (by
    intro row hr
    obtain ⟨r, hr', rfl⟩ := List.mem_map.1 hr
    simpa using hrow r hr')]
  refine congrArg Matrix.det (congrArg Matrix.of ?_)
  funext i j
  exact getD_map_den rows n hl hrow i j

/-- the same with the repaired executable `detStd` of Np/Model/Det.lean on the right-hand side -/
theorem detPoly_detStd (rc rn : Bool) (n : Nat) (rows : List (List (Poly (Vec R b))))
    (hl : rows.length = n) (hrow : ∀ row ∈ rows, row.length = n) (hwf : ∀ row ∈ rows, ∀ p ∈ row, WF p) :
    ∃ d, detPoly rc rn n rows = some d ∧ WF d ∧
      den d = Np.Det.detStd n (fun (i j : Fin n) => den ((rows[i.val]!)[j.val]!)) := by
  obtain ⟨d, hd, hw, hden⟩ := detPoly_spec rc rn n rows hl hrow hwf
  exact ⟨d, hd, hw, by rw [hden, Np.Det.detStd_eq_det]⟩

/-- C10 element-wise: for every stacked matrix `k`, position `k` of the result is the determinant of the matrix of
the polynomials at position `k` -/
theorem detPoly_elem (rc rn : Bool) (n : Nat) (rows : List (List (Poly (Vec R b))))
    (hl : rows.length = n) (hrow : ∀ row ∈ rows, row.length = n) (hwf : ∀ row ∈ rows, ∀ p ∈ row, WF p) :
    ∃ d, detPoly rc rn n rows = some d ∧ WF d ∧ ∀ k : Fin b,
      denAt d k = Matrix.det (Matrix.of fun (i j : Fin n) => denAt ((rows[i.val]!)[j.val]!) k) := by
  obtain ⟨d, hd, hw, hden⟩ := detPoly_spec rc rn n rows hl hrow hwf
  refine ⟨d, hd, hw, fun k => ?_⟩
  simp only [denAt, den_mapCoef, hden]
  rw [RingHom.map_det]
  congr 1

end spec
end Np

import Np.Proofs.Gather
import Np.Proofs.CallArr
import Mathlib.Algebra.BigOperators.Fin
/-! C10 for the EXECUTABLE operations of the model: `linearOp` (sum, cumsum, diff, ediff1d, mean), `bilinearOp`
(inner, outer, matmul) and `prodOp` (prod along axes) on polynomial arrays, element by element: every element of the
result is the finite weighted sum / sum of products / product of the elements of the operands. -/
open MvPolynomial
set_option linter.unusedSectionVars false
namespace Np
open Shape
variable {R : Type} [CommSemiring R]

/-! ### 0. total accessors -/

/-- element `j` of the array (flat, row-major), or `0` when `j` is out of range -/
noncomputable def elemD (a : Arr R) (j : Nat) : MvPolynomial Name R :=
  if h : j < size a.shape then a.elem ⟨j, h⟩ else 0

/-- what a gather with fill reads at output position `i`: element `idx[i] - 1` of `a`, or `0` when `idx[i] = 0`
(fill), `i` is beyond `idx`, or the index is out of range -/
noncomputable def gatheredElem (a : Arr R) (idx : List Nat) (i : Nat) : MvPolynomial Name R :=
  if h : 0 < idx.getD i 0 ∧ idx.getD i 0 - 1 < size a.shape then a.elem ⟨idx.getD i 0 - 1, h.2⟩ else 0

/-- entry `j` of a column, or `0` out of range -/
def colD {n : Nat} (v : Vec R n) (j : Nat) : R := if h : j < n then v.get ⟨j, h⟩ else 0

theorem elemD_of_lt (a : Arr R) (j : Fin (size a.shape)) : elemD a j.val = a.elem j := by
  simp only [elemD, j.isLt, dite_true]

theorem elemD_of_not_lt (a : Arr R) (j : Nat) (h : ¬ j < size a.shape) : elemD a j = 0 := by
  simp only [elemD, h, dite_false]

theorem gatheredElem_eq (a : Arr R) (idx : List Nat) (i : Nat) :
    gatheredElem a idx i = if 0 < idx.getD i 0 then elemD a (idx.getD i 0 - 1) else 0 := by
  unfold gatheredElem elemD
  by_cases h0 : 0 < idx.getD i 0
  · by_cases h1 : idx.getD i 0 - 1 < size a.shape
    · simp only [h0, h1, and_self, dite_true, if_true]
    · simp only [h0, h1, and_false, dite_false, if_true]
  · simp only [h0, false_and, dite_false, if_false]

theorem coeff_elemD (a : Arr R) (j : Nat) (mono : Name →₀ ℕ) :
    coeff mono (elemD a j) = colD (coeff mono (den a.poly)) j := by
  unfold elemD colD
  split
  · exact coeff_denAt _ _ _
  · simp

/-- a gather with fill on an array, element by element, as one equation -/
theorem denAt_gatherFill (a : Arr R) (m : Nat) (idx : List Nat) (i : Fin m) :
    denAt (mapCoef (gatherFill m idx) a.poly) i = gatheredElem a idx i.val := by
  unfold gatheredElem
  split
  · rename_i h
    exact gatherFill_elem_copy m idx a.poly i (idx.getD i.val 0 - 1) (by omega) h.2
  · rename_i h
    by_cases h0 : idx.getD i.val 0 = 0
    · exact gatherFill_elem_fill m idx a.poly i h0
    · exact gatherFill_elem_out m idx a.poly i (by omega)

theorem coeff_listSum (l : List (MvPolynomial Name R)) (mono : Name →₀ ℕ) :
    coeff mono l.sum = (l.map (coeff mono)).sum := by
  induction l with
  | nil => simp
  | cons x xs ih => simp only [List.sum_cons, List.map_cons, coeff_add, ih]

theorem sum_range_eq_univ {M : Type} [AddCommMonoid M] (n : Nat) (f : Nat → M) :
    ((List.range n).map f).sum = ∑ i : Fin n, f i.val := by
  induction n with
  | zero => simp
  | succ n ih =>
    rw [List.range_succ, List.map_append, List.sum_append, ih, Fin.sum_univ_castSucc]
    simp

/-! ### 1. `linearOp`: weighted sums of elements -/

theorem linRow_foldl {n : Nat} (row : List (Nat × R)) (v : Vec R n) (acc : R) :
    row.foldl (fun acc jw => if h : jw.1 < n then acc + jw.2 * v.get ⟨jw.1, h⟩ else acc) acc
      = acc + (row.map fun jw => jw.2 * colD v jw.1).sum := by
  induction row generalizing acc with
  | nil => simp
  | cons x xs ih =>
    simp only [List.foldl_cons, List.map_cons, List.sum_cons]
    rw [ih]
    by_cases h : x.1 < n
    · simp only [h, dite_true, colD, add_assoc]
    · simp only [h, dite_false, colD, mul_zero, zero_add]

/-- entry `i` of `linearCol` is the weighted sum listed in row `i` of the weight matrix -/
theorem get_linearCol {n : Nat} (m : Nat) (W : List (List (Nat × R))) (v : Vec R n) (i : Fin m) :
    (linearCol m W v).get i = ((W.getD i.val []).map fun jw => jw.2 * colD v jw.1).sum := by
  simp only [linearCol, Vec.get_ofFn, linRow_foldl, zero_add]

theorem colD_zero {n : Nat} (j : Nat) : colD (0 : Vec R n) j = 0 := by
  unfold colD; split <;> simp

theorem colD_add {n : Nat} (u v : Vec R n) (j : Nat) : colD (u + v) j = colD u j + colD v j := by
  unfold colD; split <;> simp

/-- `linearCol` is an additive map on columns, for every weight matrix -/
def linearColHom {n : Nat} (m : Nat) (W : List (List (Nat × R))) : Vec R n →+ Vec R m where
  toFun := linearCol m W
  map_zero' := by
    apply Vec.ext'; intro i
    rw [get_linearCol, Vec.get_zero]
    generalize W.getD i.val [] = row
    induction row with
    | nil => simp
    | cons x xs ih => rw [List.map_cons, List.sum_cons, ih, colD_zero, mul_zero, add_zero]
  map_add' u v := by
    apply Vec.ext'; intro i
    rw [Vec.get_add, get_linearCol, get_linearCol, get_linearCol]
    generalize W.getD i.val [] = row
    induction row with
    | nil => simp
    | cons x xs ih =>
      rw [List.map_cons, List.sum_cons, ih, colD_add, mul_add, List.map_cons, List.sum_cons, List.map_cons,
        List.sum_cons]
      ac_rfl

@[simp] theorem linearColHom_apply {n : Nat} (m : Nat) (W : List (List (Nat × R))) (v : Vec R n) :
    linearColHom m W v = linearCol m W v := rfl

theorem coeff_denAt_linearCol {n : Nat} (m : Nat) (W : List (List (Nat × R))) (p : Poly (Vec R n)) (k : Fin m)
    (mono : Name →₀ ℕ) :
    coeff mono (denAt (mapCoef (linearCol m W) p) k) = (linearCol m W (coeff mono (den p))).get k :=
  coeff_denAt_mapCoef (linearColHom m W) p k mono

/-- on polynomials with column coefficients: position `i` after `linearCol` is the weighted sum of the positions -/
theorem denAt_linearCol (m : Nat) (W : List (List (Nat × R))) (a : Arr R) (i : Fin m) :
    denAt (mapCoef (linearCol m W) a.poly) i = ((W.getD i.val []).map fun jw => C jw.2 * elemD a jw.1).sum := by
  ext mono
  rw [coeff_denAt_linearCol, get_linearCol, coeff_listSum, List.map_map]
  congr 1
  apply List.map_congr_left
  intro jw _
  simp only [Function.comp, coeff_C_mul, coeff_elemD]

section ops
variable [BEq R] [LawfulBEq R]

theorem linearOp_shape (rc rn : Bool) (a : Arr R) (outShape : List Nat) (W : List (List (Nat × R))) :
    (linearOp rc rn a outShape W).shape = outShape := rfl

/-- C03 for reductions: the result of `linearOp` is well-formed -/
theorem linearOp_WF (rc rn : Bool) (a : Arr R) (ha : a.WF) (outShape : List Nat) (W : List (List (Nat × R))) :
    (linearOp rc rn a outShape W).WF := by
  show WF (clean rc rn (mapCoef (linearCol (size outShape) W) a.poly))
  exact WF_clean rc rn _ (WF_mapCoef _ _ ha)

/-- **C10 (sum, cumsum, diff, ediff1d, mean)**: element `i` of `linearOp` is the weighted sum of the elements of `a`
listed in row `i` of the weight matrix (entries pointing outside `a` contribute 0) -/
theorem linearOp_elem (rc rn : Bool) (a : Arr R) (ha : a.WF) (outShape : List Nat) (W : List (List (Nat × R)))
    (i : Fin (size outShape)) :
    (linearOp rc rn a outShape W).elem i = ((W.getD i.val []).map fun jw => C jw.2 * elemD a jw.1).sum := by
  show denAt (clean rc rn (mapCoef (linearCol (size outShape) W) a.poly)) i = _
  rw [denAt_clean rc rn _ (WF_mapCoef _ _ ha), denAt_linearCol]

/-- the same with the out-of-range entries filtered away, so that only genuine elements appear -/
theorem linearOp_elem_filter (rc rn : Bool) (a : Arr R) (ha : a.WF) (outShape : List Nat)
    (W : List (List (Nat × R))) (i : Fin (size outShape)) :
    (linearOp rc rn a outShape W).elem i =
      (((W.getD i.val []).filter fun jw => jw.1 < size a.shape).map fun jw => C jw.2 * elemD a jw.1).sum := by
  rw [linearOp_elem rc rn a ha]
  generalize W.getD i.val [] = row
  induction row with
  | nil => simp
  | cons x xs ih =>
    by_cases h : x.1 < size a.shape
    · simp only [List.map_cons, List.sum_cons, ih, List.filter_cons, h, decide_true, if_true]
    · rw [List.map_cons, List.sum_cons, ih, elemD_of_not_lt a x.1 h, mul_zero, zero_add, List.filter_cons]
      simp only [h, decide_false, Bool.false_eq_true, if_false]

/-- corollary (`sum` over all elements): a row of the weight matrix listing every position with weight 1 gives
`Σ_j a[j]` -/
theorem linearOp_sum_all (rc rn : Bool) (a : Arr R) (ha : a.WF) (outShape : List Nat) (W : List (List (Nat × R)))
    (i : Fin (size outShape)) (hW : W.getD i.val [] = (List.range (size a.shape)).map fun j => (j, (1 : R))) :
    (linearOp rc rn a outShape W).elem i = ∑ j : Fin (size a.shape), a.elem j := by
  rw [linearOp_elem rc rn a ha, hW, List.map_map, sum_range_eq_univ]
  apply Finset.sum_congr rfl
  intro j _
  simp only [Function.comp, C_1, one_mul, elemD_of_lt]

/-! ### 2. `bilinearOp`: sums of products of gathered elements -/

theorem denAt_mul_of_den {m : Nat} (t x y : Poly (Vec R m)) (h : den t = den x * den y) (i : Fin m) :
    denAt t i = denAt x i * denAt y i := by
  simp only [denAt, den_mapCoef, h, map_mul]

/-- the sum loop of `bilinearOp` from any well-formed start value -/
theorem bilinearFold (rc rn : Bool) (a b : Arr R) (ha : a.WF) (hb : b.WF) (m : Nat)
    (pairs : List (List Nat × List Nat)) (s0 : Poly (Vec R m)) (h0 : WF s0) :
    ∃ r, pairs.foldl (fun acc p =>
        match acc with
        | none => none
        | some s =>
          match multiply rc rn (mapCoef (gatherFill m p.1) a.poly) (mapCoef (gatherFill m p.2) b.poly) with
          | none => none
          | some t => some (add rc rn s t)) (some s0) = some r ∧ WF r ∧
      ∀ i : Fin m, denAt r i
        = denAt s0 i + (pairs.map fun p => gatheredElem a p.1 i.val * gatheredElem b p.2 i.val).sum := by
  induction pairs generalizing s0 with
  | nil => exact ⟨s0, rfl, h0, fun i => by simp⟩
  | cons p ps ih =>
    obtain ⟨t, ht, hdt, hwt⟩ := mul_den_WF rc rn (mapCoef (gatherFill m p.1) a.poly)
      (mapCoef (gatherFill m p.2) b.poly) (WF_mapCoef _ _ ha) (WF_mapCoef _ _ hb)
    obtain ⟨r, hr, hwr, hdr⟩ := ih (add rc rn s0 t) (WF_add rc rn _ _ h0 hwt)
    refine ⟨r, ?_, hwr, ?_⟩
    · simp only [List.foldl_cons, ht]
      exact hr
    · intro i
      rw [hdr i, denAt_add rc rn _ _ h0 hwt, denAt_mul_of_den t _ _ hdt, denAt_gatherFill, denAt_gatherFill]
      simp only [List.map_cons, List.sum_cons, add_assoc]

/-- **C10 (inner, outer, matmul, …)**: on well-formed arrays `bilinearOp` never fails, its result is well-formed,
has the requested shape, and element `i` is `Σ_t a[ia(i,t)] * b[ib(i,t)]` -/
theorem bilinearOp_elem (rc rn : Bool) (a b : Arr R) (ha : a.WF) (hb : b.WF) (outShape : List Nat)
    (pairs : List (List Nat × List Nat)) :
    ∃ r : Arr R, bilinearOp rc rn a b outShape pairs = some r ∧ r.WF ∧ r.shape = outShape ∧
      ∀ i : Fin (size r.shape),
        r.elem i = (pairs.map fun p => gatheredElem a p.1 i.val * gatheredElem b p.2 i.val).sum := by
  obtain ⟨p, hp, hw, hd⟩ := bilinearFold rc rn a b ha hb (size outShape) pairs _ WF_zeroPoly
  refine ⟨⟨outShape, p⟩, ?_, hw, rfl, ?_⟩
  · exact congrArg (Option.map fun q => (⟨outShape, q⟩ : Arr R)) hp
  · intro i
    show denAt p i = _
    rw [hd i, denAt_zeroPoly, zero_add]

/-! ### 3. `prodOp`: products of gathered elements -/

theorem denAt_onePoly {m : Nat} (ns : List Name) (hn : ns.Nodup) (i : Fin m) :
    denAt ({ names := ns.take 1, terms := [((ns.take 1).map fun _ => 0, 1)] } : Poly (Vec R m)) i = 1 := by
  simp only [denAt, den_mapCoef, (den_one_WF (S := Vec R m) ns hn).1, map_one]

/-- the product loop of `prodOp` from any well-formed start value -/
theorem prodFold (rc rn : Bool) (a : Arr R) (ha : a.WF) (m : Nat) (groups : List (List Nat))
    (s0 : Poly (Vec R m)) (h0 : WF s0) :
    ∃ r, groups.foldl (fun acc g =>
        match acc with
        | none => none
        | some s => multiply rc rn s (mapCoef (gatherFill m g) a.poly)) (some s0) = some r ∧ WF r ∧
      ∀ i : Fin m, denAt r i = denAt s0 i * (groups.map fun g => gatheredElem a g i.val).prod := by
  induction groups generalizing s0 with
  | nil => exact ⟨s0, rfl, h0, fun i => by simp⟩
  | cons g gs ih =>
    obtain ⟨t, ht, hdt, hwt⟩ := mul_den_WF rc rn s0 (mapCoef (gatherFill m g) a.poly) h0 (WF_mapCoef _ _ ha)
    obtain ⟨r, hr, hwr, hdr⟩ := ih t hwt
    refine ⟨r, ?_, hwr, ?_⟩
    · simp only [List.foldl_cons, ht]
      exact hr
    · intro i
      rw [hdr i, denAt_mul_of_den t _ _ hdt, denAt_gatherFill]
      simp only [List.map_cons, List.prod_cons, mul_assoc]

/-- **C10 (prod)**: on a well-formed array `prodOp` never fails, its result is well-formed, has the requested shape,
and element `i` is `Π_t a[g(i,t)]` -/
theorem prodOp_elem (rc rn : Bool) (a : Arr R) (ha : a.WF) (outShape : List Nat) (groups : List (List Nat)) :
    ∃ r : Arr R, prodOp rc rn a outShape groups = some r ∧ r.WF ∧ r.shape = outShape ∧
      ∀ i : Fin (size r.shape), r.elem i = (groups.map fun g => gatheredElem a g i.val).prod := by
  obtain ⟨p, hp, hw, hd⟩ := prodFold rc rn a ha (size outShape) groups _
    (den_one_WF (S := Vec R (size outShape)) a.poly.names ha.names_nodup).2
  refine ⟨⟨outShape, p⟩, ?_, hw, rfl, ?_⟩
  · exact congrArg (Option.map fun q => (⟨outShape, q⟩ : Arr R)) hp
  · intro i
    show denAt p i = _
    rw [hd i, denAt_onePoly _ ha.names_nodup, one_mul]

/-! ### 4. corollaries: inner and outer products, product of all elements -/

/-- `inner` of two flat arrays: the pairs `([t+1], [t+1])` for `t < n` give `Σ_{t<n} a[t] * b[t]` at position 0 -/
theorem bilinearOp_inner (rc rn : Bool) (a b : Arr R) (ha : a.WF) (hb : b.WF) (outShape : List Nat) (n : Nat) :
    ∃ r : Arr R, bilinearOp rc rn a b outShape ((List.range n).map fun t => ([t + 1], [t + 1])) = some r ∧
      r.WF ∧ r.shape = outShape ∧
      ∀ i : Fin (size r.shape), i.val = 0 → r.elem i = ∑ t : Fin n, elemD a t.val * elemD b t.val := by
  obtain ⟨r, hr, hw, hs, hd⟩ := bilinearOp_elem rc rn a b ha hb outShape
    ((List.range n).map fun t => ([t + 1], [t + 1]))
  refine ⟨r, hr, hw, hs, fun i hi => ?_⟩
  rw [hd i, List.map_map, sum_range_eq_univ]
  apply Finset.sum_congr rfl
  intro t _
  simp [Function.comp, gatheredElem_eq, hi]

/-- `outer` of two flat arrays with `na` and `nb` elements: one pair of index lists `k ↦ k / nb + 1`, `k ↦ k % nb + 1`
gives `a[k / nb] * b[k % nb]` at every position `k < na * nb` -/
theorem bilinearOp_outer (rc rn : Bool) (a b : Arr R) (ha : a.WF) (hb : b.WF) (outShape : List Nat) (na nb : Nat) :
    ∃ r : Arr R, bilinearOp rc rn a b outShape
        [((List.range (na * nb)).map fun k => k / nb + 1, (List.range (na * nb)).map fun k => k % nb + 1)] = some r ∧
      r.WF ∧ r.shape = outShape ∧
      ∀ k : Fin (size r.shape), k.val < na * nb → r.elem k = elemD a (k.val / nb) * elemD b (k.val % nb) := by
  obtain ⟨r, hr, hw, hs, hd⟩ := bilinearOp_elem rc rn a b ha hb outShape
    [((List.range (na * nb)).map fun k => k / nb + 1, (List.range (na * nb)).map fun k => k % nb + 1)]
  refine ⟨r, hr, hw, hs, fun k hk => ?_⟩
  rw [hd k]
  simp [gatheredElem_eq, List.getD_eq_getElem?_getD, hk]

/-- `prod` over all elements: the groups `[t+1]` for `t < size a.shape` give `Π_t a[t]` at position 0 -/
theorem prodOp_all (rc rn : Bool) (a : Arr R) (ha : a.WF) (outShape : List Nat) :
    ∃ r : Arr R, prodOp rc rn a outShape ((List.range (size a.shape)).map fun t => [t + 1]) = some r ∧
      r.WF ∧ r.shape = outShape ∧
      ∀ i : Fin (size r.shape), i.val = 0 → r.elem i = ((List.range (size a.shape)).map (elemD a)).prod := by
  obtain ⟨r, hr, hw, hs, hd⟩ := prodOp_elem rc rn a ha outShape ((List.range (size a.shape)).map fun t => [t + 1])
  refine ⟨r, hr, hw, hs, fun i hi => ?_⟩
  rw [hd i, List.map_map]
  congr 1
  apply List.map_congr_left
  intro t _
  simp [Function.comp, gatheredElem_eq, hi]
end ops
end Np

import Np.Proofs.Compare
import Np.Proofs.Gather
import Np.Proofs.DerivFull
import Mathlib.Data.List.GetD
/-! C07 on arrays: `greater`/`less`/…, `equal`/`not_equal`, `where`, `maximum`, `minimum` element by element.
Both operands are brought to one layout by `alignPair`; on that layout two polynomials are equal iff their
coefficient columns are, so every statement about the aligned columns is a statement about the elements. -/
open MvPolynomial
set_option linter.unusedSectionVars false
namespace Np
open Np.Index

/-! ### 1. both components of `alignPair` -/
section align
variable {S : Type} [CommSemiring S]

theorem names_alignPair (a b : Poly S) : (alignPair a b).1.names = (alignPair a b).2.names := rfl

theorem expos_alignPair_snd (a b : Poly S) : (alignPair a b).2.expos = (alignPair a b).1.expos := by
  rw [expos_alignPair_fst]; exact expos_alignExpo _ _

theorem expos_alignPair (a b : Poly S) : (alignPair a b).1.expos = (alignPair a b).2.expos :=
  (expos_alignPair_snd a b).symm

theorem WF_alignPair_snd (a b : Poly S) (ha : WF a) (hb : WF b) : WF (alignPair a b).2 := by
  have h := WF_alignPair_fst a b ha hb
  refine ⟨h.names_nodup, ?_, ?_⟩
  · rw [expos_alignPair_snd]; exact h.expos_nodup
  · intro e he
    rw [expos_alignPair_snd] at he
    exact h.row_len e he

theorem den_alignPair_snd (a b : Poly S) (_ha : WF a) (hb : WF b) : den (alignPair a b).2 = den b := by
  have hc := commonNames_nodup a b
  have hsb : ∀ n ∈ b.names, n ∈ commonNames a b := fun n h => (mem_commonNames a b n).2 (Or.inr h)
  have wb := WF_alignIndet (commonNames a b) b hb hc hsb
  have db := den_alignIndet (commonNames a b) b hb.names_nodup hc
    (fun t _ n hn => expoAt_not_mem b.names t.1 n (fun h => hn (hsb n h)))
  rw [← db]
  exact den_alignExpo _ _ wb.expos_nodup
    (nodup_of_sortedLt expoLt_strictTotal _ (sortedLt_sortDedup expoLt_strictTotal _))
    (fun e h => (mem_sortDedup expoLt_strictTotal e _).2 (List.mem_append.2 (Or.inr h)))

/-- everything the array operations use about `alignPair`, in one statement -/
theorem alignPair_facts (a b : Poly S) (ha : WF a) (hb : WF b) :
    (alignPair a b).1.names = (alignPair a b).2.names ∧ (alignPair a b).1.expos = (alignPair a b).2.expos ∧
    WF (alignPair a b).1 ∧ WF (alignPair a b).2 ∧
    den (alignPair a b).1 = den a ∧ den (alignPair a b).2 = den b :=
  ⟨rfl, expos_alignPair a b, WF_alignPair_fst a b ha hb, WF_alignPair_snd a b ha hb,
    den_alignPair_fst a b ha hb, den_alignPair_snd a b ha hb⟩

/-! ### on one layout, the denotation determines the coefficient columns -/

/-- distinct rows of the right length are distinct monomials -/
theorem fsN_inj (ns : List Name) (hn : ns.Nodup) (e1 e2 : Expo) (h1 : e1.length = ns.length)
    (h2 : e2.length = ns.length) (h : fsN ns e1 = fsN ns e2) : e1 = e2 := by
  apply row_ext ns hn e1 e2 h1 h2
  intro n _
  rw [← fsN_apply ns hn, ← fsN_apply ns hn, h]

theorem coeff_denT_not_mem (ns : List Name) (hn : ns.Nodup) (ts : List (Expo × S))
    (hl : ∀ t ∈ ts, t.1.length = ns.length) (e : Expo) (he : e.length = ns.length)
    (hne : e ∉ ts.map (·.1)) : coeff (fsN ns e) (denT ns ts) = 0 := by
  induction ts with
  | nil => simp
  | cons t ts ih =>
    simp only [List.map_cons, List.mem_cons, not_or] at hne
    have hmono : fsN ns t.1 ≠ fsN ns e := fun h =>
      hne.1 (fsN_inj ns hn _ _ (hl t (by simp)) he h).symm
    rw [denT_cons, coeff_add, coeff_monomial, if_neg hmono, zero_add,
      ih (fun t' ht' => hl t' (by simp [ht'])) hne.2]

/-- the coefficient of the monomial of storage row `j` is the coefficient stored in row `j` -/
theorem coeff_denT_getElem (ns : List Name) (hn : ns.Nodup) (ts : List (Expo × S))
    (hl : ∀ t ∈ ts, t.1.length = ns.length) (hnd : (ts.map (·.1)).Nodup) (j : Nat) (hj : j < ts.length) :
    coeff (fsN ns ts[j].1) (denT ns ts) = ts[j].2 := by
  induction ts generalizing j with
  | nil => simp at hj
  | cons t ts ih =>
    simp only [List.map_cons, List.nodup_cons] at hnd
    have hl' : ∀ t' ∈ ts, t'.1.length = ns.length := fun t' ht' => hl t' (by simp [ht'])
    cases j with
    | zero =>
      simp only [List.getElem_cons_zero, denT_cons, coeff_add, coeff_monomial, if_true]
      rw [coeff_denT_not_mem ns hn ts hl' t.1 (hl t (by simp)) hnd.1, add_zero]
    | succ j =>
      simp only [List.length_cons, Nat.add_lt_add_iff_right] at hj
      simp only [List.getElem_cons_succ, denT_cons, coeff_add, coeff_monomial]
      have hne : fsN ns t.1 ≠ fsN ns ts[j].1 := by
        intro h
        have := fsN_inj ns hn _ _ (hl t (by simp)) (hl' _ (List.getElem_mem hj)) h
        exact hnd.1 (this ▸ List.mem_map_of_mem (List.getElem_mem hj))
      rw [if_neg hne, zero_add, ih hl' hnd.2 j hj]

theorem coeff_den_getElem (p : Poly S) (hw : WF p) (j : Nat) (hj : j < p.terms.length) :
    coeff (fsN p.names p.terms[j].1) (den p) = p.terms[j].2 :=
  coeff_denT_getElem p.names hw.names_nodup p.terms
    (fun t ht => hw.row_len t.1 (List.mem_map_of_mem ht)) hw.expos_nodup j hj

/-- two well-formed polynomials on the same layout that denote the same have the same coefficient columns -/
theorem cols_eq_of_den_eq (p q : Poly S) (hp : WF p) (hq : WF q) (hn : p.names = q.names)
    (he : p.expos = q.expos) (h : den p = den q) : p.cols = q.cols := by
  have hlen : p.terms.length = q.terms.length := by
    have := congrArg List.length he
    simpa [Poly.expos] using this
  apply List.ext_getElem (by simpa [Poly.cols] using hlen)
  intro j h1 h2
  have hj1 : j < p.terms.length := by simpa [Poly.cols] using h1
  have hj2 : j < q.terms.length := by simpa [Poly.cols] using h2
  have hrow : p.terms[j].1 = q.terms[j].1 := by
    have h1' : j < p.expos.length := by simpa [Poly.expos] using hj1
    have h2' : j < q.expos.length := by simpa [Poly.expos] using hj2
    have : p.expos[j] = q.expos[j] := by simp only [he]
    simpa [Poly.expos] using this
  have e1 := coeff_den_getElem p hp j hj1
  have e2 := coeff_den_getElem q hq j hj2
  rw [h, hn, hrow, e2] at e1
  simpa [Poly.cols] using e1.symm

theorem den_eq_of_cols_eq (p q : Poly S) (hn : p.names = q.names) (he : p.expos = q.expos)
    (hc : p.cols = q.cols) : den p = den q := by
  have ht : p.terms = q.terms := by
    have hlen : p.terms.length = q.terms.length := by
      have := congrArg List.length he
      simpa [Poly.expos] using this
    apply List.ext_getElem hlen
    intro j h1 h2
    have a1 : p.expos[j]'(by simpa [Poly.expos] using h1) = q.expos[j]'(by simpa [Poly.expos] using h2) := by
      simp only [he]
    have a2 : p.cols[j]'(by simpa [Poly.cols] using h1) = q.cols[j]'(by simpa [Poly.cols] using h2) := by
      simp only [hc]
    simp only [Poly.expos, Poly.cols, List.getElem_map] at a1 a2
    exact Prod.ext a1 a2
  simp only [den, hn, ht]

theorem den_eq_iff_cols_eq (p q : Poly S) (hp : WF p) (hq : WF q) (hn : p.names = q.names)
    (he : p.expos = q.expos) : den p = den q ↔ p.cols = q.cols :=
  ⟨cols_eq_of_den_eq p q hp hq hn he, den_eq_of_cols_eq p q hn he⟩
end align

/-! ### the array level: elements of the aligned operands -/
section arr
variable {R : Type} [CommSemiring R] [BEq R] [LawfulBEq R] {n : Nat}

theorem colAt_eq_cols (p : Poly (Vec R n)) (i : Fin n) : colAt p i = (mapCoef (Vec.evalAt i) p).cols := by
  simp [colAt, Poly.cols, mapCoef, List.map_map, Function.comp_def]

theorem length_colAt (p : Poly (Vec R n)) (i : Fin n) : (colAt p i).length = p.expos.length := by
  simp [colAt, Poly.expos]

theorem expos_mapCoef {S T : Type} (φ : S → T) (p : Poly S) : (mapCoef φ p).expos = p.expos := by
  simp [Poly.expos, mapCoef, List.map_map, Function.comp_def]

/-- on one layout: element `i` of two arrays is the same polynomial iff the two coefficient entries at `i`
agree in every storage row -/
theorem denAt_eq_iff_colAt (p q : Poly (Vec R n)) (hp : WF p) (hq : WF q) (hn : p.names = q.names)
    (he : p.expos = q.expos) (i : Fin n) : denAt p i = denAt q i ↔ colAt p i = colAt q i := by
  rw [colAt_eq_cols, colAt_eq_cols]
  exact den_eq_iff_cols_eq _ _ (WF_mapCoef _ _ hp) (WF_mapCoef _ _ hq) hn
    (by rw [expos_mapCoef, expos_mapCoef, he])

theorem denAt_alignPair_fst (a b : Poly (Vec R n)) (ha : WF a) (hb : WF b) (i : Fin n) :
    denAt (alignPair a b).1 i = denAt a i := by
  simp only [denAt, den_mapCoef, den_alignPair_fst a b ha hb]

theorem denAt_alignPair_snd (a b : Poly (Vec R n)) (ha : WF a) (hb : WF b) (i : Fin n) :
    denAt (alignPair a b).2 i = denAt b i := by
  simp only [denAt, den_mapCoef, den_alignPair_snd a b ha hb]

/-! ### 3. `where` -/

/-- `where(mask, x1, x2)` before cleaning -/
def selectRaw (mask : Vec Bool n) (a b : Poly (Vec R n)) : Poly (Vec R n) :=
  { names := (alignPair a b).1.names,
    terms := List.zipWith (fun t u => (t.1, Vec.ofFn fun i => if mask.get i then t.2.get i else u.2.get i))
      (alignPair a b).1.terms (alignPair a b).2.terms }

theorem selectArr_eq (rc rn : Bool) (mask : Vec Bool n) (a b : Poly (Vec R n)) :
    selectArr rc rn mask a b = clean rc rn (selectRaw mask a b) := rfl

theorem map_fst_zipWith {α β γ : Type} (F : Expo × α → Expo × β → γ) :
    ∀ (l1 : List (Expo × α)) (l2 : List (Expo × β)), l1.map (·.1) = l2.map (·.1) →
      (List.zipWith (fun t u => (t.1, F t u)) l1 l2).map (·.1) = l1.map (·.1)
  | [], _, _ => by simp
  | _ :: _, [], h => by simp at h
  | t :: l1, u :: l2, h => by
    simp only [List.map_cons, List.cons.injEq] at h
    simp [map_fst_zipWith F l1 l2 h.2]

/-- choosing per row between two lists with the same rows -/
theorem zipWith_choose {α β : Type} (f : α → β) (c : Bool) :
    ∀ (l1 l2 : List (Expo × α)), l1.map (·.1) = l2.map (·.1) →
      List.zipWith (fun t u => (t.1, if c then f t.2 else f u.2)) l1 l2 =
        if c then l1.map (fun t => (t.1, f t.2)) else l2.map (fun t => (t.1, f t.2))
  | [], _, _ => by cases c <;> simp_all
  | _ :: _, [], h => by simp at h
  | t :: l1, u :: l2, h => by
    simp only [List.map_cons, List.cons.injEq] at h
    have ih := zipWith_choose f c l1 l2 h.2
    cases c
    · simp only [Bool.false_eq_true, if_false] at ih ⊢
      simp [ih, h.1]
    · simp only [if_true] at ih ⊢
      simp [ih]

theorem expos_selectRaw (mask : Vec Bool n) (a b : Poly (Vec R n)) :
    (selectRaw mask a b).expos = (alignPair a b).1.expos :=
  map_fst_zipWith _ _ _ (expos_alignPair a b)

theorem WF_selectRaw (mask : Vec Bool n) (a b : Poly (Vec R n)) (ha : WF a) (hb : WF b) :
    WF (selectRaw mask a b) := by
  have h := WF_alignPair_fst a b ha hb
  refine ⟨h.names_nodup, ?_, ?_⟩
  · rw [expos_selectRaw]; exact h.expos_nodup
  · intro e he
    rw [expos_selectRaw] at he
    exact h.row_len e he

theorem denAt_selectRaw (mask : Vec Bool n) (a b : Poly (Vec R n)) (i : Fin n) :
    denAt (selectRaw mask a b) i =
      if mask.get i then denAt (alignPair a b).1 i else denAt (alignPair a b).2 i := by
  have hz := zipWith_choose (fun v : Vec R n => v.get i) (mask.get i) (alignPair a b).1.terms
    (alignPair a b).2.terms (expos_alignPair a b)
  have hterms : (mapCoef (Vec.evalAt i) (selectRaw mask a b)).terms =
      if mask.get i then (alignPair a b).1.terms.map (fun t => (t.1, t.2.get i))
      else (alignPair a b).2.terms.map (fun t => (t.1, t.2.get i)) := by
    rw [← hz]
    simp only [mapCoef, selectRaw, List.map_zipWith, Vec.evalAt_apply, Vec.get_ofFn]
  simp only [denAt, den]
  rw [hterms]
  split <;> rfl

/-- **`where`** element by element -/
theorem selectArr_elem (rc rn : Bool) (mask : Vec Bool n) (a b : Poly (Vec R n)) (ha : WF a) (hb : WF b)
    (i : Fin n) : denAt (selectArr rc rn mask a b) i = if mask.get i then denAt a i else denAt b i := by
  rw [selectArr_eq, denAt_clean rc rn _ (WF_selectRaw mask a b ha hb), denAt_selectRaw,
    denAt_alignPair_fst a b ha hb, denAt_alignPair_snd a b ha hb]

theorem WF_selectArr (rc rn : Bool) (mask : Vec Bool n) (a b : Poly (Vec R n)) (ha : WF a) (hb : WF b) :
    WF (selectArr rc rn mask a b) :=
  WF_clean rc rn _ (WF_selectRaw mask a b ha hb)

/-! ### 2. `equal`, `not_equal` -/

theorem list_eq_iff_getD {α : Type} (z : α) (c1 c2 : List α) (h : c1.length = c2.length) :
    c1 = c2 ↔ ∀ j < c1.length, c1.getD j z = c2.getD j z := by
  constructor
  · rintro rfl j _; rfl
  · intro hall
    apply List.ext_getElem h
    intro j h1 h2
    have := hall j h1
    simpa [List.getD_eq_getElem?_getD, List.getElem?_eq_getElem h1, List.getElem?_eq_getElem h2] using this

theorem length_colAt_alignPair (a b : Poly (Vec R n)) (i : Fin n) :
    (colAt (alignPair a b).1 i).length = (colAt (alignPair a b).2 i).length := by
  rw [length_colAt, length_colAt, expos_alignPair]

theorem equalArr_get (a b : Poly (Vec R n)) (i : Fin n) :
    (equalArr a b).get i = true ↔ colAt (alignPair a b).1 i = colAt (alignPair a b).2 i := by
  rw [list_eq_iff_getD 0 _ _ (length_colAt_alignPair a b i),
    ← equal_zip_iff 0 _ _ (length_colAt_alignPair a b i)]
  simp only [equalArr, Vec.get_ofFn]

/-- **`equal`**: true at `i` iff the two elements at `i` are the same polynomial -/
theorem equalArr_spec (a b : Poly (Vec R n)) (ha : WF a) (hb : WF b) (i : Fin n) :
    (equalArr a b).get i = true ↔ denAt a i = denAt b i := by
  rw [equalArr_get, ← denAt_eq_iff_colAt _ _ (WF_alignPair_fst a b ha hb) (WF_alignPair_snd a b ha hb)
    rfl (expos_alignPair a b) i, denAt_alignPair_fst a b ha hb, denAt_alignPair_snd a b ha hb]

/-- **`not_equal`** is the negation of `equal` (no well-formedness needed) -/
theorem notEqualArr_get (a b : Poly (Vec R n)) (i : Fin n) :
    (notEqualArr a b).get i = !(equalArr a b).get i := by
  have h1 := not_equal_zip_iff (0 : R) _ _ (length_colAt_alignPair a b i)
  have h2 := equal_zip_iff (0 : R) _ _ (length_colAt_alignPair a b i)
  rw [← h2] at h1
  simp only [notEqualArr, equalArr, Vec.get_ofFn]
  rw [Bool.eq_iff_iff, h1]
  simp

theorem notEqualArr_spec (a b : Poly (Vec R n)) (ha : WF a) (hb : WF b) (i : Fin n) :
    (notEqualArr a b).get i = true ↔ denAt a i ≠ denAt b i := by
  rw [notEqualArr_get, Ne, ← equalArr_spec a b ha hb i]
  simp

/-! ### 4. `maximum`, `minimum` -/

/-- the initial verdict of the walk only matters when the two columns agree at every visited index -/
theorem cmpWalk_init_congr {K : Type} [BEq K] [LawfulBEq K] (order : List Nat) (i1 i2 : Bool)
    (rel : K → K → Bool) (z : K) (c1 c2 : List K)
    (h : (∀ j ∈ order, c1.getD j z = c2.getD j z) → i1 = i2) :
    cmpWalk order i1 rel z c1 c2 = cmpWalk order i2 rel z c1 c2 := by
  rw [cmpWalk_last, cmpWalk_last]
  cases hfind : order.reverse.find? (fun i => c1.getD i z != c2.getD i z) with
  | some i => rfl
  | none =>
    apply h
    intro j hj
    have := List.find?_eq_none.1 hfind j (List.mem_reverse.2 hj)
    simpa using this

/-- if the aligned columns agree along the whole walk, they have the same head -/
theorem headD_colAt_eq (graded reverse : Bool) (a b : Poly (Vec R n)) (i : Fin n)
    (hall : ∀ j ∈ glexsort graded reverse (alignPair a b).1.expos,
      (colAt (alignPair a b).1 i).getD j 0 = (colAt (alignPair a b).2 i).getD j 0) :
    (colAt (alignPair a b).1 i).headD 0 = (colAt (alignPair a b).2 i).headD 0 := by
  rw [headD_eq_getD_zero, headD_eq_getD_zero]
  by_cases h0 : 0 < (alignPair a b).1.expos.length
  · exact hall 0 ((mem_glexsort graded reverse _ 0).2 h0)
  · have l1 : (colAt (alignPair a b).1 i).length = 0 := by rw [length_colAt]; omega
    have l2 : (colAt (alignPair a b).2 i).length = 0 := by rw [← length_colAt_alignPair]; exact l1
    rw [List.eq_nil_of_length_eq_zero l1, List.eq_nil_of_length_eq_zero l2]

/-- for an irreflexive `lt`, the mask of `maximum` is exactly `greater` -/
theorem maximumArr_eq (lt : R → R → Bool) (hirr : ∀ x, lt x x = false) (rc rn graded reverse : Bool)
    (a b : Poly (Vec R n)) :
    maximumArr lt rc rn graded reverse a b = selectArr rc rn (compareArr lt .gt graded reverse a b) a b := by
  show selectArr rc rn (Vec.ofFn fun i => cmpWalk (glexsort graded reverse (alignPair a b).1.expos) false
    (fun x y => lt y x) 0 (colAt (alignPair a b).1 i) (colAt (alignPair a b).2 i)) a b = _
  congr 1
  apply Vec.ext'; intro i
  simp only [Vec.get_ofFn, compareArr]
  apply cmpWalk_init_congr
  intro hall
  show false = lt _ _
  rw [headD_colAt_eq graded reverse a b i hall, hirr]

/-- … and the mask of `minimum` is exactly `less` -/
theorem minimumArr_eq (lt : R → R → Bool) (hirr : ∀ x, lt x x = false) (rc rn graded reverse : Bool)
    (a b : Poly (Vec R n)) :
    minimumArr lt rc rn graded reverse a b = selectArr rc rn (compareArr lt .lt graded reverse a b) a b := by
  show selectArr rc rn (Vec.ofFn fun i => cmpWalk (glexsort graded reverse (alignPair a b).1.expos) false
    (fun x y => lt x y) 0 (colAt (alignPair a b).1 i) (colAt (alignPair a b).2 i)) a b = _
  congr 1
  apply Vec.ext'; intro i
  simp only [Vec.get_ofFn, compareArr]
  apply cmpWalk_init_congr
  intro hall
  show false = lt _ _
  rw [headD_colAt_eq graded reverse a b i hall, hirr]

/-- **`maximum`** element by element: `x1` where `greater(x1, x2)`, else `x2` -/
theorem maximumArr_elem (lt : R → R → Bool) (hirr : ∀ x, lt x x = false) (rc rn graded reverse : Bool)
    (a b : Poly (Vec R n)) (ha : WF a) (hb : WF b) (i : Fin n) :
    denAt (maximumArr lt rc rn graded reverse a b) i =
      if (compareArr lt .gt graded reverse a b).get i then denAt a i else denAt b i := by
  rw [maximumArr_eq lt hirr, selectArr_elem rc rn _ a b ha hb]

/-- **`minimum`** element by element: `x1` where `less(x1, x2)`, else `x2` -/
theorem minimumArr_elem (lt : R → R → Bool) (hirr : ∀ x, lt x x = false) (rc rn graded reverse : Bool)
    (a b : Poly (Vec R n)) (ha : WF a) (hb : WF b) (i : Fin n) :
    denAt (minimumArr lt rc rn graded reverse a b) i =
      if (compareArr lt .lt graded reverse a b).get i then denAt a i else denAt b i := by
  rw [minimumArr_eq lt hirr, selectArr_elem rc rn _ a b ha hb]

/-- for any `lt` whatsoever: every element of `maximum`/`minimum` is one of the two operands' elements -/
theorem maximumArr_elem_or (lt : R → R → Bool) (rc rn graded reverse : Bool) (a b : Poly (Vec R n))
    (ha : WF a) (hb : WF b) (i : Fin n) :
    denAt (maximumArr lt rc rn graded reverse a b) i = denAt a i ∨
      denAt (maximumArr lt rc rn graded reverse a b) i = denAt b i := by
  unfold maximumArr
  rw [selectArr_elem rc rn _ a b ha hb]
  split
  · exact Or.inl rfl
  · exact Or.inr rfl

theorem minimumArr_elem_or (lt : R → R → Bool) (rc rn graded reverse : Bool) (a b : Poly (Vec R n))
    (ha : WF a) (hb : WF b) (i : Fin n) :
    denAt (minimumArr lt rc rn graded reverse a b) i = denAt a i ∨
      denAt (minimumArr lt rc rn graded reverse a b) i = denAt b i := by
  unfold minimumArr
  rw [selectArr_elem rc rn _ a b ha hb]
  split
  · exact Or.inl rfl
  · exact Or.inr rfl

theorem WF_maximumArr (lt : R → R → Bool) (rc rn graded reverse : Bool) (a b : Poly (Vec R n))
    (ha : WF a) (hb : WF b) : WF (maximumArr lt rc rn graded reverse a b) := WF_selectArr rc rn _ a b ha hb

theorem WF_minimumArr (lt : R → R → Bool) (rc rn graded reverse : Bool) (a b : Poly (Vec R n))
    (ha : WF a) (hb : WF b) : WF (minimumArr lt rc rn graded reverse a b) := WF_selectArr rc rn _ a b ha hb

/-! ### 5. the four comparison operators and trichotomy -/

/-- the aligned rows are duplicate-free whatever the operands -/
theorem expos_alignPair_nodup (a b : Poly (Vec R n)) : (alignPair a b).1.expos.Nodup := by
  rw [expos_alignPair_fst]
  exact nodup_of_sortedLt expoLt_strictTotal _ (sortedLt_sortDedup expoLt_strictTotal _)

/-- `compare_walk_decides` without the non-emptiness hypothesis (with no rows the walk returns its start) -/
theorem compare_walk_decides' {K : Type} [LinearOrder K] [BEq K] [LawfulBEq K] (graded reverse : Bool)
    (expos : List (List Nat)) (z : K) (hnd : expos.Nodup) (op : CmpOp) (c1 c2 : List K)
    (h0 : expos.length = 0 → c1.getD 0 z = c2.getD 0 z) :
    cmpWalk (glexsort graded reverse expos)
        (op.rel (fun x y => decide (x < y)) (c1.getD 0 z) (c2.getD 0 z))
        (op.rel (fun x y => decide (x < y))) z c1 c2 = true ↔
      CmpSpec graded reverse expos z op c1 c2 := by
  by_cases hl : 0 < expos.length
  · exact compare_walk_decides graded reverse expos z hnd hl op c1 c2
  · have hlen : expos.length = 0 := by omega
    have hnil : glexsort graded reverse expos = [] := by
      apply List.eq_nil_iff_forall_not_mem.2
      intro j hj
      rw [mem_glexsort] at hj; omega
    rw [hnil, h0 hlen]
    cases op <;> simp [cmpWalk, CmpOp.rel, CmpSpec, ColGt, hlen]

section linear
variable [LinearOrder R]

/-- **`greater`, `greater_equal`, `less`, `less_equal`** at element `i`, in terms of the aligned columns -/
theorem compareArr_spec (op : CmpOp) (graded reverse : Bool) (a b : Poly (Vec R n)) (i : Fin n) :
    (compareArr (fun x y => decide (x < y)) op graded reverse a b).get i = true ↔
      CmpSpec graded reverse (alignPair a b).1.expos 0 op (colAt (alignPair a b).1 i) (colAt (alignPair a b).2 i) := by
  simp only [compareArr, Vec.get_ofFn, headD_eq_getD_zero]
  apply compare_walk_decides' graded reverse _ 0 (expos_alignPair_nodup a b)
  intro hlen
  have l1 : (colAt (alignPair a b).1 i).length = 0 := by rw [length_colAt]; exact hlen
  have l2 : (colAt (alignPair a b).2 i).length = 0 := by rw [← length_colAt_alignPair]; exact l1
  rw [List.eq_nil_of_length_eq_zero l1, List.eq_nil_of_length_eq_zero l2]

theorem equalArr_cols (a b : Poly (Vec R n)) (i : Fin n) :
    (equalArr a b).get i = true ↔ ∀ j < (alignPair a b).1.expos.length,
      (colAt (alignPair a b).1 i).getD j 0 = (colAt (alignPair a b).2 i).getD j 0 := by
  rw [equalArr_get, list_eq_iff_getD 0 _ _ (length_colAt_alignPair a b i), length_colAt]

/-- **trichotomy**: at every element exactly one of `greater`, `equal`, `less` is true -/
theorem compareArr_trichotomy (graded reverse : Bool) (a b : Poly (Vec R n)) (i : Fin n) :
    let G := (compareArr (fun x y => decide (x < y)) .gt graded reverse a b).get i
    let E := (equalArr a b).get i
    let L := (compareArr (fun x y => decide (x < y)) .lt graded reverse a b).get i
    (G = true ∨ E = true ∨ L = true) ∧ ¬ (G = true ∧ E = true) ∧ ¬ (G = true ∧ L = true) ∧
      ¬ (E = true ∧ L = true) := by
  intro G E L
  have hnd := expos_alignPair_nodup a b
  have hG : G = true ↔ _ := compareArr_spec .gt graded reverse a b i
  have hL : L = true ↔ _ := compareArr_spec .lt graded reverse a b i
  have hE : E = true ↔ _ := equalArr_cols a b i
  simp only [CmpSpec] at hG hL
  rw [hG, hE, hL]
  refine ⟨?_, ?_, ?_, ?_⟩
  · rcases colGt_trichotomy graded reverse _ 0 hnd (colAt (alignPair a b).1 i) (colAt (alignPair a b).2 i)
      with h | h | h
    · exact Or.inr (Or.inr h)
    · exact Or.inr (Or.inl h)
    · exact Or.inl h
  · rintro ⟨h1, h2⟩; exact not_colGt_of_all_eq h2 h1
  · rintro ⟨h1, h2⟩; exact colGt_asymm graded reverse _ 0 hnd _ _ h1 h2
  · rintro ⟨h1, h2⟩; exact not_colGt_of_all_eq (fun j hj => (h1 j hj).symm) h2

/-- `greater_equal` is the negation of `less`, `less_equal` the negation of `greater` -/
theorem compareArr_ge_iff (graded reverse : Bool) (a b : Poly (Vec R n)) (i : Fin n) :
    (compareArr (fun x y => decide (x < y)) .ge graded reverse a b).get i = true ↔
      ¬ (compareArr (fun x y => decide (x < y)) .lt graded reverse a b).get i = true := by
  rw [compareArr_spec, compareArr_spec]; rfl

theorem compareArr_le_iff (graded reverse : Bool) (a b : Poly (Vec R n)) (i : Fin n) :
    (compareArr (fun x y => decide (x < y)) .le graded reverse a b).get i = true ↔
      ¬ (compareArr (fun x y => decide (x < y)) .gt graded reverse a b).get i = true := by
  rw [compareArr_spec, compareArr_spec]; rfl

/-! ### the aligned columns are the coefficients of the elements -/

/-- entry `j` of the column of element `i` is the coefficient of the monomial of row `j` in that element -/
theorem colAt_getD_coeff (p : Poly (Vec R n)) (hw : WF p) (i : Fin n) (j : Nat) (hj : j < p.expos.length) :
    (colAt p i).getD j 0 = coeff (fsN p.names (p.expos.getD j [])) (denAt p i) := by
  have hj' : j < p.terms.length := by simpa [Poly.expos] using hj
  have h := coeff_den_getElem (mapCoef (Vec.evalAt i) p) (WF_mapCoef _ _ hw) j (by simpa [mapCoef] using hj')
  simp only [mapCoef, List.getElem_map, Vec.evalAt_apply] at h
  simp only [denAt, mapCoef, colAt, Poly.expos, List.getD_eq_getElem?_getD, List.getElem?_map,
    List.getElem?_eq_getElem hj', Option.map_some, Option.getD_some]
  exact h.symm

/-- **`greater`** at element `i`, read on the polynomials themselves: over the common names `N` and the aligned
rows, some monomial has a larger coefficient in `a[i]` and all larger monomials have equal coefficients -/
theorem compareArr_gt_coeff (graded reverse : Bool) (a b : Poly (Vec R n)) (ha : WF a) (hb : WF b) (i : Fin n) :
    (compareArr (fun x y => decide (x < y)) .gt graded reverse a b).get i = true ↔
      ∃ e ∈ (alignPair a b).1.expos,
        coeff (fsN (commonNames a b) e) (denAt b i) < coeff (fsN (commonNames a b) e) (denAt a i) ∧
        ∀ e' ∈ (alignPair a b).1.expos, glexLt graded reverse e e' = true →
          coeff (fsN (commonNames a b) e') (denAt a i) = coeff (fsN (commonNames a b) e') (denAt b i) := by
  have h1 : ∀ j < (alignPair a b).1.expos.length, (colAt (alignPair a b).1 i).getD j 0 =
      coeff (fsN (commonNames a b) ((alignPair a b).1.expos.getD j [])) (denAt a i) := fun j hj => by
    rw [colAt_getD_coeff _ (WF_alignPair_fst a b ha hb) i j hj, denAt_alignPair_fst a b ha hb]; rfl
  have h2 : ∀ j < (alignPair a b).1.expos.length, (colAt (alignPair a b).2 i).getD j 0 =
      coeff (fsN (commonNames a b) ((alignPair a b).1.expos.getD j [])) (denAt b i) := fun j hj => by
    rw [colAt_getD_coeff _ (WF_alignPair_snd a b ha hb) i j (by rw [expos_alignPair_snd]; exact hj),
      denAt_alignPair_snd a b ha hb, expos_alignPair_snd]; rfl
  rw [compareArr_spec]
  simp only [CmpSpec, ColGt]
  constructor
  · rintro ⟨j, hj, hlt, hab⟩
    refine ⟨(alignPair a b).1.expos.getD j [], ?_, ?_, ?_⟩
    · rw [List.getD_eq_getElem _ _ hj]; exact List.getElem_mem hj
    · rwa [h1 j hj, h2 j hj] at hlt
    · intro e' he' hlt'
      obtain ⟨k, hk, rfl⟩ := List.getElem_of_mem he'
      have := hab k hk (by rwa [List.getD_eq_getElem _ _ hk])
      rwa [h1 k hk, h2 k hk, List.getD_eq_getElem _ _ hk] at this
  · rintro ⟨e, he, hlt, hab⟩
    obtain ⟨j, hj, rfl⟩ := List.getElem_of_mem he
    refine ⟨j, hj, ?_, ?_⟩
    · rw [h1 j hj, h2 j hj, List.getD_eq_getElem _ _ hj]; exact hlt
    · intro k hk hlt'
      rw [h1 k hk, h2 k hk, List.getD_eq_getElem _ _ hk]
      apply hab _ (List.getElem_mem hk)
      rwa [List.getD_eq_getElem _ _ hj, List.getD_eq_getElem _ _ hk] at hlt'
end linear
end arr
end Np

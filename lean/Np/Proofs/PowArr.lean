import Np.Proofs.Arr
import Np.Proofs.WF
import Np.Proofs.Shape
/-! C01, array exponents: `poly ** array_of_exponents` raises every broadcast element to its own exponent.
`Arr.powArr` is the sum over the distinct exponents `d` of the masked `d`-th power of the broadcast base. -/
open MvPolynomial
set_option linter.unusedSectionVars false
namespace Np
open Shape
variable {R : Type}

/-! ### 1. the mask keeps the elements whose exponent is `d` and zeroes the others -/

section semi
variable [CommSemiring R]

theorem denT_zero_cols {S T : Type} [CommSemiring S] (ns : List Name) (ts : List (Expo × T)) :
    denT ns (ts.map fun t => (t.1, (0 : S))) = 0 := by
  induction ts with
  | nil => simp
  | cons t ts ih => simp [ih]

/-- element `i` of a masked polynomial array: the element itself where the exponent is `d`, zero elsewhere -/
theorem mask_denAt {N : Nat} (kk : Fin N → Nat) (d : Nat) (p : Poly (Vec R N)) (i : Fin N) :
    denAt (mapCoef (fun v => Vec.ofFn fun j => if kk j == d then v.get j else 0) p) i =
      if kk i = d then denAt p i else 0 := by
  simp only [denAt, den, mapCoef, List.map_map]
  by_cases h : kk i = d
  · rw [if_pos h]
    congr 1
    apply List.map_congr_left
    intro t _
    simp [Function.comp, h]
  · rw [if_neg h]
    have : ((fun t : Expo × Vec R N => (t.1, (Vec.evalAt i) t.2)) ∘
        fun t : Expo × Vec R N => (t.1, Vec.ofFn fun j => if kk j == d then t.2.get j else 0)) =
        fun t => (t.1, (0 : R)) := by
      funext t
      simp [Function.comp, h]
    rw [this]
    exact denT_zero_cols (S := R) _ _

/-- the mask is additive per element (a consequence of `mask_denAt`) -/
theorem mask_denAt_add {N : Nat} (kk : Fin N → Nat) (d : Nat) (p q r : Poly (Vec R N)) (i : Fin N)
    (h : denAt r i = denAt p i + denAt q i) :
    denAt (mapCoef (fun v => Vec.ofFn fun j => if kk j == d then v.get j else 0) r) i =
      denAt (mapCoef (fun v => Vec.ofFn fun j => if kk j == d then v.get j else 0) p) i +
      denAt (mapCoef (fun v => Vec.ofFn fun j => if kk j == d then v.get j else 0) q) i := by
  simp only [mask_denAt, h]
  split <;> simp

/-- the zero polynomial array that the sum over the distinct exponents starts from -/
theorem zero_start_WF {S : Type} [CommSemiring S] (ns : List Name) (hn : ns.Nodup) :
    WF ({ names := ns.take 1, terms := [((ns.take 1).map fun _ => 0, (0 : S))] } : Poly S) := by
  refine ⟨hn.sublist (List.take_sublist 1 ns), by simp [Poly.expos], ?_⟩
  intro e he
  simp only [Poly.expos, List.map_cons, List.map_nil, List.mem_singleton] at he
  simp [he]

theorem zero_start_denAt {N : Nat} (ns : List Name) (i : Fin N) :
    denAt ({ names := ns.take 1, terms := [((ns.take 1).map fun _ => 0, 0)] } : Poly (Vec R N)) i = 0 := by
  simp [denAt, den, mapCoef]

/-- in a duplicate-free list exactly one summand of an indicator sum survives -/
theorem sum_indicator {M : Type} [AddCommMonoid M] (g : Nat → M) (k : Nat) :
    ∀ (ds : List Nat), ds.Nodup → k ∈ ds → (ds.map fun d => if k = d then g d else 0).sum = g k
  | [], _, h => by simp at h
  | d :: ds, hnd, hk => by
    simp only [List.nodup_cons] at hnd
    simp only [List.map_cons, List.sum_cons]
    by_cases hkd : k = d
    · subst hkd
      have : (ds.map fun d => if k = d then g d else 0) = ds.map fun _ => (0 : M) := by
        apply List.map_congr_left
        intro d' hd'
        have : k ≠ d' := fun h => hnd.1 (h ▸ hd')
        simp [this]
      simp [this]
    · have hk' : k ∈ ds := by
        rcases List.mem_cons.1 hk with h | h
        · exact absurd h hkd
        · exact h
      simp [hkd, sum_indicator g k ds hnd.2 hk']
end semi

section ring
variable [CommRing R] [BEq R] [LawfulBEq R]

/-! ### 2. the fold over the distinct exponents -/

/-- generic fold invariant: when every step adds the masked `d`-th power, the fold adds the sum of them -/
theorem powArr_fold {N : Nat} (kk : Fin N → Nat) (pa : Poly (Vec R N))
    (f : Option (Poly (Vec R N)) → Nat → Option (Poly (Vec R N)))
    (hf : ∀ s0 d, WF s0 → ∃ r, f (some s0) d = some r ∧ WF r ∧
      ∀ i, denAt r i = denAt s0 i + if kk i = d then denAt pa i ^ d else 0) :
    ∀ (ds : List Nat) (acc : Poly (Vec R N)), WF acc →
      ∃ r, ds.foldl f (some acc) = some r ∧ WF r ∧
        ∀ i, denAt r i = denAt acc i + (ds.map fun d => if kk i = d then denAt pa i ^ d else 0).sum
  | [], acc, hw => ⟨acc, rfl, hw, fun i => by simp⟩
  | d :: ds, acc, hw => by
    obtain ⟨r1, h1, w1, e1⟩ := hf acc d hw
    obtain ⟨r, h2, w2, e2⟩ := powArr_fold kk pa f hf ds r1 w1
    refine ⟨r, by rw [List.foldl_cons, h1, h2], w2, fun i => ?_⟩
    rw [e2, e1, List.map_cons, List.sum_cons, add_assoc]

/-- one step of the model's fold: add the masked `d`-th power (and: it is never `none` on well-formed input).
The step function is characterised by its value on `(some s0, some p)` so that the statement does not depend on the
auxiliary matcher the compiler generated for the model. -/
theorem powArr_step {N : Nat} (rc rn : Bool) (kk : Fin N → Nat) (pa : Poly (Vec R N)) (hpa : WF pa)
    (f : Option (Poly (Vec R N)) → Nat → Option (Poly (Vec R N)))
    (hf : ∀ s0 p d, powS rc rn pa d = some p → f (some s0) d =
      some (Np.add rc rn s0 (mapCoef (fun v => Vec.ofFn fun i => if kk i == d then v.get i else 0) p)))
    (s0 : Poly (Vec R N)) (d : Nat) (hs0 : WF s0) :
    ∃ r, f (some s0) d = some r ∧ WF r ∧
      ∀ i, denAt r i = denAt s0 i + if kk i = d then denAt pa i ^ d else 0 := by
  obtain ⟨p, hp, hd, hw⟩ := pow_den_WF rc rn pa hpa d
  have hm : WF (mapCoef (fun v : Vec R N => Vec.ofFn fun i => if kk i == d then v.get i else 0) p) :=
    WF_mapCoef _ _ hw
  refine ⟨_, hf s0 p d hp, WF_add rc rn _ _ hs0 hm, fun i => ?_⟩
  rw [add_denAt rc rn _ _ hs0 hm, mask_denAt]
  have : denAt p i = denAt pa i ^ d := by simp only [denAt, den_mapCoef, hd, map_pow]
  rw [this]

/-- the whole fold of `Arr.powArr`, started from the zero array, over a duplicate-free list `ds` that contains
every exponent: it succeeds, is well-formed and element `i` is `pa[i] ^ kk i` -/
theorem powArr_fold_model {N : Nat} (rc rn : Bool) (kk : Fin N → Nat) (pa : Poly (Vec R N)) (hpa : WF pa)
    (ds : List Nat) (hnd : ds.Nodup) (hmem : ∀ i, kk i ∈ ds)
    (f : Option (Poly (Vec R N)) → Nat → Option (Poly (Vec R N))) (res : Option (Poly (Vec R N)))
    (hfold : ds.foldl f (some { names := pa.names.take 1, terms := [((pa.names.take 1).map fun _ => 0, 0)] }) = res)
    (hf : ∀ s0 p d, powS rc rn pa d = some p → f (some s0) d =
      some (Np.add rc rn s0 (mapCoef (fun v => Vec.ofFn fun i => if kk i == d then v.get i else 0) p))) :
    ∃ r, res = some r ∧ WF r ∧ ∀ i, denAt r i = denAt pa i ^ kk i := by
  obtain ⟨r, hr, hw, he⟩ := powArr_fold kk pa f (powArr_step rc rn kk pa hpa f hf) ds _
    (zero_start_WF pa.names hpa.names_nodup)
  refine ⟨r, by rw [← hfold, hr], hw, fun i => ?_⟩
  rw [he, zero_start_denAt, zero_add, sum_indicator (fun d => denAt pa i ^ d) (kk i) ds hnd (hmem i)]

/-- the list of distinct exponents used by the model: duplicate-free and contains every exponent -/
theorem distinct_expos {N : Nat} (kk : Fin N → Nat) :
    (sortDedup natLt ((List.finRange N).map kk)).Nodup ∧
      ∀ i, kk i ∈ sortDedup natLt ((List.finRange N).map kk) :=
  ⟨nodup_of_sortedLt natLt_strictTotal _ (sortedLt_sortDedup natLt_strictTotal _),
   fun i => (mem_sortDedup natLt_strictTotal _ _).2 (List.mem_map.2 ⟨i, List.mem_finRange i, rfl⟩)⟩

theorem mkIndexMap_val {n m : Nat} {f : Nat → Nat} {σ : Fin n → Fin m} (h : mkIndexMap n m f = some σ) (i : Fin n) :
    (σ i).val = f i.val := by
  unfold mkIndexMap at h
  split at h
  · injection h with h; subst h; rfl
  · exact absurd h (by simp)

/-! ### 3. C01 for `poly ** array` -/

/-- what `Arr.powArr` computes once both broadcasts succeeded -/
theorem Arr.powArr_ok (rc rn : Bool) (a : Arr R) (kshape ks : List Nat) (ha : a.WF) (s : List Nat)
    (hs : bshape a.shape kshape = some s) (pa : Poly (Vec R (size s))) (hpa : a.bcast s = some pa)
    (σk : Fin (size s) → Fin (size kshape)) (hσk : mkIndexMap (size s) (size kshape) (bindex kshape s) = some σk) :
    ∃ p, Arr.powArr rc rn a kshape ks = .ok ⟨s, p⟩ ∧ Np.WF p ∧
      ∀ i, denAt p i = denAt pa i ^ ks.getD (σk i).val 0 := by
  obtain ⟨σa, _, hpa'⟩ := Arr.bcast_spec a s pa hpa
  have wpa : Np.WF pa := by rw [hpa']; exact WF_mapCoef _ _ ha
  obtain ⟨hnd, hmem⟩ := distinct_expos (fun i : Fin (size s) => ks.getD (σk i).val 0)
  unfold Arr.powArr
  simp only [hs, hpa, hσk]
  generalize hfold : List.foldl _ (some _) _ = res
  obtain ⟨p, hp, hw, he⟩ := powArr_fold_model rc rn (fun i : Fin (size s) => ks.getD (σk i).val 0) pa wpa _ hnd hmem
    _ res hfold (by intro s0 p d h; simp only [h])
  subst hp
  exact ⟨p, rfl, hw, he⟩

/-- C01 for `**` with an array of exponents: the result has numpy's broadcast shape, is well-formed, and every
element is the corresponding broadcast base element raised to the corresponding broadcast exponent -/
theorem Arr.powArr_spec (rc rn : Bool) (a : Arr R) (kshape ks : List Nat) (r : Arr R) (ha : a.WF)
    (h : Arr.powArr rc rn a kshape ks = .ok r) :
    r.WF ∧ bshape a.shape kshape = some r.shape ∧
      ∃ (σa : Fin (size r.shape) → Fin (size a.shape)) (σk : Fin (size r.shape) → Fin (size kshape)),
        (∀ i, (σa i).val = bindex a.shape r.shape i.val) ∧ (∀ i, (σk i).val = bindex kshape r.shape i.val) ∧
        ∀ i, r.elem i = a.elem (σa i) ^ (ks.getD (σk i).val 0) := by
  cases hs : bshape a.shape kshape with
  | none => simp [Arr.powArr, hs] at h
  | some s =>
    cases hpa : a.bcast s with
    | none => simp [Arr.powArr, hs, hpa] at h
    | some pa =>
      cases hσk : mkIndexMap (size s) (size kshape) (bindex kshape s) with
      | none => simp [Arr.powArr, hs, hpa, hσk] at h
      | some σk =>
        obtain ⟨p, hp, hw, he⟩ := Arr.powArr_ok rc rn a kshape ks ha s hs pa hpa σk hσk
        rw [hp] at h
        injection h with h
        subst h
        obtain ⟨σa, hσa, hpa'⟩ := Arr.bcast_spec a s pa hpa
        refine ⟨hw, rfl, σa, σk, hσa, fun i => mkIndexMap_val hσk i, fun i => ?_⟩
        show denAt p i = denAt a.poly (σa i) ^ _
        rw [he, hpa', gather_denAt]

/-- totality: on a well-formed base and shapes without zero-length axes, `Arr.powArr` either rejects the shapes
(`valueError`, exactly when numpy cannot broadcast them) or succeeds; it never reports `uninit` or `internal` -/
theorem Arr.powArr_total (rc rn : Bool) (a : Arr R) (kshape ks : List Nat) (ha : a.WF)
    (hsa : ∀ d ∈ a.shape, 0 < d) (hsk : ∀ d ∈ kshape, 0 < d) :
    (bshape a.shape kshape = none ∧ Arr.powArr rc rn a kshape ks = .error .valueError) ∨
    (∃ s p, bshape a.shape kshape = some s ∧ Arr.powArr rc rn a kshape ks = .ok ⟨s, p⟩) := by
  cases hs : bshape a.shape kshape with
  | none => exact .inl ⟨rfl, by simp [Arr.powArr, hs]⟩
  | some s =>
    obtain ⟨h1, h2⟩ := mkIndexMap_bindex hs hsa hsk
    cases hσa : mkIndexMap (size s) (size a.shape) (bindex a.shape s) with
    | none => exact absurd hσa h1
    | some σa =>
      cases hσk : mkIndexMap (size s) (size kshape) (bindex kshape s) with
      | none => exact absurd hσk h2
      | some σk =>
        have hpa : a.bcast s = some (mapCoef (Vec.gather σa) a.poly) := by simp [Arr.bcast, hσa]
        obtain ⟨p, hp, _, _⟩ := Arr.powArr_ok rc rn a kshape ks ha s hs _ hpa σk hσk
        exact .inr ⟨s, p, rfl, hp⟩

/-- in particular: broadcastable shapes without zero-length axes always give `.ok` -/
theorem Arr.powArr_total' (rc rn : Bool) (a : Arr R) (kshape ks : List Nat) (ha : a.WF)
    (hsa : ∀ d ∈ a.shape, 0 < d) (hsk : ∀ d ∈ kshape, 0 < d) (s : List Nat) (hs : bshape a.shape kshape = some s) :
    ∃ p, Arr.powArr rc rn a kshape ks = .ok ⟨s, p⟩ := by
  rcases Arr.powArr_total rc rn a kshape ks ha hsa hsk with ⟨h, _⟩ | ⟨s', p, h, hp⟩
  · rw [hs] at h; exact absurd h (by simp)
  · rw [hs] at h; injection h with h; subst h; exact ⟨p, hp⟩
end ring
end Np
